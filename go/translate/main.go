// Translator: regenerates coq/gen/Effects.v (go/ssa write/call summary of every function of the repository) and
// coq/gen/Tables.v (constant tables lifted from the source with go/ast).
package main

import (
	"flag"
	"fmt"
	"go/token"
	"go/types"
	"os"
	"path/filepath"
	"sort"
	"strings"

	"golang.org/x/tools/go/packages"
	"golang.org/x/tools/go/ssa"
	"golang.org/x/tools/go/ssa/ssautil"
)

const modPath = "github.com/launchdarkly/go-server-sdk-evaluation/v3"

// types whose values live for one Evaluate call (or one parse) only
var perCall = map[string]bool{
	modPath + ".evaluationScope": true, modPath + ".evaluationStack": true,
	modPath + "/internal.LocalBuffer": true, modPath + "/ldmodel.simpleASCIIScanner": true,
}

type class struct {
	kind string // local, percall, shared, global, unknown
	what string
}

func short(s string) string {
	s = strings.ReplaceAll(s, modPath+"/", "")
	s = strings.ReplaceAll(s, modPath+".", "")
	s = strings.ReplaceAll(s, modPath, "")
	return s
}

func namedOf(t types.Type) *types.Named {
	for {
		switch x := t.(type) {
		case *types.Pointer:
			t = x.Elem()
		case *types.Named:
			return x
		default:
			return nil
		}
	}
}

func classOfType(t types.Type) class {
	if n := namedOf(t); n != nil && n.Obj().Pkg() != nil {
		full := n.Obj().Pkg().Path() + "." + n.Obj().Name()
		if perCall[full] {
			return class{"percall", short(full)}
		}
		if _, ok := n.Underlying().(*types.Struct); ok {
			return class{"shared", short(full)}
		}
	}
	return class{"unknown", short(t.String())}
}

func worse(a, b class) class {
	rank := map[string]int{"local": 0, "percall": 1, "unknown": 2, "global": 3, "shared": 4}
	if rank[b.kind] > rank[a.kind] {
		return b
	}
	return a
}

// classify finds where the memory designated by v (an address, slice or map value) lives.
func classify(v ssa.Value, depth int, seen map[ssa.Value]bool) class {
	if depth > 40 || seen[v] {
		return class{"local", ""}
	}
	seen[v] = true
	switch x := v.(type) {
	case *ssa.Alloc, *ssa.MakeSlice, *ssa.MakeMap, *ssa.MakeChan, *ssa.MakeInterface, *ssa.MakeClosure, *ssa.Const:
		return class{"local", ""}
	case *ssa.Global:
		return class{"global", short(x.String())}
	case *ssa.FieldAddr:
		// a field of a struct reached through a pointer: the memory belongs to whatever that pointer designates
		c := classify(x.X, depth+1, seen)
		if c.kind == "unknown" {
			return classOfType(x.X.Type())
		}
		return c
	case *ssa.Field:
		c := classify(x.X, depth+1, seen)
		if c.kind == "unknown" || c.kind == "local" {
			// a slice/map/pointer stored in a struct VALUE: the referenced memory belongs with the struct's type
			if tc := classOfType(x.X.Type()); tc.kind == "percall" || tc.kind == "shared" {
				if c.kind == "local" && tc.kind == "shared" {
					// value copy of a shared struct: its slices still alias the shared backing arrays
					return tc
				}
				if c.kind == "local" {
					return class{"local", ""}
				}
				return tc
			}
		}
		return c
	case *ssa.IndexAddr:
		return classify(x.X, depth+1, seen)
	case *ssa.Index:
		return classify(x.X, depth+1, seen)
	case *ssa.Slice:
		return classify(x.X, depth+1, seen)
	case *ssa.UnOp:
		if x.Op == token.MUL { // load through a pointer: what is loaded lives where the pointer's owner lives ...
			// ... unless what is loaded is itself a pointer to a struct of the module that is not per-call data: such a
			// struct (the evaluator, a flag, a segment, a clause) is shared wherever the pointer to it happens to be kept
			if _, isPtr := x.Type().(*types.Pointer); isPtr {
				if tc := classOfType(x.Type()); tc.kind == "shared" {
					return tc
				}
			}
			c := classify(x.X, depth+1, seen)
			if c.kind == "local" {
				// loading a slice/pointer/map out of a LOCAL variable: follow the stores into that variable
				if a, ok := x.X.(*ssa.Alloc); ok {
					res := class{"local", ""}
					for _, ref := range *a.Referrers() {
						if st, ok := ref.(*ssa.Store); ok && st.Addr == a {
							res = worse(res, classify(st.Val, depth+1, seen))
						}
					}
					return res
				}
				if fa, ok := x.X.(*ssa.FieldAddr); ok {
					// field of a local struct copy (e.g. subScope := *es): the field's referent is shared with the source
					if tc := classOfType(fa.X.Type()); tc.kind == "percall" || tc.kind == "shared" {
						return tc
					}
				}
			}
			return c
		}
		return class{"local", ""}
	case *ssa.Parameter:
		return classOfType(x.Type())
	case *ssa.FreeVar:
		return classOfType(x.Type())
	case *ssa.Phi:
		res := class{"local", ""}
		for _, e := range x.Edges {
			res = worse(res, classify(e, depth+1, seen))
		}
		return res
	case *ssa.Extract:
		return classify(x.Tuple, depth+1, seen)
	case *ssa.ChangeType:
		return classify(x.X, depth+1, seen)
	case *ssa.Convert:
		return classify(x.X, depth+1, seen)
	case *ssa.Call:
		if b, ok := x.Call.Value.(*ssa.Builtin); ok && b.Name() == "append" && len(x.Call.Args) > 0 {
			return classify(x.Call.Args[0], depth+1, seen)
		}
		// memory returned by a call: fresh unless the type says otherwise
		if tc := classOfType(x.Type()); tc.kind == "percall" {
			return tc
		}
		return class{"unknown", "result of " + short(x.Call.Value.String())}
	case *ssa.Lookup:
		return classify(x.X, depth+1, seen)
	case *ssa.TypeAssert:
		return classify(x.X, depth+1, seen)
	}
	return class{"unknown", fmt.Sprintf("%T", v)}
}

// storageOfGlobal: v designates (part of) the storage of a package-level variable itself -- reached by slicing,
// indexing or field selection only, with no load in between (a pointer merely stored in a global is something else).
func storageOfGlobal(v ssa.Value) *ssa.Global {
	for i := 0; i < 20; i++ {
		switch x := v.(type) {
		case *ssa.Global:
			return x
		case *ssa.Slice:
			v = x.X
		case *ssa.IndexAddr:
			v = x.X
		case *ssa.FieldAddr:
			v = x.X
		case *ssa.ChangeType:
			v = x.X
		case *ssa.Convert:
			v = x.X
		default:
			return nil
		}
	}
	return nil
}

type effect struct{ text string }

func coqStr(s string) string { return "\"" + strings.ReplaceAll(s, "\"", "'") + "\"" }

func wclass(c class) string {
	switch c.kind {
	case "local":
		return "WLocal"
	case "percall":
		return "(WPerCall " + coqStr(c.what) + ")"
	case "shared":
		return "(WShared " + coqStr(c.what) + ")"
	case "global":
		return "(WGlobal " + coqStr(c.what) + ")"
	}
	return "(WUnknown " + coqStr(c.what) + ")"
}

func inModule(fn *ssa.Function) bool {
	if fn == nil {
		return false
	}
	p := fn.Package()
	if p == nil && fn.Parent() != nil {
		return inModule(fn.Parent())
	}
	return p != nil && strings.HasPrefix(p.Pkg.Path(), modPath)
}

func main() {
	repo := flag.String("repo", "/repo", "repository")
	out := flag.String("out", ".", "output directory")
	_ = flag.String("snapshot", "", "snapshot directory")
	flag.Parse()
	cfg := &packages.Config{Mode: packages.LoadAllSyntax, Dir: *repo, Tests: false}
	pkgs, err := packages.Load(cfg, "./...")
	if err != nil || packages.PrintErrors(pkgs) > 0 {
		fmt.Println("EFFECTS: failed (packages did not load)")
		os.Exit(1)
	}
	prog, _ := ssautil.AllPackages(pkgs, ssa.InstantiateGenerics)
	prog.Build()
	all := ssautil.AllFunctions(prog)
	var fns []*ssa.Function
	for fn := range all {
		if inModule(fn) && fn.Blocks != nil && !strings.HasSuffix(fn.Name(), "$bound") && fn.Synthetic == "" {
			fns = append(fns, fn)
		}
	}
	// closures are listed too (AllFunctions includes them); wrappers are skipped via Synthetic
	sort.Slice(fns, func(i, j int) bool { return fns[i].String() < fns[j].String() })
	// module methods by name, to resolve calls through the module's own interfaces
	methodsByName := map[string][]string{}
	for _, fn := range fns {
		if fn.Signature.Recv() != nil {
			methodsByName[fn.Name()] = append(methodsByName[fn.Name()], short(fn.String()))
		}
	}
	var sb strings.Builder
	sb.WriteString("(* GENERATED by go/translate from the repository source on every check run. Do not edit. *)\n")
	sb.WriteString("From LD Require Import EffectsDefs.\nFrom Coq Require Import String List.\nImport ListNotations.\nOpen Scope string_scope.\n\n")
	sb.WriteString("Definition functions : list fn := [\n")
	nwrites, nfn := 0, 0
	for i, fn := range fns {
		var effs []string
		addCall := func(callee *ssa.Function) {
			if callee == nil {
				return
			}
			if inModule(callee) {
				effs = append(effs, "ECall "+coqStr(short(callee.String())))
			} else {
				name := callee.String()
				if callee.Pkg != nil && (callee.Pkg.Pkg.Path() == "sync" || callee.Pkg.Pkg.Path() == "sync/atomic") {
					effs = append(effs, "ESync "+coqStr(name))
				} else {
					effs = append(effs, "ECallExt "+coqStr(name))
				}
			}
		}
		for _, b := range fn.Blocks {
			for _, ins := range b.Instrs {
				pos := prog.Fset.Position(ins.Pos())
				where := fmt.Sprintf("%s:%d", filepath.Base(pos.Filename), pos.Line)
				switch x := ins.(type) {
				case *ssa.Store:
					c := classify(x.Addr, 0, map[ssa.Value]bool{})
					effs = append(effs, "EWrite "+wclass(c)+" "+coqStr(where))
					nwrites++
				case *ssa.MapUpdate:
					c := classify(x.Map, 0, map[ssa.Value]bool{})
					effs = append(effs, "EWrite "+wclass(c)+" "+coqStr(where))
					nwrites++
				case *ssa.Go:
					effs = append(effs, "EGo "+coqStr(where))
				case *ssa.Send:
					effs = append(effs, "ESync "+coqStr("chan send "+where))
				case *ssa.Select:
					effs = append(effs, "ESync "+coqStr("select "+where))
				case *ssa.MakeClosure:
					addCall(x.Fn.(*ssa.Function))
				}
				if call, ok := ins.(ssa.CallInstruction); ok {
					cc := call.Common()
					if cc.IsInvoke() {
						recvT := short(cc.Value.Type().String())
						if n := namedOf(cc.Value.Type()); n != nil && n.Obj().Pkg() != nil && strings.HasPrefix(n.Obj().Pkg().Path(), modPath) &&
							!n.Obj().Exported() {
							// the module's own unexported interface (evalError): resolve to its implementations
							for _, m := range methodsByName[cc.Method.Name()] {
								effs = append(effs, "ECall "+coqStr(m))
							}
						} else if cc.Method.Name() == "Error" && recvT == "error" {
							for _, m := range methodsByName["Error"] {
								effs = append(effs, "ECall "+coqStr(m))
							}
						} else {
							effs = append(effs, "ECallIface "+coqStr(recvT+"."+cc.Method.Name()))
						}
					} else if b, ok := cc.Value.(*ssa.Builtin); ok {
						switch b.Name() {
						case "append":
							// append may write into the spare capacity of its first argument
							if len(cc.Args) > 0 {
								c := classify(cc.Args[0], 0, map[ssa.Value]bool{})
								effs = append(effs, "EWrite "+wclass(c)+" "+coqStr(where+" append"))
								nwrites++
							}
						case "copy":
							c := classify(cc.Args[0], 0, map[ssa.Value]bool{})
							effs = append(effs, "EWrite "+wclass(c)+" "+coqStr(where+" copy"))
							nwrites++
						case "delete":
							c := classify(cc.Args[0], 0, map[ssa.Value]bool{})
							effs = append(effs, "EWrite "+wclass(c)+" "+coqStr(where+" delete"))
							nwrites++
						}
					} else if callee := cc.StaticCallee(); callee != nil {
						addCall(callee)
					} else {
						// call through a function value
						switch v := cc.Value.(type) {
						case *ssa.MakeClosure:
							addCall(v.Fn.(*ssa.Function))
						default:
							effs = append(effs, "ECallDyn "+coqStr(short(cc.Value.Type().String())))
						}
					}
					// the storage of a package-level variable handed to code outside the module (a slice of a global array,
					// the address of a global or of one of its fields / elements): the callee may write into it
					if callee := cc.StaticCallee(); cc.IsInvoke() || callee == nil || !inModule(callee) {
						for _, a := range cc.Args {
							if g := storageOfGlobal(a); g != nil {
								effs = append(effs, "EWrite "+wclass(class{"global", short(g.String())})+" "+coqStr(where+" escapes to a call outside the module"))
								nwrites++
							}
						}
					}
					// functions passed as arguments may be called by the callee
					for _, a := range cc.Args {
						switch v := a.(type) {
						case *ssa.Function:
							addCall(v)
						case *ssa.MakeClosure:
							addCall(v.Fn.(*ssa.Function))
						}
					}
				}
			}
		}
		// dedupe, keep order
		seen := map[string]bool{}
		var uniq []string
		for _, e := range effs {
			if !seen[e] {
				seen[e] = true
				uniq = append(uniq, e)
			}
		}
		sep := ";"
		if i == len(fns)-1 {
			sep = ""
		}
		sb.WriteString(fmt.Sprintf("  mkfn %s [%s]%s\n", coqStr(short(fn.String())), strings.Join(uniq, "; "), sep))
		nfn++
	}
	sb.WriteString("].\n")
	path := filepath.Join(*out, "Effects.v")
	old, _ := os.ReadFile(path)
	if string(old) != sb.String() {
		os.WriteFile(path, []byte(sb.String()), 0o644)
	}
	fmt.Printf("EFFECTS: regenerated functions=%d write_sites=%d\n", nfn, nwrites)
	if err := genTables(*repo, *out, pkgs); err != nil {
		fmt.Println("TABLES: degraded (" + err.Error() + ")")
	}
}

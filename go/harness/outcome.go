package main

import (
	"fmt"
	"strings"
)

// Helpers to read an encoded outcome (Wire.v e_outcome) and project it.

func (t *T) at(i int) *T {
	if t == nil || t.Kind != 2 || i >= len(t.L) {
		return nil
	}
	return t.L[i]
}
func (t *T) tag() uint64 { return t.at(0).atomU() }

type Out struct {
	T       *T
	Status  uint64 // 1 done, 2 panic, 3 timeout/out-of-fuel, 98 undecodable, 99 malformed case
	Detail  *T
	Value   *T
	Index   *T // L[] or L[AZ]
	Reason  *T
	RKind   *T
	RTag    uint64 // 1 off 2 fallthrough 3 target 4 rule 5 prereq-failed 6 error
	ErrKind uint64
	InExp   bool
	BigSeg  *T
	IsExp   bool
	Trace   []*T
}

func decodeOut(t *T) *Out {
	o := &Out{T: t}
	if t == nil {
		o.Status = 99
		return o
	}
	o.Status = t.tag()
	if o.Status != 1 {
		return o
	}
	o.Detail = t.at(1)
	o.Value = o.Detail.at(0)
	o.Index = o.Detail.at(1)
	o.Reason = o.Detail.at(2)
	o.RKind = o.Reason.at(0)
	o.RTag = o.RKind.tag()
	if o.RTag == 6 {
		o.ErrKind = o.RKind.at(1).atomU()
	}
	o.InExp = o.Reason.at(1).atomU() != 0
	o.BigSeg = o.Reason.at(2)
	o.IsExp = t.at(2).atomU() != 0
	if tr := t.at(3); tr != nil {
		o.Trace = tr.L
	}
	return o
}

func (o *Out) traceOf(tags ...uint64) string {
	var sb strings.Builder
	for _, x := range o.Trace {
		for _, tg := range tags {
			if x.tag() == tg {
				sb.WriteString(x.String())
				sb.WriteByte(';')
			}
		}
	}
	return sb.String()
}

func (o *Out) statusStr() string {
	switch o.Status {
	case 1:
		return "done"
	case 2:
		return "PANIC"
	case 3:
		return "NONTERMINATION"
	case 98:
		return "undecodable"
	}
	return fmt.Sprintf("status%d", o.Status)
}

// events restricted to some fields
func (o *Out) eventsProj(f func(ev *T) string) string {
	var sb strings.Builder
	for _, x := range o.Trace {
		if x.tag() == 6 {
			sb.WriteString(f(x))
			sb.WriteByte(';')
		}
	}
	return sb.String()
}

func detailNoStatus(d *T) string {
	if d == nil {
		return "<nil>"
	}
	r := d.at(2)
	return d.at(0).String() + d.at(1).String() + r.at(0).String() + r.at(1).String()
}

// project returns the slice of the outcome that property `prop` is about.
func project(prop string, o *Out) string {
	if o.Status != 1 {
		return o.statusStr()
	}
	switch prop {
	case "C01":
		cls := fmt.Sprintf("idx=%v null=%v r=%d ek=%d", len(o.Index.L) > 0, o.Value.tag() == 0, o.RTag, o.ErrKind)
		if o.RTag == 6 && o.ErrKind == 2 {
			cls += fmt.Sprintf(" storecalls=%d", len(o.Trace))
		}
		return cls
	case "C02":
		return o.Value.String() + o.Index.String() + o.RKind.String()
	case "C03":
		return fmt.Sprintf("target=%v idx=%s", o.RTag == 3, o.Index.String())
	case "C04", "C05", "C18":
		return fmt.Sprintf("r=%d ek=%d", o.RTag, o.ErrKind)
	case "C06", "C07":
		return o.Index.String() + fmt.Sprintf(" r=%d", o.RTag)
	case "C08":
		return fmt.Sprintf("inexp=%v isexp=%v r=%d ", o.InExp, o.IsExp, o.RTag) +
			o.eventsProj(func(ev *T) string { return ev.at(4).at(2).at(1).String() + ev.at(5).String() })
	case "C09":
		return detailNoStatus(o.Detail) + "|" + o.traceOf(1) + "|" +
			o.eventsProj(func(ev *T) string {
				return ev.at(1).String() + ev.at(2).String() + ev.at(3).String() + detailNoStatus(ev.at(4)) + ev.at(5).String() + ev.at(6).String() + ev.at(7).String()
			})
	case "C10":
		// the store reads show how far the walk went: a re-entered flag or segment must end it at once
		return fmt.Sprintf("r=%d ek=%d|", o.RTag, o.ErrKind) + o.traceOf(1, 2) + "|" +
			o.eventsProj(func(ev *T) string { return ev.at(1).String() + ev.at(2).String() })
	case "C11":
		return o.BigSeg.String() + "|" + o.traceOf(3, 4) + "|" + o.Index.String() + fmt.Sprintf(" r=%d", o.RTag) + "|" +
			o.eventsProj(func(ev *T) string { return ev.at(4).at(2).at(2).String() })
	case "C19":
		return fmt.Sprintf("r=%d ek=%d|", o.RTag, o.ErrKind) + o.traceOf(5)
	case "C19-coarse":
		// what the property asks of a line: it names the flag and the nature of the problem. Used only when a line of the
		// implementation is not in the wording the strict parser knows (a reworded message is not a violation).
		var sb strings.Builder
		fmt.Fprintf(&sb, "r=%d ek=%d|", o.RTag, o.ErrKind)
		for _, x := range o.Trace {
			if x.tag() == 5 {
				sb.WriteString(coarseLog(x))
				sb.WriteByte(';')
			}
		}
		return sb.String()
	case "C20":
		return detailNoStatus(o.Detail)
	}
	return o.T.String() // full outcome
}

// knownFlagKeys: the flag keys of the case being projected (set by the caller), longest first.
var knownFlagKeys []string

func coarseLog(x *T) string {
	key, e := string(x.at(1).S), x.at(2)
	class := "unknown"
	switch e.tag() {
	case 1:
		class = "variation"
	case 2:
		class = "no-attribute"
	case 3:
		class = "bad-reference"
	case 4:
		class = "empty-rollout"
	case 5:
		class = "prerequisite-cycle"
	case 6, 7:
		class = "segment"
	case 50:
		line := strings.ToLower(string(e.at(1).S))
		has := func(ws ...string) bool {
			for _, w := range ws {
				if !strings.Contains(line, w) {
					return false
				}
			}
			return true
		}
		switch {
		case has("segment"):
			class = "segment"
		case has("prerequisite") && (has("circular") || has("cycle")):
			class = "prerequisite-cycle"
		case has("no variations") || (has("rollout") && (has("empty") || has("no "))):
			class = "empty-rollout"
		case has("variation"):
			class = "variation"
		case has("attribute") && (has("did not specify") || has("missing") || has("no attribute") || has("empty")):
			class = "no-attribute"
		case has("attribute") || has("reference"):
			class = "bad-reference"
		}
		if key == "?" { // the strict parser could not find the key: accept any known flag key that the line spells out
			raw := string(e.at(1).S)
			for _, k := range knownFlagKeys {
				if strings.Contains(raw, k) || strings.Contains(raw, fmt.Sprintf("%q", k)) {
					key = k
					break
				}
			}
		}
	}
	return key + ":" + class
}

package main

import (
	"math"
	"math/big"
	"strconv"
	"strings"
)

// T is the prefix-coded tree exchanged with the Gallina model (Wire.v): atom, byte string or list.
type T struct {
	Kind int // 0 atom, 1 bytes, 2 list
	N    string
	S    []byte
	L    []*T
}

func A(n uint64) *T { return &T{Kind: 0, N: strconv.FormatUint(n, 10)} }
func Ab(b bool) *T {
	if b {
		return A(1)
	}
	return A(0)
}
func zzBig(z *big.Int) string {
	r := new(big.Int)
	if z.Sign() >= 0 {
		r.Mul(z, big.NewInt(2))
	} else {
		r.Mul(z, big.NewInt(-2))
		r.Sub(r, big.NewInt(1))
	}
	return r.String()
}
func AZ(z int64) *T         { return &T{Kind: 0, N: zzBig(big.NewInt(z))} }
func AZbig(z *big.Int) *T   { return &T{Kind: 0, N: zzBig(z)} }
func S(b string) *T         { return &T{Kind: 1, S: []byte(b)} }
func L(items ...*T) *T      { return &T{Kind: 2, L: items} }
func LL(items []*T) *T      { return &T{Kind: 2, L: items} }
func Opt(x *T) *T {
	if x == nil {
		return L()
	}
	return L(x)
}

func (t *T) flat(sb *strings.Builder) {
	switch t.Kind {
	case 0:
		sb.WriteString("0 ")
		sb.WriteString(t.N)
		sb.WriteByte(' ')
	case 1:
		sb.WriteString("1 ")
		sb.WriteString(strconv.Itoa(len(t.S)))
		sb.WriteByte(' ')
		for _, b := range t.S {
			sb.WriteString(strconv.Itoa(int(b)))
			sb.WriteByte(' ')
		}
	case 2:
		sb.WriteString("2 ")
		sb.WriteString(strconv.Itoa(len(t.L)))
		sb.WriteByte(' ')
		for _, x := range t.L {
			x.flat(sb)
		}
	}
}

func (t *T) Line() string {
	var sb strings.Builder
	t.flat(&sb)
	return strings.TrimRight(sb.String(), " ")
}

func parseT(toks []string, pos *int) *T {
	if *pos+1 >= len(toks) {
		return nil
	}
	tag := toks[*pos]
	arg := toks[*pos+1]
	*pos += 2
	switch tag {
	case "0":
		return &T{Kind: 0, N: arg}
	case "1":
		k, _ := strconv.Atoi(arg)
		if *pos+k > len(toks) {
			return nil
		}
		b := make([]byte, k)
		for i := 0; i < k; i++ {
			v, _ := strconv.Atoi(toks[*pos+i])
			b[i] = byte(v)
		}
		*pos += k
		return &T{Kind: 1, S: b}
	case "2":
		k, _ := strconv.Atoi(arg)
		items := make([]*T, 0, k)
		for i := 0; i < k; i++ {
			x := parseT(toks, pos)
			if x == nil {
				return nil
			}
			items = append(items, x)
		}
		return &T{Kind: 2, L: items}
	}
	return nil
}

func ParseLine(line string) *T {
	toks := strings.Fields(line)
	pos := 0
	t := parseT(toks, &pos)
	if t == nil || pos != len(toks) {
		return nil
	}
	return t
}

func (t *T) atomU() uint64 {
	if t == nil || t.Kind != 0 {
		return 0
	}
	v, _ := strconv.ParseUint(t.N, 10, 64)
	return v
}
func (t *T) atomZ() *big.Int {
	n, _ := new(big.Int).SetString(t.N, 10)
	if n == nil {
		return big.NewInt(0)
	}
	r := new(big.Int)
	if n.Bit(0) == 0 {
		r.Rsh(n, 1)
	} else {
		r.Add(n, big.NewInt(1))
		r.Rsh(r, 1)
		r.Neg(r)
	}
	return r
}

// Human-readable rendering of a tree, for replay files.
func (t *T) String() string {
	if t == nil {
		return "<nil>"
	}
	switch t.Kind {
	case 0:
		return t.N
	case 1:
		return strconv.Quote(string(t.S))
	}
	parts := make([]string, len(t.L))
	for i, x := range t.L {
		parts[i] = x.String()
	}
	return "[" + strings.Join(parts, " ") + "]"
}

// dyadic normal form of a float64: odd mantissa times 2^e (0,0 for zero)
func dyOfFloat(f float64) (*big.Int, int64) {
	if f == 0 || math.IsNaN(f) || math.IsInf(f, 0) {
		return big.NewInt(0), 0
	}
	bits := math.Float64bits(f)
	neg := bits>>63 != 0
	exp := int64((bits >> 52) & 0x7ff)
	frac := bits & ((1 << 52) - 1)
	var m uint64
	var e int64
	if exp == 0 {
		m = frac
		e = -1074
	} else {
		m = frac | (1 << 52)
		e = exp - 1075
	}
	for m&1 == 0 {
		m >>= 1
		e++
	}
	bm := new(big.Int).SetUint64(m)
	if neg {
		bm.Neg(bm)
	}
	return bm, e
}

func dyNormBig(m *big.Int, e int64) (*big.Int, int64) {
	if m.Sign() == 0 {
		return big.NewInt(0), 0
	}
	m = new(big.Int).Set(m)
	for m.Bit(0) == 0 {
		m.Rsh(m, 1)
		e++
	}
	return m, e
}

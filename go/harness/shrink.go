package main

import (
	"fmt"
)

// shrinkEval: greedy minimisation of a case on which implementation and model disagree on a property's projection.
// Candidate reductions (drop a stored flag / segment, a rule, a clause, a target list, a prerequisite, a context
// attribute, an individual context; turn the form into "decoded") are tried in rounds; a candidate is kept when the two
// sides still disagree on the projection. Every candidate is evaluated by the real library and by the extracted model.
func shrinkEval(prop string, c *EvalCase, driver, out string) (*EvalCase, int) {
	disagrees := func(cands []*EvalCase) []bool {
		lines := make([]string, len(cands))
		gos := make([]*T, len(cands))
		for i, d := range cands {
			lines[i] = wireCase(d).Line()
			gos[i] = runGo(d)
		}
		ml, err := runDriver(driver, lines, out, "shrink")
		res := make([]bool, len(cands))
		if err != nil || len(ml) != len(cands) {
			return res
		}
		for i := range cands {
			mo, gout := decodeOut(ParseLine(ml[i])), decodeOut(gos[i])
			if mo.Status == 99 || (gout.Status == 3 && len(gos[i].L) > 1) {
				continue
			}
			res[i] = project(prop, gout) != project(prop, mo)
		}
		return res
	}
	dropIdx := func(a []*J, i int) []*J { return append(append([]*J{}, a[:i]...), a[i+1:]...) }
	candidates := func(c *EvalCase) []*EvalCase {
		var cs []*EvalCase
		add := func(f func(d *EvalCase) bool) {
			d := cloneCase(c)
			if f(d) {
				cs = append(cs, d)
			}
		}
		for i := range c.Flags {
			i := i
			add(func(d *EvalCase) bool { d.Flags = append(d.Flags[:i:i], d.Flags[i+1:]...); return true })
		}
		for i := range c.Segs {
			i := i
			add(func(d *EvalCase) bool { d.Segs = append(d.Segs[:i:i], d.Segs[i+1:]...); return true })
		}
		docs := func(d *EvalCase) []*J {
			ds := []*J{d.Top.Doc}
			for _, it := range d.Flags {
				ds = append(ds, it.Doc)
			}
			for _, it := range d.Segs {
				ds = append(ds, it.Doc)
			}
			return ds
		}
		for di, doc := range docs(c) {
			for _, listKey := range []string{"rules", "prerequisites", "targets", "contextTargets", "includedContexts", "excludedContexts", "included", "excluded"} {
				l := doc.Get(listKey)
				if l == nil || l.K != 'a' {
					continue
				}
				for i := range l.A {
					di, listKey, i := di, listKey, i
					add(func(d *EvalCase) bool {
						x := docs(d)[di].Get(listKey)
						x.A = dropIdx(x.A, i)
						return true
					})
				}
				if listKey == "rules" {
					for ri, ru := range l.A {
						cl := ru.Get("clauses")
						if cl == nil || cl.K != 'a' {
							continue
						}
						for ci := range cl.A {
							di, ri, ci := di, ri, ci
							add(func(d *EvalCase) bool {
								x := docs(d)[di].Get("rules").A[ri].Get("clauses")
								x.A = dropIdx(x.A, ci)
								return true
							})
						}
					}
				}
			}
		}
		for si, sp := range c.Ctx.Singles {
			for ai := range sp.Attrs {
				si, ai := si, ai
				add(func(d *EvalCase) bool {
					a := d.Ctx.Singles[si].Attrs
					d.Ctx.Singles[si].Attrs = append(append([]KV{}, a[:ai]...), a[ai+1:]...)
					return true
				})
			}
			if c.Ctx.Multi && len(c.Ctx.Singles) > 2 {
				si := si
				add(func(d *EvalCase) bool {
					d.Ctx.Singles = append(append([]SingleSpec{}, d.Ctx.Singles[:si]...), d.Ctx.Singles[si+1:]...)
					return true
				})
			}
		}
		if c.Top.Form != 1 {
			add(func(d *EvalCase) bool { d.Top.Form = 1; return true })
		}
		for i, it := range c.Flags {
			if it.Form != 1 {
				i := i
				add(func(d *EvalCase) bool { d.Flags[i].Form = 1; return true })
			}
		}
		for i, it := range c.Segs {
			if it.Form != 1 {
				i := i
				add(func(d *EvalCase) bool { d.Segs[i].Form = 1; return true })
			}
		}
		return cs
	}
	cur, steps := c, 0
	for round := 0; round < 40; round++ {
		cs := candidates(cur)
		if len(cs) == 0 {
			break
		}
		ok := disagrees(cs)
		next := -1
		for i, b := range ok {
			if b {
				next = i
				break
			}
		}
		if next < 0 {
			break
		}
		cur = cs[next]
		steps++
	}
	return cur, steps
}

func sizeOfCase(c *EvalCase) string {
	n := len(c.Top.Doc.Text())
	for _, it := range c.Flags {
		n += len(it.Doc.Text())
	}
	for _, it := range c.Segs {
		n += len(it.Doc.Text())
	}
	return fmt.Sprintf("%d bytes of configuration, %d stored flags, %d stored segments", n, len(c.Flags), len(c.Segs))
}

package main

import (
	"encoding/json"
	"fmt"
	"os"
	"path/filepath"
	"sort"
	"strings"
)

func profileFor(prop string) Profile {
	p := baseProfile(prop)
	switch prop {
	case "C01":
		p.PMalformed, p.PInvalidCtx, p.Chain = 0.22, 0.1, 4
		p.PSingleMal = 0.25
		p.PLongHash = 0.03
		p.PLongStrings, p.PLongKeys = 0.08, 0.6 // hash inputs that outgrow the 100-byte buffer in every way its growth distinguishes
	case "C02":
		p.PPrereq, p.PTargets, p.PCtxTargets, p.MaxRules = 0.5, 0.5, 0.3, 4
		p.PMalformed = 0.04 // a malformed clause or index that the deciding stage never reaches must not change the decision
		p.PPlaceholders = 0.2
		p.PKindAttr, p.PMulti = 0.15, 0.4 // clauses on the built-in attribute "kind" against multi-kind contexts (pseudo-kind "multi")
	case "C03":
		p.PTargets, p.PCtxTargets, p.PMulti, p.MaxRules, p.PPrereq, p.MaxSegs = 0.85, 0.65, 0.5, 1, 0.1, 1
		p.PLegacy = 0.35 // legacy users: the only way to an empty key
		p.PPlaceholders = 0.25
		p.PKindInTargets = 0.1
	case "C04":
		p.MaxRules, p.MaxClauses, p.PSegmentOp, p.PPrereq, p.PTargets, p.PCtxTargets, p.PKindAttr, p.PRollout = 2, 3, 0.03, 0.12, 0.05, 0.05, 0.15, 0.1
		p.MaxFlags, p.MaxSegs, p.POff = 2, 1, 0.02 // a few prerequisites: a malformed clause reached inside one ends the whole evaluation
		p.Ops = append(append([]string{}, allOps...), "in", "in", "in") // equality sets have a precomputed form of their own
		p.PZeroAge = 0.2
		p.PDateAttr = 0.35
		p.PMissingAttr, p.MaxClauses = 0.06, 3
		p.PSingleMal = 0.08 // a malformed clause must end the evaluation wherever it is reached (also inside a prerequisite)
	case "C05":
		p.PSegmentOp, p.PBigSeg, p.MinSegs, p.MaxSegs, p.PPrereq, p.PTargets, p.PCtxTargets, p.POff = 0.75, 0.0, 2, 5, 0.05, 0.05, 0.05, 0.02
		p.PMulti = 0.5
		p.PNestedSeg = 0.1
		p.PTopBucket = 0.01
		p.PPseudoKind = 0.12
		p.PLegacy, p.PEmptyKeyLists = 0.3, 0.6
	case "C06":
		p.PRollout, p.PLongStrings, p.PPrereq, p.PTargets, p.PCtxTargets, p.POff, p.MaxRules = 0.95, 0.25, 0, 0.02, 0.02, 0.02, 1
		p.PSegmentOp, p.MinSegs, p.MaxClauses = 0.45, 2, 1 // weighted segment rules (incl. ones that look into another segment) share the hash
		p.PNestedSeg = 0.12
		p.PTopBucket = 0.01
		p.PLongHash = 0.03
		p.PSegTwoRules = 0.06
		p.PZeroAge = 0.12
		p.PSegBucket = 0.3 // weighted segment rules with a bucket-by attribute; an invalid reference gives MALFORMED_FLAG at every weight
	case "C07":
		p.PRollout, p.PBoundary, p.PDegenerateWeights, p.PPrereq, p.PTargets, p.PCtxTargets, p.POff, p.PExperiment = 0.95, 0.75, 0.4, 0, 0.02, 0.02, 0.02, 0.2
		p.PSegmentOp = 0.4
		p.PNestedSeg = 0.1
		p.PTopBucket = 0.015
	case "C08":
		p.PRollout, p.PExperiment, p.PDegenerateWeights, p.PMulti, p.PPrereq, p.POff = 0.9, 0.75, 0.45, 0.5, 0.3, 0.08
	case "C09":
		p.PPrereq, p.MinFlags, p.MaxFlags, p.MaxPrereq, p.PMalformed, p.PRecorderOpt, p.POff = 0.9, 3, 6, 3, 0.12, 0.9, 0.2
	case "C13":
		// what concurrent calls could share: the hash buffer once it has outgrown its 100 preallocated bytes, the chains beyond
		// their 20 preallocated entries
		p.PRollout, p.PLongStrings, p.PLongKeys, p.Chain = 0.6, 0.15, 0.6, 30
		p.PLongHash = 0.12
	case "C10":
		p.Chain, p.PPrereq, p.PSegmentOp, p.MinFlags, p.MinSegs = 60, 0.7, 0.6, 3, 3
		p.PForm0 = 0.45 // cycles all of whose members were never preprocessed must be found as well
	case "C11":
		p.PBigSeg, p.PSegmentOp, p.PPrereq, p.MinSegs, p.MaxSegs, p.PMulti, p.MinFlags = 0.7, 0.7, 0.5, 2, 5, 0.5, 2
	case "C19":
		p.PMalformed, p.PLoggerOpt, p.PPrereq, p.PSegmentOp, p.MinFlags = 0.25, 0.75, 0.6, 0.4, 2
		p.PSingleMal = 0.25
	case "C18":
		p.Ops = []string{"before", "after", "before", "after", "in"}
		p.PDateAttr = 0.7
		p.MaxRules, p.MaxClauses, p.PSegmentOp, p.PPrereq, p.PTargets, p.PCtxTargets, p.PRollout, p.POff = 2, 2, 0.03, 0, 0.02, 0.02, 0.05, 0.02
	case "C20":
		// value order inside equality sets and key order inside target lists are two of the perturbation families
		p.Ops = append(append([]string{}, allOps...), "in", "in", "in")
		p.PTargets, p.PCtxTargets, p.PZeroAge = 0.4, 0.3, 0.15
		p.PLegacy, p.PSecondaryOpt, p.PRollout = 0.4, 0.7, 0.5 // the legacy secondary key belongs to the user, whatever else is in the context
	case "C14":
		p.PDocNoise = 0.1
		p.PLongValues = 0.05
		// what the preprocessor touches: equality sets, regex / date / semver operands, target and segment key lists
		p.Ops = append(append([]string{}, allOps...), "in", "in", "matches", "before", "after", "before", "after", "semVerEqual", "semVerLessThan", "semVerGreaterThan")
		p.PSegmentOp, p.MinSegs, p.PTargets, p.PCtxTargets, p.POff, p.PPrereq = 0.3, 1, 0.4, 0.3, 0.05, 0.2
		p.PDateAttr, p.PZeroAge = 0.4, 0.35
	}
	return p
}

// nontrivial says whether a case exercises the property's interesting region (measured on the model's outcome).
func nontrivial(prop string, c *EvalCase, o *Out) bool {
	if o.Status != 1 {
		return true
	}
	top := c.Top.Doc
	cnt := func(k string) int {
		n := 0
		for _, kv := range top.O {
			if kv.K == k && kv.V.K == 'a' {
				n += len(kv.V.A)
			}
		}
		return n
	}
	on := false
	if v := top.Get("on"); v != nil && v.K == 'b' {
		on = v.B
	}
	nested := 0
	events, bsq, logs := 0, 0, 0
	for _, x := range o.Trace {
		switch x.tag() {
		case 1, 2:
			nested++
		case 3:
			bsq++
		case 5:
			logs++
		case 6:
			events++
		}
	}
	text := top.Text()
	switch prop {
	case "C01":
		return o.RTag == 6 || nested >= 2
	case "C02":
		stages := 0
		if cnt("prerequisites") > 0 {
			stages++
		}
		if cnt("targets")+cnt("contextTargets") > 0 {
			stages++
		}
		if cnt("rules") > 0 {
			stages++
		}
		return on && stages >= 2
	case "C03":
		return on && cnt("targets")+cnt("contextTargets") >= 2
	case "C04", "C18":
		return on && cnt("rules") > 0 && strings.Contains(text, `"clauses":[{`) && (o.RTag == 4 || o.RTag == 2 || o.RTag == 6)
	case "C05":
		return on && nested >= 1 && strings.Contains(text, "segmentMatch")
	case "C06", "C07":
		return on && strings.Contains(text, `"rollout"`) && (o.RTag == 2 || o.RTag == 4)
	case "C08":
		return strings.Contains(text, `"experiment"`) && (o.RTag == 2 || o.RTag == 4)
	case "C09":
		return nested >= 2 || (o.RTag == 6 && cnt("prerequisites") > 0)
	case "C10":
		return nested > 20 || (o.RTag == 6 && o.ErrKind == 1 && nested >= 1)
	case "C11":
		return bsq > 0 || len(o.BigSeg.L) > 0
	case "C19":
		return logs > 0 || (o.RTag == 6 && o.ErrKind == 1)
	}
	return true
}

var ruleText = map[string]string{
	"C01": "structured generator (profile C01: malformations p=.22, invalid contexts p=.1, chains); non-trivial = result is an error or the evaluation made >=2 store lookups; distinct by hash of the encoded case",
	"C02": "profile C02 (prerequisites/targets/rules all likely); non-trivial = flag on and >=2 of {prerequisites, targets, rules} present",
	"C03": "profile C03 (target lists, context targets, multi-kind contexts); non-trivial = flag on with >=2 target entries",
	"C04": "profile C04 (operator x value pool x addressing mode); non-trivial = a rule with clauses decided rule-match/fallthrough/error",
	"C05": "profile C05 (segment-match clauses, nested segments); non-trivial = flag on, segmentMatch present, >=1 segment looked up",
	"C06": "profile C06 (rollouts, long keys/salts, seeds, bucketBy); non-trivial = a rollout decided the result",
	"C07": "profile C07 (split points adjacent to the context's actual bucket, degenerate weights); non-trivial = a rollout decided the result",
	"C08": "profile C08 (experiments, untracked, degenerate weights, multi-kind contexts); non-trivial = experiment rollout present and fallthrough/rule decided",
	"C09": "profile C09 (prerequisite graphs on 6 colliding keys); non-trivial = >=2 store lookups or an aborted prerequisite evaluation",
	"C10": "profile C10 (chains to depth 60, diamonds, closing cycles, random graphs on 6 keys); non-trivial = depth >20 lookups or a MALFORMED_FLAG with nesting",
	"C11": "profile C11 (unbounded segments from rules, nested segments, prerequisites; provider outcomes per key); non-trivial = a big-segment query happened or a status was attached",
	"C18": "profile C18 (before/after clauses, date pool incl. boundary instants and corrupted strings); non-trivial = a clause decided",
	"C19": "profile C19 (malformations at top, prerequisite and segment level; logger on/off/nil option); non-trivial = a log line or MALFORMED_FLAG",
}

func loadCorpus(dir, prop string) []*EvalCase {
	var out []*EvalCase
	if dir == "" {
		return out
	}
	files, _ := filepath.Glob(filepath.Join(dir, "eval-*.json"))
	sort.Strings(files)
	for _, f := range files {
		b, err := os.ReadFile(f)
		if err != nil {
			continue
		}
		var cc corpusCase
		if json.Unmarshal(b, &cc) != nil {
			continue
		}
		if c := cc.toCase(); c != nil {
			out = append(out, c)
		}
	}
	return out
}

// corpus file format (hand written / minimised): documents as JSON text
type corpusItem struct {
	Key  string          `json:"key"`
	Form int             `json:"form"`
	JSON json.RawMessage `json:"json"`
}
type corpusCase struct {
	Note      string       `json:"note"`
	Secondary bool         `json:"secondaryKey"`
	Logger    bool         `json:"logger"`
	Recorder  bool         `json:"recorder"`
	Flag      corpusItem   `json:"flag"`
	Flags     []corpusItem `json:"store_flags"`
	Segs      []corpusItem `json:"store_segments"`
	Prov      ProvSpec     `json:"big_segment_provider"`
	Ctx       CtxSpec      `json:"context_spec"`
}

func (ci corpusItem) item() (Item, bool) {
	d, err := ParseJSON(ci.JSON)
	if err != nil {
		return Item{}, false
	}
	// corpus numbers are small; drop the exact-int annotation so that rendering is the generator's
	var strip func(x *J)
	strip = func(x *J) {
		x.Big = nil
		for _, a := range x.A {
			strip(a)
		}
		for _, kv := range x.O {
			strip(kv.V)
		}
	}
	strip(d)
	return Item{Key: ci.Key, Form: ci.Form, Doc: d}, true
}
func (cc corpusCase) toCase() *EvalCase {
	c := &EvalCase{Secondary: cc.Secondary, Logger: cc.Logger, Recorder: cc.Recorder, Prov: cc.Prov, Ctx: cc.Ctx}
	var ok bool
	if c.Top, ok = cc.Flag.item(); !ok {
		return nil
	}
	for _, f := range cc.Flags {
		it, ok := f.item()
		if !ok {
			return nil
		}
		c.Flags = append(c.Flags, it)
	}
	for _, s := range cc.Segs {
		it, ok := s.item()
		if !ok {
			return nil
		}
		c.Segs = append(c.Segs, it)
	}
	return c
}

func cmdEval(prop string, n int, seed uint64, driver, out, corpus string) (*Result, error) {
	prof := profileFor(prop)
	root := NewRng(seed ^ hashSeed(prop))
	cases := loadCorpus(corpus, prop)
	ncorpus := len(cases)
	for i := 0; i < n; i++ {
		cases = append(cases, GenEval(root.Fork(), &prof))
	}
	lines := make([]string, len(cases))
	goOut := make([]*T, len(cases))
	repeatCalls = prop == "C19" || prop == "C12" || prop == "C01"
	repeatViol := map[int]string{}
	for i, c := range cases {
		lines[i] = wireCase(c).Line()
		repeatMismatch = ""
		goOut[i] = runGo(c)
		if repeatMismatch != "" {
			repeatViol[i] = repeatMismatch
		}
		if prop == "C01" && i%4 == 0 {
			if m := staleProbe(c); m != "" && repeatViol[i] == "" {
				repeatViol[i] = m
			}
		}
	}
	repeatCalls = false
	modelLines, err := runDriver(driver, lines, out, "eval")
	if err != nil {
		return nil, err
	}
	res := &Result{Prop: prop, Mode: "eval", Seed: seed, Evaluations: len(cases), Rule: ruleText[prop],
		Distribution: map[string]int{"corpus_cases": ncorpus}}
	seen := map[string]bool{}
	for i, c := range cases {
		mt := ParseLine(modelLines[i])
		mo, gout := decodeOut(mt), decodeOut(goOut[i])
		if gout.Status == 3 && len(goOut[i].L) > 1 {
			res.Distribution["skipped_after_hang"]++
			continue
		}
		// distribution
		res.Distribution["model_"+mo.statusStr()]++
		if mo.Status == 1 {
			res.Distribution[fmt.Sprintf("reason_%d", mo.RTag)]++
			if mo.RTag == 6 {
				res.Distribution[fmt.Sprintf("errkind_%d", mo.ErrKind)]++
			}
			res.Distribution["trace_len_total"] += len(mo.Trace)
		}
		if c.Ctx.Invalid != 0 {
			res.Distribution["ctx_invalid"]++
		} else if c.Ctx.Multi {
			res.Distribution["ctx_multi"]++
		} else {
			res.Distribution["ctx_single"]++
		}
		h := hashLine(lines[i])
		if !seen[h] && nontrivial(prop, c, mo) {
			res.DistinctNontrivial++
		}
		seen[h] = true
		pp := prop
		if os.Getenv("VERIF_FULL") != "" {
			pp = "FULL"
		}
		gp, mp := project(pp, gout), project(pp, mo)
		if pp == "C19" && gp != mp && hasUnparsedLog(gout) {
			knownFlagKeys = flagKeysOf(c)
			gp, mp = project("C19-coarse", gout), project("C19-coarse", mo)
		}
		if mo.Status == 99 {
			res.Notes = append(res.Notes, fmt.Sprintf("case %d: model could not decode the case (harness bug)", i))
		}
		if gp != mp {
			d := Disagreement{Index: i, What: "impl/model disagree on the " + prop + " projection", Go: goOut[i].String(), Model: mt.String(),
				GoProj: gp, ModelProj: mp, Case: describeCase(c), WireLine: lines[i]}
			d.Predicate = implPredicate(prop, c, gout)
			res.Disagreements = append(res.Disagreements, d)
		} else if rv, bad := repeatViol[i]; bad {
			res.Violations = append(res.Violations, Disagreement{Index: i, What: "a repeated call behaves differently", Go: goOut[i].String(),
				Model: mt.String(), GoProj: gp, ModelProj: mp, Case: describeCase(c), WireLine: lines[i], Predicate: rv})
		} else if pf := implPredicate(prop, c, gout); pf != "" {
			// the implementation's own output fails the property's predicate although model and implementation agree
			res.Violations = append(res.Violations, Disagreement{Index: i, What: "predicate fails on implementation output", Go: goOut[i].String(),
				Model: mt.String(), GoProj: gp, ModelProj: mp, Case: describeCase(c), WireLine: lines[i], Predicate: pf})
		}
		if len(res.Samples) < 3 && nontrivial(prop, c, mo) {
			res.Samples = append(res.Samples, map[string]interface{}{"case": describeCase(c), "impl_outcome": goOut[i].String(), "projection": gp})
		}
	}
	// the first disagreements are minimised: the replay then shows what matters
	for k := range res.Disagreements {
		if k >= 2 {
			break
		}
		d := &res.Disagreements[k]
		small, steps := shrinkEval(prop, cases[d.Index], driver, out)
		if steps > 0 {
			d.Shrunk = map[string]interface{}{"reduction_steps": steps, "from": sizeOfCase(cases[d.Index]), "to": sizeOfCase(small),
				"case": describeCase(small), "impl_outcome": runGo(small).String()}
		}
	}
	// kernel sample: a slice of the cases with the answers the extracted model gave
	res.KernelCases = writeKernelSample(out, lines, modelLines, 40)
	return res, nil
}

func min(a, b int) int {
	if a < b {
		return a
	}
	return b
}

func hashSeed(s string) uint64 {
	var h uint64 = 1469598103934665603
	for i := 0; i < len(s); i++ {
		h ^= uint64(s[i])
		h *= 1099511628211
	}
	return h
}

// writeKernelSample writes cases.v: the same run_line evaluated inside the kernel must reproduce the driver's answers.
func writeKernelSample(out string, lines, answers []string, k int) int {
	if os.Getenv("VERIF_TIER") == "thorough" { // each chunk of a thorough run re-evaluates five times as many cases in the kernel
		k *= 5
	}
	var sb strings.Builder
	sb.WriteString("From LD Require Import Base Wire.\nOpen Scope N_scope.\n")
	sb.WriteString("Definition eqb_lines (a b : list N) : bool := (fix go a b := match a, b with [], [] => true | x :: a', y :: b' => N.eqb x y && go a' b' | _, _ => false end) a b.\n")
	step := 1
	if len(lines) > k {
		step = len(lines) / k
	}
	cnt := 0
	var names []string
	for i := 0; i < len(lines) && cnt < k; i += step {
		if len(lines[i]) > 60000 {
			continue
		}
		sb.WriteString(fmt.Sprintf("Definition c%d : list N := [%s].\n", cnt, strings.ReplaceAll(lines[i], " ", "; ")))
		sb.WriteString(fmt.Sprintf("Definition a%d : list N := [%s].\n", cnt, strings.ReplaceAll(answers[i], " ", "; ")))
		names = append(names, fmt.Sprintf("eqb_lines (run_line c%d) a%d", cnt, cnt))
		cnt++
	}
	sb.WriteString("Definition kernel_mismatches : list nat := Eval vm_compute in\n  filter_idx [" + strings.Join(names, ";\n    ") + "].\n")
	txt := strings.Replace(sb.String(), "Definition kernel_mismatches", "Fixpoint idx_false (i : nat) (l : list bool) : list nat := match l with [] => [] | b :: r => (if b then [] else [i]) ++ idx_false (Datatypes.S i) r end.\nDefinition filter_idx := idx_false O.\nDefinition kernel_mismatches", 1)
	txt += "Print kernel_mismatches.\n"
	os.WriteFile(filepath.Join(out, "cases.v"), []byte(txt), 0o644)
	return cnt
}

func hasUnparsedLog(o *Out) bool {
	for _, x := range o.Trace {
		if x.tag() == 5 && x.at(2).tag() == 50 {
			return true
		}
	}
	return false
}

func flagKeysOf(c *EvalCase) []string {
	ks := []string{c.Top.Key}
	for _, it := range c.Flags {
		ks = append(ks, it.Key)
	}
	sort.Slice(ks, func(i, j int) bool { return len(ks[i]) > len(ks[j]) })
	return ks
}

package main

import (
	"fmt"

	"github.com/launchdarkly/go-sdk-common/v3/ldvalue"
	"github.com/launchdarkly/go-server-sdk-evaluation/v3/ldmodel"
)

// "Edited after preprocessing": an application keeps a preprocessed flag or segment, copies it, edits clause values and
// key lists on the copy (the unexported lookup data travels with every struct copy) and calls PreprocessFlag /
// PreprocessSegment again, as the package tells it to. The result must behave like a freshly preprocessed value of the
// edited content: every table is recomputed from what the value holds now.

// olderVersion: the same document with other clause values and other keys (same shape: same rules, clauses, lists).
// A one-value clause had two values before (so it had a lookup set), key lists keep their length.
func olderVersion(doc *J) *J {
	old := doc.Clone()
	var rec func(x *J)
	rec = func(x *J) {
		switch x.K {
		case 'a':
			for _, y := range x.A {
				rec(y)
			}
		case 'o':
			for i := range x.O {
				kv := x.O[i]
				if kv.K == "values" && kv.V != nil && kv.V.K == 'a' {
					vals := &J{K: 'a', A: []*J{}}
					for _, v := range kv.V.A {
						if v.K == 's' {
							vals.A = append(vals.A, JStr(v.S+"#earlier"))
						} else {
							vals.A = append(vals.A, JStr("earlier"))
						}
					}
					if len(vals.A) == 1 {
						vals.A = append(vals.A, JStr("earlier-2"))
					}
					x.O[i].V = vals
					continue
				}
				if (kv.K == "included" || kv.K == "excluded") && kv.V != nil && kv.V.K == 'a' {
					vals := &J{K: 'a', A: []*J{}}
					for _, v := range kv.V.A {
						if v.K == 's' {
							vals.A = append(vals.A, JStr(v.S+"#earlier"))
						} else {
							vals.A = append(vals.A, v.Clone())
						}
					}
					x.O[i].V = vals
					continue
				}
				rec(kv.V)
			}
		}
	}
	rec(old)
	return old
}

func graftClauses(oldC, newC []ldmodel.Clause) []ldmodel.Clause {
	if newC == nil {
		return nil
	}
	out := make([]ldmodel.Clause, len(newC))
	for i, n := range newC {
		if i < len(oldC) {
			c := oldC[i] // the struct copy carries what was precomputed for the earlier values
			c.ContextKind, c.Attribute, c.Op, c.Values, c.Negate = n.ContextKind, n.Attribute, n.Op, n.Values, n.Negate
			out[i] = c
		} else {
			out[i] = n
		}
	}
	return out
}

func graftTargets(oldT, newT []ldmodel.Target) []ldmodel.Target {
	if newT == nil {
		return nil
	}
	out := make([]ldmodel.Target, len(newT))
	for i, n := range newT {
		if i < len(oldT) {
			t := oldT[i]
			t.ContextKind, t.Variation, t.Values = n.ContextKind, n.Variation, n.Values
			out[i] = t
		} else {
			out[i] = n
		}
	}
	return out
}

// editedFlag: the flag decoded from the earlier version of the document, edited field by field into the flag the document
// describes now, then preprocessed again. ok=false when the earlier version does not decode.
func editedFlag(doc *J, now ldmodel.FeatureFlag) (ldmodel.FeatureFlag, bool) {
	old, err := serialization.UnmarshalFeatureFlag([]byte(olderVersion(doc).Text()))
	if err != nil {
		return now, false
	}
	n := plainFlag(now)
	g := n
	g.Targets = graftTargets(old.Targets, n.Targets)
	g.ContextTargets = graftTargets(old.ContextTargets, n.ContextTargets)
	if n.Rules != nil {
		g.Rules = make([]ldmodel.FlagRule, len(n.Rules))
		for i, r := range n.Rules {
			g.Rules[i] = r
			if i < len(old.Rules) {
				g.Rules[i].Clauses = graftClauses(old.Rules[i].Clauses, r.Clauses)
			}
		}
	}
	ldmodel.PreprocessFlag(&g)
	return g, true
}

func editedSegment(doc *J, now ldmodel.Segment) (ldmodel.Segment, bool) {
	old, err := serialization.UnmarshalSegment([]byte(olderVersion(doc).Text()))
	if err != nil {
		return now, false
	}
	n := plainSegment(now)
	g := old // keeps the segment's own precomputed key sets
	g.Key, g.Included, g.Excluded, g.IncludedContexts, g.ExcludedContexts = n.Key, n.Included, n.Excluded, n.IncludedContexts, n.ExcludedContexts
	g.Salt, g.Unbounded, g.UnboundedContextKind, g.Version, g.Generation, g.Deleted = n.Salt, n.Unbounded, n.UnboundedContextKind, n.Version, n.Generation, n.Deleted
	g.Rules = nil
	if n.Rules != nil {
		g.Rules = make([]ldmodel.SegmentRule, len(n.Rules))
		for i, r := range n.Rules {
			g.Rules[i] = r
			if i < len(old.Rules) {
				g.Rules[i].Clauses = graftClauses(old.Rules[i].Clauses, r.Clauses)
			}
		}
	}
	ldmodel.PreprocessSegment(&g)
	return g, true
}

// staleProbe (C01): a flag or segment that was preprocessed and then had values ADDED to its clauses without being
// preprocessed again is a configuration the package calls wrong -- and evaluating it must still terminate without a panic
// and return a well-formed result (only that is checked here; what it matches is not specified).
func staleProbe(c *EvalCase) string {
	if hung {
		return ""
	}
	msg := ""
	func() {
		defer func() {
			if r := recover(); r != nil {
				msg = fmt.Sprintf("evaluating a flag whose clauses were given more values after preprocessing panicked: %v", r)
			}
		}()
		env, ok := buildEnv(c)
		if !ok {
			return
		}
		extra := []ldvalue.Value{ldvalue.String("2031-05-06T07:08:09Z"), ldvalue.String("9.9.9"), ldvalue.String("^zz$"), ldvalue.Int(1893456000000)}
		grow := func(cls []ldmodel.Clause) {
			for i := range cls {
				cls[i].Values = append(append([]ldvalue.Value(nil), cls[i].Values...), extra...)
			}
		}
		top := *env.top
		top.Rules = append([]ldmodel.FlagRule(nil), top.Rules...)
		for i := range top.Rules {
			top.Rules[i].Clauses = append([]ldmodel.Clause(nil), top.Rules[i].Clauses...)
			grow(top.Rules[i].Clauses)
		}
		for k, s := range env.segs {
			g := *s
			g.Rules = append([]ldmodel.SegmentRule(nil), g.Rules...)
			for i := range g.Rules {
				g.Rules[i].Clauses = append([]ldmodel.Clause(nil), g.Rules[i].Clauses...)
				grow(g.Rules[i].Clauses)
			}
			env.segs[k] = &g
		}
		res := env.ev.Evaluate(&top, env.ctx, nil)
		d := res.Detail
		if d.VariationIndex.IsDefined() {
			if i := d.VariationIndex.IntValue(); i < 0 || i >= len(top.Variations) {
				msg = fmt.Sprintf("a flag with stale lookup data gave variation index %d of %d variations", i, len(top.Variations))
			}
		}
	}()
	return msg
}

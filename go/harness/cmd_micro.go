package main

import (
	"fmt"
	"math"
	"math/big"
	"regexp"
	"strconv"
	"strings"
	"time"

	"github.com/launchdarkly/go-sdk-common/v3/ldattr"
	"github.com/launchdarkly/go-sdk-common/v3/ldcontext"
	"github.com/launchdarkly/go-sdk-common/v3/ldvalue"
	"github.com/launchdarkly/go-server-sdk-evaluation/v3/ldmodel"
)

type microCase struct {
	wire *T
	impl *T
	desc interface{}
	nontrivial bool
	class string
}

func wireF32(f float32) *T {
	bits := math.Float32bits(f)
	sign := bits>>31 != 0
	exp := int64((bits >> 23) & 0xff)
	frac := uint64(bits & 0x7fffff)
	switch {
	case exp == 0xff && frac == 0:
		return L(A(2), Ab(sign))
	case exp == 0xff:
		return L(A(3))
	case exp == 0 && frac == 0:
		return L(A(0), Ab(sign))
	case exp == 0:
		return L(A(1), Ab(sign), A(frac), AZ(-149))
	}
	return L(A(1), Ab(sign), A(frac|1<<23), AZ(exp-150))
}

func wireRef(mode int, s string) *T {
	if mode == 0 {
		return L(A(0))
	}
	return L(A(uint64(mode)), S(s))
}
func mkRef(mode int, s string) ldattr.Ref {
	switch mode {
	case 1:
		return ldattr.NewRef(s)
	case 2:
		return ldattr.NewLiteralRef(s)
	}
	return ldattr.Ref{}
}

func implErr(err error) *T { return parseErrMsg(err.Error()) }

// ---- C06: bucket value, local buffer, hex parser ----
func genBucketCase(r *Rng, p *Profile) *microCase {
	w := &World{r: r, p: p}
	w.genCtx()
	ctx := w.real
	isExp := r.P(0.3)
	var seed *int64
	if r.P(0.35) {
		v := r.Pick2([]int64{0, 61, -7, 123456789, 9007199254740992, -9223372036854775808, 9223372036854775807, int64(r.Intn(100000))})
		seed = &v
	}
	kind := r.Pick([]string{"", "user", "org", "dev"})
	key := r.Pick([]string{"flagkey", "", "f", "日本語キー"})
	salt := r.Pick([]string{"salt", "", "s"})
	if r.P(0.5) { // lengths around the 100-byte buffer and its doublings
		tot := []int{98, 99, 100, 101, 199, 200, 201, 399, 400, 401}[r.Intn(10)] - r.Intn(3)
		kl := r.Intn(tot + 1)
		key = strings.Repeat("k", kl)
		salt = strings.Repeat("s", tot-kl)
	}
	mode := r.Intn(3)
	attr := ""
	if mode != 0 {
		attr = r.Pick([]string{"email", "age", "score", "name", "key", "tags", "nested", "beta", "nums", "/email", "/nested/a/b", "//", "/a~2", "/age", "kind", "anonymous"})
	}
	sec := r.P(0.5)
	return bucketCase(ctx, isExp, seed, kind, key, mode, attr, salt, sec)
}

// bucketCorpus: hash prefixes whose low bits sit next to a rounding tie -- dividing in double precision and narrowing
// afterwards lands on the neighbouring single-precision value (about one input in 2^30; found by search against a seeded
// change, kept as corpus)
var bucketCorpus = [][3]string{{"flag", "salt", "user-77163032"}, {"flag", "salt", "user-2906055148"},
	{"checkout-flow", "a1b2c3", "user-6072306"}, {"rollout-flag", "salt", "user-916"}, {"rollout-flag", "salt", "user-925"}}

func bucketCase(ctx ldcontext.Context, isExp bool, seed *int64, kind, key string, mode int, attr, salt string, sec bool) *microCase {
	var sd ldvalue.OptionalInt
	var seedT *T
	if seed != nil {
		sd = ldvalue.NewOptionalInt(int(*seed))
		seedT = AZ(*seed)
	}
	mc := &microCase{}
	mc.wire = L(A(2), Ab(sec), wireContext(ctx), Ab(isExp), Opt(seedT), S(kind), S(key), wireRef(mode, attr), S(salt))
	if ctx.Err() != nil {
		mc.wire = nil
		return mc
	}
	b, fail, err := hookBucket(sec, ctx, isExp, sd, ldcontext.Kind(kind), key, mkRef(mode, attr), salt)
	if err != nil {
		mc.impl = L(A(2), implErr(err))
	} else {
		mc.impl = L(A(1), wireF32(b), A(uint64(fail)))
	}
	mc.nontrivial = err == nil && fail == 0
	mc.class = fmt.Sprintf("bucket_fail%d_err%v", fail, err != nil)
	mc.desc = map[string]interface{}{"kind": "computeBucketValue", "context": ctx.String(), "isExperiment": isExp, "seed": seed, "contextKind": kind,
		"key": key, "attrMode": mode, "attr": attr, "salt": salt, "secondaryOption": sec, "impl_bucket": b, "impl_fail": fail}
	return mc
}

func genBufferCase(r *Rng) *microCase {
	cap0 := []int{0, 1, 5, 100, 7}[r.Intn(5)]
	var ops []interface{}
	var wops []*T
	for i := 0; i < r.Range(1, 8); i++ {
		switch r.Intn(3) {
		case 0:
			n := []int{0, 1, 2, 5, 50, 99, 100, 101, 250}[r.Intn(9)]
			s := strings.Repeat(string(rune('a'+r.Intn(26))), n)
			ops = append(ops, s)
			wops = append(wops, S(s))
		case 1:
			b := byte('.' + r.Intn(3))
			ops = append(ops, b)
			wops = append(wops, S(string([]byte{b})))
		default:
			v := r.Pick2([]int64{0, -1, 7, 1234567890123, -9223372036854775808, 9223372036854775807})
			ops = append(ops, int(v))
			wops = append(wops, AZ(v))
		}
	}
	desc := map[string]interface{}{"kind": "LocalBuffer", "cap": cap0, "ops": fmt.Sprint(ops)}
	var out []byte
	panicked := func() (p interface{}) {
		defer func() { p = recover() }()
		out = hookBuffer(cap0, ops)
		return nil
	}()
	if panicked != nil {
		desc["predicate_failed"] = fmt.Sprintf("LocalBuffer panicked while appending: %v", panicked)
		return &microCase{wire: L(A(8), A(uint64(cap0)), LL(wops)), impl: L(A(2)), nontrivial: true, class: "buffer", desc: desc}
	}
	// the contents and the capacity the buffer ends up with (the growth policy: double, or twice what is needed)
	return &microCase{wire: L(A(8), A(uint64(cap0)), LL(wops)), impl: L(S(string(out)), AZ(int64(cap(out)))), nontrivial: len(out) > cap0, class: "buffer", desc: desc}
}

func genHexCase(r *Rng) *microCase {
	n := r.Intn(20)
	b := make([]byte, n)
	for i := range b {
		b[i] = "0123456789abcdefABCDEFgG xz"[r.Intn(22+r.Intn(6))]
	}
	v, ok := hookParseHex(b)
	var impl *T
	if ok {
		impl = L(AZbig(new(big.Int).SetUint64(v)))
	} else {
		impl = L()
	}
	return &microCase{wire: L(A(9), S(string(b))), impl: impl, nontrivial: ok && n > 0, class: "hex", desc: map[string]interface{}{"kind": "ParseHexUint64", "input": string(b)}}
}

// ---- C04: semver, attribute references ----
var semverParts = []string{"0", "1", "2", "10", "01", "", "x", "1a", "99999999999999999999"}

func genSemverString(r *Rng) string {
	if r.P(0.5) {
		return r.Pick(semverPool)
	}
	n := r.Range(1, 3)
	parts := make([]string, n)
	for i := range parts {
		parts[i] = r.Pick(semverParts)
	}
	s := strings.Join(parts, ".")
	if r.P(0.4) {
		s += "-" + r.Pick([]string{"rc", "rc.1", "rc.2", "1", "01", "alpha.beta", "a-b", "", "é", "rc..1", "0", "rc.10", "x.7.z.92"})
	}
	if r.P(0.3) {
		s += "+" + r.Pick([]string{"b", "001", "b.7", "", "é", "a..b"})
	}
	return s
}

func genSemverCase(r *Rng) *microCase {
	return semverCase(genSemverString(r), genSemverString(r), "semver")
}

// semverOverflowProbes: numeric components beyond int64 (go-semver reads them in wrapping int arithmetic); each pair is one
// open line of known_findings.txt. The random generator stays below 19 digits.
var semverOverflowProbes = [][2]string{
	{"18446744073709551617.0.0", "2.0.0"},
	{"1.0.0-18446744073709551617", "1.0.0-2"},
	{"9223372036854775808.0.0", "1.0.0"},
	{"1.9223372036854775808.0", "1.1.0"},
}

var errNotSemver = fmt.Errorf("not a semantic version")

func semverCase(a, b, class string) *microCase {
	// through the library's own operand parser (ldmodel.parseSemVer: what the three semVer operators use on both sides)
	va, oa := ldmodel.TypeConversions.ValueToSemanticVersion(ldvalue.String(a))
	vb, ob := ldmodel.TypeConversions.ValueToSemanticVersion(ldvalue.String(b))
	var ea, eb error
	if !oa {
		ea = errNotSemver
	}
	if !ob {
		eb = errNotSemver
	}
	cmp := L()
	if ea == nil && eb == nil {
		cmp = L(AZ(int64(va.ComparePrecedence(vb))))
	}
	desc := map[string]interface{}{"kind": "semver", "a": a, "b": b}
	// independent oracle: SemVer 2.0.0 written from the specification (grammar as a regular expression, precedence item 11
	// with unbounded integers)
	sa, oka := specSemver(a)
	sb, okb := specSemver(b)
	switch {
	case oka != (ea == nil):
		desc["predicate_failed"] = fmt.Sprintf("semver: %q accepted=%v by ValueToSemanticVersion, but valid by the SemVer 2.0 grammar (minor/patch optional)=%v", a, ea == nil, oka)
	case okb != (eb == nil):
		desc["predicate_failed"] = fmt.Sprintf("semver: %q accepted=%v by ValueToSemanticVersion, but valid by the SemVer 2.0 grammar (minor/patch optional)=%v", b, eb == nil, okb)
	case oka && okb && specSemverCmp(sa, sb) != va.ComparePrecedence(vb):
		desc["predicate_failed"] = fmt.Sprintf("semver: precedence of %q against %q is %d by SemVer 2.0 item 11, the library says %d", a, b, specSemverCmp(sa, sb), va.ComparePrecedence(vb))
		desc["finding_key"] = "semver-precedence:" + a + ":" + b
	}
	return &microCase{wire: L(A(6), S(a), S(b)), impl: L(Ab(ea == nil), Ab(eb == nil), cmp), nontrivial: ea == nil && eb == nil, class: class, desc: desc}
}

var semverRe = regexp.MustCompile(`^(0|[1-9][0-9]*)(?:\.(0|[1-9][0-9]*))?(?:\.(0|[1-9][0-9]*))?(?:-((?:0|[1-9][0-9]*|[0-9]*[A-Za-z-][0-9A-Za-z-]*)(?:\.(?:0|[1-9][0-9]*|[0-9]*[A-Za-z-][0-9A-Za-z-]*))*))?(?:\+([0-9A-Za-z-]+(?:\.[0-9A-Za-z-]+)*))?$`)

type specVer struct {
	nums [3]*big.Int
	pre  []string
}

func specSemver(s string) (specVer, bool) {
	m := semverRe.FindStringSubmatch(s)
	if m == nil {
		return specVer{}, false
	}
	if m[2] == "" && m[3] != "" { // "1..3" cannot match anyway; a patch needs a minor
		return specVer{}, false
	}
	v := specVer{}
	for i := 0; i < 3; i++ {
		v.nums[i] = new(big.Int)
		if m[i+1] != "" {
			v.nums[i].SetString(m[i+1], 10)
		}
	}
	if m[4] != "" {
		v.pre = strings.Split(m[4], ".")
	}
	return v, true
}

func specSemverCmp(a, b specVer) int {
	for i := 0; i < 3; i++ {
		if c := a.nums[i].Cmp(b.nums[i]); c != 0 {
			return c
		}
	}
	switch {
	case len(a.pre) == 0 && len(b.pre) == 0:
		return 0
	case len(a.pre) == 0:
		return 1
	case len(b.pre) == 0:
		return -1
	}
	isNum := func(x string) bool {
		for _, c := range x {
			if c < '0' || c > '9' {
				return false
			}
		}
		return true
	}
	for i := 0; i < len(a.pre) && i < len(b.pre); i++ {
		x, y := a.pre[i], b.pre[i]
		nx, ny := isNum(x), isNum(y)
		c := 0
		switch {
		case nx && ny:
			bx, _ := new(big.Int).SetString(x, 10)
			by, _ := new(big.Int).SetString(y, 10)
			c = bx.Cmp(by)
		case nx:
			c = -1
		case ny:
			c = 1
		default:
			c = strings.Compare(x, y)
		}
		if c != 0 {
			return c
		}
	}
	switch {
	case len(a.pre) < len(b.pre):
		return -1
	case len(a.pre) > len(b.pre):
		return 1
	}
	return 0
}

func genRefCase(r *Rng) *microCase {
	parts := []string{"a", "b", "", "~0", "~1", "~2", "~", "kind", "é", "x y"}
	s := ""
	for i := 0; i < r.Intn(4); i++ {
		if r.P(0.7) {
			s += "/"
		}
		s += r.Pick(parts)
	}
	mode := r.Range(1, 2)
	ref := mkRef(mode, s)
	comps := []*T{}
	for i := 0; i < ref.Depth(); i++ {
		comps = append(comps, S(ref.Component(i)))
	}
	impl := L(Ab(ref.IsDefined()), Ab(ref.Err() != nil), S(ref.String()), A(uint64(ref.Depth())), LL(comps))
	return &microCase{wire: L(A(7), wireRef(mode, s)), impl: impl, nontrivial: ref.Err() == nil, class: "ref", desc: map[string]interface{}{"kind": "ldattr.Ref", "mode": mode, "s": s}}
}

// ---- C18: timestamps ----
func renderInstant(r *Rng) (string, bool) {
	// a civil time within years 0000-9999 rendered with a random offset / fraction / letter case
	year := []int{0, 1, 1969, 1970, 2020, 2262, 2263, 9999, r.Intn(10000)}[r.Intn(9)]
	month := r.Range(1, 12)
	day := r.Range(1, 28)
	if r.P(0.25) {
		day = r.Range(29, 31)
		if r.P(0.5) { // the end of February, leap and non-leap years, centuries
			month = 2
			year = []int{0, 4, 100, 400, 1900, 2000, 2019, 2020, 2100, 2400, 9996, r.Intn(10000)}[r.Intn(12)]
		}
	}
	h, mi, s := r.Intn(24), r.Intn(60), r.Intn(60)
	if r.P(0.05) {
		s = 60
		if r.P(0.5) { // the leap second proper: the instant is the next day's midnight
			h, mi = 23, 59
		}
	}
	str := fmt.Sprintf("%04d-%02d-%02d", year, month, day)
	tl := "T"
	if r.P(0.2) {
		tl = "t"
	}
	if r.P(0.1) && h < 10 {
		str += fmt.Sprintf("%s%d:%02d:%02d", tl, h, mi, s)
	} else {
		str += fmt.Sprintf("%s%02d:%02d:%02d", tl, h, mi, s)
	}
	if r.P(0.5) {
		nd := r.Range(1, 9)
		if r.P(0.1) {
			nd = r.Range(0, 11)
		}
		str += "."
		for i := 0; i < nd; i++ {
			str += string(rune('0' + r.Intn(10)))
		}
	}
	switch r.Intn(4) {
	case 0:
		str += "Z"
	case 1:
		str += "z"
	default:
		sign := "+"
		if r.P(0.5) {
			sign = "-"
		}
		oh := r.Intn(24)
		if r.P(0.1) {
			oh = r.Range(24, 99)
		}
		str += fmt.Sprintf("%s%02d:%02d", sign, oh, r.Intn(60))
	}
	valid := true
	// corruption
	if r.P(0.35) {
		valid = false
		b := []byte(str)
		switch r.Intn(5) {
		case 0: // truncate
			b = b[:r.Intn(len(b))]
		case 1: // replace a char
			b[r.Intn(len(b))] = "x:-T.Z+ 9"[r.Intn(9)]
		case 2: // delete a char
			i := r.Intn(len(b))
			b = append(b[:i:i], b[i+1:]...)
		case 3: // insert
			i := r.Intn(len(b) + 1)
			b = append(b[:i:i], append([]byte{"0:-T.Zé\x00"[r.Intn(9)]}, b[i:]...)...)
		case 4: // out-of-range field
			b = []byte(strings.Replace(str, fmt.Sprintf("-%02d-", month), fmt.Sprintf("-%02d-", []int{0, 13, 99}[r.Intn(3)]), 1))
		}
		if r.P(0.3) { // a complete timestamp followed by something
			b = []byte(str + []string{"junk", " ", "\n", "Z", "z", "+01:00", "-00:00", "é", "\x00x", "\x00", "0", ".5", "Z+01:00", "\u00a0"}[r.Intn(14)])
		}
		str = string(b)
	}
	return str, valid
}

func genTimeCase(r *Rng) *microCase {
	var v *J
	class := ""
	switch r.Intn(10) {
	case 0, 1, 2, 3, 4:
		s, valid := renderInstant(r)
		v = JStr(s)
		class = fmt.Sprintf("time_string_valid%v", valid)
	case 5, 6, 7:
		ms := []float64{0, 1, -1, 1577836800000, 253402300799000, -62167219200000, 9223372036854, 9223372036855, 1e15, -1e15, 1.5, -1.5, 1e30, -1e30, 4102444800000.75}[r.Intn(15)]
		if r.P(0.4) {
			ms = float64(int64(r.U64()>>1)%253402300799000 - 62167219200000)
		}
		v = JNum(ms)
		class = "time_number"
	case 8:
		v = JStr(r.Pick(datePool))
		class = "time_pool"
	default:
		w := &World{r: r, p: &Profile{}}
		v = w.anyValue(0)
		class = "time_other"
	}
	if v.K == 's' && !validUTF8(v.S) {
		v = JStr("2020-01-01T00:00:00Z")
	}
	t, ok := ldmodel.TypeConversions.ValueToTimestamp(v.ToLdvalue())
	impl := L()
	if ok {
		ns := new(big.Int).Mul(big.NewInt(t.Unix()), big.NewInt(1000000000))
		ns.Add(ns, big.NewInt(int64(t.Nanosecond())))
		impl = L(AZbig(ns))
	}
	desc := map[string]interface{}{"kind": "ValueToTimestamp", "value": v.Text()}
	if v.K == 's' {
		// independent oracles for strings: the grammar written as a regular expression plus field ranges, and time.Parse
		spec := specTimestamp(v.S)
		if spec != ok {
			desc["predicate_failed"] = fmt.Sprintf("ValueToTimestamp(%q) accepted=%v, but the string is a timestamp by the RFC 3339 grammar (with the library's documented deviations)=%v", v.S, ok, spec)
		} else if st, err := time.Parse(time.RFC3339Nano, v.S); err == nil && ok && !st.Equal(t) {
			desc["predicate_failed"] = fmt.Sprintf("ValueToTimestamp(%q) = %v, time.Parse gives %v", v.S, t.UTC(), st.UTC())
		}
	}
	return &microCase{wire: L(A(5), v.Wire()), impl: impl, nontrivial: ok, class: class, desc: desc}
}

var tsRe = regexp.MustCompile(`^(\d{4})-(\d{2})-(\d{2})[Tt](\d{1,2}):(\d{2}):(\d{2})(\.\d{1,9})?([Zz]|[+-](\d{2}):(\d{2}))$`)

// specTimestamp: is s an RFC 3339 timestamp, allowing what the library documents as deviations (1-digit hour, offset
// hours up to 99) and a leap second? Written from the grammar, not from the scanner.
func specTimestamp(s string) bool {
	m := tsRe.FindStringSubmatch(s)
	if m == nil {
		return false
	}
	n := func(x string) int { v, _ := strconv.Atoi(x); return v }
	y, mo, d, h, mi, sec := n(m[1]), n(m[2]), n(m[3]), n(m[4]), n(m[5]), n(m[6])
	if mo < 1 || mo > 12 || d < 1 || h > 23 || mi > 59 || sec > 60 {
		return false
	}
	dim := []int{31, 28, 31, 30, 31, 30, 31, 31, 30, 31, 30, 31}[mo-1]
	if mo == 2 && (y%4 == 0 && y%100 != 0 || y%400 == 0) {
		dim = 29
	}
	if d > dim {
		return false
	}
	if m[9] != "" && n(m[10]) > 59 {
		return false
	}
	return true
}

var _ = time.Now

// forced == "builders": whatever the property, the cases are builder call sequences (the builders are one of the ways every
// property's data comes into being)
func cmdMicro(prop string, n int, seed uint64, driver, out string, forced string) (*Result, error) {
	root := NewRng(seed ^ hashSeed(prop+"micro"+forced))
	prof := profileFor(prop)
	prof.PLongStrings = 0.3
	res := &Result{Prop: prop, Mode: "micro", Seed: seed, Distribution: map[string]int{}}
	if forced != "" {
		res.Mode = forced
	}
	var cases []*microCase
	for i := 0; i < n; i++ {
		r := root.Fork()
		var mc *microCase
		sel := prop
		if forced == "builders" {
			sel = "C15"
		}
		switch sel {
		case "C06":
			if !haveHooks {
				res.Notes = append(res.Notes, "hooks unavailable: bucket/buffer/hex micro cases skipped (black-box eval cases only)")
				n = 0
				continue
			}
			if i < 2*len(bucketCorpus) {
				c := bucketCorpus[i/2]
				mc = bucketCase(ldcontext.New(c[2]), i%2 == 1, nil, "", c[0], 0, "", c[1], false)
				break
			}
			switch i % 6 {
			case 4:
				mc = genBufferCase(r)
			case 5:
				mc = genHexCase(r)
			default:
				mc = genBucketCase(r, &prof)
			}
		case "C04":
			if i < len(semverOverflowProbes) {
				mc = semverCase(semverOverflowProbes[i][0], semverOverflowProbes[i][1], "semver_overflow_probe")
			} else if i%3 == 0 {
				mc = genRefCase(r)
			} else {
				mc = genSemverCase(r)
			}
		case "C18":
			mc = genTimeCase(r)
		case "C17":
			mc = genNestCase(r)
		case "C19":
			mc = genOptionsCase(r)
		case "C15":
			if i%3 == 2 {
				mc = genSegBuilderCase(r)
			} else {
				mc = genBuilderCase(r)
			}
		case "C07":
			mc = genMonotoneCase(r, &prof)
		}
		if mc != nil && mc.wire != nil {
			cases = append(cases, mc)
		}
	}
	res.Rule = map[string]string{
		"C06": "direct calls of the bucket routine through the verif hook (keys/salts sized around the 100-byte buffer and its doublings, seeds incl. int64 extremes, bucketBy of every JSON type, secondary), LocalBuffer op sequences from several initial capacities, hex strings; non-trivial = a hash was actually computed / buffer regrown / hex accepted",
		"C04": "go-semver parse+compare and ldattr reference parsing against their Gallina models (dependency models the operator theorems rest on); non-trivial = both inputs parse",
		"C17": "well-formed flag / segment documents whose free value (variations, clause values, unknown property) nests around the limit of 10000, beside string literals full of brackets, escaped quotes and backslashes, through UnmarshalFeatureFlag / UnmarshalSegment; the model answers from the byte-level scan; non-trivial = total depth within 2 of the limit",
		"C15": "sequences of calls on one ldbuilders.FlagBuilder / SegmentBuilder (setters repeated, rule builders reused for several rules, values of intermediate Build() calls kept and looked at again, intermediate Build() calls, rule builders with the clause helpers, Variation / Rollout / Experiment / Bucket helpers); the flag the last Build() returns is encoded by the library and compared with the encoding of the model's fold of the same calls (Builders.v); the encoding must be a fixed point of decode/encode; non-trivial = at least three calls",
		"C19": "option lists for NewEvaluatorWithOptions with nil entries, repeated options, nil loggers and nil providers; what the evaluator ended up configured with is read off three probe evaluations (secondary key hashed, error line written for a malformed flag, big-segment store asked); the model folds the list; non-trivial = at least two entries",
		"C18": "ValueToTimestamp on rendered instants of years 0000-9999 (random offset, fraction, case), corrupted/truncated renderings, epoch numbers incl. extremes; non-trivial = accepted as a timestamp",
		"C07": "pairs of rollouts where one bucket grows at the expense of later ones, and segment rules with growing weight, on contexts whose bucket is adjacent to the split; non-trivial = the context was in the grown bucket",
	}[sel0(prop, forced)]
	lines := make([]string, len(cases))
	for i, mc := range cases {
		lines[i] = mc.wire.Line()
	}
	answers, err := runDriver(driver, lines, out, "micro")
	if err != nil {
		return nil, err
	}
	seen := map[string]bool{}
	for i, mc := range cases {
		res.Distribution[mc.class]++
		h := hashLine(lines[i])
		if !seen[h] && mc.nontrivial {
			res.DistinctNontrivial++
		}
		seen[h] = true
		mt := ParseLine(answers[i])
		ms, is := mt.String(), mc.impl.String()
		if mc.class == "builders" {
			ms = sortWireObjects(mt).String()
		}
		if mc.class == "monotone" && mt != nil && len(mt.L) == 2 {
			ix := func(o *Out) string {
				if o.Status != 1 {
					return o.statusStr()
				}
				return o.Index.String()
			}
			ms = L(S(ix(decodeOut(mt.L[0]))), S(ix(decodeOut(mt.L[1])))).String()
		}
		{
			// the implementation-side predicate was evaluated by the generator
			if pf, _ := mc.desc.(map[string]interface{})["predicate_failed"].(string); pf != "" {
				res.Violations = append(res.Violations, Disagreement{Index: i, What: pf, Go: is, Model: ms, Case: mc.desc, WireLine: lines[i], Predicate: pf})
			}
		}
		if ms != is {
			res.Disagreements = append(res.Disagreements, Disagreement{Index: i, What: "impl/model disagree (" + mc.class + ")", Go: is, Model: ms,
				GoProj: is, ModelProj: ms, Case: mc.desc, WireLine: lines[i]})
		}
		if len(res.Samples) < 3 && mc.nontrivial {
			res.Samples = append(res.Samples, map[string]interface{}{"case": mc.desc, "impl": is})
		}
	}
	res.Evaluations = len(cases)
	res.KernelCases = writeKernelSample(out, lines, answers, 40)
	return res, nil
}

func sel0(prop, forced string) string {
	if forced == "builders" {
		return "C15"
	}
	return prop
}

package main

import (
	"github.com/launchdarkly/go-sdk-common/v3/ldvalue"
	"github.com/launchdarkly/go-server-sdk-evaluation/v3/ldbuilders"
	"github.com/launchdarkly/go-server-sdk-evaluation/v3/ldmodel"
)

// flagViaBuilders reconstructs a flag through the public builders from the exported fields of f.
func flagViaBuilders(f ldmodel.FeatureFlag) ldmodel.FeatureFlag {
	b := ldbuilders.NewFlagBuilder(f.Key).On(f.On).Salt(f.Salt).TrackEvents(f.TrackEvents).
		TrackEventsFallthrough(f.TrackEventsFallthrough).Version(f.Version).Deleted(f.Deleted).
		DebugEventsUntilDate(f.DebugEventsUntilDate).ExcludeFromSummaries(f.ExcludeFromSummaries)
	for _, p := range f.Prerequisites {
		b.AddPrerequisite(p.Key, p.Variation)
	}
	for _, t := range f.Targets {
		b.AddTarget(t.Variation, t.Values...)
	}
	for _, t := range f.ContextTargets {
		b.AddContextTarget(t.ContextKind, t.Variation, t.Values...)
	}
	// a builder is often kept and built more than once: an intermediate Build() must not freeze anything
	_ = b.Build()
	for _, r := range f.Rules {
		rb := ldbuilders.NewRuleBuilder().ID(r.ID).TrackEvents(r.TrackEvents).VariationOrRollout(r.VariationOrRollout).Clauses(reusedClauses(r.Clauses)...)
		b.AddRule(rb)
	}
	b.Fallthrough(f.Fallthrough)
	if f.OffVariation.IsDefined() {
		b.OffVariation(f.OffVariation.IntValue())
	}
	b.Variations(append([]ldvalue.Value(nil), f.Variations...)...)
	if f.Migration != nil {
		b.MigrationFlagParameters(*f.Migration)
	}
	if f.SamplingRatio.IsDefined() {
		b.SamplingRatio(f.SamplingRatio.IntValue())
	}
	out := b.Build()
	// properties the builder has no setter for (or couples together) are copied: they are plain exported fields
	out.ClientSideAvailability = f.ClientSideAvailability
	// AddTarget cannot say which kind an entry of the older list is for; the field is exported and copied
	for i := range out.Targets {
		if i < len(f.Targets) {
			out.Targets[i].ContextKind = f.Targets[i].ContextKind
		}
	}
	return out
}

func segmentViaBuilders(s ldmodel.Segment) ldmodel.Segment {
	// the builder first produces an earlier version with the two key lists the other way round, then the real one:
	// what Build() returns must reflect the builder's current lists, not what an earlier Build() precomputed
	b := ldbuilders.NewSegmentBuilder(s.Key).Salt(s.Salt).Version(s.Version).Included(s.Excluded...).Excluded(s.Included...).
		Unbounded(s.Unbounded).UnboundedContextKind(s.UnboundedContextKind)
	_ = b.Build()
	b.Included(s.Included...).Excluded(s.Excluded...)
	for _, t := range s.IncludedContexts {
		b.IncludedContextKind(t.ContextKind, t.Values...)
	}
	for _, t := range s.ExcludedContexts {
		b.ExcludedContextKind(t.ContextKind, t.Values...)
	}
	if s.Generation.IsDefined() {
		b.Generation(s.Generation.IntValue())
	}
	for _, r := range s.Rules {
		rb := ldbuilders.NewSegmentRuleBuilder().ID(r.ID).Clauses(reusedClauses(r.Clauses)...).BucketByRef(r.BucketBy).RolloutContextKind(r.RolloutContextKind)
		if r.Weight.IsDefined() {
			rb.Weight(r.Weight.IntValue())
		}
		b.AddRule(rb)
	}
	out := b.Build()
	out.Deleted = s.Deleted
	return out
}

// reusedClauses: the clauses handed to a builder are often taken from an already built flag and edited (a new cut-off
// date, another pattern, other keys) rather than written from scratch. Each clause here first goes through
// preprocessing with decoy values of the same length, then gets its real values: Build() must precompute from the values
// the clause has NOW.
func reusedClauses(in []ldmodel.Clause) []ldmodel.Clause {
	if in == nil {
		return nil
	}
	decoys := plainClauses(in)
	for i := range decoys {
		for j, v := range decoys[i].Values {
			switch v.Type() {
			case ldvalue.StringType:
				decoys[i].Values[j] = ldvalue.String("1999-12-31T00:00:00Z")
			case ldvalue.NumberType:
				decoys[i].Values[j] = ldvalue.Int(12345)
			case ldvalue.BoolType:
				decoys[i].Values[j] = ldvalue.Bool(!v.BoolValue())
			}
		}
	}
	tmp := ldmodel.FeatureFlag{Rules: []ldmodel.FlagRule{{Clauses: decoys}}}
	ldmodel.PreprocessFlag(&tmp)
	out := tmp.Rules[0].Clauses
	for i := range out {
		out[i].Values = append([]ldvalue.Value(nil), in[i].Values...)
		if in[i].Values == nil {
			out[i].Values = nil
		}
	}
	return out
}

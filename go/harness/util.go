package main

import "unicode/utf8"

func validUTF8(s string) bool { return utf8.ValidString(s) }

//go:build !launchdarkly_easyjson

package main

import "github.com/launchdarkly/go-server-sdk-evaluation/v3/ldmodel"

const haveEasyJSON = false

func easyFlagEncode(f ldmodel.FeatureFlag, want []byte) string       { return "" }
func easyFlagDecode(text []byte, want ldmodel.FeatureFlag) string     { return "" }
func easySegmentEncode(f ldmodel.Segment, want []byte) string         { return "" }
func easySegmentDecode(text []byte, want ldmodel.Segment) string      { return "" }

package main

import "fmt"

func cmdMicro(prop string, n int, seed uint64, driver, out string) (*Result, error) {
	return nil, fmt.Errorf("not implemented")
}
func cmdCodec(prop string, n int, seed uint64, driver, out string) (*Result, error) {
	return nil, fmt.Errorf("not implemented")
}
func cmdHistory(prop string, n int, seed uint64, driver, out string) (*Result, error) {
	return nil, fmt.Errorf("not implemented")
}
func cmdRace(prop string, n int, seed uint64, secs int, out string) (*Result, error) {
	return nil, fmt.Errorf("not implemented")
}
func cmdReplay(path, driver, out string) error { return fmt.Errorf("not implemented") }

package main

import (
	"fmt"
	"strings"

	"github.com/launchdarkly/go-server-sdk-evaluation/v3/ldmodel"
)

// ---- C17: the nesting scan in front of the byte entry points ----
//
// Every case is a *well-formed* document that the decoder accepts whatever its depth (the depth is spent inside
// `variations`, clause `values` or an unknown property, where any JSON value is allowed), so the only reason for an error is
// the nesting limit. The document is shipped to the model as repeated pieces; the model (Nesting.v) answers whether the scan
// lets the bytes through. Depths sit on both sides of the limit; string literals carry brackets, escaped quotes and
// backslashes, which must not count.

type piece struct {
	n int
	s string
}

func piecesBytes(ps []piece) []byte {
	var sb strings.Builder
	for _, p := range ps {
		for i := 0; i < p.n; i++ {
			sb.WriteString(p.s)
		}
	}
	return []byte(sb.String())
}

var nestStrings = []string{`"[[[["`, `"]}"`, `"\""`, `"\\"`, `"a\\\"[{"`, `"\\\\"`, `"\"[\"{"`, `"x"`, `""`, `"[\\"`, `"é[\\"`}

func genNestCase(r *Rng) *microCase {
	const limit = 10000
	type shape struct {
		segment   bool
		pre, post string
		own       int // nesting levels of the shape itself around the free value
	}
	shapes := []shape{
		{false, `{"key":"f","variations":[`, `]}`, 2},
		{false, `{"key":"f","zzUnknown":`, `,"on":true}`, 1},
		{false, `{"key":"f","rules":[{"clauses":[{"attribute":"a","op":"in","values":[`, `]}]}]}`, 6},
		{true, `{"key":"s","rules":[{"clauses":[{"attribute":"a","op":"in","values":[`, `]}]}]}`, 6},
		{true, `{"key":"s","zzUnknown":{"a":`, `},"version":1}`, 2},
	}
	sh := shapes[r.Intn(len(shapes))]
	room := limit - sh.own // the free value may nest this deep
	depth := 0
	switch r.Intn(4) {
	case 0:
		depth = r.Intn(40)
	case 1:
		depth = room + r.Intn(5) - 2
	case 2:
		depth = room + []int{0, 1}[r.Intn(2)]
	default:
		depth = r.Pick2i([]int{room - 1, room, room + 1, room + 100, 2 * room, room / 2})
	}
	if depth < 0 {
		depth = 0
	}
	open, closeS := "[", "]"
	if r.P(0.3) {
		open, closeS = `{"a":`, "}"
	}
	inner := r.Pick([]string{"1", "null", `"x"`, "true", "-1.5e3", "[]", "{}"})
	if r.P(0.5) {
		inner = r.Pick(nestStrings)
	}
	innerDepth := 0
	if inner == "[]" || inner == "{}" {
		innerDepth = 1
	}
	var ps []piece
	ps = append(ps, piece{1, sh.pre})
	maxDepth := depth + innerDepth
	switch {
	case r.P(0.25): // a string full of brackets first, in an array beside the deep value: depth is the maximum, not the sum
		ps = append(ps, piece{1, "["}, piece{1, `"`}, piece{r.Range(1, 3) * 6000, r.Pick([]string{"[", "{", `\"[`, `\\`, "]"})}, piece{1, `"`}, piece{1, ","})
		ps = append(ps, piece{depth, open}, piece{1, inner}, piece{depth, closeS}, piece{1, "]"})
		maxDepth++
	case r.P(0.25): // two deep siblings
		d2 := r.Pick2i([]int{depth, depth / 2, room - 1, 3})
		ps = append(ps, piece{1, "["}, piece{d2, "["}, piece{1, r.Pick(nestStrings)}, piece{d2, "]"}, piece{1, ","})
		ps = append(ps, piece{depth, open}, piece{1, inner}, piece{depth, closeS}, piece{1, "]"})
		if d2 > maxDepth {
			maxDepth = d2
		}
		maxDepth++
	case r.P(0.3): // a string ending in an escaped backslash right before the deep value
		ps = append(ps, piece{1, "["}, piece{1, r.Pick([]string{`"\\"`, `"\\\\"`, `"\"\\"`, `"[\\"`})}, piece{1, ","})
		ps = append(ps, piece{depth, open}, piece{1, inner}, piece{depth, closeS}, piece{1, "]"})
		maxDepth++
	default:
		ps = append(ps, piece{depth, open}, piece{1, inner}, piece{depth, closeS})
	}
	ps = append(ps, piece{1, sh.post})
	data := piecesBytes(ps)
	var err error
	if sh.segment {
		_, err = ldmodel.NewJSONDataModelSerialization().UnmarshalSegment(data)
	} else {
		_, err = ldmodel.NewJSONDataModelSerialization().UnmarshalFeatureFlag(data)
	}
	total := maxDepth + sh.own
	desc := map[string]interface{}{"kind": "nesting", "segment": sh.segment, "pieces": fmt.Sprintf("%v", ps), "bytes": len(data), "nesting_depth": total}
	if (err == nil) != (total <= limit) {
		desc["predicate_failed"] = fmt.Sprintf("a well-formed document nested %d deep (limit %d): decoded=%v (err=%v)", total, limit, err == nil, err)
	}
	wp := make([]*T, len(ps))
	for i, p := range ps {
		wp[i] = L(A(uint64(p.n)), S(p.s))
	}
	cls := "nest_below"
	if total > limit {
		cls = "nest_above"
	} else if total >= limit-2 {
		cls = "nest_at_limit"
	}
	return &microCase{wire: L(A(11), LL(wp)), impl: Ab(err == nil), nontrivial: total >= limit-2 && total <= limit+2, class: cls, desc: desc}
}

func (r *Rng) Pick2i(xs []int) int { return xs[r.Intn(len(xs))] }

package main

import (
	"bytes"
	"sort"
	"encoding/json"
	"fmt"
	"reflect"
	"strings"

	"github.com/launchdarkly/go-jsonstream/v3/jreader"
	"github.com/launchdarkly/go-jsonstream/v3/jwriter"
	evaluation "github.com/launchdarkly/go-server-sdk-evaluation/v3"
	"github.com/launchdarkly/go-server-sdk-evaluation/v3/ldmodel"
)

var numExtremes = []float64{0, -0.0, 1, -1, 1.5, -1.5, 0.5, 1e21, -1e21, 1e30, -1e30, 9007199254740993, 9223372036854775807, -9223372036854775808,
	18446744073709551615, 1.8446744073709552e19, 2147483648, 4294967296, 99999.99}

type docPath struct {
	obj *J
	idx int
}

// every (object, property index) in the document, except inside free-form JSON values
func propSites(doc *J, acc *[]docPath) {
	switch doc.K {
	case 'a':
		for _, x := range doc.A {
			propSites(x, acc)
		}
	case 'o':
		for i, kv := range doc.O {
			*acc = append(*acc, docPath{doc, i})
			if kv.K == "values" || kv.K == "variations" && isValueList(kv.V) {
				continue
			}
			propSites(kv.V, acc)
		}
	}
}
func isValueList(v *J) bool { // flag-level "variations" (free-form values) vs rollout "variations" (objects with weight)
	if v.K != 'a' {
		return true
	}
	for _, x := range v.A {
		if x.K == 'o' && x.Get("weight") != nil {
			return false
		}
	}
	return true
}

func (w *World) decorate(doc *J, isFlag bool) {
	r := w.r
	if isFlag {
		if r.P(0.3) {
			csa := JObj()
			if r.P(0.6) { // each sub-property may be left out (= false); the empty object is still an explicit availability
				csa.Set("usingMobileKey", JBool(r.P(0.5)))
			}
			if r.P(0.6) {
				csa.Set("usingEnvironmentId", JBool(r.P(0.5)))
			}
			if r.P(0.1) {
				csa.Set("zzUnknown", JNum(1))
			}
			doc.Set("clientSideAvailability", csa)
			if r.P(0.5) {
				doc.Replace("clientSide", JBool(r.P(0.5)))
			}
		} else if r.P(0.1) {
			doc.Set("clientSideAvailability", JNull())
		}
		if r.P(0.4) {
			doc.Replace("debugEventsUntilDate", JNum([]float64{1577836800000, 1, 0, 1.5, 1e30, 18446744073709551615, 9007199254740993, 4102444800000}[r.Intn(8)]))
		}
		if r.P(0.06) {
			doc.Replace("debugEventsUntilDate", JNum([]float64{-1, -1.5e30, -0.5}[r.Intn(3)]))
		}
		if r.P(0.25) {
			switch r.Intn(3) {
			case 0:
				doc.Set("migration", JObj())
			case 1:
				doc.Set("migration", JObj(KV{"checkRatio", JInt(int64(r.Intn(100)))}))
			default:
				doc.Set("migration", JNull())
			}
		}
		if r.P(0.25) {
			doc.Set("samplingRatio", JInt(int64(r.Intn(1000))))
		}
	}
	var sites []docPath
	propSites(doc, &sites)
	// null / omission on nullable properties, numeric extremes on numeric ones
	for _, s := range sites {
		kv := &s.obj.O[s.idx]
		switch kv.K {
		case "offVariation", "variation", "rollout", "seed", "bucketBy", "attribute", "weight", "generation":
			if r.P(0.06) {
				kv.V = JNull()
			}
		}
		if kv.V.K == 'd' && r.P(0.04) {
			kv.V = JNum(numExtremes[r.Intn(len(numExtremes))])
		}
	}
}

func (w *World) breakDoc(doc *J) string {
	r := w.r
	var sites []docPath
	propSites(doc, &sites)
	if len(sites) == 0 {
		return ""
	}
	s := sites[r.Intn(len(sites))]
	kv := &s.obj.O[s.idx]
	old := kv.V
	var cands []*J
	switch old.K {
	case 's':
		cands = []*J{JNum(1), JBool(true), JArr(), JObj()}
	case 'd':
		cands = []*J{JStr("1"), JBool(true), JArr(), JObj()}
	case 'b':
		cands = []*J{JStr("true"), JNum(1), JNull(), JArr()}
	case 'a':
		cands = []*J{JStr("x"), JNum(1), JObj(), JBool(false)}
	case 'o':
		cands = []*J{JStr("x"), JNum(1), JArr(), JBool(false)}
	case 'n':
		cands = []*J{JStr("x"), JNum(1), JArr(), JBool(false), JObj()}
	}
	kv.V = cands[r.Intn(len(cands))]
	return kv.K
}

func genCodecDoc(r *Rng, p *Profile, isFlag bool) (*J, string) {
	w := &World{r: r, p: p}
	w.genCtx()
	var doc *J
	if isFlag {
		doc = w.genFlag(r.Pick(flagKeys), flagKeys)
	} else {
		doc = w.genSegment(r.Pick(segKeys))
	}
	w.decorate(doc, isFlag)
	class := "plain"
	if r.P(0.012) {
		// a string that ends in a backslash, and after it a string holding more open brackets than the byte entry points allow
		// nesting levels: neither is structure, the document is flat
		doc.Replace("key", JStr(r.Pick([]string{"k\\", "C:\\temp\\", "\\\\", "a\\\"\\", "é\\"})))
		brackets := JStr(strings.Repeat(r.Pick([]string{"[", "{", "[{", "[\\"}), 10001+r.Intn(40)))
		target := "included"
		if isFlag {
			target = "variations"
		}
		if a := doc.Get(target); a != nil && a.K == 'a' {
			a.A = append(a.A, brackets)
		} else {
			doc.Replace(target, JArr(brackets))
		}
	}
	if r.P(0.6) {
		w.noise(doc, 0)
		class = "noised"
	}
	if r.P(0.25) { // omission of arbitrary properties
		var sites []docPath
		propSites(doc, &sites)
		for k := 0; k < r.Range(1, 4) && len(sites) > 0; k++ {
			s := sites[r.Intn(len(sites))]
			if s.idx < len(s.obj.O) {
				s.obj.O = append(s.obj.O[:s.idx:s.idx], s.obj.O[s.idx+1:]...)
			}
			sites = sites[:0]
			propSites(doc, &sites)
		}
		class = "omitted"
	}
	if r.P(0.08) { // duplicate property
		var sites []docPath
		propSites(doc, &sites)
		if len(sites) > 0 {
			s := sites[r.Intn(len(sites))]
			kv := s.obj.O[s.idx]
			s.obj.O = append(s.obj.O, KV{kv.K, kv.V.Clone()})
			class = "duplicate"
		}
	}
	if r.P(0.12) {
		if k := w.breakDoc(doc); k != "" {
			class = "wrongtype"
		}
	}
	return doc, class
}

func goCodecFlag(text []byte) (*T, *ldmodel.FeatureFlag, []byte) {
	f1, err := serialization.UnmarshalFeatureFlag(text)
	if err != nil {
		return L(A(98)), nil, nil
	}
	j1, err := serialization.MarshalFeatureFlag(f1)
	if err != nil {
		return L(A(97), S(err.Error())), &f1, nil
	}
	a1, err := ParseJSON(j1)
	if err != nil {
		return L(A(96), S(string(j1))), &f1, j1
	}
	f2, err := serialization.UnmarshalFeatureFlag(j1)
	if err != nil {
		return L(A(2), a1.Wire()), &f1, j1
	}
	j2, _ := serialization.MarshalFeatureFlag(f2)
	a2, err := ParseJSON(j2)
	if err != nil {
		return L(A(96), S(string(j2))), &f1, j1
	}
	return L(A(1), a1.SortedValue().Wire(), a2.SortedValue().Wire()), &f1, j1
}
func goCodecSegment(text []byte) (*T, *ldmodel.Segment, []byte) {
	f1, err := serialization.UnmarshalSegment(text)
	if err != nil {
		return L(A(98)), nil, nil
	}
	j1, err := serialization.MarshalSegment(f1)
	if err != nil {
		return L(A(97), S(err.Error())), &f1, nil
	}
	a1, err := ParseJSON(j1)
	if err != nil {
		return L(A(96), S(string(j1))), &f1, j1
	}
	f2, err := serialization.UnmarshalSegment(j1)
	if err != nil {
		return L(A(2), a1.Wire()), &f1, j1
	}
	j2, _ := serialization.MarshalSegment(f2)
	a2, err := ParseJSON(j2)
	if err != nil {
		return L(A(96), S(string(j2))), &f1, j1
	}
	return L(A(1), a1.SortedValue().Wire(), a2.SortedValue().Wire()), &f1, j1
}

// canonJV sorts the properties of every object of a wire-encoded JSON value (JSON objects are unordered; ldvalue
// objects are Go maps, so the encoder's key order inside free-form values is not even deterministic)
func canonJV(t *T) {
	if t == nil || t.Kind != 2 {
		return
	}
	for _, x := range t.L {
		canonJV(x)
	}
	if len(t.L) == 2 && t.L[0].Kind == 0 && t.L[0].N == "5" && t.L[1].Kind == 2 {
		ps := t.L[1].L
		sort.SliceStable(ps, func(a, b int) bool { return string(ps[a].at(0).S) < string(ps[b].at(0).S) })
	}
}

func sameJSON(a, b []byte) bool {
	x, e1 := ParseJSON(a)
	y, e2 := ParseJSON(b)
	return e1 == nil && e2 == nil && x.SortedValue().Text() == y.SortedValue().Text()
}

// ---- C16: schema of the encoder's output, spelled out from the property text ----
func typeIs(v *J, k byte) bool { return v != nil && v.K == k }
func intOrNull(v *J) bool      { return v != nil && (v.K == 'd' || v.K == 'n') }

func schemaClauses(v *J) string {
	if !typeIs(v, 'a') {
		return "clauses is not an array"
	}
	for _, c := range v.A {
		if !typeIs(c.Get("attribute"), 's') || !typeIs(c.Get("op"), 's') || !typeIs(c.Get("values"), 'a') || !typeIs(c.Get("negate"), 'b') {
			return "clause lacks attribute/op/values/negate with schema type"
		}
	}
	return ""
}
func schemaTargets(v *J, name string) string {
	if !typeIs(v, 'a') {
		return name + " is not an array"
	}
	for _, t := range v.A {
		if !typeIs(t.Get("values"), 'a') || !typeIs(t.Get("variation"), 'd') {
			return name + " entry lacks values[]/variation"
		}
	}
	return ""
}
func schemaVorr(o *J, where string) string {
	if ro := o.Get("rollout"); ro != nil {
		if !typeIs(ro, 'o') || !typeIs(ro.Get("variations"), 'a') {
			return where + ": rollout without variations[]"
		}
		for _, wv := range ro.Get("variations").A {
			if !typeIs(wv.Get("variation"), 'd') || !typeIs(wv.Get("weight"), 'd') {
				return where + ": weighted variation lacks variation/weight"
			}
		}
	}
	if v := o.Get("variation"); v != nil && v.K != 'd' {
		return where + ": variation is not a number"
	}
	return ""
}
func schemaFlag(j *J) string {
	if !typeIs(j, 'o') {
		return "not an object"
	}
	for _, k := range []string{"key", "salt"} {
		if !typeIs(j.Get(k), 's') {
			return k + " missing or not a string"
		}
	}
	for _, k := range []string{"on", "clientSide", "trackEvents", "trackEventsFallthrough", "deleted"} {
		if !typeIs(j.Get(k), 'b') {
			return k + " missing or not a boolean"
		}
	}
	if !typeIs(j.Get("version"), 'd') {
		return "version missing or not a number"
	}
	if !intOrNull(j.Get("offVariation")) || !intOrNull(j.Get("debugEventsUntilDate")) {
		return "offVariation / debugEventsUntilDate missing"
	}
	if !typeIs(j.Get("variations"), 'a') {
		return "variations is not an array"
	}
	if !typeIs(j.Get("prerequisites"), 'a') {
		return "prerequisites is not an array"
	}
	for _, p := range j.Get("prerequisites").A {
		if !typeIs(p.Get("key"), 's') || !typeIs(p.Get("variation"), 'd') {
			return "prerequisite lacks key/variation"
		}
	}
	if e := schemaTargets(j.Get("targets"), "targets"); e != "" {
		return e
	}
	if e := schemaTargets(j.Get("contextTargets"), "contextTargets"); e != "" {
		return e
	}
	if !typeIs(j.Get("rules"), 'a') {
		return "rules is not an array"
	}
	for _, r := range j.Get("rules").A {
		if e := schemaClauses(r.Get("clauses")); e != "" {
			return "rule: " + e
		}
		if !typeIs(r.Get("trackEvents"), 'b') {
			return "rule lacks trackEvents"
		}
		if e := schemaVorr(r, "rule"); e != "" {
			return e
		}
	}
	if !typeIs(j.Get("fallthrough"), 'o') {
		return "fallthrough is not an object"
	}
	return schemaVorr(j.Get("fallthrough"), "fallthrough")
}
func schemaSegment(j *J) string {
	if !typeIs(j, 'o') {
		return "not an object"
	}
	for _, k := range []string{"key", "salt"} {
		if !typeIs(j.Get(k), 's') {
			return k + " missing or not a string"
		}
	}
	for _, k := range []string{"included", "excluded", "includedContexts", "excludedContexts", "rules"} {
		if !typeIs(j.Get(k), 'a') {
			return k + " is not an array"
		}
	}
	for _, k := range []string{"includedContexts", "excludedContexts"} {
		for _, t := range j.Get(k).A {
			if !typeIs(t.Get("values"), 'a') {
				return k + " entry lacks values[]"
			}
		}
	}
	for _, r := range j.Get("rules").A {
		if !typeIs(r.Get("id"), 's') {
			return "segment rule lacks id"
		}
		if e := schemaClauses(r.Get("clauses")); e != "" {
			return "segment rule: " + e
		}
	}
	if !typeIs(j.Get("version"), 'd') || !typeIs(j.Get("deleted"), 'b') || !intOrNull(j.Get("generation")) {
		return "version/deleted/generation missing"
	}
	return ""
}

// all encode paths / decode paths of a flag
// outputs returned earlier by the serialization object are kept (not copied) together with a snapshot: a caller owns the
// bytes it was given, so later encode calls must not change them
type heldOutput struct{ got, snap []byte }

var heldOutputs []heldOutput

func holdOutput(a []byte) string {
	for _, h := range heldOutputs {
		if !bytes.Equal(h.got, h.snap) {
			heldOutputs = nil
			return "bytes returned by an earlier Marshal call were changed by a later one (the result aliases reused memory)"
		}
	}
	heldOutputs = append(heldOutputs, heldOutput{a, append([]byte(nil), a...)})
	if len(heldOutputs) > 6 {
		heldOutputs = heldOutputs[1:]
	}
	return ""
}

func flagPaths(f ldmodel.FeatureFlag, text []byte) string {
	a, _ := serialization.MarshalFeatureFlag(f)
	if e := holdOutput(a); e != "" {
		return e
	}
	b, err := json.Marshal(f)
	if err != nil || !sameJSON(a, b) {
		return "json.Marshal differs from the serialization object"
	}
	w := jwriter.NewWriter()
	ldmodel.MarshalFeatureFlagToJSONWriter(f, &w)
	if !sameJSON(a, w.Bytes()) {
		return "MarshalFeatureFlagToJSONWriter differs from the serialization object"
	}
	if e := easyFlagEncode(f, a); e != "" {
		return e
	}
	if !json.Valid(a) {
		return "encoder output is not valid JSON"
	}
	d1, e1 := serialization.UnmarshalFeatureFlag(text)
	var d2 ldmodel.FeatureFlag
	e2 := json.Unmarshal(text, &d2)
	rd := jreader.NewReader(text)
	d3 := ldmodel.UnmarshalFeatureFlagFromJSONReader(&rd)
	if (e1 == nil) != (e2 == nil) || (e1 == nil) != (rd.Error() == nil) {
		return "decode paths disagree on acceptance"
	}
	if e1 == nil {
		if !reflect.DeepEqual(d1, d2) || !reflect.DeepEqual(d1, d3) {
			return "decode paths produce different values"
		}
		if e := easyFlagDecode(text, d1); e != "" {
			return e
		}
		// the encoding/json hook into a destination that already holds another flag
		d4 := usedFlag()
		if err := json.Unmarshal(text, &d4); err != nil || !reflect.DeepEqual(d1, d4) {
			return "json.Unmarshal into a previously used destination differs from the serialization object: " + firstDiff(reflect.ValueOf(d1), reflect.ValueOf(d4), "flag")
		}
	}
	return ""
}

func usedFlag() ldmodel.FeatureFlag {
	f, _ := serialization.UnmarshalFeatureFlag([]byte(`{"key":"old","on":true,"prerequisites":[{"key":"p","variation":1}],"targets":[{"values":["x"],"variation":1}],
	 "contextTargets":[{"contextKind":"org","values":["y"],"variation":0}],"rules":[{"variation":1,"id":"oldrule","clauses":[{"attribute":"a","op":"in","values":[1,2],"negate":true}],"trackEvents":true}],
	 "fallthrough":{"rollout":{"kind":"experiment","seed":5,"variations":[{"variation":0,"weight":100000,"untracked":true}]}},"offVariation":1,"variations":["a","b"],
	 "clientSideAvailability":{"usingMobileKey":true,"usingEnvironmentId":true},"salt":"oldsalt","trackEvents":true,"trackEventsFallthrough":true,
	 "debugEventsUntilDate":99,"version":9,"deleted":true,"migration":{"checkRatio":3},"samplingRatio":4,"excludeFromSummaries":true}`))
	return f
}
func usedSegment() ldmodel.Segment {
	s, _ := serialization.UnmarshalSegment([]byte(`{"key":"old","included":["a"],"excluded":["b"],"includedContexts":[{"contextKind":"org","values":["c"]}],
	 "excludedContexts":[{"contextKind":"org","values":["d"]}],"salt":"oldsalt","rules":[{"id":"r","clauses":[],"weight":5,"bucketBy":"x","rolloutContextKind":"org"}],
	 "unbounded":true,"unboundedContextKind":"org","version":9,"generation":3,"deleted":true}`))
	return s
}
func segmentPaths(f ldmodel.Segment, text []byte) string {
	a, _ := serialization.MarshalSegment(f)
	if e := holdOutput(a); e != "" {
		return e
	}
	b, err := json.Marshal(f)
	if err != nil || !sameJSON(a, b) {
		return "json.Marshal differs from the serialization object"
	}
	w := jwriter.NewWriter()
	ldmodel.MarshalSegmentToJSONWriter(f, &w)
	if !sameJSON(a, w.Bytes()) {
		return "MarshalSegmentToJSONWriter differs from the serialization object"
	}
	if e := easySegmentEncode(f, a); e != "" {
		return e
	}
	if !json.Valid(a) {
		return "encoder output is not valid JSON"
	}
	d1, e1 := serialization.UnmarshalSegment(text)
	var d2 ldmodel.Segment
	e2 := json.Unmarshal(text, &d2)
	rd := jreader.NewReader(text)
	d3 := ldmodel.UnmarshalSegmentFromJSONReader(&rd)
	if (e1 == nil) != (e2 == nil) || (e1 == nil) != (rd.Error() == nil) {
		return "decode paths disagree on acceptance"
	}
	if e1 == nil {
		if !reflect.DeepEqual(d1, d2) || !reflect.DeepEqual(d1, d3) {
			return "decode paths produce different values"
		}
		if e := easySegmentDecode(text, d1); e != "" {
			return e
		}
		d4 := usedSegment()
		if err := json.Unmarshal(text, &d4); err != nil || !reflect.DeepEqual(d1, d4) {
			return "json.Unmarshal into a previously used destination differs from the serialization object: " + firstDiff(reflect.ValueOf(d1), reflect.ValueOf(d4), "segment")
		}
	}
	return ""
}

// evaluate two flags on a handful of contexts and compare complete results
func sameEvaluation(r *Rng, p *Profile, f1, f2 *ldmodel.FeatureFlag) string {
	ev := evaluation.NewEvaluator(&dataProv{flags: map[string]*ldmodel.FeatureFlag{}, segs: map[string]*ldmodel.Segment{}})
	for i := 0; i < 4; i++ {
		w := &World{r: r, p: p}
		w.genCtx()
		a, b := ev.Evaluate(f1, w.real, nil), ev.Evaluate(f2, w.real, nil)
		if !reflect.DeepEqual(a, b) {
			return fmt.Sprintf("round-tripped flag evaluates differently for context %s: %v vs %v", w.real.String(), a, b)
		}
	}
	return ""
}

func cmdCodec(prop string, n int, seed uint64, driver, out string) (*Result, error) {
	root := NewRng(seed ^ hashSeed(prop+"codec"))
	prof := baseProfile(prop)
	prof.PMalformed = 0.05
	prof.PKindInTargets = 0.15
	if prop == "C17" {
		prof.PCrossNames = 0.05
	}
	res := &Result{Prop: prop, Mode: "codec", Seed: seed, Distribution: map[string]int{}}
	res.Rule = "flag and segment documents from the structured generator, decorated (optional properties, nulls, numeric extremes), noised (property order, unknown properties at any depth, null lists), with omissions, duplicates and wrong types; non-trivial = accepted document that carries >=1 optional/non-default property or noise; distinct by hash of the document"
	type cc struct {
		doc    *J
		isFlag bool
		class  string
		impl   *T
		pred   string
		desc   map[string]interface{}
	}
	var cases []*cc
	var lines []string
	for i := 0; i < n; i++ {
		r := root.Fork()
		isFlag := i%3 != 2
		doc, class := genCodecDoc(r, &prof, isFlag)
		c := &cc{doc: doc, isFlag: isFlag, class: class}
		text := []byte(doc.Text())
		c.desc = map[string]interface{}{"type": map[bool]string{true: "flag", false: "segment"}[isFlag], "class": class, "document": string(text)}
		if isFlag {
			var f1 *ldmodel.FeatureFlag
			var j1 []byte
			c.impl, f1, j1 = goCodecFlag(text)
			lines = append(lines, L(A(3), doc.Wire()).Line())
			if f1 != nil && j1 != nil {
				switch prop {
				case "C15":
					f2, err := serialization.UnmarshalFeatureFlag(j1)
					if err == nil {
						j2, _ := serialization.MarshalFeatureFlag(f2)
						f3, err3 := serialization.UnmarshalFeatureFlag(j2)
						if !sameJSON(j1, j2) {
							c.pred = "encode(decode(encode(f))) differs from encode(f): no fixed point after one step"
						} else if err3 != nil || !reflect.DeepEqual(f2, f3) {
							c.pred = "decode(encode(.)) is not a fixed point on the re-decoded flag (values not deeply equal): " + firstDiff(reflect.ValueOf(f2), reflect.ValueOf(f3), "flag")
						} else {
							c.pred = sameEvaluation(r, &prof, f1, &f2)
						}
					} else {
						c.pred = "encoder output is rejected by the decoder: " + err.Error()
					}
				case "C16":
					a1, err := ParseJSON(j1)
					if err != nil {
						c.pred = "encoder output does not parse as JSON"
					} else if e := schemaFlag(a1); e != "" {
						c.pred = "wire schema: " + e
					} else {
						c.pred = flagPaths(*f1, text)
					}
				}
			}
			if f1 == nil && prop == "C16" {
				c.pred = flagPaths(ldmodel.FeatureFlag{}, text)
			}
		} else {
			var s1 *ldmodel.Segment
			var j1 []byte
			c.impl, s1, j1 = goCodecSegment(text)
			lines = append(lines, L(A(4), doc.Wire()).Line())
			if s1 != nil && j1 != nil {
				switch prop {
				case "C15":
					s2, err := serialization.UnmarshalSegment(j1)
					if err == nil {
						j2, _ := serialization.MarshalSegment(s2)
						s3, err3 := serialization.UnmarshalSegment(j2)
						if !sameJSON(j1, j2) {
							c.pred = "no fixed point after one step (segment)"
						} else if err3 != nil || !reflect.DeepEqual(s2, s3) {
							c.pred = "decode(encode(.)) is not a fixed point on the re-decoded segment: " + firstDiff(reflect.ValueOf(s2), reflect.ValueOf(s3), "segment")
						}
					} else {
						c.pred = "encoder output is rejected by the decoder: " + err.Error()
					}
				case "C16":
					a1, err := ParseJSON(j1)
					if err != nil {
						c.pred = "encoder output does not parse as JSON"
					} else if e := schemaSegment(a1); e != "" {
						c.pred = "wire schema: " + e
					} else {
						c.pred = segmentPaths(*s1, text)
					}
				}
			}
		}
		cases = append(cases, c)
	}
	answers, err := runDriver(driver, lines, out, "codec")
	if err != nil {
		return nil, err
	}
	seen := map[string]bool{}
	for i, c := range cases {
		mt := ParseLine(answers[i])
		canonJV(mt)
		canonJV(c.impl)
		ms, is := mt.String(), c.impl.String()
		accepted := c.impl.tag() == 1
		res.Distribution["class_"+c.class]++
		if accepted {
			res.Distribution["accepted"]++
		} else {
			res.Distribution[fmt.Sprintf("impl_status_%d", c.impl.tag())]++
		}
		h := hashLine(lines[i])
		if !seen[h] && accepted && c.class != "plain" {
			res.DistinctNontrivial++
		}
		seen[h] = true
		if ms != is {
			what := "decoder/encoder and model disagree"
			if (c.impl.tag() == 98) != (mt.tag() == 98) {
				what = "decoder and model disagree on whether the document is accepted"
			}
			res.Disagreements = append(res.Disagreements, Disagreement{Index: i, What: what, Go: is, Model: ms, GoProj: is, ModelProj: ms,
				Case: c.desc, WireLine: lines[i], Predicate: c.pred})
		} else if c.pred != "" {
			res.Violations = append(res.Violations, Disagreement{Index: i, What: c.pred, Go: is, Model: ms, Case: c.desc, WireLine: lines[i], Predicate: c.pred})
		}
		if len(res.Samples) < 3 && accepted && c.class != "plain" {
			res.Samples = append(res.Samples, map[string]interface{}{"case": c.desc})
		}
	}
	res.Evaluations = len(cases)
	if prop == "C17" {
		leniency(root, &prof, res, n/2)
		byteMutants(root, &prof, res, n/2)
	}
	if prop == "C15" {
		builderRoundTrip(root, &prof, res, n/3)
	}
	res.KernelCases = writeKernelSample(out, lines, answers, 30)
	res.Extra = map[string]interface{}{"easyjson_paths": haveEasyJSON}
	return res, nil
}

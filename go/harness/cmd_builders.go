package main

import (
	"fmt"
	"sort"

	"github.com/launchdarkly/go-sdk-common/v3/ldattr"

	"github.com/launchdarkly/go-sdk-common/v3/ldcontext"
	"github.com/launchdarkly/go-sdk-common/v3/ldtime"
	"github.com/launchdarkly/go-sdk-common/v3/ldvalue"
	"github.com/launchdarkly/go-server-sdk-evaluation/v3/ldbuilders"
	"github.com/launchdarkly/go-server-sdk-evaluation/v3/ldmodel"
)

// ---- C15 / C14: the ldbuilders package ----
//
// A case is a sequence of calls on one FlagBuilder (setters given more than once, intermediate Build() calls, rule builders
// with clause helpers, the Rollout / Experiment / Variation helpers). The flag the last Build() returns is encoded by the
// library; the model (Builders.v) folds the same calls over its flag record and encodes that.

func genBuilderCase(r *Rng) *microCase {
	key := r.Pick([]string{"f0", "flag-key", "f%d", ""})
	b := ldbuilders.NewFlagBuilder(key)
	var wops []*T
	var words []string
	add := func(w *T, s string) {
		wops = append(wops, w)
		words = append(words, s)
	}
	val := func() *J {
		return []*J{JStr("a"), JStr(""), JBool(true), JNum(1), JNum(-2.5), JNull(), JArr(JStr("x"), JNum(2)), JObj(KV{"k", JBool(false)}), JNum(1e10)}[r.Intn(9)]
	}
	keys := func() []string {
		n := r.Intn(4)
		ks := make([]string, n)
		for i := range ks {
			ks[i] = r.Pick([]string{"a", "b", "", "k 1", "é"})
		}
		return ks
	}
	wkeys := func(ks []string) *T {
		l := make([]*T, len(ks))
		for i, k := range ks {
			l[i] = S(k)
		}
		return LL(l)
	}
	vorr := func() (ldmodel.VariationOrRollout, *T, string) {
		buckets := func() ([]ldmodel.WeightedVariation, *T) {
			n := r.Intn(4)
			bs := make([]ldmodel.WeightedVariation, n)
			ws := make([]*T, n)
			for i := range bs {
				v, w := r.Intn(4), []int{0, 1, 50000, 100000, -5}[r.Intn(5)]
				if r.P(0.3) {
					bs[i] = ldbuilders.BucketUntracked(v, w)
					ws[i] = L(AZ(int64(v)), AZ(int64(w)), A(1))
				} else {
					bs[i] = ldbuilders.Bucket(v, w)
					ws[i] = L(AZ(int64(v)), AZ(int64(w)), A(0))
				}
			}
			return bs, LL(ws)
		}
		switch r.Intn(3) {
		case 0:
			i := r.Intn(5) - 1
			return ldbuilders.Variation(i), L(A(0), AZ(int64(i))), fmt.Sprintf("Variation(%d)", i)
		case 1:
			bs, ws := buckets()
			return ldbuilders.Rollout(bs...), L(A(1), ws), fmt.Sprintf("Rollout(%d buckets)", len(bs))
		default:
			bs, ws := buckets()
			if r.P(0.5) {
				seed := int64(r.Intn(1000)) - 3
				return ldbuilders.Experiment(ldvalue.NewOptionalInt(int(seed)), bs...), L(A(2), L(AZ(seed)), ws), fmt.Sprintf("Experiment(seed %d, %d buckets)", seed, len(bs))
			}
			return ldbuilders.Experiment(ldvalue.OptionalInt{}, bs...), L(A(2), L(), ws), fmt.Sprintf("Experiment(no seed, %d buckets)", len(bs))
		}
	}
	clause := func() (ldmodel.Clause, *T) {
		neg := r.P(0.3)
		var c ldmodel.Clause
		var w *T
		if r.P(0.25) {
			ks := keys()
			c = ldbuilders.SegmentMatchClause(ks...)
			w = L(A(1), wkeys(ks), Ab(neg))
		} else {
			kind := r.Pick([]string{"", "", "org", "user"})
			attr := r.Pick([]string{"name", "/a/b", "", "key", "~x", "kind"})
			op := r.Pick([]string{"in", "matches", "before", "semVerEqual", "unknownOp"})
			n := r.Intn(3)
			vs := make([]ldvalue.Value, n)
			ws := make([]*T, n)
			for i := range vs {
				j := val()
				vs[i], ws[i] = j.ToLdvalue(), j.Wire()
			}
			if kind == "" {
				c = ldbuilders.Clause(attr, ldmodel.Operator(op), vs...)
			} else {
				c = ldbuilders.ClauseWithKind(ldcontext.Kind(kind), attr, ldmodel.Operator(op), vs...)
			}
			w = L(A(0), S(kind), S(attr), S(op), LL(ws), Ab(neg))
		}
		if neg {
			c = ldbuilders.Negate(c)
		}
		return c, w
	}
	// one rule builder may be used for several rules (all four setters are then called each time, so that the rule is a
	// function of this call list alone); values returned by intermediate Build() calls are kept and looked at again at the end
	sharedRB := ldbuilders.NewRuleBuilder()
	type kept struct {
		f   ldmodel.FeatureFlag
		enc string
	}
	var keptBuilds []kept
	n := r.Range(0, 12)
	for i := 0; i < n; i++ {
		switch r.Intn(21) {
		case 0:
			k, v := r.Pick([]string{"p1", "p2", ""}), r.Intn(3)
			b.AddPrerequisite(k, v)
			add(L(A(1), S(k), AZ(int64(v))), fmt.Sprintf("AddPrerequisite(%q,%d)", k, v))
		case 1:
			rb := ldbuilders.NewRuleBuilder()
			reuse := r.P(0.5)
			if reuse {
				rb = sharedRB
			}
			var rops []*T
			calls := r.Intn(6)
			order := r.Perm(4)
			if reuse {
				calls = 4
			}
			for j := 0; j < calls; j++ {
				which := r.Intn(4)
				if reuse {
					which = order[j]
				}
				switch which {
				case 0:
					m := r.Intn(3)
					cs := make([]ldmodel.Clause, m)
					ws := make([]*T, m)
					for q := range cs {
						cs[q], ws[q] = clause()
					}
					rb.Clauses(cs...)
					rops = append(rops, L(A(1), LL(ws)))
				case 1:
					id := r.Pick([]string{"r1", "", "rule two"})
					rb.ID(id)
					rops = append(rops, L(A(2), S(id)))
				case 2:
					t := r.P(0.5)
					rb.TrackEvents(t)
					rops = append(rops, L(A(3), Ab(t)))
				default:
					vr, w, _ := vorr()
					if vr.Variation.IsDefined() && r.P(0.5) {
						rb.Variation(vr.Variation.IntValue())
					} else {
						rb.VariationOrRollout(vr)
					}
					rops = append(rops, L(A(4), w))
				}
			}
			b.AddRule(rb)
			add(L(A(2), LL(rops)), fmt.Sprintf("AddRule(%d calls)", len(rops)))
		case 2:
			v, ks := r.Intn(3), keys()
			b.AddTarget(v, ks...)
			add(L(A(3), AZ(int64(v)), wkeys(ks)), fmt.Sprintf("AddTarget(%d,%q)", v, ks))
		case 3:
			kind, v, ks := r.Pick([]string{"user", "org", ""}), r.Intn(3), keys()
			b.AddContextTarget(ldcontext.Kind(kind), v, ks...)
			add(L(A(4), S(kind), AZ(int64(v)), wkeys(ks)), fmt.Sprintf("AddContextTarget(%q,%d,%q)", kind, v, ks))
		case 4:
			x := r.P(0.5)
			b.ClientSideUsingEnvironmentID(x)
			add(L(A(5), Ab(x)), fmt.Sprintf("ClientSideUsingEnvironmentID(%v)", x))
		case 5:
			x := r.P(0.5)
			b.ClientSideUsingMobileKey(x)
			add(L(A(6), Ab(x)), fmt.Sprintf("ClientSideUsingMobileKey(%v)", x))
		case 6:
			z := r.Pick2([]int64{0, 1, 1577836800000, 253402300799000})
			b.DebugEventsUntilDate(ldtime.UnixMillisecondTime(z))
			add(L(A(7), AZ(z)), fmt.Sprintf("DebugEventsUntilDate(%d)", z))
		case 7:
			x := r.P(0.5)
			b.Deleted(x)
			add(L(A(8), Ab(x)), fmt.Sprintf("Deleted(%v)", x))
		case 8:
			x := r.P(0.5)
			b.ExcludeFromSummaries(x)
			add(L(A(9), Ab(x)), fmt.Sprintf("ExcludeFromSummaries(%v)", x))
		case 9:
			vr, w, s := vorr()
			if vr.Variation.IsDefined() && r.P(0.5) {
				b.FallthroughVariation(vr.Variation.IntValue())
			} else {
				b.Fallthrough(vr)
			}
			add(L(A(10), w), "Fallthrough("+s+")")
		case 10:
			v := r.Intn(4) - 1
			b.OffVariation(v)
			add(L(A(11), AZ(int64(v))), fmt.Sprintf("OffVariation(%d)", v))
		case 11:
			x := r.P(0.5)
			b.On(x)
			add(L(A(12), Ab(x)), fmt.Sprintf("On(%v)", x))
		case 12:
			x := r.Pick([]string{"salt", "", "s\\\"x"})
			b.Salt(x)
			add(L(A(13), S(x)), fmt.Sprintf("Salt(%q)", x))
		case 13:
			z := r.Intn(100) - 1
			b.SamplingRatio(z)
			add(L(A(14), AZ(int64(z))), fmt.Sprintf("SamplingRatio(%d)", z))
		case 14:
			j := val()
			b.SingleVariation(j.ToLdvalue())
			add(L(A(15), j.Wire()), "SingleVariation("+j.Text()+")")
		case 15:
			x := r.P(0.5)
			b.TrackEvents(x)
			add(L(A(16), Ab(x)), fmt.Sprintf("TrackEvents(%v)", x))
		case 16:
			x := r.P(0.5)
			b.TrackEventsFallthrough(x)
			add(L(A(17), Ab(x)), fmt.Sprintf("TrackEventsFallthrough(%v)", x))
		case 17:
			m := r.Intn(4)
			vs := make([]ldvalue.Value, m)
			ws := make([]*T, m)
			for q := range vs {
				j := val()
				vs[q], ws[q] = j.ToLdvalue(), j.Wire()
			}
			b.Variations(vs...)
			add(L(A(18), LL(ws)), fmt.Sprintf("Variations(%d values)", m))
		case 18:
			z := r.Intn(1000)
			b.Version(z)
			add(L(A(19), AZ(int64(z))), fmt.Sprintf("Version(%d)", z))
		case 19:
			mb := ldbuilders.NewMigrationFlagParametersBuilder()
			if r.P(0.6) {
				z := r.Intn(50)
				mb.CheckRatio(z)
				b.MigrationFlagParameters(mb.Build())
				add(L(A(20), L(AZ(int64(z)))), fmt.Sprintf("MigrationFlagParameters(checkRatio %d)", z))
			} else {
				b.MigrationFlagParameters(mb.Build())
				add(L(A(20), L()), "MigrationFlagParameters()")
			}
		default:
			fb := b.Build()
			if e, err := serialization.MarshalFeatureFlag(fb); err == nil {
				keptBuilds = append(keptBuilds, kept{fb, string(e)})
			}
			add(L(A(21)), "Build()")
		}
	}
	desc := map[string]interface{}{"kind": "ldbuilders.FlagBuilder", "key": key, "calls": words}
	f := b.Build()
	j1, err := serialization.MarshalFeatureFlag(f)
	if err != nil {
		desc["predicate_failed"] = "the built flag cannot be encoded: " + err.Error()
		return &microCase{wire: L(A(13), S(key), LL(wops)), impl: L(A(97)), nontrivial: true, class: "builders", desc: desc}
	}
	a1, err := ParseJSON(j1)
	if err != nil {
		desc["predicate_failed"] = "the encoding of the built flag does not parse: " + string(j1)
		return &microCase{wire: L(A(13), S(key), LL(wops)), impl: L(A(96)), nontrivial: true, class: "builders", desc: desc}
	}
	// a builder value is returned by decode(encode(v)) exactly (C15) unless it carries a set-but-empty rollout
	if f2, err := serialization.UnmarshalFeatureFlag(j1); err != nil {
		desc["predicate_failed"] = "the encoding of the built flag is rejected by the decoder: " + err.Error()
	} else if j2, _ := serialization.MarshalFeatureFlag(f2); !sameJSON(j1, j2) {
		desc["predicate_failed"] = "encode(decode(encode(v))) differs from encode(v) for a builder value"
	}
	for _, k := range keptBuilds {
		if e, err := serialization.MarshalFeatureFlag(k.f); err != nil || string(e) != k.enc {
			desc["predicate_failed"] = "a flag returned by an earlier Build() changed when the builder was used further: was " + k.enc + " is " + string(e)
		}
	}
	desc["encoded"] = string(j1)
	return &microCase{wire: L(A(13), S(key), LL(wops)), impl: a1.SortedValue().Wire(), nontrivial: n >= 3, class: "builders", desc: desc}
}

func genSegBuilderCase(r *Rng) *microCase {
	key := r.Pick([]string{"s0", "seg-key", ""})
	b := ldbuilders.NewSegmentBuilder(key)
	var wops []*T
	var words []string
	add := func(w *T, s string) {
		wops = append(wops, w)
		words = append(words, s)
	}
	keys := func() []string {
		n := r.Intn(4)
		ks := make([]string, n)
		for i := range ks {
			ks[i] = r.Pick([]string{"a", "b", "", "k 1", "é"})
		}
		return ks
	}
	wkeys := func(ks []string) *T {
		l := make([]*T, len(ks))
		for i, k := range ks {
			l[i] = S(k)
		}
		return LL(l)
	}
	clause := func() (ldmodel.Clause, *T) {
		neg := r.P(0.3)
		var c ldmodel.Clause
		var w *T
		if r.P(0.4) {
			ks := keys()
			c = ldbuilders.SegmentMatchClause(ks...)
			w = L(A(1), wkeys(ks), Ab(neg))
		} else {
			kind := r.Pick([]string{"", "org"})
			attr := r.Pick([]string{"name", "/a/b", "key"})
			op := r.Pick([]string{"in", "matches", "after"})
			j := []*J{JStr("a"), JNum(1), JStr("^x")}[r.Intn(3)]
			if kind == "" {
				c = ldbuilders.Clause(attr, ldmodel.Operator(op), j.ToLdvalue())
			} else {
				c = ldbuilders.ClauseWithKind(ldcontext.Kind(kind), attr, ldmodel.Operator(op), j.ToLdvalue())
			}
			w = L(A(0), S(kind), S(attr), S(op), L(j.Wire()), Ab(neg))
		}
		if neg {
			c = ldbuilders.Negate(c)
		}
		return c, w
	}
	sharedRB := ldbuilders.NewSegmentRuleBuilder()
	type kept struct {
		s   ldmodel.Segment
		enc string
	}
	var keptBuilds []kept
	n := r.Range(0, 12)
	for i := 0; i < n; i++ {
		switch r.Intn(11) {
		case 0, 1:
			rb := ldbuilders.NewSegmentRuleBuilder()
			reuse := r.P(0.5)
			if reuse {
				rb = sharedRB
			}
			var rops []*T
			calls := r.Intn(6)
			order := r.Perm(5)
			if reuse {
				calls = 5
			}
			for j := 0; j < calls; j++ {
				which := r.Intn(5)
				if reuse {
					which = order[j]
				}
				switch which {
				case 0:
					// valid parts only (C15 is about builder values made of valid parts): no empty name, no malformed reference
					if r.P(0.5) {
						attr := r.Pick([]string{"name", "/dept", "/a/b", "~x", "a~1b"})
						rb.BucketBy(attr)
						rops = append(rops, L(A(1), S(attr)))
					} else {
						attr := r.Pick([]string{"name", "/dept", "/a/b", "/a~1b"})
						rb.BucketByRef(ldattr.NewRef(attr))
						rops = append(rops, L(A(2), S(attr)))
					}
				case 1:
					m := r.Intn(3)
					cs := make([]ldmodel.Clause, m)
					ws := make([]*T, m)
					for q := range cs {
						cs[q], ws[q] = clause()
					}
					rb.Clauses(cs...)
					rops = append(rops, L(A(3), LL(ws)))
				case 2:
					id := r.Pick([]string{"sr1", "", "rule two"})
					rb.ID(id)
					rops = append(rops, L(A(4), S(id)))
				case 3:
					k := r.Pick([]string{"", "org", "user"})
					rb.RolloutContextKind(ldcontext.Kind(k))
					rops = append(rops, L(A(5), S(k)))
				default:
					z := []int{0, 1, 50000, 100000, -1}[r.Intn(5)]
					rb.Weight(z)
					rops = append(rops, L(A(6), AZ(int64(z))))
				}
			}
			b.AddRule(rb)
			add(L(A(1), LL(rops)), fmt.Sprintf("AddRule(%d calls, reused builder=%v)", len(rops), reuse))
		case 2:
			ks := keys()
			b.Excluded(ks...)
			add(L(A(2), wkeys(ks)), fmt.Sprintf("Excluded(%q)", ks))
		case 3:
			ks := keys()
			b.Included(ks...)
			add(L(A(3), wkeys(ks)), fmt.Sprintf("Included(%q)", ks))
		case 4:
			kind, ks := r.Pick([]string{"org", "user", ""}), keys()
			b.IncludedContextKind(ldcontext.Kind(kind), ks...)
			add(L(A(4), S(kind), wkeys(ks)), fmt.Sprintf("IncludedContextKind(%q,%q)", kind, ks))
		case 5:
			kind, ks := r.Pick([]string{"org", "user", ""}), keys()
			b.ExcludedContextKind(ldcontext.Kind(kind), ks...)
			add(L(A(5), S(kind), wkeys(ks)), fmt.Sprintf("ExcludedContextKind(%q,%q)", kind, ks))
		case 6:
			if r.P(0.5) {
				z := r.Intn(100)
				b.Version(z)
				add(L(A(6), AZ(int64(z))), fmt.Sprintf("Version(%d)", z))
			} else {
				x := r.Pick([]string{"salt", "", "x"})
				b.Salt(x)
				add(L(A(7), S(x)), fmt.Sprintf("Salt(%q)", x))
			}
		case 7:
			x := r.P(0.6)
			b.Unbounded(x)
			add(L(A(8), Ab(x)), fmt.Sprintf("Unbounded(%v)", x))
		case 8:
			k := r.Pick([]string{"org", "user", ""})
			b.UnboundedContextKind(ldcontext.Kind(k))
			add(L(A(9), S(k)), fmt.Sprintf("UnboundedContextKind(%q)", k))
		case 9:
			z := r.Intn(4)
			b.Generation(z)
			add(L(A(10), AZ(int64(z))), fmt.Sprintf("Generation(%d)", z))
		default:
			sb := b.Build()
			if e, err := serialization.MarshalSegment(sb); err == nil {
				keptBuilds = append(keptBuilds, kept{sb, string(e)})
			}
			add(L(A(11)), "Build()")
		}
	}
	desc := map[string]interface{}{"kind": "ldbuilders.SegmentBuilder", "key": key, "calls": words}
	sg := b.Build()
	j1, err := serialization.MarshalSegment(sg)
	if err != nil {
		desc["predicate_failed"] = "the built segment cannot be encoded: " + err.Error()
		return &microCase{wire: L(A(14), S(key), LL(wops)), impl: L(A(97)), nontrivial: true, class: "builders", desc: desc}
	}
	a1, err := ParseJSON(j1)
	if err != nil {
		desc["predicate_failed"] = "the encoding of the built segment does not parse: " + string(j1)
		return &microCase{wire: L(A(14), S(key), LL(wops)), impl: L(A(96)), nontrivial: true, class: "builders", desc: desc}
	}
	if s2, err := serialization.UnmarshalSegment(j1); err != nil {
		desc["predicate_failed"] = "the encoding of the built segment is rejected by the decoder: " + err.Error()
	} else if j2, _ := serialization.MarshalSegment(s2); !sameJSON(j1, j2) {
		desc["predicate_failed"] = "encode(decode(encode(v))) differs from encode(v) for a builder value"
	}
	for _, k := range keptBuilds {
		if e, err := serialization.MarshalSegment(k.s); err != nil || string(e) != k.enc {
			desc["predicate_failed"] = "a segment returned by an earlier Build() changed when the builder was used further: was " + k.enc + " is " + string(e)
		}
	}
	desc["encoded"] = string(j1)
	return &microCase{wire: L(A(14), S(key), LL(wops)), impl: a1.SortedValue().Wire(), nontrivial: n >= 3, class: "builders", desc: desc}
}

// sortWireObjects puts the members of every JSON object of a wire-encoded value (Wire.v e_jv) in key order, as SortedValue
// does on the implementation's side.
func sortWireObjects(t *T) *T {
	if t == nil || t.Kind != 2 || len(t.L) == 0 || t.L[0].Kind != 0 {
		return t
	}
	switch t.L[0].N {
	case "4":
		if len(t.L) == 2 && t.L[1].Kind == 2 {
			items := make([]*T, len(t.L[1].L))
			for i, x := range t.L[1].L {
				items[i] = sortWireObjects(x)
			}
			return L(t.L[0], LL(items))
		}
	case "5":
		if len(t.L) == 2 && t.L[1].Kind == 2 {
			props := make([]*T, len(t.L[1].L))
			for i, p := range t.L[1].L {
				if p.Kind == 2 && len(p.L) == 2 {
					props[i] = L(p.L[0], sortWireObjects(p.L[1]))
				} else {
					props[i] = p
				}
			}
			sort.SliceStable(props, func(a, b int) bool {
				ka, kb := props[a], props[b]
				if ka.Kind != 2 || kb.Kind != 2 || len(ka.L) == 0 || len(kb.L) == 0 {
					return false
				}
				return string(ka.L[0].S) < string(kb.L[0].S)
			})
			return L(t.L[0], LL(props))
		}
	}
	return t
}

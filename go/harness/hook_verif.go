//go:build verif

package main

import (
	"github.com/launchdarkly/go-sdk-common/v3/ldattr"
	"github.com/launchdarkly/go-sdk-common/v3/ldcontext"
	"github.com/launchdarkly/go-sdk-common/v3/ldvalue"
	evaluation "github.com/launchdarkly/go-server-sdk-evaluation/v3"
)

const haveHooks = true

func hookBucket(sec bool, ctx ldcontext.Context, isExp bool, seed ldvalue.OptionalInt, kind ldcontext.Kind,
	key string, attr ldattr.Ref, salt string) (float32, int, error) {
	return evaluation.VerifComputeBucket(sec, ctx, isExp, seed, kind, key, attr, salt)
}
func hookParseHex(b []byte) (uint64, bool)             { return evaluation.VerifParseHexUint64(b) }
func hookBuffer(cap int, ops []interface{}) []byte     { return evaluation.VerifLocalBufferRun(cap, ops) }

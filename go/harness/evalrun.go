package main

import (
	"encoding/json"
	"fmt"
	"regexp"
	"sort"
	"strconv"
	"strings"
	"time"

	"github.com/launchdarkly/go-sdk-common/v3/ldattr"
	"github.com/launchdarkly/go-sdk-common/v3/ldcontext"
	"github.com/launchdarkly/go-sdk-common/v3/ldreason"
	"github.com/launchdarkly/go-sdk-common/v3/ldvalue"
	evaluation "github.com/launchdarkly/go-server-sdk-evaluation/v3"
	"github.com/launchdarkly/go-server-sdk-evaluation/v3/ldmodel"
)

// ---------- case description ----------

type SingleSpec struct {
	Kind      string
	Key       string
	Name      *string
	Anon      bool
	Secondary *string // only via the legacy user schema
	Attrs     []KV
}
type CtxSpec struct {
	Invalid int // 0 valid; 1 uninitialised; 2 empty key; 3 bad kind; 4 multi with duplicate kinds
	Multi   bool
	Singles []SingleSpec
}
type MemEntry struct {
	Ref string
	In  bool
}
type Answer struct {
	NilMembership bool
	Members       []MemEntry
	Status        int // 0 healthy 1 stale 2 store error 3 not configured
}
type ProvSpec struct {
	Present bool
	Keys    []string
	Answers []Answer
	Default Answer
}
type Item struct {
	Key  string
	Form int // 0 plain (no precomputed data), 1 decoded+preprocessed, 2 plain then explicit Preprocess* (every third time: a preprocessed earlier version edited into this one, then Preprocess* again), 3 via ldbuilders, 4 decoded, re-encoded by the library, decoded again
	Doc  *J
}
type EvalCase struct {
	Secondary, Logger, Recorder bool
	NilOptionFirst              bool // a nil EvaluatorOption before all others (skipped by the library)
	NilLoggerOption             bool // pass EvaluatorOptionErrorLogger(nil) (only when Logger is false)
	Flags                       []Item
	Segs                        []Item
	Prov                        ProvSpec
	Top                         Item
	Ctx                         CtxSpec
}

// ---------- contexts ----------

func buildSingle(sp SingleSpec) (ldcontext.Context, error) {
	if sp.Secondary != nil {
		o := JObj(KV{"key", JStr(sp.Key)}, KV{"secondary", JStr(*sp.Secondary)})
		if sp.Name != nil {
			o.Set("name", JStr(*sp.Name))
		}
		if sp.Anon {
			o.Set("anonymous", JBool(true))
		}
		if len(sp.Attrs) > 0 {
			c := JObj()
			for _, kv := range sp.Attrs {
				c.Set(kv.K, kv.V)
			}
			o.Set("custom", c)
		}
		var c ldcontext.Context
		err := json.Unmarshal([]byte(o.Text()), &c)
		return c, err
	}
	b := ldcontext.NewBuilder(sp.Key).Kind(ldcontext.Kind(sp.Kind))
	if sp.Name != nil {
		b.Name(*sp.Name)
	}
	b.Anonymous(sp.Anon)
	for _, kv := range sp.Attrs {
		b.SetValue(kv.K, kv.V.ToLdvalue())
	}
	return b.TryBuild()
}

func buildContext(cs CtxSpec) ldcontext.Context {
	switch cs.Invalid {
	case 1:
		return ldcontext.Context{}
	case 2:
		return ldcontext.NewWithKind("user", "")
	case 3:
		return ldcontext.NewWithKind("bad kind!", "k")
	case 4:
		return ldcontext.NewMulti(ldcontext.NewWithKind("org", "a"), ldcontext.NewWithKind("org", "b"))
	}
	if !cs.Multi {
		c, err := buildSingle(cs.Singles[0])
		if err != nil {
			return c
		}
		return c
	}
	mb := ldcontext.NewMultiBuilder()
	for _, sp := range cs.Singles {
		c, _ := buildSingle(sp)
		mb.Add(c)
	}
	return mb.Build()
}

func wireSingle(c ldcontext.Context) *T {
	names := c.GetOptionalAttributeNames(nil)
	sort.Strings(names)
	attrs := []*T{}
	for _, n := range names {
		if n == "name" {
			continue
		}
		attrs = append(attrs, L(S(n), FromLdvalue(c.GetValue(n)).Wire()))
	}
	var name, sec *T
	if c.Name().IsDefined() {
		name = S(c.Name().StringValue())
	}
	if c.Secondary().IsDefined() { //nolint:staticcheck
		sec = S(c.Secondary().StringValue())
	}
	return L(S(string(c.Kind())), S(c.Key()), Opt(name), Ab(c.Anonymous()), Opt(sec), LL(attrs))
}

func wireContext(c ldcontext.Context) *T {
	if c.Err() != nil {
		return L(A(0))
	}
	if c.Multiple() {
		items := []*T{}
		for i := 0; i < c.IndividualContextCount(); i++ {
			items = append(items, wireSingle(c.IndividualContextByIndex(i)))
		}
		return L(A(2), LL(items))
	}
	return L(A(1), wireSingle(c))
}

// all strings occurring anywhere in the context (subjects for the regex oracle table)
func contextStrings(c ldcontext.Context) []string {
	seen := map[string]bool{}
	var out []string
	add := func(s string) {
		if !seen[s] {
			seen[s] = true
			out = append(out, s)
		}
	}
	var walk func(v ldvalue.Value)
	walk = func(v ldvalue.Value) {
		switch v.Type() {
		case ldvalue.StringType:
			add(v.StringValue())
		case ldvalue.ArrayType:
			for i := 0; i < v.Count(); i++ {
				walk(v.GetByIndex(i))
			}
		case ldvalue.ObjectType:
			for _, k := range v.Keys(nil) {
				walk(v.GetByKey(k))
			}
		}
	}
	if c.Err() != nil {
		return nil
	}
	for i := 0; i < c.IndividualContextCount(); i++ {
		ic := c.IndividualContextByIndex(i)
		add(string(ic.Kind()))
		add(ic.Key())
		if ic.Name().IsDefined() {
			add(ic.Name().StringValue())
		}
		for _, n := range ic.GetOptionalAttributeNames(nil) {
			walk(ic.GetValue(n))
		}
	}
	add(string(c.Kind()))
	return out
}

// ---------- documents -> values ----------

func collectPatterns(doc *J, out map[string]bool) {
	if doc == nil {
		return
	}
	switch doc.K {
	case 'a':
		for _, x := range doc.A {
			collectPatterns(x, out)
		}
	case 'o':
		if op := doc.Get("op"); op != nil && op.K == 's' && op.S == "matches" {
			// every "values" property of this object (duplicates append)
			for _, kv := range doc.O {
				if kv.K == "values" && kv.V.K == 'a' {
					for _, v := range kv.V.A {
						if v.K == 's' {
							out[v.S] = true
						}
					}
				}
			}
		}
		for _, kv := range doc.O {
			collectPatterns(kv.V, out)
		}
	}
}

func regexTable(docs []*J, subjects []string) *T {
	pats := map[string]bool{}
	for _, d := range docs {
		collectPatterns(d, pats)
	}
	keys := make([]string, 0, len(pats))
	for p := range pats {
		keys = append(keys, p)
	}
	sort.Strings(keys)
	rows := []*T{}
	for _, p := range keys {
		re, err := regexp.Compile(p)
		subs := []*T{}
		if err == nil {
			for _, sb := range subjects {
				subs = append(subs, L(S(sb), Ab(re.MatchString(sb))))
			}
		}
		rows = append(rows, L(S(p), Ab(err == nil), LL(subs)))
	}
	return LL(rows)
}

func plainClauses(in []ldmodel.Clause) []ldmodel.Clause {
	if in == nil {
		return nil
	}
	out := make([]ldmodel.Clause, len(in))
	for i, c := range in {
		out[i] = ldmodel.Clause{ContextKind: c.ContextKind, Attribute: c.Attribute, Op: c.Op,
			Values: append([]ldvalue.Value(nil), c.Values...), Negate: c.Negate}
		if c.Values == nil {
			out[i].Values = nil
		}
	}
	return out
}
func plainTargets(in []ldmodel.Target) []ldmodel.Target {
	if in == nil {
		return nil
	}
	out := make([]ldmodel.Target, len(in))
	for i, t := range in {
		out[i] = ldmodel.Target{ContextKind: t.ContextKind, Values: t.Values, Variation: t.Variation}
	}
	return out
}

// plainFlag rebuilds the flag from its exported fields only: no precomputed data.
func plainFlag(f ldmodel.FeatureFlag) ldmodel.FeatureFlag {
	g := f
	g.Targets = plainTargets(f.Targets)
	g.ContextTargets = plainTargets(f.ContextTargets)
	if f.Rules != nil {
		g.Rules = make([]ldmodel.FlagRule, len(f.Rules))
		for i, r := range f.Rules {
			g.Rules[i] = ldmodel.FlagRule{VariationOrRollout: r.VariationOrRollout, ID: r.ID,
				Clauses: plainClauses(r.Clauses), TrackEvents: r.TrackEvents}
		}
	}
	return g
}
func plainSegTargets(in []ldmodel.SegmentTarget) []ldmodel.SegmentTarget {
	if in == nil {
		return nil
	}
	out := make([]ldmodel.SegmentTarget, len(in))
	for i, t := range in {
		out[i] = ldmodel.SegmentTarget{ContextKind: t.ContextKind, Values: t.Values}
	}
	return out
}
func plainSegment(s ldmodel.Segment) ldmodel.Segment {
	g := ldmodel.Segment{Key: s.Key, Included: s.Included, Excluded: s.Excluded,
		IncludedContexts: plainSegTargets(s.IncludedContexts), ExcludedContexts: plainSegTargets(s.ExcludedContexts),
		Salt: s.Salt, Unbounded: s.Unbounded, UnboundedContextKind: s.UnboundedContextKind, Version: s.Version,
		Generation: s.Generation, Deleted: s.Deleted}
	if s.Rules != nil {
		g.Rules = make([]ldmodel.SegmentRule, len(s.Rules))
		for i, r := range s.Rules {
			g.Rules[i] = ldmodel.SegmentRule{ID: r.ID, Clauses: plainClauses(r.Clauses), Weight: r.Weight,
				BucketBy: r.BucketBy, RolloutContextKind: r.RolloutContextKind}
		}
	}
	return g
}

var serialization = ldmodel.NewJSONDataModelSerialization()

func makeFlag(it Item) (*ldmodel.FeatureFlag, error) {
	f, err := serialization.UnmarshalFeatureFlag([]byte(it.Doc.Text()))
	if err != nil {
		return nil, err
	}
	switch it.Form {
	case 0:
		g := plainFlag(f)
		return &g, nil
	case 2:
		if len(it.Doc.Text())%3 == 0 { // every third time: a preprocessed earlier version, edited into this one, preprocessed again
			if g, ok := editedFlag(it.Doc, f); ok {
				return &g, nil
			}
		}
		g := plainFlag(f)
		ldmodel.PreprocessFlag(&g)
		return &g, nil
	case 3:
		g := flagViaBuilders(f)
		return &g, nil
	case 4: // what a persistent store or a relay hands out: the library's own encoding of the decoded flag, decoded again
		b, err := serialization.MarshalFeatureFlag(f)
		if err != nil {
			return nil, err
		}
		g, err := serialization.UnmarshalFeatureFlag(b)
		if err != nil {
			return nil, err
		}
		return &g, nil
	}
	// the decoded form, every other time through the encoding/json hook into a destination that is used again and again (a
	// variable declared outside the loop that fills a store): what a document decodes to must not depend on what the
	// destination held before
	if text := it.Doc.Text(); len(text)%2 == 0 {
		if err := json.Unmarshal([]byte(text), &reusedFlagDest); err == nil {
			g := reusedFlagDest
			return &g, nil
		}
	}
	return &f, nil
}

var reusedFlagDest ldmodel.FeatureFlag
var reusedSegmentDest ldmodel.Segment

func makeSegment(it Item) (*ldmodel.Segment, error) {
	s, err := serialization.UnmarshalSegment([]byte(it.Doc.Text()))
	if err != nil {
		return nil, err
	}
	switch it.Form {
	case 0:
		g := plainSegment(s)
		return &g, nil
	case 2:
		if len(it.Doc.Text())%3 == 0 {
			if g, ok := editedSegment(it.Doc, s); ok {
				return &g, nil
			}
		}
		g := plainSegment(s)
		ldmodel.PreprocessSegment(&g)
		return &g, nil
	case 3:
		g := segmentViaBuilders(s)
		return &g, nil
	case 4:
		b, err := serialization.MarshalSegment(s)
		if err != nil {
			return nil, err
		}
		g, err := serialization.UnmarshalSegment(b)
		if err != nil {
			return nil, err
		}
		return &g, nil
	}
	if text := it.Doc.Text(); len(text)%2 == 0 {
		if err := json.Unmarshal([]byte(text), &reusedSegmentDest); err == nil {
			g := reusedSegmentDest
			return &g, nil
		}
	}
	return &s, nil
}

// ---------- observation ----------

type traceLog struct{ items []*T }

func (t *traceLog) add(x *T) { t.items = append(t.items, x) }

type dataProv struct {
	flags map[string]*ldmodel.FeatureFlag
	segs  map[string]*ldmodel.Segment
	log   *traceLog
}

func (d *dataProv) GetFeatureFlag(key string) *ldmodel.FeatureFlag {
	if d.log != nil {
		d.log.add(L(A(1), S(key)))
	}
	if f, ok := d.flags[key]; ok {
		return f
	}
	return nil
}
func (d *dataProv) GetSegment(key string) *ldmodel.Segment {
	if d.log != nil {
		d.log.add(L(A(2), S(key)))
	}
	if s, ok := d.segs[key]; ok {
		return s
	}
	return nil
}

type memb struct {
	key  string
	m    map[string]bool
	log  *traceLog
}

func (m *memb) CheckMembership(ref string) ldvalue.OptionalBool {
	if m.log != nil {
		m.log.add(L(A(4), S(m.key), S(ref)))
	}
	if v, ok := m.m[ref]; ok {
		return ldvalue.NewOptionalBool(v)
	}
	return ldvalue.OptionalBool{}
}

type bsProv struct {
	spec ProvSpec
	log  *traceLog
}

var statusNames = []ldreason.BigSegmentsStatus{ldreason.BigSegmentsHealthy, ldreason.BigSegmentsStale,
	ldreason.BigSegmentsStoreError, ldreason.BigSegmentsNotConfigured}

func (p *bsProv) GetMembership(key string) (evaluation.BigSegmentMembership, ldreason.BigSegmentsStatus) {
	if p.log != nil {
		p.log.add(L(A(3), S(key)))
	}
	a := p.spec.Default
	for i, k := range p.spec.Keys {
		if k == key {
			a = p.spec.Answers[i]
			break
		}
	}
	if a.NilMembership {
		return nil, statusNames[a.Status]
	}
	m := &memb{key: key, m: map[string]bool{}, log: p.log}
	for i := len(a.Members) - 1; i >= 0; i-- { // first entry wins, as assoc in the model
		m.m[a.Members[i].Ref] = a.Members[i].In
	}
	return m, statusNames[a.Status]
}

func wireAnswer(a Answer) *T {
	var m *T
	if !a.NilMembership {
		items := []*T{}
		for _, e := range a.Members {
			items = append(items, L(S(e.Ref), Ab(e.In)))
		}
		m = LL(items)
	}
	return L(Opt(m), A(uint64(a.Status)))
}
func wireProv(p ProvSpec) *T {
	if !p.Present {
		return L()
	}
	entries := []*T{}
	for i, k := range p.Keys {
		entries = append(entries, L(S(k), wireAnswer(p.Answers[i])))
	}
	return L(LL(entries), wireAnswer(p.Default))
}

type capLogger struct {
	log *traceLog
}

func (c *capLogger) Println(values ...interface{}) { c.log.add(L(A(5), S("?"), L(A(50), S(fmt.Sprintln(values...))))) }
func (c *capLogger) Printf(format string, values ...interface{}) {
	c.log.add(parseLogLine(fmt.Sprintf(format, values...)))
}

func unq(s string) (string, string, bool) {
	q, err := strconv.QuotedPrefix(s)
	if err != nil {
		return "", s, false
	}
	u, err := strconv.Unquote(q)
	if err != nil {
		return "", s, false
	}
	return u, s[len(q):], true
}

func parseErrMsg(msg string) *T {
	const p1 = "rule, fallthrough, or target referenced a nonexistent variation index "
	const p3 = "invalid attribute reference "
	const p5 = "prerequisite relationship to "
	const p6 = "segment rule referencing segment "
	const p7 = "segment "
	const circ = " caused a circular reference; this is probably a temporary condition due to an incomplete update"
	switch {
	case strings.HasPrefix(msg, p1):
		if n, err := strconv.ParseInt(msg[len(p1):], 10, 64); err == nil {
			return L(A(1), AZ(n))
		}
	case msg == "rule clause did not specify an attribute":
		return L(A(2))
	case strings.HasPrefix(msg, p3):
		if u, rest, ok := unq(msg[len(p3):]); ok && rest == "" {
			return L(A(3), S(u))
		}
	case msg == "rollout or experiment with no variations":
		return L(A(4))
	case strings.HasPrefix(msg, p5):
		if u, rest, ok := unq(msg[len(p5):]); ok && rest == circ {
			return L(A(5), S(u))
		}
	case strings.HasPrefix(msg, p6):
		if u, rest, ok := unq(msg[len(p6):]); ok && rest == circ {
			return L(A(6), S(u))
		}
	case strings.HasPrefix(msg, p7):
		if u, rest, ok := unq(msg[len(p7):]); ok && strings.HasPrefix(rest, " had an invalid configuration: ") {
			return L(A(7), S(u), parseErrMsg(rest[len(" had an invalid configuration: "):]))
		}
	}
	return L(A(50), S(msg))
}

func parseLogLine(line string) *T {
	const pre = "Invalid flag configuration detected in flag "
	if strings.HasPrefix(line, pre) {
		if k, rest, ok := unq(line[len(pre):]); ok && strings.HasPrefix(rest, ": ") {
			return L(A(5), S(k), parseErrMsg(rest[2:]))
		}
	}
	return L(A(5), S("?"), L(A(50), S(line)))
}

func wireStatusOpt(st ldreason.BigSegmentsStatus) *T {
	switch st {
	case "":
		return L()
	case ldreason.BigSegmentsHealthy:
		return L(A(0))
	case ldreason.BigSegmentsStale:
		return L(A(1))
	case ldreason.BigSegmentsStoreError:
		return L(A(2))
	case ldreason.BigSegmentsNotConfigured:
		return L(A(3))
	}
	return L(A(77))
}

func wireReason(r ldreason.EvaluationReason) *T {
	var k *T
	switch r.GetKind() {
	case ldreason.EvalReasonOff:
		k = L(A(1))
	case ldreason.EvalReasonFallthrough:
		k = L(A(2))
	case ldreason.EvalReasonTargetMatch:
		k = L(A(3))
	case ldreason.EvalReasonRuleMatch:
		k = L(A(4), AZ(int64(r.GetRuleIndex())), S(r.GetRuleID()))
	case ldreason.EvalReasonPrerequisiteFailed:
		k = L(A(5), S(r.GetPrerequisiteKey()))
	case ldreason.EvalReasonError:
		var ek uint64
		switch r.GetErrorKind() {
		case ldreason.EvalErrorMalformedFlag:
			ek = 1
		case ldreason.EvalErrorUserNotSpecified:
			ek = 2
		case ldreason.EvalErrorException:
			ek = 3
		default:
			ek = 9
		}
		k = L(A(6), A(ek))
	default:
		k = L(A(0), S(string(r.GetKind())))
	}
	return L(k, Ab(r.IsInExperiment()), wireStatusOpt(r.GetBigSegmentsStatus()))
}

func wireDetail(d ldreason.EvaluationDetail) *T {
	var idx *T
	if d.VariationIndex.IsDefined() {
		idx = AZ(int64(d.VariationIndex.IntValue()))
	}
	return L(FromLdvalue(d.Value).Wire(), Opt(idx), wireReason(d.Reason))
}

type evalEnv struct {
	ev       evaluation.Evaluator
	top      *ldmodel.FeatureFlag
	ctx      ldcontext.Context
	log      *traceLog
	recorder evaluation.PrerequisiteFlagEventRecorder
	flags    map[string]*ldmodel.FeatureFlag
	segs     map[string]*ldmodel.Segment
}

// buildEnv constructs the real objects of a case. ok=false when some document is rejected by the decoder.
func buildEnv(c *EvalCase) (*evalEnv, bool) {
	log := &traceLog{}
	dp := &dataProv{flags: map[string]*ldmodel.FeatureFlag{}, segs: map[string]*ldmodel.Segment{}, log: log}
	for i := len(c.Flags) - 1; i >= 0; i-- { // first entry wins, as assoc in the model
		f, err := makeFlag(c.Flags[i])
		if err != nil {
			return nil, false
		}
		dp.flags[c.Flags[i].Key] = f
	}
	for i := len(c.Segs) - 1; i >= 0; i-- {
		s, err := makeSegment(c.Segs[i])
		if err != nil {
			return nil, false
		}
		dp.segs[c.Segs[i].Key] = s
	}
	top, err := makeFlag(c.Top)
	if err != nil {
		return nil, false
	}
	opts := []evaluation.EvaluatorOption{}
	if c.NilOptionFirst {
		opts = append(opts, nil)
	}
	if c.Secondary {
		opts = append(opts, evaluation.EvaluatorOptionEnableSecondaryKey(true))
	}
	if c.Logger {
		opts = append(opts, evaluation.EvaluatorOptionErrorLogger(&capLogger{log: log}))
	} else if c.NilLoggerOption {
		opts = append(opts, evaluation.EvaluatorOptionErrorLogger(nil), nil)
	}
	if c.Prov.Present {
		opts = append(opts, evaluation.EvaluatorOptionBigSegmentProvider(&bsProv{spec: c.Prov, log: log}))
	}
	env := &evalEnv{ev: evaluation.NewEvaluatorWithOptions(dp, opts...), top: top, ctx: buildContext(c.Ctx), log: log,
		flags: dp.flags, segs: dp.segs}
	if c.Recorder {
		ctx := env.ctx
		env.recorder = func(e evaluation.PrerequisiteFlagEvent) {
			sameCtx := e.Context.Equal(ctx)
			pk, pv := "<nil>", int64(0)
			if e.PrerequisiteFlag != nil {
				pk, pv = e.PrerequisiteFlag.Key, int64(e.PrerequisiteFlag.Version)
			}
			item := L(A(6), S(e.TargetFlagKey), S(pk), AZ(pv), wireDetail(e.PrerequisiteResult.Detail),
				Ab(e.PrerequisiteResult.IsExperiment), Ab(e.ExcludeFromSummaries))
			if !sameCtx {
				item.L = append(item.L, S("different-context"))
			}
			log.add(item)
		}
	}
	return env, true
}

const evalTimeout = 10 * time.Second
const evalGrace = 60 * time.Second

// hung is set once an evaluation (or a decode) did not come back in time: the leaked goroutine keeps spinning, so
// the remaining cases of this run are not executed (they are answered with the same "non-termination" marker and the
// run reports the first hanging case).
var hung bool

// repeatCalls makes runGo evaluate every case twice on the same evaluator (determinism; C12, C19)
var repeatCalls bool
var repeatMismatch string

// runGo evaluates the case with the real library and encodes what was observed (Wire.v e_outcome).
func runGo(c *EvalCase) *T {
	if hung {
		return L(A(3), S("skipped: an earlier case did not terminate"))
	}
	type out struct {
		res      evaluation.Result
		env      *evalEnv
		ok       bool
		panicked interface{}
	}
	ch := make(chan out, 1)
	go func() {
		var o out
		defer func() {
			if r := recover(); r != nil {
				o.panicked = r
			}
			ch <- o
		}()
		o.env, o.ok = buildEnv(c)
		if o.ok {
			o.res = o.env.ev.Evaluate(o.env.top, o.env.ctx, o.env.recorder)
			if repeatCalls {
				first := L(wireDetail(o.res.Detail), Ab(o.res.IsExperiment), LL(o.env.log.items)).String()
				o.env.log.items = nil
				res2 := o.env.ev.Evaluate(o.env.top, o.env.ctx, o.env.recorder)
				second := L(wireDetail(res2.Detail), Ab(res2.IsExperiment), LL(o.env.log.items)).String()
				if first != second {
					repeatMismatch = "repeating the call on the same evaluator gave a different result / events / log lines: first " + first + " second " + second
				}
			}
		}
	}()
	finish := func(o out) *T {
		if o.panicked != nil {
			return L(A(2), S(fmt.Sprint(o.panicked)))
		}
		if !o.ok {
			return L(A(98))
		}
		return L(A(1), wireDetail(o.res.Detail), Ab(o.res.IsExperiment), LL(o.env.log.items))
	}
	select {
	case o := <-ch:
		return finish(o)
	case <-time.After(evalTimeout):
		// on a starved machine a call that terminates can miss the limit; a call that does not terminate will miss the
		// second, longer one as well
		select {
		case o := <-ch:
			return finish(o)
		case <-time.After(evalGrace):
		}
		hung = true
		return L(A(3))
	}
}

func wireItem(it Item) *T {
	form := it.Form
	if form >= 2 {
		form = 1
	}
	return L(A(uint64(form)), it.Doc.Wire())
}

// wireCase encodes the case for the model (Wire.v run_case, kind 1).
func wireCase(c *EvalCase) *T {
	ctx := buildContext(c.Ctx)
	docs := []*J{c.Top.Doc}
	flags := []*T{}
	for _, it := range c.Flags {
		flags = append(flags, L(S(it.Key), wireItem(it)))
		docs = append(docs, it.Doc)
	}
	segs := []*T{}
	for _, it := range c.Segs {
		segs = append(segs, L(S(it.Key), wireItem(it)))
		docs = append(docs, it.Doc)
	}
	return L(A(1), L(Ab(c.Secondary), Ab(c.Logger), Ab(c.Recorder)), LL(flags), LL(segs), wireProv(c.Prov),
		wireItem(c.Top), wireContext(ctx), regexTable(docs, contextStrings(ctx)))
}

var _ = ldattr.NewRef

package main

import (
	"encoding/json"
	"fmt"
	"os"
	"reflect"
	"sync"
	"time"

	"github.com/launchdarkly/go-sdk-common/v3/ldcontext"
	evaluation "github.com/launchdarkly/go-server-sdk-evaluation/v3"
	"github.com/launchdarkly/go-server-sdk-evaluation/v3/ldmodel"
)

// C12: histories of evaluations against one long-lived evaluator while the store changes between calls.
func cmdHistory(prop string, n int, seed uint64, driver, out string) (*Result, error) {
	prof := profileFor(prop)
	prof.PPrereq, prof.PSegmentOp, prof.PBigSeg, prof.MinFlags, prof.MinSegs, prof.PInvalidCtx = 0.6, 0.5, 0.4, 3, 2, 0.02
	root := NewRng(seed ^ hashSeed(prop+"history"))
	res := &Result{Prop: prop, Mode: "history", Seed: seed, Distribution: map[string]int{},
		Rule: "histories of 6-14 evaluations through ONE evaluator; between calls flags/segments are replaced by new versions of the same key, deleted and re-added; each call is compared with a freshly constructed evaluator and with the stateless model, and every flag, segment and context is compared after the call with a fresh copy made from the same document (reflect.DeepEqual incl. unexported precomputed data); non-trivial = history in which a key that had been looked up earlier was replaced or deleted and looked up again; distinct by hash of the history's cases"}
	var lines []string
	type step struct {
		c      *EvalCase
		long   *T
		fresh  *T
		hist   int
		idx    int
		mutate string
	}
	var steps []*step
	histNontrivial := map[int]bool{}
	for h := 0; h < n; h++ {
		r := root.Fork()
		first := GenEval(r.Fork(), &prof)
		// long-lived objects
		log := &traceLog{}
		dp := &dataProv{flags: map[string]*ldmodel.FeatureFlag{}, segs: map[string]*ldmodel.Segment{}, log: log}
		opts := []evaluation.EvaluatorOption{}
		if first.Secondary {
			opts = append(opts, evaluation.EvaluatorOptionEnableSecondaryKey(true))
		}
		if first.Logger {
			opts = append(opts, evaluation.EvaluatorOptionErrorLogger(&capLogger{log: log}))
		}
		if first.Prov.Present {
			opts = append(opts, evaluation.EvaluatorOptionBigSegmentProvider(&bsProv{spec: first.Prov, log: log}))
		}
		long := evaluation.NewEvaluatorWithOptions(dp, opts...)
		flags := append([]Item(nil), first.Flags...)
		segs := append([]Item(nil), first.Segs...)
		looked := map[string]bool{}
		changed := map[string]bool{}
		nsteps := r.Range(6, 14)
		for k := 0; k < nsteps; k++ {
			mut := ""
			if k > 0 {
				// mutate the store
				g := GenEval(r.Fork(), &prof)
				switch []int{0, 1, 2, 3, 3, 4}[r.Intn(6)] {
				case 0: // replace / add flags by new versions
					for _, it := range g.Flags {
						replaced := false
						for i := range flags {
							if flags[i].Key == it.Key {
								flags[i] = it
								replaced = true
							}
						}
						if !replaced {
							flags = append(flags, it)
						}
						changed["f:"+it.Key] = true
					}
					mut = "replace-flags"
				case 1:
					for _, it := range g.Segs {
						replaced := false
						for i := range segs {
							if segs[i].Key == it.Key {
								segs[i] = it
								replaced = true
							}
						}
						if !replaced {
							segs = append(segs, it)
						}
						changed["s:"+it.Key] = true
					}
					mut = "replace-segments"
				case 2:
					if len(flags) > 0 {
						i := r.Intn(len(flags))
						changed["f:"+flags[i].Key] = true
						flags = append(flags[:i:i], flags[i+1:]...)
					}
					if len(segs) > 0 {
						i := r.Intn(len(segs))
						changed["s:"+segs[i].Key] = true
						segs = append(segs[:i:i], segs[i+1:]...)
					}
					mut = "delete"
				case 3: // the same big segment moves to its next generation (what a re-sync of a big segment does)
					for i := range segs {
						if u := segs[i].Doc.Get("unbounded"); u != nil && u.K == 'b' && u.B {
							if g := segs[i].Doc.Get("generation"); g != nil && g.K == 'd' {
								d := segs[i].Doc.Clone()
								d.Replace("generation", JInt(int64(g.N+1)%3))
								segs[i] = Item{Key: segs[i].Key, Form: segs[i].Form, Doc: d}
								changed["s:"+segs[i].Key] = true
								mut = "next-generation"
							}
						}
					}
					if mut == "" {
						mut = "none"
					}
				default:
					mut = "none"
				}
			}
			cur := GenEval(r.Fork(), &prof)
			c := &EvalCase{Secondary: first.Secondary, Logger: first.Logger, Recorder: r.P(0.8), Prov: first.Prov,
				Flags: append([]Item(nil), flags...), Segs: append([]Item(nil), segs...), Ctx: cur.Ctx}
			if len(flags) > 0 && r.P(0.7) {
				c.Top = flags[r.Intn(len(flags))]
			} else {
				c.Top = cur.Top
			}
			// install the store contents into the long-lived provider
			env, ok := buildEnv(c)
			st := &step{c: c, hist: h, idx: k, mutate: mut}
			if !ok {
				st.long, st.fresh = L(A(98)), L(A(98))
			} else {
				dp.flags, dp.segs = env.flags, env.segs
				log.items = nil
				var rec evaluation.PrerequisiteFlagEventRecorder
				if c.Recorder {
					rec = recorderInto(log, env.ctx)
				}
				result := long.Evaluate(env.top, env.ctx, rec)
				st.long = L(A(1), wireDetail(result.Detail), Ab(result.IsExperiment), LL(log.items))
				st.fresh = runGo(c)
				// non-mutation: every input equals a fresh copy made from the same document
				if what := inputsUnchanged(c, env); what != "" {
					res.Violations = append(res.Violations, Disagreement{Index: len(steps), What: what, Predicate: what, Case: describeCase(c)})
				}
				for _, x := range log.items {
					if x.tag() == 1 || x.tag() == 2 {
						key := map[uint64]string{1: "f:", 2: "s:"}[x.tag()] + string(x.at(1).S)
						if looked[key] && changed[key] {
							histNontrivial[h] = true
						}
						looked[key] = true
					}
				}
			}
			steps = append(steps, st)
			lines = append(lines, wireCase(c).Line())
		}
	}
	answers, err := runDriver(driver, lines, out, "history")
	if err != nil {
		return nil, err
	}
	for i, st := range steps {
		res.Distribution["step_"+st.mutate]++
		ms := ParseLine(answers[i]).String()
		if st.long.String() != st.fresh.String() {
			what := fmt.Sprintf("history %d step %d: the long-lived evaluator answers differently from a fresh one", st.hist, st.idx)
			res.Violations = append(res.Violations, Disagreement{Index: i, What: what, Predicate: what, Go: st.long.String(), Model: st.fresh.String(),
				GoProj: st.long.String(), ModelProj: st.fresh.String(), Case: describeCase(st.c), WireLine: lines[i]})
		} else if ms != st.long.String() {
			res.Disagreements = append(res.Disagreements, Disagreement{Index: i, What: fmt.Sprintf("history %d step %d: impl/model disagree", st.hist, st.idx),
				Go: st.long.String(), Model: ms, GoProj: st.long.String(), ModelProj: ms, Case: describeCase(st.c), WireLine: lines[i]})
		}
	}
	res.Evaluations = len(steps)
	res.DistinctNontrivial = len(histNontrivial)
	res.Distribution["histories"] = n
	if len(steps) > 0 {
		res.Samples = append(res.Samples, map[string]interface{}{"history": 0, "first_step": describeCase(steps[0].c), "outcome": steps[0].long.String()})
	}
	res.KernelCases = writeKernelSample(out, lines, answers, 30)
	return res, nil
}

func recorderInto(log *traceLog, ctx ldcontext.Context) evaluation.PrerequisiteFlagEventRecorder {
	return func(e evaluation.PrerequisiteFlagEvent) {
		pk, pv := "<nil>", int64(0)
		if e.PrerequisiteFlag != nil {
			pk, pv = e.PrerequisiteFlag.Key, int64(e.PrerequisiteFlag.Version)
		}
		item := L(A(6), S(e.TargetFlagKey), S(pk), AZ(pv), wireDetail(e.PrerequisiteResult.Detail),
			Ab(e.PrerequisiteResult.IsExperiment), Ab(e.ExcludeFromSummaries))
		if !e.Context.Equal(ctx) {
			item.L = append(item.L, S("different-context"))
		}
		log.add(item)
	}
}

func inputsUnchanged(c *EvalCase, env *evalEnv) string {
	top, err := makeFlag(c.Top)
	if err == nil && !reflect.DeepEqual(top, env.top) {
		return "the evaluated flag was modified by Evaluate (differs from a fresh copy, precomputed data included)"
	}
	for _, it := range c.Flags {
		f, err := makeFlag(it)
		if err == nil && env.flags[it.Key] != nil && firstItem(c.Flags, it) && !reflect.DeepEqual(f, env.flags[it.Key]) {
			return "stored flag " + it.Key + " was modified by Evaluate"
		}
	}
	for _, it := range c.Segs {
		s, err := makeSegment(it)
		if err == nil && env.segs[it.Key] != nil && firstSeg(c.Segs, it) && !reflect.DeepEqual(s, env.segs[it.Key]) {
			return "stored segment " + it.Key + " was modified by Evaluate"
		}
	}
	fresh := buildContext(c.Ctx)
	if !reflect.DeepEqual(fresh, env.ctx) {
		return "the context was modified by Evaluate"
	}
	return ""
}
func firstItem(items []Item, it Item) bool {
	for _, x := range items {
		if x.Key == it.Key {
			return x.Doc == it.Doc
		}
	}
	return false
}
func firstSeg(items []Item, it Item) bool { return firstItem(items, it) }

// C13: N goroutines over one evaluator and one set of flag/segment values; meant to run in a -race build.
func cmdRace(prop string, n int, seed uint64, secs int, out string) (*Result, error) {
	prof := profileFor(prop)
	prof.PPrereq, prof.PSegmentOp, prof.PBigSeg, prof.MinFlags, prof.MinSegs, prof.PInvalidCtx = 0.6, 0.6, 0.3, 3, 3, 0.02
	prof.PForm0 = 0.6 // hand-built values without precomputed data: where lazily filled caches would be written
	prof.Ops = []string{"matches", "matches", "before", "after", "semVerEqual", "semVerLessThan", "in", "in", "startsWith", "lessThan"}
	prof.PRollout, prof.MaxRules, prof.MaxClauses = 0.5, 3, 2
	root := NewRng(seed ^ hashSeed(prop+"race"))
	res := &Result{Prop: prop, Mode: "race", Seed: seed, Distribution: map[string]int{},
		Rule: "worlds of one shared evaluator + one shared store (both precomputed and plain forms) evaluated by 8 goroutines at once over overlapping (flag, context) jobs, each call with its own recorder; results and per-call events compared with the sequential baseline; run under the Go race detector when the binary was built with -race; non-trivial = job that reaches a prerequisite, segment or big segment; distinct jobs counted"}
	deadline := time.Now().Add(time.Duration(secs) * time.Second)
	worlds := 0
	for w := 0; w < n && time.Now().Before(deadline); w++ {
		r := root.Fork()
		base := GenEval(r.Fork(), &prof)
		base.Logger = false
		base.NilLoggerOption = false
		env, ok := buildEnv(base)
		if !ok {
			continue
		}
		worlds++
		// the shared provider must not log: remove the trace (it is per-world, not per-call)
		sharedDP := &dataProv{flags: env.flags, segs: env.segs}
		opts := []evaluation.EvaluatorOption{}
		if base.Secondary {
			opts = append(opts, evaluation.EvaluatorOptionEnableSecondaryKey(true))
		}
		if base.Prov.Present {
			opts = append(opts, evaluation.EvaluatorOptionBigSegmentProvider(&bsProv{spec: base.Prov}))
		}
		shared := evaluation.NewEvaluatorWithOptions(sharedDP, opts...)
		type job struct {
			flag *ldmodel.FeatureFlag
			ctx  ldcontext.Context
			want string
		}
		var jobs []job
		flagList := []*ldmodel.FeatureFlag{env.top}
		for _, f := range env.flags {
			flagList = append(flagList, f)
		}
		for k := 0; k < 6; k++ {
			g := GenEval(r.Fork(), &prof)
			ctx := buildContext(g.Ctx)
			for _, f := range flagList {
				jobs = append(jobs, job{flag: f, ctx: ctx})
			}
		}
		runJob := func(j job) string {
			var evs []*T
			rec := func(e evaluation.PrerequisiteFlagEvent) {
				evs = append(evs, L(S(e.TargetFlagKey), S(e.PrerequisiteFlag.Key), wireDetail(e.PrerequisiteResult.Detail), Ab(e.PrerequisiteResult.IsExperiment)))
			}
			res := shared.Evaluate(j.flag, j.ctx, rec)
			return L(wireDetail(res.Detail), Ab(res.IsExperiment), LL(evs)).String()
		}
		// the sequential baseline is computed on a SEPARATE copy of every flag and segment (and its own evaluator), so
		// the shared objects are first touched by the concurrent phase itself (lazily filled caches would otherwise
		// be warmed up by the baseline)
		benv, _ := buildEnv(base)
		baseDP := &dataProv{flags: benv.flags, segs: benv.segs}
		baseEv := evaluation.NewEvaluatorWithOptions(baseDP, opts...)
		twin := map[*ldmodel.FeatureFlag]*ldmodel.FeatureFlag{env.top: benv.top}
		for k, f := range env.flags {
			twin[f] = benv.flags[k]
		}
		for i := range jobs {
			var evs []*T
			rec := func(e evaluation.PrerequisiteFlagEvent) {
				evs = append(evs, L(S(e.TargetFlagKey), S(e.PrerequisiteFlag.Key), wireDetail(e.PrerequisiteResult.Detail), Ab(e.PrerequisiteResult.IsExperiment)))
			}
			bres := baseEv.Evaluate(twin[jobs[i].flag], jobs[i].ctx, rec)
			jobs[i].want = L(wireDetail(bres.Detail), Ab(bres.IsExperiment), LL(evs)).String()
			nt := len(jobs[i].flag.Prerequisites) > 0
			for _, ru := range jobs[i].flag.Rules {
				for _, cl := range ru.Clauses {
					if cl.Op == ldmodel.OperatorSegmentMatch {
						nt = true
					}
				}
			}
			if nt && jobs[i].flag.On {
				res.DistinctNontrivial++
			}
		}
		var wg sync.WaitGroup
		var mu sync.Mutex
		for g := 0; g < 8; g++ {
			wg.Add(1)
			go func(g int) {
				defer wg.Done()
				for rep := 0; rep < 3; rep++ {
					for i := range jobs {
						j := jobs[(i*7+g*3)%len(jobs)]
						got := runJob(j)
						if got != j.want {
							mu.Lock()
							if len(res.Violations) < 5 {
								what := "concurrent evaluation returned a different result / events than the sequential call"
								res.Violations = append(res.Violations, Disagreement{What: what, Predicate: what, Go: got, Model: j.want,
									Case: map[string]interface{}{"world": describeCase(base), "flag": j.flag.Key, "context": j.ctx.String()}})
							}
							mu.Unlock()
						}
					}
				}
			}(g)
		}
		wg.Wait()
		res.Evaluations += len(jobs) * 8 * 3
	}
	res.Distribution["worlds"] = worlds
	res.Samples = append(res.Samples, map[string]interface{}{"worlds": worlds, "goroutines": 8, "note": "each world: shared evaluator, shared decoded+plain flags/segments, 6 contexts x all flags, 3 repetitions per goroutine"})
	res.Extra = map[string]interface{}{"race_detector": raceEnabled}
	return res, nil
}

// replay: re-run one stored case through the implementation and the model
func cmdReplay(path, driver, out, prop string) error {
	b, err := os.ReadFile(path)
	if err != nil {
		return err
	}
	var rp struct {
		Detail struct {
			Case     json.RawMessage `json:"case"`
			WireLine string          `json:"wire_case"`
		} `json:"detail"`
	}
	if err := json.Unmarshal(b, &rp); err != nil {
		return err
	}
	var cc corpusCase
	var implOut *T
	if json.Unmarshal(rp.Detail.Case, &cc) == nil && len(cc.Flag.JSON) > 0 {
		if c := cc.toCase(); c != nil {
			implOut = runGo(c)
			fmt.Println("implementation:", implOut.String())
			if rp.Detail.WireLine == "" {
				rp.Detail.WireLine = wireCase(c).Line()
			}
		}
	}
	if rp.Detail.WireLine != "" {
		ans, err := runDriver(driver, []string{rp.Detail.WireLine}, out, "replay")
		if err != nil {
			return err
		}
		mt := ParseLine(ans[0])
		fmt.Println("model:         ", mt.String())
		if implOut != nil {
			gp, mp := project(prop, decodeOut(implOut)), project(prop, decodeOut(mt))
			fmt.Printf("projection %s: impl=%s\n               model=%s\n", prop, gp, mp)
			if gp != mp {
				fmt.Println("REPLAY: still disagrees")
				os.Exit(1)
			}
			fmt.Println("REPLAY: agrees")
		}
	}
	return nil
}

//go:build !verif

package main

import (
	"github.com/launchdarkly/go-sdk-common/v3/ldattr"
	"github.com/launchdarkly/go-sdk-common/v3/ldcontext"
	"github.com/launchdarkly/go-sdk-common/v3/ldvalue"
)

const haveHooks = false

func hookBucket(sec bool, ctx ldcontext.Context, isExp bool, seed ldvalue.OptionalInt, kind ldcontext.Kind,
	key string, attr ldattr.Ref, salt string) (float32, int, error) {
	return 0, -1, nil
}
func hookParseHex(b []byte) (uint64, bool)         { return 0, false }
func hookBuffer(cap int, ops []interface{}) []byte { return nil }

package main

import "fmt"

// genMonotoneCase: C07's consequence. Two configurations that differ only by growing one bucket at the expense of
// later ones (or by growing a segment rule's weight); a context that was in the grown bucket must stay in it.
func genMonotoneCase(r *Rng, p *Profile) *microCase {
	w := &World{r: r, p: p}
	p2 := *p
	p2.PInvalidCtx = 0
	w.p = &p2
	w.genCtx()
	key, salt := "mono", r.Pick([]string{"salt", "", "x"})
	// the same representation for both configurations: decoded, hand-built, or re-encoded by the library and decoded again
	itemForm := []int{1, 1, 0, 4, 4}[r.Intn(5)]
	mk := func(ws []int64, segW int64, useSeg bool) *EvalCase {
		c := &EvalCase{Ctx: w.ctx, Logger: true, Recorder: true}
		f := JObj(KV{"key", JStr(key)}, KV{"on", JBool(true)}, KV{"salt", JStr(salt)}, KV{"offVariation", JNull()})
		vars := &J{K: 'a', A: []*J{}}
		for i := 0; i <= len(ws)+1; i++ {
			vars.A = append(vars.A, JStr(fmt.Sprintf("v%d", i)))
		}
		f.Set("variations", vars)
		if useSeg {
			seg := JObj(KV{"key", JStr("ms")}, KV{"salt", JStr(salt)}, KV{"included", JArr()}, KV{"excluded", JArr()},
				KV{"rules", JArr(JObj(KV{"id", JStr("r")}, KV{"clauses", JArr()}, KV{"weight", JInt(segW)}))}, KV{"version", JInt(1)})
			c.Segs = []Item{{Key: "ms", Form: itemForm, Doc: seg}}
			f.Set("rules", JArr(JObj(KV{"variation", JInt(1)}, KV{"id", JStr("in")}, KV{"clauses", JArr(JObj(KV{"attribute", JStr("")},
				KV{"op", JStr("segmentMatch")}, KV{"values", JArr(JStr("ms"))}, KV{"negate", JBool(false)}))}, KV{"trackEvents", JBool(false)})))
			f.Set("fallthrough", JObj(KV{"variation", JInt(0)}))
		} else {
			wv := &J{K: 'a', A: []*J{}}
			for i, x := range ws {
				wv.A = append(wv.A, JObj(KV{"variation", JInt(int64(i))}, KV{"weight", JInt(x)}))
			}
			f.Set("fallthrough", JObj(KV{"rollout", JObj(KV{"variations", wv})}))
		}
		c.Top = Item{Key: key, Form: itemForm, Doc: f}
		return c
	}
	useSeg := r.P(0.3)
	var c1, c2 *EvalCase
	desc := map[string]interface{}{"kind": "monotone", "context_spec": w.ctx, "salt": salt, "form": itemForm}
	grown := -1
	if useSeg {
		b, ok := w.bucketOf(false, nil, "", "ms", "", salt)
		w1 := r.Pick2([]int64{0, 1, 50000, 99999})
		if ok && r.P(0.7) {
			w1 = int64(float64(b)*100000) + int64(r.Range(-1, 1))
		}
		w2 := w1 + r.Pick2([]int64{0, 1, 2, 1000, 50000})
		c1, c2 = mk(nil, w1, true), mk(nil, w2, true)
		desc["segment_weights"] = []int64{w1, w2}
	} else {
		n := r.Range(2, 5)
		ws := make([]int64, n)
		rem := int64(100000)
		b, ok := w.bucketOf(false, nil, "", key, "", salt)
		for i := 0; i < n-1; i++ {
			ws[i] = int64(r.Intn(int(rem/2 + 1)))
			rem -= ws[i]
		}
		ws[n-1] = rem
		if ok && r.P(0.7) { // first split next to the context's bucket
			ws[0] = int64(float64(b)*100000) + int64(r.Range(-1, 1))
			if ws[0] < 0 {
				ws[0] = 0
			}
		}
		if r.P(0.2) {
			ws[r.Intn(n)] = 0
		}
		grown = r.Intn(n - 1)
		d := r.Pick2([]int64{1, 2, 100, 10000})
		ws2 := append([]int64(nil), ws...)
		ws2[grown] += d
		// taken from later buckets, from the last backwards
		for j := n - 1; j > grown && d > 0; j-- {
			t := d
			if ws2[j] < t {
				t = ws2[j]
			}
			ws2[j] -= t
			d -= t
		}
		c1, c2 = mk(ws, 0, false), mk(ws2, 0, false)
		desc["weights"] = [][]int64{ws, ws2}
		desc["grown_bucket"] = grown
	}
	o1, o2 := decodeOut(runGo(c1)), decodeOut(runGo(c2))
	idx := func(o *Out) string {
		if o.Status != 1 {
			return o.statusStr()
		}
		return o.Index.String()
	}
	mc := &microCase{wire: L(A(10), LL([]*T{wireCase(c1), wireCase(c2)})), impl: L(S(idx(o1)), S(idx(o2))), class: "monotone", desc: desc}
	desc["impl_indexes"] = []string{idx(o1), idx(o2)}
	desc["flag_before"] = c1.Top.Doc.Text()
	desc["flag_after"] = c2.Top.Doc.Text()
	if useSeg {
		in1, in2 := o1.RTag == 4, o2.RTag == 4
		mc.nontrivial = in1
		if in1 && !in2 {
			desc["predicate_failed"] = "context left the segment when the rule's weight grew"
		}
	} else {
		want := fmt.Sprintf("[%s]", AZ(int64(grown)).N)
		in1 := idx(o1) == want
		mc.nontrivial = in1
		if in1 && idx(o2) != want {
			desc["predicate_failed"] = "context moved out of the bucket that grew"
		}
	}
	return mc
}

//go:build launchdarkly_easyjson

package main

import (
	"reflect"

	"github.com/launchdarkly/go-server-sdk-evaluation/v3/ldmodel"
	"github.com/mailru/easyjson"
)

const haveEasyJSON = true

func easyFlagEncode(f ldmodel.FeatureFlag, want []byte) string {
	b, err := easyjson.Marshal(f)
	if err != nil || !sameJSON(b, want) {
		return "easyjson.Marshal differs from the serialization object"
	}
	return ""
}
func easyFlagDecode(text []byte, want ldmodel.FeatureFlag) string {
	var f ldmodel.FeatureFlag
	if err := easyjson.Unmarshal(text, &f); err != nil || !reflect.DeepEqual(f, want) {
		return "easyjson.Unmarshal differs from the serialization object"
	}
	return ""
}
func easySegmentEncode(f ldmodel.Segment, want []byte) string {
	b, err := easyjson.Marshal(f)
	if err != nil || !sameJSON(b, want) {
		return "easyjson.Marshal differs from the serialization object (segment)"
	}
	return ""
}
func easySegmentDecode(text []byte, want ldmodel.Segment) string {
	var f ldmodel.Segment
	if err := easyjson.Unmarshal(text, &f); err != nil || !reflect.DeepEqual(f, want) {
		return "easyjson.Unmarshal differs from the serialization object (segment)"
	}
	return ""
}

package main

import (
	"fmt"
	"strings"

	"github.com/launchdarkly/go-sdk-common/v3/ldattr"
)

func withForm(c *EvalCase, form int) *EvalCase {
	d := *c
	d.Top.Form = form
	d.Flags = append([]Item(nil), c.Flags...)
	d.Segs = append([]Item(nil), c.Segs...)
	for i := range d.Flags {
		d.Flags[i].Form = form
	}
	for i := range d.Segs {
		d.Segs[i].Form = form
	}
	return &d
}

// C14: the same configuration in four executable forms (decoded, hand-built plain, hand-built + Preprocess*, builders)
func cmdForms(prop string, n int, seed uint64, driver, out, corpusDir string) (*Result, error) {
	prof := profileFor(prop)
	root := NewRng(seed ^ hashSeed(prop+"forms"))
	res := &Result{Prop: prop, Mode: "forms", Seed: seed, Distribution: map[string]int{},
		Rule: "general profile; every case is evaluated by the implementation in 4 forms (JSON-decoded, plain struct copy without precomputed data, plain + explicit Preprocess*, rebuilt with ldbuilders) and by the model in its plain and precomputed forms; non-trivial = the flag or a reached segment has a clause with a pre-parsed operand (regex/date/semver), an equality set (>=2 values) or a key list"}
	var lines []string
	type fc struct {
		c    *EvalCase
		outs [4]*T
	}
	var cases []*fc
	pre := loadCorpus(corpusDir, prop)
	res.Distribution["corpus_cases"] = len(pre)
	for i := 0; i < n+len(pre); i++ {
		var c *EvalCase
		if i < len(pre) {
			c = pre[i]
		} else {
			c = GenEval(root.Fork(), &prof)
		}
		f := &fc{c: c}
		for k := 0; k < 4; k++ {
			f.outs[k] = runGo(withForm(c, k))
		}
		cases = append(cases, f)
		lines = append(lines, wireCase(withForm(c, 0)).Line(), wireCase(withForm(c, 1)).Line())
	}
	answers, err := runDriver(driver, lines, out, "forms")
	if err != nil {
		return nil, err
	}
	seen := map[string]bool{}
	names := []string{"plain", "decoded", "plain+Preprocess", "builders"}
	for i, f := range cases {
		text := f.c.Top.Doc.Text()
		nt := strings.Contains(text, `"matches"`) || strings.Contains(text, `"before"`) || strings.Contains(text, `"after"`) ||
			strings.Contains(text, `"semVer`) || strings.Contains(text, `"in"`) || strings.Contains(text, `"targets":[{`)
		h := hashLine(lines[2*i])
		if !seen[h] && nt {
			res.DistinctNontrivial++
		}
		seen[h] = true
		base := f.outs[1].String()
		for k := 0; k < 4; k++ {
			if f.outs[k].String() != base {
				what := fmt.Sprintf("form %q evaluates differently from the decoded form", names[k])
				res.Violations = append(res.Violations, Disagreement{Index: i, What: what, Predicate: what, Go: f.outs[k].String(), Model: base,
					GoProj: f.outs[k].String(), ModelProj: base, Case: describeCase(withForm(f.c, k)), WireLine: lines[2*i]})
				break
			}
		}
		for k := 0; k < 2; k++ {
			mt := ParseLine(answers[2*i+k])
			if mt.String() != f.outs[k].String() {
				res.Disagreements = append(res.Disagreements, Disagreement{Index: i, What: "impl/model disagree in form " + names[k], Go: f.outs[k].String(),
					Model: mt.String(), GoProj: f.outs[k].String(), ModelProj: mt.String(), Case: describeCase(withForm(f.c, k)), WireLine: lines[2*i+k]})
			}
		}
		if len(res.Samples) < 2 && nt {
			res.Samples = append(res.Samples, map[string]interface{}{"case": describeCase(f.c), "outcome_all_forms": base})
		}
	}
	res.Evaluations = len(cases) * 4
	res.KernelCases = writeKernelSample(out, lines, answers, 30)
	return res, nil
}

// ---------------- C20: perturbations ----------------

func cloneCase(c *EvalCase) *EvalCase {
	d := *c
	d.Top = Item{c.Top.Key, c.Top.Form, c.Top.Doc.Clone()}
	d.Flags = make([]Item, len(c.Flags))
	for i, it := range c.Flags {
		d.Flags[i] = Item{it.Key, it.Form, it.Doc.Clone()}
	}
	d.Segs = make([]Item, len(c.Segs))
	for i, it := range c.Segs {
		d.Segs[i] = Item{it.Key, it.Form, it.Doc.Clone()}
	}
	d.Ctx.Singles = make([]SingleSpec, len(c.Ctx.Singles))
	for i, sp := range c.Ctx.Singles {
		d.Ctx.Singles[i] = sp
		d.Ctx.Singles[i].Attrs = append([]KV(nil), sp.Attrs...)
	}
	return &d
}

func allDocs(c *EvalCase) []*J {
	out := []*J{c.Top.Doc}
	for _, it := range c.Flags {
		out = append(out, it.Doc)
	}
	for _, it := range c.Segs {
		out = append(out, it.Doc)
	}
	return out
}

func forEachObj(doc *J, f func(o *J)) {
	switch doc.K {
	case 'a':
		for _, x := range doc.A {
			forEachObj(x, f)
		}
	case 'o':
		f(doc)
		for _, kv := range doc.O {
			if kv.K == "values" || kv.K == "variations" && isValueList(kv.V) {
				continue
			}
			forEachObj(kv.V, f)
		}
	}
}

func isClause(o *J) bool { return o.Get("op") != nil }

func clauseWellFormed(cl *J) bool {
	op := cl.Get("op")
	if op == nil || op.K != 's' || op.S == "segmentMatch" {
		return false
	}
	a := cl.Get("attribute")
	if a == nil || a.K != 's' || a.S == "" {
		return false
	}
	kind := cl.Get("contextKind")
	var ref ldattr.Ref
	if kind != nil && kind.K == 's' && kind.S != "" {
		ref = ldattr.NewRef(a.S)
	} else {
		ref = ldattr.NewLiteralRef(a.S)
	}
	return ref.Err() == nil
}

func reverseJ(a []*J) {
	for i, j := 0, len(a)-1; i < j; i, j = i+1, j-1 {
		a[i], a[j] = a[j], a[i]
	}
}

type perturbation struct {
	name  string
	apply func(c *EvalCase, base *Out) (*EvalCase, bool)
	shift bool // the reported rule index moves by one
}

func mentionsKindAttr(c *EvalCase) bool {
	for _, d := range allDocs(c) {
		t := d.Text()
		if strings.Contains(t, `"attribute":"kind"`) {
			return true
		}
	}
	return false
}

var perturbations = []perturbation{
	{name: "extra_attribute", apply: func(c *EvalCase, _ *Out) (*EvalCase, bool) {
		if c.Ctx.Invalid != 0 {
			return nil, false
		}
		d := cloneCase(c)
		for i := range d.Ctx.Singles {
			d.Ctx.Singles[i].Attrs = append(d.Ctx.Singles[i].Attrs, KV{"zz_unreferenced", JStr("alice@x.com")}, KV{"zz_other", JArr(JNum(1), JStr("a"))})
		}
		return d, true
	}},
	{name: "extra_kind", apply: func(c *EvalCase, _ *Out) (*EvalCase, bool) {
		// a kind nothing mentions; a single-kind context becomes a multi-kind one (its Kind() changes to "multi", which only a
		// clause on the kind attribute could observe: those cases are left out, as the property says)
		if c.Ctx.Invalid != 0 || mentionsKindAttr(c) {
			return nil, false
		}
		d := cloneCase(c)
		d.Ctx.Multi = true
		d.Ctx.Singles = append(append([]SingleSpec{}, d.Ctx.Singles...), SingleSpec{Kind: "zzkind", Key: "a", Attrs: []KV{{"email", JStr("alice@x.com")}}})
		return d, true
	}},
	{name: "metadata", apply: func(c *EvalCase, _ *Out) (*EvalCase, bool) {
		d := cloneCase(c)
		t := d.Top.Doc
		t.Replace("version", JInt(12345))
		t.Replace("deleted", JBool(true))
		t.Replace("clientSide", JBool(true))
		t.Replace("clientSideAvailability", JObj(KV{"usingMobileKey", JBool(false)}, KV{"usingEnvironmentId", JBool(true)}))
		t.Replace("debugEventsUntilDate", JInt(4102444800000))
		t.Replace("samplingRatio", JInt(17))
		t.Replace("migration", JObj(KV{"checkRatio", JInt(3)}))
		t.Replace("excludeFromSummaries", JBool(true))
		t.Replace("trackEvents", JBool(true))
		return d, true
	}},
	{name: "permute_values_and_keys", apply: func(c *EvalCase, _ *Out) (*EvalCase, bool) {
		d := cloneCase(c)
		n := 0
		for _, doc := range allDocs(d) {
			forEachObj(doc, func(o *J) {
				if isClause(o) {
					if op := o.Get("op"); op.K == 's' && op.S == "segmentMatch" {
						return
					}
				}
				for _, kv := range o.O {
					if kv.K == "values" && kv.V.K == 'a' && len(kv.V.A) > 1 {
						reverseJ(kv.V.A)
						n++
					}
					if (kv.K == "included" || kv.K == "excluded") && kv.V.K == 'a' && len(kv.V.A) > 1 {
						reverseJ(kv.V.A)
						n++
					}
				}
			})
		}
		return d, n > 0
	}},
	{name: "permute_clauses", apply: func(c *EvalCase, _ *Out) (*EvalCase, bool) {
		d := cloneCase(c)
		n := 0
		rules := d.Top.Doc.Get("rules")
		if rules == nil || rules.K != 'a' {
			return nil, false
		}
		for _, ru := range rules.A {
			cls := ru.Get("clauses")
			if cls == nil || cls.K != 'a' || len(cls.A) < 2 {
				continue
			}
			ok := true
			for _, cl := range cls.A {
				if cl.K != 'o' || !clauseWellFormed(cl) {
					ok = false
				}
			}
			if ok {
				reverseJ(cls.A)
				n++
			}
		}
		return d, n > 0
	}},
	{name: "append_rule", apply: func(c *EvalCase, base *Out) (*EvalCase, bool) {
		if base.Status != 1 || !(base.RTag == 1 || base.RTag == 3 || base.RTag == 4 || base.RTag == 5) {
			return nil, false
		}
		d := cloneCase(c)
		rules := d.Top.Doc.Get("rules")
		if rules == nil || rules.K != 'a' {
			return nil, false
		}
		id, te := "appended", true
		if did, dte, ok := decidingRule(c, base); ok && len(c.Top.Doc.Text())%2 == 0 { // rule ids need not be unique: the index decides
			id, te = did, !dte
		}
		rules.A = append(rules.A, JObj(KV{"variation", JInt(0)}, KV{"id", JStr(id)}, KV{"clauses", JArr()}, KV{"trackEvents", JBool(te)}))
		return d, true
	}},
	{name: "insert_dead_rule", shift: true, apply: func(c *EvalCase, base *Out) (*EvalCase, bool) {
		d := cloneCase(c)
		rules := d.Top.Doc.Get("rules")
		if rules == nil || rules.K != 'a' || d.Top.Doc.Get("rules") == nil {
			return nil, false
		}
		// several ways of never matching; the case's own hash picks one, so the choice replays
		var cl *J
		switch len(c.Top.Doc.Text()) % 5 {
		case 0:
			cl = JObj(KV{"attribute", JStr("key")}, KV{"op", JStr("in")}, KV{"values", JArr()}, KV{"negate", JBool(false)})
		case 1:
			cl = JObj(KV{"attribute", JStr("noSuchAttribute")}, KV{"op", JStr("in")}, KV{"values", JArr(JStr("x"))}, KV{"negate", JBool(true)})
		case 2:
			cl = JObj(KV{"contextKind", JStr("nokind")}, KV{"attribute", JStr("key")}, KV{"op", JStr("in")}, KV{"values", JArr(JStr("a"), JStr("b"))}, KV{"negate", JBool(true)})
		default:
			// a segment that cannot contain anyone: its only rule is weighted and cannot compute a bucket for this context
			// (kind absent), or has weight 0 over an attribute nobody has
			ru := JObj(KV{"id", JStr("w")}, KV{"clauses", JArr()}, KV{"weight", JInt(100000)}, KV{"rolloutContextKind", JStr("nokind")})
			if len(c.Top.Doc.Text())%5 == 4 {
				ru = JObj(KV{"id", JStr("w")}, KV{"clauses", JArr()}, KV{"weight", JInt(0)}, KV{"bucketBy", JStr("noSuchAttribute")})
			}
			seg := JObj(KV{"key", JStr("zz-dead")}, KV{"included", JArr()}, KV{"excluded", JArr()}, KV{"salt", JStr("deadsalt")},
				KV{"rules", JArr(ru)}, KV{"version", JInt(1)})
			d.Segs = append(d.Segs, Item{Key: "zz-dead", Form: 1, Doc: seg})
			cl = JObj(KV{"attribute", JStr("")}, KV{"op", JStr("segmentMatch")}, KV{"values", JArr(JStr("zz-dead"))}, KV{"negate", JBool(false)})
		}
		id, te := "dead", true
		if did, dte, ok := decidingRule(c, base); ok && len(c.Top.Doc.Text())%3 != 0 { // the same id as the deciding rule, tracked differently
			id, te = did, !dte
		}
		dead := JObj(KV{"variation", JInt(0)}, KV{"id", JStr(id)}, KV{"clauses", JArr(cl)}, KV{"trackEvents", JBool(te)})
		rules.A = append([]*J{dead}, rules.A...)
		return d, true
	}},
}

func shiftedProj(o *Out, by int64) string {
	if o.Status != 1 {
		return o.statusStr()
	}
	rk := o.RKind.String()
	if o.RTag == 4 {
		i := o.RKind.at(1).atomZ().Int64() + by
		rk = L(A(4), AZ(i), o.RKind.at(2)).String()
	}
	return o.Value.String() + o.Index.String() + rk + o.Reason.at(1).String() + fmt.Sprintf(" isExperiment=%v", o.IsExp)
}

// decidingRule: id and trackEvents of the rule that decided the base case, if one did
func decidingRule(c *EvalCase, base *Out) (string, bool, bool) {
	if base.Status != 1 || base.RTag != 4 {
		return "", false, false
	}
	rules := c.Top.Doc.Get("rules")
	i := int(base.RKind.at(1).atomZ().Int64())
	if rules == nil || rules.K != 'a' || i < 0 || i >= len(rules.A) || rules.A[i].K != 'o' {
		return "", false, false
	}
	id, te := "", false
	if v := rules.A[i].Get("id"); v != nil && v.K == 's' {
		id = v.S
	}
	if v := rules.A[i].Get("trackEvents"); v != nil && v.K == 'b' {
		te = v.B
	}
	return id, te, id != ""
}

func cmdPerturb(prop string, n int, seed uint64, driver, out string) (*Result, error) {
	prof := profileFor(prop)
	prof.PShuffle = 0
	prof.PDocNoise = 0 // duplicated / shuffled properties would make "the rules list" ambiguous
	root := NewRng(seed ^ hashSeed(prop+"perturb"))
	res := &Result{Prop: prop, Mode: "perturb", Seed: seed, Distribution: map[string]int{},
		Rule: "general profile; every applicable perturbation family (extra attribute, extra kind, metadata, permuted values/keys, permuted well-formed clauses, appended rule, inserted dead rule) applied to the case; implementation results compared pairwise and the perturbed case also run through the model; non-trivial = a perturbation was applicable and the flag was on; distinct by hash of the perturbed case"}
	var lines []string
	type pc struct {
		c, d   *EvalCase
		name   string
		shift  bool
		b, o   *T
	}
	var cases []*pc
	for i := 0; i < n; i++ {
		c := GenEval(root.Fork(), &prof)
		bt := runGo(c)
		base := decodeOut(bt)
		for _, p := range perturbations {
			d, ok := p.apply(c, base)
			if !ok {
				continue
			}
			cases = append(cases, &pc{c: c, d: d, name: p.name, shift: p.shift, b: bt, o: runGo(d)})
			lines = append(lines, wireCase(d).Line())
		}
	}
	answers, err := runDriver(driver, lines, out, "perturb")
	if err != nil {
		return nil, err
	}
	seen := map[string]bool{}
	for i, p := range cases {
		res.Distribution[p.name]++
		bo, po := decodeOut(p.b), decodeOut(p.o)
		h := hashLine(lines[i])
		if !seen[h] && bo.Status == 1 && bo.RTag != 1 {
			res.DistinctNontrivial++
		}
		seen[h] = true
		by := int64(0)
		if p.shift {
			by = 1
		}
		if bo.Status == 98 {
			continue
		}
		if shiftedProj(bo, by) != shiftedProj(po, 0) {
			what := "result changed under perturbation " + p.name
			res.Violations = append(res.Violations, Disagreement{Index: i, What: what, Predicate: what, Go: p.o.String(), Model: p.b.String(),
				GoProj: shiftedProj(po, 0), ModelProj: shiftedProj(bo, by),
				Case: map[string]interface{}{"perturbation": p.name, "original": describeCase(p.c), "perturbed": describeCase(p.d)}, WireLine: lines[i]})
		}
		mo := decodeOut(ParseLine(answers[i]))
		if project("C20", mo) != project("C20", po) {
			res.Disagreements = append(res.Disagreements, Disagreement{Index: i, What: "impl/model disagree on the perturbed case (" + p.name + ")", Go: p.o.String(),
				Model: mo.T.String(), GoProj: project("C20", po), ModelProj: project("C20", mo), Case: describeCase(p.d), WireLine: lines[i]})
		}
		if len(res.Samples) < 3 && bo.Status == 1 && bo.RTag == 4 {
			res.Samples = append(res.Samples, map[string]interface{}{"perturbation": p.name, "original_result": shiftedProj(bo, by), "perturbed_result": shiftedProj(po, 0), "flag": p.d.Top.Doc.Text()})
		}
	}
	res.Evaluations = len(cases)
	res.KernelCases = writeKernelSample(out, lines, answers, 30)
	return res, nil
}

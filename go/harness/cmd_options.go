package main

import (
	"crypto/sha1"
	"encoding/hex"
	"encoding/json"
	"fmt"
	"strconv"

	"github.com/launchdarkly/go-sdk-common/v3/ldcontext"
	"github.com/launchdarkly/go-sdk-common/v3/ldreason"
	evaluation "github.com/launchdarkly/go-server-sdk-evaluation/v3"
	"github.com/launchdarkly/go-server-sdk-evaluation/v3/ldmodel"
)

// ---- C19 (and the "construction options" of C12): NewEvaluatorWithOptions ----
//
// A case is a list of options as an application might assemble it: nil entries (optional collaborators left unset), options
// given more than once, nil loggers and nil providers. What the evaluator was configured with is read off its behaviour on
// three probe flags (is the secondary key hashed, is an error line written for a malformed flag, is the big-segment store
// asked); the model (Options.v) folds the list.

type optProv struct {
	flags map[string]*ldmodel.FeatureFlag
	segs  map[string]*ldmodel.Segment
}

func (p optProv) GetFeatureFlag(k string) *ldmodel.FeatureFlag { return p.flags[k] }
func (p optProv) GetSegment(k string) *ldmodel.Segment         { return p.segs[k] }

type countLogger struct{ n int }

func (c *countLogger) Println(values ...interface{})               { c.n++ }
func (c *countLogger) Printf(format string, values ...interface{}) { c.n++ }

type countBS struct{ n int }

func (c *countBS) GetMembership(key string) (evaluation.BigSegmentMembership, ldreason.BigSegmentsStatus) {
	c.n++
	return nil, ldreason.BigSegmentsHealthy
}

var optProbe struct {
	ready   bool
	prov    optProv
	sec     *ldmodel.FeatureFlag
	bad     *ldmodel.FeatureFlag
	big     *ldmodel.FeatureFlag
	ctx     ldcontext.Context
	withSec int // variation served when the secondary key is hashed
}

func canonicalBucket(input string) float32 {
	h := sha1.Sum([]byte(input))
	hx := hex.EncodeToString(h[:])[:15]
	v, _ := strconv.ParseUint(hx, 16, 64)
	return float32(v) / float32(0xFFFFFFFFFFFFFFF)
}

func initOptProbe() {
	if optProbe.ready {
		return
	}
	ser := ldmodel.NewJSONDataModelSerialization()
	mustFlag := func(s string) *ldmodel.FeatureFlag {
		f, err := ser.UnmarshalFeatureFlag([]byte(s))
		if err != nil {
			panic(err)
		}
		return &f
	}
	optProbe.sec = mustFlag(`{"key":"fsec","on":true,"variations":["a","b"],"salt":"salt","fallthrough":{"rollout":{"variations":[{"variation":0,"weight":50000},{"variation":1,"weight":50000}]}}}`)
	optProbe.bad = mustFlag(`{"key":"fbad","on":true,"variations":["a"],"salt":"s","fallthrough":{"variation":9}}`)
	optProbe.big = mustFlag(`{"key":"fbig","on":true,"variations":["a","b"],"salt":"s","fallthrough":{"variation":0},"rules":[{"id":"r","variation":1,"clauses":[{"attribute":"","op":"segmentMatch","values":["big"]}]}]}`)
	seg, err := ser.UnmarshalSegment([]byte(`{"key":"big","unbounded":true,"generation":1,"salt":"x","version":1}`))
	if err != nil {
		panic(err)
	}
	optProbe.prov = optProv{flags: map[string]*ldmodel.FeatureFlag{}, segs: map[string]*ldmodel.Segment{"big": &seg}}
	for i := 0; ; i++ {
		k := fmt.Sprintf("k%d", i)
		without, with := canonicalBucket("fsec.salt."+k) < 0.5, canonicalBucket("fsec.salt."+k+".S") < 0.5
		if without != with {
			if err := json.Unmarshal([]byte(fmt.Sprintf(`{"key":%q,"secondary":"S"}`, k)), &optProbe.ctx); err != nil {
				panic(err)
			}
			optProbe.withSec = 1
			if with {
				optProbe.withSec = 0
			}
			break
		}
	}
	optProbe.ready = true
}

func genOptionsCase(r *Rng) *microCase {
	initOptProbe()
	n := r.Intn(7)
	var opts []evaluation.EvaluatorOption
	var wopts []*T
	var words []string
	lg, bs := &countLogger{}, &countBS{}
	for i := 0; i < n; i++ {
		switch r.Intn(4) {
		case 0:
			opts = append(opts, nil)
			wopts = append(wopts, L())
			words = append(words, "nil")
		case 1:
			b := r.P(0.6)
			opts = append(opts, evaluation.EvaluatorOptionEnableSecondaryKey(b))
			wopts = append(wopts, L(A(1), Ab(b)))
			words = append(words, fmt.Sprintf("secondary(%v)", b))
		case 2:
			b := r.P(0.65)
			if b {
				opts = append(opts, evaluation.EvaluatorOptionErrorLogger(lg))
			} else {
				opts = append(opts, evaluation.EvaluatorOptionErrorLogger(nil))
			}
			wopts = append(wopts, L(A(2), Ab(b)))
			words = append(words, fmt.Sprintf("logger(nonnil=%v)", b))
		default:
			b := r.P(0.65)
			if b {
				opts = append(opts, evaluation.EvaluatorOptionBigSegmentProvider(bs))
			} else {
				opts = append(opts, evaluation.EvaluatorOptionBigSegmentProvider(nil))
			}
			wopts = append(wopts, L(A(3), Ab(b)))
			words = append(words, fmt.Sprintf("provider(nonnil=%v)", b))
		}
	}
	desc := map[string]interface{}{"kind": "NewEvaluatorWithOptions", "options": words}
	var sec, logged, asked bool
	panicked := func() (p interface{}) {
		defer func() { p = recover() }()
		ev := evaluation.NewEvaluatorWithOptions(optProbe.prov, opts...)
		res := ev.Evaluate(optProbe.sec, optProbe.ctx, nil)
		sec = res.Detail.VariationIndex.IntValue() == optProbe.withSec
		ev.Evaluate(optProbe.bad, optProbe.ctx, nil)
		logged = lg.n > 0
		ev.Evaluate(optProbe.big, optProbe.ctx, nil)
		asked = bs.n > 0
		return nil
	}()
	if panicked != nil {
		desc["predicate_failed"] = fmt.Sprintf("constructing or using an evaluator with this option list panicked: %v", panicked)
		return &microCase{wire: L(A(12), LL(wopts)), impl: L(A(2)), nontrivial: true, class: "options", desc: desc}
	}
	return &microCase{wire: L(A(12), LL(wopts)), impl: L(Ab(sec), Ab(logged), Ab(asked)), nontrivial: n >= 2, class: "options", desc: desc}
}

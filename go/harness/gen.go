package main

import (
	"fmt"
	"unicode/utf8"
	"math"
	"sort"
	"strconv"

	"github.com/launchdarkly/go-sdk-common/v3/ldattr"
	"github.com/launchdarkly/go-sdk-common/v3/ldcontext"
	"github.com/launchdarkly/go-sdk-common/v3/ldvalue"
)

// Profile tunes the structured generator towards one property's non-trivial region.
type Profile struct {
	Name                                      string
	PInvalidCtx, PMulti, PLegacy              float64
	MinFlags, MaxFlags, MinSegs, MaxSegs      int
	PPrereq                                   float64
	MaxPrereq                                 int
	PTargets, PCtxTargets                     float64
	MaxRules, MaxClauses                      int
	PSegmentOp, PBigSeg                       float64
	PRollout, PExperiment                     float64
	PMalformed                                float64
	PDocNoise                                 float64
	PLongValues                               float64 // clauses with more than 100 values, on the operators whose operands are pre-parsed
	PSegBucket                                float64 // extra weight on weighted segment rules with a bucket-by attribute, some of them invalid references
	PCrossNames                               float64 // unknown properties named like properties of other objects
	PMissingAttr                              float64 // a non-first clause of a flag rule without the "attribute" property
	PSegTwoRules                              float64 // segment = [rule bucketing by an attribute that does not match; rule weighted by key at the split point]
	PEmptyKeyLists                            float64 // "" in a segment's included / excluded list when the context has an empty key
	PKindInTargets                            float64 // entries of the older "targets" list that carry a contextKind
	PLongHash                                 float64 // flag key / salt / context key sized around the 100-byte hash buffer and its growth steps
	PLongKeys                                 float64 // context keys of 101..260 bytes (given PLongStrings)
	PPlaceholders                             float64 // contextTargets made of placeholders for the user target lists, in another order than the lists
	PPseudoKind                               float64 // weighted segment rules by the pseudo-kind "multi" against multi-kind contexts
	PTopBucket                                float64 // a context whose bucket is exactly 1.0 (weights adding up to 100000, a 100 % segment rule)
	PNestedSeg                                float64 // a weighted segment rule that first looks into another segment, split point next to the context's bucket
	PSingleMal                                float64 // cases that are one well-formed flag with exactly one malformation, certainly reached
	PZeroAge                                  float64 // the context certainly has "age": +0 or -0
	PDateAttr                                 float64 // the context certainly has a "date" attribute
	PShuffle                                  float64 // key order of every object shuffled (semantics-preserving)
	PBoundary                                 float64
	PLongStrings                              float64
	Chain                                     int     // >0: build a prerequisite/segment chain of up to this depth
	POff                                      float64 // probability a flag is off
	Ops                                       []string
	PKindAttr                                 float64
	PSecondaryOpt, PLoggerOpt, PRecorderOpt   float64
	PForm0                                    float64 // plain (non-preprocessed) form
	PDegenerateWeights                        float64
}

var allOps = []string{"in", "endsWith", "startsWith", "matches", "contains", "lessThan", "lessThanOrEqual",
	"greaterThan", "greaterThanOrEqual", "before", "after", "semVerEqual", "semVerLessThan", "semVerGreaterThan"}

func baseProfile(name string) Profile {
	return Profile{Name: name, PInvalidCtx: 0.03, PMulti: 0.3, PLegacy: 0.15, MinFlags: 0, MaxFlags: 5, MinSegs: 0, MaxSegs: 4,
		PPrereq: 0.35, MaxPrereq: 3, PTargets: 0.3, PCtxTargets: 0.25, MaxRules: 3, MaxClauses: 3, PSegmentOp: 0.25,
		PBigSeg: 0.25, PRollout: 0.35, PExperiment: 0.4, PMalformed: 0.08, PDocNoise: 0.2, PShuffle: 0.3, PBoundary: 0.3,
		PLongStrings: 0.03, POff: 0.15, Ops: allOps, PKindAttr: 0.08, PSecondaryOpt: 0.4, PLoggerOpt: 0.7,
		PRecorderOpt: 0.8, PForm0: 0.3, PDegenerateWeights: 0.15}
}

var ctxKeys = []string{"a", "b", "c", "d", "e", "f"}

// ctxKey: a context key, or a key of a list. Mostly from the small pool (so that lists and contexts meet); sometimes a key
// that differs from a pool key only by padding or letter case -- keys are compared exactly, never normalised.
func ctxKey(r *Rng) string {
	if r.P(0.06) {
		return r.Pick([]string{"a ", " a", "b\t", "A", "a\n", "c "})
	}
	return r.Pick(ctxKeys)
}
var kinds = []string{"user", "org", "dev"}

// docKind: a context kind written in a document (clause / rollout / target / big-segment kind). Mostly a real kind; sometimes
// the pseudo-kind "multi" (Kind() of a multi-kind context, which no individual context can have) or a kind nobody has.
func docKind(r *Rng) string {
	if r.P(0.07) {
		return "multi"
	}
	if r.P(0.02) {
		return "nokind"
	}
	return r.Pick(kinds)
}
var flagKeys = []string{"f0", "f1", "f2", "f3", "f4", "f%d-50%-off"} // one key that a printf-style logger must not interpret
var segKeys = []string{"s0", "s1", "s2", "s3", "s4", "s%v", "f1", "f0"} // flag keys and segment keys are separate name spaces: a segment may be called like a flag

var strPool = []string{"alice@x.com", "bob", "a", "b", "", "x.com", "Alice", "ab", "zzz", "user", "org", "日本", "a/b", "~t", "\x00", "a\x00b", "\x7f\x01"}
var numPool = []float64{1577836807123, 0, 1, -1, 42, 42.5, 1e10, 9007199254740992, -9007199254740992, 0.1, 99.99, 3, 1577836800000,
	253402300799000, -62135596800000, 1e30, math.Copysign(0, -1), 7, 100}
var datePool = []string{"2020-01-01T00:00:07.1234Z", "2020-01-01T00:00:07.1238Z", "2020-01-01T00:00:07.123Z", "2020-01-01T00:00:07.123999999Z",
	"2020-01-01T00:00:00Z", "2020-01-01T01:00:00+01:00", "2019-12-31T23:59:59.999999999Z",
	"0001-01-01T00:00:00Z", "9999-12-31T23:59:59.999999999Z", "2020-01-01t00:00:00z", "2020-01-01T00:00:00.5-07:30",
	"2020-13-01T00:00:00Z", "2020-01-01", "2020-01-01T00:00:00", "2020-02-30T00:00:00Z", "2020-1-01T00:00:00Z",
	"2020-01-01T24:00:00Z", "2020-01-01T00:00:60Z", "not a date", "1970-01-01T00:00:00Z", "2262-04-12T00:00:00Z",
	"0000-01-01T00:00:00Z", "2020-01-01T00:00:00+99:00", "2020-01-01T0:00:00Z", "2021-06-\x0009T18:53:52Z", "\x00", "2020-01-01T00:00:00Z\x00", "2020-01-01T00:00:00-03:30", "2020-01-01T00:00:00-00:45",
	"2020-01-01T00:00:00Zjunk", "2020-01-01T00:00:00+01:00\x00junk", "2020-02-31T00:00:00Z", "2020-01-01T00:00:00.5Zx", "2019-02-29T00:00:00Z", "2020-02-29T00:00:00Z", "2020-04-31T12:00:00+01:00",
	"2000-02-29T12:00:00Z", "2000-02-29T23:59:59.999+00:00", "1900-02-29T00:00:00Z", "2400-02-29T00:00:00Z",
	"1990-12-31T23:59:60Z", "1990-12-31T15:59:60-08:00", "2016-12-31T23:59:60.5+00:00", "2020-01-01T00:00:00.0000000001Z"}
var semverPool = []string{"1.0.0", "1.0", "1", "1.0.0-rc.1", "1.0.0-rc.2", "1.0.0-rc.10", "1.0.0+build", "2.0.0", "01.0.0",
	"1.0.0-rc.1.x", "1.0.0-alpha", "1.0.0-1", "0.9.9", "1.0.1", "1.1", "x", "1.0.0-", "1.0.0-rc..1", "1.0.0-0rc", "1.0.0-00",
	"10.2.3", "1.0.0-rc.1+b.7", " 1.0.0", "1.0.0\n", "\t2.0.0", "1.0.0 ", "v1.0.0", "1.0.0-rc.1 "}
var regexPool = []string{"^a", "x\\.com$", "(", "[a-z]+@", "", "b.b", "^$", "(?i)ALICE", "a|b", "[", "\\d+", "日"}
var attrNames = []string{"email", "age", "tags", "ver", "date", "score", "nested", "beta", "/slash~name", "nums", "s2"}

type World struct {
	r   *Rng
	p   *Profile
	ctx CtxSpec
	// the real context (built once) for value lookups
	real ldcontext.Context
	bigRefs []string
}

func (w *World) str() string {
	if w.r.P(w.p.PLongStrings) {
		n := w.r.Range(90, 420)
		if w.r.P(0.5) { // around the 100-byte hash buffer, its doublings, and the sizes at which one append outgrows twice the capacity
			n = []int{99, 100, 101, 150, 186, 192, 199, 200, 201, 299, 300, 301, 399, 400, 401}[w.r.Intn(15)] + w.r.Range(-3, 3)
		}
		b := make([]byte, n)
		for i := range b {
			b[i] = byte('a' + w.r.Intn(26))
		}
		return string(b)
	}
	return w.r.Pick(strPool)
}

func (w *World) scalarOfType(t int) *J {
	switch t {
	case 0:
		return JStr(w.str())
	case 1:
		return JNum(numPool[w.r.Intn(len(numPool))])
	case 2:
		return JBool(w.r.P(0.5))
	case 3:
		return JStr(w.r.Pick(datePool))
	case 4:
		return JStr(w.r.Pick(semverPool))
	case 5:
		return JStr(w.r.Pick(regexPool))
	case 6:
		return JStr(strconv.Itoa(w.r.Intn(100)))
	}
	return JNull()
}

func (w *World) anyValue(depth int) *J {
	switch w.r.Intn(10) {
	case 0, 1:
		return w.scalarOfType(0)
	case 2, 3:
		return w.scalarOfType(1)
	case 4:
		return w.scalarOfType(2)
	case 5:
		return w.scalarOfType(3)
	case 6:
		return w.scalarOfType(4)
	case 7:
		if depth > 1 {
			return JArr()
		}
		n := w.r.Intn(4)
		a := &J{K: 'a', A: []*J{}}
		for i := 0; i < n; i++ {
			a.A = append(a.A, w.anyValue(depth+1))
		}
		return a
	case 8:
		if depth > 1 {
			return JObj()
		}
		o := JObj()
		used := map[string]bool{}
		for i := 0; i < w.r.Intn(3); i++ {
			k := w.r.Pick([]string{"a", "b", "c", "x/y"})
			if !used[k] {
				used[k] = true
				o.Set(k, w.anyValue(depth+1))
			}
		}
		return o.SortedValue() // ldvalue objects are unordered maps: keep value objects in one canonical order
	}
	return JNull()
}

func (w *World) attrValue(name string) *J {
	switch name {
	case "email":
		return JStr(w.r.Pick([]string{"alice@x.com", "bob@y.org", "x.com", "a", "alice@x.com", "bob@y.org", ""}))
	case "age":
		if w.r.P(0.1) {
			return JNum([]float64{0, math.Copysign(0, -1)}[w.r.Intn(2)])
		}
		return JNum(numPool[w.r.Intn(len(numPool))])
	case "tags":
		a := &J{K: 'a', A: []*J{}}
		if w.r.P(0.25) {
			return a // an attribute that exists but holds no element
		}
		for i := 0; i < w.r.Intn(4); i++ {
			a.A = append(a.A, w.anyValue(1))
		}
		return a
	case "ver":
		return JStr(w.r.Pick(semverPool))
	case "date":
		if w.r.P(0.25 + w.p.PDateAttr/2) { // instants within one millisecond of each other, in both spellings
			return []*J{JStr("2020-01-01T00:00:07.1234Z"), JStr("2020-01-01T00:00:07.1238Z"), JStr("2020-01-01T00:00:07.123Z"),
				JStr("2020-01-01T00:00:07.123999999Z"), JNum(1577836807123), JStr("2020-01-01T01:00:07.1234+01:00")}[w.r.Intn(6)]
		}
		if w.r.P(0.5) {
			return JStr(w.r.Pick(datePool))
		}
		return JNum(numPool[w.r.Intn(len(numPool))])
	case "score":
		return JNum([]float64{0.5, 42.5, -3.25, 1e-3, 2.5}[w.r.Intn(5)])
	case "nested":
		return JObj(KV{"a", JObj(KV{"b", w.anyValue(1)})}, KV{"x/y", w.scalarOfType(0)}).SortedValue()
	case "beta":
		return JBool(w.r.P(0.5))
	case "nums":
		a := &J{K: 'a', A: []*J{}}
		for i := 0; i < w.r.Range(1, 3); i++ {
			e := JNum(numPool[w.r.Intn(len(numPool))])
			if w.r.P(0.12) { // an element that is itself an array: only one level is opened, the inner value satisfies nothing
				e = JArr(e)
			}
			a.A = append(a.A, e)
		}
		return a
	}
	return w.anyValue(0)
}

func (w *World) genSingle(kind string) SingleSpec {
	sp := SingleSpec{Kind: kind, Key: ctxKey(w.r)}
	if w.r.P(w.p.PLongStrings) {
		sp.Key = w.str() + "k"
		if w.p.PLongKeys > 0 && w.r.P(w.p.PLongKeys) { // certainly long: the bucketing value alone outgrows the 100-byte buffer
			n := []int{101, 120, 150, 185, 186, 190, 199, 200, 201, 260}[w.r.Intn(10)]
			b := make([]byte, n)
			for i := range b {
				b[i] = byte('a' + w.r.Intn(26))
			}
			sp.Key = string(b)
		}
	}
	if w.r.P(0.4) {
		n := w.r.Pick([]string{"Alice", "bob", "x"})
		sp.Name = &n
	}
	sp.Anon = w.r.P(0.2)
	used := map[string]bool{}
	if w.r.P(w.p.PDateAttr) {
		used["date"] = true
		sp.Attrs = append(sp.Attrs, KV{"date", w.attrValue("date")})
	}
	if w.r.P(w.p.PZeroAge) {
		used["age"] = true
		sp.Attrs = append(sp.Attrs, KV{"age", JNum([]float64{0, math.Copysign(0, -1)}[w.r.Intn(2)])})
	}
	for i := 0; i < w.r.Intn(6); i++ {
		n := w.r.Pick(attrNames)
		if used[n] {
			continue
		}
		v := w.attrValue(n)
		if v.K == 'n' {
			continue
		}
		used[n] = true
		sp.Attrs = append(sp.Attrs, KV{n, v})
	}
	return sp
}

func (w *World) genCtx() {
	r, p := w.r, w.p
	if r.P(p.PInvalidCtx) {
		w.ctx = CtxSpec{Invalid: r.Range(1, 4)}
	} else if r.P(p.PMulti) {
		cs := CtxSpec{Multi: true}
		perm := []string{"user", "org", "dev"}
		for i := len(perm) - 1; i > 0; i-- {
			j := r.Intn(i + 1)
			perm[i], perm[j] = perm[j], perm[i]
		}
		n := r.Range(2, 3)
		sameKey := r.P(0.3)
		for i := 0; i < n; i++ {
			sp := w.genSingle(perm[i])
			if sameKey && i > 0 {
				sp.Key = cs.Singles[0].Key
			}
			if perm[i] == "user" && r.P(p.PLegacy) { // a legacy user (with its secondary key) can be one part of a multi-kind context
				sec := r.Pick([]string{"sec", "", "s.2"})
				sp.Secondary = &sec
			}
			cs.Singles = append(cs.Singles, sp)
		}
		w.ctx = cs
	} else {
		kind := "user"
		if r.P(0.3) {
			kind = r.Pick(kinds)
		}
		sp := w.genSingle(kind)
		if kind == "user" && r.P(p.PLegacy) {
			sec := r.Pick([]string{"sec", "", "s.2"})
			sp.Secondary = &sec
			if r.P(0.15) {
				sp.Key = "" // only the legacy user schema admits an empty key: the context is valid and HAS the kind
			}
		}
		w.ctx = CtxSpec{Singles: []SingleSpec{sp}}
	}
	w.real = buildContext(w.ctx)
}

// value of the attribute in the real context for (kind, attr), if any scalar/array element is available
func (w *World) ctxValueFor(kind, attr string, path bool) *J {
	if w.real.Err() != nil {
		return nil
	}
	ic := w.real.IndividualContextByKind(ldcontext.Kind(kind))
	if !ic.IsDefined() {
		return nil
	}
	var ref ldattr.Ref
	if path {
		ref = ldattr.NewRef(attr)
	} else {
		ref = ldattr.NewLiteralRef(attr)
	}
	v := ic.GetValueForRef(ref)
	if v.IsNull() {
		return nil
	}
	if v.Type() == ldvalue.ArrayType {
		if v.Count() == 0 {
			return nil
		}
		v = v.GetByIndex(w.r.Intn(v.Count()))
	}
	return FromLdvalue(v)
}

// sign carrier of the context's (zero) value for an attribute: +0 or -0
func (w *World) ctxZeroSign(kind, attr string, path bool) float64 {
	if v := w.ctxValueFor(kind, attr, path); v != nil && v.K == 'd' {
		return v.N
	}
	return 0
}

func (w *World) genClause(segOK bool) *J {
	r, p := w.r, w.p
	c := JObj()
	if segOK && r.P(p.PSegmentOp) {
		vals := &J{K: 'a', A: []*J{}}
		for i := 0; i < r.Range(1, 3); i++ {
			if r.P(0.1) {
				vals.A = append(vals.A, JNum(1))
			} else {
				vals.A = append(vals.A, JStr(r.Pick(segKeys)))
			}
		}
		if r.P(0.5) {
			c.Set("attribute", JStr(""))
		}
		c.Set("op", JStr("segmentMatch")).Set("values", vals).Set("negate", JBool(r.P(0.2)))
		return c
	}
	kind := ""
	if r.P(0.5) {
		kind = docKind(r)
	}
	attr := r.Pick(append([]string{"key", "name", "anonymous"}, attrNames...))
	if r.P(0.6) && w.real.Err() == nil { // mostly an attribute that some individual context really has
		ic := w.real.IndividualContextByIndex(r.Intn(w.real.IndividualContextCount()))
		if names := ic.GetOptionalAttributeNames(nil); len(names) > 0 {
			sort.Strings(names) // the library returns them in map order; every choice must come from the PRNG alone
			attr = names[r.Intn(len(names))]
			if r.P(0.6) {
				kind = string(ic.Kind())
				if kind == "user" && r.P(0.5) {
					kind = ""
				}
			}
		}
	}
	if r.P(p.PKindAttr) {
		attr = "kind"
	}
	path := kind != ""
	if path && r.P(0.3) {
		attr = r.Pick([]string{"/nested/a/b", "/nested/x~1y", "/email", "/~1slash~0name", "/kind", "/key", "/nested/a", "/tags/0"})
	}
	if r.P(p.PMalformed) {
		attr = r.Pick([]string{"", "//", "/a~2", "/", "/a//b", "/a~", "/a%2Fb//", "/%d~"})
	}
	effKind := kind
	if effKind == "" {
		effKind = "user"
	}
	op := r.Pick(p.Ops)
	if r.P(0.04) {
		op = r.Pick([]string{"unknownOp", "", "IN"})
	}
	if (op == "before" || op == "after") && r.P(0.8) {
		// a date comparison is only interesting against an attribute that holds a date
		for _, sp := range w.ctx.Singles {
			for _, kv := range sp.Attrs {
				if kv.K == "date" {
					attr, kind, path = "date", sp.Kind, false
					if kind == "user" && r.P(0.5) {
						kind = ""
					}
					effKind = sp.Kind
				}
			}
		}
	}
	if op == "in" && r.P(p.PZeroAge) {
		for _, sp := range w.ctx.Singles {
			for _, kv := range sp.Attrs {
				if kv.K == "age" {
					attr, kind, path = "age", sp.Kind, false
					if kind == "user" && r.P(0.5) {
						kind = ""
					}
					effKind = sp.Kind
				}
			}
		}
	}
	vals := &J{K: 'a', A: []*J{}}
	nv := r.Range(0, 3)
	if r.P(0.7) && nv == 0 {
		nv = 1
	}
	long := false
	if r.P(0.015 + p.PLongValues) { // more clause values than any pre-allocation or cap; only the last one is likely to match
		nv, long = []int{101, 130, 257}[r.Intn(3)], true
		if r.P(0.7) && !path { // on an operator whose operands are parsed ahead of time, against an attribute of that type
			pair := [][2]string{{"matches", "email"}, {"semVerEqual", "ver"}, {"semVerGreaterThan", "ver"}, {"before", "date"}, {"after", "date"}}[r.Intn(5)]
			for _, sp := range w.ctx.Singles {
				for _, kv := range sp.Attrs {
					if kv.K == pair[1] {
						op, attr, kind, effKind = pair[0], pair[1], sp.Kind, sp.Kind
						if kind == "user" && r.P(0.5) {
							kind = ""
						}
					}
				}
			}
		}
	}
	for i := 0; i < nv; i++ {
		var v *J
		if (!long && r.P(0.45)) || (long && i == nv-1) {
			v = w.ctxValueFor(effKind, attr, path)
		}
		if long { // fillers that certainly do not match, so that the decision rests on the last value
			switch op {
			case "matches":
				v = pickJ(i == nv-1, JStr("."), JStr(fmt.Sprintf("zz-no-match-%d\\d", i)))
			case "semVerEqual":
				v = pickJ(i == nv-1 && v != nil, v, JStr(fmt.Sprintf("987.6.%d", i)))
			case "semVerGreaterThan":
				v = pickJ(i == nv-1, JStr("0.0.0-a"), JStr(fmt.Sprintf("987.6.%d", i)))
			case "semVerLessThan":
				v = pickJ(i == nv-1, JStr("987.6.5"), JStr("0.0.0-a"))
			case "before":
				v = pickJ(i == nv-1, JStr("9999-12-31T23:59:59Z"), JNum(float64(-62167219200000+int64(i))))
			case "after":
				v = pickJ(i == nv-1, JStr("0000-01-01T00:00:00Z"), JNum(float64(253402300799000-int64(i))))
			default:
				if i < nv-1 {
					v = JStr(fmt.Sprintf("zz-filler-%d", i))
				}
			}
		}
		if (attr == "kind" || attr == "/kind") && r.P(0.8) { // real kinds, the pseudo-kind "multi", and fragments of both for the string operators
			v = JStr(r.Pick([]string{"user", "org", "dev", "multi", "mu", "ult", "i", "^m", "use", "multi"}))
		}
		if v == nil {
			switch op {
			case "in":
				v = w.anyValue(0)
				if r.P(0.15) {
					v = JNum([]float64{0, math.Copysign(0, -1), 1, 42}[r.Intn(4)])
				}
			case "endsWith", "startsWith", "contains":
				v = w.scalarOfType([]int{0, 0, 0, 1}[r.Intn(4)])
			case "matches":
				v = w.scalarOfType([]int{5, 5, 5, 1}[r.Intn(4)])
			case "lessThan", "lessThanOrEqual", "greaterThan", "greaterThanOrEqual":
				v = w.scalarOfType([]int{1, 1, 1, 6}[r.Intn(4)])
			case "before", "after":
				v = w.scalarOfType([]int{3, 3, 1, 2}[r.Intn(4)])
				if r.P(0.1 + 0.25*p.PDateAttr) { // instants outside the years a timestamp string can spell (0000-9999), as numbers
					v = JNum([]float64{253402300800000, 253402300799999, 9007199254740992, -62167219200001, -62167219200000, -1e15}[r.Intn(6)])
				}
				if attr == "date" && r.P(0.35) { // instants that share a millisecond with what the context's date attribute may hold
					v = []*J{JStr("2020-01-01T00:00:07.1234Z"), JStr("2020-01-01T00:00:07.1238Z"), JStr("2020-01-01T00:00:07.123Z"),
						JStr("2020-01-01T00:00:07.123999999Z"), JNum(1577836807123), JStr("2020-01-01T01:00:07.1234+01:00")}[r.Intn(6)]
				}
				if r.P(0.1) { // the shortest spellings: a one-digit hour, no fraction, Z (19 bytes)
					v = JStr(r.Pick([]string{"2021-03-04T5:06:07Z", "1999-12-31T9:59:59Z", "2020-01-01T0:00:00z", "0001-01-01T0:00:00Z", "2019-12-31t9:00:00Z"}))
				}
				if r.P(0.1) { // instants before the epoch, as numbers
					v = JNum([]float64{-1, -315619200000, -86400000.5, -1e15}[r.Intn(4)])
				}
				if r.P(0.12 + 0.3*p.PDateAttr) { // the instant whose Go representation is the zero time.Time, in its three spellings
					v = []*J{JStr("0001-01-01T00:00:00Z"), JStr("0000-12-31T23:00:00-01:00"), JNum(-62135596800000)}[r.Intn(3)]
				}
			case "semVerEqual", "semVerLessThan", "semVerGreaterThan":
				v = w.scalarOfType([]int{4, 4, 4, 1}[r.Intn(4)])
			default:
				v = w.anyValue(0)
			}
		} else if v.K == 's' && (op == "endsWith" || op == "startsWith" || op == "contains") && len(v.S) > 1 && r.P(0.6) {
			// a proper affix of the context's value
			s := v.S
			switch op {
			case "endsWith":
				v = JStr(s[r.Intn(len(s)):])
			case "startsWith":
				v = JStr(s[:r.Range(1, len(s))])
			default:
				a := r.Intn(len(s))
				v = JStr(s[a:r.Range(a, len(s))])
			}
			if !utf8.ValidString(v.S) { // never cut inside a multi-byte character: JSON text must be valid UTF-8
				v = JStr(s)
			}
		} else if v.K == 'd' && v.N == 0 && r.P(0.6) {
			// the other zero: numerically equal, different bit pattern
			v = JNum(math.Copysign(0, -1))
			if math.Signbit(v.N) == math.Signbit(w.ctxZeroSign(effKind, attr, path)) {
				v = JNum(0)
			}
		} else if v.K == 'd' && r.P(0.5) {
			v = JNum(v.N + []float64{-1, 0, 1, 0.5}[r.Intn(4)])
		}
		vals.A = append(vals.A, v)
	}
	if op == "in" {
		cv := w.ctxValueFor(effKind, attr, path)
		prim := cv != nil && (cv.K == 's' || cv.K == 'd' || cv.K == 'b')
		empty := prim && ((cv.K == 's' && cv.S == "") || (cv.K == 'd' && cv.N == 0) || (cv.K == 'b' && !cv.B))
		if prim && cv.K == 'd' && cv.N == 0 && r.P(0.4) {
			// the zero of the other sign among several numbers: numerically equal, different bit pattern
			z := math.Copysign(0, -1)
			if math.Signbit(cv.N) {
				z = 0
			}
			vals = &J{K: 'a', A: []*J{JNum(numPool[r.Intn(len(numPool))]), JNum(z)}}
			if r.P(0.5) {
				vals.A[0], vals.A[1] = vals.A[1], vals.A[0]
			}
		} else if prim && r.P(map[bool]float64{false: 0.3, true: 0.7}[empty]) {
			if empty || r.P(0.5) {
				// the same payload in the other JSON types ("in" is type-and-value equality; a precomputed set must keep the type)
				var twins []*J
				switch cv.K {
				case 'b':
					n, s := 0.0, ""
					if cv.B {
						n, s = 1, "true"
					}
					twins = []*J{JNum(n), JStr(s)}
				case 'd':
					twins = []*J{JStr(numText(cv.N)), JBool(cv.N != 0)}
					if cv.N == 0 {
						twins[0] = JStr("")
					}
				default:
					twins = []*J{JBool(cv.S != ""), JNum(float64(len(cv.S)))}
					if f, err := strconv.ParseFloat(cv.S, 64); err == nil {
						twins[1] = JNum(f)
					}
				}
				vals = &J{K: 'a', A: twins}
				if r.P(0.3) {
					vals.A = append(vals.A, w.scalarOfType(r.Intn(3)))
				}
			} else {
				// a value no attribute can equal (null / array / object) in front of the one that matches
				junk := []*J{JNull(), JArr(), JObj(), JArr(JStr("x"))}[r.Intn(4)]
				vals = &J{K: 'a', A: []*J{w.scalarOfType(r.Intn(3)), junk, cv}}
				if r.P(0.3) {
					vals.A = vals.A[1:]
				}
			}
		}
	}
	if kind != "" {
		c.Set("contextKind", JStr(kind))
	}
	c.Set("attribute", JStr(attr)).Set("op", JStr(op)).Set("values", vals).Set("negate", JBool(r.P(0.25)))
	return c
}

func (w *World) bucketOf(isExp bool, seed *int64, kind, key, bucketBy, salt string) (bv float32, bok bool) {
	if !haveHooks || w.real.Err() != nil {
		return 0, false
	}
	// the generator only uses the bucket to place split points; if the routine panics here, the same inputs reach it again
	// through Evaluate, where the panic is caught and reported with the case
	defer func() {
		if recover() != nil {
			bv, bok = 0, false
		}
	}()
	var sd ldvalue.OptionalInt
	if seed != nil {
		sd = ldvalue.NewOptionalInt(int(*seed))
	}
	var ref ldattr.Ref
	if bucketBy != "" {
		if kind == "" {
			ref = ldattr.NewLiteralRef(bucketBy)
		} else {
			ref = ldattr.NewRef(bucketBy)
		}
	}
	b, fail, err := hookBucket(false, w.real, isExp, sd, ldcontext.Kind(kind), key, ref, salt)
	if err != nil || fail != 0 {
		return 0, false
	}
	return b, true
}

func (w *World) genRollout(flagKey, salt string, nvars int) *J {
	r, p := w.r, w.p
	ro := JObj()
	isExp := r.P(p.PExperiment)
	if isExp {
		ro.Set("kind", JStr("experiment"))
	} else if r.P(0.3) {
		ro.Set("kind", JStr(r.Pick([]string{"rollout", "other", ""})))
	}
	kind := ""
	if r.P(0.4) {
		kind = docKind(r)
		ro.Set("contextKind", JStr(kind))
	}
	var seed *int64
	if r.P(0.35) {
		s := int64(r.Pick2([]int64{0, 0, 61, -7, 123456789, 9007199254740992}))
		seed = &s
	}
	bucketBy := ""
	if r.P(0.3) {
		bucketBy = r.Pick([]string{"email", "age", "score", "name", "key", "tags", "nested", "beta"})
		if kind != "" && r.P(0.5) {
			bucketBy = r.Pick([]string{"/email", "/nested/a/b", "/age", "/name"})
		}
		if r.P(math.Max(p.PMalformed, 0.05)) { // an invalid reference: an error for a rollout, ignored by an experiment
			bucketBy = r.Pick([]string{"//", "/a~2", "/"})
			if kind == "" && r.P(0.7) { // only a reference (contextKind present) can be syntactically invalid
				kind = docKind(r)
				if len(w.ctx.Singles) > 0 && r.P(0.6) {
					kind = w.ctx.Singles[r.Intn(len(w.ctx.Singles))].Kind
				}
				ro.Set("contextKind", JStr(kind))
			}
		}
	}
	if !isExp && r.P(0.5) { // a context whose "age" is a zero of either sign: bucketed as the integer 0, rendered "0"
		for _, sp := range w.ctx.Singles {
			for _, kv := range sp.Attrs {
				if kv.K == "age" && kv.V != nil && kv.V.K == 'n' && kv.V.N == 0 {
					bucketBy = "age"
					if sp.Kind != "user" || r.P(0.3) {
						kind = sp.Kind
						ro.Set("contextKind", JStr(kind))
					} else if kind != "" {
						kind = ""
						ro.Del("contextKind")
					}
				}
			}
		}
	}
	var weights []int64
	if r.P(p.PBoundary) {
		bb := bucketBy
		if isExp {
			bb = ""
		}
		onGrid := int64(-1)
		if r.P(0.3) {
			// a seed for which the context's bucket is exactly k/100000 in single precision: there the split points accumulated
			// in single precision and the scaled integer sum can differ by one unit in the last place
			start := int64(r.Intn(1000000))
			for s := start; s < start+800; s++ {
				sv := s
				b, ok := w.bucketOf(isExp, &sv, kind, flagKey, bb, salt)
				if !ok {
					break
				}
				k := math.Round(float64(b) * 100000)
				if k > 2 && k < 99998 && float32(k)/100000 == b {
					seed, onGrid = &sv, int64(k)
					break
				}
			}
		}
		if onGrid > 0 {
			y := 1 + int64(r.Intn(int(onGrid)-1))
			if r.P(0.5) {
				weights = []int64{y, onGrid - y, 100000 - onGrid}
			} else {
				y2 := int64(r.Intn(int(onGrid-y) + 1))
				weights = []int64{y, y2, onGrid - y - y2, 100000 - onGrid}
			}
		} else if b, ok := w.bucketOf(isExp, seed, kind, flagKey, bb, salt); ok {
			x := int64(float64(b) * 100000)
			x += int64(r.Range(-1, 1))
			if x < 0 {
				x = 0
			}
			switch r.Intn(3) {
			case 0:
				weights = []int64{x, 100000 - x}
			case 1:
				y := int64(r.Intn(int(x) + 1))
				weights = []int64{y, x - y, 100000 - x}
			default:
				weights = []int64{0, x, 0, 100000 - x}
			}
		}
	}
	if weights == nil {
		if r.P(p.PDegenerateWeights) {
			weights = [][]int64{{0, 0}, {0}, {-5000, 50000, 60000}, {0, 0, 100000}, {100000, 0}, {1, 99999}, {200000},
				{50000, 0, 0}, {60000, -30000, 40000, 0}, {9223372036854775807, 1}}[r.Intn(10)]
		} else {
			weights = [][]int64{{50000, 50000}, {100000}, {10000, 20000, 70000}, {33333, 33333, 33334}, {25000, 25000, 25000, 25000},
				{90000, 10000}, {10000, 10000}}[r.Intn(7)]
		}
	}
	vars := &J{K: 'a', A: []*J{}}
	for _, wt := range weights {
		bv := int64(r.Intn(nvars + 1))
		if r.P(0.03) {
			bv = -1
		}
		v := JObj(KV{"variation", JInt(bv)})
		if wt != 0 || r.P(0.7) { // a zero weight may simply be absent
			v.Set("weight", JInt(wt))
		}
		if r.P(0.2) {
			v.Set("untracked", JBool(r.P(0.8)))
		}
		vars.A = append(vars.A, v)
	}
	if r.P(p.PMalformed) {
		vars = JArr()
	}
	ro.Set("variations", vars)
	if seed != nil {
		ro.Set("seed", JInt(*seed))
	}
	if bucketBy != "" {
		ro.Set("bucketBy", JStr(bucketBy))
	}
	return ro
}

func (r *Rng) Pick2(xs []int64) int64 { return xs[r.Intn(len(xs))] }

func pickJ(c bool, a, b *J) *J {
	if c {
		return a
	}
	return b
}

func (w *World) genVorr(o *J, flagKey, salt string, nvars int) {
	r, p := w.r, w.p
	if r.P(p.PRollout) {
		o.Set("rollout", w.genRollout(flagKey, salt, nvars))
		if r.P(0.15) {
			o.Set("variation", JInt(int64(r.Intn(nvars))))
		}
		return
	}
	if r.P(p.PMalformed) {
		switch r.Intn(3) {
		case 0:
			o.Set("variation", JInt(int64(nvars+r.Intn(3))))
		case 1:
			o.Set("variation", JInt(-1))
		}
		return
	}
	o.Set("variation", JInt(int64(r.Intn(nvars))))
}

func (w *World) genTargets(n int, withKind bool, nvars int) *J {
	r := w.r
	arr := &J{K: 'a', A: []*J{}}
	for i := 0; i < n; i++ {
		t := JObj()
		vals := strArr(r, r.Intn(4))
		for _, sp := range w.ctx.Singles { // the (legacy) empty key is a key like any other: exact string equality
			if sp.Key == "" && r.P(0.6) {
				vals.A = append(vals.A, JStr(""))
				if r.P(0.5) && len(vals.A) > 1 {
					vals.A[0], vals.A[len(vals.A)-1] = vals.A[len(vals.A)-1], vals.A[0]
				}
			}
		}
		if withKind {
			k := r.Pick([]string{"user", "user", "org", "dev", "", "multi"})
			if k != "" || r.P(0.5) {
				t.Set("contextKind", JStr(k))
			}
			if (k == "user" || k == "") && r.P(0.6) {
				vals = JArr()
			}
		}
		if !withKind && w.p.PKindInTargets > 0 && r.P(w.p.PKindInTargets) { // the older list may carry a kind as well; it is kept and used
			t.Set("contextKind", JStr(r.Pick(kinds)))
		}
		tv := int64(r.Intn(nvars + 1))
		if r.P(0.04) { // a negative index is as malformed as one past the end: the target still decides, with MALFORMED_FLAG
			tv = r.Pick2([]int64{-1, -1, -2, math.MinInt64})
		}
		t.Set("values", vals).Set("variation", JInt(tv))
		arr.A = append(arr.A, t)
	}
	return arr
}

func (w *World) genFlag(key string, prereqPool []string) *J {
	r, p := w.r, w.p
	f := JObj()
	nvars := r.Range(2, 4)
	salt := r.Pick([]string{"salt", "", "s", "xyz"})
	if r.P(p.PLongStrings) {
		salt = w.str()
	}
	f.Set("key", JStr(key)).Set("on", JBool(!r.P(p.POff)))
	pre := &J{K: 'a', A: []*J{}}
	if r.P(p.PPrereq) {
		for i := 0; i < r.Range(1, p.MaxPrereq); i++ {
			pq := JObj(KV{"key", JStr(r.Pick(prereqPool))})
			if pv := int64(r.Intn(nvars)); pv != 0 || r.P(0.6) { // hand-written documents leave a zero variation out
				if r.P(0.05) { // an index the prerequisite flag does not have: simply never met (and nothing to diagnose)
					pv = r.Pick2([]int64{-1, 7, 99, int64(nvars)})
				}
				pq.Set("variation", JInt(pv))
			}
			pre.A = append(pre.A, pq)
		}
	}
	f.Set("prerequisites", pre)
	nt := 0
	if r.P(p.PTargets) {
		nt = r.Range(1, 3)
	}
	f.Set("targets", w.genTargets(nt, false, nvars))
	nct := 0
	if r.P(p.PCtxTargets) {
		nct = r.Range(1, 4)
	}
	f.Set("contextTargets", w.genTargets(nct, true, nvars))
	if p.PPlaceholders > 0 && nt >= 2 && r.P(p.PPlaceholders) {
		// every user target list stands behind a placeholder (a user-kind entry without keys, same variation) in contextTargets;
		// the placeholders are listed in another order than the lists, with entries of other kinds between them
		tl := f.Get("targets").A
		ct := JArr()
		for _, i := range r.Perm(len(tl)) {
			if r.P(0.3) {
				ct.A = append(ct.A, w.genTargets(1, true, nvars).A...)
			}
			ph := JObj(KV{"values", JArr()}, KV{"variation", tl[i].Get("variation").Clone()})
			if r.P(0.7) {
				ph.Set("contextKind", JStr("user"))
			}
			ct.A = append(ct.A, ph)
		}
		if r.P(0.5) { // and the reverse of the listed order in any case
			for i, j := 0, len(ct.A)-1; i < j; i, j = i+1, j-1 {
				ct.A[i], ct.A[j] = ct.A[j], ct.A[i]
			}
		}
		f.Replace("contextTargets", ct)
	}
	rules := &J{K: 'a', A: []*J{}}
	for i := 0; i < r.Intn(p.MaxRules+1); i++ {
		ru := JObj()
		w.genVorr(ru, key, salt, nvars)
		if r.P(0.8) {
			ru.Set("id", JStr(fmt.Sprintf("r%d", r.Intn(5))))
		}
		cls := &J{K: 'a', A: []*J{}}
		for j := 0; j < r.Intn(p.MaxClauses+1); j++ {
			cls.A = append(cls.A, w.genClause(true))
		}
		if p.PMissingAttr > 0 && len(cls.A) >= 2 && r.P(p.PMissingAttr) {
			// a clause that leaves the attribute property out altogether is a clause without attribute (MALFORMED_FLAG when
			// reached), whatever the clauses before it say
			k := 1 + r.Intn(len(cls.A)-1)
			if op := cls.A[k].Get("op"); op != nil && op.S != "segmentMatch" {
				cls.A[k].Del("attribute")
			}
		}
		ru.Set("clauses", cls).Set("trackEvents", JBool(r.P(0.3)))
		rules.A = append(rules.A, ru)
	}
	f.Set("rules", rules)
	ft := JObj()
	w.genVorr(ft, key, salt, nvars)
	f.Set("fallthrough", ft)
	switch {
	case r.P(p.PMalformed):
		f.Set("offVariation", JInt(r.Pick2([]int64{-1, 99, int64(nvars)})))
	case r.P(0.15):
		f.Set("offVariation", JNull())
	default:
		f.Set("offVariation", JInt(int64(r.Intn(nvars))))
	}
	vars := &J{K: 'a', A: []*J{}}
	for i := 0; i < nvars; i++ {
		if r.P(0.6) {
			vars.A = append(vars.A, JStr(fmt.Sprintf("v%d", i)))
		} else {
			vars.A = append(vars.A, w.anyValue(0))
		}
	}
	f.Set("variations", vars)
	f.Set("clientSide", JBool(r.P(0.5))).Set("salt", JStr(salt)).Set("trackEvents", JBool(r.P(0.3))).
		Set("trackEventsFallthrough", JBool(r.P(0.3))).Set("debugEventsUntilDate", JNull()).
		Set("version", JInt(int64(r.Intn(100)))).Set("deleted", JBool(false))
	if r.P(0.2) {
		f.Set("excludeFromSummaries", JBool(true))
	}
	return f
}

func (w *World) genSegTargets(n int) *J {
	r := w.r
	arr := &J{K: 'a', A: []*J{}}
	for i := 0; i < n; i++ {
		t := JObj()
		k := r.Pick([]string{"org", "dev", "org", "user", "", "multi"})
		if k != "" {
			t.Set("contextKind", JStr(k))
		}
		vals := &J{K: 'a', A: []*J{}}
		for j := 0; j < r.Intn(4); j++ {
			vals.A = append(vals.A, JStr(ctxKey(r)))
		}
		t.Set("values", vals)
		arr.A = append(arr.A, t)
	}
	return arr
}

func strArr(r *Rng, n int) *J {
	a := &J{K: 'a', A: []*J{}}
	if r.P(0.06) { // long key lists (beyond any small-list threshold), half of them containing a context key
		m := []int{17, 40, 130}[r.Intn(3)]
		for i := 0; i < m; i++ {
			a.A = append(a.A, JStr(fmt.Sprintf("k%d", i)))
		}
		if r.P(0.5) {
			a.A[r.Intn(m)] = JStr(ctxKey(r))
		}
		return a
	}
	for i := 0; i < n; i++ {
		a.A = append(a.A, JStr(ctxKey(r)))
	}
	return a
}

func (w *World) genSegment(key string) *J {
	r, p := w.r, w.p
	s := JObj()
	salt := r.Pick([]string{"ss", "", "salt"})
	s.Set("key", JStr(key))
	s.Set("included", strArr(r, r.Intn(3))).Set("excluded", strArr(r, r.Intn(3)))
	s.Set("includedContexts", w.genSegTargets(r.Intn(3))).Set("excludedContexts", w.genSegTargets(r.Intn(3)))
	s.Set("salt", JStr(salt))
	rules := &J{K: 'a', A: []*J{}}
	for i := 0; i < r.Intn(3); i++ {
		ru := JObj(KV{"id", JStr(fmt.Sprintf("sr%d", i))})
		cls := &J{K: 'a', A: []*J{}}
		for j := 0; j < r.Intn(3); j++ {
			cls.A = append(cls.A, w.genClause(true))
		}
		ru.Set("clauses", cls)
		if r.P(0.35 + p.PSegBucket) {
			kind := ""
			if r.P(0.4) {
				kind = docKind(r)
			}
			if p.PPseudoKind > 0 && w.ctx.Multi && r.P(p.PPseudoKind) { // "multi" is what a multi-kind context calls itself, and the kind of none of its parts
				kind = "multi"
			}
			bucketBy := ""
			if r.P(0.3 + p.PSegBucket) {
				bucketBy = r.Pick([]string{"email", "age", "name", "score"})
				if kind != "" && r.P(0.4) {
					bucketBy = r.Pick([]string{"/email", "/age", "/nested/a/b", "/name"})
				}
				if r.P(math.Max(p.PMalformed, p.PSegBucket/2)) {
					bucketBy = r.Pick([]string{"//", "/a~2"})
					if kind == "" && r.P(0.7) { // only a reference (rolloutContextKind present) can be syntactically invalid
						kind = r.Pick(kinds)
						if len(w.ctx.Singles) > 0 && r.P(0.6) { // mostly a kind the context has, so that the bucket is really asked for
							kind = w.ctx.Singles[r.Intn(len(w.ctx.Singles))].Kind
						}
					}
				}
			}
			var wt int64
			if b, ok := w.bucketOf(false, nil, kind, key, bucketBy, salt); ok && r.P(math.Min(p.PBoundary+0.2, 0.7)) {
				wt = int64(float64(b)*100000) + int64(r.Range(-1, 1))
			} else {
				wt = r.Pick2([]int64{0, 0, 1, 50000, 100000, 99999, -1, 30000, 100000, 100001, 250000})
			}
			if (bucketBy == "//" || bucketBy == "/a~2") && r.P(0.5) { // "everyone" weights must still report a malformed reference
				wt = r.Pick2([]int64{100000, 100000, 100001, 1 << 40})
			}
			ru.Set("weight", JInt(wt))
			if bucketBy != "" {
				ru.Set("bucketBy", JStr(bucketBy))
			}
			if kind != "" {
				ru.Set("rolloutContextKind", JStr(kind))
			}
			if r.P(0.3) {
				// a weighted rule that first looks into another segment: the bucket is still this segment's (its key, its salt)
				other := r.Pick(segKeys)
				if other != key {
					cls.A = append([]*J{JObj(KV{"attribute", JStr("")}, KV{"op", JStr("segmentMatch")}, KV{"values", JArr(JStr(other))},
						KV{"negate", JBool(r.P(0.5))})}, cls.A...)
				}
			}
		}
		rules.A = append(rules.A, ru)
	}
	if p.PSegTwoRules > 0 && r.P(p.PSegTwoRules) {
		// a rule that buckets by an attribute and does not match (weight 0), followed by a rule weighted by KEY with its split
		// point next to the context's bucket: what the first rule bucketed by must not linger
		first := JObj(KV{"id", JStr("by-attr")}, KV{"clauses", JArr()}, KV{"weight", JInt(0)}, KV{"bucketBy", JStr(r.Pick([]string{"email", "name", "age", "nested"}))})
		var wt int64 = 50000
		if b, ok := w.bucketOf(false, nil, "", key, "", salt); ok {
			wt = int64(float64(b)*100000) + int64(r.Range(-1, 2))
			if wt < 0 {
				wt = 0
			}
		}
		second := JObj(KV{"id", JStr("by-key")}, KV{"clauses", JArr()}, KV{"weight", JInt(wt)})
		rules = JArr(first, second)
	}
	s.Set("rules", rules)
	if p.PEmptyKeyLists > 0 { // the (legacy) empty key is a key like any other in the segment's lists too
		for _, sp := range w.ctx.Singles {
			if sp.Key == "" && r.P(p.PEmptyKeyLists) {
				l := s.Get(r.Pick([]string{"included", "excluded", "included"}))
				l.A = append(l.A, JStr(""))
			}
		}
	}
	if r.P(p.PBigSeg) {
		s.Set("unbounded", JBool(true))
		if r.P(0.5) {
			s.Set("unboundedContextKind", JStr(docKind(r)))
		}
		if r.P(0.85) {
			g := int64(r.Intn(3))
			s.Set("generation", JInt(g))
			// the store also knows the other generations of this segment (a later version of the same key may ask for them)
			for og := int64(0); og < 3; og++ {
				w.bigRefs = append(w.bigRefs, fmt.Sprintf("%s.g%d", key, og))
			}
		} else {
			s.Set("generation", JNull())
		}
	} else {
		s.Set("generation", JNull())
	}
	s.Set("version", JInt(int64(r.Intn(50)))).Set("deleted", JBool(false))
	return s
}

func (w *World) genAnswer() Answer {
	r := w.r
	a := Answer{Status: []int{0, 0, 0, 1, 2, 3}[r.Intn(6)]}
	if r.P(0.15) {
		a.NilMembership = true
		return a
	}
	for _, ref := range w.bigRefs {
		if r.P(0.6) {
			a.Members = append(a.Members, MemEntry{ref, r.P(0.6)})
		}
	}
	if r.P(0.2) {
		a.Members = append(a.Members, MemEntry{"s9.g1", true})
	}
	return a
}

// noise applied to a document that must not change its meaning: property order, unknown properties,
// null / omitted list-valued properties that are empty
func (w *World) noise(doc *J, depth int) {
	r := w.r
	switch doc.K {
	case 'a':
		for _, x := range doc.A {
			w.noise(x, depth+1)
		}
	case 'o':
		for i := range doc.O {
			k := doc.O[i].K
			if k == "values" || k == "variations" && depth == 0 {
				// clause values / flag variations are free-form JSON: leave their insides alone,
				// but targets' "values" are strings anyway
				continue
			}
			if k == "attrs" {
				continue
			}
			w.noise(doc.O[i].V, depth+1)
		}
		if r.P(0.5) {
			for i := len(doc.O) - 1; i > 0; i-- {
				j := r.Intn(i + 1)
				doc.O[i], doc.O[j] = doc.O[j], doc.O[i]
			}
		}
		if r.P(0.3) {
			pos := r.Intn(len(doc.O) + 1)
			kv := KV{r.Pick([]string{"unknownProp", "_x", "Key", "extra"}), w.anyValue(0)}
			doc.O = append(doc.O[:pos:pos], append([]KV{kv}, doc.O[pos:]...)...)
		}
		if w.p.PCrossNames > 0 && r.P(w.p.PCrossNames) {
			// a property that means something in another kind of object (a "variation" inside a segment target, a "weight"
			// inside a clause ...) is an unknown property here, whatever its value; where the name IS known the model decides
			name := r.Pick([]string{"variation", "weight", "values", "key", "kind", "op", "attribute", "negate", "rollout", "seed",
				"bucketBy", "contextKind", "id", "clauses", "salt", "version", "generation", "unbounded", "included", "on", "rules", "targets"})
			present := false
			for _, kv := range doc.O {
				if kv.K == name {
					present = true
				}
			}
			if !present {
				pos := r.Intn(len(doc.O) + 1)
				doc.O = append(doc.O[:pos:pos], append([]KV{{name, w.anyValue(0)}}, doc.O[pos:]...)...)
			}
		}
		// hand-written documents leave default-valued scalars out: a later array element must not inherit
		// what an earlier one spelled out
		if r.P(0.5) {
			has := func(k string) bool {
				for _, kv := range doc.O {
					if kv.K == k {
						return true
					}
				}
				return false
			}
			listItem := has("key") || has("values") || has("weight")
			kept := doc.O[:0:0]
			for _, kv := range doc.O {
				isZero := kv.V.K == 'd' && kv.V.N == 0 && kv.V.Big == nil
				isFalse := kv.V.K == 'b' && !kv.V.B
				drop := false
				switch kv.K {
				case "variation":
					drop = isZero && listItem
				case "weight":
					drop = isZero && has("variation")
				case "untracked", "negate", "trackEvents", "trackEventsFallthrough", "unbounded", "deleted":
					drop = isFalse
				}
				if drop && r.P(0.6) {
					continue
				}
				kept = append(kept, kv)
			}
			doc.O = kept
		}
		for i := range doc.O {
			kv := doc.O[i]
			if kv.V.K == 'a' && len(kv.V.A) == 0 && r.P(0.2) {
				switch kv.K {
				case "prerequisites", "targets", "contextTargets", "rules", "clauses", "included", "excluded",
					"includedContexts", "excludedContexts":
					doc.O[i].V = JNull()
				}
			}
		}
	}
}

// shuffleKeys permutes the members of every object (not inside free-form values): any key-sorting or map-based
// encoder produces such documents.
func (w *World) shuffleKeys(doc *J, depth int) {
	switch doc.K {
	case 'a':
		for _, x := range doc.A {
			w.shuffleKeys(x, depth+1)
		}
	case 'o':
		for i := range doc.O {
			k := doc.O[i].K
			if k == "values" || k == "variations" && depth == 0 || k == "attrs" {
				continue
			}
			w.shuffleKeys(doc.O[i].V, depth+1)
		}
		for i := len(doc.O) - 1; i > 0; i-- {
			j := w.r.Intn(i + 1)
			doc.O[i], doc.O[j] = doc.O[j], doc.O[i]
		}
	}
}


// genSingleMalformation: a small well-formed configuration in which exactly one thing is wrong, placed where this
// context's evaluation certainly reaches it (in the evaluated flag, in its prerequisite, or in the segment its rule tests).
// The dense malformed profile rarely gets past its first problem; this stream reaches every error site.
func (w *World) genSingleMalformation(c *EvalCase) {
	r := w.r
	kind := w.ctx.Singles[r.Intn(len(w.ctx.Singles))].Kind
	ck := ""
	if kind != "user" || r.P(0.5) {
		ck = kind
	}
	mkFlag := func(key string) *J {
		return JObj(KV{"key", JStr(key)}, KV{"on", JBool(true)}, KV{"prerequisites", JArr()}, KV{"targets", JArr()}, KV{"contextTargets", JArr()},
			KV{"rules", JArr()}, KV{"fallthrough", JObj(KV{"variation", JInt(0)})}, KV{"offVariation", JInt(1)},
			KV{"variations", JArr(JStr("v0"), JStr("v1"), JStr("v2"))}, KV{"salt", JStr("salt")}, KV{"version", JInt(1)})
	}
	rollout := func(bucketBy string, withKind bool, n int) *J {
		ro := JObj()
		if withKind {
			k := ck
			if k == "" {
				k = "user"
			}
			ro.Set("contextKind", JStr(k))
		}
		vs := &J{K: 'a', A: []*J{}}
		for i := 0; i < n; i++ {
			vs.A = append(vs.A, JObj(KV{"variation", JInt(int64(i % 3))}, KV{"weight", JInt(int64(100000 / n))}))
		}
		ro.Set("variations", vs)
		if bucketBy != "" {
			ro.Set("bucketBy", JStr(bucketBy))
		}
		return ro
	}
	always := func() *J { // a clause that matches every context of the chosen kind
		cl := JObj(KV{"attribute", JStr("key")}, KV{"op", JStr("in")}, KV{"values", JArr(JStr("\x00never"))}, KV{"negate", JBool(true)})
		if ck != "" {
			cl.Set("contextKind", JStr(ck))
		}
		return cl
	}
	badRef := r.Pick([]string{"//", "/a~2", "/", "/a//b", "/a~"})
	top := mkFlag("f0")
	target := top // the flag that carries the malformation: the evaluated flag or its prerequisite
	where := r.Intn(3)
	if where == 1 {
		pf := mkFlag("f1")
		top.Replace("prerequisites", JArr(JObj(KV{"key", JStr("f1")}, KV{"variation", JInt(0)})))
		c.Flags = append(c.Flags, Item{Key: "f1", Form: 1, Doc: pf})
		target = pf
	}
	rule := func(vorr KV, clauses ...*J) *J {
		return JObj(KV{"id", JStr("r")}, vorr, KV{"clauses", JArr(clauses...)}, KV{"trackEvents", JBool(false)})
	}
	switch r.Intn(12) {
	case 0: // variation index out of range: fallthrough
		target.Replace("fallthrough", JObj(KV{"variation", JInt(r.Pick2([]int64{-1, 3, 99}))}))
	case 1: // ... in a matching rule
		target.Replace("rules", JArr(rule(KV{"variation", JInt(r.Pick2([]int64{-1, 3, 99}))}, always())))
	case 2: // ... off variation of a flag that is off
		target.Replace("on", JBool(false))
		target.Replace("offVariation", JInt(r.Pick2([]int64{-1, 3, 99})))
	case 3: // rollout without buckets
		target.Replace("fallthrough", JObj(KV{"rollout", rollout("", r.P(0.5), 0)}))
	case 4: // invalid bucket-by reference in the fallthrough rollout (only a reference, i.e. with a context kind, can be invalid)
		target.Replace("fallthrough", JObj(KV{"rollout", rollout(badRef, true, 2)}))
	case 5: // ... in a matching rule's rollout
		target.Replace("rules", JArr(rule(KV{"rollout", rollout(badRef, true, 3)}, always())))
	case 6: // clause with an invalid attribute reference
		cl := JObj(KV{"contextKind", JStr(kind)}, KV{"attribute", JStr(badRef)}, KV{"op", JStr("in")}, KV{"values", JArr(JStr("a"))}, KV{"negate", JBool(r.P(0.5))})
		target.Replace("rules", JArr(rule(KV{"variation", JInt(0)}, cl)))
	case 7: // clause with no attribute at all
		cl := JObj(KV{"op", JStr("in")}, KV{"values", JArr(JStr("a"))}, KV{"negate", JBool(false)})
		target.Replace("rules", JArr(rule(KV{"variation", JInt(0)}, cl)))
	case 8: // prerequisite cycle back to the carrying flag
		key := target.Get("key").S
		other := "f9"
		c.Flags = append(c.Flags, Item{Key: other, Form: 1, Doc: func() *J {
			g := mkFlag(other)
			g.Replace("prerequisites", JArr(JObj(KV{"key", JStr(key)}, KV{"variation", JInt(0)})))
			return g
		}()})
		target.Replace("prerequisites", JArr(JObj(KV{"key", JStr(other)}, KV{"variation", JInt(0)})))
	case 9, 10, 11: // a problem inside the segment that a rule of the carrying flag tests
		seg := JObj(KV{"key", JStr("s0")}, KV{"included", JArr()}, KV{"excluded", JArr()}, KV{"salt", JStr("x")}, KV{"version", JInt(1)})
		switch r.Intn(3) {
		case 0: // segment cycle
			seg.Set("rules", JArr(JObj(KV{"id", JStr("sr")}, KV{"clauses", JArr(JObj(KV{"attribute", JStr("")}, KV{"op", JStr("segmentMatch")},
				KV{"values", JArr(JStr("s0"))}, KV{"negate", JBool(false)}))})))
		case 1: // invalid attribute reference in a segment rule clause
			seg.Set("rules", JArr(JObj(KV{"id", JStr("sr")}, KV{"clauses", JArr(JObj(KV{"contextKind", JStr(kind)}, KV{"attribute", JStr(badRef)},
				KV{"op", JStr("in")}, KV{"values", JArr(JStr("a"))}, KV{"negate", JBool(false)}))})))
		default: // invalid bucket-by reference in a weighted segment rule
			seg.Set("rules", JArr(JObj(KV{"id", JStr("sr")}, KV{"clauses", JArr()}, KV{"weight", JInt(50000)}, KV{"bucketBy", JStr(badRef)},
				KV{"rolloutContextKind", JStr(kind)})))
		}
		c.Segs = append(c.Segs, Item{Key: "s0", Form: 1, Doc: seg})
		target.Replace("rules", JArr(rule(KV{"variation", JInt(0)}, JObj(KV{"attribute", JStr("")}, KV{"op", JStr("segmentMatch")},
			KV{"values", JArr(JStr("s0"))}, KV{"negate", JBool(false)}))))
	}
	c.Top = Item{Key: "f0", Form: []int{1, 1, 0, 4}[r.Intn(4)], Doc: top}
	if r.P(0.6) {
		c.Flags = append(c.Flags, Item{Key: "f0", Form: c.Top.Form, Doc: top.Clone()})
	}
}


// genNestedWeighted: flag rule -> segment "outer" whose weighted rule first tests segment "inner" (decided by inner's own
// rules, not by its lists), with outer's weight placed next to the context's bucket for (outer key, outer salt). Any
// state that the nested evaluation leaves behind (current segment, hash buffer, cached bucket) moves the context across
// the split point.
func (w *World) genNestedWeighted(c *EvalCase) {
	r := w.r
	sp := w.ctx.Singles[r.Intn(len(w.ctx.Singles))]
	kind := sp.Kind
	rk := ""
	if kind != "user" || r.P(0.5) {
		rk = kind
	}
	outerSalt, innerSalt := r.Pick([]string{"osalt", "x", ""}), r.Pick([]string{"isalt", "y", "zz"})
	innerIn := r.P(0.5) // whether the inner segment's rule matches everyone
	inner := JObj(KV{"key", JStr("inner")}, KV{"included", JArr()}, KV{"excluded", JArr()}, KV{"salt", JStr(innerSalt)}, KV{"version", JInt(1)},
		KV{"rules", JArr(JObj(KV{"id", JStr("ir")}, KV{"clauses", JArr(JObj(KV{"attribute", JStr("key")}, KV{"op", JStr("in")},
			KV{"values", JArr(JStr("\x00never"))}, KV{"negate", JBool(innerIn)}, KV{"contextKind", JStr(kind)}))}))})
	switch r.Intn(5) {
	case 0, 1: // the inner rule is weighted too (its own bucket, its own salt)
		inner.Get("rules").A[0].Set("weight", JInt(r.Pick2([]int64{0, 100000, 50000})))
		if rk != "" {
			inner.Get("rules").A[0].Set("rolloutContextKind", JStr(rk))
		}
	case 2: // ... and cannot compute a bucket: the context lacks the kind (the rule does not match)
		inner.Get("rules").A[0].Set("weight", JInt(100000))
		inner.Get("rules").A[0].Set("rolloutContextKind", JStr("nokind"))
		innerIn = false
	case 3: // ... or buckets by an attribute nobody has (bucket 0: matches unless the weight is 0)
		wz := r.Pick2([]int64{0, 100000})
		inner.Get("rules").A[0].Set("weight", JInt(wz))
		inner.Get("rules").A[0].Set("bucketBy", JStr("noSuchAttribute"))
		if rk != "" {
			inner.Get("rules").A[0].Set("rolloutContextKind", JStr(rk))
		}
		innerIn = innerIn && wz != 0
	}
	var wt int64 = 50000
	if b, ok := w.bucketOf(false, nil, rk, "outer", "", outerSalt); ok {
		wt = int64(float64(b)*100000) + int64(r.Range(-1, 2))
		if wt < 0 {
			wt = 0
		}
	}
	probe := JObj(KV{"attribute", JStr("")}, KV{"op", JStr("segmentMatch")}, KV{"values", JArr(JStr("inner"))}, KV{"negate", JBool(!innerIn)})
	weighted := JObj(KV{"id", JStr("or")}, KV{"clauses", JArr(probe)}, KV{"weight", JInt(wt)})
	if rk != "" {
		weighted.Set("rolloutContextKind", JStr(rk))
	}
	rules := JArr(weighted)
	if r.P(0.4) { // or: an earlier rule looks into the other segment and does not match; the weighted rule comes after it
		miss := JObj(KV{"id", JStr("miss")}, KV{"clauses", JArr(JObj(KV{"attribute", JStr("")}, KV{"op", JStr("segmentMatch")},
			KV{"values", JArr(JStr("inner"))}, KV{"negate", JBool(innerIn)}))})
		weighted.Replace("clauses", JArr())
		rules = JArr(miss, weighted)
	}
	if r.P(0.25) {
		// two weighted rules of one segment that bucket differently: the first one's bucket (by key) is just above its
		// weight, so it does not match; the second buckets by an attribute nobody has (bucket 0) with a tiny weight, so it
		// matches -- unless it reuses the first rule's bucket
		first := JObj(KV{"id", JStr("w1")}, KV{"clauses", JArr()}, KV{"weight", JInt(wt - 2)})
		if wt < 3 {
			first.Replace("weight", JInt(0))
		}
		second := JObj(KV{"id", JStr("w2")}, KV{"clauses", JArr()}, KV{"weight", JInt(r.Pick2([]int64{1, 5, 100000}))}, KV{"bucketBy", JStr("noSuchAttribute")})
		if rk != "" {
			first.Set("rolloutContextKind", JStr(rk))
			second.Set("rolloutContextKind", JStr(rk))
		}
		rules = JArr(first, second)
	}
	outer := JObj(KV{"key", JStr("outer")}, KV{"included", JArr()}, KV{"excluded", JArr()}, KV{"salt", JStr(outerSalt)}, KV{"version", JInt(1)}, KV{"rules", rules})
	flag := JObj(KV{"key", JStr("f0")}, KV{"on", JBool(true)}, KV{"prerequisites", JArr()}, KV{"targets", JArr()}, KV{"contextTargets", JArr()},
		KV{"rules", JArr(JObj(KV{"id", JStr("r")}, KV{"variation", JInt(1)}, KV{"clauses", JArr(JObj(KV{"attribute", JStr("")}, KV{"op", JStr("segmentMatch")},
			KV{"values", JArr(JStr("outer"))}, KV{"negate", JBool(false)}))}, KV{"trackEvents", JBool(false)}))},
		KV{"fallthrough", JObj(KV{"rollout", func() *J {
			// the split point of the rollout that follows is next to the context's bucket for (f0, fsalt) as well
			var fw int64 = 50000
			if b, ok := w.bucketOf(false, nil, rk, "f0", "", "fsalt"); ok {
				fw = int64(float64(b)*100000) + int64(r.Range(-1, 2))
				if fw < 0 {
					fw = 0
				}
				if fw > 100000 {
					fw = 100000
				}
			}
			ro := JObj(KV{"variations", JArr(JObj(KV{"variation", JInt(0)}, KV{"weight", JInt(fw)}),
				JObj(KV{"variation", JInt(2)}, KV{"weight", JInt(100000 - fw)}))})
			if rk != "" {
				ro.Set("contextKind", JStr(rk))
			}
			return ro
		}()})},
		KV{"offVariation", JInt(0)}, KV{"variations", JArr(JStr("v0"), JStr("v1"), JStr("v2"))}, KV{"salt", JStr("fsalt")}, KV{"version", JInt(1)})
	form := []int{1, 1, 0, 4, 3}[r.Intn(5)]
	c.Top = Item{Key: "f0", Form: form, Doc: flag}
	c.Segs = []Item{{Key: "outer", Form: form, Doc: outer}, {Key: "inner", Form: form, Doc: inner}}
}

// topBucketTable: (flag or segment key, salt, context key) for which SHA-1("<key>.<salt>.<context key>") begins with 25 one
// bits: the 15-digit prefix rounds to 2^60 in single precision and the bucket is exactly 1.0 -- the one value that is not
// below 100000/100000 (about one input in 33 million; found by search).
var topBucketTable = [][3]string{
	{"f1", "s", "u8007457"}, {"f2", "xyz", "u13689606"}, {"f0", "salt", "u14657542"}, {"f0", "salt", "u34303013"},
	{"s2", "", "u35341662"}, {"f2", "xyz", "u36306827"}, {"f3", "", "u35426646"}, {"f3", "", "u41878878"},
	{"f1", "s", "u42504217"}, {"s2", "", "u51416392"}, {"s1", "salt", "u66745367"}, {"s0", "ss", "u69440878"},
	{"s0", "ss", "u94498569"}, {"s1", "salt", "u175140142"},
}

// genTopBucket: a context whose bucket is exactly 1.0 against weights that add up to 100000 (nobody may be left out of the
// last bucket; nobody is in a 100 % segment rule whose bucket is not below 1) and just beside.
func (w *World) genTopBucket(c *EvalCase) {
	r := w.r
	e := topBucketTable[r.Intn(len(topBucketTable))]
	sp := &w.ctx.Singles[r.Intn(len(w.ctx.Singles))]
	sp.Key, sp.Secondary = e[2], nil
	rk := ""
	if sp.Kind != "user" || r.P(0.4) {
		rk = sp.Kind
	}
	form := []int{1, 1, 0, 4, 3, 2}[r.Intn(6)]
	if e[0][0] == 's' {
		rule := JObj(KV{"id", JStr("w")}, KV{"clauses", JArr()}, KV{"weight", JInt(r.Pick2([]int64{100000, 100000, 99999, 100001, 200000}))})
		if rk != "" {
			rule.Set("rolloutContextKind", JStr(rk))
		}
		seg := JObj(KV{"key", JStr(e[0])}, KV{"included", JArr()}, KV{"excluded", JArr()}, KV{"salt", JStr(e[1])}, KV{"version", JInt(1)}, KV{"rules", JArr(rule)})
		flag := JObj(KV{"key", JStr("f0")}, KV{"on", JBool(true)}, KV{"prerequisites", JArr()}, KV{"targets", JArr()}, KV{"contextTargets", JArr()},
			KV{"rules", JArr(JObj(KV{"id", JStr("r")}, KV{"variation", JInt(1)}, KV{"clauses", JArr(JObj(KV{"attribute", JStr("")}, KV{"op", JStr("segmentMatch")},
				KV{"values", JArr(JStr(e[0]))}, KV{"negate", JBool(r.P(0.3))}))}, KV{"trackEvents", JBool(false)}))},
			KV{"fallthrough", JObj(KV{"variation", JInt(0)})}, KV{"offVariation", JInt(0)}, KV{"variations", JArr(JStr("v0"), JStr("v1"))},
			KV{"salt", JStr("fs")}, KV{"version", JInt(1)})
		c.Top = Item{Key: "f0", Form: form, Doc: flag}
		c.Segs = []Item{{Key: e[0], Form: form, Doc: seg}}
		return
	}
	weights := [][]int64{{100000, 0}, {60000, 40000}, {100000}, {50000, 50000, 0}, {99999, 1}, {100000, 0, 0}, {30000, 30000}}[r.Intn(7)]
	vars := JArr()
	for i, wt := range weights {
		wv := JObj(KV{"variation", JInt(int64(i))}, KV{"weight", JInt(wt)})
		if r.P(0.2) {
			wv.Set("untracked", JBool(true))
		}
		vars.A = append(vars.A, wv)
	}
	ro := JObj(KV{"variations", vars})
	if rk != "" {
		ro.Set("contextKind", JStr(rk))
	}
	if r.P(0.3) {
		ro.Set("kind", JStr("experiment"))
	}
	flag := JObj(KV{"key", JStr(e[0])}, KV{"on", JBool(true)}, KV{"prerequisites", JArr()}, KV{"targets", JArr()}, KV{"contextTargets", JArr()},
		KV{"rules", JArr()}, KV{"fallthrough", JObj(KV{"rollout", ro})}, KV{"offVariation", JInt(0)},
		KV{"variations", JArr(JStr("v0"), JStr("v1"), JStr("v2"))}, KV{"salt", JStr(e[1])}, KV{"version", JInt(1)})
	if r.P(0.4) { // the same rollout on a rule that matches everyone
		flag.Replace("rules", JArr(JObj(KV{"id", JStr("r")}, KV{"rollout", ro.Clone()}, KV{"clauses", JArr()}, KV{"trackEvents", JBool(false)})))
		flag.Replace("fallthrough", JObj(KV{"variation", JInt(0)}))
	}
	c.Top = Item{Key: e[0], Form: form, Doc: flag}
}

// genLongHash: flag key, salt and bucketing value sized so that the hash input outgrows its 100 preallocated bytes in every
// way the growth of the buffer distinguishes (which append crosses the capacity, by how much, more than once).
func (w *World) genLongHash(c *EvalCase) {
	r := w.r
	lens := []int{1, 8, 40, 60, 95, 99, 100, 101, 120, 150, 186, 190, 199, 200, 201, 260, 410}
	mk := func(n int) string {
		b := make([]byte, n)
		for i := range b {
			b[i] = byte('a' + r.Intn(26))
		}
		return string(b)
	}
	key, salt := mk(lens[r.Intn(6)]), mk(lens[r.Intn(8)])
	if r.P(0.5) {
		key, salt = r.Pick([]string{"f0", "flagkey"}), r.Pick([]string{"salt", "s", ""})
	}
	sp := &w.ctx.Singles[r.Intn(len(w.ctx.Singles))]
	sp.Key = mk(lens[5+r.Intn(len(lens)-5)] + r.Range(-1, 1))
	rk := ""
	if sp.Kind != "user" || r.P(0.4) {
		rk = sp.Kind
	}
	ro := JObj(KV{"variations", JArr(JObj(KV{"variation", JInt(0)}, KV{"weight", JInt(50000)}), JObj(KV{"variation", JInt(1)}, KV{"weight", JInt(50000)}))})
	if rk != "" {
		ro.Set("contextKind", JStr(rk))
	}
	if r.P(0.25) {
		ro.Set("kind", JStr("experiment"))
	}
	if r.P(0.2) {
		ro.Set("seed", JInt(int64(r.Intn(1000000))))
	}
	form := []int{1, 1, 0, 4, 3, 2}[r.Intn(6)]
	flag := JObj(KV{"key", JStr(key)}, KV{"on", JBool(true)}, KV{"prerequisites", JArr()}, KV{"targets", JArr()}, KV{"contextTargets", JArr()},
		KV{"rules", JArr()}, KV{"fallthrough", JObj(KV{"rollout", ro})}, KV{"offVariation", JInt(0)},
		KV{"variations", JArr(JStr("v0"), JStr("v1"))}, KV{"salt", JStr(salt)}, KV{"version", JInt(1)})
	if r.P(0.35) { // the same through a weighted segment rule (segment key and salt of their own lengths)
		sk, ss := mk(lens[r.Intn(8)]), mk(lens[r.Intn(8)])
		rule := JObj(KV{"id", JStr("w")}, KV{"clauses", JArr()}, KV{"weight", JInt(50000)})
		if rk != "" {
			rule.Set("rolloutContextKind", JStr(rk))
		}
		seg := JObj(KV{"key", JStr(sk)}, KV{"included", JArr()}, KV{"excluded", JArr()}, KV{"salt", JStr(ss)}, KV{"version", JInt(1)}, KV{"rules", JArr(rule)})
		flag.Replace("rules", JArr(JObj(KV{"id", JStr("r")}, KV{"variation", JInt(1)}, KV{"clauses", JArr(JObj(KV{"attribute", JStr("")}, KV{"op", JStr("segmentMatch")},
			KV{"values", JArr(JStr(sk))}, KV{"negate", JBool(false)}))}, KV{"trackEvents", JBool(false)})))
		c.Segs = []Item{{Key: sk, Form: form, Doc: seg}}
	}
	c.Top = Item{Key: key, Form: form, Doc: flag}
}

// GenEval produces one evaluation case.
func GenEval(r *Rng, p *Profile) *EvalCase {
	c := genEvalCase(r, p)
	// drawn last, so that nothing else about the case depends on it: a nil entry at the head of the option list (an optional
	// collaborator that was left unset) is skipped, and everything after it still applies
	c.NilOptionFirst = r.P(0.12)
	return c
}

func genEvalCase(r *Rng, p *Profile) *EvalCase {
	w := &World{r: r, p: p}
	w.genCtx()
	c := &EvalCase{Ctx: w.ctx}
	c.Secondary = r.P(p.PSecondaryOpt)
	c.Logger = r.P(p.PLoggerOpt)
	c.NilLoggerOption = !c.Logger && r.P(0.5)
	c.Recorder = r.P(p.PRecorderOpt)
	if r.P(p.PSingleMal) && w.ctx.Invalid == 0 {
		w.genSingleMalformation(c)
		return c
	}
	if r.P(p.PNestedSeg) && w.ctx.Invalid == 0 {
		w.genNestedWeighted(c)
		return c
	}
	if p.PLongHash > 0 && r.P(p.PLongHash) && w.ctx.Invalid == 0 {
		w.genLongHash(c)
		return c
	}
	if p.PTopBucket > 0 && r.P(p.PTopBucket) && w.ctx.Invalid == 0 {
		w.genTopBucket(c)
		return c
	}
	form := func() int {
		if r.P(p.PForm0) {
			return 0
		}
		if r.P(0.15) {
			return 2
		}
		if r.P(0.3) {
			return 4
		}
		if r.P(0.12) {
			return 3 // rebuilt with ldbuilders from the decoded parts
		}
		return 1
	}
	nsegs := r.Range(p.MinSegs, p.MaxSegs)
	segPerm := r.Perm(len(segKeys))
	for i := 0; i < nsegs && i < len(segKeys); i++ {
		k := segKeys[segPerm[i]]
		c.Segs = append(c.Segs, Item{Key: k, Form: form(), Doc: w.genSegment(k)})
	}
	nflags := r.Range(p.MinFlags, p.MaxFlags)
	flagPerm := r.Perm(len(flagKeys))
	topKey := r.Pick(flagKeys)
	c.Top = Item{Key: topKey, Form: form(), Doc: w.genFlag(topKey, flagKeys)}
	for i := 0; i < nflags && i < len(flagKeys); i++ {
		k := flagKeys[flagPerm[i]]
		it := Item{Key: k, Form: form(), Doc: w.genFlag(k, flagKeys)}
		if k == topKey && r.P(0.7) {
			it.Doc = c.Top.Doc.Clone() // the store usually holds the evaluated flag itself
			it.Form = c.Top.Form
		}
		c.Flags = append(c.Flags, it)
	}
	if p.Chain > 0 {
		w.addChain(c)
	}
	c.Prov.Present = r.P(0.8)
	if c.Prov.Present {
		for _, k := range ctxKeys {
			if r.P(0.6) {
				c.Prov.Keys = append(c.Prov.Keys, k)
				c.Prov.Answers = append(c.Prov.Answers, w.genAnswer())
			}
		}
		c.Prov.Default = w.genAnswer()
	}
	if r.P(p.PShuffle) {
		docs := []*J{c.Top.Doc}
		for i := range c.Flags {
			docs = append(docs, c.Flags[i].Doc)
		}
		for i := range c.Segs {
			docs = append(docs, c.Segs[i].Doc)
		}
		for _, d := range docs {
			w.shuffleKeys(d, 0)
		}
	}
	if r.P(p.PDocNoise) {
		w.noise(c.Top.Doc, 0)
		for i := range c.Flags {
			if r.P(0.5) {
				w.noise(c.Flags[i].Doc, 0)
			}
		}
		for i := range c.Segs {
			if r.P(0.5) {
				w.noise(c.Segs[i].Doc, 0)
			}
		}
	}
	return c
}

func (r *Rng) Perm(n int) []int {
	p := make([]int, n)
	for i := range p {
		p[i] = i
	}
	for i := n - 1; i > 0; i-- {
		j := r.Intn(i + 1)
		p[i], p[j] = p[j], p[i]
	}
	return p
}

// addChain adds a deep prerequisite chain and a deep segment chain (with optional diamond and closing cycle).
func (w *World) addChain(c *EvalCase) {
	r := w.r
	depth := r.Range(1, w.p.Chain)
	if w.p.Chain < 30 && r.P(0.05) { // every profile with chains sees a few that are deeper than any preallocated path
		depth = r.Range(22, 34)
	}
	mode := r.Intn(4) // 0 plain chain, 1 diamond at every level, 2 cycle back to the top, 3 cycle in the middle
	mk := func(i int) string { return fmt.Sprintf("c%d", i) }
	// flags: top -> c0 -> c1 ... each requires variation 0 of the next; all serve variation 0 via fallthrough
	// aux: some chain flags first require a leaf flag whose rule tests a segment -- so segment evaluation happens with a
	// deep prerequisite path on the stack -- and that segment may carry the same key as the next flag of the chain
	// (flag keys and segment keys are separate namespaces: a segment on the segment path is not a flag on the flag path)
	auxMode := r.P(0.5)
	for i := 0; i < depth; i++ {
		f := JObj(KV{"key", JStr(mk(i))}, KV{"on", JBool(true)})
		pre := &J{K: 'a', A: []*J{}}
		if auxMode && i+1 < depth && (r.P(0.15) || (i >= 18 && i <= 22)) {
			ak := fmt.Sprintf("a%d", i)
			segKey := mk(i + 1)
			if r.P(0.3) {
				segKey = "d0"
			}
			aux := JObj(KV{"key", JStr(ak)}, KV{"on", JBool(true)}, KV{"prerequisites", JArr()},
				KV{"rules", JArr(JObj(KV{"id", JStr("s")}, KV{"variation", JInt(0)}, KV{"clauses", JArr(JObj(KV{"attribute", JStr("")},
					KV{"op", JStr("segmentMatch")}, KV{"values", JArr(JStr(segKey))}, KV{"negate", JBool(false)}))}))},
				KV{"fallthrough", JObj(KV{"variation", JInt(0)})}, KV{"offVariation", JInt(1)},
				KV{"variations", JArr(JStr("x"), JStr("y"))}, KV{"salt", JStr("")}, KV{"version", JInt(1)})
			c.Flags = append(c.Flags, Item{Key: ak, Form: 1, Doc: aux})
			if segKey != "d0" {
				c.Segs = append(c.Segs, Item{Key: segKey, Form: 1, Doc: JObj(KV{"key", JStr(segKey)}, KV{"included", JArr(JStr(w.r.Pick(ctxKeys)))},
					KV{"excluded", JArr()}, KV{"rules", JArr()}, KV{"salt", JStr("")}, KV{"version", JInt(1)})})
			}
			pre.A = append(pre.A, JObj(KV{"key", JStr(ak)}, KV{"variation", JInt(0)}))
		}
		if i+1 < depth {
			pre.A = append(pre.A, JObj(KV{"key", JStr(mk(i + 1))}, KV{"variation", JInt(0)}))
			if mode == 1 && i+2 < depth && (depth <= 10 || i%(depth/3+1) == 0) { // a few diamonds: every extra edge doubles the work
				pre.A = append(pre.A, JObj(KV{"key", JStr(mk(i + 2))}, KV{"variation", JInt(0)}))
			}
		} else if mode == 2 {
			pre.A = append(pre.A, JObj(KV{"key", JStr(c.Top.Key)}, KV{"variation", JInt(0)}))
		} else if mode == 3 {
			back := r.Intn(depth)
			if r.P(0.5) { // a short cycle at the far end of the chain
				back = depth - 1 - r.Intn(min(depth, 3))
			}
			pre.A = append(pre.A, JObj(KV{"key", JStr(mk(back))}, KV{"variation", JInt(0)}))
		}
		f.Set("prerequisites", pre).Set("fallthrough", JObj(KV{"variation", JInt(0)})).Set("offVariation", JInt(1)).
			Set("variations", JArr(JStr("x"), JStr("y"))).Set("salt", JStr("")).Set("version", JInt(int64(i)))
		c.Flags = append(c.Flags, Item{Key: mk(i), Form: 1, Doc: f})
	}
	top := c.Top.Doc
	top.Replace("on", JBool(true))
	pre := top.Get("prerequisites")
	if pre == nil || pre.K != 'a' {
		pre = &J{K: 'a', A: []*J{}}
		top.Replace("prerequisites", pre)
	}
	pre.A = append([]*J{JObj(KV{"key", JStr(mk(0))}, KV{"variation", JInt(0)})}, pre.A...)
	// keep the stored copy of the top flag in sync
	for i := range c.Flags {
		if c.Flags[i].Key == c.Top.Key {
			c.Flags[i].Doc = top.Clone()
			c.Flags[i].Form = c.Top.Form
		}
	}
	// segments: d0 -> d1 -> ... -> d(n-1); the last one matches everyone (or closes a cycle)
	sdepth := r.Range(1, w.p.Chain)
	smode := r.Intn(4)
	bigChain := r.P(0.25)
	if bigChain && sdepth > 12 {
		sdepth = 12
	}
	sk := func(i int) string { return fmt.Sprintf("d%d", i) }
	for i := 0; i < sdepth; i++ {
		s := JObj(KV{"key", JStr(sk(i))}, KV{"included", JArr()}, KV{"excluded", JArr()}, KV{"salt", JStr("")},
			KV{"version", JInt(1)}, KV{"generation", JNull()})
		if bigChain {
			// unbounded segments for which the store has no answer: their rules decide, so the chain is followed
			s.Replace("generation", JInt(7))
			s.Set("unbounded", JBool(true))
			if len(w.ctx.Singles) > 0 {
				s.Set("unboundedContextKind", JStr(w.ctx.Singles[0].Kind))
			}
		}
		var cl *J
		if i+1 < sdepth {
			vals := JArr(JStr(sk(i + 1)))
			if smode == 1 && i+2 < sdepth && (sdepth <= 10 || i%(sdepth/3+1) == 0) {
				vals = JArr(JStr("missing"), JStr(sk(i+2)), JStr(sk(i+1)))
			}
			cl = JObj(KV{"attribute", JStr("")}, KV{"op", JStr("segmentMatch")}, KV{"values", vals}, KV{"negate", JBool(false)})
		} else if smode == 2 {
			cl = JObj(KV{"attribute", JStr("")}, KV{"op", JStr("segmentMatch")}, KV{"values", JArr(JStr(sk(0)))}, KV{"negate", JBool(false)})
		} else if smode == 3 {
			cl = JObj(KV{"attribute", JStr("")}, KV{"op", JStr("segmentMatch")}, KV{"values", JArr(JStr(sk(r.Intn(sdepth))))}, KV{"negate", JBool(false)})
		} else {
			cl = JObj(KV{"attribute", JStr("key")}, KV{"op", JStr("in")}, KV{"values", JArr(JStr(w.r.Pick(ctxKeys)), JStr("a"))}, KV{"negate", JBool(r.P(0.5))})
		}
		s.Set("rules", JArr(JObj(KV{"id", JStr("x")}, KV{"clauses", JArr(cl)})))
		c.Segs = append(c.Segs, Item{Key: sk(i), Form: 1, Doc: s})
	}
	rules := top.Get("rules")
	if rules == nil || rules.K != 'a' {
		rules = &J{K: 'a', A: []*J{}}
		top.Replace("rules", rules)
	}
	nr := JObj(KV{"variation", JInt(0)}, KV{"id", JStr("chain")}, KV{"clauses", JArr(JObj(KV{"attribute", JStr("")},
		KV{"op", JStr("segmentMatch")}, KV{"values", JArr(JStr(sk(0)))}, KV{"negate", JBool(false)}))}, KV{"trackEvents", JBool(false)})
	if r.P(0.5) {
		rules.A = append([]*J{nr}, rules.A...)
	} else {
		rules.A = append(rules.A, nr)
	}
	for i := range c.Flags {
		if c.Flags[i].Key == c.Top.Key {
			c.Flags[i].Doc = top.Clone()
		}
	}
}

var _ = math.Abs

package main

import (
	"encoding/json"
	"fmt"
	"reflect"

	"github.com/launchdarkly/go-jsonstream/v3/jreader"
	"github.com/launchdarkly/go-server-sdk-evaluation/v3/ldmodel"
)

func decodeAny(isFlag bool, text []byte) (interface{}, error) {
	if isFlag {
		f, err := serialization.UnmarshalFeatureFlag(text)
		return f, err
	}
	s, err := serialization.UnmarshalSegment(text)
	return s, err
}

func cleanDoc(r *Rng, p *Profile, isFlag bool) *J {
	w := &World{r: r, p: p}
	w.genCtx()
	var doc *J
	if isFlag {
		doc = w.genFlag(r.Pick(flagKeys), flagKeys)
	} else {
		doc = w.genSegment(r.Pick(segKeys))
	}
	w.decorate(doc, isFlag)
	return doc
}

type site struct {
	obj  *J
	idx  int
	path string
	parentKey string
}

func sitesWithPath(doc *J, parentKey, path string, acc *[]site) {
	switch doc.K {
	case 'a':
		for i, x := range doc.A {
			sitesWithPath(x, parentKey, fmt.Sprintf("%s[%d]", path, i), acc)
		}
	case 'o':
		for i, kv := range doc.O {
			*acc = append(*acc, site{doc, i, path + "." + kv.K, parentKey})
			if kv.K == "values" || kv.K == "variations" && isValueList(kv.V) {
				continue
			}
			sitesWithPath(kv.V, kv.K, path+"."+kv.K, acc)
		}
	}
}

func nullable(s site) bool {
	k := s.obj.O[s.idx].K
	switch k {
	case "prerequisites", "targets", "contextTargets", "rules", "clauses", "values", "included", "excluded",
		"includedContexts", "excludedContexts", "offVariation", "rollout", "seed", "bucketBy", "attribute",
		"generation", "debugEventsUntilDate", "clientSideAvailability":
		return true
	case "variations":
		return s.parentKey != "rollout" // the one exception: a rollout's variations
	case "variation": // the optional variation of a rule / fallthrough (not a prerequisite's, target's or bucket's index)
		return s.obj.Get("clauses") != nil || s.parentKey == "fallthrough"
	case "weight": // a segment rule's weight
		return s.obj.Get("clauses") != nil
	}
	return false
}

func isDefault(v *J) bool {
	switch v.K {
	case 'b':
		return !v.B
	case 'd':
		return v.N == 0
	case 's':
		return v.S == ""
	case 'a':
		return len(v.A) == 0
	}
	return false
}

// leniency: property order, unknown properties, omitted = default, null = omission (C17's second sentence),
// checked on the implementation pairwise (the model-side statements are theorems).
func leniency(root *Rng, p *Profile, res *Result, n int) {
	viol := func(what string, a, b *J) {
		res.Violations = append(res.Violations, Disagreement{What: what, Predicate: what,
			Case: map[string]interface{}{"document_a": a.Text(), "document_b": b.Text()}})
	}
	for i := 0; i < n; i++ {
		r := root.Fork()
		isFlag := i%3 != 2
		base := cleanDoc(r, p, isFlag)
		v0, err := decodeAny(isFlag, []byte(base.Text()))
		if err != nil {
			res.Distribution["leniency_base_rejected"]++
			continue
		}
		res.Evaluations++
		switch i % 3 {
		case 0: // permutation + unknown properties at any depth
			d := base.Clone()
			w := &World{r: r, p: p}
			var rec func(x *J)
			rec = func(x *J) {
				for _, a := range x.A {
					rec(a)
				}
				if x.K == 'o' {
					for j, kv := range x.O {
						if kv.K == "values" || kv.K == "variations" && isValueList(kv.V) {
							continue
						}
						rec(x.O[j].V)
					}
					for a := len(x.O) - 1; a > 0; a-- {
						b := r.Intn(a + 1)
						x.O[a], x.O[b] = x.O[b], x.O[a]
					}
					if r.P(0.4) {
						pos := r.Intn(len(x.O) + 1)
						kv := KV{r.Pick([]string{"unknownProp", "_x", "Key", "extra", "Values"}), w.anyValue(0)}
						x.O = append(x.O[:pos:pos], append([]KV{kv}, x.O[pos:]...)...)
					}
				}
			}
			rec(d)
			v1, err := decodeAny(isFlag, []byte(d.Text()))
			res.Distribution["leniency_permute_unknown"]++
			if err != nil || !reflect.DeepEqual(v0, v1) {
				viol("permuting properties / inserting unknown properties changed the decoded value", base, d)
			} else {
				res.DistinctNontrivial++
			}
		case 1: // null means omission
			var ss []site
			sitesWithPath(base, "", "", &ss)
			var cands []site
			for _, s := range ss {
				if nullable(s) {
					cands = append(cands, s)
				}
			}
			if len(cands) == 0 {
				continue
			}
			s := cands[r.Intn(len(cands))]
			key := s.obj.O[s.idx].K
			saved := s.obj.O
			s.obj.O = append([]KV(nil), saved...)
			s.obj.O[s.idx] = KV{key, JNull()}
			a := base.Clone()
			s.obj.O = append(append([]KV(nil), saved[:s.idx]...), saved[s.idx+1:]...)
			b := base.Clone()
			s.obj.O = saved
			va, ea := decodeAny(isFlag, []byte(a.Text()))
			vb, eb := decodeAny(isFlag, []byte(b.Text()))
			res.Distribution["leniency_null_"+key]++
			if ea != nil || eb != nil || !reflect.DeepEqual(va, vb) {
				viol("explicit null for "+s.path+" differs from omitting it", a, b)
			} else {
				res.DistinctNontrivial++
			}
		case 2: // omitted = default
			var ss []site
			sitesWithPath(base, "", "", &ss)
			var cands []site
			for _, s := range ss {
				kv := s.obj.O[s.idx]
				if kv.V.K == 'd' {
					// optional integers: their default is "undefined", not 0
					switch kv.K {
					case "generation", "offVariation", "seed", "samplingRatio", "checkRatio", "debugEventsUntilDate":
						continue
					case "variation":
						if s.obj.Get("clauses") != nil || s.parentKey == "fallthrough" {
							continue
						}
					case "weight":
						if s.obj.Get("clauses") != nil {
							continue
						}
					}
				}
				if isDefault(kv.V) {
					cands = append(cands, s)
				}
			}
			if len(cands) == 0 {
				continue
			}
			s := cands[r.Intn(len(cands))]
			saved := s.obj.O
			s.obj.O = append(append([]KV(nil), saved[:s.idx]...), saved[s.idx+1:]...)
			b := base.Clone()
			s.obj.O = saved
			vb, eb := decodeAny(isFlag, []byte(b.Text()))
			res.Distribution["leniency_omit_default"]++
			if eb != nil || !reflect.DeepEqual(v0, vb) {
				viol("omitting "+s.path+" (which had its default value) changed the decoded value", base, b)
			} else {
				res.DistinctNontrivial++
			}
		}
	}
}

const mutChars = "{}[],:\"\\ntf0-e.\x00\xff"

func mutateBytes(r *Rng, b []byte) []byte {
	out := append([]byte(nil), b...)
	for k := 0; k < r.Range(1, 3); k++ {
		if len(out) == 0 {
			break
		}
		switch r.Intn(6) {
		case 0:
			out = out[:r.Intn(len(out))]
		case 1:
			out[r.Intn(len(out))] = byte(r.Intn(256))
		case 2:
			i := r.Intn(len(out))
			out = append(out[:i:i], out[i+1:]...)
		case 3:
			i := r.Intn(len(out) + 1)
			out = append(out[:i:i], append([]byte{mutChars[r.Intn(len(mutChars))]}, out[i:]...)...)
		case 4:
			i, j := r.Intn(len(out)), r.Intn(len(out))
			out[i], out[j] = out[j], out[i]
		case 5:
			i := r.Intn(len(out))
			j := i + r.Intn(len(out)-i)
			out = append(out[:i:i], out[j:]...)
		}
	}
	return out
}

// byteMutants: arbitrary bytes never panic; an error comes with a zero value; the encoding/json hook leaves the
// destination untouched; an accepted value can be encoded again.
func byteMutants(root *Rng, p *Profile, res *Result, n int) {
	viol := func(what string, data []byte) {
		res.Violations = append(res.Violations, Disagreement{What: what, Predicate: what, Case: map[string]interface{}{"bytes": string(data), "bytes_quoted": fmt.Sprintf("%q", data)}})
	}
	sentinelF := ldmodel.FeatureFlag{Key: "sentinel", Version: 7, Salt: "keep"}
	sentinelS := ldmodel.Segment{Key: "sentinel", Version: 7, Salt: "keep"}
	for i := 0; i < n; i++ {
		r := root.Fork()
		isFlag := i%3 != 2
		var data []byte
		if r.P(0.1) {
			data = make([]byte, r.Intn(40))
			for j := range data {
				data[j] = byte(r.Intn(256))
			}
		} else {
			data = mutateBytes(r, []byte(cleanDoc(r, p, isFlag).Text()))
		}
		res.Evaluations++
		func() {
			defer func() {
				if x := recover(); x != nil {
					viol(fmt.Sprintf("decoder panicked: %v", x), data)
				}
			}()
			if isFlag {
				f, err := serialization.UnmarshalFeatureFlag(data)
				if err != nil {
					res.Distribution["mutant_rejected"]++
					if !reflect.DeepEqual(f, ldmodel.FeatureFlag{}) {
						viol("error returned together with a non-zero flag", data)
					}
					dest := sentinelF
					if json.Unmarshal(data, &dest) == nil {
						// encoding/json itself may accept less or more (trailing bytes); only the untouched-on-error part is claimed
					} else if !reflect.DeepEqual(dest, sentinelF) {
						viol("json.Unmarshal failed but modified its destination", data)
					}
				} else {
					res.Distribution["mutant_accepted"]++
					res.DistinctNontrivial++
					out, err := serialization.MarshalFeatureFlag(f)
					if err != nil || !json.Valid(out) {
						viol("accepted flag cannot be encoded again", data)
					}
				}
				rd := jreader.NewReader(data)
				_ = ldmodel.UnmarshalFeatureFlagFromJSONReader(&rd)
			} else {
				s, err := serialization.UnmarshalSegment(data)
				if err != nil {
					res.Distribution["mutant_rejected"]++
					if !reflect.DeepEqual(s, ldmodel.Segment{}) {
						viol("error returned together with a non-zero segment", data)
					}
					dest := sentinelS
					if json.Unmarshal(data, &dest) != nil && !reflect.DeepEqual(dest, sentinelS) {
						viol("json.Unmarshal failed but modified its destination", data)
					}
				} else {
					res.Distribution["mutant_accepted"]++
					res.DistinctNontrivial++
					out, err := serialization.MarshalSegment(s)
					if err != nil || !json.Valid(out) {
						viol("accepted segment cannot be encoded again", data)
					}
				}
				rd := jreader.NewReader(data)
				_ = ldmodel.UnmarshalSegmentFromJSONReader(&rd)
			}
		}()
	}
}

// validParts: what the schema can express (C15's builder clause): path-style references only with a context kind
func validPartsFlag(f ldmodel.FeatureFlag) bool {
	okClauses := func(cs []ldmodel.Clause) bool {
		for _, c := range cs {
			if c.Attribute.IsDefined() && c.Attribute.Err() != nil {
				return false
			}
		}
		return true
	}
	for _, r := range f.Rules {
		if !okClauses(r.Clauses) {
			return false
		}
		if r.Rollout.BucketBy.IsDefined() && r.Rollout.BucketBy.Err() != nil {
			return false
		}
	}
	if f.Fallthrough.Rollout.BucketBy.IsDefined() && f.Fallthrough.Rollout.BucketBy.Err() != nil {
		return false
	}
	// a rollout is a valid part only with at least one bucket (otherwise it must be entirely absent)
	emptyButSet := func(vr ldmodel.VariationOrRollout) bool {
		ro := vr.Rollout
		return len(ro.Variations) == 0 && (ro.Kind != "" || ro.ContextKind != "" || ro.BucketBy.IsDefined() || ro.Seed.IsDefined())
	}
	if emptyButSet(f.Fallthrough) {
		return false
	}
	for _, r := range f.Rules {
		if emptyButSet(r.VariationOrRollout) {
			return false
		}
	}
	return true
}

func builderRoundTrip(root *Rng, p *Profile, res *Result, n int) {
	for i := 0; i < n; i++ {
		r := root.Fork()
		isFlag := i%3 != 2
		doc := cleanDoc(r, p, isFlag)
		text := []byte(doc.Text())
		if isFlag {
			f0, err := serialization.UnmarshalFeatureFlag(text)
			if err != nil || !validPartsFlag(f0) {
				continue
			}
			v := flagViaBuilders(f0)
			enc, err := serialization.MarshalFeatureFlag(v)
			if err != nil {
				continue
			}
			back, err := serialization.UnmarshalFeatureFlag(enc)
			res.Evaluations++
			res.Distribution["builder_roundtrip"]++
			if err != nil || !reflect.DeepEqual(back, v) {
				what := "decode(encode(v)) is not deeply equal to the builder-constructed flag v"
				res.Violations = append(res.Violations, Disagreement{What: what, Predicate: what,
					Case: map[string]interface{}{"source_document": string(text), "encoded": string(enc), "first_difference": firstDiff(reflect.ValueOf(v), reflect.ValueOf(back), "v")}})
			} else {
				res.DistinctNontrivial++
			}
		} else {
			s0, err := serialization.UnmarshalSegment(text)
			if err != nil {
				continue
			}
			v := segmentViaBuilders(s0)
			enc, err := serialization.MarshalSegment(v)
			if err != nil {
				continue
			}
			back, err := serialization.UnmarshalSegment(enc)
			res.Evaluations++
			res.Distribution["builder_roundtrip"]++
			if err != nil || !reflect.DeepEqual(back, v) {
				what := "decode(encode(v)) is not deeply equal to the builder-constructed segment v"
				res.Violations = append(res.Violations, Disagreement{What: what, Predicate: what,
					Case: map[string]interface{}{"source_document": string(text), "encoded": string(enc), "first_difference": firstDiff(reflect.ValueOf(v), reflect.ValueOf(back), "v")}})
			} else {
				res.DistinctNontrivial++
			}
		}
	}
}

// firstDiff names the first place where two values differ under reflect.DeepEqual's notion of equality.
func firstDiff(a, b reflect.Value, path string) string {
	if !a.IsValid() || !b.IsValid() {
		if a.IsValid() != b.IsValid() {
			return path + ": one side invalid"
		}
		return ""
	}
	if a.Type() != b.Type() {
		return path + ": types differ"
	}
	switch a.Kind() {
	case reflect.Struct:
		for i := 0; i < a.NumField(); i++ {
			if d := firstDiff(a.Field(i), b.Field(i), path+"."+a.Type().Field(i).Name); d != "" {
				return d
			}
		}
		return ""
	case reflect.Slice:
		if a.IsNil() != b.IsNil() {
			return fmt.Sprintf("%s: nil slice vs empty slice (len %d / %d)", path, a.Len(), b.Len())
		}
		if a.Len() != b.Len() {
			return fmt.Sprintf("%s: lengths %d / %d", path, a.Len(), b.Len())
		}
		for i := 0; i < a.Len(); i++ {
			if d := firstDiff(a.Index(i), b.Index(i), fmt.Sprintf("%s[%d]", path, i)); d != "" {
				return d
			}
		}
		return ""
	case reflect.Map:
		if a.IsNil() != b.IsNil() {
			return path + ": nil map vs non-nil map"
		}
		if a.Len() != b.Len() {
			return path + ": map sizes differ"
		}
		return ""
	case reflect.Ptr, reflect.Interface:
		if a.IsNil() || b.IsNil() {
			if a.IsNil() != b.IsNil() {
				return path + ": nil vs non-nil"
			}
			return ""
		}
		return firstDiff(a.Elem(), b.Elem(), path)
	case reflect.String:
		if a.String() != b.String() {
			return fmt.Sprintf("%s: %q / %q", path, a.String(), b.String())
		}
	case reflect.Bool:
		if a.Bool() != b.Bool() {
			return path + ": bools differ"
		}
	case reflect.Int, reflect.Int64, reflect.Int8, reflect.Int32:
		if a.Int() != b.Int() {
			return fmt.Sprintf("%s: %d / %d", path, a.Int(), b.Int())
		}
	case reflect.Uint64, reflect.Uint8, reflect.Uint:
		if a.Uint() != b.Uint() {
			return fmt.Sprintf("%s: %d / %d", path, a.Uint(), b.Uint())
		}
	case reflect.Float64:
		if a.Float() != b.Float() {
			return fmt.Sprintf("%s: %v / %v", path, a.Float(), b.Float())
		}
	}
	return ""
}

package main

import (
	"bytes"
	"encoding/json"
	"fmt"
	"math"
	"math/big"
	"sort"
	"strconv"
	"strings"

	"github.com/launchdarkly/go-sdk-common/v3/ldvalue"
)

// J is an order-preserving JSON document tree (objects may carry duplicate names).
type J struct {
	K   byte // 'n' null, 'b' bool, 'd' number, 's' string, 'a' array, 'o' object
	B   bool
	N   float64
	Big *big.Int // exact integer text (only when parsed back from encoder output)
	S   string
	A   []*J
	O   []KV
}
type KV struct {
	K string
	V *J
}

func JNull() *J            { return &J{K: 'n'} }
func JBool(b bool) *J      { return &J{K: 'b', B: b} }
func JNum(f float64) *J    { return &J{K: 'd', N: f} }
func JInt(i int64) *J      { return &J{K: 'd', N: float64(i)} }
func JStr(s string) *J     { return &J{K: 's', S: s} }
func JArr(items ...*J) *J  { return &J{K: 'a', A: items} }
func JObj(kvs ...KV) *J    { return &J{K: 'o', O: kvs} }
func (j *J) Set(k string, v *J) *J {
	j.O = append(j.O, KV{k, v})
	return j
}
func (j *J) Get(k string) *J {
	for _, kv := range j.O {
		if kv.K == k {
			return kv.V
		}
	}
	return nil
}
func (j *J) Del(k string) {
	out := j.O[:0:0]
	for _, kv := range j.O {
		if kv.K != k {
			out = append(out, kv)
		}
	}
	j.O = out
}
func (j *J) Replace(k string, v *J) {
	for i := range j.O {
		if j.O[i].K == k {
			j.O[i].V = v
			return
		}
	}
	j.O = append(j.O, KV{k, v})
}
func (j *J) Clone() *J {
	if j == nil {
		return nil
	}
	c := *j
	if j.A != nil {
		c.A = make([]*J, len(j.A))
		for i, x := range j.A {
			c.A[i] = x.Clone()
		}
	}
	if j.O != nil {
		c.O = make([]KV, len(j.O))
		for i, kv := range j.O {
			c.O[i] = KV{kv.K, kv.V.Clone()}
		}
	}
	return &c
}

func numText(f float64) string {
	if f == 0 && math.Signbit(f) {
		return "-0.0"
	}
	if f == math.Trunc(f) && math.Abs(f) < 1e15 {
		return strconv.FormatInt(int64(f), 10)
	}
	s := strconv.FormatFloat(f, 'g', -1, 64)
	if !strings.ContainsAny(s, ".eE") {
		s += ".0"
	}
	return s
}

func (j *J) render(sb *bytes.Buffer) {
	switch j.K {
	case 'n':
		sb.WriteString("null")
	case 'b':
		if j.B {
			sb.WriteString("true")
		} else {
			sb.WriteString("false")
		}
	case 'd':
		if j.Big != nil {
			sb.WriteString(j.Big.String())
		} else {
			sb.WriteString(numText(j.N))
		}
	case 's':
		b, _ := json.Marshal(j.S)
		sb.Write(b)
	case 'a':
		sb.WriteByte('[')
		for i, x := range j.A {
			if i > 0 {
				sb.WriteByte(',')
			}
			x.render(sb)
		}
		sb.WriteByte(']')
	case 'o':
		sb.WriteByte('{')
		for i, kv := range j.O {
			if i > 0 {
				sb.WriteByte(',')
			}
			b, _ := json.Marshal(kv.K)
			sb.Write(b)
			sb.WriteByte(':')
			kv.V.render(sb)
		}
		sb.WriteByte('}')
	}
}
func (j *J) Text() string {
	var sb bytes.Buffer
	j.render(&sb)
	return sb.String()
}

// Wire form of a JSON value (Wire.v d_jv / e_jv).
func (j *J) Wire() *T {
	switch j.K {
	case 'n':
		return L(A(0))
	case 'b':
		return L(A(1), Ab(j.B))
	case 'd':
		var m *big.Int
		var e int64
		if j.Big != nil {
			m, e = dyNormBig(j.Big, 0)
		} else {
			m, e = dyOfFloat(j.N)
		}
		return L(A(2), AZbig(m), AZ(e))
	case 's':
		return L(A(3), S(j.S))
	case 'a':
		items := make([]*T, len(j.A))
		for i, x := range j.A {
			items[i] = x.Wire()
		}
		return L(A(4), LL(items))
	case 'o':
		items := make([]*T, len(j.O))
		for i, kv := range j.O {
			items[i] = L(S(kv.K), kv.V.Wire())
		}
		return L(A(5), LL(items))
	}
	return L(A(0))
}

// FromLdvalue converts an ldvalue to the tree (object keys sorted: ldvalue objects are unordered maps).
func FromLdvalue(v ldvalue.Value) *J {
	switch v.Type() {
	case ldvalue.NullType:
		return JNull()
	case ldvalue.BoolType:
		return JBool(v.BoolValue())
	case ldvalue.NumberType:
		return JNum(v.Float64Value())
	case ldvalue.StringType:
		return JStr(v.StringValue())
	case ldvalue.ArrayType:
		out := &J{K: 'a', A: []*J{}}
		for i := 0; i < v.Count(); i++ {
			out.A = append(out.A, FromLdvalue(v.GetByIndex(i)))
		}
		return out
	case ldvalue.ObjectType:
		keys := v.Keys(nil)
		sort.Strings(keys)
		out := &J{K: 'o', O: []KV{}}
		for _, k := range keys {
			out.O = append(out.O, KV{k, FromLdvalue(v.GetByKey(k))})
		}
		return out
	}
	return JNull()
}

func (j *J) ToLdvalue() ldvalue.Value {
	switch j.K {
	case 'b':
		return ldvalue.Bool(j.B)
	case 'd':
		return ldvalue.Float64(j.N)
	case 's':
		return ldvalue.String(j.S)
	case 'a':
		b := ldvalue.ArrayBuild()
		for _, x := range j.A {
			b.Add(x.ToLdvalue())
		}
		return b.Build()
	case 'o':
		b := ldvalue.ObjectBuild()
		for _, kv := range j.O {
			b.Set(kv.K, kv.V.ToLdvalue())
		}
		return b.Build()
	}
	return ldvalue.Null()
}

// sortKeys returns a copy with object keys sorted recursively inside value positions
func (j *J) SortedValue() *J {
	c := j.Clone()
	var rec func(x *J)
	rec = func(x *J) {
		for _, a := range x.A {
			rec(a)
		}
		if x.K == 'o' {
			sort.SliceStable(x.O, func(a, b int) bool { return x.O[a].K < x.O[b].K })
			for _, kv := range x.O {
				rec(kv.V)
			}
		}
	}
	rec(c)
	return c
}

// ParseJSON parses text with encoding/json's tokenizer, preserving property order and duplicates;
// integer literals are kept exactly.
func ParseJSON(data []byte) (*J, error) {
	dec := json.NewDecoder(bytes.NewReader(data))
	dec.UseNumber()
	v, err := parseValue(dec)
	if err != nil {
		return nil, err
	}
	if _, err := dec.Token(); err == nil {
		return nil, fmt.Errorf("trailing data")
	}
	return v, nil
}

func parseValue(dec *json.Decoder) (*J, error) {
	tok, err := dec.Token()
	if err != nil {
		return nil, err
	}
	return parseFromToken(dec, tok)
}

func parseFromToken(dec *json.Decoder, tok json.Token) (*J, error) {
	switch t := tok.(type) {
	case nil:
		return JNull(), nil
	case bool:
		return JBool(t), nil
	case json.Number:
		s := t.String()
		if !strings.ContainsAny(s, ".eE") {
			if b, ok := new(big.Int).SetString(s, 10); ok {
				f, _ := new(big.Float).SetInt(b).Float64()
				return &J{K: 'd', N: f, Big: b}, nil
			}
		}
		f, err := t.Float64()
		if err != nil {
			return nil, err
		}
		return JNum(f), nil
	case string:
		return JStr(t), nil
	case json.Delim:
		switch t {
		case '[':
			out := &J{K: 'a', A: []*J{}}
			for dec.More() {
				x, err := parseValue(dec)
				if err != nil {
					return nil, err
				}
				out.A = append(out.A, x)
			}
			if _, err := dec.Token(); err != nil {
				return nil, err
			}
			return out, nil
		case '{':
			out := &J{K: 'o', O: []KV{}}
			for dec.More() {
				kt, err := dec.Token()
				if err != nil {
					return nil, err
				}
				k, ok := kt.(string)
				if !ok {
					return nil, fmt.Errorf("bad key")
				}
				x, err := parseValue(dec)
				if err != nil {
					return nil, err
				}
				out.O = append(out.O, KV{k, x})
			}
			if _, err := dec.Token(); err != nil {
				return nil, err
			}
			return out, nil
		}
	}
	return nil, fmt.Errorf("unexpected token %v", tok)
}

package main

import (
	"sync"
	"runtime"
	"bufio"
	"runtime/debug"
	"crypto/sha1"
	"encoding/hex"
	"encoding/json"
	"flag"
	"fmt"
	"os"
	"os/exec"
	"path/filepath"
	"strings"
)

type Disagreement struct {
	Index     int         `json:"index"`
	What      string      `json:"what"`
	Go        string      `json:"impl"`
	Model     string      `json:"model"`
	GoProj    string      `json:"impl_projection"`
	ModelProj string      `json:"model_projection"`
	Case      interface{} `json:"case"`
	WireLine  string      `json:"wire_case"`
	Predicate string      `json:"predicate_failed,omitempty"`
	Shrunk    interface{} `json:"minimised,omitempty"`
}

type Result struct {
	Prop               string            `json:"prop"`
	Mode               string            `json:"mode"`
	Seed               uint64            `json:"seed"`
	Evaluations        int               `json:"evaluations"`
	DistinctNontrivial int               `json:"distinct_nontrivial"`
	Rule               string            `json:"rule"`
	Distribution       map[string]int    `json:"distribution"`
	Samples            []interface{}     `json:"samples"`
	Disagreements      []Disagreement    `json:"disagreements"`
	Violations         []Disagreement    `json:"violations"`
	KernelCases        int               `json:"kernel_cases"`
	Notes              []string          `json:"notes,omitempty"`
	Extra              map[string]interface{} `json:"extra,omitempty"`
}

// runDriver feeds the cases to the extracted model, one per line. The lines are independent, so large batches are split
// over several driver processes.
func runDriver(driver string, lines []string, dir, name string) ([]string, error) {
	parts := 1
	if len(lines) >= 400 {
		parts = runtime.NumCPU()
		if parts > 8 {
			parts = 8
		}
	}
	if parts <= 1 {
		return runDriverOne(driver, lines, dir, name)
	}
	outs := make([][]string, parts)
	errs := make([]error, parts)
	var wg sync.WaitGroup
	per := (len(lines) + parts - 1) / parts
	for k := 0; k < parts; k++ {
		lo, hi := k*per, (k+1)*per
		if lo > len(lines) {
			lo = len(lines)
		}
		if hi > len(lines) {
			hi = len(lines)
		}
		wg.Add(1)
		go func(k, lo, hi int) {
			defer wg.Done()
			outs[k], errs[k] = runDriverOne(driver, lines[lo:hi], dir, fmt.Sprintf("%s-%d", name, k))
		}(k, lo, hi)
	}
	wg.Wait()
	var all []string
	for k := 0; k < parts; k++ {
		if errs[k] != nil {
			return nil, errs[k]
		}
		all = append(all, outs[k]...)
	}
	return all, nil
}

func runDriverOne(driver string, lines []string, dir, name string) ([]string, error) {
	in := filepath.Join(dir, name+".cases")
	f, err := os.Create(in)
	if err != nil {
		return nil, err
	}
	w := bufio.NewWriterSize(f, 1<<20)
	for _, l := range lines {
		w.WriteString(l)
		w.WriteByte('\n')
	}
	w.Flush()
	f.Close()
	inf, _ := os.Open(in)
	defer inf.Close()
	cmd := exec.Command(driver)
	cmd.Stdin = inf
	cmd.Stderr = os.Stderr
	outb, err := cmd.Output()
	if err != nil {
		return nil, fmt.Errorf("driver: %v", err)
	}
	out := strings.Split(strings.TrimRight(string(outb), "\n"), "\n")
	if len(lines) == 0 {
		out = nil
	}
	if len(out) != len(lines) {
		return nil, fmt.Errorf("driver returned %d lines for %d cases", len(out), len(lines))
	}
	return out, nil
}

func hashLine(s string) string {
	h := sha1.Sum([]byte(s))
	return hex.EncodeToString(h[:8])
}

func describeCase(c *EvalCase) interface{} {
	items := func(its []Item) []interface{} {
		out := []interface{}{}
		for _, it := range its {
			out = append(out, map[string]interface{}{"key": it.Key, "form": it.Form, "json": json.RawMessage(it.Doc.Text())})
		}
		return out
	}
	ctx := buildContext(c.Ctx)
	ctxDesc := "invalid: " + fmt.Sprint(ctx.Err())
	if ctx.Err() == nil {
		ctxDesc = ctx.String()
		for _, sp := range c.Ctx.Singles {
			if sp.Secondary != nil {
				ctxDesc += fmt.Sprintf(" (legacy user, secondary=%q)", *sp.Secondary)
			}
		}
	}
	// the same layout as corpus/eval-*.json, so a replay file's case can be copied into the corpus by hand
	return map[string]interface{}{
		"secondaryKey": c.Secondary, "logger": c.Logger, "recorder": c.Recorder, "nilLoggerOption": c.NilLoggerOption, "nilOptionFirst": c.NilOptionFirst,
		"flag":        map[string]interface{}{"key": c.Top.Key, "form": c.Top.Form, "json": json.RawMessage(c.Top.Doc.Text())},
		"store_flags": items(c.Flags), "store_segments": items(c.Segs),
		"big_segment_provider": c.Prov, "context": ctxDesc, "context_spec": c.Ctx,
	}
}

func writeJSON(path string, v interface{}) {
	b, _ := json.MarshalIndent(v, "", " ")
	os.WriteFile(path, b, 0o644)
}

func main() {
	if len(os.Args) >= 2 && os.Args[1] == "deepnest" {
		cmdDeepNest(os.Args[2:])
		return
	}
	debug.SetMaxStack(256 << 20) // a runaway recursion in the library fails fast instead of eating 1 GB
	if len(os.Args) < 2 {
		fmt.Println("usage: harness <eval|codec|micro|history|race|c14|c20|replay> ...")
		os.Exit(2)
	}
	cmd := os.Args[1]
	fs := flag.NewFlagSet(cmd, flag.ExitOnError)
	prop := fs.String("prop", "C02", "property id")
	n := fs.Int("n", 1000, "number of generated cases")
	seed := fs.Uint64("seed", 1, "seed")
	driver := fs.String("driver", "", "path of the extracted model driver")
	out := fs.String("out", ".", "output directory")
	corpus := fs.String("corpus", "", "corpus directory")
	replay := fs.String("replay", "", "replay file")
	secs := fs.Int("secs", 20, "duration for time-bounded runs")
	fs.Parse(os.Args[2:])
	os.MkdirAll(*out, 0o755)
	var res *Result
	var err error
	switch cmd {
	case "eval":
		res, err = cmdEval(*prop, *n, *seed, *driver, *out, *corpus)
	case "micro":
		res, err = cmdMicro(*prop, *n, *seed, *driver, *out, "")
	case "builders":
		res, err = cmdMicro(*prop, *n, *seed, *driver, *out, "builders")
	case "codec":
		res, err = cmdCodec(*prop, *n, *seed, *driver, *out)
	case "forms":
		res, err = cmdForms(*prop, *n, *seed, *driver, *out, *corpus)
	case "perturb":
		res, err = cmdPerturb(*prop, *n, *seed, *driver, *out)
	case "history":
		res, err = cmdHistory(*prop, *n, *seed, *driver, *out)
	case "race":
		res, err = cmdRace(*prop, *n, *seed, *secs, *out)
	case "replay":
		err = cmdReplay(*replay, *driver, *out, *prop)
		if err != nil {
			fmt.Fprintln(os.Stderr, "error:", err)
			os.Exit(3)
		}
		return
	default:
		fmt.Fprintln(os.Stderr, "unknown command", cmd)
		os.Exit(2)
	}
	if err != nil {
		fmt.Fprintln(os.Stderr, "error:", err)
		os.Exit(3)
	}
	writeJSON(filepath.Join(*out, "result.json"), res)
	fmt.Printf("prop=%s mode=%s evaluations=%d nontrivial=%d disagreements=%d violations=%d\n", res.Prop, res.Mode,
		res.Evaluations, res.DistinctNontrivial, len(res.Disagreements), len(res.Violations))
}

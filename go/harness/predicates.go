package main

import (
	"strings"
	"fmt"
)

// implPredicate evaluates the property's own statement on the implementation's observed output.
// "" = holds (or the property has no output-only formulation); otherwise the clause that failed.
func implPredicate(prop string, c *EvalCase, o *Out) string {
	if o.Status == 98 {
		return ""
	}
	switch prop {
	case "C01", "C10":
		if o.Status == 2 {
			return "evaluation panicked"
		}
		if o.Status == 3 {
			return "evaluation did not terminate"
		}
	}
	if o.Status != 1 {
		return ""
	}
	switch prop {
	case "C01":
		top, err := makeFlag(c.Top)
		if err != nil {
			return ""
		}
		hasIdx := len(o.Index.L) > 0
		null := o.Value.tag() == 0
		if c.Ctx.Invalid != 0 || buildContext(c.Ctx).Err() != nil {
			if !(o.RTag == 6 && o.ErrKind == 2 && !hasIdx && null) {
				return "invalid context did not yield USER_NOT_SPECIFIED"
			}
			if len(o.Trace) != 0 {
				return "invalid context consulted the data store"
			}
			return ""
		}
		if hasIdx {
			i := o.Index.L[0].atomZ().Int64()
			if i < 0 || int(i) >= len(top.Variations) {
				return "variation index out of range"
			}
			if FromLdvalue(top.Variations[i]).SortedValue().Wire().String() != o.Value.String() {
				return "value is not the indexed variation"
			}
			if o.RTag == 6 {
				return "index together with an error reason"
			}
			return ""
		}
		if !null {
			return "no index but non-null value"
		}
		switch o.RTag {
		case 6:
			if o.ErrKind == 2 {
				return "USER_NOT_SPECIFIED for a valid context"
			}
			if o.ErrKind != 1 {
				return fmt.Sprintf("error kind %d is neither MALFORMED_FLAG nor USER_NOT_SPECIFIED", o.ErrKind)
			}
		case 1, 5:
			if top.OffVariation.IsDefined() {
				return "OFF/PREREQUISITE_FAILED without index although an off variation is defined"
			}
		default:
			return "no index with a non-error, non-off reason"
		}
	case "C08":
		top, err := makeFlag(c.Top)
		if err != nil {
			return ""
		}
		want := o.InExp
		switch o.RTag {
		case 2:
			want = want || top.TrackEventsFallthrough
		case 4:
			i := o.RKind.at(1).atomZ().Int64()
			if i >= 0 && int(i) < len(top.Rules) {
				want = want || top.Rules[i].TrackEvents
			}
		default:
			if o.InExp {
				return "in-experiment on an off/target/prerequisite/error result"
			}
			want = false
		}
		if o.IsExp != want {
			return "IsExperiment differs from its defining formula"
		}
	case "C10":
		if o.RTag == 6 && o.ErrKind != 1 && o.ErrKind != 2 {
			return "error kind other than MALFORMED_FLAG"
		}
	case "C11":
		seen := map[string]bool{}
		for _, x := range o.Trace {
			if x.tag() == 3 {
				k := string(x.at(1).S)
				if seen[k] {
					return "big segment store queried twice for context key " + k
				}
				seen[k] = true
			}
		}
	case "C19":
		logs := 0
		for _, x := range o.Trace {
			if x.tag() == 5 {
				logs++
				if x.at(2).tag() == 50 {
					// not the wording the strict parser knows: the line must still name a flag of the case and a recognisable problem
					knownFlagKeys = flagKeysOf(c)
					if cl := coarseLog(x); strings.HasPrefix(cl, "?:") || strings.HasSuffix(cl, ":unknown") {
						return "log line that names no known flag or no recognisable problem: " + x.String()
					}
				}
			}
		}
		if o.RTag == 6 && o.ErrKind == 1 && c.Logger && logs == 0 {
			return "MALFORMED_FLAG with a logger configured but nothing logged"
		}
		if !c.Logger && logs > 0 {
			return "log output without a logger"
		}
	}
	return ""
}

package main

import (
	"bytes"
	"encoding/json"
	"fmt"
	"os"
	"strconv"

	"github.com/launchdarkly/go-jsonstream/v3/jreader"
	"github.com/launchdarkly/go-server-sdk-evaluation/v3/ldmodel"
)

// deepnest: decode one document whose only unusual feature is the nesting depth of one JSON value. Run by bin/check in a
// subprocess of its own with the Go runtime's default stack limit, because the failure it looks for ("fatal error: stack
// overflow", which no recover() can intercept) kills the process. One line of output when the decoder returns.
func cmdDeepNest(args []string) {
	if len(args) < 3 {
		fmt.Println("usage: harness deepnest <flag|segment|stdflag|readerflag|readersegment> <variations|clausevalues|unknown|unknownobj> <depth>")
		os.Exit(2)
	}
	kind, shape := args[0], args[1]
	depth, _ := strconv.Atoi(args[2])
	var b bytes.Buffer
	open := func(c string) { b.WriteString(c) }
	nest := func(o, c string) {
		for i := 0; i < depth; i++ {
			b.WriteString(o)
		}
		for i := 0; i < depth; i++ {
			b.WriteString(c)
		}
	}
	switch shape {
	case "variations":
		open(`{"key":"f","variations":[`)
		nest("[", "]")
		open(`]}`)
	case "clausevalues":
		open(`{"key":"f","rules":[{"clauses":[{"attribute":"a","op":"in","values":[`)
		nest("[", "]")
		open(`]}]}]}`)
	case "unknown":
		open(`{"key":"f","zzUnknown":`)
		nest("[", "]")
		open(`}`)
	case "unknownobj":
		open(`{"key":"f","zzUnknown":`)
		for i := 0; i < depth; i++ {
			b.WriteString(`{"a":`)
		}
		b.WriteString("1")
		for i := 0; i < depth; i++ {
			b.WriteString("}")
		}
		open(`}`)
	default:
		fmt.Println("unknown shape")
		os.Exit(2)
	}
	var err error
	switch kind {
	case "segment": // the SDK's own entry point: jreader directly over the bytes
		_, err = ldmodel.NewJSONDataModelSerialization().UnmarshalSegment(b.Bytes())
	case "flag":
		_, err = ldmodel.NewJSONDataModelSerialization().UnmarshalFeatureFlag(b.Bytes())
	case "stdflag": // encoding/json hook: the standard library validates (and bounds the depth of) the text first
		var f ldmodel.FeatureFlag
		err = json.Unmarshal(b.Bytes(), &f)
	case "readerflag": // the streaming entry point: the caller's jreader.Reader over the same bytes
		r := jreader.NewReader(b.Bytes())
		_ = ldmodel.UnmarshalFeatureFlagFromJSONReader(&r)
		err = r.Error()
	case "readersegment":
		r := jreader.NewReader(b.Bytes())
		_ = ldmodel.UnmarshalSegmentFromJSONReader(&r)
		err = r.Error()
	}
	fmt.Printf("deepnest kind=%s shape=%s depth=%d bytes=%d returned err=%v\n", kind, shape, depth, b.Len(), err != nil)
}

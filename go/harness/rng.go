package main

type Rng struct{ s uint64 }

func NewRng(seed uint64) *Rng { return &Rng{s: seed*0x9e3779b97f4a7c15 + 0x1234567} }
func (r *Rng) U64() uint64 {
	r.s += 0x9e3779b97f4a7c15
	z := r.s
	z = (z ^ (z >> 30)) * 0xbf58476d1ce4e5b9
	z = (z ^ (z >> 27)) * 0x94d049bb133111eb
	return z ^ (z >> 31)
}
func (r *Rng) Intn(n int) int {
	if n <= 0 {
		return 0
	}
	return int(r.U64() % uint64(n))
}
func (r *Rng) P(p float64) bool { return float64(r.U64()>>11)/float64(1<<53) < p }
func (r *Rng) Pick(xs []string) string { return xs[r.Intn(len(xs))] }
func (r *Rng) Range(lo, hi int) int { return lo + r.Intn(hi-lo+1) }
func (r *Rng) Fork() *Rng { return NewRng(r.U64()) }

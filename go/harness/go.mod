module verifharness

go 1.18

require (
	github.com/launchdarkly/go-jsonstream/v3 v3.1.0
	github.com/launchdarkly/go-sdk-common/v3 v3.1.0
	github.com/launchdarkly/go-semver v1.0.3
	github.com/launchdarkly/go-server-sdk-evaluation/v3 v3.0.0
	github.com/mailru/easyjson v0.7.7
)

require (
	github.com/josharian/intern v1.0.0 // indirect
	golang.org/x/exp v0.0.0-20220823124025-807a23277127 // indirect
)

replace github.com/launchdarkly/go-server-sdk-evaluation/v3 => /repo

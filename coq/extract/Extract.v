(* Extraction of the executable model. Only ExtrOcamlBasic's directives are used; N, Z, positive stay inductive. *)
Require Extraction.
Require ExtrOcamlBasic.
From LD Require Import Wire.
Extraction Language OCaml.
Extraction "model.ml" run_line.

(* C18 Timestamp operands denote the right instant *)
From LD Require Import Base F32 Data Scan Semver Time Model Ops TimeSpec TimeFull.

(* a rendered RFC 3339 UTC timestamp (years 0000-9999, T/t, Z/z, second 60 allowed) is parsed to the instant of its
   civil fields *)
Theorem C18_parse_render_utc : forall y mo d h mi sec tl zl,
  (0 <= y <= 9999 -> 1 <= mo <= 12 -> 1 <= d <= days_in_month y mo -> 0 <= h <= 23 -> 0 <= mi <= 59 -> 0 <= sec <= 60 ->
  (tl = 84%N \/ tl = 116%N) -> (zl = 90%N \/ zl = 122%N) ->
  parse_rfc3339 (render_utc y mo d h mi sec tl zl) = Some (civil_instant y mo d h mi sec))%Z.
Proof. exact parse_render_utc. Qed.
Print Assumptions C18_parse_render_utc.

(* the day count behind civil_instant is the proleptic Gregorian calendar: every month of every year from 0 on
   (one 400-year cycle evaluated by the kernel + 400-year periodicity of the formula) *)
Theorem C18_day_count_is_gregorian : forall y m,
  (0 <= y -> 1 <= m <= 12 ->
  let '(y', m') := next_month y m in days_from_civil y' m' 1 = days_from_civil y m 1 + days_in_month y m)%Z.
Proof. exact day_count_matches_calendar. Qed.
Print Assumptions C18_day_count_is_gregorian.
Theorem C18_epoch_anchor : days_from_civil 1970 1 1 = 0%Z.
Proof. exact epoch_anchor. Qed.
Print Assumptions C18_epoch_anchor.

Theorem C18_numeric : forall ms, (- two63 <= ms < two63)%Z -> value_to_time (JNum (dy_of_Z ms)) = Some (ms * 1000000)%Z.
Proof. exact millis_instant_int. Qed.
Print Assumptions C18_numeric.

Theorem C18_before_is_strict_order : forall c cv i tc tv,
  clause_time c i = Some tc -> value_to_time cv = Some tv -> date_op c cv i Z.ltb = (tv <? tc)%Z.
Proof. exact date_before_is_lt. Qed.
Print Assumptions C18_before_is_strict_order.
Theorem C18_after_is_strict_order : forall c cv i tc tv,
  clause_time c i = Some tc -> value_to_time cv = Some tv -> date_op c cv i (fun a b => (b <? a)%Z) = (tc <? tv)%Z.
Proof. exact date_after_is_gt. Qed.
Print Assumptions C18_after_is_strict_order.
Theorem C18_equal_instants_neither_before_nor_after : forall t, (t <? t)%Z = false.
Proof. exact equal_instants_neither. Qed.
Print Assumptions C18_equal_instants_neither_before_nor_after.

Theorem C18_interchangeable : forall c cv cv' i f,
  value_to_time cv = value_to_time cv' -> date_op c cv i f = date_op c cv' i f.
Proof. exact representation_irrelevant. Qed.
Print Assumptions C18_interchangeable.

Theorem C18_rejects_other_types : forall v,
  match v with JStr _ | JNum _ => False | _ => True end -> value_to_time v = None.
Proof. exact not_a_timestamp. Qed.
Print Assumptions C18_rejects_other_types.
Theorem C18_non_timestamp_never_matches : forall c cv i f, value_to_time cv = None -> date_op c cv i f = false.
Proof. exact invalid_operand_never_matches. Qed.
Print Assumptions C18_non_timestamp_never_matches.
Theorem C18_invalid_clause_value_never_matches : forall c cv i f, clause_time c i = None -> date_op c cv i f = false.
Proof. exact invalid_clause_value_never_matches. Qed.
Print Assumptions C18_invalid_clause_value_never_matches.

(* ---- every RFC 3339 spelling ----
   render_full writes year-month-day T/t hour:minute:second, an optional fraction of 1 to 9 digits, and Z/z or a numeric
   offset +hh:mm / -hh:mm; instant is the instant it denotes (days_from_civil is the Gregorian day count, the offset is
   subtracted, the fraction is scaled to nanoseconds). The scanner returns exactly that instant. *)
Theorem C18_parse_render_full : forall y mo d h mi sec tl fs z,
  (0 <= y <= 9999 -> 1 <= mo <= 12 -> 1 <= d <= days_in_month y mo -> 0 <= h <= 23 -> 0 <= mi <= 59 -> 0 <= sec <= 60 ->
   (tl = 84%N \/ tl = 116%N) -> Forall (fun x => 0 <= x <= 9) fs -> zlen fs <= 9 -> zone_ok z ->
   parse_rfc3339 (render_full y mo d h mi sec tl fs z) = Some (instant y mo d h mi sec fs z))%Z.
Proof. exact parse_render_full. Qed.
Print Assumptions C18_parse_render_full.
(* the same local time with an offset is the UTC instant shifted by that offset *)
Theorem C18_offset_shifts_instant : forall y mo d h mi sec tl fs minus oh om,
  (0 <= y <= 9999 -> 1 <= mo <= 12 -> 1 <= d <= days_in_month y mo -> 0 <= h <= 23 -> 0 <= mi <= 59 -> 0 <= sec <= 60 ->
   (tl = 84%N \/ tl = 116%N) -> Forall (fun x => 0 <= x <= 9) fs -> zlen fs <= 9 -> 0 <= oh <= 99 -> 0 <= om <= 59 ->
   exists t0, parse_rfc3339 (render_full y mo d h mi sec tl fs (ZU 90%N)) = Some t0 /\
              parse_rfc3339 (render_full y mo d h mi sec tl fs (ZOff minus oh om)) =
              Some (t0 + (if minus then 1 else -1) * ((om + oh * 60) * 60) * 1000000000))%Z.
Proof. exact offset_shifts_instant. Qed.
Print Assumptions C18_offset_shifts_instant.

(* ---- the defect found in the unchanged repository, as a kernel-checked refutation of the original code ---- *)
From LD Require Import Legacy.
Theorem C18_legacy_refuted :
  (instant_of_millis_legacy (dy_of_Z 253402300799000) < 0 /\
   instant_of_millis (dy_of_Z 253402300799000) = 253402300799000 * 1000000)%Z.
Proof. exact Legacy.C18_legacy_refuted. Qed.
Print Assumptions C18_legacy_refuted.

(* ---- the rejection half: the accepted strings are exactly the renderings of valid civil times ---- *)
From LD Require Import TimeAccept.
(* [is_timestamp s t]: s is, character for character, a 4-digit year, '-', 2-digit month 01..12, '-', a 2-digit day that
   the month has, 'T'/'t', an hour 0..23 of one or two digits, ':', 2-digit minute, ':', 2-digit second 00..60, an
   optional '.' with 1..9 digits, and 'Z'/'z' or '+'/'-' hh ':' mm (hh 00..99, mm 00..59); t is the instant it denotes *)
Theorem C18_accepts_exactly_the_timestamps : forall s t, parse_rfc3339 s = Some t <-> is_timestamp s t.
Proof. exact accepts_exactly_the_timestamps. Qed.
Print Assumptions C18_accepts_exactly_the_timestamps.

(* anything else -- a missing or garbled field, a truncated string, characters before or after -- never matches *)
Theorem C18_non_timestamp_string_never_matches : forall c s i f,
  (forall t, ~ is_timestamp s t) -> date_op c (JStr s) i f = false.
Proof. exact non_timestamp_never_matches. Qed.
Print Assumptions C18_non_timestamp_string_never_matches.

(* the original scanner accepted trailing characters after 'Z', a NUL / non-ASCII tail after an offset, and February 31 *)
Theorem C18_scanner_legacy_refuted :
  (parse_rfc3339_legacy ts_trailing = parse_rfc3339 (s "2020-01-01T00:00:00Z") /\ parse_rfc3339 ts_trailing = None) /\
  (parse_rfc3339_legacy ts_nonascii = parse_rfc3339 (s "2020-01-01T00:00:00+01:00") /\ parse_rfc3339 ts_nonascii = None) /\
  (parse_rfc3339_legacy ts_feb31 = parse_rfc3339 (s "2020-03-02T00:00:00Z") /\ parse_rfc3339 ts_feb31 = None) /\
  parse_rfc3339 (s "2020-01-01T00:00:00Z") <> None.
Proof. exact Legacy.C18_scanner_legacy_refuted. Qed.
Print Assumptions C18_scanner_legacy_refuted.

(* ---- the scanner of the model is the generic scanner instantiated with the tables the translator reads from
   ldmodel/parse_time.go on every run (field order, terminators, lengths, ranges, fraction limit) ---- *)
From LD Require Import TimeTables.
From LDGen Require Import Tables.
Theorem C18_scanner_uses_the_source_table : forall x,
  parse_rfc3339 x = parse_rfc3339_tab time_fields_src time_fraction_max_src x.
Proof. exact scanner_uses_the_source_table. Qed.
Print Assumptions C18_scanner_uses_the_source_table.
Theorem C18_terminators_match_source : forall name cs c,
  In (name, cs) time_terminators_src -> term_of name c = in_set c cs.
Proof. exact terminators_match_source. Qed.
Print Assumptions C18_terminators_match_source.

(* C07 Rollout variation selection is a stable, monotone partition (Flocq binary32) *)
From LD Require Import Base F32 Data Model Ops Bucket Eval EvalFacts F32Facts Rollout SegSpec.
From Flocq Require Import Core BinarySingleNaN.

Theorem C07_first_below : forall b sum wvs,
  scan_idx b sum wvs = find_index (fun t => f32_ltb b t) (thresholds sum wvs).
Proof. exact scan_first_below. Qed.
Print Assumptions C07_first_below.

Theorem C07_scan_is_that_bucket : forall b sum wvs,
  scan b sum wvs = match scan_idx b sum wvs with Some i => nth_error wvs i | None => None end.
Proof. exact scan_is_nth. Qed.
Print Assumptions C07_scan_is_that_bucket.

(* whatever the weights sum to, exactly one of the listed buckets is served *)
Theorem C07_one_of_listed : forall b wvs wv, chosen_bucket b wvs = Some wv -> In wv wvs.
Proof. exact chosen_bucket_in. Qed.
Print Assumptions C07_one_of_listed.

(* ... and there always is one: every context is served exactly one of the listed buckets, whatever the weights sum to;
   when no threshold exceeds the bucket value it is the last listed one *)
Theorem C07_exactly_one_bucket : forall b wvs, wvs <> [] -> exists wv, chosen_bucket b wvs = Some wv /\ In wv wvs.
Proof. exact chosen_bucket_exists. Qed.
Print Assumptions C07_exactly_one_bucket.
Theorem C07_fallback_is_last_bucket : forall b wvs, scan b f32_zero wvs = None -> chosen_bucket b wvs = last_opt wvs.
Proof. exact chosen_bucket_fallback. Qed.
Print Assumptions C07_fallback_is_last_bucket.

(* what the evaluator serves for a rollout or experiment is the variation of that bucket, for every bucket value; the only
   rollout that serves no bucket is the empty one (MALFORMED_FLAG) *)
Theorem C07_rollout_serves_chosen_bucket : forall o c vr key salt b fl,
  vr_var vr = None -> ro_vars (vr_rollout vr) <> [] ->
  compute_bucket (o_secondary o) c (is_experiment_rollout (vr_rollout vr)) (ro_seed (vr_rollout vr)) (ro_ctxkind (vr_rollout vr))
                 key (ro_bucket_by (vr_rollout vr)) salt = Ok (b, fl) ->
  exists wv inexp, chosen_bucket b (ro_vars (vr_rollout vr)) = Some wv /\
                   vr_result o c vr key salt = Done (Ok (wv_var wv, inexp)).
Proof. exact rollout_serves_chosen_bucket. Qed.
Print Assumptions C07_rollout_serves_chosen_bucket.
Theorem C07_empty_rollout_is_malformed : forall o c vr key salt,
  vr_var vr = None -> ro_vars (vr_rollout vr) = [] -> vr_result o c vr key salt = Done (Err EEmptyRollout).
Proof. exact empty_rollout_is_malformed. Qed.
Print Assumptions C07_empty_rollout_is_malformed.

Theorem C07_zero_weight_only_fallback : forall b sum wvs wv,
  f32_ltb b sum = false -> scan b sum wvs = Some wv -> wv_weight wv <> 0%Z.
Proof. exact zero_weight_not_scanned. Qed.
Print Assumptions C07_zero_weight_only_fallback.

Theorem C07_bucket_not_below_zero : forall input, f32_ltb (hash_to_bucket input) f32_zero = false.
Proof. exact bucket_nonneg. Qed.
Print Assumptions C07_bucket_not_below_zero.

Theorem C07_grow_keeps : forall b sum pre wv post wv' post',
  is_finite b = true -> is_finite sum = true ->
  sums_finite sum (pre ++ wv :: post) -> sums_finite sum (pre ++ wv' :: post') ->
  (wv_weight wv <= wv_weight wv')%Z ->
  scan_idx b sum (pre ++ wv :: post) = Some (List.length pre) ->
  scan_idx b sum (pre ++ wv' :: post') = Some (List.length pre).
Proof. exact grow_keeps. Qed.
Print Assumptions C07_grow_keeps.

Theorem C07_segment_weight_monotone : forall b w w',
  is_finite b = true -> small w -> small w' -> (w <= w')%Z ->
  f32_ltb b (weight_frac w) = true -> f32_ltb b (weight_frac w') = true.
Proof. exact segment_weight_monotone. Qed.
Print Assumptions C07_segment_weight_monotone.

Theorem C07_bucket_is_finite : forall input, is_finite (hash_to_bucket input) = true.
Proof. exact bucket_finite. Qed.
Print Assumptions C07_bucket_is_finite.

(* the hypotheses of C07_grow_keeps are satisfiable *)
Theorem C07_hypotheses_nonvacuous :
  sums_finite f32_zero [mkwvar 0 60000 false; mkwvar 1 0 false; mkwvar 2 40000 true].
Proof. exact sums_finite_example. Qed.
Print Assumptions C07_hypotheses_nonvacuous.

From LD Require Import Base F32 Data Model Ops Bucket Eval EvalFacts.
Theorem C07_scan_one_of_listed : forall b sum wvs wv, scan b sum wvs = Some wv -> In wv wvs.
Proof. exact scan_in. Qed.
Print Assumptions C07_scan_one_of_listed.

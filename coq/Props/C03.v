(* C03 Individual targeting semantics *)
From LD Require Import Base F32 Data Model Ops Bucket Eval EvalFacts Safety Codec Targets Pure Order.

(* lists are consulted in listed order; the first list that contains the context's key for its kind decides
   (stage order relative to rules is C02_target_overrides_rules) *)
Theorem C03_legacy_only : forall c f,
  f_ctargets f = [] -> any_target_match c f = first_some (target_match c) (f_targets f).
Proof. exact legacy_targets_only. Qed.
Print Assumptions C03_legacy_only.

Theorem C03_context_targets : forall c f,
  f_ctargets f <> [] -> any_target_match c f = first_some (entry_match c f) (f_ctargets f).
Proof. exact context_targets_in_order. Qed.
Print Assumptions C03_context_targets.

Theorem C03_first_in_listed_order : forall (A B : Type) (g : A -> option B) l b,
  first_some g l = Some b <->
  exists pre x post, l = pre ++ x :: post /\ Forall (fun y => g y = None) pre /\ g x = Some b.
Proof. exact @first_some_spec. Qed.
Print Assumptions C03_first_in_listed_order.

(* one list of kind K matches iff the context has an individual of kind K whose key is in the list, by exact
   string equality; with or without the precomputed key set *)
Theorem C03_list_membership : forall c t v,
  t_pre t = None \/ t_pre t = string_set (t_values t) ->
  (target_match c t = Some v <->
   v = t_var t /\ exists i, ctx_by_kind c (t_kind t) = Some i /\ In (c_key i) (t_values t)).
Proof. exact target_match_spec. Qed.
Print Assumptions C03_list_membership.

Theorem C03_kind_absent_never_matches : forall c t, ctx_by_kind c (t_kind t) = None -> target_match c t = None.
Proof. exact target_kind_absent. Qed.
Print Assumptions C03_kind_absent_never_matches.

(* a user-kind entry with no keys defers to the first user target list that has the same variation *)
Theorem C03_placeholder_defers : forall c ts v,
  fallback_target c ts v = match find (fun t1 => Z.eqb (t_var t1) v) ts with Some t1 => target_match c t1 | None => None end.
Proof. exact fallback_target_spec. Qed.
Print Assumptions C03_placeholder_defers.

(* ... and user target lists are otherwise not consulted: replacing them changes nothing *)
Theorem C03_user_lists_otherwise_ignored : forall c f ts',
  f_ctargets f <> [] -> forallb (fun t => negb (is_placeholder t)) (f_ctargets f) = true ->
  any_target_match c (mkflag (f_key f) (f_on f) (f_prereqs f) ts' (f_ctargets f) (f_rules f) (f_fallthrough f)
                             (f_off f) (f_vars f) (f_salt f) (f_track_ft f) (f_exclude f) (f_meta f))
  = any_target_match c f.
Proof. exact user_targets_not_consulted. Qed.
Print Assumptions C03_user_lists_otherwise_ignored.

Theorem C03_precomputed_equals_linear : forall k vs, find_key k vs (string_set vs) = find_key k vs None.
Proof. exact find_key_pre_eq_plain. Qed.
Print Assumptions C03_precomputed_equals_linear.

Theorem C03_exact_equality : forall k vs, find_key k vs None = true <-> In k vs.
Proof. exact find_key_plain. Qed.
Print Assumptions C03_exact_equality.

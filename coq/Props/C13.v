(* C13 Concurrent evaluations are safe and agree with sequential ones (partial: the Go memory model is not
   formalised).  (i) abstract schedule-independence for threads that write only private state (below);
   (ii) source level: gen/Effects.v, regenerated from the repository on every run, and the theorems of
   EffectsProof.v -- nothing reachable from Evaluate writes shared memory, starts goroutines or uses sync primitives;
   (iii) run time: N goroutines over one evaluator and shared data under the race detector. *)
From LD Require Import Base Interleave.

Theorem C13_interleave_independent : forall (Shared Priv : Type) (step : Shared -> Priv -> Priv) sh sched ts i,
  run_schedule Shared Priv step sh sched ts i = iter Priv (steps_of i sched) (step sh) (ts i).
Proof. exact interleave_independent. Qed.
Print Assumptions C13_interleave_independent.

Theorem C13_other_threads_unobservable : forall (Shared Priv : Type) (step : Shared -> Priv -> Priv) sh s1 s2 ts i,
  steps_of i s1 = steps_of i s2 ->
  run_schedule Shared Priv step sh s1 ts i = run_schedule Shared Priv step sh s2 ts i.
Proof. exact schedule_irrelevant. Qed.
Print Assumptions C13_other_threads_unobservable.

Theorem C13_concurrent_equals_sequential : forall (Shared Priv : Type) (step : Shared -> Priv -> Priv) sh sched ts i,
  run_schedule Shared Priv step sh sched ts i =
  run_schedule Shared Priv step sh (repeat i (steps_of i sched)) ts i.
Proof. exact concurrent_equals_sequential. Qed.
Print Assumptions C13_concurrent_equals_sequential.

(* ---- source level (gen/Effects.v is regenerated from the repository by the go/ssa translator on every run) ---- *)
From LD Require Import EffectsDefs EffectsProof.
From LDGen Require Import Effects.
From Coq Require Import String List.

Theorem C13_evaluate_writes_nothing_shared : forall n f e,
  Reach functions start n -> find_fn functions n = Some f -> In e (fn_effects f) -> write_ok e = true.
Proof. exact evaluate_writes_nothing_shared. Qed.
Print Assumptions C13_evaluate_writes_nothing_shared.

Theorem C13_no_goroutines_no_sync_primitives : forall n f e,
  Reach functions start n -> find_fn functions n = Some f -> In e (fn_effects f) -> no_concurrency e = true.
Proof. exact evaluate_no_concurrency_primitives. Qed.
Print Assumptions C13_no_goroutines_no_sync_primitives.

Theorem C13_external_calls_whitelisted : forall n f e,
  Reach functions start n -> find_fn functions n = Some f -> In e (fn_effects f) -> ext_in ext_whitelist e = true.
Proof. exact external_calls_whitelisted. Qed.
Print Assumptions C13_external_calls_whitelisted.

Theorem C13_interface_calls_whitelisted : forall n f e,
  Reach functions start n -> find_fn functions n = Some f -> In e (fn_effects f) ->
  iface_in iface_whitelist e = true /\ no_dyn_except dyn_whitelist e = true.
Proof. exact interface_calls_whitelisted. Qed.
Print Assumptions C13_interface_calls_whitelisted.

(* the reachability argument itself, for every call graph *)
Theorem C13_closed_set_contains_everything_reachable : forall fs seen start0,
  closed fs seen = true -> In start0 seen -> forall n, Reach fs start0 n -> In n seen.
Proof. exact closed_sound. Qed.
Print Assumptions C13_closed_set_contains_everything_reachable.

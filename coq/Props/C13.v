(* C13 Concurrent evaluations are safe and agree with sequential ones (partial: the Go memory model is not
   formalised).  (i) abstract schedule-independence for threads that write only private state (below);
   (ii) source level: gen/Effects.v, regenerated from the repository on every run, and the theorems of
   EffectsProof.v -- nothing reachable from Evaluate writes shared memory, starts goroutines or uses sync primitives;
   (iii) run time: N goroutines over one evaluator and shared data under the race detector. *)
From LD Require Import Base Interleave.

Theorem C13_interleave_independent : forall (Shared Priv : Type) (step : Shared -> Priv -> Priv) sh sched ts i,
  run_schedule Shared Priv step sh sched ts i = iter Priv (steps_of i sched) (step sh) (ts i).
Proof. exact interleave_independent. Qed.
Print Assumptions C13_interleave_independent.

Theorem C13_other_threads_unobservable : forall (Shared Priv : Type) (step : Shared -> Priv -> Priv) sh s1 s2 ts i,
  steps_of i s1 = steps_of i s2 ->
  run_schedule Shared Priv step sh s1 ts i = run_schedule Shared Priv step sh s2 ts i.
Proof. exact schedule_irrelevant. Qed.
Print Assumptions C13_other_threads_unobservable.

Theorem C13_concurrent_equals_sequential : forall (Shared Priv : Type) (step : Shared -> Priv -> Priv) sh sched ts i,
  run_schedule Shared Priv step sh sched ts i =
  run_schedule Shared Priv step sh (repeat i (steps_of i sched)) ts i.
Proof. exact concurrent_equals_sequential. Qed.
Print Assumptions C13_concurrent_equals_sequential.

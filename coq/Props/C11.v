(* C11 Big segment membership, status reporting and query economy *)
From LD Require Import Base F32 Data Model Ops Bucket Eval EvalFacts Safety WellFormed Pure Order Events Trace Status.

Theorem C11_reference_format : forall sg g, big_segment_ref sg g = sg_key sg ++ s ".g" ++ dec g.
Proof. exact big_segment_ref_format. Qed.
Print Assumptions C11_reference_format.

(* included is a match, excluded a non-match, no answer / nil membership / no provider falls through to the rules *)
Theorem C11_membership : forall re_ok re_match o E P c n chain sg g k,
  sg_unbounded sg = true -> mem_str (sg_key sg) chain = false -> sg_generation sg = Some g ->
  ctx_key_by_kind c (sg_unb_kind sg) = Some k ->
  p_seg re_ok re_match o E P c (S n) chain sg =
  match (match p_membership P k with Some mem => assoc (big_segment_ref sg g) mem | None => None end) with
  | Some included => Done (Ok included)
  | None => p_seg_rules (p_seg_rule re_ok re_match o E c (p_seg re_ok re_match o E P c n (chain ++ [sg_key sg])) sg)
                        (sg_key sg) (sg_rules sg)
  end.
Proof. exact p_seg_unbounded. Qed.
Print Assumptions C11_membership.

Theorem C11_lists_ignored : forall P c sg inc exc ic ec pi pe,
  sg_unbounded sg = true ->
  p_seg_early P c (mksegment (sg_key sg) inc exc ic ec (sg_salt sg) (sg_rules sg) (sg_unbounded sg) (sg_unb_kind sg)
                             (sg_version sg) (sg_generation sg) (sg_deleted sg) pi pe) = p_seg_early P c sg.
Proof. exact unbounded_ignores_lists. Qed.
Print Assumptions C11_lists_ignored.

Theorem C11_kind_absent_no_match_no_query : forall re_ok re_match o E P c n chain sg g st,
  sg_unbounded sg = true -> mem_str (sg_key sg) chain = false -> sg_generation sg = Some g ->
  ctx_key_by_kind c (sg_unb_kind sg) = None ->
  seg_contains re_ok re_match o E P c (S n) chain sg st =
  (Done (Ok false), mkst (s_cache st) (s_status st) (GUnbounded (sg_key sg) true false :: s_trace st)).
Proof. exact seg_kind_absent_no_query. Qed.
Print Assumptions C11_kind_absent_no_match_no_query.

Theorem C11_missing_generation_not_configured : forall re_ok re_match o E P c n chain sg st,
  sg_unbounded sg = true -> mem_str (sg_key sg) chain = false -> sg_generation sg = None ->
  seg_contains re_ok re_match o E P c (S n) chain sg st =
  (Done (Ok false), mkst (s_cache st) (Some NotConfigured) (GUnbounded (sg_key sg) false false :: s_trace st)).
Proof. exact seg_no_generation_status. Qed.
Print Assumptions C11_missing_generation_not_configured.

Theorem C11_status_order :
  (bs_priority NotConfigured > bs_priority StoreError /\ bs_priority StoreError > bs_priority Stale /\
   bs_priority Stale > bs_priority Healthy)%Z.
Proof. exact priority_order. Qed.
Print Assumptions C11_status_order.
Theorem C11_merge_keeps_worst : forall a b,
  merge_status (Some a) (Some b) = Some (if (bs_priority b <? bs_priority a)%Z then a else b).
Proof. exact merge_is_worst. Qed.
Print Assumptions C11_merge_keeps_worst.

(* within one evaluation (prerequisites included) the store is queried at most once per context key *)
Theorem C11_query_once : forall re_ok re_match o E P c f out,
  run re_ok re_match o E P c f = Done out -> NoDup (queries (out_trace out)).
Proof. exact queries_nodup. Qed.
Print Assumptions C11_query_once.

(* ---- the reported status ----
   contrib P x: what one observation of the evaluation contributes -- an unbounded segment without a generation, or one
   looked up for a context that has its kind when no provider is configured: NOT_CONFIGURED; a provider query: the status
   the provider answered; everything else (a context lacking the kind included): nothing. status_of folds the worst of
   them. The reason's status IS that fold over the whole evaluation, prerequisites included: reported iff something
   contributed, and never better than any contribution. *)
Theorem C11_reported_status_is_worst_seen : forall P re_ok re_match o E c f out,
  run re_ok re_match o E P c f = Done out ->
  rs_bigseg (d_reason (out_detail out)) = status_of P (rev (out_trace out)).
Proof. exact reported_status_is_worst_seen. Qed.
Print Assumptions C11_reported_status_is_worst_seen.
Theorem C11_status_reported_iff : forall P tr, status_of P tr <> None <-> exists x, In x tr /\ contrib P x <> None.
Proof. exact status_reported_iff. Qed.
Print Assumptions C11_status_reported_iff.
Theorem C11_status_is_upper_bound : forall P tr x b, In x tr -> contrib P x = Some b ->
  exists w, status_of P tr = Some w /\ (bs_priority b <= bs_priority w)%Z.
Proof. exact status_is_upper_bound. Qed.
Print Assumptions C11_status_is_upper_bound.
(* holds for every nested evaluation too, from any state in which register and trace agree *)
Theorem C11_status_register_tracks_the_trace : forall P re_ok re_match o E c fuel chain f s,
  sync P s -> sync P (snd (eval_flag re_ok re_match o E P c fuel chain f s)).
Proof. exact sync_eval_flag. Qed.
Print Assumptions C11_status_register_tracks_the_trace.

(* the priority table of the source (gen/Tables.v, regenerated on every run) is the model's *)
From LD Require Import TablesStatus.
From LDGen Require Import Tables.
From Coq Require Import String.
Theorem C11_status_priorities_match_source :
  status_priorities = [("BigSegmentsStale", bs_priority Stale); ("BigSegmentsStoreError", bs_priority StoreError);
                       ("BigSegmentsNotConfigured", bs_priority NotConfigured)]%string
  /\ status_priority_default = bs_priority Healthy.
Proof. exact status_priorities_match_source. Qed.
Print Assumptions C11_status_priorities_match_source.

(* ---- the defect found in the unchanged repository, as a kernel-checked refutation of the original code ---- *)
From LD Require Import Legacy.
Theorem C11_legacy_refuted :
  nqueries (snd (eval_flag_legacy store11 prov11 (CSingle user_a) 4 [] (mkbf (s "f0") [mkprereq (s "f1") 1]) st0)) = 2%nat /\
  nqueries (snd (eval_flag (fun _ => false) (fun _ _ => false) no_opts store11 prov11 (CSingle user_a) 4 []
                   (mkbf (s "f0") [mkprereq (s "f1") 1]) st0)) = 1%nat.
Proof. exact Legacy.C11_legacy_refuted. Qed.
Print Assumptions C11_legacy_refuted.

(* C15 JSON round-trip fidelity of flags and segments (document-tree level; integers within the int64 range, which
   every decoded integer is; number text <-> float64 is outside the model) *)
From LD Require Import Base F32 Data Model Ops Bucket Eval Codec CodecFacts CodecRT DecodeWF PrepEval DecodePlain TransEval RoundTripEval.

(* decode (encode v) returns the canonical form of v: lookup data dropped, a rollout without buckets dropped,
   legacy client-side flags normalised *)
Theorem C15_decode_encode_flag : forall f, wf_flag f -> decode_flag (encode_flag f) = Some (canon_flag f).
Proof. exact decode_encode_flag. Qed.
Print Assumptions C15_decode_encode_flag.
Theorem C15_decode_encode_segment : forall sg, wf_segment sg -> decode_segment (encode_segment sg) = Some (canon_segment sg).
Proof. exact decode_encode_segment. Qed.
Print Assumptions C15_decode_encode_segment.

(* a fixed point after one step: same JSON, and decoding it again gives the same value *)
Theorem C15_flag_fixed_point : forall f1, wf_flag f1 ->
  exists f2, decode_flag (encode_flag f1) = Some f2 /\ encode_flag f2 = encode_flag f1 /\
             decode_flag (encode_flag f2) = Some f2.
Proof. exact flag_fixed_point_after_one_step. Qed.
Print Assumptions C15_flag_fixed_point.
Theorem C15_segment_fixed_point : forall s1, wf_segment s1 ->
  exists s2, decode_segment (encode_segment s1) = Some s2 /\ encode_segment s2 = encode_segment s1 /\
             decode_segment (encode_segment s2) = Some s2.
Proof. exact segment_fixed_point_after_one_step. Qed.
Print Assumptions C15_segment_fixed_point.

(* values built from valid parts (no precomputed data in the value, rollouts absent or non-empty): returned exactly *)
Theorem C15_builder_round_trip : forall f, wf_flag f -> exact_flag f -> decode_flag (encode_flag f) = Some f.
Proof. exact builder_value_round_trip. Qed.
Print Assumptions C15_builder_round_trip.

(* attribute names vs path references: every reference the decoder builds (a literal name without a context kind, a
   path with one, undefined for "" / null) is written back as the string that rebuilds it *)
Theorem C15_attribute_references_survive : forall v kind, ref_rt (attr_name_or_ref v kind) kind.
Proof. exact decoder_refs_are_stable. Qed.
Print Assumptions C15_attribute_references_survive.

(* optional integers, rollout kind / seed / bucket-by / untracked, per-kind target lists *)
Theorem C15_rollout_round_trip : forall ro, wf_rollout ro -> rd_rollout (enc_rollout ro) rollout0 = Some ro.
Proof. exact rt_rollout. Qed.
Print Assumptions C15_rollout_round_trip.
Theorem C15_target_round_trip : forall t, in64 (t_var t) -> rd_target (enc_target t) = Some (canon_target t).
Proof. exact rt_target. Qed.
Print Assumptions C15_target_round_trip.
Theorem C15_clause_round_trip : forall c, ref_rt (cl_attr c) (cl_kind c) -> rd_clause (enc_clause c) = Some (canon_clause c).
Proof. exact rt_clause. Qed.
Print Assumptions C15_clause_round_trip.

(* canonical forms are invisible to the encoder and idempotent *)
Theorem C15_canonical_form_same_json : forall f, encode_flag (canon_flag f) = encode_flag f.
Proof. exact encode_canon_flag. Qed.
Print Assumptions C15_canonical_form_same_json.

(* the hypotheses are met by a non-trivial flag, which round-trips exactly *)
Theorem C15_hypotheses_nonvacuous : wf_flag sample_flag /\ exact_flag sample_flag.
Proof. exact sample_flag_wf. Qed.
Print Assumptions C15_hypotheses_nonvacuous.

(* every document the decoder accepts yields a well-formed flag, so the fixed-point theorem applies to all of them:
   for EVERY accepted JSON text j, encoding the decoded flag and decoding again reaches a value that encodes to the
   same JSON and decodes to itself from then on *)
Theorem C15_decoded_flags_are_wellformed : forall j f, decode_flag j = Some f -> wf_flag f.
Proof. exact decode_flag_wf. Qed.
Print Assumptions C15_decoded_flags_are_wellformed.
Theorem C15_accepted_document_fixed_point : forall j f1, decode_flag j = Some f1 ->
  exists f2, decode_flag (encode_flag f1) = Some f2 /\ encode_flag f2 = encode_flag f1 /\
             decode_flag (encode_flag f2) = Some f2.
Proof. exact accepted_document_reaches_fixed_point. Qed.
Print Assumptions C15_accepted_document_fixed_point.
Theorem C15_decoded_segments_are_wellformed : forall j sg, decode_segment j = Some sg -> wf_segment sg.
Proof. exact decode_segment_wf. Qed.
Print Assumptions C15_decoded_segments_are_wellformed.
Theorem C15_accepted_segment_fixed_point : forall j s1, decode_segment j = Some s1 ->
  exists s2, decode_segment (encode_segment s1) = Some s2 /\ encode_segment s2 = encode_segment s1 /\
             decode_segment (encode_segment s2) = Some s2.
Proof. exact accepted_segment_reaches_fixed_point. Qed.
Print Assumptions C15_accepted_segment_fixed_point.

(* ---- the re-decoded flag evaluates identically ----
   j accepted, f1 its decoding, f2 the decoding of f1's encoding; the store holds decoded items and redecoded_env is the
   store after each item went through the same encode / decode step (C15_redecoded_store_is_redecoding). For every
   context, provider and option set the outcome of evaluating f2 over the re-decoded store is the outcome of evaluating
   f1 over the original store: value, index, reason, experiment bit and the whole trace; rt_obs is the identity except
   that an event carries the re-decoded form of the prerequisite flag it reports. *)
Theorem C15_redecoded_flag_evaluates_identically : forall re_ok re_match o E P c j f1 f2,
  decoded_env E -> decode_flag j = Some f1 -> decode_flag (encode_flag f1) = Some f2 ->
  run re_ok re_match o (redecoded_env E) P c f2 =
  match run re_ok re_match o E P c f1 with Done r => Done (rt_out r) | Panic => Panic | OutOfFuel => OutOfFuel end.
Proof. exact redecoded_flag_evaluates_identically. Qed.
Print Assumptions C15_redecoded_flag_evaluates_identically.
Theorem C15_redecoded_store_is_redecoding : forall E, decoded_env E ->
  Forall (fun kv => decode_flag (encode_flag (snd kv)) = Some (canon_flag (snd kv))) (e_flags E) /\
  Forall (fun kv => decode_segment (encode_segment (snd kv)) = Some (canon_segment (snd kv))) (e_segments E).
Proof. exact redecoded_env_is_redecoding. Qed.
Print Assumptions C15_redecoded_store_is_redecoding.

(* ---- the defect found in the unchanged repository, as a kernel-checked refutation of the original code ---- *)
From LD Require Import Legacy.
Theorem C15_legacy_refuted :
  (debug_date_legacy (dy_of_Z (-1)) = two64 - 1 /\ debug_date_legacy (dy_of_Z two64) = two63 /\
   debug_date_of (dy_of_Z (-1)) = 0 /\ debug_date_of (dy_of_Z 0) = 0)%Z.
Proof. exact Legacy.C15_legacy_refuted. Qed.
Print Assumptions C15_legacy_refuted.

(* ---- the builders (ldbuilders), modelled as folds over the flag / segment record (Builders.v; tied to the package by the
   `micro` mode of this property: random call sequences, rule builders reused, intermediate Build() results kept) ----
   "for every value built with the builders from valid parts, decode(encode(v)) is deeply equal to v": for EVERY sequence
   of builder calls whose arguments are valid parts (integers that fit 64 bits, rules and rollouts that are not
   set-but-empty) *)
From LD Require Import Builders BuildersSpec.

Theorem C15_builder_call_sequences_round_trip : forall key ops, Forall ok_fbop ops ->
  decode_flag (encode_flag (fb_build key ops)) = Some (fb_build key ops).
Proof. exact builder_round_trip. Qed.
Print Assumptions C15_builder_call_sequences_round_trip.

Theorem C15_segment_builder_call_sequences_round_trip : forall key ops, Forall ok_sbop ops ->
  decode_segment (encode_segment (sb_build key ops)) = Some (sb_build key ops).
Proof. exact segment_builder_round_trip. Qed.
Print Assumptions C15_segment_builder_call_sequences_round_trip.

(* the hypothesis on AddRule, call by call: a rule builder given valid clauses and a valid variation-or-rollout builds a
   valid rule, whatever the order and repetition of its calls *)
Theorem C15_rule_builder_of_valid_parts : forall ops, Forall ok_rbop ops ->
  wf_rule (rb_build ops) /\ canon_rule (rb_build ops) = rb_build ops.
Proof. exact rule_of_valid_parts. Qed.
Print Assumptions C15_rule_builder_of_valid_parts.

(* an intermediate Build() leaves the builder as it was *)
Theorem C15_intermediate_build_is_invisible : forall key l1 l2, fb_build key (l1 ++ FBuild :: l2) = fb_build key (l1 ++ l2).
Proof. exact intermediate_build_is_invisible. Qed.
Print Assumptions C15_intermediate_build_is_invisible.
Theorem C15_intermediate_segment_build_is_invisible : forall key l1 l2, sb_build key (l1 ++ SBuild :: l2) = sb_build key (l1 ++ l2).
Proof. exact intermediate_segment_build_is_invisible. Qed.
Print Assumptions C15_intermediate_segment_build_is_invisible.

(* Add* calls append in call order (targets, context targets, prerequisites, rules keep the order they were given in) *)
Theorem C15_builder_add_calls_append : forall key l,
  (forall k v, f_prereqs (fb_build key (l ++ [FAddPrereq k v])) = f_prereqs (fb_build key l) ++ [mkprereq k v]) /\
  (forall v ks, f_targets (fb_build key (l ++ [FAddTarget v ks])) = f_targets (fb_build key l) ++ [mktarget [] ks v None]) /\
  (forall kd v ks, f_ctargets (fb_build key (l ++ [FAddCtxTarget kd v ks])) = f_ctargets (fb_build key l) ++ [mktarget kd ks v None]) /\
  (forall ops, f_rules (fb_build key (l ++ [FAddRule ops])) = f_rules (fb_build key l) ++ [rb_build ops]).
Proof. exact add_calls_append. Qed.
Print Assumptions C15_builder_add_calls_append.

Theorem C15_unbounded_kind_order_is_irrelevant : forall key l b k,
  sb_build key (l ++ [SUnbounded b; SUnbKind k]) = sb_build key (l ++ [SUnbKind k; SUnbounded b]).
Proof. exact unbounded_kind_order. Qed.
Print Assumptions C15_unbounded_kind_order_is_irrelevant.

(* the hypothesis is satisfiable by a non-trivial call sequence *)
Theorem C15_builder_hypotheses_nonvacuous : Forall ok_fbop example_calls.
Proof. exact example_calls_are_valid_parts. Qed.
Print Assumptions C15_builder_hypotheses_nonvacuous.

(* C04 Clause and operator semantics (partial: the regex engine is an oracle -- re_ok / re_match are universally
   quantified Section variables, instantiated at run time by a table computed with Go's regexp) *)
From LD Require Import Base F32 Data Scan Semver Time Model Ops Codec OpsSpec.

Theorem C04_missing_kind_is_nonmatch : forall re_ok re_match c x,
  ref_defined (cl_attr c) = true -> ref_has_err (cl_attr c) = false ->
  str_eqb (ref_string (cl_attr c)) (s "kind") = false -> ctx_by_kind x (cl_kind c) = None ->
  clause_match_noseg re_ok re_match c x = Ok false.
Proof. exact missing_kind_is_nonmatch. Qed.
Print Assumptions C04_missing_kind_is_nonmatch.

Theorem C04_missing_attribute_is_nonmatch : forall re_ok re_match c x i,
  ref_defined (cl_attr c) = true -> ref_has_err (cl_attr c) = false ->
  str_eqb (ref_string (cl_attr c)) (s "kind") = false -> ctx_by_kind x (cl_kind c) = Some i ->
  get_value_for_ref i (cl_attr c) = JNull ->
  clause_match_noseg re_ok re_match c x = Ok false.
Proof. exact missing_attribute_is_nonmatch. Qed.
Print Assumptions C04_missing_attribute_is_nonmatch.

(* negation inverts the outcome exactly when the attribute exists; arrays are matched element-wise *)
Theorem C04_clause_match : forall re_ok re_match c x i v,
  ref_defined (cl_attr c) = true -> ref_has_err (cl_attr c) = false ->
  str_eqb (ref_string (cl_attr c)) (s "kind") = false -> ctx_by_kind x (cl_kind c) = Some i ->
  get_value_for_ref i (cl_attr c) = v -> v <> JNull ->
  clause_match_noseg re_ok re_match c x =
  Ok (xorb (cl_negate c) (match v with JArr l => existsb (match_any re_ok re_match c) l | _ => match_any re_ok re_match c v end)).
Proof. exact present_attribute. Qed.
Print Assumptions C04_clause_match.

Theorem C04_some_clause_value : forall re_ok re_match c cv vals i,
  any_op re_ok re_match c cv vals i = true <->
  exists k v, nth_error vals k = Some v /\ do_op re_ok re_match c cv v (i + k) = true.
Proof. exact any_op_exists. Qed.
Print Assumptions C04_some_clause_value.

Theorem C04_in_is_primitive_equality : forall c v, cl_pre c = cpre_none ->
  clause_find_value c v = is_prim v && existsb (prim_eqb v) (cl_values c).
Proof. exact in_is_primitive_equality. Qed.
Print Assumptions C04_in_is_primitive_equality.

Theorem C04_kind_attribute : forall re_ok re_match c l,
  ref_defined (cl_attr c) = true -> ref_has_err (cl_attr c) = false -> str_eqb (ref_string (cl_attr c)) (s "kind") = true ->
  clause_match_noseg re_ok re_match c (CMulti l) =
  Ok (xorb (cl_negate c) (existsb (fun i => match_any re_ok re_match c (JStr (c_kind i))) l)).
Proof. exact kind_attribute_multi. Qed.
Print Assumptions C04_kind_attribute.

Theorem C04_undefined_attribute_is_malformed : forall re_ok re_match c x,
  ref_defined (cl_attr c) = false -> clause_match_noseg re_ok re_match c x = Err EEmptyAttr.
Proof. exact undefined_attribute_error. Qed.
Print Assumptions C04_undefined_attribute_is_malformed.

Theorem C04_invalid_attribute_is_malformed : forall re_ok re_match c x,
  ref_defined (cl_attr c) = true -> ref_has_err (cl_attr c) = true ->
  clause_match_noseg re_ok re_match c x = Err (EBadAttr (ref_string (cl_attr c))).
Proof. exact invalid_attribute_error. Qed.
Print Assumptions C04_invalid_attribute_is_malformed.

Theorem C04_unknown_operator_never_matches : forall re_ok re_match c cv clv i,
  ~ In (cl_op c) known_ops -> do_op re_ok re_match c cv clv i = false.
Proof. exact unknown_op_false. Qed.
Print Assumptions C04_unknown_operator_never_matches.

Theorem C04_string_type_mismatch : forall f cv clv,
  (forall x, cv <> JStr x) \/ (forall x, clv <> JStr x) -> string_op f cv clv = false.
Proof. exact string_op_mismatch. Qed.
Print Assumptions C04_string_type_mismatch.

Theorem C04_numeric_type_mismatch : forall f cv clv,
  (forall x, cv <> JNum x) \/ (forall x, clv <> JNum x) -> numeric_op f cv clv = false.
Proof. exact numeric_op_mismatch. Qed.
Print Assumptions C04_numeric_type_mismatch.

Theorem C04_starts_with : forall p x, is_prefix p x = true <-> exists r, x = p ++ r.
Proof. exact is_prefix_spec. Qed.
Print Assumptions C04_starts_with.
Theorem C04_ends_with : forall p x, is_suffix p x = true <-> exists l, x = l ++ p.
Proof. exact is_suffix_spec. Qed.
Print Assumptions C04_ends_with.
Theorem C04_contains : forall p x, is_infix p x = true <-> exists l r, x = l ++ p ++ r.
Proof. exact is_infix_spec. Qed.
Print Assumptions C04_contains.

(* numeric comparison is the order of the exact values: scale both operands to any common exponent and compare *)
Theorem C04_numeric_is_value_order : forall a b e0,
  (e0 <= de a)%Z -> (e0 <= de b)%Z -> dy_cmp a b = Z.compare (dm a * 2 ^ (de a - e0)) (dm b * 2 ^ (de b - e0)).
Proof. exact dy_cmp_common. Qed.
Print Assumptions C04_numeric_is_value_order.
Theorem C04_numeric_trichotomy : forall a b,
  (dy_ltb a b = true /\ dy_eqb a b = false /\ dy_ltb b a = false) \/
  (dy_ltb a b = false /\ dy_eqb a b = true /\ dy_ltb b a = false) \/
  (dy_ltb a b = false /\ dy_eqb a b = false /\ dy_ltb b a = true).
Proof. exact dy_trichotomy. Qed.
Print Assumptions C04_numeric_trichotomy.
Theorem C04_numeric_transitive : forall a b c, dy_ltb a b = true -> dy_ltb b c = true -> dy_ltb a c = true.
Proof. exact dy_lt_trans. Qed.
Print Assumptions C04_numeric_transitive.

Theorem C04_literal_without_kind : forall v, v <> [] -> attr_name_or_ref v [] = new_literal_ref v.
Proof. exact attribute_literal_without_kind. Qed.
Print Assumptions C04_literal_without_kind.
Theorem C04_path_with_kind : forall v k, v <> [] -> k <> [] -> attr_name_or_ref v k = new_ref v.
Proof. exact attribute_path_with_kind. Qed.
Print Assumptions C04_path_with_kind.
Theorem C04_literal_is_one_component : forall v, v <> [] ->
  ref_has_err (new_literal_ref v) = false /\ ref_depth (new_literal_ref v) = 1%nat /\ ref_component (new_literal_ref v) 0 = v.
Proof. exact literal_ref_is_single_component. Qed.
Print Assumptions C04_literal_is_one_component.

Theorem C04_semver_prerelease_before_release : forall v w,
  sv_major v = sv_major w -> sv_minor v = sv_minor w -> sv_patch v = sv_patch w ->
  sv_pre v <> [] -> sv_pre w = [] -> semver_cmp v w = (-1)%Z.
Proof. exact semver_prerelease_before_release. Qed.
Print Assumptions C04_semver_prerelease_before_release.

(* the operator names of the source (gen/Tables.v, regenerated on every run) are the model's *)
From LD Require Import TablesOps.
From LDGen Require Import Tables.
From Coq Require Import String.
Theorem C04_operator_names_match_source : map (fun p => (fst p, str_of (snd p))) operator_names = model_ops.
Proof. exact operator_names_match_source. Qed.
Print Assumptions C04_operator_names_match_source.

(* ---- the semVer operators against a declarative statement of Semantic Versioning 2.0.0 (SemverSpec.v) ---- *)
From LD Require Import SemverSpec.
(* [is_semver x v]: x = core [ "-" pre ] [ "+" build ], core = major [ "." minor [ "." patch ] ] with numeric identifiers
   without leading zeros, pre / build dot-separated non-empty identifiers over [0-9A-Za-z-], numeric pre-release
   identifiers without leading zeros; v carries the numbers and the joined identifier lists *)
Theorem C04_semver_accepts_exactly_the_grammar : forall x v, parse_semver x = Some v <-> is_semver x v.
Proof. exact accepts_exactly_semver. Qed.
Print Assumptions C04_semver_accepts_exactly_the_grammar.

(* precedence is item 11 of the specification: numbers, then "a pre-release is lower", then identifiers left to right *)
Theorem C04_semver_cmp_is_precedence : forall v o pv po,
  sv_pre v = join pv -> sv_pre o = join po -> Forall pre_ident pv -> Forall pre_ident po ->
  semver_cmp v o = prec v o pv po.
Proof. exact cmp_is_precedence. Qed.
Print Assumptions C04_semver_cmp_is_precedence.

(* the numbers are the mathematical values for up to 18 digits ... *)
Theorem C04_semver_numbers_exact : forall ds, all_digits ds -> (zlen ds <= 18)%Z -> numval ds = zvalue 0 ds.
Proof. exact numval_exact. Qed.
Print Assumptions C04_semver_numbers_exact.

(* ... and not beyond: go-semver's int arithmetic wraps (open known finding of the dependency) *)
Theorem C04_semver_overflow_refuted :
  exists v o, parse_semver (s "18446744073709551617.0.0") = Some v /\ parse_semver (s "2.0.0") = Some o /\
              semver_cmp v o = (-1)%Z /\ (zvalue 0 (s "18446744073709551617") > zvalue 0 (s "2"))%Z.
Proof. exact overflow_refuted. Qed.
Print Assumptions C04_semver_overflow_refuted.

(* unparseable operands never satisfy a semVer operator *)
Theorem C04_semver_unparseable_never_matches : forall c x i expected,
  (forall v, ~ is_semver x v) -> semver_op c (JStr x) i expected = false.
Proof. exact semver_unparseable_never_matches. Qed.
Print Assumptions C04_semver_unparseable_never_matches.

(* ---- attribute references against a declarative statement of the reference syntax (RefSpec.v) ---- *)
From LD Require Import RefSpec.
(* [is_ref x cs]: x is a plain name not starting with '/' (cs = [x]), or '/' followed by the non-empty components cs joined
   by '/', with '~' written "~0" and '/' written "~1" inside a component *)
Theorem C04_reference_accepts_exactly_the_paths : forall x cs,
  (ref_valid (new_ref x) = true /\ ref_components (new_ref x) = cs) <-> is_ref x cs.
Proof. exact ref_accepts_exactly_the_paths. Qed.
Print Assumptions C04_reference_accepts_exactly_the_paths.
Theorem C04_literal_name_is_itself : forall x, x <> [] ->
  ref_valid (new_literal_ref x) = true /\ ref_components (new_literal_ref x) = [x].
Proof. exact literal_is_itself. Qed.
Print Assumptions C04_literal_name_is_itself.

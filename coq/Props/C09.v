(* C09 Prerequisite semantics and prerequisite events *)
From LD Require Import Base F32 Data Model Ops Bucket Eval EvalFacts Pure Order Cycles Events Transparent Refine Standalone.

(* met iff the flag exists, is not on the current path, its own evaluation completed, it is on, and it served
   exactly the required variation *)
Theorem C09_met_iff : forall E ev chain' p,
  prereq_step E ev chain' p = Done None <->
  exists pf d, assoc (pq_key p) (e_flags E) = Some pf /\ mem_str (f_key pf) chain' = false /\
               ev pf = Done (d, true) /\ f_on pf = true /\ d_index d = Some (pq_var p).
Proof. exact prereq_step_met. Qed.
Print Assumptions C09_met_iff.

(* listed order, stopping at the first prerequisite that is not met *)
Theorem C09_listed_order_first_unmet : forall E ev chain' ps out,
  p_prereqs E ev chain' ps = Done out ->
  (exists pre p post, ps = pre ++ p :: post /\ Forall (fun q => prereq_step E ev chain' q = Done None) pre /\
                      prereq_step E ev chain' p = Done (Some out))
  \/ (Forall (fun q => prereq_step E ev chain' q = Done None) ps /\ out = POk).
Proof. exact p_prereqs_outcome. Qed.
Print Assumptions C09_listed_order_first_unmet.

(* lazily: only when the dependent flag is on *)
Theorem C09_only_when_on : forall re_ok re_match o E P c n chain f,
  f_on f = false -> p_eval re_ok re_match o E P c (S n) chain f = Done (p_off_value f (plain_reason ROff), true).
Proof. exact p_eval_off. Qed.
Print Assumptions C09_only_when_on.

Theorem C09_missing_prerequisite_not_recorded : forall o E ev f chain' p rest st,
  assoc (pq_key p) (e_flags E) = None ->
  prereq_loop o E ev f chain' (p :: rest) st = (Done (PFailed (pq_key p)), after_lookup st (pq_key p)).
Proof. exact prereq_missing. Qed.
Print Assumptions C09_missing_prerequisite_not_recorded.

(* one event per completed evaluation, emitted after the nested evaluation finished (post-order), carrying the
   dependent's key, the prerequisite flag, its result, its experiment bit and its summary-exclusion setting *)
Theorem C09_completed_evaluation_recorded : forall o E ev f chain' p rest pf st d st1,
  o_recorder o = true ->
  assoc (pq_key p) (e_flags E) = Some pf -> mem_str (f_key pf) chain' = false ->
  ev pf (after_lookup st (pq_key p)) = (Done (d, true), st1) ->
  prereq_loop o E ev f chain' (p :: rest) st =
  (if prereq_met pf d (pq_var p)
   then prereq_loop o E ev f chain' rest
   else ret (PFailed (pq_key p))) (mkst (s_cache st1) (s_status st1) (event_of f pf d :: s_trace st1)).
Proof. exact prereq_completed_recorded. Qed.
Print Assumptions C09_completed_evaluation_recorded.

Theorem C09_nothing_after_first_unmet : forall o E ev f chain' p rest rest' pf st d st1,
  assoc (pq_key p) (e_flags E) = Some pf -> mem_str (f_key pf) chain' = false ->
  ev pf (after_lookup st (pq_key p)) = (Done (d, true), st1) -> prereq_met pf d (pq_var p) = false ->
  prereq_loop o E ev f chain' (p :: rest) st = prereq_loop o E ev f chain' (p :: rest') st.
Proof. exact prereq_unmet_stops. Qed.
Print Assumptions C09_nothing_after_first_unmet.

(* rule-matching errors and cycles abort the whole evaluation, with no event for the aborted flags *)
Theorem C09_abort_no_event : forall o E ev f chain' p rest pf st d st1,
  assoc (pq_key p) (e_flags E) = Some pf -> mem_str (f_key pf) chain' = false ->
  ev pf (mkst (s_cache st) (s_status st) (OGetFlag (pq_key p) :: s_trace st)) = (Done (d, false), st1) ->
  prereq_loop o E ev f chain' (p :: rest) st = (Done PAbort, st1).
Proof. exact prereq_abort_propagates. Qed.
Print Assumptions C09_abort_no_event.

(* with and without a recorder (and a logger): identical results, identical trace apart from events and log lines *)
Theorem C09_recorder_optional : forall re_ok re_match o1 o2 E P c f out1,
  o_secondary o1 = o_secondary o2 ->
  run re_ok re_match o1 E P c f = Done out1 ->
  exists out2, run re_ok re_match o2 E P c f = Done out2 /\
               out_detail out2 = out_detail out1 /\ out_isexp out2 = out_isexp out1 /\
               strip (out_trace out2) = strip (out_trace out1).
Proof. exact observers_are_transparent. Qed.
Print Assumptions C09_recorder_optional.

(* ---- the recorded result is what evaluating the prerequisite on its own returns ----
   A nested evaluation of pf that completed (second component true: it did not abort), at any fuel n and below any
   reference path, has the detail that evaluating pf by itself -- empty path, any fuel m >= n, in particular the fuel of a
   top-level call -- returns (before the big-segments annotation that only a top-level result carries). *)
Theorem C09_completed_nested_result_is_standalone : forall re_ok re_match o E P c n m chain pf d,
  (n <= m)%nat -> p_eval re_ok re_match o E P c n chain pf = Done (d, true) ->
  p_eval re_ok re_match o E P c m [] pf = Done (d, true).
Proof. exact completed_nested_result_is_standalone. Qed.
Print Assumptions C09_completed_nested_result_is_standalone.
Theorem C09_recorded_result_is_standalone : forall re_ok re_match o E P c n m chain pf d s s',
  Inv P s -> (n <= m)%nat -> eval_flag re_ok re_match o E P c n chain pf s = (Done (d, true), s') ->
  p_eval re_ok re_match o E P c m [] pf = Done (d, true).
Proof. exact recorded_result_is_standalone. Qed.
Print Assumptions C09_recorded_result_is_standalone.

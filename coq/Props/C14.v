(* C14 Preprocessing is a transparent optimisation *)
From LD Require Import Base F32 Data Model Ops Bucket Eval EvalFacts Codec Targets Prep PrepEval DecodePlain.

Theorem C14_clause : forall re_ok re_match cl x, plain_clause cl ->
  clause_match_noseg re_ok re_match (preprocess_clause re_ok cl) x = clause_match_noseg re_ok re_match cl x.
Proof. exact clause_match_pre. Qed.
Print Assumptions C14_clause.

Theorem C14_equality_set : forall re_ok cl v, plain_clause cl ->
  clause_find_value (preprocess_clause re_ok cl) v = clause_find_value cl v.
Proof. exact find_value_pre. Qed.
Print Assumptions C14_equality_set.

Theorem C14_regex_operand : forall re_ok cl i, plain_clause cl -> cl_op cl = op_matches ->
  clause_regex re_ok (preprocess_clause re_ok cl) i = clause_regex re_ok cl i.
Proof. exact regex_pre. Qed.
Print Assumptions C14_regex_operand.

Theorem C14_timestamp_operand : forall re_ok cl i, plain_clause cl -> (cl_op cl = op_before \/ cl_op cl = op_after) ->
  clause_time (preprocess_clause re_ok cl) i = clause_time cl i.
Proof. exact time_pre. Qed.
Print Assumptions C14_timestamp_operand.

Theorem C14_semver_operand : forall re_ok cl i, plain_clause cl ->
  (cl_op cl = op_sv_eq \/ cl_op cl = op_sv_lt \/ cl_op cl = op_sv_gt) ->
  clause_semver (preprocess_clause re_ok cl) i = clause_semver cl i.
Proof. exact semver_pre. Qed.
Print Assumptions C14_semver_operand.

Theorem C14_key_sets : forall k vs, find_key k vs (string_set vs) = find_key k vs None.
Proof. exact key_sets_transparent. Qed.
Print Assumptions C14_key_sets.

Theorem C14_target : forall c t, t_pre t = None -> target_match c (pp_target t) = target_match c t.
Proof. exact target_match_pre. Qed.
Print Assumptions C14_target.

(* ---- whole evaluations ----
   pp_env E preprocesses every flag and segment of the store (what the decoder and the builders do); plain_env E says the
   store holds hand-built values with no precomputed data at all. The two evaluations return the same value, index, full
   reason (kind, rule index/id, prerequisite key, error kind, experiment bit, big-segment status), the same experiment
   flag, and the same trace -- flag and segment reads, big-segment queries and membership look-ups, log lines, one event
   per prerequisite evaluation in the same order; pp_obs maps an event to the same event carrying the preprocessed form of
   the prerequisite flag it reports and is the identity on everything else. *)
Theorem C14_whole_evaluation : forall re_ok re_match o E P c, plain_env E -> forall f, plain_flag f ->
  run re_ok re_match o (pp_env re_ok E) P c (preprocess_flag re_ok f) =
  match run re_ok re_match o E P c f with Done r => Done (pp_out re_ok r) | Panic => Panic | OutOfFuel => OutOfFuel end.
Proof. exact preprocessed_store_same_evaluation. Qed.
Print Assumptions C14_whole_evaluation.

Theorem C14_whole_evaluation_observables : forall re_ok re_match o E P c f r,
  plain_env E -> plain_flag f -> run re_ok re_match o E P c f = Done r ->
  exists r', run re_ok re_match o (pp_env re_ok E) P c (ppf re_ok f) = Done r' /\
             out_detail r' = out_detail r /\ out_isexp r' = out_isexp r /\
             out_trace r' = map (pp_obs re_ok) (out_trace r) /\ length (out_trace r') = length (out_trace r).
Proof. exact preprocessing_is_transparent. Qed.
Print Assumptions C14_whole_evaluation_observables.

(* the decoder never fills in precomputed data, so the theorem covers "obtained by JSON decoding" (decode, then
   preprocess) against the bare decoded value, for every accepted document and every store built by decoding *)
Theorem C14_decoded_values_are_plain : forall j f, decode_flag j = Some f -> plain_flag f.
Proof. exact decode_flag_plain. Qed.
Print Assumptions C14_decoded_values_are_plain.
Theorem C14_decoded_segments_are_plain : forall j sg, decode_segment j = Some sg -> plain_segment sg.
Proof. exact decode_segment_plain. Qed.
Print Assumptions C14_decoded_segments_are_plain.
Theorem C14_json_decoding : forall re_ok re_match o E P c j f, decoded_env E -> decode_flag j = Some f ->
  run re_ok re_match o (pp_env re_ok E) P c (preprocess_flag re_ok f) =
  match run re_ok re_match o E P c f with Done r => Done (pp_out re_ok r) | Panic => Panic | OutOfFuel => OutOfFuel end.
Proof. exact decoded_then_preprocessed_same_evaluation. Qed.
Print Assumptions C14_json_decoding.

Theorem C14_hypotheses_nonvacuous :
  let cl := mkclause [] (new_literal_ref (s "email")) op_in [JStr (s "a"); JStr (s "b")] false cpre_none in
  let vr := mkvorr (Some 0) (mkrollout [] [] [] ref_undef None) in
  let f := mkflag (s "f") true [] [mktarget [] [s "u1"; s "u2"] 1 None] [] [mkrule vr (s "r") [cl] false] vr None [JBool true; JBool false] [] false false
                  (mkfmeta 0 false false 0 false false false None None) in
  let sg := mksegment (s "sg") [s "u1"] [s "u3"] [mksegtarget (s "org") [s "o1"] None] [] (s "salt") [mksegrule (s "sr") [cl] None ref_undef []]
                      false [] 1 None false None None in
  plain_flag f /\ plain_env (mkenv [(s "f", f)] [(s "sg", sg)]).
Proof. exact plain_store_exists. Qed.
Print Assumptions C14_hypotheses_nonvacuous.

(* ---- the defect found in the unchanged repository, as a kernel-checked refutation of the original code ---- *)
From LD Require Import Legacy.
Theorem C14_legacy_refuted :
  clause_time_legacy zero_clause 0 = Some zero_time_instant /\
  clause_time_legacy (preprocess_clause (fun _ => true) zero_clause) 0 = None /\
  clause_time (preprocess_clause (fun _ => true) zero_clause) 0 = Some zero_time_instant.
Proof. exact Legacy.C14_legacy_refuted. Qed.
Print Assumptions C14_legacy_refuted.

(* C14 Preprocessing is a transparent optimisation *)
From LD Require Import Base F32 Data Model Ops Bucket Eval EvalFacts Codec Targets Prep.

Theorem C14_clause : forall re_ok re_match cl x, plain_clause cl ->
  clause_match_noseg re_ok re_match (preprocess_clause re_ok cl) x = clause_match_noseg re_ok re_match cl x.
Proof. exact clause_match_pre. Qed.
Print Assumptions C14_clause.

Theorem C14_equality_set : forall re_ok cl v, plain_clause cl ->
  clause_find_value (preprocess_clause re_ok cl) v = clause_find_value cl v.
Proof. exact find_value_pre. Qed.
Print Assumptions C14_equality_set.

Theorem C14_regex_operand : forall re_ok cl i, plain_clause cl -> cl_op cl = op_matches ->
  clause_regex re_ok (preprocess_clause re_ok cl) i = clause_regex re_ok cl i.
Proof. exact regex_pre. Qed.
Print Assumptions C14_regex_operand.

Theorem C14_timestamp_operand : forall re_ok cl i, plain_clause cl -> (cl_op cl = op_before \/ cl_op cl = op_after) ->
  clause_time (preprocess_clause re_ok cl) i = clause_time cl i.
Proof. exact time_pre. Qed.
Print Assumptions C14_timestamp_operand.

Theorem C14_semver_operand : forall re_ok cl i, plain_clause cl ->
  (cl_op cl = op_sv_eq \/ cl_op cl = op_sv_lt \/ cl_op cl = op_sv_gt) ->
  clause_semver (preprocess_clause re_ok cl) i = clause_semver cl i.
Proof. exact semver_pre. Qed.
Print Assumptions C14_semver_operand.

Theorem C14_key_sets : forall k vs, find_key k vs (string_set vs) = find_key k vs None.
Proof. exact key_sets_transparent. Qed.
Print Assumptions C14_key_sets.

Theorem C14_target : forall c t, t_pre t = None -> target_match c (pp_target t) = target_match c t.
Proof. exact target_match_pre. Qed.
Print Assumptions C14_target.

(* C19 Malformed data is always diagnosed in the error log *)
From LD Require Import Base F32 Data Model Ops Bucket Eval EvalFacts Safety WellFormed Trace Transparent LogsConverse.

Theorem C19_malformed_is_logged : forall re_ok re_match o E P c f out,
  o_logger o = true -> run re_ok re_match o E P c f = Done out ->
  rs_kind (d_reason (out_detail out)) = RError KMalformed ->
  exists k e, In (OLog k e) (out_trace out).
Proof. exact malformed_is_logged. Qed.
Print Assumptions C19_malformed_is_logged.

(* every nested evaluation that ends in MALFORMED_FLAG or aborts wrote a line during that nested call *)
Theorem C19_nested_malformed_is_logged : forall re_ok re_match o E P c,
  o_logger o = true -> forall fuel chain f,
  grew (eval_flag re_ok re_match o E P c fuel chain f) bad_result.
Proof. exact grew_eval_flag. Qed.
Print Assumptions C19_nested_malformed_is_logged.

Theorem C19_no_logger_no_lines : forall re_ok re_match o E P c f out,
  o_logger o = false -> run re_ok re_match o E P c f = Done out -> forall k e, ~ In (OLog k e) (out_trace out).
Proof. exact no_logger_no_lines. Qed.
Print Assumptions C19_no_logger_no_lines.

(* with no logger behaviour is otherwise identical *)
Theorem C19_logger_transparent : forall re_ok re_match o1 o2 E P c f out1,
  o_secondary o1 = o_secondary o2 ->
  run re_ok re_match o1 E P c f = Done out1 ->
  exists out2, run re_ok re_match o2 E P c f = Done out2 /\
               out_detail out2 = out_detail out1 /\ out_isexp out2 = out_isexp out1 /\
               strip (out_trace out2) = strip (out_trace out1).
Proof. exact observers_are_transparent. Qed.
Print Assumptions C19_logger_transparent.

(* the line is written with the key of the flag in whose scope the problem was detected: every log site of the model
   passes the current flag's key (get_variation, vr_detail, rules_loop, prereq_loop); e.g. a bad variation index: *)
Theorem C19_bad_variation_names_the_flag : forall o f i r st,
  o_logger o = true -> znth_opt (f_vars f) i = None ->
  get_variation o f i r st =
  (Done (err_detail KMalformed), mkst (s_cache st) (s_status st) (OLog (f_key f) (EBadVariation i) :: s_trace st)).
Proof. exact bad_variation_names_the_flag. Qed.
Print Assumptions C19_bad_variation_names_the_flag.

(* ---- nothing is written without cause ----
   With a recorder configured (so that nested results are observable): a line in the log of a call whose own result is not
   MALFORMED_FLAG means that a prerequisite evaluation recorded during that call was MALFORMED_FLAG. accounted states the same
   for every nested evaluation: lines written during it are paid for by its own bad result or by a bad recorded event. *)
Theorem C19_every_line_is_accounted_for : forall re_ok re_match o E P c f out k e,
  o_recorder o = true -> run re_ok re_match o E P c f = Done out -> In (OLog k e) (out_trace out) ->
  rs_kind (d_reason (out_detail out)) = RError KMalformed \/
  exists ev, In (OEvent ev) (out_trace out) /\ bad_detail (ev_detail ev).
Proof. exact every_line_is_accounted_for. Qed.
Print Assumptions C19_every_line_is_accounted_for.
Theorem C19_nested_lines_are_accounted_for : forall re_ok re_match o E P c,
  o_recorder o = true -> forall fuel chain f, accounted (eval_flag re_ok re_match o E P c fuel chain f).
Proof. exact accounted_eval_flag. Qed.
Print Assumptions C19_nested_lines_are_accounted_for.

(* ... and without assuming that a recorder is configured: log lines do not depend on the recorder, and every line of an
   evaluation whose own result is not MALFORMED_FLAG corresponds to a MALFORMED_FLAG prerequisite result that the same
   evaluation reports when events are recorded *)
Theorem C19_recorder_does_not_change_log_lines : forall re_ok re_match o1 o2 E P c f out1,
  o_secondary o1 = o_secondary o2 -> o_logger o1 = o_logger o2 ->
  run re_ok re_match o1 E P c f = Done out1 ->
  exists out2, run re_ok re_match o2 E P c f = Done out2 /\
               out_detail out2 = out_detail out1 /\ out_isexp out2 = out_isexp out1 /\
               strip_events (out_trace out2) = strip_events (out_trace out1).
Proof. exact recorder_keeps_log_lines. Qed.
Print Assumptions C19_recorder_does_not_change_log_lines.
Theorem C19_every_line_is_accounted_for_any_recorder : forall re_ok re_match o E P c f out k e,
  run re_ok re_match o E P c f = Done out -> In (OLog k e) (out_trace out) ->
  rs_kind (d_reason (out_detail out)) = RError KMalformed \/
  exists out', run re_ok re_match (with_recorder o) E P c f = Done out' /\ out_detail out' = out_detail out /\
               strip_events (out_trace out') = strip_events (out_trace out) /\
               exists ev, In (OEvent ev) (out_trace out') /\ bad_detail (ev_detail ev).
Proof. exact every_line_is_accounted_for_any_recorder. Qed.
Print Assumptions C19_every_line_is_accounted_for_any_recorder.

(* ---- the evaluator's construction options (NewEvaluatorWithOptions): "with no logger, or a nil logger option ..." ----
   The option list is folded front to back over a zero configuration (Options.v, tied to the code by the `micro` mode of
   this property, which reads the configuration off three probe evaluations).  A nil entry is skipped wherever it stands
   -- it never hides the options after it --, the last option of each kind decides (so a nil logger option after a logger
   option switches logging off, and the reverse), and options of different kinds may be given in any order. *)
From LD Require Import Options OptionsSpec.

Theorem C19_nil_options_are_skipped : forall l1 l2, build_ecfg (l1 ++ None :: l2) = build_ecfg (l1 ++ l2).
Proof. exact nil_options_are_skipped. Qed.
Print Assumptions C19_nil_options_are_skipped.

Theorem C19_last_option_of_each_kind_wins : forall l,
  ec_secondary (build_ecfg l) = or_default (last_secondary l) false /\
  ec_logger (build_ecfg l) = or_default (last_logger l) false /\
  ec_provider (build_ecfg l) = or_default (last_provider l) false.
Proof. exact last_option_of_each_kind_wins. Qed.
Print Assumptions C19_last_option_of_each_kind_wins.

Theorem C19_options_of_different_kinds_commute : forall l1 a b l2, same_kind a b = false ->
  build_ecfg (l1 ++ Some a :: Some b :: l2) = build_ecfg (l1 ++ Some b :: Some a :: l2).
Proof. exact different_kinds_commute. Qed.
Print Assumptions C19_options_of_different_kinds_commute.

(* ... so an evaluator built from an option list with nil entries evaluates exactly like the one built without them *)
Theorem C19_nil_option_does_not_change_evaluation : forall re_ok re_match l1 l2 recorder E P c f,
  run re_ok re_match (opts_of (build_ecfg (l1 ++ None :: l2)) recorder) E P c f =
  run re_ok re_match (opts_of (build_ecfg (l1 ++ l2)) recorder) E P c f.
Proof. exact nil_option_does_not_change_evaluation. Qed.
Print Assumptions C19_nil_option_does_not_change_evaluation.

(* C16 Encoded JSON keeps the wire schema (partial: "syntactically valid JSON text" and the agreement of the four
   encode / four decode paths are checked on the real library at run time; all paths funnel into the two functions
   modelled here) *)
From LD Require Import Base F32 Data Model Ops Codec CodecFacts.

(* for EVERY flag value: every legacy property present with its schema type, every list an array even when empty *)
Theorem C16_flag_schema : forall f, schema_flag (encode_flag f) = true.
Proof. exact encode_flag_schema. Qed.
Print Assumptions C16_flag_schema.

Theorem C16_segment_schema : forall sg, schema_segment (encode_segment sg) = true.
Proof. exact encode_segment_schema. Qed.
Print Assumptions C16_segment_schema.

(* nested items *)
Theorem C16_clause_schema : forall c, schema_clause (enc_clause c) = true.
Proof. exact clause_ok. Qed.
Print Assumptions C16_clause_schema.
Theorem C16_target_schema : forall t, schema_target (enc_target t) = true.
Proof. exact target_ok. Qed.
Print Assumptions C16_target_schema.
Theorem C16_rule_schema : forall r, schema_rule (enc_rule r) = true.
Proof. exact rule_ok. Qed.
Print Assumptions C16_rule_schema.
Theorem C16_rollout_schema : forall x, schema_vorr (enc_vorr_props x) = true.
Proof. exact vorr_ok. Qed.
Print Assumptions C16_rollout_schema.

(* the schema predicate is not vacuous: it rejects an object that lacks a required list *)
Theorem C16_schema_rejects_missing_list : schema_flag (JObj [(s "key", JStr [])]) = false.
Proof. exact schema_rejects_missing_list. Qed.
Print Assumptions C16_schema_rejects_missing_list.

(* the property names in the source (gen/Tables.v, regenerated on every run): every legacy property is written by the
   encoder, and the model's names are the source's *)
From LD Require Import TablesJson.
From LDGen Require Import Tables.
From Coq Require Import String.
Theorem C16_legacy_properties_are_written : forallb (fun p => mem_s p written_properties) legacy_required = true.
Proof. exact legacy_properties_are_written. Qed.
Print Assumptions C16_legacy_properties_are_written.
Theorem C16_model_names_are_source_names :
  forallb (fun p => mem_s p read_properties && mem_s p written_properties)
          (flag_names ++ segment_names ++ clause_names ++ target_names ++ rule_names)%list = true.
Proof. exact model_property_names_are_the_source_names. Qed.
Print Assumptions C16_model_names_are_source_names.

(* C10 Recursion safety *)
From LD Require Import Base F32 Data Model Ops Bucket Eval EvalFacts Safety WellFormed Pure Order Cycles Acyclic.

(* termination for every prerequisite graph and every segment graph: with the fuel run supplies, never OutOfFuel *)
Theorem C10_terminates : forall re_ok re_match o E P c f, exists out, run re_ok re_match o E P c f = Done out.
Proof. exact run_total. Qed.
Print Assumptions C10_terminates.

Theorem C10_segment_fuel_adequate : forall re_ok re_match o E P c fuel chain sg,
  NoDup chain -> incl chain (seg_keys E) -> In (sg_key sg) (seg_keys E) ->
  (List.length (seg_keys E) < fuel + List.length chain)%nat ->
  safe (seg_contains re_ok re_match o E P c fuel chain sg).
Proof. exact safe_seg_contains. Qed.
Print Assumptions C10_segment_fuel_adequate.

Theorem C10_flag_fuel_adequate : forall re_ok re_match o E P c fuel chain f,
  NoDup (chain ++ [f_key f]) -> incl (tl (chain ++ [f_key f])) (flag_keys E) ->
  (List.length (flag_keys E) + 2 <= fuel + List.length chain)%nat ->
  safe (eval_flag re_ok re_match o E P c fuel chain f).
Proof. exact safe_eval_flag. Qed.
Print Assumptions C10_flag_fuel_adequate.

(* re-entering a flag on the current path aborts ... *)
Theorem C10_prerequisite_cycle_aborts : forall o E ev f chain' p rest pf st,
  assoc (pq_key p) (e_flags E) = Some pf -> mem_str (f_key pf) chain' = true ->
  fst (prereq_loop o E ev f chain' (p :: rest) st) = Done PAbort.
Proof. exact prereq_cycle_aborts. Qed.
Print Assumptions C10_prerequisite_cycle_aborts.

(* ... an aborted nested evaluation aborts its dependent without recording an event for it ... *)
Theorem C10_abort_propagates_without_event : forall o E ev f chain' p rest pf st d st1,
  assoc (pq_key p) (e_flags E) = Some pf -> mem_str (f_key pf) chain' = false ->
  ev pf (mkst (s_cache st) (s_status st) (OGetFlag (pq_key p) :: s_trace st)) = (Done (d, false), st1) ->
  prereq_loop o E ev f chain' (p :: rest) st = (Done PAbort, st1).
Proof. exact prereq_abort_propagates. Qed.
Print Assumptions C10_abort_propagates_without_event.

(* ... and an aborted evaluation surfaces as MALFORMED_FLAG with no value and no index, never another error kind *)
Theorem C10_abort_is_malformed : forall re_ok re_match o E P c f d st1,
  c <> CInvalid ->
  eval_flag re_ok re_match o E P c (flag_fuel E) [] f st0 = (Done (d, false), st1) ->
  exists out, run re_ok re_match o E P c f = Done out /\
              d_value (out_detail out) = JNull /\ d_index (out_detail out) = None /\
              rs_kind (d_reason (out_detail out)) = RError KMalformed.
Proof. exact run_abort_is_malformed. Qed.
Print Assumptions C10_abort_is_malformed.

(* a segment found on its own path is a cycle; whatever surfaces from a segment evaluation started on an empty path
   is MALFORMED_FLAG (the cycle error is always wrapped by the enclosing segment rule) *)
Theorem C10_segment_cycle : forall re_ok re_match o E P c n chain sg,
  mem_str (sg_key sg) chain = true -> p_seg re_ok re_match o E P c (S n) chain sg = Done (Err (ECircSeg (sg_key sg))).
Proof. exact p_seg_cycle. Qed.
Print Assumptions C10_segment_cycle.

Theorem C10_segment_errors_are_malformed : forall re_ok re_match o E P c sg,
  post (seg_contains re_ok re_match o E P c (seg_fuel E) [] sg) clause_err_ok.
Proof. exact post_seg_top. Qed.
Print Assumptions C10_segment_errors_are_malformed.

(* ---- shared acyclic references are not cycles ----
   srank / frank: a rank that strictly decreases along every segment reference / prerequisite edge the store can resolve
   (the definition of an acyclic graph; diamonds and chains of any depth have one). Under that hypothesis the evaluator is
   pointwise equal -- result, state and trace, from every start state, with any fuel and any path prefix of larger rank --
   to seg_nc / eval_nc, the same evaluator with the cycle check deleted: every flag or segment reached along several
   paths is evaluated normally on each of them and nothing is ever reported as a cycle. *)
Theorem C10_acyclic_segments_evaluate_normally : forall re_ok re_match o E P c srank,
  acyclic_segments E srank -> forall fuel chain sg,
  seg_refs_ok E srank sg -> (forall k, In k chain -> (srank (sg_key sg) < srank k)%nat) ->
  forall st, seg_contains re_ok re_match o E P c fuel chain sg st = seg_nc re_ok re_match o E P c fuel sg st.
Proof. exact seg_contains_nocheck. Qed.
Print Assumptions C10_acyclic_segments_evaluate_normally.

Theorem C10_acyclic_flags_evaluate_normally : forall re_ok re_match o E P c srank,
  acyclic_segments E srank -> forall frank, acyclic_flags E frank -> forall fuel chain f,
  prereqs_ok E frank f -> (forall k, In k chain -> (frank (f_key f) < frank k)%nat) ->
  forall st, eval_flag re_ok re_match o E P c fuel chain f st = eval_nc re_ok re_match o E P c fuel f st.
Proof. exact eval_flag_nocheck. Qed.
Print Assumptions C10_acyclic_flags_evaluate_normally.

Theorem C10_acyclic_store_top_level : forall re_ok re_match o E P c srank,
  acyclic_segments E srank -> forall frank, acyclic_flags E frank -> forall f st, prereqs_ok E frank f ->
  eval_flag re_ok re_match o E P c (flag_fuel E) [] f st = eval_nc re_ok re_match o E P c (flag_fuel E) f st.
Proof. exact acyclic_store_evaluates_without_cycle_check. Qed.
Print Assumptions C10_acyclic_store_top_level.

(* the hypotheses hold for a diamond: top -> {left, right} -> shared *)
Theorem C10_diamond_is_acyclic :
  acyclic_flags diamond diamond_rank /\ prereqs_ok diamond diamond_rank (mkf (s "top") [s "left"; s "right"]) /\
  acyclic_segments diamond (fun _ => 0%nat).
Proof. exact diamond_is_acyclic. Qed.
Print Assumptions C10_diamond_is_acyclic.

(* ---- "at any depth including beyond 20 levels": the chains as Go implements them ----
   The model threads immutable lists.  The code threads slice headers BY VALUE over backing arrays that a caller, its
   callee and the callee's siblings share (preallocated for 20 entries, reallocated by append beyond).  Slices.v models
   exactly that (headers, a heap of arrays, append writing in place or copying), and the walk over the shared arrays
   shows every node the chain that the immutable walk shows it -- for every reference tree, every preallocated capacity
   and every growth policy of append.  *)
From LD Require Import Slices SlicesSpec TablesChain.
From LDGen Require Import Tables.

Theorem C10_shared_arrays_implement_the_chain : forall (grow : nat -> nat) (prealloc : nat) (t : tree),
  let '(_, seen, completed) := walk grow (make_heap prealloc) (make_slice prealloc) t in
  (seen, completed) = pwalk [] t.
Proof. exact shared_arrays_implement_the_chain. Qed.
Print Assumptions C10_shared_arrays_implement_the_chain.

(* from any well-formed header, and the caller's view of the heap is left as it was *)
Theorem C10_callee_leaves_callers_chain_intact : forall grow t h sl, wf h sl ->
  let '(h', seen, completed) := walk grow h sl t in
  (seen, completed) = pwalk (read h sl) t /\ read h' sl = read h sl.
Proof. exact callee_leaves_chain_intact. Qed.
Print Assumptions C10_callee_leaves_callers_chain_intact.

(* the two assumptions of that model, read from the source on every run: chain records are received by value (never
   through a pointer, never with their address taken), and a chain field is only ever given an array of its own (`make`,
   nil, the only slice taken of a local array), the same field of a chain record with one element appended, or a copy of
   the same field's header *)
Theorem C10_chain_discipline_in_source :
  forallb (fun w => String.eqb (snd w) "append-self" || String.eqb (snd w) "fresh" || String.eqb (snd w) "copy") chain_writes_src &&
  forallb (fun w => String.eqb (snd w) "value") chain_headers_src = true.
Proof. exact chain_discipline_in_source. Qed.
Print Assumptions C10_chain_discipline_in_source.

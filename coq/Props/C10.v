From LD Require Import Base F32 Data Model Ops Bucket Eval EvalFacts.
(* first obligation; the full statements of DESIGN.md section 6 are added as they are proved *)
Theorem C10_invalid_ctx_untouched : forall re_ok re_match o E P f,
  run re_ok re_match o E P CInvalid f = Done (mkoutcome (err_detail KUserNotSpecified) false []).
Proof. exact run_invalid. Qed.
Print Assumptions C10_invalid_ctx_untouched.

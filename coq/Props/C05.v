(* C05 Segment membership semantics (regular segments), on the reference interpreter *)
From LD Require Import Base F32 Data Model Ops Bucket Eval EvalFacts Pure Order SegSpec.

Theorem C05_lists_priority : forall c sg,
  regular_lists c sg = if included_any c sg then Some true else if excluded_any c sg then Some false else None.
Proof. exact regular_lists_spec. Qed.
Print Assumptions C05_lists_priority.

(* included_any / excluded_any unfold to the plain user list OR a per-kind list; the per-kind part says exactly "its key is
   in a list for one of its kinds", for single-kind and multi-kind contexts alike (the defect repaired by bc60e70 was
   that a single-kind user context skipped the per-kind lists: the statement below has no such exception) *)
Theorem C05_per_kind_lists : forall c ts, Forall (fun t => st_pre t = None) ts ->
  (per_kind c ts = true <-> exists t x, In t ts /\ ctx_by_kind c (st_kind t) = Some x /\ In (c_key x) (st_values t)).
Proof. exact per_kind_spec. Qed.
Print Assumptions C05_per_kind_lists.
Theorem C05_included_any_unfolds : forall c sg,
  included_any c sg = (match ctx_key_by_kind c kind_user with Some k => find_key k (sg_included sg) (sg_pre_inc sg) | None => false end
                       || per_kind c (sg_inc_ctx sg))%bool /\
  excluded_any c sg = (match ctx_key_by_kind c kind_user with Some k => find_key k (sg_excluded sg) (sg_pre_exc sg) | None => false end
                       || per_kind c (sg_exc_ctx sg))%bool.
Proof. exact included_any_unfolds. Qed.
Print Assumptions C05_included_any_unfolds.

Theorem C05_membership : forall re_ok re_match o E P c n chain sg,
  sg_unbounded sg = false -> mem_str (sg_key sg) chain = false ->
  p_seg re_ok re_match o E P c (S n) chain sg =
  if included_any c sg then Done (Ok true)
  else if excluded_any c sg then Done (Ok false)
  else p_seg_rules (p_seg_rule re_ok re_match o E c (p_seg re_ok re_match o E P c n (chain ++ [sg_key sg])) sg)
                   (sg_key sg) (sg_rules sg).
Proof. exact p_seg_regular. Qed.
Print Assumptions C05_membership.

(* rules in listed order, first match; an error inside a rule is wrapped with the segment's key *)
Theorem C05_rules_first_match : forall rm key rs,
  p_seg_rules rm key rs = first_decided (segrule_step rm key) rs (Done (Ok false)).
Proof. exact p_seg_rules_first. Qed.
Print Assumptions C05_rules_first_match.

Theorem C05_weighted_rule : forall re_ok re_match o E c segc sg r w b fl,
  sr_weight r = Some w ->
  p_all_clauses (p_clause re_ok re_match E c segc) (sr_clauses r) = Done (Ok true) ->
  compute_bucket (o_secondary o) c false None (sr_kind r) (sg_key sg) (sr_bucket_by r) (sg_salt sg) = Ok (b, fl) ->
  p_seg_rule re_ok re_match o E c segc sg r =
  Done (Ok (match fl with BLacksKind => false | _ => f32_ltb b (weight_frac w) end)).
Proof. exact p_seg_rule_weighted. Qed.
Print Assumptions C05_weighted_rule.

Theorem C05_rollout_kind_absent : forall sec x isexp seed kind key attr salt b,
  compute_bucket sec x isexp seed kind key attr salt = Ok (b, BLacksKind) <->
  (isexp || negb (ref_defined attr) || negb (ref_has_err attr) = true) /\ ctx_by_kind x kind = None /\ b = f32_zero.
Proof. exact bucket_lacks_kind. Qed.
Print Assumptions C05_rollout_kind_absent.

(* a segment-match clause: true iff the context is in at least one referenced segment that exists in the store;
   missing segments and non-string values are skipped; negation inverts exactly that *)
Theorem C05_segment_match_clause : forall E segc negate vals,
  p_any_segment E segc negate vals = first_decided (segkey_step E segc negate) vals (Done (Ok negate)).
Proof. exact p_any_segment_first. Qed.
Print Assumptions C05_segment_match_clause.

Theorem C05_missing_segment_skipped : forall E segc neg k,
  assoc k (e_segments E) = None -> segkey_step E segc neg (JStr k) = Done None.
Proof. exact segkey_step_missing. Qed.
Print Assumptions C05_missing_segment_skipped.

Theorem C05_non_string_skipped : forall E segc neg v, (forall k, v <> JStr k) -> segkey_step E segc neg v = Done None.
Proof. exact segkey_step_nonstring. Qed.
Print Assumptions C05_non_string_skipped.

(* ---- the defect found in the unchanged repository, as a kernel-checked refutation of the original code ---- *)
From LD Require Import Legacy.
Theorem C05_legacy_refuted :
  per_kind (CSingle user_a) (sg_inc_ctx seg_user_list) = true /\
  regular_lists_legacy (CSingle user_a) seg_user_list = None /\
  regular_lists_legacy (CMulti [user_a; mksingle (s "zz") (s "q") None false None []]) seg_user_list = Some true /\
  regular_lists (CSingle user_a) seg_user_list = Some true.
Proof. exact C05_C20_legacy_refuted. Qed.
Print Assumptions C05_legacy_refuted.

(* C02 Flag decision order: off, prerequisites, targets, rules, fallthrough.
   Stated on the reference interpreter (Pure.v); C02_model_is_reference ties the trace-producing model to it. *)
From LD Require Import Base F32 Data Model Ops Bucket Eval EvalFacts Pure Refine Order.

(* the model (what is run against the implementation) computes the reference interpreter's value, index, reason *)
Theorem C02_model_is_reference : forall re_ok re_match o E P c f out,
  run re_ok re_match o E P c f = Done out ->
  exists d, p_run re_ok re_match o E P c f = Done d /\
            d_value (out_detail out) = d_value d /\ d_index (out_detail out) = d_index d /\
            rs_kind (d_reason (out_detail out)) = rs_kind (d_reason d) /\
            rs_inexp (d_reason (out_detail out)) = rs_inexp (d_reason d).
Proof. exact run_is_pure. Qed.
Print Assumptions C02_model_is_reference.

(* stage 1: targeting off gives the off variation with reason OFF, whatever else the flag contains *)
Theorem C02_off : forall re_ok re_match o E P c n chain f,
  f_on f = false -> p_eval re_ok re_match o E P c (S n) chain f = Done (p_off_value f (plain_reason ROff), true).
Proof. exact p_eval_off. Qed.
Print Assumptions C02_off.

(* stage 2: prerequisites are examined in listed order; the outcome is decided by the FIRST one that is missing,
   unmet, cyclic or aborted, all earlier ones being met *)
Theorem C02_first_unmet_prerequisite : forall E ev chain' ps out,
  p_prereqs E ev chain' ps = Done out ->
  (exists pre p post, ps = pre ++ p :: post /\ Forall (fun q => prereq_step E ev chain' q = Done None) pre /\
                      prereq_step E ev chain' p = Done (Some out))
  \/ (Forall (fun q => prereq_step E ev chain' q = Done None) ps /\ out = POk).
Proof. exact p_prereqs_outcome. Qed.
Print Assumptions C02_first_unmet_prerequisite.

Theorem C02_prerequisite_failed_gives_off_variation : forall re_ok re_match o E P c n chain f k,
  f_on f = true -> prereqs_of re_ok re_match o E P c n chain f = Done (PFailed k) ->
  p_eval re_ok re_match o E P c (S n) chain f = Done (p_off_value f (plain_reason (RPrereqFailed k)), true).
Proof. exact p_eval_prereq_failed. Qed.
Print Assumptions C02_prerequisite_failed_gives_off_variation.

(* stage 3: with prerequisites met, a matching target decides regardless of any rule or of the fallthrough *)
Theorem C02_target_overrides_rules : forall re_ok re_match o E P c n chain f v,
  f_on f = true -> prereqs_of re_ok re_match o E P c n chain f = Done POk -> any_target_match c f = Some v ->
  p_eval re_ok re_match o E P c (S n) chain f = Done (p_get_variation f v (plain_reason RTarget), true).
Proof. exact p_eval_target. Qed.
Print Assumptions C02_target_overrides_rules.

(* stages 4 and 5: the first rule, in listed order, all of whose clauses match serves its variation/rollout with
   RULE_MATCH carrying that rule's index (= number of earlier rules) and id; a rule whose matching fails before any
   match aborts; only if no rule matches is the fallthrough served *)
Theorem C02_first_matching_rule : forall re_ok re_match o E P c f d ok,
  p_rules re_ok re_match o E c (p_seg re_ok re_match o E P c (seg_fuel E) []) f (f_rules f) 0 = Done (d, ok) ->
  (exists pre ru post, f_rules f = pre ++ ru :: post /\
      Forall (fun r => rule_status re_ok re_match o E P c r = Done (Ok false)) pre /\
      rule_status re_ok re_match o E P c ru = Done (Ok true) /\
      p_vr_detail o c f (ru_vr ru) (plain_reason (RRule (zlen pre) (ru_id ru))) = Done d /\ ok = true)
  \/ (exists pre ru post e, f_rules f = pre ++ ru :: post /\
      Forall (fun r => rule_status re_ok re_match o E P c r = Done (Ok false)) pre /\
      rule_status re_ok re_match o E P c ru = Done (Err e) /\
      d = err_detail (err_kind e) /\ ok = false)
  \/ (Forall (fun r => rule_status re_ok re_match o E P c r = Done (Ok false)) (f_rules f) /\
      p_vr_detail o c f (f_fallthrough f) (plain_reason RFallthrough) = Done d /\ ok = true).
Proof. exact p_rules_outcome. Qed.
Print Assumptions C02_first_matching_rule.

(* a rule or fallthrough with a fixed variation ignores any rollout also present *)
Theorem C02_fixed_variation_wins : forall o c vr v key salt,
  vr_var vr = Some v -> vr_result o c vr key salt = Done (Ok (v, false)).
Proof. exact vr_result_fixed. Qed.
Print Assumptions C02_fixed_variation_wins.

From LD Require Import Base F32 Data Model Ops Bucket Eval EvalFacts.
Theorem C02_fixed_variation_wins : forall o c vr v key salt,
  vr_var vr = Some v -> vr_result o c vr key salt = Done (Ok (v, false)).
Proof. exact vr_result_fixed. Qed.
Print Assumptions C02_fixed_variation_wins.

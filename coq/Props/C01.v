From LD Require Import Base F32 Data Model Ops Bucket Eval EvalFacts.
Theorem C01_invalid_ctx : forall re_ok re_match o E P f,
  run re_ok re_match o E P CInvalid f = Done (mkoutcome (err_detail KUserNotSpecified) false []).
Proof. exact run_invalid. Qed.
Print Assumptions C01_invalid_ctx.

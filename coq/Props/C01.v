(* C01 Evaluation is total and every result is well-formed. Statements only; proofs are in theories/. *)
From LD Require Import Base F32 Data Model Ops Bucket Eval EvalFacts Safety WellFormed.

(* for every flag (malformed or not), context, finite store and provider: a result, never a panic site, never out of fuel *)
Theorem C01_total : forall re_ok re_match o E P c f, exists out, run re_ok re_match o E P c f = Done out.
Proof. exact run_total. Qed.
Print Assumptions C01_total.

(* index in range with exactly that variation's value and a non-error reason | no index, null, MALFORMED_FLAG |
   no index, null, OFF / PREREQUISITE_FAILED only when the flag defines no off variation *)
Theorem C01_wellformed : forall re_ok re_match o E P c f out,
  c <> CInvalid -> run re_ok re_match o E P c f = Done out -> wf_detail f (out_detail out).
Proof. exact run_wellformed. Qed.
Print Assumptions C01_wellformed.

Theorem C01_error_kinds : forall re_ok re_match o E P c f out k,
  run re_ok re_match o E P c f = Done out -> rs_kind (d_reason (out_detail out)) = RError k ->
  (k = KMalformed /\ c <> CInvalid) \/ (k = KUserNotSpecified /\ c = CInvalid).
Proof. exact run_error_kinds. Qed.
Print Assumptions C01_error_kinds.

(* an invalid context yields USER_NOT_SPECIFIED, null, no index, and an empty trace: the stores are not consulted *)
Theorem C01_invalid_ctx : forall re_ok re_match o E P f,
  run re_ok re_match o E P CInvalid f = Done (mkoutcome (err_detail KUserNotSpecified) false []).
Proof. exact run_invalid. Qed.
Print Assumptions C01_invalid_ctx.

(* the served index is within the bounds of the variation list *)
Theorem C01_index_in_range : forall (l : list jv) i v, znth_opt l i = Some v -> (0 <= i < zlen l)%Z.
Proof. exact (@znth_in_range jv). Qed.
Print Assumptions C01_index_in_range.

(* the error types of the source (gen/Tables.v, regenerated on every run) and their kinds are the model's *)
From LD Require Import TablesErr.
From LDGen Require Import Tables.
From Coq Require Import String.
Theorem C01_error_kinds_match_source :
  error_kinds = [("badVariationError", "EvalErrorMalformedFlag"); ("emptyAttrRefError", "EvalErrorMalformedFlag");
                 ("badAttrRefError", "EvalErrorMalformedFlag"); ("emptyRolloutError", "EvalErrorMalformedFlag");
                 ("circularPrereqReferenceError", "EvalErrorMalformedFlag"); ("malformedSegmentError", "EvalErrorMalformedFlag")]%string
  /\ (err_kind (EBadVariation 0) = KMalformed /\ err_kind EEmptyAttr = KMalformed /\ err_kind (EBadAttr []) = KMalformed /\
      err_kind EEmptyRollout = KMalformed /\ err_kind (ECircPrereq []) = KMalformed /\
      err_kind (EMalformedSeg [] EEmptyAttr) = KMalformed /\ err_kind (ECircSeg []) = KException).
Proof. exact error_kinds_match_source. Qed.
Print Assumptions C01_error_kinds_match_source.

(* C08 Experiment attribution *)
From LD Require Import Base F32 Data Model Ops Bucket Eval EvalFacts Pure Order SegSpec.

Theorem C08_in_experiment_iff : forall o c vr key salt v inexp,
  vr_result o c vr key salt = Done (Ok (v, inexp)) ->
  inexp = true <->
  vr_var vr = None /\ is_experiment_rollout (vr_rollout vr) = true /\
  ctx_by_kind c (ro_ctxkind (vr_rollout vr)) <> None /\
  exists b fl wv, compute_bucket (o_secondary o) c true (ro_seed (vr_rollout vr)) (ro_ctxkind (vr_rollout vr)) key
                                 (ro_bucket_by (vr_rollout vr)) salt = Ok (b, fl) /\
                  chosen_bucket b (ro_vars (vr_rollout vr)) = Some wv /\ wv_untracked wv = false /\ v = wv_var wv.
Proof. exact vr_result_in_experiment. Qed.
Print Assumptions C08_in_experiment_iff.

Theorem C08_experiment_buckets_by_key : forall sec x seed kind key attr salt,
  compute_bucket sec x true seed kind key attr salt = compute_bucket false x true seed kind key ref_undef salt.
Proof. exact experiment_buckets_by_key. Qed.
Print Assumptions C08_experiment_buckets_by_key.

Theorem C08_is_experiment_formula : forall f r,
  is_experiment f r =
  rs_inexp r || match rs_kind r with
                | RFallthrough => f_track_ft f
                | RRule i _ => match znth_opt (f_rules f) i with Some ru => ru_track ru | None => false end
                | _ => false
                end.
Proof. exact is_experiment_formula. Qed.
Print Assumptions C08_is_experiment_formula.

Theorem C08_false_for_off_target_prereq_error : forall f k,
  match k with ROff | RTarget | RPrereqFailed _ | RError _ => True | _ => False end ->
  is_experiment f (plain_reason k) = false.
Proof. exact is_experiment_other_stages. Qed.
Print Assumptions C08_false_for_off_target_prereq_error.

(* ---- the defect found in the unchanged repository, as a kernel-checked refutation of the original code ---- *)
From LD Require Import Legacy.
Theorem C08_legacy_refuted :
  vr_result_legacy no_opts (CSingle user_a) exp_on_org (s "f") (s "salt") = Done (Ok (1%Z, true)) /\
  vr_result no_opts (CSingle user_a) exp_on_org (s "f") (s "salt") = Done (Ok (1%Z, false)).
Proof. exact Legacy.C08_legacy_refuted. Qed.
Print Assumptions C08_legacy_refuted.

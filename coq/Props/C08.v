(* C08 Experiment attribution *)
From LD Require Import Base F32 Data Model Ops Bucket Eval EvalFacts Pure Order SegSpec.

Theorem C08_in_experiment_iff : forall o c vr key salt v inexp,
  vr_result o c vr key salt = Done (Ok (v, inexp)) ->
  inexp = true <->
  vr_var vr = None /\ is_experiment_rollout (vr_rollout vr) = true /\
  ctx_by_kind c (ro_ctxkind (vr_rollout vr)) <> None /\
  exists b fl wv, compute_bucket (o_secondary o) c true (ro_seed (vr_rollout vr)) (ro_ctxkind (vr_rollout vr)) key
                                 (ro_bucket_by (vr_rollout vr)) salt = Ok (b, fl) /\
                  chosen_bucket b (ro_vars (vr_rollout vr)) = Some wv /\ wv_untracked wv = false /\ v = wv_var wv.
Proof. exact vr_result_in_experiment. Qed.
Print Assumptions C08_in_experiment_iff.

Theorem C08_experiment_buckets_by_key : forall sec x seed kind key attr salt,
  compute_bucket sec x true seed kind key attr salt = compute_bucket false x true seed kind key ref_undef salt.
Proof. exact experiment_buckets_by_key. Qed.
Print Assumptions C08_experiment_buckets_by_key.

Theorem C08_is_experiment_formula : forall f r,
  is_experiment f r =
  rs_inexp r || match rs_kind r with
                | RFallthrough => f_track_ft f
                | RRule i _ => match znth_opt (f_rules f) i with Some ru => ru_track ru | None => false end
                | _ => false
                end.
Proof. exact is_experiment_formula. Qed.
Print Assumptions C08_is_experiment_formula.

Theorem C08_false_for_off_target_prereq_error : forall f k,
  match k with ROff | RTarget | RPrereqFailed _ | RError _ => True | _ => False end ->
  is_experiment f (plain_reason k) = false.
Proof. exact is_experiment_other_stages. Qed.
Print Assumptions C08_false_for_off_target_prereq_error.

(* the first sentence of the property for a whole flag evaluation (any nesting level): the reason says in-experiment
   exactly when targeting is on, the prerequisites are met, no target matches, and the stage that then decides -- the
   first rule all of whose clauses match, or the fallthrough when none does -- serves a rollout whose own outcome is
   in-experiment (C08_in_experiment_iff says when that is) with a variation the flag has *)
From LD Require Import Attribution.
Theorem C08_whole_evaluation_attribution : forall re_ok re_match o E P c n chain f d ok,
  p_eval re_ok re_match o E P c (S n) chain f = Done (d, ok) ->
  (rs_inexp (d_reason d) = true <->
   f_on f = true /\ prereqs_of re_ok re_match o E P c n chain f = Done POk /\ any_target_match c f = None /\
   exists vr k i v, deciding_stage re_ok re_match o E P c f vr k /\
     vr_result o c vr (f_key f) (f_salt f) = Done (Ok (i, true)) /\ znth_opt (f_vars f) i = Some v /\
     d = mkdetail v (Some i) (mkreason k true None)).
Proof. exact in_experiment_whole_evaluation. Qed.
Print Assumptions C08_whole_evaluation_attribution.

Theorem C08_whole_evaluation_nonvacuous :
  p_eval (fun _ => false) (fun _ _ => false) (mkopts false false false) (mkenv [] []) None
         (CSingle (mksingle (s "user") (s "a") None false None [])) 1 [] exp_flag
  = Done (mkdetail (JBool true) (Some 1) (mkreason RFallthrough true None), true).
Proof. exact attribution_nonvacuous. Qed.
Print Assumptions C08_whole_evaluation_nonvacuous.

(* ---- the defect found in the unchanged repository, as a kernel-checked refutation of the original code ---- *)
From LD Require Import Legacy.
Theorem C08_legacy_refuted :
  vr_result_legacy no_opts (CSingle user_a) exp_on_org (s "f") (s "salt") = Done (Ok (1%Z, true)) /\
  vr_result no_opts (CSingle user_a) exp_on_org (s "f") (s "salt") = Done (Ok (1%Z, false)).
Proof. exact Legacy.C08_legacy_refuted. Qed.
Print Assumptions C08_legacy_refuted.

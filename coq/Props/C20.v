(* C20 Locality: results depend only on referenced data *)
From LD Require Import Base F32 Data Model Ops Bucket Eval EvalFacts Pure Order Locality Acyclic LocalityEval ExtraKind.
From Coq Require Import Permutation.

(* flag metadata (version, deleted, client-side availability, debug date, sampling, migration, track-events,
   summary exclusion) is never read when the flag is evaluated *)
Theorem C20_metadata : forall re_ok re_match o E P c fuel chain f m e,
  p_eval re_ok re_match o E P c fuel chain (with_meta f m e) = p_eval re_ok re_match o E P c fuel chain f.
Proof. exact metadata_irrelevant. Qed.
Print Assumptions C20_metadata.

(* an added context attribute is invisible to every clause that addresses another attribute ... *)
Theorem C20_extra_attribute_clause : forall re_ok re_match cl c n v,
  str_eqb (ref_component (cl_attr cl) 0) n = false ->
  clause_match_noseg re_ok re_match cl (add_attr_ctx c n v) = clause_match_noseg re_ok re_match cl c.
Proof. exact clause_ignores_unreferenced_attribute. Qed.
Print Assumptions C20_extra_attribute_clause.

(* ... to every rollout / experiment / weighted segment rule that buckets by another attribute or by key ... *)
Theorem C20_extra_attribute_bucket : forall sec c isexp seed kind key attr salt n v,
  str_eqb (ref_component attr 0) n = false -> str_eqb (s "key") n = false ->
  compute_bucket sec (add_attr_ctx c n v) isexp seed kind key attr salt = compute_bucket sec c isexp seed kind key attr salt.
Proof. exact bucket_ignores_unreferenced_attribute. Qed.
Print Assumptions C20_extra_attribute_bucket.

(* ... and to every target list *)
Theorem C20_extra_attribute_target : forall c n v t, target_match (add_attr_ctx c n v) t = target_match c t.
Proof. exact target_ignores_attributes. Qed.
Print Assumptions C20_extra_attribute_target.

Theorem C20_permute_clause_values : forall re_ok re_match c vals' x,
  cl_pre c = cpre_none -> Permutation (cl_values c) vals' ->
  clause_match_noseg re_ok re_match (with_values c vals') x = clause_match_noseg re_ok re_match c x.
Proof. exact clause_values_order_irrelevant. Qed.
Print Assumptions C20_permute_clause_values.

Theorem C20_permute_target_keys : forall c t vals',
  t_pre t = None -> Permutation (t_values t) vals' ->
  target_match c (mktarget (t_kind t) vals' (t_var t) None) = target_match c t.
Proof. exact target_keys_order_irrelevant. Qed.
Print Assumptions C20_permute_target_keys.

(* well-formed clauses (none of them fails) may be reordered inside a rule *)
Theorem C20_permute_clauses : forall (cm : clause -> res (er bool)) cls cls',
  (forall cl, In cl cls -> exists b, cm cl = Done (Ok b)) -> Permutation cls cls' ->
  p_all_clauses cm cls' = p_all_clauses cm cls.
Proof. exact clause_order_irrelevant. Qed.
Print Assumptions C20_permute_clauses.

(* rules appended after the deciding one change nothing *)
Theorem C20_append_rules : forall re_ok re_match o E c segc f rs extra r,
  (exists pre x post, indexed 0 rs = pre ++ x :: post /\
      Forall (fun y => rule_step re_ok re_match o E c segc f y = Done None) pre /\
      rule_step re_ok re_match o E c segc f x = Done (Some r)) ->
  p_rules re_ok re_match o E c segc f (rs ++ extra) 0 = p_rules re_ok re_match o E c segc f rs 0.
Proof. exact appended_rules_irrelevant. Qed.
Print Assumptions C20_append_rules.

(* a never-matching rule inserted before the rules changes only the reported rule index *)
Theorem C20_insert_dead_rule : forall re_ok re_match o E c segc f dead rs,
  p_all_clauses (p_clause re_ok re_match E c segc) (ru_clauses dead) = Done (Ok false) ->
  p_rules re_ok re_match o E c segc f (dead :: rs) 0 = shift_result (p_rules re_ok re_match o E c segc f rs 0).
Proof. exact dead_rule_only_shifts_index. Qed.
Print Assumptions C20_insert_dead_rule.

(* ---- whole evaluations ----
   flag_nr n f / env_nr E n: no clause (other than segmentMatch clauses, whose attribute is unused) and no bucket-by of
   the evaluated flag, of any stored flag or of any stored segment names n as the first component of its reference.
   Then adding the attribute n := v to every individual context leaves the whole outcome -- value, index, reason,
   experiment bit, store reads, big-segment queries, log lines, events -- unchanged; eval_flag_c states the same for
   every nested evaluation from every start state. *)
Theorem C20_unreferenced_attribute_whole_evaluation : forall re_ok re_match o E P c n v,
  str_eqb (s "key") n = false -> env_nr E n -> forall f, flag_nr n f ->
  run re_ok re_match o E P (add_attr_ctx c n v) f = run re_ok re_match o E P c f.
Proof. exact unreferenced_attribute_is_invisible. Qed.
Print Assumptions C20_unreferenced_attribute_whole_evaluation.

Theorem C20_unreferenced_attribute_nested : forall re_ok re_match o E P c n v,
  str_eqb (s "key") n = false -> env_nr E n -> forall fuel chain f, flag_nr n f -> forall st,
  eval_flag re_ok re_match o E P (add_attr_ctx c n v) fuel chain f st = eval_flag re_ok re_match o E P c fuel chain f st.
Proof. exact eval_flag_c. Qed.
Print Assumptions C20_unreferenced_attribute_nested.

Theorem C20_unreferenced_hypotheses_nonvacuous :
  let cl := mkclause [] (new_literal_ref (s "email")) op_in [JStr (s "a")] false cpre_none in
  let vr := mkvorr None (mkrollout [] [] [mkwvar 0 100000 false] (new_literal_ref (s "score")) None) in
  let f := mkflag (s "f") true [] [] [] [mkrule vr (s "r") [cl] false] vr None [JBool true] [] false false
                  (mkfmeta 0 false false 0 false false false None None) in
  flag_nr (s "extra") f /\ env_nr (mkenv [(s "f", f)] []) (s "extra") /\ str_eqb (s "key") (s "extra") = false.
Proof. exact hypotheses_hold_somewhere. Qed.
Print Assumptions C20_unreferenced_hypotheses_nonvacuous.

(* free x k: the configuration's kind k ([] = the default kind) is not the added context's kind; flag_free / env_free: every
   target list, context-target list, clause, rollout, segment rule, per-kind segment list and unbounded segment of the
   evaluated flag and of the whole store is free, and a clause on the attribute "kind" cannot match the added kind.
   Then adding the individual context x -- which turns a single-kind context into a multi-kind one -- leaves the whole
   outcome unchanged. (Before the repair bc60e70 this was false of the code: regular_lists consulted the context's own
   Kind().) *)
Theorem C20_unmentioned_kind_whole_evaluation : forall re_ok re_match o E P c x,
  free x [] -> env_free re_ok re_match E x -> forall f, flag_free re_ok re_match x f ->
  run re_ok re_match o E P (add_kind c x) f = run re_ok re_match o E P c f.
Proof. exact unmentioned_kind_is_invisible. Qed.
Print Assumptions C20_unmentioned_kind_whole_evaluation.
Theorem C20_unmentioned_kind_nested : forall re_ok re_match o E P c x,
  free x [] -> env_free re_ok re_match E x -> forall fuel chain f, flag_free re_ok re_match x f -> forall st,
  eval_flag re_ok re_match o E P (add_kind c x) fuel chain f st = eval_flag re_ok re_match o E P c fuel chain f st.
Proof. exact eval_flag_x. Qed.
Print Assumptions C20_unmentioned_kind_nested.

(* C06 Bucket value is the canonical LaunchDarkly hash (SHA-1 = FIPS 180-4 is validated by the standard's vectors;
   that crypto/sha1 implements it is what the correspondence run checks) *)
From LD Require Import Base F32 Data Sha1 Model Ops Bucket Buffer BucketSpec.

Theorem C06_hash_input_string : forall enable x is_exp seed kind key attr salt i v,
  (is_exp || negb (ref_defined attr) || negb (ref_has_err attr)) = true ->
  ctx_by_kind x kind = Some i -> get_value_for_ref i (effective_ref is_exp attr) = JStr v ->
  compute_bucket enable x is_exp seed kind key attr salt =
  Ok (hash_to_bucket (canonical_input seed key salt v (effective_secondary enable is_exp i)), BNone).
Proof. exact bucket_of_string. Qed.
Print Assumptions C06_hash_input_string.

Theorem C06_hash_input_integer : forall enable x is_exp seed kind key attr salt i d,
  (is_exp || negb (ref_defined attr) || negb (ref_has_err attr)) = true ->
  ctx_by_kind x kind = Some i -> get_value_for_ref i (effective_ref is_exp attr) = JNum d -> dy_is_int d = true ->
  compute_bucket enable x is_exp seed kind key attr salt =
  Ok (hash_to_bucket (canonical_input seed key salt (dec (dy_to_int d)) (effective_secondary enable is_exp i)), BNone).
Proof. exact bucket_of_integer. Qed.
Print Assumptions C06_hash_input_integer.

Theorem C06_invalid_bucket_by_is_error : forall enable x seed kind key attr salt,
  ref_defined attr = true -> ref_has_err attr = true ->
  compute_bucket enable x false seed kind key attr salt = Err (EBadAttr (ref_string attr)).
Proof. exact bucket_bad_ref. Qed.
Print Assumptions C06_invalid_bucket_by_is_error.

Theorem C06_missing_kind : forall enable x is_exp seed kind key attr salt,
  (is_exp || negb (ref_defined attr) || negb (ref_has_err attr)) = true -> ctx_by_kind x kind = None ->
  compute_bucket enable x is_exp seed kind key attr salt = Ok (f32_zero, BLacksKind).
Proof. exact bucket_missing_kind. Qed.
Print Assumptions C06_missing_kind.

Theorem C06_missing_attribute : forall enable x is_exp seed kind key attr salt i,
  (is_exp || negb (ref_defined attr) || negb (ref_has_err attr)) = true -> ctx_by_kind x kind = Some i ->
  get_value_for_ref i (effective_ref is_exp attr) = JNull ->
  compute_bucket enable x is_exp seed kind key attr salt = Ok (f32_zero, BNotFound).
Proof. exact bucket_missing_attribute. Qed.
Print Assumptions C06_missing_attribute.

Theorem C06_wrong_type : forall enable x is_exp seed kind key attr salt i v,
  (is_exp || negb (ref_defined attr) || negb (ref_has_err attr)) = true -> ctx_by_kind x kind = Some i ->
  get_value_for_ref i (effective_ref is_exp attr) = v ->
  match v with JBool _ | JArr _ | JObj _ => True | JNum d => dy_is_int d = false | _ => False end ->
  compute_bucket enable x is_exp seed kind key attr salt = Ok (f32_zero, BWrongType).
Proof. exact bucket_wrong_type. Qed.
Print Assumptions C06_wrong_type.

(* the growable buffer: contents = concatenation, for every initial capacity and every operation sequence *)
Theorem C06_buffer_refines_concat : forall cap ops,
  buf_data (fold_left buf_step ops (buf_new cap)) = concat (map op_bytes ops).
Proof. exact buffer_refines_concat. Qed.
Print Assumptions C06_buffer_refines_concat.

(* ... and never asks for a slice longer than its capacity: whatever is appended, from whatever initial capacity, every
   allocation inside grow is legal (newLen <= newCap) and the length stays within the capacity *)
Theorem C06_buffer_allocation_is_legal : forall b add, buf_ok b -> (0 <= add)%Z ->
  (zlen (buf_data b) + add <= buf_cap (grow b add))%Z /\ (0 <= buf_cap (grow b add))%Z.
Proof. exact grow_allocation_is_legal. Qed.
Print Assumptions C06_buffer_allocation_is_legal.
Theorem C06_buffer_length_within_capacity : forall cap ops, (0 <= cap)%Z ->
  buf_ok (fold_left buf_step ops (buf_new cap)).
Proof. exact buffer_length_within_capacity. Qed.
Print Assumptions C06_buffer_length_within_capacity.

(* the hex parser reads digit strings as numbers, without wrap-around as long as the value fits 64 bits *)
Theorem C06_hex_digits : forall ns acc,
  Forall (fun d => (0 <= d < 16)%Z) ns -> (0 <= acc)%Z -> (nib_val acc ns < two64)%Z ->
  parse_hex_aux acc (map nibble_char ns) = Some (nib_val acc ns).
Proof. exact parse_hex_aux_nibbles. Qed.
Print Assumptions C06_hex_digits.

Theorem C06_sha1_fips_vectors :
  hex_encode (sha1 (s "abc")) = s "a9993e364706816aba3e25717850c26c9cd0d89d" /\
  hex_encode (sha1 []) = s "da39a3ee5e6b4b0d3255bfef95601890afd80709" /\
  hex_encode (sha1 (s "abcdbcdecdefdefgefghfghighijhijkijkljklmklmnlmnomnopnopq")) = s "84983e441c3bd26ebaae4aa1f95129e5e54670f1".
Proof. exact (conj sha1_abc (conj sha1_empty sha1_448)). Qed.
Print Assumptions C06_sha1_fips_vectors.

Theorem C06_prefix_of_fips_vector :
  parse_hex (firstn hash_prefix_len (hex_encode (sha1 (s "abc")))) = Some 763804216667957270%Z.
Proof. exact prefix15_abc. Qed.
Print Assumptions C06_prefix_of_fips_vector.

(* the constants of the source (gen/Tables.v, regenerated on every run): 0xFFFFFFFFFFFFFFF, 15 hex digits, /100000.0 *)
From LD Require Import TablesBucket.
From LDGen Require Import Tables.
From Coq Require Import String.
Theorem C06_constants_match_source :
  long_scale_src = long_scale /\ hash_prefix_len_src = hash_prefix_len /\
  weight_divisors = [("evaluator.go"%string, 100000%Z); ("evaluator_segment.go"%string, 100000%Z)].
Proof. exact bucketing_constants_match_source. Qed.
Print Assumptions C06_constants_match_source.

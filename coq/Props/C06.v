(* C06: placeholder while the proofs are being written *)
From LD Require Import Base Sha1.
Theorem C06_sha1_vector : hex_encode (sha1 (s "abc")) = s "a9993e364706816aba3e25717850c26c9cd0d89d".
Proof. exact sha1_abc. Qed.
Print Assumptions C06_sha1_vector.

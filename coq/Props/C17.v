(* C17 Decoder robustness and leniency (partial: byte-level behaviour -- no panic on arbitrary bytes, zero value on
   error, destination untouched -- is explored on the real decoder at run time; the statements below are about the
   document tree, which is what the decoder sees after tokenising, except the last group, which is about the bytes:
   the nesting scan in front of the recursive readers) *)
From LD Require Import Base F32 Data Model Ops Codec CodecFacts PermDecode DefaultsDecode.
From Coq Require Import Permutation.

Theorem C17_unknown_ignored_flag : forall pre k v post,
  unknown flag_names k -> decode_flag (JObj (pre ++ (k, v) :: post)) = decode_flag (JObj (pre ++ post)).
Proof. exact decode_flag_ignores_unknown. Qed.
Print Assumptions C17_unknown_ignored_flag.
Theorem C17_unknown_ignored_segment : forall pre k v post,
  unknown segment_names k -> decode_segment (JObj (pre ++ (k, v) :: post)) = decode_segment (JObj (pre ++ post)).
Proof. exact decode_segment_ignores_unknown. Qed.
Print Assumptions C17_unknown_ignored_segment.
Theorem C17_unknown_ignored_clause : forall pre k v post,
  unknown clause_names k -> rd_clause (JObj (pre ++ (k, v) :: post)) = rd_clause (JObj (pre ++ post)).
Proof. exact rd_clause_ignores_unknown. Qed.
Print Assumptions C17_unknown_ignored_clause.
Theorem C17_unknown_ignored_rule : forall pre k v post,
  unknown rule_names k -> rd_rule (JObj (pre ++ (k, v) :: post)) = rd_rule (JObj (pre ++ post)).
Proof. exact rd_rule_ignores_unknown. Qed.
Print Assumptions C17_unknown_ignored_rule.
Theorem C17_unknown_ignored_target : forall pre k v post,
  unknown target_names k -> rd_target (JObj (pre ++ (k, v) :: post)) = rd_target (JObj (pre ++ post)).
Proof. exact rd_target_ignores_unknown. Qed.
Print Assumptions C17_unknown_ignored_target.

(* an explicit null means the same as omission *)
Theorem C17_null_is_omission_flag : forall n rest,
  In n nullable_flag_names -> decode_flag (JObj ((s n, JNull) :: rest)) = decode_flag (JObj rest).
Proof. exact flag_null_is_omission. Qed.
Print Assumptions C17_null_is_omission_flag.
Theorem C17_null_is_omission_segment : forall n rest,
  In n nullable_segment_names -> decode_segment (JObj ((s n, JNull) :: rest)) = decode_segment (JObj rest).
Proof. exact segment_null_is_omission. Qed.
Print Assumptions C17_null_is_omission_segment.
Theorem C17_null_is_omission_rule : forall n rest,
  In n ["clauses"; "variation"; "rollout"]%string -> rd_rule (JObj ((s n, JNull) :: rest)) = rd_rule (JObj rest).
Proof. exact rule_null_is_omission. Qed.
Print Assumptions C17_null_is_omission_rule.
Theorem C17_null_is_omission_clause : forall n rest,
  In n ["values"; "attribute"]%string -> rd_clause (JObj ((s n, JNull) :: rest)) = rd_clause (JObj rest).
Proof. exact clause_null_is_omission. Qed.
Print Assumptions C17_null_is_omission_clause.
Theorem C17_null_is_omission_rollout : forall n rest out,
  In n ["seed"; "bucketBy"]%string -> rd_rollout (JObj ((s n, JNull) :: rest)) out = rd_rollout (JObj rest) out.
Proof. exact rollout_null_is_omission. Qed.
Print Assumptions C17_null_is_omission_rollout.
Theorem C17_null_is_omission_segment_rule : forall n rest,
  In n ["clauses"; "weight"; "bucketBy"]%string -> rd_segrule (JObj ((s n, JNull) :: rest)) = rd_segrule (JObj rest).
Proof. exact segrule_null_is_omission. Qed.
Print Assumptions C17_null_is_omission_segment_rule.
(* ... except a rollout's variations *)
Theorem C17_rollout_variations_null_is_an_error : forall rest out,
  rd_rollout (JObj ((s "variations", JNull) :: rest)) out = None.
Proof. exact rollout_null_variations_is_an_error. Qed.
Print Assumptions C17_rollout_variations_null_is_an_error.

(* a wrongly typed property yields an error, not a partial value *)
Theorem C17_wrong_type_is_error : forall v rest, (forall x, v <> JStr x) -> decode_flag (JObj ((s "key", v) :: rest)) = None.
Proof. exact decode_flag_wrong_type_key. Qed.
Print Assumptions C17_wrong_type_is_error.
Theorem C17_not_an_object_is_error : forall v, (forall ps, v <> JObj ps) -> decode_flag v = None.
Proof. exact decode_flag_not_object. Qed.
Print Assumptions C17_not_an_object_is_error.

(* every property the encoder writes is one the decoder recognises (gen/Tables.v, regenerated on every run) *)
From LD Require Import TablesJson.
From LDGen Require Import Tables.
From Coq Require Import String.
Theorem C17_written_properties_are_read :
  forallb (fun p => String.eqb p "" || mem_s p read_properties) written_properties = true.
Proof. exact written_properties_are_read. Qed.
Print Assumptions C17_written_properties_are_read.

(* ---- property order is irrelevant ----
   For every object the decoder reads -- flag, segment, rule, clause, target, prerequisite, rollout, variation-or-rollout,
   weighted variation, segment rule, per-kind segment target, clientSideAvailability, migration -- any permutation of its
   members (names pairwise distinct) decodes to the same value, or fails in both orders. The proofs go through
   "any two steps for different names commute" (484 name pairs for a flag), so a decoder whose result depended on which
   of two properties came first would break them. *)
Theorem C17_order_irrelevant_flag : forall l l', Permutation l l' -> NoDup (map fst l) -> decode_flag (JObj l) = decode_flag (JObj l').
Proof. exact perm_flag. Qed.
Print Assumptions C17_order_irrelevant_flag.
Theorem C17_order_irrelevant_segment : forall l l', Permutation l l' -> NoDup (map fst l) -> decode_segment (JObj l) = decode_segment (JObj l').
Proof. exact perm_segment. Qed.
Print Assumptions C17_order_irrelevant_segment.
Theorem C17_order_irrelevant_rule : forall l l', Permutation l l' -> NoDup (map fst l) -> rd_rule (JObj l) = rd_rule (JObj l').
Proof. exact perm_rule. Qed.
Print Assumptions C17_order_irrelevant_rule.
Theorem C17_order_irrelevant_clause : forall l l', Permutation l l' -> NoDup (map fst l) -> rd_clause (JObj l) = rd_clause (JObj l').
Proof. exact perm_clause. Qed.
Print Assumptions C17_order_irrelevant_clause.
Theorem C17_order_irrelevant_target : forall l l', Permutation l l' -> NoDup (map fst l) -> rd_target (JObj l) = rd_target (JObj l').
Proof. exact perm_target. Qed.
Print Assumptions C17_order_irrelevant_target.
Theorem C17_order_irrelevant_prerequisite : forall l l', Permutation l l' -> NoDup (map fst l) -> rd_prereq (JObj l) = rd_prereq (JObj l').
Proof. exact perm_prereq. Qed.
Print Assumptions C17_order_irrelevant_prerequisite.
Theorem C17_order_irrelevant_rollout : forall l l', Permutation l l' -> NoDup (map fst l) ->
  forall out, rd_rollout (JObj l) out = rd_rollout (JObj l') out.
Proof. exact perm_rollout. Qed.
Print Assumptions C17_order_irrelevant_rollout.
Theorem C17_order_irrelevant_fallthrough : forall l l', Permutation l l' -> NoDup (map fst l) ->
  forall out, rd_vorr (JObj l) out = rd_vorr (JObj l') out.
Proof. exact perm_vorr. Qed.
Print Assumptions C17_order_irrelevant_fallthrough.
Theorem C17_order_irrelevant_weighted_variation : forall l l', Permutation l l' -> NoDup (map fst l) -> rd_wvar (JObj l) = rd_wvar (JObj l').
Proof. exact perm_wvar. Qed.
Print Assumptions C17_order_irrelevant_weighted_variation.
Theorem C17_order_irrelevant_segment_rule : forall l l', Permutation l l' -> NoDup (map fst l) -> rd_segrule (JObj l) = rd_segrule (JObj l').
Proof. exact perm_segrule. Qed.
Print Assumptions C17_order_irrelevant_segment_rule.
Theorem C17_order_irrelevant_segment_target : forall l l', Permutation l l' -> NoDup (map fst l) -> rd_segtarget (JObj l) = rd_segtarget (JObj l').
Proof. exact perm_segtarget. Qed.
Print Assumptions C17_order_irrelevant_segment_target.
Theorem C17_order_irrelevant_client_side_availability : forall l l', Permutation l l' -> NoDup (map fst l) ->
  forall m, rd_csa (JObj l) m = rd_csa (JObj l') m.
Proof. exact perm_csa. Qed.
Print Assumptions C17_order_irrelevant_client_side_availability.

(* ---- an omitted property equals its default ----
   flag_defaults etc. list, per object, every property that has a default together with the default's spellings (an empty
   list or null for list-valued properties, "" for strings, false, 0, null for optional integers, {} for the fallthrough);
   a document that spells one of them out decodes exactly like the document without it. *)
Theorem C17_default_is_omission_flag : forall pre post k d, NoDup (map fst (pre ++ (k, d) :: post)) -> In (k, d) flag_defaults ->
  decode_flag (JObj (pre ++ (k, d) :: post)) = decode_flag (JObj (pre ++ post)).
Proof. exact default_flag. Qed.
Print Assumptions C17_default_is_omission_flag.
Theorem C17_default_is_omission_segment : forall pre post k d, NoDup (map fst (pre ++ (k, d) :: post)) -> In (k, d) segment_defaults ->
  decode_segment (JObj (pre ++ (k, d) :: post)) = decode_segment (JObj (pre ++ post)).
Proof. exact default_segment. Qed.
Print Assumptions C17_default_is_omission_segment.
Theorem C17_default_is_omission_rule : forall pre post k d, NoDup (map fst (pre ++ (k, d) :: post)) -> In (k, d) rule_defaults ->
  rd_rule (JObj (pre ++ (k, d) :: post)) = rd_rule (JObj (pre ++ post)).
Proof. exact default_rule. Qed.
Print Assumptions C17_default_is_omission_rule.
Theorem C17_default_is_omission_clause : forall pre post k d, NoDup (map fst (pre ++ (k, d) :: post)) -> In (k, d) clause_defaults ->
  rd_clause (JObj (pre ++ (k, d) :: post)) = rd_clause (JObj (pre ++ post)).
Proof. exact default_clause. Qed.
Print Assumptions C17_default_is_omission_clause.
Theorem C17_default_is_omission_target : forall pre post k d, NoDup (map fst (pre ++ (k, d) :: post)) -> In (k, d) target_defaults ->
  rd_target (JObj (pre ++ (k, d) :: post)) = rd_target (JObj (pre ++ post)).
Proof. exact default_target. Qed.
Print Assumptions C17_default_is_omission_target.
Theorem C17_default_is_omission_prerequisite : forall pre post k d, NoDup (map fst (pre ++ (k, d) :: post)) -> In (k, d) prereq_defaults ->
  rd_prereq (JObj (pre ++ (k, d) :: post)) = rd_prereq (JObj (pre ++ post)).
Proof. exact default_prereq. Qed.
Print Assumptions C17_default_is_omission_prerequisite.
Theorem C17_default_is_omission_weighted_variation : forall pre post k d, NoDup (map fst (pre ++ (k, d) :: post)) -> In (k, d) wvar_defaults ->
  rd_wvar (JObj (pre ++ (k, d) :: post)) = rd_wvar (JObj (pre ++ post)).
Proof. exact default_wvar. Qed.
Print Assumptions C17_default_is_omission_weighted_variation.
Theorem C17_default_is_omission_segment_rule : forall pre post k d, NoDup (map fst (pre ++ (k, d) :: post)) -> In (k, d) segrule_defaults ->
  rd_segrule (JObj (pre ++ (k, d) :: post)) = rd_segrule (JObj (pre ++ post)).
Proof. exact default_segrule. Qed.
Print Assumptions C17_default_is_omission_segment_rule.
Theorem C17_default_is_omission_segment_target : forall pre post k d, NoDup (map fst (pre ++ (k, d) :: post)) -> In (k, d) segtarget_defaults ->
  rd_segtarget (JObj (pre ++ (k, d) :: post)) = rd_segtarget (JObj (pre ++ post)).
Proof. exact default_segtarget. Qed.
Print Assumptions C17_default_is_omission_segment_target.

(* ---- byte level: the nesting scan that the byte entry points run before the recursive readers ---- *)
From LD Require Import Nesting NestingSpec TablesNest.

(* whatever the bytes are -- well-formed or not -- a byte string that is let through never has more than 10000 brackets
   open outside string literals at any point, and one that has is refused: the recursion of the readers behind the scan
   (one level per open bracket) is bounded for arbitrary input *)
Theorem C17_accepted_bytes_have_bounded_nesting : forall bs,
  nesting_ok bs = true <-> (forall pre suf : str, bs = (pre ++ suf)%list -> open_level pre <= 10000).
Proof. exact nesting_ok_iff. Qed.
Print Assumptions C17_accepted_bytes_have_bounded_nesting.

(* the scan is exact on documents: the compact text of any JSON tree (strings may hold brackets, quotes, backslashes) is
   let through if and only if the tree nests at most 10000 arrays / objects -- nothing shallower is refused *)
Theorem C17_nesting_scan_is_exact_on_documents : forall t, doc_plain t = true ->
  nesting_ok (render t) = (doc_depth t <=? 10000).
Proof. exact nesting_ok_exact. Qed.
Print Assumptions C17_nesting_scan_is_exact_on_documents.

Theorem C17_deep_arrays_are_refused : forall n w, forallb plain_byte w = true ->
  nesting_ok (render (nest n (DTok w))) = (Z.of_nat n <=? 10000).
Proof. exact deep_arrays_refused. Qed.
Print Assumptions C17_deep_arrays_are_refused.

Theorem C17_nesting_constants_match_source :
  memZ 10000 nesting_limits_src = true /\
  forallb (fun c => memZ c nesting_chars_src) [34; 91; 92; 93; 123; 125]%list = true.
Proof. exact nesting_constants_match_source. Qed.
Print Assumptions C17_nesting_constants_match_source.

(* the byte entry point as a whole, on the text of any document (compact rendering, any printer of numbers that uses no
   brackets and no quotes): it is the document-tree decoder of the theorems above for documents that nest at most 10000
   deep, and an error (zero value) for every deeper one -- so unknown properties, order, defaults and nulls behave through
   UnmarshalFeatureFlag / UnmarshalSegment as stated above up to that depth *)
From LD Require Import NestingCodec.
Theorem C17_byte_entry_point_flag : forall (num : dy -> str), (forall d, forallb plain_byte (num d) = true) ->
  forall v, unmarshal_flag_text num v = if jv_depth v <=? 10000 then decode_flag v else None.
Proof. exact unmarshal_flag_text_spec. Qed.
Print Assumptions C17_byte_entry_point_flag.
Theorem C17_byte_entry_point_segment : forall (num : dy -> str), (forall d, forallb plain_byte (num d) = true) ->
  forall v, unmarshal_segment_text num v = if jv_depth v <=? 10000 then decode_segment v else None.
Proof. exact unmarshal_segment_text_spec. Qed.
Print Assumptions C17_byte_entry_point_segment.

(* C17 Decoder robustness and leniency (partial: byte-level behaviour -- no panic on arbitrary bytes, zero value on
   error, destination untouched -- is explored on the real decoder at run time; the statements below are about the
   document tree, which is what the decoder sees after tokenising) *)
From LD Require Import Base F32 Data Model Ops Codec CodecFacts.

Theorem C17_unknown_ignored_flag : forall pre k v post,
  unknown flag_names k -> decode_flag (JObj (pre ++ (k, v) :: post)) = decode_flag (JObj (pre ++ post)).
Proof. exact decode_flag_ignores_unknown. Qed.
Print Assumptions C17_unknown_ignored_flag.
Theorem C17_unknown_ignored_segment : forall pre k v post,
  unknown segment_names k -> decode_segment (JObj (pre ++ (k, v) :: post)) = decode_segment (JObj (pre ++ post)).
Proof. exact decode_segment_ignores_unknown. Qed.
Print Assumptions C17_unknown_ignored_segment.
Theorem C17_unknown_ignored_clause : forall pre k v post,
  unknown clause_names k -> rd_clause (JObj (pre ++ (k, v) :: post)) = rd_clause (JObj (pre ++ post)).
Proof. exact rd_clause_ignores_unknown. Qed.
Print Assumptions C17_unknown_ignored_clause.
Theorem C17_unknown_ignored_rule : forall pre k v post,
  unknown rule_names k -> rd_rule (JObj (pre ++ (k, v) :: post)) = rd_rule (JObj (pre ++ post)).
Proof. exact rd_rule_ignores_unknown. Qed.
Print Assumptions C17_unknown_ignored_rule.
Theorem C17_unknown_ignored_target : forall pre k v post,
  unknown target_names k -> rd_target (JObj (pre ++ (k, v) :: post)) = rd_target (JObj (pre ++ post)).
Proof. exact rd_target_ignores_unknown. Qed.
Print Assumptions C17_unknown_ignored_target.

(* an explicit null means the same as omission *)
Theorem C17_null_is_omission_flag : forall n rest,
  In n nullable_flag_names -> decode_flag (JObj ((s n, JNull) :: rest)) = decode_flag (JObj rest).
Proof. exact flag_null_is_omission. Qed.
Print Assumptions C17_null_is_omission_flag.
Theorem C17_null_is_omission_segment : forall n rest,
  In n nullable_segment_names -> decode_segment (JObj ((s n, JNull) :: rest)) = decode_segment (JObj rest).
Proof. exact segment_null_is_omission. Qed.
Print Assumptions C17_null_is_omission_segment.
Theorem C17_null_is_omission_rule : forall n rest,
  In n ["clauses"; "variation"; "rollout"]%string -> rd_rule (JObj ((s n, JNull) :: rest)) = rd_rule (JObj rest).
Proof. exact rule_null_is_omission. Qed.
Print Assumptions C17_null_is_omission_rule.
Theorem C17_null_is_omission_clause : forall n rest,
  In n ["values"; "attribute"]%string -> rd_clause (JObj ((s n, JNull) :: rest)) = rd_clause (JObj rest).
Proof. exact clause_null_is_omission. Qed.
Print Assumptions C17_null_is_omission_clause.
Theorem C17_null_is_omission_rollout : forall n rest out,
  In n ["seed"; "bucketBy"]%string -> rd_rollout (JObj ((s n, JNull) :: rest)) out = rd_rollout (JObj rest) out.
Proof. exact rollout_null_is_omission. Qed.
Print Assumptions C17_null_is_omission_rollout.
Theorem C17_null_is_omission_segment_rule : forall n rest,
  In n ["clauses"; "weight"; "bucketBy"]%string -> rd_segrule (JObj ((s n, JNull) :: rest)) = rd_segrule (JObj rest).
Proof. exact segrule_null_is_omission. Qed.
Print Assumptions C17_null_is_omission_segment_rule.
(* ... except a rollout's variations *)
Theorem C17_rollout_variations_null_is_an_error : forall rest out,
  rd_rollout (JObj ((s "variations", JNull) :: rest)) out = None.
Proof. exact rollout_null_variations_is_an_error. Qed.
Print Assumptions C17_rollout_variations_null_is_an_error.

(* a wrongly typed property yields an error, not a partial value *)
Theorem C17_wrong_type_is_error : forall v rest, (forall x, v <> JStr x) -> decode_flag (JObj ((s "key", v) :: rest)) = None.
Proof. exact decode_flag_wrong_type_key. Qed.
Print Assumptions C17_wrong_type_is_error.
Theorem C17_not_an_object_is_error : forall v, (forall ps, v <> JObj ps) -> decode_flag v = None.
Proof. exact decode_flag_not_object. Qed.
Print Assumptions C17_not_an_object_is_error.

(* every property the encoder writes is one the decoder recognises (gen/Tables.v, regenerated on every run) *)
From LD Require Import TablesProof.
From LDGen Require Import Tables.
From Coq Require Import String.
Theorem C17_written_properties_are_read :
  forallb (fun p => String.eqb p "" || mem_s p read_properties) written_properties = true.
Proof. exact written_properties_are_read. Qed.
Print Assumptions C17_written_properties_are_read.

(* C12 Evaluation is a pure function. Model level: the value, index and reason of every evaluation are those of the
   state-free reference interpreter p_run, whatever the cache / status register / trace contain (Refine.v); the
   source-level part (nothing reachable from Evaluate writes shared memory) is in LDGen.EffectsProof. *)
From LD Require Import Base F32 Data Model Ops Bucket Eval EvalFacts Pure Refine.

Theorem C12_result_is_a_function_of_the_inputs : forall re_ok re_match o E P c f out,
  run re_ok re_match o E P c f = Done out ->
  exists d, p_run re_ok re_match o E P c f = Done d /\
            d_value (out_detail out) = d_value d /\ d_index (out_detail out) = d_index d /\
            rs_kind (d_reason (out_detail out)) = rs_kind (d_reason d) /\
            rs_inexp (d_reason (out_detail out)) = rs_inexp (d_reason d).
Proof. exact run_is_pure. Qed.
Print Assumptions C12_result_is_a_function_of_the_inputs.

(* the nested evaluations agree with the reference interpreter from ANY state whose cache holds only provider answers:
   nothing carried over from earlier work can change an answer *)
Theorem C12_state_cannot_influence_results : forall re_ok re_match o E P c fuel chain f s,
  Inv P s ->
  fst (eval_flag re_ok re_match o E P c fuel chain f s) = p_eval re_ok re_match o E P c fuel chain f /\
  Inv P (snd (eval_flag re_ok re_match o E P c fuel chain f s)).
Proof. exact sim_eval_flag. Qed.
Print Assumptions C12_state_cannot_influence_results.

(* a history of calls against one evaluator: the model's evaluator state is its options only, so the i-th answer is
   the answer a fresh evaluator gives *)
Theorem C12_history : forall re_ok re_match o (h : list call) i x,
  nth_error h i = Some x ->
  nth_error (map (answer re_ok re_match o) h) i = Some (answer re_ok re_match o x).
Proof. exact history_answers. Qed.
Print Assumptions C12_history.

(* ---- source level (gen/Effects.v is regenerated from the repository by the go/ssa translator on every run) ---- *)
From LD Require Import EffectsDefs EffectsProof.
From LDGen Require Import Effects.

(* evaluation never modifies the flags, segments, context or evaluator it is given: every write reachable from
   Evaluate is to call-local or per-call memory *)
Theorem C12_evaluate_writes_nothing_shared : forall n f e,
  Reach functions start n -> find_fn functions n = Some f -> In e (fn_effects f) -> write_ok e = true.
Proof. exact evaluate_writes_nothing_shared. Qed.
Print Assumptions C12_evaluate_writes_nothing_shared.

(* the evaluator retains nothing between calls: its fields are written by the construction-time option appliers only,
   and no package-level variable is written anywhere in the library *)
Theorem C12_evaluator_fields_written_only_at_construction :
  forallb (fun f => negb (writes_evaluator f) || negb (mem (fn_name f) reachable)) functions = true.
Proof. exact evaluator_fields_written_only_at_construction. Qed.
Print Assumptions C12_evaluator_fields_written_only_at_construction.
Theorem C12_no_package_level_state :
  forallb (fun f => negb (writes_global f) || String.prefix "init" (fn_name f)) functions = true.
Proof. exact no_package_level_state_is_written. Qed.
Print Assumptions C12_no_package_level_state.

(* C08 at the level of a whole flag evaluation: the reason says in-experiment exactly when the stage that decided the
   result -- the first matching rule, or the fallthrough when no rule matches -- served a rollout whose own result was
   in-experiment (characterised by vr_result_in_experiment) and the variation it chose exists. *)
From LD Require Import Base F32 Data Model Ops Bucket Eval EvalFacts Pure Order.

Section Attr.
Variables (re_ok : str -> bool) (re_match : str -> str -> bool) (o : opts) (E : env) (P : bsprov) (c : ctx).

(* the stage that decides when neither off, prerequisites nor targets did: a rule with its index and id, or the fallthrough *)
Inductive deciding_stage (f : flag) : vorr -> rkind -> Prop :=
| DRule pre ru post :
    f_rules f = pre ++ ru :: post ->
    Forall (fun r => rule_status re_ok re_match o E P c r = Done (Ok false)) pre ->
    rule_status re_ok re_match o E P c ru = Done (Ok true) ->
    deciding_stage f (ru_vr ru) (RRule (zlen pre) (ru_id ru))
| DFallthrough :
    Forall (fun r => rule_status re_ok re_match o E P c r = Done (Ok false)) (f_rules f) ->
    deciding_stage f (f_fallthrough f) RFallthrough.

Lemma inexp_get_variation f i r : rs_inexp (d_reason (p_get_variation f i r)) = true -> rs_inexp r = true.
Proof. unfold p_get_variation. destruct (znth_opt (f_vars f) i); cbn; [auto | discriminate]. Qed.

Lemma inexp_off_value f k : rs_inexp (d_reason (p_off_value f (plain_reason k))) = false.
Proof.
  unfold p_off_value. destruct (f_off f) as [i|]; [|reflexivity].
  destruct (rs_inexp (d_reason (p_get_variation f i (plain_reason k)))) eqn:E0; [|reflexivity].
  apply inexp_get_variation in E0. discriminate.
Qed.

Lemma vr_detail_inexp f vr k d :
  (k = RFallthrough \/ exists i id, k = RRule i id) ->
  p_vr_detail o c f vr (plain_reason k) = Done d ->
  (rs_inexp (d_reason d) = true <->
   exists i v, vr_result o c vr (f_key f) (f_salt f) = Done (Ok (i, true)) /\ znth_opt (f_vars f) i = Some v /\
               d = mkdetail v (Some i) (mkreason k true None)).
Proof.
  intros Hk H. unfold p_vr_detail in H.
  destruct (vr_result o c vr (f_key f) (f_salt f)) as [[[i inexp]|e]| |] eqn:Ev; try discriminate.
  - injection H as <-. unfold p_get_variation. destruct (znth_opt (f_vars f) i) as [v|] eqn:Ez.
    + destruct inexp.
      * assert (Hr : to_experiment_reason (plain_reason k) = mkreason k true None).
        { destruct Hk as [->|(j & id & ->)]; reflexivity. }
        rewrite Hr. cbn. split; [intros _; exists i, v; auto | reflexivity].
      * cbn. split; [discriminate|]. intros (i' & v' & Hv & _). discriminate.
    + cbn. split; [discriminate|]. intros (i' & v' & Hv & Hz & _). injection Hv as <-. congruence.
  - injection H as <-. cbn. split; [discriminate|]. intros (i' & v' & Hv & _). discriminate.
Qed.

(* the whole evaluation of one flag *)
Theorem in_experiment_whole_evaluation n chain f d ok :
  p_eval re_ok re_match o E P c (S n) chain f = Done (d, ok) ->
  (rs_inexp (d_reason d) = true <->
   f_on f = true /\ prereqs_of re_ok re_match o E P c n chain f = Done POk /\ any_target_match c f = None /\
   exists vr k i v, deciding_stage f vr k /\
     vr_result o c vr (f_key f) (f_salt f) = Done (Ok (i, true)) /\ znth_opt (f_vars f) i = Some v /\
     d = mkdetail v (Some i) (mkreason k true None)).
Proof.
  intro H. destruct (f_on f) eqn:Hon.
  2:{ rewrite p_eval_off in H by exact Hon. injection H as <- <-. rewrite inexp_off_value.
      split; [discriminate | intros (X & _); discriminate]. }
  rewrite p_eval_on in H by exact Hon.
  destruct (prereqs_of re_ok re_match o E P c n chain f) as [[|k|]| |] eqn:Hp; cbn [rbind] in H; try discriminate.
  - (* prerequisites met *)
    destruct (any_target_match c f) as [v|] eqn:Ht.
    + injection H as <- <-. split.
      * intro X. apply inexp_get_variation in X. discriminate.
      * intros (_ & _ & X & _). discriminate.
    + apply p_rules_outcome in H.
      destruct H as [(pre & ru & post & Hf & Hpre & Hru & Hd & ->) | [(pre & ru & post & e & Hf & Hpre & Hru & -> & ->) | (Hall & Hd & ->)]].
      * pose proof (vr_detail_inexp f (ru_vr ru) (RRule (zlen pre) (ru_id ru)) d
                      (or_intror (ex_intro _ _ (ex_intro _ _ eq_refl))) Hd) as Hiff.
        split.
        -- intro X. apply Hiff in X. destruct X as (i & v & Hv & Hz & Hdd).
           repeat split; auto. exists (ru_vr ru), (RRule (zlen pre) (ru_id ru)), i, v.
           split; [econstructor; eauto | auto].
        -- intros (_ & _ & _ & vr & k & i & v & Hst & Hv & Hz & Hdd). subst d. reflexivity.
      * split; [discriminate|]. intros (_ & _ & _ & vr & k & i & v & _ & _ & _ & Hdd). discriminate.
      * pose proof (vr_detail_inexp f (f_fallthrough f) RFallthrough d (or_introl eq_refl) Hd) as Hiff.
        split.
        -- intro X. apply Hiff in X. destruct X as (i & v & Hv & Hz & Hdd).
           repeat split; auto. exists (f_fallthrough f), RFallthrough, i, v. split; [constructor; exact Hall | auto].
        -- intros (_ & _ & _ & vr & k & i & v & Hst & Hv & Hz & Hdd). subst d. reflexivity.
  - injection H as <- <-. rewrite inexp_off_value. split; [discriminate | intros (_ & X & _); discriminate].
  - injection H as <- <-. cbn. split; [discriminate | intros (_ & X & _); discriminate].
Qed.

End Attr.

(* the statement is not vacuous: an experiment on the fallthrough of a flag without rules *)
Definition exp_flag : flag :=
  mkflag (s "f") true [] [] [] []
         (mkvorr None (mkrollout (s "experiment") (s "user") [mkwvar 1 100000 false] ref_undef None))
         (Some 0) [JBool false; JBool true] (s "salt") false false
         (mkfmeta 1 false false 0 false false false None None).
Example attribution_nonvacuous :
  let c := CSingle (mksingle (s "user") (s "a") None false None []) in
  p_eval (fun _ => false) (fun _ _ => false) (mkopts false false false) (mkenv [] []) None c 1 [] exp_flag
  = Done (mkdetail (JBool true) (Some 1) (mkreason RFallthrough true None), true).
Proof. vm_compute. reflexivity. Qed.

(* C10: re-entering a flag or a segment along the current path makes the whole evaluation MALFORMED_FLAG, and an
   aborted nested evaluation is propagated to the top without an event. *)
From LD Require Import Base F32 Data Semver Model Ops Bucket Eval EvalFacts Safety WellFormed Pure Order.
Open Scope Z_scope.

Section Cycles.
Variable re_ok : str -> bool.
Variable re_match : str -> str -> bool.
Variable o : opts.
Variable E : env.
Variable P : bsprov.
Variable c : ctx.

(* an evaluation that reports "stop everything" (second component false) carries MALFORMED_FLAG *)
Lemma post_abort_malformed fuel chain f :
  post (eval_flag re_ok re_match o E P c fuel chain f) (fun r => snd r = false -> fst r = err_detail KMalformed).
Proof.
  destruct fuel as [|n]; cbn [eval_flag]; [intros st a st' Ee; discriminate|].
  destruct (negb (f_on f)).
  - eapply post_bind; [apply post_true|]. intros d _. apply post_ret. simpl. discriminate.
  - eapply post_bind; [apply post_true|]. intros [|k|] _.
    + destruct (any_target_match c f).
      * eapply post_bind; [apply post_true|]. intros d _. apply post_ret. simpl. discriminate.
      * generalize 0. generalize (f_rules f). intros rs. induction rs as [|ru rest IH]; intros i; cbn [rules_loop].
        -- eapply post_bind; [apply post_true|]. intros d _. apply post_ret. simpl. discriminate.
        -- eapply post_bind.
           ++ apply post_first_clause. intros cl. apply post_clause_match. apply post_seg_top.
           ++ intros [[|]|e] Ha.
              ** eapply post_bind; [apply post_true|]. intros d _. apply post_ret. simpl. discriminate.
              ** apply IH.
              ** eapply post_bind; [apply post_true|]. intros _ _. apply post_ret. simpl. intros _.
                 rewrite (Ha e eq_refl). reflexivity.
    + eapply post_bind; [apply post_true|]. intros d _. apply post_ret. simpl. discriminate.
    + apply post_ret. reflexivity.
Qed.

(* reaching a prerequisite whose key is already on the current path aborts *)
Lemma prereq_cycle_aborts ev f chain' p rest pf st :
  assoc (pq_key p) (e_flags E) = Some pf -> mem_str (f_key pf) chain' = true ->
  fst (prereq_loop o E ev f chain' (p :: rest) st) = Done PAbort.
Proof.
  intros Ha Hm. simpl. unfold bind, emit. simpl. rewrite Ha, Hm. unfold log. destruct (o_logger o); reflexivity.
Qed.

(* an aborted nested evaluation aborts its dependent too, and no event is recorded for it *)
Lemma prereq_abort_propagates ev f chain' p rest pf st d st1 :
  assoc (pq_key p) (e_flags E) = Some pf -> mem_str (f_key pf) chain' = false ->
  ev pf (mkst (s_cache st) (s_status st) (OGetFlag (pq_key p) :: s_trace st)) = (Done (d, false), st1) ->
  prereq_loop o E ev f chain' (p :: rest) st = (Done PAbort, st1).
Proof.
  intros Ha Hm He. simpl. unfold bind, emit. simpl. rewrite Ha, Hm, He. reflexivity.
Qed.

(* the same three facts on the reference interpreter *)
Lemma p_step_cycle ev chain' p pf :
  assoc (pq_key p) (e_flags E) = Some pf -> mem_str (f_key pf) chain' = true ->
  prereq_step E ev chain' p = Done (Some PAbort).
Proof. intros Ha Hm. unfold prereq_step. rewrite Ha, Hm. reflexivity. Qed.

Lemma p_step_abort ev chain' p pf d :
  assoc (pq_key p) (e_flags E) = Some pf -> mem_str (f_key pf) chain' = false -> ev pf = Done (d, false) ->
  prereq_step E ev chain' p = Done (Some PAbort).
Proof. intros Ha Hm He. unfold prereq_step. rewrite Ha, Hm, He. reflexivity. Qed.

Lemma p_eval_abort n chain f :
  f_on f = true -> prereqs_of re_ok re_match o E P c n chain f = Done PAbort ->
  p_eval re_ok re_match o E P c (S n) chain f = Done (err_detail KMalformed, false).
Proof. intros H1 H2. rewrite p_eval_on by exact H1. rewrite H2. reflexivity. Qed.

(* a segment found on its own path is a cycle; inside a segment's rules it is wrapped, so what surfaces is
   MALFORMED_FLAG *)
Lemma p_seg_cycle n chain sg :
  mem_str (sg_key sg) chain = true -> p_seg re_ok re_match o E P c (S n) chain sg = Done (Err (ECircSeg (sg_key sg))).
Proof. intros H. simpl. rewrite H. reflexivity. Qed.

End Cycles.

(* the top-level result of an evaluation in which an abort happened is MALFORMED_FLAG with no value *)
Theorem run_abort_is_malformed re_ok re_match o E P c f d st1 :
  c <> CInvalid ->
  eval_flag re_ok re_match o E P c (flag_fuel E) [] f st0 = (Done (d, false), st1) ->
  exists out, run re_ok re_match o E P c f = Done out /\
              d_value (out_detail out) = JNull /\ d_index (out_detail out) = None /\
              rs_kind (d_reason (out_detail out)) = RError KMalformed.
Proof.
  intros Hc He. rewrite (run_valid _ _ _ _ _ _ _ Hc). rewrite He. unfold finish.
  pose proof (post_abort_malformed re_ok re_match o E P c _ _ _ _ _ _ He eq_refl) as Hd. simpl in Hd. subst d.
  eexists. split; [reflexivity|]. destruct (s_status st1); simpl; auto.
Qed.

(* The defects found in the unchanged repository, as kernel-checked refutations: for each repaired site a transcription of
   the ORIGINAL code (the `_legacy` definitions) and a concrete witness on which the property's statement fails. The model
   proper (Eval.v, Ops.v, Time.v, Codec.v) is the repaired behaviour; these definitions are used nowhere else. The
   same witnesses are corpus cases (corpus/eval-0*.json) and the F*-revert seeded changes, which check them against the
   code. *)
From LD Require Import Base F32 Data Scan Semver Time Model Ops Bucket Eval Codec SegSpec.
Open Scope Z_scope.

(* ---- C05 / C20 (bc60e70): per-kind lists skipped when the context is solely of kind user ---- *)
Definition regular_lists_legacy (c : ctx) (sg : segment) : option bool :=
  let dk := ctx_key_by_kind c kind_user in
  let only_default := str_eqb (ctx_kind c) kind_user in
  let in_plain l pre := match dk with Some k => find_key k l pre | None => false end in
  if in_plain (sg_included sg) (sg_pre_inc sg) then Some true
  else if negb only_default && existsb (seg_target_matches c) (sg_inc_ctx sg) then Some true
  else if in_plain (sg_excluded sg) (sg_pre_exc sg) then Some false
  else if negb only_default && existsb (seg_target_matches c) (sg_exc_ctx sg) then Some false
  else None.

Definition user_a : single := mksingle kind_user (s "a") None false None [].
Definition seg_user_list : segment :=
  mksegment (s "s") [] [] [mksegtarget kind_user [s "a"] None] [] (s "x") [] false [] 1 None false None None.

(* user a IS listed for kind user, yet the legacy code does not include the single-kind context; it includes the same
   user as soon as an unrelated kind is present; the repaired definition includes both *)
Theorem C05_C20_legacy_refuted :
  per_kind (CSingle user_a) (sg_inc_ctx seg_user_list) = true /\
  regular_lists_legacy (CSingle user_a) seg_user_list = None /\
  regular_lists_legacy (CMulti [user_a; mksingle (s "zz") (s "q") None false None []]) seg_user_list = Some true /\
  regular_lists (CSingle user_a) seg_user_list = Some true.
Proof. repeat split; vm_compute; reflexivity. Qed.

(* ---- C18 (ab51a61): epoch milliseconds converted through int64 nanoseconds (time.Unix(0, ms*1e6)) ---- *)
Definition instant_of_millis_legacy (d : dy) : Z := wrap64 (dy_to_int d * 1000000).
(* 9999-12-31T23:59:59Z as epoch milliseconds: the legacy instant is negative (year 1816), the repaired one is exact *)
Theorem C18_legacy_refuted :
  instant_of_millis_legacy (dy_of_Z 253402300799000) < 0 /\
  instant_of_millis (dy_of_Z 253402300799000) = 253402300799000 * 1000000.
Proof. split; vm_compute; reflexivity. Qed.

(* ---- C14 / C18 (2ad5a26): a pre-parsed operand was treated as invalid when it was the zero time.Time ---- *)
Definition zero_time_instant : Z := -62135596800 * 1000000000.   (* 0001-01-01T00:00:00Z *)
Definition clause_time_legacy (c : clause) (i : nat) : option Z :=
  match cp_values (cl_pre c) with
  | Some pvs => match nth_opt pvs i with
                | Some p => match pv_time p with Some t => if t =? zero_time_instant then None else Some t | None => None end
                | None => None
                end
  | None => match nth_opt (cl_values c) i with Some v => value_to_time v | None => None end
  end.
Definition zero_clause : clause :=
  mkclause [] (new_literal_ref (s "date")) op_after [JStr (s "0001-01-01T00:00:00Z")] false cpre_none.
(* the plain clause has a valid operand; after preprocessing the legacy accessor loses it, the repaired one keeps it *)
Theorem C14_legacy_refuted :
  clause_time_legacy zero_clause 0 = Some zero_time_instant /\
  clause_time_legacy (preprocess_clause (fun _ => true) zero_clause) 0 = None /\
  clause_time (preprocess_clause (fun _ => true) zero_clause) 0 = Some zero_time_instant.
Proof. repeat split; vm_compute; reflexivity. Qed.

(* ---- C15 (e5ae2f5): float64 -> uint64 of a negative debugEventsUntilDate (amd64: wraps to 2^64 + t for small |t|) ---- *)
Definition debug_date_legacy (d : dy) : Z :=
  let t := dy_trunc d in
  if t <? 0 then (if - two63 <=? t then two64 + t else two63) else if t <? two64 then t else two63.
(* re-reading what was written: float64(2^64-1) = 2^64 exactly, which reads back as 2^63 -- a different value, so the first
   re-encoding is not yet a fixed point; the repaired reader gives 0, which is *)
Theorem C15_legacy_refuted :
  debug_date_legacy (dy_of_Z (-1)) = two64 - 1 /\
  debug_date_legacy (dy_of_Z two64) = two63 /\
  debug_date_of (dy_of_Z (-1)) = 0 /\ debug_date_of (dy_of_Z 0) = 0.
Proof. repeat split; vm_compute; reflexivity. Qed.

(* ---- C08 (b64a6c9): the last-bucket fallback reported in-experiment without checking that the context has the kind ---- *)
Definition vr_result_legacy (o : opts) (c : ctx) (vr : vorr) (key salt : str) : res (er (Z * bool)) :=
  match vr_var vr with
  | Some v => Done (Ok (v, false))
  | None =>
    let ro := vr_rollout vr in
    match ro_vars ro with
    | [] => Done (Err EEmptyRollout)
    | wvs =>
      let is_exp := is_experiment_rollout ro in
      match compute_bucket (o_secondary o) c is_exp (ro_seed ro) (ro_ctxkind ro) key (ro_bucket_by ro) salt with
      | Err e => Done (Err e)
      | Ok (b, fail) =>
        let lacks := match fail with BLacksKind => true | _ => false end in
        match scan b f32_zero wvs with
        | Some wv => Done (Ok (wv_var wv, is_exp && negb (wv_untracked wv) && negb lacks))
        | None => match last_opt wvs with
                  | None => Panic
                  | Some wv => Done (Ok (wv_var wv, is_exp && negb (wv_untracked wv)))      (* no "&& negb lacks" *)
                  end
        end
      end
    end
  end.
Definition exp_on_org : vorr :=
  mkvorr None (mkrollout (s "experiment") (s "org") [mkwvar 0 0 false; mkwvar 1 0 false] ref_undef None).
Definition no_opts : opts := mkopts false false false.
(* a user-only context in an experiment over "org" with all-zero weights: served by the fallback; legacy says in-experiment *)
Theorem C08_legacy_refuted :
  vr_result_legacy no_opts (CSingle user_a) exp_on_org (s "f") (s "salt") = Done (Ok (1, true)) /\
  vr_result no_opts (CSingle user_a) exp_on_org (s "f") (s "salt") = Done (Ok (1, false)).
Proof. split; vm_compute; reflexivity. Qed.

(* ---- C11 (8504a62): the membership cache filled while evaluating a prerequisite was dropped on return ---- *)
Section L11.
Variable E : env.
Variable P : bsprov.
Variable c : ctx.
Let nore : str -> bool := fun _ => false.
Let norm : str -> str -> bool := fun _ _ => false.
Definition forget_cache {A} (m : M A) : M A :=
  fun s => let '(r, s') := m s in (r, mkst (s_cache s) (s_status s') (s_trace s')).
Fixpoint eval_flag_legacy (fuel : nat) (chain : list str) (f : flag) : M (detail * bool) :=
  match fuel with
  | O => out_of_fuel
  | S n =>
    if negb (f_on f) then d <- off_value no_opts f (plain_reason ROff) ;; ret (d, true)
    else
      p <- (match f_prereqs f with
            | [] => ret POk
            | ps => let chain' := chain ++ [f_key f] in
                    prereq_loop no_opts E (fun pf => forget_cache (eval_flag_legacy n chain' pf)) f chain' ps
            end) ;;
      match p with
      | PAbort => ret (err_detail KMalformed, false)
      | PFailed k => d <- off_value no_opts f (plain_reason (RPrereqFailed k)) ;; ret (d, true)
      | POk =>
        match any_target_match c f with
        | Some v => d <- get_variation no_opts f v (plain_reason RTarget) ;; ret (d, true)
        | None => rules_loop nore norm no_opts E c (seg_contains nore norm no_opts E P c (seg_fuel E) []) f (f_rules f) 0
        end
      end
  end.
End L11.

Definition big_seg : segment := mksegment (s "s0") [] [] [] [] (s "x") [] true [] 1 (Some 1) false None None.
Definition seg_rule : rule :=
  mkrule (mkvorr (Some 1) (mkrollout [] [] [] ref_undef None)) (s "r")
         [mkclause [] ref_undef op_segment [JStr (s "s0")] false cpre_none] false.
Definition mkbf (k : str) (ps : list prereq) : flag :=
  mkflag k true ps [] [] [seg_rule] (mkvorr (Some 0) (mkrollout [] [] [] ref_undef None)) (Some 0) [JBool false; JBool true] (s "salt")
         false false (mkfmeta 0 false false 0 false false false None None).
Definition store11 : env := mkenv [(s "f1", mkbf (s "f1") [])] [(s "s0", big_seg)].
Definition prov11 : bsprov := Some (fun _ => mkbsanswer (Some [(s "s0.g1", true)]) Healthy).
Definition nqueries (s : st) : nat := List.length (filter (fun x => match x with OBsQuery _ => true | _ => false end) (s_trace s)).
(* a flag and its prerequisite both test one big segment: the legacy evaluator asks the store twice for key "a" *)
Theorem C11_legacy_refuted :
  nqueries (snd (eval_flag_legacy store11 prov11 (CSingle user_a) 4 [] (mkbf (s "f0") [mkprereq (s "f1") 1]) st0)) = 2%nat /\
  nqueries (snd (eval_flag (fun _ => false) (fun _ _ => false) no_opts store11 prov11 (CSingle user_a) 4 []
                   (mkbf (s "f0") [mkprereq (s "f1") 1]) st0)) = 1%nat.
Proof. split; vm_compute; reflexivity. Qed.

(* ---- C18 (695836d, 58ac7ba, d4456af): the original RFC 3339 scanner stopped at 'Z' and ignored what followed, treated a
   NUL / non-ASCII byte after the offset minutes as the end of the string, and accepted every day 01..31 in every month
   (time.Date then normalises February 31 into March). ---- *)
Definition parse_zone_legacy (term1 : term) (r8 : str) : option Z :=
  if term_is term1 43%N || term_is term1 45%N then
    match num_field colon_t false 2 2 0 99 r8 with None => None | Some (oh, _, r9) =>
    match num_field none_t true 2 2 0 59 r9 with None => None | Some (om, _, _) =>
      let secs := (om + oh * 60) * 60 in Some (if term_is term1 43%N then - secs else secs)
    end end
  else Some 0.
Definition parse_rfc3339_legacy (x : str) : option Z :=
  match num_field hyphen_t false 4 4 0 9999 x with None => None | Some (year, _, r1) =>
  match num_field hyphen_t false 2 2 1 12 r1 with None => None | Some (month, _, r2) =>
  match num_field t_t false 2 2 1 31 r2 with None => None | Some (day, _, r3) =>
  match num_field colon_t false 1 2 0 23 r3 with None => None | Some (hour, _, r4) =>
  match num_field colon_t false 2 2 0 59 r4 with None => None | Some (minute, _, r5) =>
  match num_field end_sec_t false 2 2 0 60 r5 with None => None | Some (second, term0, r6) =>
  match parse_frac term0 r6 with None => None | Some (nanos, term1, r8) =>
  match parse_zone_legacy term1 r8 with None => None | Some tz =>
    Some ((days_from_civil year month day * 86400 + hour * 3600 + minute * 60 + second + tz) * 1000000000 + nanos)
  end end end end end end end end.

(* "2020-01-01T00:00:00Zjunk", "2020-01-01T00:00:00+01:00" ++ [0xC3; 0xA9] and "2020-02-31T00:00:00Z" (read as March 2) *)
Definition ts_trailing : str := s "2020-01-01T00:00:00Zjunk".
Definition ts_nonascii : str := s "2020-01-01T00:00:00+01:00" ++ [195%N; 169%N].
Definition ts_feb31 : str := s "2020-02-31T00:00:00Z".
Theorem C18_scanner_legacy_refuted :
  (parse_rfc3339_legacy ts_trailing = parse_rfc3339 (s "2020-01-01T00:00:00Z") /\ parse_rfc3339 ts_trailing = None) /\
  (parse_rfc3339_legacy ts_nonascii = parse_rfc3339 (s "2020-01-01T00:00:00+01:00") /\ parse_rfc3339 ts_nonascii = None) /\
  (parse_rfc3339_legacy ts_feb31 = parse_rfc3339 (s "2020-03-02T00:00:00Z") /\ parse_rfc3339 ts_feb31 = None) /\
  parse_rfc3339 (s "2020-01-01T00:00:00Z") <> None.
Proof. vm_compute. repeat split; try reflexivity. discriminate. Qed.

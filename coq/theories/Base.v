(* Base types shared by the model: byte strings, int64 wrap, result type. *)
From Coq Require Export List ZArith NArith Bool Lia.
From Coq Require String Ascii.
Export String.StringSyntax Ascii.AsciiSyntax.
Export ListNotations.
Open Scope Z_scope.

Definition str := list N.                       (* Go string = byte sequence *)

Definition s (x : String.string) : str := List.map Byte.to_N (String.list_byte_of_string x).
Arguments s _%string_scope.

Fixpoint str_eqb (a b : str) : bool :=
  match a, b with
  | [], [] => true
  | x :: a', y :: b' => N.eqb x y && str_eqb a' b'
  | _, _ => false
  end.

Lemma str_eqb_eq a b : str_eqb a b = true <-> a = b.
Proof.
  revert b; induction a as [|x a IH]; destruct b as [|y b]; simpl; split; intro H;
    try reflexivity; try discriminate.
  - apply andb_true_iff in H as [H1 H2]. apply N.eqb_eq in H1. apply IH in H2. congruence.
  - inversion H; subst. rewrite N.eqb_refl. simpl. apply IH. reflexivity.
Qed.

Lemma str_eqb_refl a : str_eqb a a = true.
Proof. apply str_eqb_eq; reflexivity. Qed.

Lemma str_eqb_neq a b : str_eqb a b = false <-> a <> b.
Proof.
  split; intro H.
  - intro E. apply str_eqb_eq in E. congruence.
  - destruct (str_eqb a b) eqn:E; [apply str_eqb_eq in E; contradiction | reflexivity].
Qed.

Lemma str_eqb_sym a b : str_eqb a b = str_eqb b a.
Proof.
  destruct (str_eqb a b) eqn:E.
  - apply str_eqb_eq in E; subst. symmetry. apply str_eqb_refl.
  - symmetry. apply str_eqb_neq. apply str_eqb_neq in E. congruence.
Qed.

(* bytewise lexicographic order, as Go's < on strings *)
Fixpoint str_ltb (a b : str) : bool :=
  match a, b with
  | [], [] => false
  | [], _ :: _ => true
  | _ :: _, [] => false
  | x :: a', y :: b' => if N.ltb x y then true else if N.ltb y x then false else str_ltb a' b'
  end.

Definition mem_str (k : str) (l : list str) : bool := existsb (str_eqb k) l.

Fixpoint assoc {A} (k : str) (l : list (str * A)) : option A :=
  match l with
  | [] => None
  | (k', v) :: r => if str_eqb k k' then Some v else assoc k r
  end.

(* Go int / int64 two's complement wrap *)
Definition two63 : Z := 9223372036854775808.
Definition two64 : Z := 18446744073709551616.
Definition wrap64 (z : Z) : Z := ((z + two63) mod two64) - two63.

Lemma wrap64_small z : - two63 <= z < two63 -> wrap64 z = z.
Proof.
  unfold wrap64, two63, two64. intros H.
  rewrite Z.mod_small by lia. lia.
Qed.

(* signed decimal rendering, as strconv.AppendInt(_, n, 10) *)
Fixpoint pos_digits_aux (fuel : nat) (n : Z) (acc : str) : str :=
  match fuel with
  | O => acc
  | S f => let d := Z.to_N (n mod 10) in
           let acc' := (48 + d)%N :: acc in
           if n / 10 =? 0 then acc' else pos_digits_aux f (n / 10) acc'
  end.
Definition nat_dec (n : Z) : str := pos_digits_aux (S (Z.to_nat (Z.log2_up (n + 1)))) n [].
Definition dec (z : Z) : str := if z <? 0 then 45%N :: nat_dec (- z) else nat_dec z.

(* results of a model run: the Go sites that could panic are explicit *)
Inductive res (A : Type) := Done (a : A) | Panic | OutOfFuel.
Arguments Done {A} a. Arguments Panic {A}. Arguments OutOfFuel {A}.

Fixpoint nth_opt {A} (l : list A) (n : nat) : option A :=
  match l, n with
  | [], _ => None
  | x :: _, O => Some x
  | _ :: r, S n' => nth_opt r n'
  end.
Definition znth_opt {A} (l : list A) (i : Z) : option A :=
  if i <? 0 then None else nth_opt l (Z.to_nat i).
Definition zlen {A} (l : list A) : Z := Z.of_nat (List.length l).

Fixpoint last_opt {A} (l : list A) : option A :=
  match l with [] => None | [x] => Some x | _ :: r => last_opt r end.

(* Proofs about the evaluation model (kept apart from the definitions so the model still extracts if a proof breaks). *)
From LD Require Import Base F32 Data Semver Model Ops Bucket Eval.
Open Scope Z_scope.

(* the part of segmentContainsContext before the rules (big-segment look-up or include/exclude lists) *)
Definition seg_early (P : bsprov) (c : ctx) (sg : segment) : M (option bool) :=
  if sg_unbounded sg then
    match sg_generation sg with
    | None => emit (GUnbounded (sg_key sg) false false) ;;; set_status NotConfigured ;;; ret (Some false)
    | Some g =>
      match ctx_key_by_kind c (sg_unb_kind sg) with
      | None => emit (GUnbounded (sg_key sg) true false) ;;; ret (Some false)
      | Some k =>
        emit (GUnbounded (sg_key sg) true true) ;;;
        m <- membership_for P k ;;
        match m with
        | None => ret None
        | Some mem =>
          emit (OBsCheck k (big_segment_ref sg g)) ;;;
          ret (assoc (big_segment_ref sg g) mem)
        end
      end
    end
  else ret (regular_lists c sg).

Lemma seg_contains_unfold re_ok re_match o E P c n chain sg :
  seg_contains re_ok re_match o E P c (S n) chain sg =
  if mem_str (sg_key sg) chain then ret (Err (ECircSeg (sg_key sg)))
  else early <- seg_early P c sg ;;
       match early with
       | Some b => ret (Ok b)
       | None => seg_rules (seg_rule_match re_ok re_match o E c (seg_contains re_ok re_match o E P c n (chain ++ [sg_key sg])) sg)
                           (sg_key sg) (sg_rules sg)
       end.
Proof. reflexivity. Qed.

Section Facts.
Variable re_ok : str -> bool.
Variable re_match : str -> str -> bool.
Variable o : opts.
Variable E : env.
Variable P : bsprov.

(* ---- invalid contexts ---- *)
Lemma run_invalid f :
  run re_ok re_match o E P CInvalid f = Done (mkoutcome (err_detail KUserNotSpecified) false []).
Proof. reflexivity. Qed.

(* ---- a fixed variation ignores any rollout ---- *)
Lemma vr_result_fixed c vr v key salt :
  vr_var vr = Some v -> vr_result o c vr key salt = Done (Ok (v, false)).
Proof. intros H. unfold vr_result. rewrite H. reflexivity. Qed.

(* ---- the scan serves one of the listed buckets ---- *)
Lemma scan_in b sum wvs wv : scan b sum wvs = Some wv -> In wv wvs.
Proof.
  revert sum. induction wvs as [|w ws IH]; simpl; intros sum H; [discriminate|].
  destruct (f32_ltb b _).
  - inversion H; subst. now left.
  - right. eapply IH; eauto.
Qed.

Lemma last_opt_in {A} (l : list A) x : last_opt l = Some x -> In x l.
Proof.
  induction l as [|a l IH]; simpl; [discriminate|].
  destruct l as [|b l'].
  - intros H; inversion H; now left.
  - intros H. right. apply IH. exact H.
Qed.

Lemma last_opt_nonempty {A} (l : list A) : l <> [] -> exists x, last_opt l = Some x.
Proof.
  induction l as [|a l IH]; [congruence|]. intros _.
  destruct l as [|b l']; [eexists; reflexivity|].
  destruct IH as [x Hx]; [discriminate|]. exists x. exact Hx.
Qed.

End Facts.

(* ldmodel/parse_time.go: RFC 3339 scanner; instants are nanoseconds since the Unix epoch, in Z. *)
From LD Require Import Base Scan F32.
Open Scope Z_scope.

Definition hyphen_t c := N.eqb c 45%N.
Definition t_t c := N.eqb c 116%N || N.eqb c 84%N.
Definition colon_t c := N.eqb c 58%N.
Definition end_sec_t c := N.eqb c 46%N || N.eqb c 90%N || N.eqb c 122%N || N.eqb c 43%N || N.eqb c 45%N.
Definition end_frac_t c := N.eqb c 90%N || N.eqb c 122%N || N.eqb c 43%N || N.eqb c 45%N.
Definition none_t (c : N) := false.

Definition term_neg (t : term) : bool := match t with TChar _ => false | _ => true end.

(* parseDateTimeNumericField *)
Definition num_field (p : N -> bool) (eofOK : bool) (minLen maxLen minV maxV : Z) (x : str)
  : option (Z * term * str) :=
  let '(sub, t, rest) := read_until p x in
  match sub with
  | [] => None
  | _ =>
    if negb eofOK && term_neg t then None
    else let len := zlen sub in
      if (len <? minLen) || (maxLen <? len) then None
      else match parse_num sub with
           | None => None
           | Some n => if (n <? minV) || (maxV <? n) then None else Some (n, t, rest)
           end
  end.

(* days from 1970-01-01 to y-m-1 + (d-1), proleptic Gregorian; m in 1..12; this is what time.Date computes,
   including its normalisation of day-of-month overflow *)
Definition days_from_civil (y m d : Z) : Z :=
  let y' := if m <=? 2 then y - 1 else y in
  let era := (if 0 <=? y' then y' else y' - 399) / 400 in
  let yoe := y' - era * 400 in
  let mp := (m + 9) mod 12 in
  let doy := (153 * mp + 2) / 5 + d - 1 in
  let doe := yoe * 365 + yoe / 4 - yoe / 100 + doy in
  era * 146097 + doe - 719468.

Definition pow10 (k : Z) : Z := 10 ^ k.

(* the length of a month; the code asks time.Date whether the day survives normalisation *)
Definition leap (y : Z) : bool := ((y mod 4 =? 0) && negb (y mod 100 =? 0)) || (y mod 400 =? 0).
Definition days_in_month (y m : Z) : Z :=
  if (m =? 2) then (if leap y then 29 else 28)
  else if (m =? 4) || (m =? 6) || (m =? 9) || (m =? 11) then 30 else 31.

(* the optional fraction: '.' and 1 to 9 digits, ended by the zone *)
Definition parse_frac (term0 : term) (r6 : str) : option (Z * term * str) :=
  if term_is term0 46%N then
    let '(fs, t2, r7) := read_until end_frac_t r6 in
    if term_neg t2 || (9 <? zlen fs) then None
    else match parse_num fs with
         | None => None
         | Some n => Some (n * pow10 (9 - zlen fs), t2, r7)
         end
  else Some (0, term0, r6).

(* the zone: 'Z' / 'z' as the last character, or a numeric offset hh:mm that ends the string *)
Definition parse_zone (term1 : term) (r8 : str) : option Z :=
  if term_is term1 43%N || term_is term1 45%N then
    match num_field colon_t false 2 2 0 99 r8 with None => None | Some (oh, _, r9) =>
    match num_field none_t true 2 2 0 59 r9 with None => None | Some (om, tm, _) =>
      match tm with
      | TEof => let secs := (om + oh * 60) * 60 in Some (if term_is term1 43%N then - secs else secs)
      | _ => None   (* a NUL / non-ASCII byte stopped the scanner before the end *)
      end
    end end
  else match r8 with [] => Some 0 | _ => None end.   (* 'Z' / 'z' must be the last character *)

Definition parse_rfc3339 (x : str) : option Z :=
  match num_field hyphen_t false 4 4 0 9999 x with None => None | Some (year, _, r1) =>
  match num_field hyphen_t false 2 2 1 12 r1 with None => None | Some (month, _, r2) =>
  match num_field t_t false 2 2 1 31 r2 with None => None | Some (day, _, r3) =>
  match num_field colon_t false 1 2 0 23 r3 with None => None | Some (hour, _, r4) =>
  match num_field colon_t false 2 2 0 59 r4 with None => None | Some (minute, _, r5) =>
  match num_field end_sec_t false 2 2 0 60 r5 with None => None | Some (second, term0, r6) =>
  match parse_frac term0 r6 with None => None | Some (nanos, term1, r8) =>
  match parse_zone term1 r8 with None => None | Some tz =>
    if days_in_month year month <? day then None else   (* a day the month does not have *)
    Some ((days_from_civil year month day * 86400 + hour * 3600 + minute * 60 + second + tz) * 1000000000 + nanos)
  end end end end end end end end.

(* epoch milliseconds (a JSON number) -> instant: time.UnixMilli(int64(f)) *)
Definition instant_of_millis (d : dy) : Z := dy_to_int d * 1000000.

(* ldmodel/model_unmarshal.go, checkJSONNestingDepth: the scan that the byte entry points (UnmarshalFeatureFlag /
   UnmarshalSegment of the serialization object) run over the document before handing it to the recursive readers.
   Byte level: the input is the document's bytes, not a token tree. *)
From LD Require Import Base.
Open Scope Z_scope.

Definition nesting_limit : Z := 10000.           (* maxJSONNestingDepth *)

Definition ch_quote : N := 34%N.       (* double quote *)
Definition ch_bslash : N := 92%N.      (* backslash *)
Definition ch_lbrack : N := 91%N.      
Definition ch_rbrack : N := 93%N.      
Definition ch_lbrace : N := 123%N.     
Definition ch_rbrace : N := 125%N.     

Definition is_open (ch : N) : bool := N.eqb ch ch_lbrack || N.eqb ch ch_lbrace.
Definition is_close (ch : N) : bool := N.eqb ch ch_rbrack || N.eqb ch ch_rbrace.

(* the loop of checkJSONNestingDepth from the state (depth, inString, escaped); false = the error return.
   depth is a Go int: it may go below zero on unbalanced input and cannot overflow (one step per input byte). *)
Fixpoint nest_scan (limit d : Z) (ins esc : bool) (bs : str) : bool :=
  match bs with
  | [] => true
  | ch :: r =>
    if ins then
      if esc then nest_scan limit d true false r
      else if N.eqb ch ch_bslash then nest_scan limit d true true r
      else if N.eqb ch ch_quote then nest_scan limit d false false r
      else nest_scan limit d true false r
    else if N.eqb ch ch_quote then nest_scan limit d true false r
    else if is_open ch then
      if limit <? d + 1 then false else nest_scan limit (d + 1) false false r
    else if is_close ch then nest_scan limit (d - 1) false false r
    else nest_scan limit d false false r
  end.

Definition nesting_ok (bs : str) : bool := nest_scan nesting_limit 0 false false bs.

(* the state the scan is in after a prefix (no limit): what the recursive readers would have open at that point *)
Fixpoint nest_state (d : Z) (ins esc : bool) (bs : str) : Z * bool * bool :=
  match bs with
  | [] => (d, ins, esc)
  | ch :: r =>
    if ins then
      if esc then nest_state d true false r
      else if N.eqb ch ch_bslash then nest_state d true true r
      else if N.eqb ch ch_quote then nest_state d false false r
      else nest_state d true false r
    else if N.eqb ch ch_quote then nest_state d true false r
    else if is_open ch then nest_state (d + 1) false false r
    else if is_close ch then nest_state (d - 1) false false r
    else nest_state d false false r
  end.
Definition open_level (bs : str) : Z := fst (fst (nest_state 0 false false bs)).

(* ---- documents as text: the compact rendering of a JSON tree ---- *)
Inductive doc :=
| DTok (w : str)                      (* a number, true, false, null: bytes without brackets and quotes *)
| DStr (x : str)                      (* a string: any bytes, written with quote and backslash escaped *)
| DArr (l : list doc)
| DObj (l : list (str * doc)).

Definition plain_byte (ch : N) : bool := negb (N.eqb ch ch_quote || is_open ch || is_close ch).

Fixpoint esc_str (x : str) : str :=
  match x with
  | [] => []
  | ch :: r => if N.eqb ch ch_quote || N.eqb ch ch_bslash then ch_bslash :: ch :: esc_str r else ch :: esc_str r
  end.
Definition render_str (x : str) : str := ch_quote :: esc_str x ++ [ch_quote].

Definition comma : N := 44%N.
Definition colon : N := 58%N.

Fixpoint sep_concat (l : list str) : str :=
  match l with
  | [] => []
  | x :: r => match r with [] => x | _ => x ++ comma :: sep_concat r end
  end.

Fixpoint render (t : doc) : str :=
  match t with
  | DTok w => w
  | DStr x => render_str x
  | DArr l => ch_lbrack :: sep_concat (map render l) ++ [ch_rbrack]
  | DObj l => ch_lbrace :: sep_concat (map (fun kt => match kt with (k, t) => render_str k ++ colon :: render t end) l) ++ [ch_rbrace]
  end.

Fixpoint doc_depth (t : doc) : Z :=
  match t with
  | DTok _ | DStr _ => 0
  | DArr l => 1 + fold_right (fun t acc => Z.max (doc_depth t) acc) 0 l
  | DObj l => 1 + fold_right (fun kt acc => Z.max (doc_depth (snd kt)) acc) 0 l
  end.

Fixpoint doc_plain (t : doc) : bool :=
  match t with
  | DTok w => forallb plain_byte w
  | DStr _ => true
  | DArr l => forallb doc_plain l
  | DObj l => forallb (fun kt => doc_plain (snd kt)) l
  end.

(* n arrays inside each other around t *)
Fixpoint nest (n : nat) (t : doc) : doc :=
  match n with O => t | S k => DArr [nest k t] end.

(* harness wire form: the document is given as repeated pieces *)
Definition expand (pieces : list (N * str)) : str :=
  concat (map (fun p => concat (repeat (snd p) (N.to_nat (fst p)))) pieces).

(* How the source handles its reference chains (gen/Tables.v, regenerated on every run): every record of []string chains
   is received by value and never has its address taken, every chain field is given an array of its own (`make`, nil, the only slice taken of a local array), the same field of a
   chain record with one element appended, or a copy of the same field's header -- nothing else.  These
   are the two assumptions under which SlicesSpec.v proves that the shared backing arrays implement the immutable chains
   of the model. *)
From LDGen Require Import Tables.
From Coq Require Import String List Bool.
Import ListNotations.

Definition chain_discipline : bool :=
  forallb (fun w => String.eqb (snd w) "append-self" || String.eqb (snd w) "fresh" || String.eqb (snd w) "copy") chain_writes_src &&
  forallb (fun w => String.eqb (snd w) "value") chain_headers_src.

Theorem chain_discipline_in_source : chain_discipline = true.
Proof. vm_compute. reflexivity. Qed.

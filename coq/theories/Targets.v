(* C03: individual targeting *)
From LD Require Import Base F32 Data Semver Model Ops Bucket Eval EvalFacts Safety Codec.
Open Scope Z_scope.

(* generic: an ordered scan of option-valued tests returns the first success *)
Fixpoint first_some {A B} (g : A -> option B) (l : list A) : option B :=
  match l with [] => None | x :: r => match g x with Some b => Some b | None => first_some g r end end.

Lemma first_some_spec {A B} (g : A -> option B) l b :
  first_some g l = Some b <->
  exists pre x post, l = pre ++ x :: post /\ Forall (fun y => g y = None) pre /\ g x = Some b.
Proof.
  split.
  - induction l as [|x r IH]; simpl; [discriminate|]. destruct (g x) as [b'|] eqn:Hx.
    + intros H; inversion H; subst. exists [], x, r. repeat split; [constructor|exact Hx].
    + intros H. destruct (IH H) as [pre [y [post [Hl [Hp Hy]]]]]. exists (x :: pre), y, post. subst r.
      repeat split; [constructor; assumption|exact Hy].
  - intros [pre [x [post [Hl [Hp Hx]]]]]. subst l. induction Hp as [|y pre Hy _ IH]; simpl.
    + rewrite Hx. reflexivity.
    + rewrite Hy. exact IH.
Qed.

Lemma first_some_none {A B} (g : A -> option B) l : first_some g l = None <-> Forall (fun y => g y = None) l.
Proof.
  induction l as [|x r IH]; simpl.
  - split; [constructor|reflexivity].
  - destruct (g x) eqn:Hx.
    + split; [discriminate|]. intros H; inversion H; congruence.
    + rewrite IH. split; [intros H; constructor; assumption|intros H; inversion H; assumption].
Qed.

Section Targets.
Variable c : ctx.

(* membership in a key list is exact string equality, with or without the precomputed set *)
Lemma find_key_plain k vs : find_key k vs None = true <-> In k vs.
Proof. unfold find_key. apply mem_str_In. Qed.

Lemma find_key_pre_eq_plain k vs : find_key k vs (string_set vs) = find_key k vs None.
Proof. unfold find_key, string_set. destruct vs; reflexivity. Qed.

(* one target list: matches iff the context has an individual of the list's kind whose key is in the list *)
Lemma target_match_spec t v :
  t_pre t = None \/ t_pre t = string_set (t_values t) ->
  (target_match c t = Some v <->
   v = t_var t /\ exists i, ctx_by_kind c (t_kind t) = Some i /\ In (c_key i) (t_values t)).
Proof.
  intros Hpre. unfold target_match.
  assert (Hfk : forall k, find_key k (t_values t) (t_pre t) = find_key k (t_values t) None).
  { intros k. destruct Hpre as [H|H]; rewrite H; [reflexivity|apply find_key_pre_eq_plain]. }
  destruct (ctx_by_kind c (t_kind t)) as [i|].
  - rewrite Hfk. destruct (find_key (c_key i) (t_values t) None) eqn:Hf.
    + apply find_key_plain in Hf. split; [intros H; inversion H; split; [reflexivity|exists i; auto]|intros [H _]; subst; reflexivity].
    + split; [discriminate|]. intros [_ [i' [Hi Hin]]]. inversion Hi; subst i'. apply find_key_plain in Hin. congruence.
  - split; [discriminate|]. intros [_ [i [Hi _]]]. discriminate.
Qed.

(* a context lacking kind K never matches a K list *)
Lemma target_kind_absent t : ctx_by_kind c (t_kind t) = None -> target_match c t = None.
Proof. intros H. unfold target_match. rewrite H. reflexivity. Qed.

Lemma first_target_is_first_some ts : first_target c ts = first_some (target_match c) ts.
Proof. induction ts as [|t r IH]; simpl; [reflexivity|]. destruct (target_match c t); [reflexivity|exact IH]. Qed.

(* flag data with no context-target lists uses the user target lists alone, in listed order *)
Lemma legacy_targets_only f : f_ctargets f = [] -> any_target_match c f = first_some (target_match c) (f_targets f).
Proof. intros H. unfold any_target_match. rewrite H. apply first_target_is_first_some. Qed.

(* a context-target entry: a user-kind entry without keys defers to the user list with the same variation *)
Definition is_placeholder (t : target) : bool :=
  (match t_kind t with [] => true | _ => str_eqb (t_kind t) kind_user end) && (match t_values t with [] => true | _ => false end).

Definition entry_match (f : flag) (t : target) : option Z :=
  if is_placeholder t then fallback_target c (f_targets f) (t_var t) else target_match c t.

Lemma ctx_targets_is_first_some f ts : ctx_targets c f ts = first_some (entry_match f) ts.
Proof.
  induction ts as [|t r IH]; simpl; [reflexivity|]. unfold entry_match at 1, is_placeholder.
  destruct ((match t_kind t with [] => true | _ => str_eqb (t_kind t) kind_user end) &&
            (match t_values t with [] => true | _ => false end)).
  - destruct (fallback_target c (f_targets f) (t_var t)); [reflexivity|exact IH].
  - destruct (target_match c t); [reflexivity|exact IH].
Qed.

Lemma context_targets_in_order f :
  f_ctargets f <> [] -> any_target_match c f = first_some (entry_match f) (f_ctargets f).
Proof.
  intros H. unfold any_target_match. destruct (f_ctargets f) as [|t r] eqn:He; [congruence|].
  rewrite <- He. rewrite <- ctx_targets_is_first_some. rewrite He. reflexivity.
Qed.

(* the deferred lookup consults only the FIRST user target list that has the same variation *)
Lemma fallback_target_spec ts v :
  fallback_target c ts v =
  match find (fun t1 => t_var t1 =? v) ts with Some t1 => target_match c t1 | None => None end.
Proof. induction ts as [|t r IH]; simpl; [reflexivity|]. destruct (t_var t =? v); [reflexivity|exact IH]. Qed.

(* when context targets exist and none of them is a placeholder, the user target lists are not consulted at all *)
Lemma user_targets_not_consulted f ts' :
  f_ctargets f <> [] -> forallb (fun t => negb (is_placeholder t)) (f_ctargets f) = true ->
  any_target_match c (mkflag (f_key f) (f_on f) (f_prereqs f) ts' (f_ctargets f) (f_rules f) (f_fallthrough f)
                             (f_off f) (f_vars f) (f_salt f) (f_track_ft f) (f_exclude f) (f_meta f))
  = any_target_match c f.
Proof.
  intros Hne Hall. rewrite !context_targets_in_order by (simpl; assumption). simpl.
  induction (f_ctargets f) as [|t r IH]; simpl; [reflexivity|].
  simpl in Hall. apply andb_true_iff in Hall as [Ht Hr]. unfold entry_match at 1 3. simpl.
  apply negb_true_iff in Ht. rewrite Ht. destruct (target_match c t); [reflexivity|].
  destruct r; [reflexivity|]. apply IH; [discriminate|exact Hr].
Qed.

(* precomputed key sets never change what a target list matches *)
Lemma target_match_pre t : t_pre t = None -> target_match c (pp_target t) = target_match c t.
Proof.
  intros Hp. unfold target_match, pp_target. simpl. destruct (ctx_by_kind c (t_kind t)); [|reflexivity].
  rewrite find_key_pre_eq_plain, Hp. reflexivity.
Qed.

End Targets.

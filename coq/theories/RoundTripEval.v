(* C15: "the re-decoded flag or segment evaluates identically to the original for every context".
   For every accepted document j, f1 = decode j and f2 = decode (encode f1) = canon f1; over a store in which every flag and
   segment went through the same encode/decode step, evaluating f2 gives the outcome of evaluating f1 over the original
   store: same value, index, reason, experiment bit, store reads, big-segment queries, log lines, events (an event carries
   the re-decoded form of the prerequisite flag it reports). Instance of TransEval. *)
From LD Require Import Base F32 Data Semver Model Ops Bucket Eval EvalFacts Safety WellFormed Codec CodecFacts CodecRT DecodeWF
     Targets Prep PrepEval DecodePlain TransEval.
From RecordUpdate Require Import RecordUpdate.
Open Scope Z_scope.

Lemma canon_clause_plain cl : plain_clause cl -> canon_clause cl = cl.
Proof. unfold plain_clause, canon_clause. destruct cl; simpl. intros H; subst. reflexivity. Qed.
Lemma canon_target_plain t : plain_target t -> canon_target t = t.
Proof. unfold plain_target, canon_target. destruct t; simpl. intros H; subst. reflexivity. Qed.
Lemma canon_segtarget_plain t : plain_segtarget t -> canon_segtarget t = t.
Proof. unfold plain_segtarget, canon_segtarget. destruct t; simpl. intros H; subst. reflexivity. Qed.

Lemma canon_vorr_same_result o c vr key salt : vr_result o c (canon_vorr vr) key salt = vr_result o c vr key salt.
Proof.
  unfold vr_result, canon_vorr. cbn [vr_var vr_rollout]. destruct (vr_var vr); [reflexivity|].
  destruct (ro_vars (vr_rollout vr)) eqn:Hv; [reflexivity|]. rewrite Hv. reflexivity.
Qed.

(* the context targets of a decoded flag carry no precomputed data either *)
Lemma ctargets_step k v fd fd' :
  Forall plain_target (f_ctargets (fst fd)) -> flag_step k v fd = Some fd' -> Forall plain_target (f_ctargets (fst fd')).
Proof.
  destruct fd as [f d]. destruct fd' as [f' d']. cbn [fst]. intros H Hs. unfold flag_step, is in Hs.
  repeat match type of Hs with (if ?b then _ else _) = _ => destruct b end;
  try (match type of Hs with
       | bindo (rd_array_or_null rd_target v (f_ctargets f)) _ = _ =>
           destruct (rd_array_or_null rd_target v (f_ctargets f)) eqn:Ea; cbn [bindo] in Hs; [|discriminate Hs];
           inversion Hs; subst; cbn; eapply rd_array_or_null_Forall; [apply plain_rd_target|exact H|exact Ea]
       end);
  try (match type of Hs with bindo ?m _ = _ => destruct m; cbn [bindo] in Hs; [|discriminate Hs] end; inversion Hs; subst; exact H);
  try (destruct v; inversion Hs; subst; exact H);
  inversion Hs; subst; exact H.
Qed.
Theorem decode_flag_ctargets_plain j f : decode_flag j = Some f -> Forall plain_target (f_ctargets f).
Proof.
  unfold decode_flag, rd_object. destruct j; try discriminate.
  destruct (fold_props flag_step l (flag0, false)) as [[f1 d]|] eqn:E; simpl; [|discriminate].
  assert (H1 : Forall plain_target (f_ctargets f1)).
  { change f1 with (fst (f1, d)).
    apply (fold_props_inv (fun fd => Forall plain_target (f_ctargets (fst fd))) flag_step l (flag0, false) (f1, d)); [|constructor|exact E].
    intros k v x x' Hx Hs. eapply ctargets_step; eauto. }
  intros H; inversion H; subst. destruct (fm_cs_explicit (f_meta f1)); exact H1.
Qed.

Section RT.
Variable re_ok : str -> bool.
Variable re_match : str -> str -> bool.
Variable o : opts.
Variable E : env.
Variable P : bsprov.
Variable c : ctx.

(* the store after every item went through encode / decode *)
Definition redecoded_env : env :=
  mkenv (map (fun kv => (fst kv, canon_flag (snd kv))) (e_flags E)) (map (fun kv => (fst kv, canon_segment (snd kv))) (e_segments E)).
Definition rt_obs : obs -> obs :=
  t_obs canon_clause canon_target canon_target canon_vorr canon_meta.
Definition rt_out (r : outcome) : outcome := mkoutcome (out_detail r) (out_isexp r) (map rt_obs (out_trace r)).

Definition okpre (sg : segment) : Prop := sg_pre_inc sg = None /\ sg_pre_exc sg = None.

Lemma canon_is_instance_flag f :
  tf canon_clause canon_target canon_target canon_vorr canon_meta f = canon_flag f.
Proof. reflexivity. Qed.
Lemma canon_is_instance_segment sg :
  ts canon_clause canon_segtarget (fun _ => None) (fun _ => None) sg = canon_segment sg.
Proof. reflexivity. Qed.

Theorem canonical_store_same_evaluation f :
  Forall (fun kv => plain_flag (snd kv) /\ Forall plain_target (f_ctargets (snd kv))) (e_flags E) ->
  Forall (fun kv => plain_segment (snd kv)) (e_segments E) ->
  plain_flag f -> Forall plain_target (f_ctargets f) ->
  run re_ok re_match o redecoded_env P c (canon_flag f) =
  match run re_ok re_match o E P c f with Done r => Done (rt_out r) | Panic => Panic | OutOfFuel => OutOfFuel end.
Proof.
  intros HF HS [Hft Hfr] Hfc.
  apply (transformed_store_same_evaluation re_ok re_match o E P c
           canon_clause plain_clause canon_target plain_target canon_target plain_target canon_segtarget plain_segtarget
           canon_vorr canon_meta (fun _ => None) (fun _ => None) okpre).
  - intros cl H. rewrite (canon_clause_plain cl H). auto.
  - intros t H. rewrite (canon_target_plain t H). auto.
  - intros t H. rewrite (canon_target_plain t H). auto.
  - intros t H. rewrite (canon_segtarget_plain t H). reflexivity.
  - intros sg [H1 H2] k. rewrite H1, H2. auto.
  - intros vr key salt. apply canon_vorr_same_result.
  - split.
    + eapply Forall_impl; [|exact HF]. intros kv [[H1 H2] H3]. split; [exact H1|]. split; [exact H3|exact H2].
    + eapply Forall_impl; [|exact HS]. intros kv [H1 [H2 [H3 [H4 H5]]]]. split; [split; assumption|]. split; [exact H3|]. split; [exact H4|exact H5].
  - split; [exact Hft|]. split; [exact Hfc|exact Hfr].
Qed.

(* stated on documents: j is accepted, f1 its decoding, f2 the decoding of f1's encoding; likewise every stored item *)
Theorem redecoded_flag_evaluates_identically j f1 f2 :
  decoded_env E -> decode_flag j = Some f1 -> decode_flag (encode_flag f1) = Some f2 ->
  run re_ok re_match o redecoded_env P c f2 =
  match run re_ok re_match o E P c f1 with Done r => Done (rt_out r) | Panic => Panic | OutOfFuel => OutOfFuel end.
Proof.
  intros [HF HS] Hj H2.
  rewrite (decode_encode_flag f1 (decode_flag_wf j f1 Hj)) in H2. inversion H2; subst f2.
  apply canonical_store_same_evaluation.
  - eapply Forall_impl; [|exact HF]. intros kv [j' Hj']. split; [eapply decode_flag_plain; eauto|eapply decode_flag_ctargets_plain; eauto].
  - eapply Forall_impl; [|exact HS]. intros kv [j' Hj']. eapply decode_segment_plain; eauto.
  - eapply decode_flag_plain; eauto.
  - eapply decode_flag_ctargets_plain; eauto.
Qed.

(* and the re-decoded store really is what decoding the encodings of the stored items gives *)
Theorem redecoded_env_is_redecoding :
  decoded_env E ->
  Forall (fun kv => decode_flag (encode_flag (snd kv)) = Some (canon_flag (snd kv))) (e_flags E) /\
  Forall (fun kv => decode_segment (encode_segment (snd kv)) = Some (canon_segment (snd kv))) (e_segments E).
Proof.
  intros [HF HS]. split.
  - eapply Forall_impl; [|exact HF]. intros kv [j Hj]. apply decode_encode_flag. eapply decode_flag_wf; eauto.
  - eapply Forall_impl; [|exact HS]. intros kv [j Hj]. apply decode_encode_segment. eapply decode_segment_wf; eauto.
Qed.
End RT.

(* Single-precision facts behind C07: the per-bucket fraction fl(fl(w)/fl(100000)) is monotone in the weight, and
   adding a larger fraction to the same partial sum cannot lower a threshold. *)
From LD Require Import Base F32 Data Model Ops Bucket.
From Flocq Require Import Core BinarySingleNaN.
From Coq Require Import Reals Lra Lia.
Open Scope R_scope.

Notation fexp32 := (SpecFloat.fexp prec emax).
Definition rnd (x : R) : R := round radix2 fexp32 (round_mode mode_NE) x.

#[export] Instance fexp32_valid : Valid_exp fexp32.
Proof. apply fexp_correct. exact Hprec. Qed.

Lemma rnd_le x y : x <= y -> rnd x <= rnd y.
Proof. intros H. unfold rnd. apply round_le; [typeclasses eauto|typeclasses eauto|exact H]. Qed.

Lemma bpow_format e : (-149 <= e)%Z -> generic_format radix2 fexp32 (bpow radix2 e).
Proof.
  intros He. apply generic_format_bpow. unfold SpecFloat.fexp, SpecFloat.emin, prec, emax. lia.
Qed.

Lemma rnd_abs_le_bpow x e : (-149 <= e)%Z -> Rabs x <= bpow radix2 e -> Rabs (rnd x) <= bpow radix2 e.
Proof.
  intros He Hx. unfold rnd. apply abs_round_le_generic; [typeclasses eauto|typeclasses eauto|apply bpow_format; exact He|exact Hx].
Qed.

Definition small (z : Z) : Prop := (Z.abs z <= 2 ^ 64)%Z.

Lemma IZR_small z : small z -> Rabs (IZR z) <= bpow radix2 64.
Proof.
  intros H. unfold small in H. rewrite <- abs_IZR. change (bpow radix2 64) with (IZR (2 ^ 64)). apply IZR_le. exact H.
Qed.

Lemma of_Z_correct z : small z -> B2R (f32_of_Z z) = rnd (IZR z) /\ is_finite (f32_of_Z z) = true.
Proof.
  intros Hz. unfold f32_of_Z.
  pose proof (binary_normalize_correct prec emax Hprec Hmax mode_NE z 0 false) as H.
  cbv zeta in H. rewrite F2R_0_exp in H || idtac.
  assert (HF : F2R (Float radix2 z 0) = IZR z) by (unfold F2R; simpl; lra).
  rewrite HF in H.
  rewrite Rlt_bool_true in H.
  - destruct H as [H1 [H2 _]]. split; assumption.
  - eapply Rle_lt_trans; [apply (rnd_abs_le_bpow _ 64); [lia|apply IZR_small; exact Hz]|].
    apply bpow_lt. unfold emax. lia.
Qed.

Lemma c100000 : B2R (f32_of_Z 100000) = 100000.
Proof.
  destruct (of_Z_correct 100000) as [H _]; [unfold small; simpl; lia|]. rewrite H. unfold rnd.
  apply round_generic; [typeclasses eauto|].
  replace 100000 with (F2R (Float radix2 3125 5)) by (unfold F2R; simpl; lra).
  apply generic_format_F2R. intros _. unfold cexp, SpecFloat.fexp, SpecFloat.emin, prec, emax.
  rewrite (mag_unique radix2 _ 17).
  - simpl. lia.
  - unfold F2R. simpl. rewrite Rabs_right by lra. split; lra.
Qed.

Lemma frac_correct w : small w ->
  B2R (weight_frac w) = rnd (rnd (IZR w) / 100000) /\ is_finite (weight_frac w) = true.
Proof.
  intros Hw. unfold weight_frac, f32_div.
  destruct (of_Z_correct w Hw) as [Hw1 Hw2].
  pose proof (Bdiv_correct prec emax Hprec Hmax mode_NE (f32_of_Z w) (f32_of_Z 100000)) as H.
  rewrite c100000 in H. specialize (H ltac:(lra)). rewrite Hw1 in H.
  rewrite Rlt_bool_true in H.
  - destruct H as [H1 [H2 _]]. split; [exact H1|rewrite H2; exact Hw2].
  - eapply Rle_lt_trans; [apply (rnd_abs_le_bpow _ 64); [lia|]|apply bpow_lt; unfold emax; lia].
    unfold Rdiv. rewrite Rabs_mult. rewrite (Rabs_right (/ 100000)) by (apply Rle_ge; left; apply Rinv_0_lt_compat; lra).
    pose proof (rnd_abs_le_bpow (IZR w) 64 ltac:(lia) (IZR_small w Hw)) as Hb.
    pose proof (bpow_gt_0 radix2 64) as Hp.
    assert (Rabs (rnd (IZR w)) * / 100000 <= Rabs (rnd (IZR w))).
    { rewrite <- (Rmult_1_r (Rabs (rnd (IZR w)))) at 2. apply Rmult_le_compat_l; [apply Rabs_pos|].
      rewrite <- Rinv_1. apply Rinv_le_contravar; lra. }
    lra.
Qed.

(* the per-bucket fraction is monotone in the weight *)
Lemma frac_mono w w' : small w -> small w' -> (w <= w')%Z -> B2R (weight_frac w) <= B2R (weight_frac w').
Proof.
  intros H1 H2 Hle. destruct (frac_correct w H1) as [E1 _]. destruct (frac_correct w' H2) as [E2 _].
  rewrite E1, E2. apply rnd_le. unfold Rdiv. apply Rmult_le_compat_r; [left; apply Rinv_0_lt_compat; lra|].
  apply rnd_le. apply IZR_le. exact Hle.
Qed.

(* adding a larger addend to the same finite partial sum gives a threshold at least as large *)
Lemma add_mono (sum x y : f32) :
  is_finite sum = true -> is_finite x = true -> is_finite y = true ->
  is_finite (f32_add sum x) = true -> is_finite (f32_add sum y) = true ->
  B2R x <= B2R y -> B2R (f32_add sum x) <= B2R (f32_add sum y).
Proof.
  intros Fs Fx Fy Fsx Fsy Hle. unfold f32_add in *.
  pose proof (Bplus_correct prec emax Hprec Hmax mode_NE sum x Fs Fx) as Hx.
  pose proof (Bplus_correct prec emax Hprec Hmax mode_NE sum y Fs Fy) as Hy.
  match type of Hx with (if ?cx then _ else _) => destruct cx end.
  - match type of Hy with (if ?cy then _ else _) => destruct cy end.
    + destruct Hx as [Hx _]. destruct Hy as [Hy _]. rewrite Hx, Hy. apply round_le; [typeclasses eauto|typeclasses eauto|lra].
    + exfalso. destruct Hy as [Hy _]. destruct (Bplus mode_NE sum y); simpl in *; try discriminate.
  - exfalso. destruct Hx as [Hx _]. destruct (Bplus mode_NE sum x); simpl in *; try discriminate.
Qed.

Lemma ltb_mono (b t t' : f32) :
  is_finite b = true -> is_finite t = true -> is_finite t' = true ->
  B2R t <= B2R t' -> f32_ltb b t = true -> f32_ltb b t' = true.
Proof.
  intros Fb Ft Ft' Hle. unfold f32_ltb. rewrite !Bltb_correct by assumption.
  intros H. apply Rlt_bool_true. destruct (Rlt_bool_spec (B2R b) (B2R t)); [lra|discriminate].
Qed.

(* adding +0 never moves a threshold: a zero-weight bucket repeats the previous threshold *)
Lemma add_zero_ltb (b s : f32) : f32_ltb b (f32_add s (B754_zero false)) = f32_ltb b s.
Proof.
  unfold f32_ltb, f32_add, Bltb. destruct s as [sg|sg| |sg m e He]; try reflexivity.
  destruct sg; destruct b as [bs|bs| |bs bm be Hb]; reflexivity.
Qed.

Lemma frac_zero : weight_frac 0 = B754_zero false.
Proof. vm_compute. reflexivity. Qed.

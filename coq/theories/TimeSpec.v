(* C18: timestamps denote the right instant *)
From LD Require Import Base F32 Data Scan Semver Time Model Ops.
From Coq Require Import ZifyBool.
Open Scope Z_scope.
Ltac Zify.zify_post_hook ::= Z.div_mod_to_equations.

(* ---- numeric epoch milliseconds ---- *)
Lemma millis_instant d : - two63 <= dy_trunc d < two63 -> instant_of_millis d = dy_trunc d * 1000000.
Proof.
  intros [H1 H2]. unfold instant_of_millis, dy_to_int.
  apply Z.leb_le in H1. apply Z.ltb_lt in H2. rewrite H1, H2. reflexivity.
Qed.
Lemma millis_instant_int ms : - two63 <= ms < two63 -> value_to_time (JNum (dy_of_Z ms)) = Some (ms * 1000000).
Proof.
  intros H. simpl. f_equal. rewrite millis_instant; unfold dy_trunc, dy_of_Z; simpl; rewrite Z.mul_1_r; [reflexivity|exact H].
Qed.

(* ---- before / after are strict chronological order on instants, whatever the representation ---- *)
Lemma date_before_is_lt c cv i tc tv :
  clause_time c i = Some tc -> value_to_time cv = Some tv -> date_op c cv i Z.ltb = (tv <? tc).
Proof. intros H1 H2. unfold date_op. rewrite H1, H2. reflexivity. Qed.
Lemma date_after_is_gt c cv i tc tv :
  clause_time c i = Some tc -> value_to_time cv = Some tv -> date_op c cv i (fun a b => b <? a) = (tc <? tv).
Proof. intros H1 H2. unfold date_op. rewrite H1, H2. reflexivity. Qed.
Lemma equal_instants_neither t : (t <? t) = false.
Proof. apply Z.ltb_irrefl. Qed.

(* string and numeric forms of one instant are interchangeable: the operator only sees the instant *)
Lemma representation_irrelevant c cv cv' i f :
  value_to_time cv = value_to_time cv' -> date_op c cv i f = date_op c cv' i f.
Proof. intros H. unfold date_op. rewrite H. reflexivity. Qed.

(* values that are not timestamps *)
Lemma not_a_timestamp v : match v with JStr _ | JNum _ => False | _ => True end -> value_to_time v = None.
Proof. destruct v; simpl; intros H; try contradiction; reflexivity. Qed.
Lemma invalid_operand_never_matches c cv i f : value_to_time cv = None -> date_op c cv i f = false.
Proof. intros H. unfold date_op. rewrite H. destruct (clause_time c i); reflexivity. Qed.
Lemma invalid_clause_value_never_matches c cv i f : clause_time c i = None -> date_op c cv i f = false.
Proof. intros H. unfold date_op. rewrite H. reflexivity. Qed.

(* ---- the day count is the proleptic Gregorian calendar: every month start is the previous month start plus the length
   of that month, for EVERY year from 0 on. One 400-year cycle (4 800 month boundaries) is evaluated by the kernel; the
   formula is 400-year periodic (146 097 days), which extends the table to all years. ---- *)
Definition next_month (y m : Z) : Z * Z := if m =? 12 then (y + 1, 1) else (y, m + 1).
Definition month_ok (y m : Z) : bool :=
  let '(y', m') := next_month y m in
  days_from_civil y' m' 1 - days_from_civil y m 1 =? days_in_month y m.

(* the Gregorian calendar repeats every 400 years = 146097 days *)
Lemma era_period z : -1 <= z -> (if 0 <=? z + 400 then z + 400 else z + 400 - 399) / 400 = (if 0 <=? z then z else z - 399) / 400 + 1.
Proof.
  intros Hz. replace (0 <=? z + 400) with true by lia.
  destruct (0 <=? z) eqn:E.
  - replace (z + 400) with (z + 1 * 400) by lia. rewrite Z.div_add by lia. reflexivity.
  - assert (z = -1) by lia. subst z. reflexivity.
Qed.
Lemma dfc_period y m d : 0 <= y -> days_from_civil (y + 400) m d = days_from_civil y m d + 146097.
Proof.
  intros Hy. unfold days_from_civil.
  assert (E : (if m <=? 2 then y + 400 - 1 else y + 400) = (if m <=? 2 then y - 1 else y) + 400) by (destruct (m <=? 2); lia).
  rewrite E. set (z := if m <=? 2 then y - 1 else y). assert (Hz : -1 <= z) by (unfold z; destruct (m <=? 2); lia).
  cbv zeta. rewrite (era_period z Hz). set (era := (if 0 <=? z then z else z - 399) / 400).
  replace (z + 400 - (era + 1) * 400) with (z - era * 400) by lia. lia.
Qed.
Lemma leap_period y : leap (y + 400) = leap y.
Proof.
  unfold leap. replace ((y + 400) mod 4) with (y mod 4) by lia. replace ((y + 400) mod 100) with (y mod 100) by lia.
  replace ((y + 400) mod 400) with (y mod 400) by lia. reflexivity.
Qed.
Lemma month_ok_period y m : 0 <= y -> month_ok (y + 400) m = month_ok y m.
Proof.
  intros Hy. unfold month_ok, next_month, days_in_month. rewrite leap_period. destruct (m =? 12).
  - replace (y + 400 + 1) with (y + 1 + 400) by lia. rewrite !dfc_period by lia. f_equal. lia.
  - rewrite !dfc_period by lia. f_equal. lia.
Qed.

Definition years400 : list nat := seq 0 400.
Definition months : list nat := seq 1 12.
Definition check2 {A B} (f : A -> B -> bool) (ys : list A) (ms : list B) : bool :=
  forallb (fun y => forallb (fun m => f y m) ms) ys.
Definition month_ok_nat (y m : nat) : bool := month_ok (Z.of_nat y) (Z.of_nat m).
Lemma one_cycle_ok : check2 month_ok_nat years400 months = true.
Proof. vm_compute. reflexivity. Qed.
Lemma check2_spec {A B} (f : A -> B -> bool) ys ms :
  check2 f ys ms = true -> forall y m, In y ys -> In m ms -> f y m = true.
Proof.
  unfold check2. intros H y m Hy Hm. rewrite forallb_forall in H. specialize (H y Hy). rewrite forallb_forall in H. exact (H m Hm).
Qed.
Lemma month_ok_cycle r m : 0 <= r < 400 -> 1 <= m <= 12 -> month_ok r m = true.
Proof.
  intros Hr Hm.
  assert (Hin : In (Z.to_nat r) years400) by (unfold years400; apply in_seq; lia).
  assert (Hin2 : In (Z.to_nat m) months) by (unfold months; apply in_seq; lia).
  pose proof (check2_spec month_ok_nat years400 months one_cycle_ok _ _ Hin Hin2) as H.
  unfold month_ok_nat in H. rewrite !Z2Nat.id in H by lia. exact H.
Qed.
Lemma month_ok_all : forall q : nat, forall r m, 0 <= r < 400 -> 1 <= m <= 12 -> month_ok (r + 400 * Z.of_nat q) m = true.
Proof.
  induction q as [|q IH]; intros r m Hr Hm.
  - replace (r + 400 * Z.of_nat 0) with r by lia. apply month_ok_cycle; assumption.
  - replace (r + 400 * Z.of_nat (S q)) with (r + 400 * Z.of_nat q + 400) by lia. rewrite month_ok_period by lia. apply IH; assumption.
Qed.
(* every year from 0 on, not only 0000-9999 *)
Theorem day_count_matches_calendar y m :
  0 <= y -> 1 <= m <= 12 ->
  let '(y', m') := next_month y m in days_from_civil y' m' 1 = days_from_civil y m 1 + days_in_month y m.
Proof.
  intros Hy Hm.
  pose proof (month_ok_all (Z.to_nat (y / 400)) (y mod 400) m) as H.
  rewrite Z2Nat.id in H by lia. replace (y mod 400 + 400 * (y / 400)) with y in H by lia.
  specialize (H ltac:(lia) Hm). unfold month_ok in H. destruct (next_month y m) as [y' m']. apply Z.eqb_eq in H. lia.
Qed.

Lemma epoch_anchor : days_from_civil 1970 1 1 = 0.
Proof. reflexivity. Qed.
Lemma day_within_month y m d : days_from_civil y m d = days_from_civil y m 1 + (d - 1).
Proof. unfold days_from_civil. lia. Qed.

(* ---- the scanner on rendered fields ---- *)
Definition digit (d : Z) : N := Z.to_N (48 + d).
Definition digits2 (v : Z) : str := [digit (v / 10); digit (v mod 10)].
Definition digits4 (v : Z) : str := [digit (v / 1000); digit (v / 100 mod 10); digit (v / 10 mod 10); digit (v mod 10)].

Lemma read_until_app p ds t rest :
  Forall (fun ch => is_ascii ch = true /\ p ch = false) ds -> is_ascii t = true -> p t = true ->
  read_until p (ds ++ t :: rest) = (ds, TChar t, rest).
Proof.
  intros Hf Ha Hp. induction Hf as [|ch ds [H1 H2] _ IH]; simpl.
  - rewrite Ha, Hp. reflexivity.
  - rewrite H1, H2. simpl. rewrite IH. reflexivity.
Qed.
Lemma read_until_eof p ds :
  Forall (fun ch => is_ascii ch = true /\ p ch = false) ds -> read_until p ds = (ds, TEof, []).
Proof.
  intros Hf. induction Hf as [|ch ds [H1 H2] _ IH]; simpl; [reflexivity|]. rewrite H1, H2. simpl. rewrite IH. reflexivity.
Qed.

Definition is_term (p : N -> bool) : Prop := forall d, 0 <= d <= 9 -> p (digit d) = false.
Lemma digit_ascii d : 0 <= d <= 9 -> is_ascii (digit d) = true.
Proof.
  intros H. unfold is_ascii, digit. apply andb_true_iff. split.
  - apply negb_true_iff. apply N.eqb_neq. lia.
  - apply N.leb_le. lia.
Qed.
Lemma digit_is_digit d : 0 <= d <= 9 -> is_digit (digit d) = true.
Proof. intros H. unfold is_digit, digit. apply andb_true_iff; split; apply N.leb_le; lia. Qed.
Lemma digit_val d : 0 <= d <= 9 -> Z.of_N (digit d) - 48 = d.
Proof. intros H. unfold digit. lia. Qed.

Lemma digit_neq d ch : 0 <= d <= 9 -> (ch < 48 \/ 57 < ch)%N -> N.eqb (digit d) ch = false.
Proof. intros H Hc. apply N.eqb_neq. unfold digit. lia. Qed.

Lemma terms_ok : is_term hyphen_t /\ is_term t_t /\ is_term colon_t /\ is_term end_sec_t /\ is_term end_frac_t /\ is_term none_t.
Proof.
  unfold is_term, hyphen_t, t_t, colon_t, end_sec_t, end_frac_t, none_t.
  repeat split; intros d Hd; rewrite ?(digit_neq d) by (auto; lia); reflexivity.
Qed.

Lemma parse_num2 v : 0 <= v <= 99 -> parse_num (digits2 v) = Some v.
Proof.
  intros H. unfold parse_num, digits2. simpl.
  assert (0 <= v / 10 <= 9) by lia.
  assert (0 <= v mod 10 <= 9) by lia.
  rewrite !digit_is_digit, !digit_val by assumption.
  rewrite (wrap64_small (v / 10)) by (unfold two63; lia).
  rewrite wrap64_small by (unfold two63; lia). f_equal. lia.
Qed.

Lemma parse_num4 v : 0 <= v <= 9999 -> parse_num (digits4 v) = Some v.
Proof.
  intros H. unfold parse_num, digits4. simpl.
  assert (0 <= v / 1000 <= 9) by lia.
  assert (0 <= v / 100 mod 10 <= 9) by lia.
  assert (0 <= v / 10 mod 10 <= 9) by lia.
  assert (0 <= v mod 10 <= 9) by lia.
  rewrite !digit_is_digit, !digit_val by assumption.
  rewrite (wrap64_small (v / 1000)) by (unfold two63; lia).
  rewrite (wrap64_small (v / 1000 * 10 + _)) by (unfold two63; lia).
  rewrite (wrap64_small ((v / 1000 * 10 + _) * 10 + _)) by (unfold two63; lia).
  rewrite wrap64_small by (unfold two63; lia). f_equal. lia.
Qed.

Lemma digits2_ok p v : 0 <= v <= 99 -> is_term p -> Forall (fun ch => is_ascii ch = true /\ p ch = false) (digits2 v).
Proof.
  intros H Hp.
  assert (0 <= v / 10 <= 9) by lia.
  assert (0 <= v mod 10 <= 9) by lia.
  unfold digits2. repeat constructor; auto using digit_ascii.
Qed.
Lemma digits4_ok p v : 0 <= v <= 9999 -> is_term p -> Forall (fun ch => is_ascii ch = true /\ p ch = false) (digits4 v).
Proof.
  intros H Hp.
  assert (0 <= v / 1000 <= 9) by lia.
  assert (0 <= v / 100 mod 10 <= 9) by lia.
  assert (0 <= v / 10 mod 10 <= 9) by lia.
  assert (0 <= v mod 10 <= 9) by lia.
  unfold digits4. repeat constructor; auto using digit_ascii.
Qed.

Lemma num_field_gen p ds v t rest minL maxL lo hi :
  Forall (fun ch => is_ascii ch = true /\ p ch = false) ds -> ds <> [] -> parse_num ds = Some v ->
  minL <= zlen ds <= maxL -> lo <= v <= hi -> is_ascii t = true -> p t = true ->
  num_field p false minL maxL lo hi (ds ++ t :: rest) = Some (v, TChar t, rest).
Proof.
  intros Hf Hne Hp Hl Hr Ha Ht. unfold num_field. rewrite (read_until_app p ds t rest Hf Ha Ht).
  destruct ds as [|a ds']; [congruence|]. cbn [negb andb term_neg].
  rewrite Hp.
  destruct (zlen (a :: ds') <? minL) eqn:H1; [apply Z.ltb_lt in H1; lia|].
  destruct (maxL <? zlen (a :: ds')) eqn:H2; [apply Z.ltb_lt in H2; lia|]. cbn [orb].
  destruct (v <? lo) eqn:H3; [apply Z.ltb_lt in H3; lia|]. destruct (hi <? v) eqn:H4; [apply Z.ltb_lt in H4; lia|]. reflexivity.
Qed.

Lemma num_field2 p v t rest minL lo hi :
  is_term p -> 0 <= v <= 99 -> lo <= v <= hi -> 1 <= minL <= 2 -> is_ascii t = true -> p t = true ->
  num_field p false minL 2 lo hi (digits2 v ++ t :: rest) = Some (v, TChar t, rest).
Proof.
  intros Hp Hv Hr Hm Ha Ht. apply num_field_gen; auto.
  - apply digits2_ok; assumption.
  - discriminate.
  - apply parse_num2; assumption.
  - unfold zlen, digits2. simpl. lia.
Qed.

Lemma num_field4 p v t rest lo hi :
  is_term p -> 0 <= v <= 9999 -> lo <= v <= hi -> is_ascii t = true -> p t = true ->
  num_field p false 4 4 lo hi (digits4 v ++ t :: rest) = Some (v, TChar t, rest).
Proof.
  intros Hp Hv Hr Ha Ht. apply num_field_gen; auto.
  - apply digits4_ok; assumption.
  - discriminate.
  - apply parse_num4; assumption.
  - unfold zlen, digits4. simpl. lia.
Qed.

Lemma dim_le_31 y m : 28 <= days_in_month y m <= 31.
Proof. unfold days_in_month. destruct (m =? 2); [destruct (leap y); lia|]. destruct (_ || _); lia. Qed.

(* a rendered UTC timestamp denotes the instant of its civil fields (years 0000-9999, second 60 allowed) *)
Definition render_utc (y mo d h mi sec : Z) (tl zl : N) : str :=
  digits4 y ++ 45%N :: digits2 mo ++ 45%N :: digits2 d ++ tl :: digits2 h ++ 58%N :: digits2 mi ++ 58%N :: digits2 sec ++ [zl].

Definition civil_instant (y mo d h mi sec : Z) : Z :=
  (days_from_civil y mo d * 86400 + h * 3600 + mi * 60 + sec) * 1000000000.

Theorem parse_render_utc y mo d h mi sec tl zl :
  0 <= y <= 9999 -> 1 <= mo <= 12 -> 1 <= d <= days_in_month y mo -> 0 <= h <= 23 -> 0 <= mi <= 59 -> 0 <= sec <= 60 ->
  (tl = 84%N \/ tl = 116%N) -> (zl = 90%N \/ zl = 122%N) ->
  parse_rfc3339 (render_utc y mo d h mi sec tl zl) = Some (civil_instant y mo d h mi sec).
Proof.
  intros Hy Hmo Hd Hh Hmi Hs Htl Hzl. destruct terms_ok as [T1 [T2 [T3 [T4 [T5 T6]]]]].
  pose proof (dim_le_31 y mo) as H31.
  unfold parse_rfc3339, parse_frac, parse_zone, render_utc.
  rewrite (num_field4 hyphen_t y 45%N) by (auto; lia).
  rewrite (num_field2 hyphen_t mo 45%N) by (auto; lia).
  rewrite (num_field2 t_t d tl) by (auto; try lia; destruct Htl; subst; reflexivity).
  rewrite (num_field2 colon_t h 58%N) by (auto; lia).
  rewrite (num_field2 colon_t mi 58%N) by (auto; lia).
  rewrite (num_field2 end_sec_t sec zl) by (auto; try lia; destruct Hzl; subst; reflexivity).
  assert (Hz : term_is (TChar zl) 46%N = false /\ term_is (TChar zl) 43%N = false /\ term_is (TChar zl) 45%N = false).
  { destruct Hzl; subst; repeat split; reflexivity. }
  destruct Hz as [Z1 [Z2 Z3]]. rewrite Z1, Z2, Z3. cbn [orb].
  replace (days_in_month y mo <? d) with false by (symmetry; apply Z.ltb_ge; lia).
  unfold civil_instant. f_equal. lia.
Qed.

(* evaluator_bucketing.go, internal/parse_hex.go *)
From LD Require Import Base F32 Data Sha1 Model Ops.
Open Scope Z_scope.

(* ParseHexUint64: uint64 arithmetic, ret <<= 4 wraps *)
Fixpoint parse_hex_aux (acc : Z) (x : str) : option Z :=
  match x with
  | [] => Some acc
  | c :: r =>
    let acc4 := (acc * 16) mod two64 in
    if N.leb 48 c && N.leb c 57 then parse_hex_aux ((acc4 + (Z.of_N c - 48)) mod two64) r
    else if N.leb 97 c && N.leb c 102 then parse_hex_aux ((acc4 + (Z.of_N c - 87)) mod two64) r
    else if N.leb 65 c && N.leb c 70 then parse_hex_aux ((acc4 + (Z.of_N c - 55)) mod two64) r
    else None
  end.
Definition parse_hex (x : str) : option Z :=
  match x with [] => None | _ => parse_hex_aux 0 x end.

Inductive bfail := BNone | BInvalidRef | BLacksKind | BNotFound | BWrongType.

Definition long_scale : Z := 1152921504606846975.      (* 0xFFFFFFFFFFFFFFF *)
Definition hash_prefix_len : nat := 15.
Definition dot : N := 46%N.

Definition hash_to_bucket (input : str) : f32 :=
  let hexs := firstn hash_prefix_len (hex_encode (sha1 input)) in
  let iv := match parse_hex hexs with Some z => z | None => 0 end in
  f32_div (f32_of_Z iv) (f32_of_Z long_scale).

(* computeBucketValue; the hash input is the plain concatenation (see Buffer.v for the LocalBuffer refinement) *)
Definition compute_bucket (enable_secondary : bool) (x : ctx) (is_exp : bool) (seed : option Z)
           (kind key : str) (attr : ref) (salt : str) : er (f32 * bfail) :=
  let prefix := match seed with Some sd => dec sd | None => key ++ [dot] ++ salt end ++ [dot] in
  let attr' := if is_exp || negb (ref_defined attr) then Ok (new_literal_ref (s "key"))
               else if ref_has_err attr then Err (EBadAttr (ref_string attr)) else Ok attr in
  match attr' with
  | Err e => Err e
  | Ok a =>
    match ctx_by_kind x kind with
    | None => Ok (f32_zero, BLacksKind)
    | Some i =>
      let sec := if enable_secondary && negb is_exp
                 then match c_secondary i with Some x => dot :: x | None => [] end else [] in
      match get_value_for_ref i a with
      | JNull => Ok (f32_zero, BNotFound)
      | JStr v => Ok (hash_to_bucket (prefix ++ v ++ sec), BNone)
      | JNum d => if dy_is_int d then Ok (hash_to_bucket (prefix ++ dec (dy_to_int d) ++ sec), BNone)
                  else Ok (f32_zero, BWrongType)
      | _ => Ok (f32_zero, BWrongType)
      end
    end
  end.

Definition weight_frac (w : Z) : f32 := f32_div (f32_of_Z w) (f32_of_Z 100000).

(* the cumulative scan of variationOrRolloutResult *)
Fixpoint scan (b : f32) (sum : f32) (wvs : list wvar) : option wvar :=
  match wvs with
  | [] => None
  | wv :: r => let sum' := f32_add sum (weight_frac (wv_weight wv)) in
               if f32_ltb b sum' then Some wv else scan b sum' r
  end.

(* C04: clause and operator semantics *)
From LD Require Import Base F32 Data Scan Semver Time Model Ops Codec.
Open Scope Z_scope.

(* ---- string tests are the byte-level prefix / suffix / infix relations ---- *)
Lemma is_prefix_spec p x : is_prefix p x = true <-> exists r, x = p ++ r.
Proof.
  revert x. induction p as [|a p IH]; intros x; simpl.
  - split; [intros _; exists x; reflexivity|reflexivity].
  - destruct x as [|b x]; [split; [discriminate|intros [r Hr]; discriminate]|].
    rewrite andb_true_iff, N.eqb_eq, IH. split.
    + intros [Hab [r Hr]]. subst. exists r. reflexivity.
    + intros [r Hr]. inversion Hr; subst. split; [reflexivity|exists r; reflexivity].
Qed.

Lemma is_suffix_spec p x : is_suffix p x = true <-> exists l, x = l ++ p.
Proof.
  unfold is_suffix. rewrite is_prefix_spec. split.
  - intros [r Hr]. exists (rev r). apply (f_equal (@rev N)) in Hr. rewrite rev_involutive, rev_app_distr, rev_involutive in Hr. exact Hr.
  - intros [l Hl]. exists (rev l). subst. rewrite rev_app_distr. reflexivity.
Qed.

Lemma is_infix_spec p x : is_infix p x = true <-> exists l r, x = l ++ p ++ r.
Proof.
  induction x as [|b x IH]; simpl.
  - rewrite orb_false_r. rewrite is_prefix_spec. split.
    + intros [r Hr]. exists [], r. exact Hr.
    + intros [l [r Hr]]. destruct l; [|discriminate]. exists r. exact Hr.
  - rewrite orb_true_iff, is_prefix_spec, IH. split.
    + intros [[r Hr]|[l [r Hr]]]; [exists [], r; exact Hr|exists (b :: l), r; rewrite Hr; reflexivity].
    + intros [l [r Hr]]. destruct l as [|a l]; [left; exists r; exact Hr|]. right. inversion Hr; subst. exists l, r. reflexivity.
Qed.

(* ---- numeric order on the exact values of the float64 operands ---- *)
Lemma pow2_pos k : 0 < 2 ^ k \/ k < 0.
Proof. destruct (Z_lt_dec k 0); [right; assumption|left; apply Z.pow_pos_nonneg; lia]. Qed.

(* comparing at any common exponent not above both gives the same answer: the comparison is one of the VALUES *)
Lemma dy_cmp_common a b e0 :
  e0 <= de a -> e0 <= de b -> dy_cmp a b = Z.compare (dm a * 2 ^ (de a - e0)) (dm b * 2 ^ (de b - e0)).
Proof.
  intros Ha Hb. unfold dy_cmp. set (e := Z.min (de a) (de b)).
  assert (He : e0 <= e) by (unfold e; lia).
  assert (Hp : 0 < 2 ^ (e - e0)) by (apply Z.pow_pos_nonneg; lia).
  replace (de a - e0) with ((de a - e) + (e - e0)) by lia.
  replace (de b - e0) with ((de b - e) + (e - e0)) by lia.
  rewrite !Z.pow_add_r by (unfold e; lia). rewrite !Z.mul_assoc.
  apply Zmult_compare_compat_r. lia.
Qed.

Lemma dy_ltb_irrefl a : dy_ltb a a = false.
Proof. unfold dy_ltb, dy_cmp. rewrite Z.compare_refl. reflexivity. Qed.

Lemma dy_lt_le_incl a b : dy_ltb a b = true -> dy_leb a b = true.
Proof. unfold dy_ltb, dy_leb. destruct (dy_cmp a b); auto; discriminate. Qed.

Lemma dy_trichotomy a b : (dy_ltb a b = true /\ dy_eqb a b = false /\ dy_ltb b a = false) \/
                          (dy_ltb a b = false /\ dy_eqb a b = true /\ dy_ltb b a = false) \/
                          (dy_ltb a b = false /\ dy_eqb a b = false /\ dy_ltb b a = true).
Proof.
  unfold dy_ltb, dy_eqb.
  rewrite (dy_cmp_common a b (Z.min (de a) (de b))) by lia.
  rewrite (dy_cmp_common b a (Z.min (de a) (de b))) by lia.
  rewrite (Z.compare_antisym (dm a * _)). destruct (Z.compare _ _); simpl; auto.
Qed.

Lemma dy_lt_trans a b c : dy_ltb a b = true -> dy_ltb b c = true -> dy_ltb a c = true.
Proof.
  unfold dy_ltb. set (e0 := Z.min (de a) (Z.min (de b) (de c))).
  rewrite (dy_cmp_common a b e0), (dy_cmp_common b c e0), (dy_cmp_common a c e0) by (unfold e0; lia).
  destruct (Z.compare_spec (dm a * 2 ^ (de a - e0)) (dm b * 2 ^ (de b - e0))); try discriminate.
  destruct (Z.compare_spec (dm b * 2 ^ (de b - e0)) (dm c * 2 ^ (de c - e0))); try discriminate.
  intros _ _. destruct (Z.compare_spec (dm a * 2 ^ (de a - e0)) (dm c * 2 ^ (de c - e0))); auto; lia.
Qed.

(* integers compare as integers *)
Lemma dy_of_Z_cmp x y : dy_cmp (dy_of_Z x) (dy_of_Z y) = Z.compare x y.
Proof. unfold dy_cmp, dy_of_Z. simpl. rewrite !Z.mul_1_r. reflexivity. Qed.

Section OpsSpec.
Variable re_ok : str -> bool.
Variable re_match : str -> str -> bool.

(* ---- mismatched types never satisfy an operator ---- *)
Lemma string_op_mismatch f cv clv :
  (forall x, cv <> JStr x) \/ (forall x, clv <> JStr x) -> string_op f cv clv = false.
Proof.
  intros [H|H]; unfold string_op; destruct cv; try reflexivity; destruct clv; try reflexivity; exfalso; eapply H; reflexivity.
Qed.
Lemma numeric_op_mismatch f cv clv :
  (forall x, cv <> JNum x) \/ (forall x, clv <> JNum x) -> numeric_op f cv clv = false.
Proof.
  intros [H|H]; unfold numeric_op; destruct cv; try reflexivity; destruct clv; try reflexivity; exfalso; eapply H; reflexivity.
Qed.

(* ---- an unknown operator never matches ---- *)
Definition known_ops : list str :=
  [op_in; op_ends; op_starts; op_matches; op_contains; op_lt; op_le; op_gt; op_ge; op_before; op_after;
   op_sv_eq; op_sv_lt; op_sv_gt].

Lemma unknown_op_false c cv clv i : ~ In (cl_op c) known_ops -> do_op re_ok re_match c cv clv i = false.
Proof.
  intros Hn. unfold do_op.
  repeat match goal with
  | |- context [str_eqb (cl_op c) ?x] =>
      let H := fresh in destruct (str_eqb (cl_op c) x) eqn:H;
      [exfalso; apply Hn; apply str_eqb_eq in H; rewrite H; unfold known_ops; simpl; tauto|]
  end. reflexivity.
Qed.

(* ---- attribute presence, kind selection, negation ---- *)
Lemma missing_kind_is_nonmatch c x :
  ref_defined (cl_attr c) = true -> ref_has_err (cl_attr c) = false ->
  str_eqb (ref_string (cl_attr c)) (s "kind") = false -> ctx_by_kind x (cl_kind c) = None ->
  clause_match_noseg re_ok re_match c x = Ok false.
Proof. intros H1 H2 H3 H4. unfold clause_match_noseg. rewrite H1, H2, H3, H4. reflexivity. Qed.

Lemma missing_attribute_is_nonmatch c x i :
  ref_defined (cl_attr c) = true -> ref_has_err (cl_attr c) = false ->
  str_eqb (ref_string (cl_attr c)) (s "kind") = false -> ctx_by_kind x (cl_kind c) = Some i ->
  get_value_for_ref i (cl_attr c) = JNull ->
  clause_match_noseg re_ok re_match c x = Ok false.
Proof. intros H1 H2 H3 H4 H5. unfold clause_match_noseg. rewrite H1, H2, H3, H4, H5. reflexivity. Qed.

(* attribute present: some (value or array element, clause value) pair satisfies the operator, xor negate *)
Lemma present_attribute c x i v :
  ref_defined (cl_attr c) = true -> ref_has_err (cl_attr c) = false ->
  str_eqb (ref_string (cl_attr c)) (s "kind") = false -> ctx_by_kind x (cl_kind c) = Some i ->
  get_value_for_ref i (cl_attr c) = v -> v <> JNull ->
  clause_match_noseg re_ok re_match c x =
  Ok (xorb (cl_negate c) (match v with JArr l => existsb (match_any re_ok re_match c) l | _ => match_any re_ok re_match c v end)).
Proof.
  intros H1 H2 H3 H4 H5 H6. unfold clause_match_noseg. rewrite H1, H2, H3, H4, H5. unfold maybe_negate.
  destruct v; try congruence; destruct (cl_negate c); simpl; try reflexivity;
    try (destruct (match_any _ _ _ _); reflexivity); destruct (existsb _ _); reflexivity.
Qed.

(* a clause value matches iff SOME clause value satisfies the operator (for `in`: is equal as a primitive) *)
Lemma any_op_exists c cv vals i :
  any_op re_ok re_match c cv vals i = true <->
  exists k v, nth_error vals k = Some v /\ do_op re_ok re_match c cv v (i + k) = true.
Proof.
  revert i. induction vals as [|v r IH]; intros i; simpl.
  - split; [discriminate|]. intros [k [v [H _]]]. destruct k; discriminate.
  - rewrite orb_true_iff, IH. split.
    + intros [H|[k [v' [Hn Hd]]]].
      * exists O, v. rewrite Nat.add_0_r. auto.
      * exists (S k), v'. simpl. replace (i + S k)%nat with (S i + k)%nat by lia. auto.
    + intros [[|k] [v' [Hn Hd]]]; simpl in Hn.
      * inversion Hn; subst. rewrite Nat.add_0_r in Hd. left. exact Hd.
      * right. exists k, v'. replace (S i + k)%nat with (i + S k)%nat by lia. auto.
Qed.

Lemma in_is_primitive_equality c v : cl_pre c = cpre_none ->
  clause_find_value c v = is_prim v && existsb (prim_eqb v) (cl_values c).
Proof. intros H. unfold clause_find_value. rewrite H. simpl. destruct (is_prim v); reflexivity. Qed.

(* the kind attribute tests every kind present in the context and ignores the clause's context kind *)
Lemma kind_attribute_multi c l :
  ref_defined (cl_attr c) = true -> ref_has_err (cl_attr c) = false -> str_eqb (ref_string (cl_attr c)) (s "kind") = true ->
  clause_match_noseg re_ok re_match c (CMulti l) =
  Ok (xorb (cl_negate c) (existsb (fun i => match_any re_ok re_match c (JStr (c_kind i))) l)).
Proof.
  intros H1 H2 H3. unfold clause_match_noseg. rewrite H1, H2, H3. unfold maybe_negate, clause_match_by_kind.
  destruct (cl_negate c); simpl; destruct (existsb _ _); reflexivity.
Qed.

(* an undefined or syntactically invalid attribute reference is an error (MALFORMED_FLAG via err_kind) *)
Lemma undefined_attribute_error c x : ref_defined (cl_attr c) = false -> clause_match_noseg re_ok re_match c x = Err EEmptyAttr.
Proof. intros H. unfold clause_match_noseg. rewrite H. reflexivity. Qed.
Lemma invalid_attribute_error c x :
  ref_defined (cl_attr c) = true -> ref_has_err (cl_attr c) = true ->
  clause_match_noseg re_ok re_match c x = Err (EBadAttr (ref_string (cl_attr c))).
Proof. intros H1 H2. unfold clause_match_noseg. rewrite H1, H2. reflexivity. Qed.

End OpsSpec.

(* literal name without a context kind, slash-delimited path with one (decoder side: setAttrNameOrRef) *)
Lemma attribute_literal_without_kind v : v <> [] -> attr_name_or_ref v [] = new_literal_ref v.
Proof. intros H. unfold attr_name_or_ref. destruct v; [congruence|reflexivity]. Qed.
Lemma attribute_path_with_kind v k : v <> [] -> k <> [] -> attr_name_or_ref v k = new_ref v.
Proof. intros H1 H2. unfold attr_name_or_ref. destruct v; [congruence|]. destruct k; [congruence|reflexivity]. Qed.

(* a literal reference addresses exactly the named top-level attribute, slashes included *)
Lemma literal_ref_is_single_component v : v <> [] ->
  ref_has_err (new_literal_ref v) = false /\ ref_depth (new_literal_ref v) = 1%nat /\ ref_component (new_literal_ref v) 0 = v.
Proof.
  intros H. destruct v as [|c r]; [congruence|]. unfold new_literal_ref. destruct (N.eqb c slash); simpl; auto.
Qed.

(* semantic-version precedence: numeric fields first, a prerelease sorts before the release *)
Lemma semver_major_decides v w : sv_major v < sv_major w -> semver_cmp v w = -1.
Proof. intros H. unfold semver_cmp. apply Z.ltb_lt in H. rewrite H. reflexivity. Qed.
Lemma semver_prerelease_before_release v w :
  sv_major v = sv_major w -> sv_minor v = sv_minor w -> sv_patch v = sv_patch w ->
  sv_pre v <> [] -> sv_pre w = [] -> semver_cmp v w = -1.
Proof.
  intros H1 H2 H3 H4 H5. unfold semver_cmp. rewrite H1, H2, H3, !Z.ltb_irrefl, H5.
  destruct (sv_pre v); [congruence|]. reflexivity.
Qed.
Lemma semver_build_ignored v b : semver_cmp v (mksv (sv_major v) (sv_minor v) (sv_patch v) (sv_pre v) b) = semver_cmp v v.
Proof. reflexivity. Qed.
Example semver_examples :
  (option_map (fun v => (sv_major v, sv_minor v, sv_patch v)) (parse_semver (s "2")) = Some (2, 0, 0)) /\
  (option_map (fun v => (sv_major v, sv_minor v, sv_patch v)) (parse_semver (s "2.1")) = Some (2, 1, 0)) /\
  parse_semver (s "01.0.0") = None /\ parse_semver (s "1.0.0-") = None.
Proof. vm_compute. auto. Qed.

(* unparseable operands never satisfy a semVer operator (grammar: SemverSpec.is_semver) *)
From LD Require Import SemverSpec.
Lemma semver_unparseable_never_matches c x i expected :
  (forall v, ~ is_semver x v) -> semver_op c (JStr x) i expected = false.
Proof.
  intros H. unfold semver_op. destruct (clause_semver c i); [|reflexivity].
  simpl. destruct (parse_semver x) as [v|] eqn:E; [|reflexivity]. exfalso. exact (H v (accepted_is_semver x v E)).
Qed.

(* ldmodel/model_unmarshal.go and model_marshal.go at the level of the JSON document tree.
   Objects are ordered association lists with duplicates: the reader's behaviour on duplicates is modelled. *)
From LD Require Import Base F32 Data Semver Model Ops.
From RecordUpdate Require Import RecordUpdate.
Open Scope Z_scope.

#[export] Instance eta_wvar : Settable _ := settable! mkwvar <wv_var; wv_weight; wv_untracked>.
#[export] Instance eta_rollout : Settable _ := settable! mkrollout <ro_kind; ro_ctxkind; ro_vars; ro_bucket_by; ro_seed>.
#[export] Instance eta_vorr : Settable _ := settable! mkvorr <vr_var; vr_rollout>.
#[export] Instance eta_clause : Settable _ := settable! mkclause <cl_kind; cl_attr; cl_op; cl_values; cl_negate; cl_pre>.
#[export] Instance eta_target : Settable _ := settable! mktarget <t_kind; t_values; t_var; t_pre>.
#[export] Instance eta_prereq : Settable _ := settable! mkprereq <pq_key; pq_var>.
#[export] Instance eta_rule : Settable _ := settable! mkrule <ru_vr; ru_id; ru_clauses; ru_track>.
#[export] Instance eta_fmeta : Settable _ := settable! mkfmeta
  <fm_version; fm_deleted; fm_track_events; fm_debug_until; fm_cs_mobile; fm_cs_env; fm_cs_explicit; fm_sampling; fm_migration>.
#[export] Instance eta_flag : Settable _ := settable! mkflag
  <f_key; f_on; f_prereqs; f_targets; f_ctargets; f_rules; f_fallthrough; f_off; f_vars; f_salt; f_track_ft; f_exclude; f_meta>.
#[export] Instance eta_segtarget : Settable _ := settable! mksegtarget <st_kind; st_values; st_pre>.
#[export] Instance eta_segrule : Settable _ := settable! mksegrule <sr_id; sr_clauses; sr_weight; sr_bucket_by; sr_kind>.
#[export] Instance eta_segment : Settable _ := settable! mksegment
  <sg_key; sg_included; sg_excluded; sg_inc_ctx; sg_exc_ctx; sg_salt; sg_rules; sg_unbounded; sg_unb_kind;
   sg_version; sg_generation; sg_deleted; sg_pre_inc; sg_pre_exc>.

(* ---- primitive readers: None = the reader enters its error state ---- *)
Definition rd_string (v : jv) : option str := match v with JStr x => Some x | _ => None end.
Definition rd_bool (v : jv) : option bool := match v with JBool b => Some b | _ => None end.
Definition rd_int (v : jv) : option Z := match v with JNum d => Some (dy_to_int d) | _ => None end.
Definition rd_string_or_null (v : jv) : option str :=
  match v with JStr x => Some x | JNull => Some [] | _ => None end.
Definition rd_int_or_null (v : jv) : option (option Z) :=
  match v with JNum d => Some (Some (dy_to_int d)) | JNull => Some None | _ => None end.

Definition bindo {A B} (m : option A) (f : A -> option B) : option B :=
  match m with Some a => f a | None => None end.
Notation "x <-? m ;; f" := (bindo m (fun x => f)) (at level 61, m at next level, right associativity).

(* for obj := r.Object(); obj.Next(); { switch name ... } : unknown names are skipped *)
Fixpoint fold_props {A} (step : str -> jv -> A -> option A) (props : list (str * jv)) (a : A) : option A :=
  match props with
  | [] => Some a
  | (k, v) :: r => a' <-? step k v a ;; fold_props step r a'
  end.
Definition rd_object {A} (step : str -> jv -> A -> option A) (v : jv) (a : A) : option A :=
  match v with JObj props => fold_props step props a | _ => None end.

(* for arr := r.ArrayOrNull(); arr.Next(); { ...; out = append(out, x) } *)
Fixpoint rd_items {A} (f : jv -> option A) (l : list jv) (acc : list A) : option (list A) :=
  match l with
  | [] => Some acc
  | v :: r => x <-? f v ;; rd_items f r (acc ++ [x])
  end.
Definition rd_array_or_null {A} (f : jv -> option A) (v : jv) (acc : list A) : option (list A) :=
  match v with JArr l => rd_items f l acc | JNull => Some acc | _ => None end.
Definition rd_array {A} (f : jv -> option A) (v : jv) (acc : list A) : option (list A) :=
  match v with JArr l => rd_items f l acc | _ => None end.

Definition is s0 (k : str) : bool := str_eqb k (s s0).
Arguments is _%string_scope _.

(* setAttrNameOrRef *)
Definition attr_name_or_ref (value kind : str) : ref :=
  match value with
  | [] => ref_undef
  | _ => match kind with [] => new_literal_ref value | _ => new_ref value end
  end.

Definition prereq0 := mkprereq [] 0.
Definition rd_prereq (v : jv) : option prereq :=
  rd_object (fun k v p =>
    if is "key" k then x <-? rd_string v ;; Some (p <| pq_key := x |>)
    else if is "variation" k then x <-? rd_int v ;; Some (p <| pq_var := x |>)
    else Some p) v prereq0.

Definition target0 := mktarget [] [] 0 None.
Definition rd_target (v : jv) : option target :=
  rd_object (fun k v t =>
    if is "contextKind" k then x <-? rd_string v ;; Some (t <| t_kind := x |>)
    else if is "values" k then x <-? rd_array_or_null rd_string v (t_values t) ;; Some (t <| t_values := x |>)
    else if is "variation" k then x <-? rd_int v ;; Some (t <| t_var := x |>)
    else Some t) v target0.

Definition clause0 := mkclause [] ref_undef [] [] false cpre_none.
(* the attribute string is kept aside until the whole object has been read *)
Definition rd_clause (v : jv) : option clause :=
  r <-? rd_object (fun k v (ca : clause * str) =>
    let '(c, a) := ca in
    if is "contextKind" k then x <-? rd_string v ;; Some (c <| cl_kind := x |>, a)
    else if is "attribute" k then x <-? rd_string_or_null v ;; Some (c, x)
    else if is "op" k then x <-? rd_string v ;; Some (c <| cl_op := x |>, a)
    else if is "values" k then x <-? rd_array_or_null Some v (cl_values c) ;; Some (c <| cl_values := x |>, a)
    else if is "negate" k then x <-? rd_bool v ;; Some (c <| cl_negate := x |>, a)
    else Some (c, a)) v (clause0, []) ;;
  let '(c, a) := r in Some (c <| cl_attr := attr_name_or_ref a (cl_kind c) |>).

Definition wvar0 := mkwvar 0 0 false.
Definition rd_wvar (v : jv) : option wvar :=
  rd_object (fun k v w =>
    if is "variation" k then x <-? rd_int v ;; Some (w <| wv_var := x |>)
    else if is "weight" k then x <-? rd_int v ;; Some (w <| wv_weight := x |>)
    else if is "untracked" k then x <-? rd_bool v ;; Some (w <| wv_untracked := x |>)
    else Some w) v wvar0.

Definition rollout0 := mkrollout [] [] [] ref_undef None.
(* readRollout: null resets the rollout; an object is read onto the existing value *)
Definition rd_rollout (v : jv) (out : rollout) : option rollout :=
  match v with
  | JNull => Some rollout0
  | JObj props =>
    r <-? fold_props (fun k v (rb : rollout * str) =>
      let '(ro, b) := rb in
      if is "kind" k then x <-? rd_string v ;; Some (ro <| ro_kind := x |>, b)
      else if is "contextKind" k then x <-? rd_string v ;; Some (ro <| ro_ctxkind := x |>, b)
      else if is "variations" k then x <-? rd_array rd_wvar v (ro_vars ro) ;; Some (ro <| ro_vars := x |>, b)
      else if is "bucketBy" k then x <-? rd_string_or_null v ;; Some (ro, x)
      else if is "seed" k then x <-? rd_int_or_null v ;;
           Some (match x with Some n => ro <| ro_seed := Some n |> | None => ro end, b)
      else Some (ro, b)) props (out, []) ;;
    let '(ro, b) := r in Some (ro <| ro_bucket_by := attr_name_or_ref b (ro_ctxkind ro) |>)
  | _ => None
  end.

Definition vorr0 := mkvorr None rollout0.
Definition vorr_step (k : str) (v : jv) (x : vorr) : option (option vorr) :=
  if is "variation" k then n <-? rd_int_or_null v ;; Some (Some (x <| vr_var := n |>))
  else if is "rollout" k then ro <-? rd_rollout v (vr_rollout x) ;; Some (Some (x <| vr_rollout := ro |>))
  else Some None.
Definition rd_vorr (v : jv) (out : vorr) : option vorr :=
  rd_object (fun k v x => r <-? vorr_step k v x ;; Some (match r with Some x' => x' | None => x end)) v out.

Definition rule0 := mkrule vorr0 [] [] false.
Definition rd_rule (v : jv) : option rule :=
  rd_object (fun k v ru =>
    if is "id" k then x <-? rd_string v ;; Some (ru <| ru_id := x |>)
    else if is "clauses" k then x <-? rd_array_or_null rd_clause v (ru_clauses ru) ;; Some (ru <| ru_clauses := x |>)
    else if is "trackEvents" k then x <-? rd_bool v ;; Some (ru <| ru_track := x |>)
    else r <-? vorr_step k v (ru_vr ru) ;;
         Some (match r with Some x' => ru <| ru_vr := x' |> | None => ru end)) v rule0.

Definition fmeta0 := mkfmeta 0 false false 0 false false false None None.
Definition flag0 := mkflag [] false [] [] [] [] vorr0 None [] [] false false fmeta0.

(* float64 -> uint64 conversion of debugEventsUntilDate: negatives are read as 0 (repaired), values
   beyond the unsigned range give 2^63 on amd64 *)
Definition debug_date_of (d : dy) : Z :=
  let t := dy_trunc d in
  if t <? 0 then 0 else if t <? two64 then t else two63.

Definition rd_csa (v : jv) (m : fmeta) : option fmeta :=
  match v with
  | JNull => Some (m <| fm_cs_explicit := false |>)
  | JObj props =>
    fold_props (fun k v m =>
      if is "usingEnvironmentId" k then x <-? rd_bool v ;; Some (m <| fm_cs_env := x |>)
      else if is "usingMobileKey" k then x <-? rd_bool v ;; Some (m <| fm_cs_mobile := x |>)
      else Some m) props (m <| fm_cs_explicit := true |>)
  | _ => None
  end.

Definition rd_migration (v : jv) : option (option Z) :=
  match v with
  | JNull => Some None
  | JObj props => fold_props (fun k v (cr : option Z) =>
      if is "checkRatio" k then x <-? rd_int v ;; Some (Some x) else Some cr) props None
  | _ => None
  end.

Definition onmeta (f : flag) (g : fmeta -> fmeta) : flag := f <| f_meta ::= g |>.

(* readFeatureFlag; the deprecated clientSide property is carried beside the flag *)
Definition flag_step (k : str) (v : jv) (fc : flag * bool) : option (flag * bool) :=
  let '(f, dcs) := fc in
  if is "key" k then x <-? rd_string v ;; Some (f <| f_key := x |>, dcs)
  else if is "on" k then x <-? rd_bool v ;; Some (f <| f_on := x |>, dcs)
  else if is "prerequisites" k then x <-? rd_array_or_null rd_prereq v (f_prereqs f) ;; Some (f <| f_prereqs := x |>, dcs)
  else if is "targets" k then x <-? rd_array_or_null rd_target v (f_targets f) ;; Some (f <| f_targets := x |>, dcs)
  else if is "contextTargets" k then x <-? rd_array_or_null rd_target v (f_ctargets f) ;; Some (f <| f_ctargets := x |>, dcs)
  else if is "rules" k then x <-? rd_array_or_null rd_rule v (f_rules f) ;; Some (f <| f_rules := x |>, dcs)
  else if is "fallthrough" k then x <-? rd_vorr v (f_fallthrough f) ;; Some (f <| f_fallthrough := x |>, dcs)
  else if is "offVariation" k then x <-? rd_int_or_null v ;; Some (f <| f_off := x |>, dcs)
  else if is "variations" k then x <-? rd_array_or_null Some v (f_vars f) ;; Some (f <| f_vars := x |>, dcs)
  else if is "clientSideAvailability" k then m <-? rd_csa v (f_meta f) ;; Some (f <| f_meta := m |>, dcs)
  else if is "clientSide" k then x <-? rd_bool v ;; Some (f, x)
  else if is "salt" k then x <-? rd_string v ;; Some (f <| f_salt := x |>, dcs)
  else if is "trackEvents" k then x <-? rd_bool v ;; Some (onmeta f (fun m => m <| fm_track_events := x |>), dcs)
  else if is "trackEventsFallthrough" k then x <-? rd_bool v ;; Some (f <| f_track_ft := x |>, dcs)
  else if is "debugEventsUntilDate" k then
    match v with
    | JNum d => Some (onmeta f (fun m => m <| fm_debug_until := debug_date_of d |>), dcs)
    | JNull => Some (onmeta f (fun m => m <| fm_debug_until := 0 |>), dcs)
    | _ => None
    end
  else if is "version" k then x <-? rd_int v ;; Some (onmeta f (fun m => m <| fm_version := x |>), dcs)
  else if is "deleted" k then x <-? rd_bool v ;; Some (onmeta f (fun m => m <| fm_deleted := x |>), dcs)
  else if is "excludeFromSummaries" k then x <-? rd_bool v ;; Some (f <| f_exclude := x |>, dcs)
  else if is "samplingRatio" k then x <-? rd_int v ;; Some (onmeta f (fun m => m <| fm_sampling := Some x |>), dcs)
  else if is "migration" k then x <-? rd_migration v ;; Some (onmeta f (fun m => m <| fm_migration := Some x |>), dcs)
  else Some (f, dcs).

Definition decode_flag (v : jv) : option flag :=
  r <-? rd_object flag_step v (flag0, false) ;;
  let '(f, dcs) := r in
  Some (if fm_cs_explicit (f_meta f) then f
        else onmeta f (fun m => m <| fm_cs_mobile := true |> <| fm_cs_env := dcs |> <| fm_cs_explicit := false |>)).

Definition segtarget0 := mksegtarget [] [] None.
Definition rd_segtarget (v : jv) : option segtarget :=
  rd_object (fun k v t =>
    if is "contextKind" k then x <-? rd_string v ;; Some (t <| st_kind := x |>)
    else if is "values" k then x <-? rd_array_or_null rd_string v (st_values t) ;; Some (t <| st_values := x |>)
    else Some t) v segtarget0.

Definition segrule0 := mksegrule [] [] None ref_undef [].
Definition rd_segrule (v : jv) : option segrule :=
  r <-? rd_object (fun k v (rb : segrule * str) =>
    let '(ru, b) := rb in
    if is "id" k then x <-? rd_string v ;; Some (ru <| sr_id := x |>, b)
    else if is "clauses" k then x <-? rd_array_or_null rd_clause v (sr_clauses ru) ;; Some (ru <| sr_clauses := x |>, b)
    else if is "weight" k then x <-? rd_int_or_null v ;;
         Some (match x with Some n => ru <| sr_weight := Some n |> | None => ru end, b)
    else if is "bucketBy" k then x <-? rd_string_or_null v ;; Some (ru, x)
    else if is "rolloutContextKind" k then x <-? rd_string v ;; Some (ru <| sr_kind := x |>, b)
    else Some (ru, b)) v (segrule0, []) ;;
  let '(ru, b) := r in Some (ru <| sr_bucket_by := attr_name_or_ref b (sr_kind ru) |>).

Definition segment0 := mksegment [] [] [] [] [] [] [] false [] 0 None false None None.
Definition segment_step (k : str) (v : jv) (sg : segment) : option segment :=
  if is "key" k then x <-? rd_string v ;; Some (sg <| sg_key := x |>)
  else if is "version" k then x <-? rd_int v ;; Some (sg <| sg_version := x |>)
  else if is "generation" k then x <-? rd_int_or_null v ;; Some (sg <| sg_generation := x |>)
  else if is "deleted" k then x <-? rd_bool v ;; Some (sg <| sg_deleted := x |>)
  else if is "included" k then x <-? rd_array_or_null rd_string v (sg_included sg) ;; Some (sg <| sg_included := x |>)
  else if is "excluded" k then x <-? rd_array_or_null rd_string v (sg_excluded sg) ;; Some (sg <| sg_excluded := x |>)
  else if is "includedContexts" k then x <-? rd_array_or_null rd_segtarget v (sg_inc_ctx sg) ;; Some (sg <| sg_inc_ctx := x |>)
  else if is "excludedContexts" k then x <-? rd_array_or_null rd_segtarget v (sg_exc_ctx sg) ;; Some (sg <| sg_exc_ctx := x |>)
  else if is "rules" k then x <-? rd_array_or_null rd_segrule v (sg_rules sg) ;; Some (sg <| sg_rules := x |>)
  else if is "salt" k then x <-? rd_string v ;; Some (sg <| sg_salt := x |>)
  else if is "unbounded" k then x <-? rd_bool v ;; Some (sg <| sg_unbounded := x |>)
  else if is "unboundedContextKind" k then x <-? rd_string v ;; Some (sg <| sg_unb_kind := x |>)
  else Some sg.
Definition decode_segment (v : jv) : option segment := rd_object segment_step v segment0.

(* ---------------- preprocessing (preprocess.go) ---------------- *)
Section Pre.
Variable re_ok : str -> bool.
Definition string_set (l : list str) : option (list str) := match l with [] => None | _ => Some l end.
Definition pp_target (t : target) : target := t <| t_pre := string_set (t_values t) |>.
Definition pp_rule (r : rule) : rule := r <| ru_clauses ::= map (preprocess_clause re_ok) |>.
(* PreprocessFlag: user Targets only; ContextTargets are left alone *)
Definition preprocess_flag (f : flag) : flag :=
  f <| f_targets ::= map pp_target |> <| f_rules ::= map pp_rule |>.
Definition pp_segtarget (t : segtarget) : segtarget := t <| st_pre := string_set (st_values t) |>.
Definition pp_segrule (r : segrule) : segrule := r <| sr_clauses ::= map (preprocess_clause re_ok) |>.
Definition preprocess_segment (sg : segment) : segment :=
  sg <| sg_pre_inc := string_set (sg_included sg) |> <| sg_pre_exc := string_set (sg_excluded sg) |>
     <| sg_inc_ctx ::= map pp_segtarget |> <| sg_exc_ctx ::= map pp_segtarget |>
     <| sg_rules ::= map pp_segrule |>.
End Pre.

(* ---------------- encoder (model_marshal.go) ---------------- *)
Definition jint (z : Z) : jv := JNum (dy_of_Z z).
Definition jstr_list (l : list str) : jv := JArr (map JStr l).
Definition maybe (b : bool) (k : String.string) (v : jv) : list (str * jv) := if b then [(s k, v)] else [].
Arguments maybe _ _%string_scope _.
Definition nonempty (x : str) : bool := match x with [] => false | _ => true end.
Definition is_some {A} (x : option A) : bool := match x with Some _ => true | None => false end.
Definition oz (x : option Z) : Z := match x with Some z => z | None => 0 end.

(* writeAttrRef *)
Definition enc_attr_ref (r : ref) (kind : str) : jv :=
  match kind with [] => JStr (ref_component r 0) | _ => JStr (ref_string r) end.

Definition enc_target (t : target) : jv :=
  JObj (maybe (nonempty (t_kind t)) "contextKind" (JStr (t_kind t))
        ++ [(s "variation", jint (t_var t)); (s "values", jstr_list (t_values t))]).
Definition enc_targets (ts : list target) : jv := JArr (map enc_target ts).
Definition enc_wvar (w : wvar) : jv :=
  JObj ([(s "variation", jint (wv_var w)); (s "weight", jint (wv_weight w))] ++
        maybe (wv_untracked w) "untracked" (JBool true)).
Definition enc_prereq (p : prereq) : jv := JObj [(s "key", JStr (pq_key p)); (s "variation", jint (pq_var p))].

Definition enc_vorr_props (x : vorr) : list (str * jv) :=
  maybe (is_some (vr_var x)) "variation" (jint (oz (vr_var x))) ++
  match ro_vars (vr_rollout x) with
  | [] => []
  | wvs =>
    let ro := vr_rollout x in
    [(s "rollout", JObj (
       maybe (nonempty (ro_kind ro)) "kind" (JStr (ro_kind ro)) ++
       maybe (nonempty (ro_ctxkind ro)) "contextKind" (JStr (ro_ctxkind ro)) ++
       [(s "variations", JArr (map enc_wvar wvs))] ++
       maybe (is_some (ro_seed ro)) "seed" (jint (oz (ro_seed ro))) ++
       maybe (ref_defined (ro_bucket_by ro)) "bucketBy" (enc_attr_ref (ro_bucket_by ro) (ro_ctxkind ro))))]
  end.

Definition enc_clause (c : clause) : jv :=
  JObj (
    maybe (nonempty (cl_kind c)) "contextKind" (JStr (cl_kind c)) ++
    [(s "attribute", if ref_defined (cl_attr c) then enc_attr_ref (cl_attr c) (cl_kind c) else JStr []);
     (s "op", JStr (cl_op c)); (s "values", JArr (cl_values c)); (s "negate", JBool (cl_negate c))]).
Definition enc_clauses (cs : list clause) : jv := JArr (map enc_clause cs).

Definition enc_rule (r : rule) : jv :=
  JObj (enc_vorr_props (ru_vr r) ++ maybe (nonempty (ru_id r)) "id" (JStr (ru_id r)) ++
        [(s "clauses", enc_clauses (ru_clauses r)); (s "trackEvents", JBool (ru_track r))]).

Definition enc_opt_int (x : option Z) : jv := match x with Some z => jint z | None => JNull end.

Definition encode_flag (f : flag) : jv :=
  let m := f_meta f in
  JObj (
    [(s "key", JStr (f_key f)); (s "on", JBool (f_on f));
     (s "prerequisites", JArr (map enc_prereq (f_prereqs f)));
     (s "targets", enc_targets (f_targets f)); (s "contextTargets", enc_targets (f_ctargets f));
     (s "rules", JArr (map enc_rule (f_rules f)));
     (s "fallthrough", JObj (enc_vorr_props (f_fallthrough f)));
     (s "offVariation", enc_opt_int (f_off f));
     (s "variations", JArr (f_vars f))] ++
    maybe (fm_cs_explicit m) "clientSideAvailability"
          (JObj [(s "usingMobileKey", JBool (fm_cs_mobile m)); (s "usingEnvironmentId", JBool (fm_cs_env m))]) ++
    [(s "clientSide", JBool (fm_cs_env m)); (s "salt", JStr (f_salt f));
     (s "trackEvents", JBool (fm_track_events m)); (s "trackEventsFallthrough", JBool (f_track_ft f));
     (s "debugEventsUntilDate", if fm_debug_until m =? 0 then JNull else jint (fm_debug_until m));
     (s "version", jint (fm_version m)); (s "deleted", JBool (fm_deleted m))] ++
    match fm_migration m with
    | Some cr => [(s "migration", JObj (maybe (is_some cr) "checkRatio" (jint (oz cr))))]
    | None => []
    end ++
    maybe (is_some (fm_sampling m)) "samplingRatio" (jint (oz (fm_sampling m))) ++
    maybe (f_exclude f) "excludeFromSummaries" (JBool true)).

Definition enc_segtarget (t : segtarget) : jv :=
  JObj (maybe (nonempty (st_kind t)) "contextKind" (JStr (st_kind t)) ++ [(s "values", jstr_list (st_values t))]).
Definition enc_segtargets (ts : list segtarget) : jv := JArr (map enc_segtarget ts).
Definition enc_segrule (r : segrule) : jv :=
  JObj ([(s "id", JStr (sr_id r)); (s "clauses", enc_clauses (sr_clauses r))] ++
        maybe (is_some (sr_weight r)) "weight" (jint (oz (sr_weight r))) ++
        maybe (ref_defined (sr_bucket_by r)) "bucketBy" (enc_attr_ref (sr_bucket_by r) (sr_kind r)) ++
        maybe (nonempty (sr_kind r)) "rolloutContextKind" (JStr (sr_kind r))).

Definition encode_segment (sg : segment) : jv :=
  JObj (
    [(s "key", JStr (sg_key sg)); (s "included", jstr_list (sg_included sg)); (s "excluded", jstr_list (sg_excluded sg));
     (s "includedContexts", enc_segtargets (sg_inc_ctx sg)); (s "excludedContexts", enc_segtargets (sg_exc_ctx sg));
     (s "salt", JStr (sg_salt sg));
     (s "rules", JArr (map enc_segrule (sg_rules sg)))] ++
    maybe (sg_unbounded sg) "unbounded" (JBool true) ++
    maybe (nonempty (sg_unb_kind sg)) "unboundedContextKind" (JStr (sg_unb_kind sg)) ++
    [(s "version", jint (sg_version sg)); (s "generation", enc_opt_int (sg_generation sg));
     (s "deleted", JBool (sg_deleted sg))]).

(* The constant tables lifted from the repository source (gen/Tables.v, regenerated on every run) are the ones the
   model uses.  If the source changes one of them, this proof stops checking.  One file per property, so that a changed
   table breaks the proofs of the property it belongs to and no other. *)
From LD Require Import Base F32 Data Model Ops Bucket Eval Codec CodecFacts.
From LDGen Require Import Tables.
From Coq Require Import String List ZArith Bool.
Import ListNotations.


Definition str_of (x : string) : str := s x.

(* operator names *)
Definition model_ops : list (string * str) :=
  [("OperatorIn", op_in); ("OperatorEndsWith", op_ends); ("OperatorStartsWith", op_starts); ("OperatorMatches", op_matches);
   ("OperatorContains", op_contains); ("OperatorLessThan", op_lt); ("OperatorLessThanOrEqual", op_le);
   ("OperatorGreaterThan", op_gt); ("OperatorGreaterThanOrEqual", op_ge); ("OperatorBefore", op_before);
   ("OperatorAfter", op_after); ("OperatorSegmentMatch", op_segment); ("OperatorSemVerEqual", op_sv_eq);
   ("OperatorSemVerLessThan", op_sv_lt); ("OperatorSemVerGreaterThan", op_sv_gt)]%string.

Theorem operator_names_match_source :
  map (fun p => (fst p, str_of (snd p))) operator_names = model_ops.
Proof. vm_compute. reflexivity. Qed.

(* The byte entry point as a whole: the nesting scan in front of the document-tree decoder.  The text of a JSON value is
   its compact rendering with any printer of numbers that uses no brackets and no quotes. *)
From LD Require Import Base F32 Data Model Codec Nesting NestingSpec.
Open Scope Z_scope.

Section JvInd.
  Variable P : jv -> Prop.
  Hypothesis Hnull : P JNull.
  Hypothesis Hbool : forall b, P (JBool b).
  Hypothesis Hnum : forall d, P (JNum d).
  Hypothesis Hstr : forall x, P (JStr x).
  Hypothesis Harr : forall l, Forall P l -> P (JArr l).
  Hypothesis Hobj : forall l, Forall (fun kv => P (snd kv)) l -> P (JObj l).
  Fixpoint jv_ind' (v : jv) : P v :=
    match v with
    | JNull => Hnull | JBool b => Hbool b | JNum d => Hnum d | JStr x => Hstr x
    | JArr l => Harr l ((fix go (l : list jv) : Forall P l :=
                           match l with [] => Forall_nil _ | t :: r => Forall_cons _ (jv_ind' t) (go r) end) l)
    | JObj l => Hobj l ((fix go (l : list (str * jv)) : Forall (fun kv => P (snd kv)) l :=
                           match l with
                           | [] => Forall_nil _
                           | kv :: r => Forall_cons kv (match kv as kv0 return P (snd kv0) with (k, t') => jv_ind' t' end) (go r)
                           end) l)
    end.
End JvInd.

Fixpoint jv_depth (v : jv) : Z :=
  match v with
  | JArr l => 1 + fold_right (fun t acc => Z.max (jv_depth t) acc) 0 l
  | JObj l => 1 + fold_right (fun kt acc => Z.max (jv_depth (snd kt)) acc) 0 l
  | _ => 0
  end.

Section Text.
Variable num : dy -> str.                             (* how numbers are written *)
Hypothesis num_plain : forall d, forallb plain_byte (num d) = true.

Fixpoint doc_of_jv (v : jv) : doc :=
  match v with
  | JNull => DTok (s "null")
  | JBool b => DTok (if b then s "true" else s "false")
  | JNum d => DTok (num d)
  | JStr x => DStr x
  | JArr l => DArr (map doc_of_jv l)
  | JObj l => DObj (map (fun kt => match kt with (k, t) => (k, doc_of_jv t) end) l)
  end.

Definition text_of (v : jv) : str := render (doc_of_jv v).

Lemma doc_of_jv_plain v : doc_plain (doc_of_jv v) = true.
Proof.
  induction v as [|b|d|x|l IH|l IH] using jv_ind'; cbn [doc_of_jv doc_plain]; try reflexivity.
  - destruct b; reflexivity.
  - apply num_plain.
  - rewrite forallb_forall. intros t Ht. apply in_map_iff in Ht as (v & <- & Hv).
    rewrite Forall_forall in IH. apply IH. exact Hv.
  - rewrite forallb_forall. intros [k t] Ht. apply in_map_iff in Ht as ([k' v] & E & Hv). injection E as <- <-.
    rewrite Forall_forall in IH. apply (IH (k', v)). exact Hv.
Qed.

Lemma doc_of_jv_depth v : doc_depth (doc_of_jv v) = jv_depth v.
Proof.
  induction v as [|b|d|x|l IH|l IH] using jv_ind'; cbn [doc_of_jv doc_depth jv_depth]; try reflexivity.
  - f_equal. induction l as [|t l IHl]; [reflexivity|]. inversion IH; subst. cbn [map fold_right]. rewrite IHl by assumption. congruence.
  - f_equal. induction l as [|[k t] l IHl]; [reflexivity|]. inversion IH; subst. cbn [map fold_right snd] in *.
    rewrite IHl by assumption. congruence.
Qed.

(* the scan lets the text of a value through iff the value nests at most 10000 deep *)
Theorem nesting_ok_text v : nesting_ok (text_of v) = (jv_depth v <=? nesting_limit).
Proof. unfold text_of. rewrite nesting_ok_exact by apply doc_of_jv_plain. rewrite doc_of_jv_depth. reflexivity. Qed.

(* unmarshalFeatureFlagFromBytes / unmarshalSegmentFromBytes on the text of a document *)
Definition unmarshal_flag_text (v : jv) : option flag := if nesting_ok (text_of v) then decode_flag v else None.
Definition unmarshal_segment_text (v : jv) : option segment := if nesting_ok (text_of v) then decode_segment v else None.

Theorem unmarshal_flag_text_spec v :
  unmarshal_flag_text v = if jv_depth v <=? nesting_limit then decode_flag v else None.
Proof. unfold unmarshal_flag_text. rewrite nesting_ok_text. reflexivity. Qed.
Theorem unmarshal_segment_text_spec v :
  unmarshal_segment_text v = if jv_depth v <=? nesting_limit then decode_segment v else None.
Proof. unfold unmarshal_segment_text. rewrite nesting_ok_text. reflexivity. Qed.

End Text.

(* IEEE-754 binary32 arithmetic via Flocq; binary64 values as exact dyadic rationals. *)
From LD Require Import Base.
From Flocq Require Import Core BinarySingleNaN.
Open Scope Z_scope.

Definition prec := 24%Z.
Definition emax := 128%Z.
#[export] Instance Hprec : FLX.Prec_gt_0 prec. Proof. unfold FLX.Prec_gt_0, prec. lia. Qed.
#[export] Instance Hmax : Prec_lt_emax prec emax. Proof. unfold Prec_lt_emax, prec, emax. lia. Qed.

Definition f32 := binary_float prec emax.

Definition f32_of_Z (z : Z) : f32 := binary_normalize prec emax Hprec Hmax mode_NE z 0 false.
Definition f32_zero : f32 := B754_zero false.
Definition f32_div (a b : f32) : f32 := Bdiv mode_NE a b.
Definition f32_add (a b : f32) : f32 := Bplus mode_NE a b.
Definition f32_ltb (a b : f32) : bool := Bltb a b.

(* observable form of a float32: sign, mantissa, exponent (value = ±m·2^e); 0 for zero; specials tagged *)
Inductive f32view := FZero (sgn : bool) | FFin (sgn : bool) (m : positive) (e : Z) | FInf (sgn : bool) | FNan.
Definition f32_view (x : f32) : f32view :=
  match x with
  | B754_zero sg => FZero sg
  | B754_infinity sg => FInf sg
  | B754_nan => FNan
  | B754_finite sg m e _ => FFin sg m e
  end.

(* ---- binary64 values that come out of JSON: finite, so an exact dyadic m·2^e ---- *)
Record dy := mkdy { dm : Z; de : Z }.

Definition dy_cmp (a b : dy) : comparison :=
  let e := Z.min (de a) (de b) in
  Z.compare (dm a * 2 ^ (de a - e)) (dm b * 2 ^ (de b - e)).
Definition dy_eqb a b := match dy_cmp a b with Eq => true | _ => false end.
Definition dy_ltb a b := match dy_cmp a b with Lt => true | _ => false end.
Definition dy_leb a b := match dy_cmp a b with Gt => false | _ => true end.

Definition dy_of_Z (z : Z) : dy := mkdy z 0.

(* truncation toward zero *)
Definition dy_trunc (a : dy) : Z :=
  if 0 <=? de a then dm a * 2 ^ de a else Z.quot (dm a) (2 ^ (- de a)).
Definition dy_integral (a : dy) : bool :=
  if 0 <=? de a then true else (Z.rem (dm a) (2 ^ (- de a)) =? 0).

(* Go on amd64: int(f) for f outside int64 is -2^63 *)
Definition dy_to_int (a : dy) : Z :=
  let t := dy_trunc a in if (- two63 <=? t) && (t <? two63) then t else - two63.
(* ldvalue.Value.IsInt: f == float64(int(f)) *)
Definition dy_is_int (a : dy) : bool :=
  dy_integral a && (- two63 <=? dy_trunc a) && (dy_trunc a <? two63).

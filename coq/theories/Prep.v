(* C14: preprocessing is a transparent optimisation -- accessor level and clause level *)
From LD Require Import Base F32 Data Semver Model Ops Bucket Eval EvalFacts Safety Codec Targets.
Open Scope Z_scope.

Lemma nth_opt_map {A B} (f : A -> B) l i : nth_opt (map f l) i = option_map f (nth_opt l i).
Proof. revert i. induction l as [|x l IH]; intros [|i]; simpl; auto. Qed.

Section Prep.
Variable re_ok : str -> bool.
Variable re_match : str -> str -> bool.

Definition plain_clause (cl : clause) : Prop := cl_pre cl = cpre_none.

Ltac op_case H := apply str_eqb_eq in H; rewrite H.

Lemma pre_op cl : cl_op (preprocess_clause re_ok cl) = cl_op cl.
Proof. reflexivity. Qed.
Lemma pre_values cl : cl_values (preprocess_clause re_ok cl) = cl_values cl.
Proof. reflexivity. Qed.

(* equality test: the precomputed set (only built for >= 2 primitive values) answers as the linear search does *)
Lemma find_value_pre cl v : plain_clause cl ->
  clause_find_value (preprocess_clause re_ok cl) v = clause_find_value cl v.
Proof.
  intros Hp. unfold clause_find_value. rewrite Hp. simpl.
  destruct (str_eqb (cl_op cl) op_in).
  - destruct (cl_values cl) as [|a [|b r]]; simpl; try reflexivity.
    destruct (is_prim a && (is_prim b && forallb is_prim r)); reflexivity.
  - destruct (str_eqb (cl_op cl) op_matches); [reflexivity|].
    destruct (str_eqb (cl_op cl) op_before || str_eqb (cl_op cl) op_after); [reflexivity|].
    destruct (str_eqb (cl_op cl) op_sv_eq || str_eqb (cl_op cl) op_sv_gt || str_eqb (cl_op cl) op_sv_lt); reflexivity.
Qed.

Lemma regex_pre cl i : plain_clause cl -> cl_op cl = op_matches ->
  clause_regex re_ok (preprocess_clause re_ok cl) i = clause_regex re_ok cl i.
Proof.
  intros Hp Ho. unfold clause_regex. rewrite Hp. simpl. rewrite Ho. simpl.
  rewrite nth_opt_map. destruct (nth_opt (cl_values cl) i); reflexivity.
Qed.

Lemma time_pre cl i : plain_clause cl -> (cl_op cl = op_before \/ cl_op cl = op_after) ->
  clause_time (preprocess_clause re_ok cl) i = clause_time cl i.
Proof.
  intros Hp Ho. unfold clause_time. rewrite Hp. simpl.
  destruct Ho as [Ho|Ho]; rewrite Ho; simpl; rewrite nth_opt_map; destruct (nth_opt (cl_values cl) i); reflexivity.
Qed.

Lemma semver_pre cl i : plain_clause cl -> (cl_op cl = op_sv_eq \/ cl_op cl = op_sv_lt \/ cl_op cl = op_sv_gt) ->
  clause_semver (preprocess_clause re_ok cl) i = clause_semver cl i.
Proof.
  intros Hp Ho. unfold clause_semver. rewrite Hp. simpl.
  destruct Ho as [Ho|[Ho|Ho]]; rewrite Ho; simpl; rewrite nth_opt_map; destruct (nth_opt (cl_values cl) i); reflexivity.
Qed.

Lemma do_op_pre cl cv clv i : plain_clause cl ->
  do_op re_ok re_match (preprocess_clause re_ok cl) cv clv i = do_op re_ok re_match cl cv clv i.
Proof.
  intros Hp. unfold do_op. rewrite pre_op.
  destruct (str_eqb (cl_op cl) op_ends); [reflexivity|].
  destruct (str_eqb (cl_op cl) op_starts); [reflexivity|].
  destruct (str_eqb (cl_op cl) op_matches) eqn:H1.
  { apply str_eqb_eq in H1. rewrite regex_pre by assumption. reflexivity. }
  destruct (str_eqb (cl_op cl) op_contains); [reflexivity|].
  destruct (str_eqb (cl_op cl) op_lt); [reflexivity|].
  destruct (str_eqb (cl_op cl) op_le); [reflexivity|].
  destruct (str_eqb (cl_op cl) op_gt); [reflexivity|].
  destruct (str_eqb (cl_op cl) op_ge); [reflexivity|].
  destruct (str_eqb (cl_op cl) op_before) eqn:H2.
  { apply str_eqb_eq in H2. unfold date_op. rewrite time_pre by auto. reflexivity. }
  destruct (str_eqb (cl_op cl) op_after) eqn:H3.
  { apply str_eqb_eq in H3. unfold date_op. rewrite time_pre by auto. reflexivity. }
  destruct (str_eqb (cl_op cl) op_sv_eq) eqn:H4.
  { apply str_eqb_eq in H4. unfold semver_op. rewrite semver_pre by auto. reflexivity. }
  destruct (str_eqb (cl_op cl) op_sv_lt) eqn:H5.
  { apply str_eqb_eq in H5. unfold semver_op. rewrite semver_pre by auto. reflexivity. }
  destruct (str_eqb (cl_op cl) op_sv_gt) eqn:H6.
  { apply str_eqb_eq in H6. unfold semver_op. rewrite semver_pre by auto. reflexivity. }
  reflexivity.
Qed.

Lemma any_op_pre cl cv vals i : plain_clause cl ->
  any_op re_ok re_match (preprocess_clause re_ok cl) cv vals i = any_op re_ok re_match cl cv vals i.
Proof.
  intros Hp. revert i. induction vals as [|v r IH]; intros i; simpl; [reflexivity|].
  rewrite do_op_pre by assumption. rewrite IH. reflexivity.
Qed.

Lemma match_any_pre cl cv : plain_clause cl ->
  match_any re_ok re_match (preprocess_clause re_ok cl) cv = match_any re_ok re_match cl cv.
Proof.
  intros Hp. unfold match_any. rewrite pre_op, pre_values.
  destruct (str_eqb (cl_op cl) op_in); [apply find_value_pre; assumption|apply any_op_pre; assumption].
Qed.

(* a whole non-segment clause matches identically in its precomputed and plain forms *)
Theorem clause_match_pre cl x : plain_clause cl ->
  clause_match_noseg re_ok re_match (preprocess_clause re_ok cl) x = clause_match_noseg re_ok re_match cl x.
Proof.
  intros Hp. unfold clause_match_noseg. simpl.
  destruct (negb (ref_defined (cl_attr cl))); [reflexivity|].
  destruct (ref_has_err (cl_attr cl)); [reflexivity|].
  destruct (str_eqb (ref_string (cl_attr cl)) (s "kind")).
  - f_equal. f_equal. unfold clause_match_by_kind. destruct x; try reflexivity.
    + apply match_any_pre; assumption.
    + induction l as [|i l IH]; simpl; [reflexivity|]. rewrite match_any_pre by assumption. rewrite IH. reflexivity.
  - destruct (ctx_by_kind x (cl_kind cl)) as [ic|]; [|reflexivity].
    destruct (get_value_for_ref ic (cl_attr cl)); try reflexivity; try (rewrite match_any_pre by assumption; reflexivity).
    f_equal. f_equal. induction l as [|v l IH]; simpl; [reflexivity|]. rewrite match_any_pre by assumption. rewrite IH. reflexivity.
Qed.

End Prep.

(* key lists: user target lists, segment include/exclude lists and per-kind lists *)
Theorem key_sets_transparent k vs : find_key k vs (string_set vs) = find_key k vs None.
Proof. exact (find_key_pre_eq_plain k vs). Qed.

(* C13 (abstract part): threads that only read a shared store and only write their own private state compute, under
   EVERY schedule, exactly what they compute alone.  The Go memory model is not formalised; what ties this to the code
   is the effect summary of gen/Effects.v (nothing reachable from Evaluate writes shared memory) and the run-time race
   detector exploration. *)
From LD Require Import Base.

Section Interleave.
Variable Shared : Type.       (* evaluator options, flags, segments, store: read-only during evaluations *)
Variable Priv : Type.         (* one call's evaluation scope: caches, status, chains, hash buffer, result *)
Variable step : Shared -> Priv -> Priv.   (* one step of one call: may read Shared, changes only its own Priv *)

Definition upd (ts : nat -> Priv) (i : nat) (p : Priv) : nat -> Priv := fun j => if Nat.eqb j i then p else ts j.

(* a schedule is any finite sequence of thread ids; each entry lets that thread take one step *)
Definition run_schedule (sh : Shared) (sched : list nat) (ts : nat -> Priv) : nat -> Priv :=
  fold_left (fun ts i => upd ts i (step sh (ts i))) sched ts.

Fixpoint iter (n : nat) (f : Priv -> Priv) (p : Priv) : Priv := match n with O => p | S k => iter k f (f p) end.

Definition steps_of (i : nat) (sched : list nat) : nat := List.length (filter (Nat.eqb i) sched).

Theorem interleave_independent sh sched : forall ts i,
  run_schedule sh sched ts i = iter (steps_of i sched) (step sh) (ts i).
Proof.
  induction sched as [|j sched IH]; intros ts i; [reflexivity|].
  unfold run_schedule in *. simpl. rewrite IH. unfold steps_of. simpl. unfold upd.
  destruct (Nat.eqb i j) eqn:E; simpl; [apply Nat.eqb_eq in E; subst; reflexivity|reflexivity].
Qed.

(* two schedules that give a thread the same number of steps leave it in the same state: no interleaving of the
   OTHER threads is observable *)
Corollary schedule_irrelevant sh s1 s2 ts i :
  steps_of i s1 = steps_of i s2 -> run_schedule sh s1 ts i = run_schedule sh s2 ts i.
Proof. intros H. rewrite !interleave_independent, H. reflexivity. Qed.

(* in particular the concurrent result equals the sequential one (all of thread i's steps run back to back) *)
Corollary concurrent_equals_sequential sh sched ts i :
  run_schedule sh sched ts i = run_schedule sh (repeat i (steps_of i sched)) ts i.
Proof.
  apply schedule_irrelevant. unfold steps_of. induction (List.length (filter (Nat.eqb i) sched)) as [|n IHn]; simpl; [reflexivity|].
  rewrite Nat.eqb_refl. simpl. f_equal. exact IHn.
Qed.

End Interleave.

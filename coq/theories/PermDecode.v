(* C17: property order is irrelevant. For every reader of the decoder, permuting the members of the object it reads
   (no duplicate names) does not change what is decoded -- including whether decoding fails. The one place where the Go
   code's order could matter -- values that depend on two properties (attribute + contextKind, bucketBy + contextKind,
   clientSide + clientSideAvailability) -- is deferred to the end of the object by the decoder, and so is it here. *)
From LD Require Import Base F32 Data Semver Model Ops Codec CodecFacts.
From RecordUpdate Require Import RecordUpdate.
From Coq Require Import Permutation.
Open Scope Z_scope.

Definition commutes {A} (step : str -> jv -> A -> option A) : Prop :=
  forall k v k' v' x, k <> k' -> bindo (step k v x) (step k' v') = bindo (step k' v' x) (step k v).

Lemma bindo_assoc {A B C} (m : option A) (f : A -> option B) (g : B -> option C) :
  bindo (bindo m f) g = bindo m (fun a => bindo (f a) g).
Proof. destruct m; reflexivity. Qed.

Lemma fold_props_perm {A} (step : str -> jv -> A -> option A) : commutes step ->
  forall l l', Permutation l l' -> NoDup (map fst l) -> forall x, fold_props step l x = fold_props step l' x.
Proof.
  intros Hc l l' Hp. induction Hp as [|[k v] l l' Hp IH|[k v] [k' v'] l|l l' l'' Hp1 IH1 Hp2 IH2]; intros Hnd x.
  - reflexivity.
  - cbn [fold_props]. inversion Hnd; subst. destruct (step k v x); cbn [bindo]; [apply IH; assumption|reflexivity].
  - cbn [fold_props].
    change (bindo (step k' v' x) (fun a' => bindo (step k v a') (fold_props step l)) =
            bindo (step k v x) (fun a' => bindo (step k' v' a') (fold_props step l))).
    rewrite <- !bindo_assoc. rewrite (Hc k' v' k v x); [reflexivity|].
    simpl in Hnd. inversion Hnd as [|? ? Hnotin _]; subst. intros Heq. apply Hnotin. left. symmetry. exact Heq.
  - rewrite IH1 by exact Hnd. apply IH2. eapply Permutation_NoDup; [|exact Hnd]. apply Permutation_map. exact Hp1.
Qed.

Lemma lit_inj k k' lit : k <> k' -> str_eqb k lit = true -> str_eqb k' lit = true -> False.
Proof. intros Hne H1 H2. apply str_eqb_eq in H1. apply str_eqb_eq in H2. congruence. Qed.

(* clientSideAvailability only reads and writes the three client-side fields: split the reader into a core over those
   fields and a rebuild of the record, so that updates of the other metadata fields visibly commute with it *)
Definition csa_core (v : jv) (mo en : bool) : option (bool * bool * bool) :=
  match v with
  | JNull => Some (mo, en, false)
  | JObj props =>
    fold_props (fun k v (t : bool * bool * bool) =>
      let '(mo, en, ex) := t in
      if is "usingEnvironmentId" k then x <-? rd_bool v ;; Some (mo, x, ex)
      else if is "usingMobileKey" k then x <-? rd_bool v ;; Some (x, en, ex)
      else Some t) props (mo, en, true)
  | _ => None
  end.
Definition csa_rebuild (m : fmeta) (t : bool * bool * bool) : fmeta :=
  let '(mo, en, ex) := t in m <| fm_cs_mobile := mo |> <| fm_cs_env := en |> <| fm_cs_explicit := ex |>.

Lemma rd_csa_split v m : rd_csa v m = option_map (csa_rebuild m) (csa_core v (fm_cs_mobile m) (fm_cs_env m)).
Proof.
  unfold rd_csa, csa_core. destruct v; try reflexivity.
  assert (G : forall props m0, fold_props (fun k v m1 =>
        if is "usingEnvironmentId" k then x <-? rd_bool v ;; Some (m1 <| fm_cs_env := x |>)
        else if is "usingMobileKey" k then x <-? rd_bool v ;; Some (m1 <| fm_cs_mobile := x |>)
        else Some m1) props m0 =
      option_map (csa_rebuild m0) (fold_props (fun k v (t : bool * bool * bool) =>
        let '(mo, en, ex) := t in
        if is "usingEnvironmentId" k then x <-? rd_bool v ;; Some (mo, x, ex)
        else if is "usingMobileKey" k then x <-? rd_bool v ;; Some (x, en, ex)
        else Some t) props (fm_cs_mobile m0, fm_cs_env m0, fm_cs_explicit m0))).
  { induction props as [|[k v] r IH]; intros m0; cbn [fold_props].
      - destruct m0; reflexivity.
      - unfold is. destruct (str_eqb k (s "usingEnvironmentId")).
        { destruct (rd_bool v); cbn [bindo]; [|reflexivity]. rewrite IH. cbn. destruct (fold_props _ r _) as [[[a b0] c]|]; [|reflexivity].
          destruct m0; reflexivity. }
        destruct (str_eqb k (s "usingMobileKey")).
        { destruct (rd_bool v); cbn [bindo]; [|reflexivity]. rewrite IH. cbn. destruct (fold_props _ r _) as [[[a b0] c]|]; [|reflexivity].
          destruct m0; reflexivity. }
        cbn [bindo]. apply IH. }
  rewrite G. cbn. destruct (fold_props _ l _) as [[[a b] c]|]; [|reflexivity]. destruct m; reflexivity.
Qed.

(* resolve the two chains of name tests, one key at a time *)
Ltac keys k :=
  repeat match goal with
  | |- context [if str_eqb k ?lit then _ else _] => let E := fresh "E" in destruct (str_eqb k lit) eqn:E; cbv iota
  end.
Ltac same_key :=
  match goal with
  | Hne : ?k <> ?k', H1 : str_eqb ?k ?lit = true, H2 : str_eqb ?k' ?lit = true |- _ => exfalso; exact (lit_inj k k' lit Hne H1 H2)
  end.
Ltac redx := cbn [bindo];
  cbn -[csa_core rd_string rd_bool rd_int rd_int_or_null rd_string_or_null rd_array_or_null rd_array rd_prereq rd_target rd_clause rd_wvar
        rd_rollout rd_vorr rd_rule rd_csa rd_migration rd_segtarget rd_segrule debug_date_of attr_name_or_ref].
Ltac readers :=
  repeat (redx;
    repeat match goal with H : ?m = _ |- context [bindo ?m _] => rewrite H end;
    first
    [ reflexivity
    | match goal with
      | |- context [match ?v with JNull => _ | _ => _ end] => is_var v; destruct v
      | |- context [match ?o with Some _ => _ | None => _ end] => is_var o; destruct o
      | |- context [match ?p with pair _ _ => _ end] => is_var p; destruct p
      end
    | match goal with
      | |- context [bindo ?m _] => lazymatch m with Some _ => fail | None => fail | bindo _ _ => fail | _ => destruct m eqn:? end
      end ]).
Ltac comm :=
  let k := fresh "k" in let v := fresh "v" in let k' := fresh "k'" in let v' := fresh "v'" in let x := fresh "x" in
  let Hne := fresh "Hne" in
  intros k v k' v' x Hne;
  try (lazymatch type of x with (_ * _)%type => destruct x as [x ?] end);
  unfold is; keys k; keys k'; try same_key; readers.

(* ---------------- every reader: the member order of its object is irrelevant ---------------- *)
Section Perm.
Variables l l' : list (str * jv).
Hypothesis HP : Permutation l l'.
Hypothesis HN : NoDup (map fst l).

Theorem perm_prereq : rd_prereq (JObj l) = rd_prereq (JObj l').
Proof. unfold rd_prereq, rd_object. apply fold_props_perm; [comm|exact HP|exact HN]. Qed.

Theorem perm_target : rd_target (JObj l) = rd_target (JObj l').
Proof. unfold rd_target, rd_object. apply fold_props_perm; [comm|exact HP|exact HN]. Qed.

Theorem perm_clause : rd_clause (JObj l) = rd_clause (JObj l').
Proof. unfold rd_clause, rd_object. f_equal. apply fold_props_perm; [comm|exact HP|exact HN]. Qed.

Theorem perm_wvar : rd_wvar (JObj l) = rd_wvar (JObj l').
Proof. unfold rd_wvar, rd_object. apply fold_props_perm; [comm|exact HP|exact HN]. Qed.

Theorem perm_rollout out : rd_rollout (JObj l) out = rd_rollout (JObj l') out.
Proof. unfold rd_rollout. f_equal. apply fold_props_perm; [comm|exact HP|exact HN]. Qed.

Lemma vorr_obj_commutes : commutes (fun k v x => r <-? vorr_step k v x ;; Some (match r with Some x' => x' | None => x end)).
Proof. unfold vorr_step. comm. Qed.

Theorem perm_vorr out : rd_vorr (JObj l) out = rd_vorr (JObj l') out.
Proof. unfold rd_vorr, rd_object. apply fold_props_perm; [apply vorr_obj_commutes|exact HP|exact HN]. Qed.

Theorem perm_rule : rd_rule (JObj l) = rd_rule (JObj l').
Proof. unfold rd_rule, rd_object. apply fold_props_perm; [unfold vorr_step; comm|exact HP|exact HN]. Qed.

Theorem perm_csa m : rd_csa (JObj l) m = rd_csa (JObj l') m.
Proof. unfold rd_csa. apply fold_props_perm; [comm|exact HP|exact HN]. Qed.

Theorem perm_migration : rd_migration (JObj l) = rd_migration (JObj l').
Proof. unfold rd_migration. apply fold_props_perm; [comm|exact HP|exact HN]. Qed.

Theorem perm_segtarget : rd_segtarget (JObj l) = rd_segtarget (JObj l').
Proof. unfold rd_segtarget, rd_object. apply fold_props_perm; [comm|exact HP|exact HN]. Qed.

Theorem perm_segrule : rd_segrule (JObj l) = rd_segrule (JObj l').
Proof. unfold rd_segrule, rd_object. f_equal. apply fold_props_perm; [comm|exact HP|exact HN]. Qed.

Theorem perm_segment : decode_segment (JObj l) = decode_segment (JObj l').
Proof. unfold decode_segment, rd_object. apply fold_props_perm; [unfold segment_step; comm|exact HP|exact HN]. Qed.

Definition flag_step' (k : str) (v : jv) (fc : flag * bool) : option (flag * bool) :=
  if is "clientSideAvailability" k
  then let '(f, dcs) := fc in
       t <-? csa_core v (fm_cs_mobile (f_meta f)) (fm_cs_env (f_meta f)) ;;
       Some (onmeta f (fun m => csa_rebuild m t), dcs)
  else flag_step k v fc.
Lemma flag_step_eq k v fc : flag_step k v fc = flag_step' k v fc.
Proof.
  unfold flag_step'. unfold is. destruct (str_eqb k (s "clientSideAvailability")) eqn:E; [|reflexivity].
  destruct fc as [f dcs]. unfold flag_step, is. rewrite E.
  repeat match goal with |- context [if str_eqb k ?lit then _ else _] =>
    let E' := fresh "E" in destruct (str_eqb k lit) eqn:E'; [exfalso; apply str_eqb_eq in E; apply str_eqb_eq in E'; rewrite E in E'; discriminate E'|] end.
  rewrite rd_csa_split. destruct (csa_core v _ _) as [t|]; [|reflexivity]. cbn [option_map bindo]. reflexivity.
Qed.
Lemma bindo_ext {A B} (m : option A) (f g : A -> option B) : (forall a, f a = g a) -> bindo m f = bindo m g.
Proof. intros H. destruct m; [apply H|reflexivity]. Qed.

Lemma flag_step'_commutes : commutes flag_step'.
Proof. unfold flag_step', flag_step, onmeta, csa_rebuild. comm. Qed.

Lemma flag_step_commutes : commutes flag_step.
Proof.
  intros k v k' v' x Hne. rewrite (flag_step_eq k v x), (flag_step_eq k' v' x).
  rewrite (bindo_ext _ (flag_step k' v') (flag_step' k' v') (flag_step_eq k' v')).
  rewrite (bindo_ext _ (flag_step k v) (flag_step' k v) (flag_step_eq k v)).
  apply flag_step'_commutes. exact Hne.
Qed.

Theorem perm_flag : decode_flag (JObj l) = decode_flag (JObj l').
Proof. unfold decode_flag, rd_object. f_equal. apply fold_props_perm; [apply flag_step_commutes|exact HP|exact HN]. Qed.
End Perm.

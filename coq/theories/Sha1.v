(* SHA-1 (FIPS 180-4) over byte lists, 32-bit words as N. *)
From LD Require Import Base.
Open Scope N_scope.

Definition m32 : N := 4294967295.
Definition w32 (x : N) : N := N.land x m32.
Definition rotl (n x : N) : N := w32 (N.lor (N.shiftl x n) (N.shiftr x (32 - n))).
Definition add32 (a b : N) : N := w32 (a + b).
Definition not32 (x : N) : N := N.lxor x m32.

Fixpoint be_bytes (k : nat) (x : N) : list N :=      (* k bytes, big endian *)
  match k with
  | O => []
  | S k' => N.land (N.shiftr x (8 * N.of_nat k')) 255 :: be_bytes k' x
  end.

Definition pad (msg : list N) : list N :=
  let l := N.of_nat (List.length msg) in
  let zeros := (64 - ((l + 9) mod 64)) mod 64 in
  msg ++ [128] ++ repeat 0 (N.to_nat zeros) ++ be_bytes 8 (8 * l).

Fixpoint words_of (fuel : nat) (bs : list N) : list N :=
  match fuel with
  | O => []
  | S f =>
    match bs with
    | a :: b :: c :: d :: r =>
        (N.shiftl a 24 + N.shiftl b 16 + N.shiftl c 8 + d) :: words_of f r
    | _ => []
    end
  end.

(* message schedule: extend 16 words to 80; kept as a reversed list (most recent first) *)
Fixpoint extend (n : nat) (rev_ws : list N) : list N :=
  match n with
  | O => rev_ws
  | S n' =>
    let g i := nth i rev_ws 0 in
    let w := rotl 1 (N.lxor (N.lxor (g 2%nat) (g 7%nat)) (N.lxor (g 13%nat) (g 15%nat))) in
    extend n' (w :: rev_ws)
  end.

Definition fk (t : nat) (b c d : N) : N * N :=
  if Nat.ltb t 20 then (N.lor (N.land b c) (N.land (not32 b) d), 1518500249)
  else if Nat.ltb t 40 then (N.lxor (N.lxor b c) d, 1859775393)
  else if Nat.ltb t 60 then (N.lor (N.lor (N.land b c) (N.land b d)) (N.land c d), 2400959708)
  else (N.lxor (N.lxor b c) d, 3395469782).

Record hst := { ha : N; hb : N; hc : N; hd : N; he : N }.

Fixpoint rounds (t : nat) (ws : list N) (h : hst) : hst :=
  match ws with
  | [] => h
  | w :: r =>
    let '(f, k) := fk t (hb h) (hc h) (hd h) in
    let tmp := add32 (add32 (add32 (add32 (rotl 5 (ha h)) f) (he h)) k) w in
    rounds (S t) r {| ha := tmp; hb := ha h; hc := rotl 30 (hb h); hd := hc h; he := hd h |}
  end.

Definition block (h : hst) (ws16 : list N) : hst :=
  let ws := rev (extend 64 (rev ws16)) in
  let h' := rounds 0 ws h in
  {| ha := add32 (ha h) (ha h'); hb := add32 (hb h) (hb h'); hc := add32 (hc h) (hc h');
     hd := add32 (hd h) (hd h'); he := add32 (he h) (he h') |}.

Fixpoint blocks (fuel : nat) (h : hst) (ws : list N) : hst :=
  match fuel with
  | O => h
  | S f => match ws with
           | [] => h
           | _ => blocks f (block h (firstn 16 ws)) (skipn 16 ws)
           end
  end.

Definition h0 : hst :=
  {| ha := 1732584193; hb := 4023233417; hc := 2562383102; hd := 271733878; he := 3285377520 |}.

Definition sha1 (msg : list N) : list N :=
  let p := pad msg in
  let ws := words_of (List.length p) p in
  let h := blocks (List.length ws) h0 ws in
  be_bytes 4 (ha h) ++ be_bytes 4 (hb h) ++ be_bytes 4 (hc h) ++ be_bytes 4 (hd h) ++ be_bytes 4 (he h).

(* the digest as a number (160 bits, big endian) *)
Definition be_num (bs : list N) : N := fold_left (fun acc b => acc * 256 + b) bs 0.

Definition hexdigit (d : N) : N := if d <? 10 then 48 + d else 87 + d.     (* lower case, as encoding/hex *)
Definition hex_encode (bs : list N) : list N :=
  flat_map (fun b => [hexdigit (N.shiftr b 4); hexdigit (N.land b 15)]) bs.

(* FIPS 180-4 / RFC 3174 test vectors *)
Example sha1_abc : hex_encode (sha1 (s "abc")) = s "a9993e364706816aba3e25717850c26c9cd0d89d".
Proof. vm_compute. reflexivity. Qed.
Example sha1_empty : hex_encode (sha1 []) = s "da39a3ee5e6b4b0d3255bfef95601890afd80709".
Proof. vm_compute. reflexivity. Qed.
Example sha1_448 :
  hex_encode (sha1 (s "abcdbcdecdefdefgefghfghighijhijkijkljklmklmnlmnomnopnopq"))
  = s "84983e441c3bd26ebaae4aa1f95129e5e54670f1".
Proof. vm_compute. reflexivity. Qed.
Example sha1_896 :
  hex_encode (sha1 (s "abcdefghbcdefghicdefghijdefghijkefghijklfghijklmghijklmnhijklmnoijklmnopjklmnopqklmnopqrlmnopqrsmnopqrstnopqrstu"))
  = s "a49b2446a02c645bf419f995b67091253a04a259".
Proof. vm_compute. reflexivity. Qed.

(* C11: the big-segments status an evaluation reports is exactly the worst status implied by what the evaluation did:
   a status is reported iff some unbounded segment lacked a generation, or was looked up for a context that has its
   kind (with no provider configured, or with a provider query), prerequisites included; and it is the worst of those
   (NOT_CONFIGURED > STORE_ERROR > STALE > HEALTHY). *)
From LD Require Import Base F32 Data Semver Model Ops Bucket Eval EvalFacts Safety WellFormed Trace.
Open Scope Z_scope.

Section Status.
Variable P : bsprov.

(* what one observation contributes to the status: the ghost observation GUnbounded key has_generation has_kind records
   that an unbounded segment was evaluated; OBsQuery key is a provider call *)
Definition contrib (x : obs) : option bsstatus :=
  match x with
  | GUnbounded _ false _ => Some NotConfigured
  | GUnbounded _ true true => match P with None => Some NotConfigured | Some _ => None end
  | OBsQuery k => match P with Some prov => Some (bs_status (prov k)) | None => None end
  | _ => None
  end.
Definition worst (old : option bsstatus) (b : bsstatus) : bsstatus :=
  match old with None => b | Some a => if bs_priority b <? bs_priority a then a else b end.
(* trace most recent first, as the state holds it *)
Fixpoint status_of (tr : list obs) : option bsstatus :=
  match tr with
  | [] => None
  | x :: r => match contrib x with Some b => Some (worst (status_of r) b) | None => status_of r end
  end.

Lemma worst_not_configured old : worst old NotConfigured = NotConfigured.
Proof. destruct old as [[]|]; reflexivity. Qed.
Lemma merge_is_worst_opt old b : merge_status old (Some b) = Some (worst old b).
Proof. destruct old as [a|]; [|reflexivity]. unfold merge_status, worst. destruct (bs_priority b <? bs_priority a); reflexivity. Qed.

Definition sync (s : st) : Prop := s_status s = status_of (s_trace s) /\ (P = None -> s_cache s = []).

Section Ev.
Variable re_ok : str -> bool.
Variable re_match : str -> str -> bool.
Variable o : opts.
Variable E : env.
Variable c : ctx.

Lemma sync_walk x s : walk_obs x = true -> sync s -> sync (mkst (s_cache s) (s_status s) (x :: s_trace s)).
Proof.
  intros Hx [H1 H2]. split; [|exact H2]. cbn [s_status s_trace status_of].
  destruct x; try discriminate Hx; exact H1.
Qed.
Lemma sync_log k e s : sync s -> sync (snd (log o k e s)).
Proof. intros [H1 H2]. unfold log. destruct (o_logger o); split; cbn; assumption. Qed.

Lemma sync_early sg s : sync s -> sync (snd (seg_early P c sg s)).
Proof.
  intros [H1 H2]. unfold seg_early. destruct (sg_unbounded sg); [|split; assumption].
  destruct (sg_generation sg) as [g|].
  - destruct (ctx_key_by_kind c (sg_unb_kind sg)) as [k|].
    + unfold bind at 1. unfold emit at 1. cbn [fst snd].
      unfold bind at 1. unfold membership_for. cbn [s_cache s_status s_trace].
      destruct P as [prov|] eqn:HP.
      * destruct (assoc k (s_cache s)) as [m|] eqn:Ha.
        { destruct m as [mem|]; cbn; (split; [cbn [s_status s_trace status_of contrib]; rewrite ?HP; cbv iota beta; exact H1|intros Hn; congruence]). }
        cbn [fst snd]. destruct (bs_membership (prov k)) as [mem|]; cbn;
          (split; [cbn [s_status s_trace status_of contrib]; rewrite ?HP; cbv iota beta; rewrite merge_is_worst_opt, H1; reflexivity|intros Hn; congruence]).
      * rewrite (H2 eq_refl). cbn. split; [cbn [s_status s_trace status_of contrib]; rewrite HP; cbv iota beta; rewrite worst_not_configured; reflexivity|intros _; reflexivity].
    + unfold bind, emit. cbn. split; [exact H1|exact H2].
  - unfold bind, emit, set_status, ret. cbn [fst snd s_cache s_status s_trace]. split; [cbn [s_status s_trace status_of contrib]; rewrite worst_not_configured; reflexivity|exact H2].
Qed.

Theorem sync_eval_flag fuel chain f s : sync s -> sync (snd (eval_flag re_ok re_match o E P c fuel chain f s)).
Proof.
  apply (keeps_eval_flag re_ok re_match o E P c sync walk_obs); try (intros; reflexivity).
  - intros x s0 Hx H. apply sync_walk; assumption.
  - intros k e s0 H. apply sync_log. exact H.
  - intros sg s0 H. apply sync_early. exact H.
Qed.

(* results of nested evaluations carry no status of their own: it is attached once, at the end *)
Definition no_status (d : detail) : Prop := rs_bigseg (d_reason d) = None.
Lemma post_get_variation_ns f i r : rs_bigseg r = None -> post (get_variation o f i r) no_status.
Proof.
  intros Hr. unfold get_variation. destruct (znth_opt _ _); [apply post_ret; exact Hr|].
  eapply post_bind; [apply post_true|]. intros _ _. apply post_ret. reflexivity.
Qed.
Lemma post_off_value_ns f r : rs_bigseg r = None -> post (off_value o f r) no_status.
Proof. intros Hr. unfold off_value. destruct (f_off f); [apply post_get_variation_ns; exact Hr|apply post_ret; exact Hr]. Qed.
Lemma post_vr_detail_ns f vr r : rs_bigseg r = None -> post (vr_detail o c f vr r) no_status.
Proof.
  intros Hr. unfold vr_detail. destruct (vr_result o c vr (f_key f) (f_salt f)) as [[[i b]|e]| |].
  - apply post_get_variation_ns. destruct b; [|exact Hr]. unfold to_experiment_reason. destruct (rs_kind r); cbn; exact Hr.
  - eapply post_bind; [apply post_true|]. intros _ _. apply post_ret. reflexivity.
  - intros st a st' Hx; discriminate.
  - intros st a st' Hx; discriminate.
Qed.
Lemma post_rules_loop_ns segc f rs i : post (rules_loop re_ok re_match o E c segc f rs i) (fun r => no_status (fst r)).
Proof.
  revert i. induction rs as [|ru rest IH]; intros i; cbn [rules_loop].
  - eapply post_bind; [apply post_vr_detail_ns; reflexivity|]. intros d Hd. apply post_ret. exact Hd.
  - eapply post_bind; [apply post_true|]. intros [[|]|e] _.
    + eapply post_bind; [apply post_vr_detail_ns; reflexivity|]. intros d Hd. apply post_ret. exact Hd.
    + apply IH.
    + eapply post_bind; [apply post_true|]. intros _ _. apply post_ret. reflexivity.
Qed.
Lemma post_eval_flag_ns fuel chain f : post (eval_flag re_ok re_match o E P c fuel chain f) (fun r => no_status (fst r)).
Proof.
  destruct fuel as [|n]; cbn [eval_flag]; [intros st a st' Hx; discriminate|].
  destruct (negb (f_on f)).
  { eapply post_bind; [apply post_off_value_ns; reflexivity|]. intros d Hd. apply post_ret. exact Hd. }
  eapply post_bind; [apply post_true|]. intros [|k|] _.
  - destruct (any_target_match c f).
    + eapply post_bind; [apply post_get_variation_ns; reflexivity|]. intros d Hd. apply post_ret. exact Hd.
    + apply post_rules_loop_ns.
  - eapply post_bind; [apply post_off_value_ns; reflexivity|]. intros d Hd. apply post_ret. exact Hd.
  - apply post_ret. reflexivity.
Qed.

Lemma status_of_rev_irrelevant : True. Proof. exact I. Qed.

(* the statement of the property: the reported status IS the worst status implied by the trace of the evaluation
   (None = no status in the reason); out_trace is oldest first *)
Theorem reported_status_is_worst_seen f out :
  run re_ok re_match o E P c f = Done out ->
  rs_bigseg (d_reason (out_detail out)) = status_of (rev (out_trace out)).
Proof.
  destruct (match c with CInvalid => true | _ => false end) eqn:Hc.
  { destruct c; try discriminate. intros H; inversion H; subst. reflexivity. }
  assert (Hn : c <> CInvalid) by (intros Hx; rewrite Hx in Hc; discriminate).
  rewrite (run_valid re_ok re_match o E P c f Hn). unfold finish.
  assert (H0 : sync st0) by (split; [reflexivity|intros _; reflexivity]).
  pose proof (sync_eval_flag (flag_fuel E) [] f st0 H0) as [Hs _].
  pose proof (post_eval_flag_ns (flag_fuel E) [] f st0) as Hp.
  destruct (eval_flag re_ok re_match o E P c (flag_fuel E) [] f st0) as [[[d b]| |] s1]; try discriminate.
  specialize (Hp (d, b) s1 eq_refl). cbn in Hp, Hs.
  intros H; inversion H; subst; clear H. cbn [out_detail out_trace]. rewrite rev_involutive, <- Hs.
  destruct (s_status s1); [reflexivity|exact Hp].
Qed.

End Ev.
End Status.

(* reading the definition: a status is reported iff some observation contributes one *)
Lemma status_reported_iff P tr : status_of P tr <> None <-> exists x, In x tr /\ contrib P x <> None.
Proof.
  induction tr as [|x r IH]; simpl.
  - split; [intros H; contradiction|intros [x [[] _]]].
  - destruct (contrib P x) eqn:Hx.
    + split; [intros _; exists x; split; [left; reflexivity|rewrite Hx; discriminate]|intros _; discriminate].
    + rewrite IH. split.
      * intros [y [Hy Hc]]. exists y. split; [right; exact Hy|exact Hc].
      * intros [y [[Hy|Hy] Hc]]; [subst y; rewrite Hx in Hc; contradiction|exists y; split; assumption].
Qed.

(* and it is at least as bad as every contribution *)
Lemma status_is_upper_bound P tr x b :
  In x tr -> contrib P x = Some b -> exists w, status_of P tr = Some w /\ (bs_priority b <= bs_priority w)%Z.
Proof.
  induction tr as [|y r IH]; simpl; [intros []|]. intros [Hy|Hin] Hc.
  - subst y. rewrite Hc. eexists. split; [reflexivity|]. unfold worst. destruct (status_of P r) as [a|]; [|lia].
    destruct (bs_priority b <? bs_priority a) eqn:E; [apply Z.ltb_lt in E; lia|lia].
  - destruct (IH Hin Hc) as [w [Hw Hle]]. rewrite Hw. destruct (contrib P y) as [b'|]; [|exists w; split; [reflexivity|exact Hle]].
    eexists. split; [reflexivity|]. unfold worst. destruct (bs_priority b' <? bs_priority w) eqn:E; [exact Hle|apply Z.ltb_ge in E; lia].
Qed.

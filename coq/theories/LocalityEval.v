(* C20 at the level of whole evaluations: adding to the context an attribute that no clause and no bucket-by of the
   configuration (the evaluated flag, every stored flag, every stored segment) names leaves the evaluation unchanged --
   pointwise: same result, same state, same trace (store reads, big-segment queries, log lines, events), from every start
   state, at every fuel, for every path prefix. *)
From LD Require Import Base F32 Data Semver Model Ops Bucket Eval EvalFacts Safety WellFormed Targets Locality Acyclic.
Open Scope Z_scope.

Section LE.
Variable re_ok : str -> bool.
Variable re_match : str -> str -> bool.
Variable o : opts.
Variable E : env.
Variable P : bsprov.
Variable c : ctx.
Variable n : str.          (* the name of the added attribute *)
Variable v : jv.           (* its value *)

Definition c' : ctx := add_attr_ctx c n v.

(* "no clause or bucket-by names it": the first path component of the reference is another name *)
Definition other (r : ref) : Prop := str_eqb (ref_component r 0) n = false.
Definition clause_nr (cl : clause) : Prop := str_eqb (cl_op cl) op_segment = true \/ other (cl_attr cl).
Definition vorr_nr (vr : vorr) : Prop := other (ro_bucket_by (vr_rollout vr)).
Definition rule_nr (ru : rule) : Prop := Forall clause_nr (ru_clauses ru) /\ vorr_nr (ru_vr ru).
Definition flag_nr (f : flag) : Prop := Forall rule_nr (f_rules f) /\ vorr_nr (f_fallthrough f).
Definition segrule_nr (r : segrule) : Prop := Forall clause_nr (sr_clauses r) /\ other (sr_bucket_by r).
Definition seg_nr (sg : segment) : Prop := Forall segrule_nr (sg_rules sg).
Definition env_nr : Prop :=
  (forall k f, assoc k (e_flags E) = Some f -> flag_nr f) /\ (forall k sg, assoc k (e_segments E) = Some sg -> seg_nr sg).

Hypothesis Hkey : str_eqb (s "key") n = false.     (* the built-in attributes cannot be added (ldcontext rejects them) *)
Hypothesis HE : env_nr.

Lemma ckk k : ctx_key_by_kind c' k = ctx_key_by_kind c k.
Proof. unfold ctx_key_by_kind, c'. rewrite ctx_by_kind_add. destruct (ctx_by_kind c k); reflexivity. Qed.
Lemma ckind : ctx_kind c' = ctx_kind c.
Proof. unfold c'. destruct c; reflexivity. Qed.

Lemma seg_target_matches_c t : seg_target_matches c' t = seg_target_matches c t.
Proof. unfold seg_target_matches. rewrite ckk. reflexivity. Qed.
Lemma regular_lists_c sg : regular_lists c' sg = regular_lists c sg.
Proof.
  unfold regular_lists. rewrite ckk.
  rewrite (existsb_ext (seg_target_matches c') (seg_target_matches c) (sg_inc_ctx sg) seg_target_matches_c).
  rewrite (existsb_ext (seg_target_matches c') (seg_target_matches c) (sg_exc_ctx sg) seg_target_matches_c).
  reflexivity.
Qed.

Lemma seg_early_c sg : seg_early P c' sg == seg_early P c sg.
Proof. unfold seg_early. rewrite regular_lists_c, ckk. apply meq_refl. Qed.

Lemma clause_match_c sc1 sc2 cl :
  clause_nr cl -> (forall k sg', assoc k (e_segments E) = Some sg' -> sc1 sg' == sc2 sg') ->
  clause_match re_ok re_match E c' sc1 cl == clause_match re_ok re_match E c sc2 cl.
Proof.
  intros Hc H. unfold clause_match. destruct (str_eqb (cl_op cl) op_segment) eqn:Hop.
  - apply seg_match_values_ext. intros k sg' _ Ha. exact (H k sg' Ha).
  - destruct Hc as [Hc|Hc]; [rewrite Hop in Hc; discriminate Hc|].
    unfold c'. rewrite (clause_ignores_unreferenced_attribute re_ok re_match cl c n v Hc). apply meq_refl.
Qed.

Lemma first_clause_c sc1 sc2 cls :
  Forall clause_nr cls -> (forall k sg', assoc k (e_segments E) = Some sg' -> sc1 sg' == sc2 sg') ->
  first_clause (clause_match re_ok re_match E c' sc1) cls == first_clause (clause_match re_ok re_match E c sc2) cls.
Proof.
  intros Hc H. apply first_clause_ext. intros cl Hin. apply clause_match_c; [|exact H].
  rewrite Forall_forall in Hc. exact (Hc cl Hin).
Qed.

Lemma seg_rule_match_c sc1 sc2 sg r :
  segrule_nr r -> (forall k sg', assoc k (e_segments E) = Some sg' -> sc1 sg' == sc2 sg') ->
  seg_rule_match re_ok re_match o E c' sc1 sg r == seg_rule_match re_ok re_match o E c sc2 sg r.
Proof.
  intros [Hc Hb] H. unfold seg_rule_match. apply bind_ext; [apply first_clause_c; assumption|].
  intros [[|]|e]; try apply meq_refl. destruct (sr_weight r); [|apply meq_refl].
  unfold c'. rewrite (bucket_ignores_unreferenced_attribute (o_secondary o) c false None (sr_kind r) (sg_key sg) (sr_bucket_by r) (sg_salt sg) n v Hb Hkey).
  apply meq_refl.
Qed.

Lemma seg_contains_c : forall fuel chain sg, seg_nr sg ->
  seg_contains re_ok re_match o E P c' fuel chain sg == seg_contains re_ok re_match o E P c fuel chain sg.
Proof.
  induction fuel as [|m IH]; intros chain sg Hs; [apply meq_refl|].
  rewrite !seg_contains_unfold. destruct (mem_str (sg_key sg) chain); [apply meq_refl|].
  apply bind_ext; [apply seg_early_c|]. intros [b|]; [apply meq_refl|].
  apply seg_rules_ext. intros r Hr. apply seg_rule_match_c.
  - unfold seg_nr in Hs. rewrite Forall_forall in Hs. exact (Hs r Hr).
  - intros k sg' Ha. apply IH. exact (proj2 HE k sg' Ha).
Qed.

(* ---- flags ---- *)
Lemma vr_result_c vr key salt : vorr_nr vr -> vr_result o c' vr key salt = vr_result o c vr key salt.
Proof.
  intros Hb. unfold vr_result. destruct (vr_var vr); [reflexivity|]. destruct (ro_vars (vr_rollout vr)); [reflexivity|].
  unfold c'. rewrite (bucket_ignores_unreferenced_attribute (o_secondary o) c _ _ _ key _ salt n v Hb Hkey). reflexivity.
Qed.
Lemma vr_detail_c f vr r : vorr_nr vr -> vr_detail o c' f vr r = vr_detail o c f vr r.
Proof. intros Hb. unfold vr_detail. rewrite (vr_result_c vr _ _ Hb). reflexivity. Qed.

Lemma first_target_c ts : first_target c' ts = first_target c ts.
Proof. induction ts as [|t r IH]; simpl; [reflexivity|]. unfold c' at 1. rewrite target_ignores_attributes, IH. reflexivity. Qed.
Lemma fallback_target_c ts x : fallback_target c' ts x = fallback_target c ts x.
Proof. induction ts as [|t r IH]; simpl; [reflexivity|]. unfold c' at 1. rewrite target_ignores_attributes, IH. reflexivity. Qed.
Lemma ctx_targets_c f ts : ctx_targets c' f ts = ctx_targets c f ts.
Proof.
  induction ts as [|t r IH]; cbn [ctx_targets]; [reflexivity|]. rewrite fallback_target_c, IH.
  unfold c' at 1. rewrite target_ignores_attributes. reflexivity.
Qed.
Lemma any_target_match_c f : any_target_match c' f = any_target_match c f.
Proof. unfold any_target_match. destruct (f_ctargets f); [apply first_target_c|apply ctx_targets_c]. Qed.

Lemma rules_loop_c sc1 sc2 f rs i :
  Forall rule_nr rs -> vorr_nr (f_fallthrough f) ->
  (forall k sg', assoc k (e_segments E) = Some sg' -> sc1 sg' == sc2 sg') ->
  rules_loop re_ok re_match o E c' sc1 f rs i == rules_loop re_ok re_match o E c sc2 f rs i.
Proof.
  intros Hr Hft H. revert i. induction rs as [|ru rest IH]; intros i; cbn [rules_loop].
  - rewrite (vr_detail_c f _ _ Hft). apply meq_refl.
  - inversion Hr as [|? ? [Hc Hv] Hrest]; subst. apply bind_ext; [apply first_clause_c; assumption|].
    intros [[|]|e]; try apply meq_refl; [rewrite (vr_detail_c f _ _ Hv); apply meq_refl|apply IH; exact Hrest].
Qed.

Lemma prereq_loop_ext ev1 ev2 f chain' ps :
  (forall k pf, assoc k (e_flags E) = Some pf -> ev1 pf == ev2 pf) ->
  prereq_loop o E ev1 f chain' ps == prereq_loop o E ev2 f chain' ps.
Proof.
  intros H. induction ps as [|p rest IH]; cbn [prereq_loop]; [apply meq_refl|].
  apply bind_ext; [apply meq_refl|]. intros _.
  destruct (assoc (pq_key p) (e_flags E)) as [pf|] eqn:Ha; [|apply meq_refl].
  destruct (mem_str (f_key pf) chain'); [apply meq_refl|].
  apply bind_ext; [exact (H _ pf Ha)|]. intros [d ok]. destruct (negb ok); [apply meq_refl|].
  apply bind_ext; [apply meq_refl|]. intros _. destruct (_ || _); [apply meq_refl|exact IH].
Qed.

Theorem eval_flag_c : forall fuel chain f, flag_nr f ->
  eval_flag re_ok re_match o E P c' fuel chain f == eval_flag re_ok re_match o E P c fuel chain f.
Proof.
  induction fuel as [|m IH]; intros chain f [Hr Hft]; [apply meq_refl|].
  cbn [eval_flag]. destruct (negb (f_on f)); [apply meq_refl|].
  apply bind_ext.
  - destruct (f_prereqs f) as [|p0 ps]; [apply meq_refl|].
    change (prereq_loop o E (eval_flag re_ok re_match o E P c' m (chain ++ [f_key f])) f (chain ++ [f_key f]) (p0 :: ps) ==
            prereq_loop o E (eval_flag re_ok re_match o E P c m (chain ++ [f_key f])) f (chain ++ [f_key f]) (p0 :: ps)).
    apply prereq_loop_ext. intros k pf Ha. apply IH. exact (proj1 HE k pf Ha).
  - intros [|k|]; try apply meq_refl. rewrite any_target_match_c.
    destruct (any_target_match c f); [apply meq_refl|].
    apply rules_loop_c; [exact Hr|exact Hft|]. intros k sg' Ha. apply seg_contains_c. exact (proj2 HE k sg' Ha).
Qed.

(* the whole evaluation: identical outcome, trace included *)
Theorem unreferenced_attribute_is_invisible f : flag_nr f ->
  run re_ok re_match o E P c' f = run re_ok re_match o E P c f.
Proof.
  intros Hf. pose proof (eval_flag_c (flag_fuel E) [] f Hf st0) as H. unfold run. unfold c' in *.
  destruct c as [|x|l]; [reflexivity| |]; cbn [add_attr_ctx] in *; rewrite H; reflexivity.
Qed.

End LE.

(* non-vacuity: a flag with a rule on "email" and a rollout bucketing by "score" does not reference "extra" *)
Example hypotheses_hold_somewhere :
  let cl := mkclause [] (new_literal_ref (s "email")) op_in [JStr (s "a")] false cpre_none in
  let vr := mkvorr None (mkrollout [] [] [mkwvar 0 100000 false] (new_literal_ref (s "score")) None) in
  let f := mkflag (s "f") true [] [] [] [mkrule vr (s "r") [cl] false] vr None [JBool true] [] false false
                  (mkfmeta 0 false false 0 false false false None None) in
  flag_nr (s "extra") f /\ env_nr (mkenv [(s "f", f)] []) (s "extra") /\ str_eqb (s "key") (s "extra") = false.
Proof.
  cbv zeta. split; [|split; [|reflexivity]].
  - split; [constructor; [|constructor]|reflexivity]. split; [constructor; [right; reflexivity|constructor]|reflexivity].
  - split.
    + intros k g Ha. simpl in Ha. destruct (str_eqb k (s "f")); [|discriminate]. inversion Ha; subst.
      split; [constructor; [|constructor]|reflexivity]. split; [constructor; [right; reflexivity|constructor]|reflexivity].
    + intros k sg Ha. discriminate.
Qed.

(* Clause operators and accessors (evaluator_clause.go, ldmodel/eval_accessors.go, parse_values.go). *)
From LD Require Import Base F32 Data Scan Semver Time Model.
Open Scope Z_scope.

Fixpoint is_prefix (p x : str) : bool :=
  match p, x with
  | [], _ => true
  | a :: p', b :: x' => N.eqb a b && is_prefix p' x'
  | _ :: _, [] => false
  end.
Definition is_suffix (p x : str) : bool := is_prefix (rev p) (rev x).
Fixpoint is_infix (p x : str) : bool :=
  is_prefix p x || match x with [] => false | _ :: x' => is_infix p x' end.

(* ldmodel.parseDateTime / TypeConversions.ValueToTimestamp *)
Definition value_to_time (v : jv) : option Z :=
  match v with
  | JStr x => parse_rfc3339 x
  | JNum d => Some (instant_of_millis d)
  | _ => None
  end.
Definition value_to_semver (v : jv) : option semver :=
  match v with JStr x => parse_semver x | _ => None end.

Inductive everr :=
| EBadVariation (i : Z) | EEmptyAttr | EBadAttr (x : str) | EEmptyRollout
| ECircPrereq (k : str) | ECircSeg (k : str) | EMalformedSeg (k : str) (e : everr).

Inductive er (A : Type) := Ok (a : A) | Err (e : everr).
Arguments Ok {A} a. Arguments Err {A} e.

Section WithRegex.
Variable re_ok : str -> bool.                  (* regexp.Compile succeeds *)
Variable re_match : str -> str -> bool.        (* pattern, subject: Regexp.MatchString *)

Definition value_to_regex (v : jv) : option str :=
  match v with JStr p => if re_ok p then Some p else None | _ => None end.

(* preprocessClause *)
Definition preprocess_clause (c : clause) : clause :=
  let op := cl_op c in
  let pre :=
    if str_eqb op op_in then
      match cl_values c with
      | _ :: _ :: _ => if forallb is_prim (cl_values c) then mkcpre None (Some (cl_values c)) else cpre_none
      | _ => cpre_none
      end
    else if str_eqb op op_matches then
      mkcpre (Some (map (fun v => mkpval (value_to_regex v) None None) (cl_values c))) None
    else if str_eqb op op_before || str_eqb op op_after then
      mkcpre (Some (map (fun v => mkpval None (value_to_time v) None) (cl_values c))) None
    else if str_eqb op op_sv_eq || str_eqb op op_sv_gt || str_eqb op op_sv_lt then
      mkcpre (Some (map (fun v => mkpval None None (value_to_semver v)) (cl_values c))) None
    else cpre_none in
  mkclause (cl_kind c) (cl_attr c) (cl_op c) (cl_values c) (cl_negate c) pre.

(* EvaluatorAccessors.ClauseFindValue *)
Definition clause_find_value (c : clause) (v : jv) : bool :=
  match cp_map (cl_pre c) with
  | Some m => if is_prim v then existsb (prim_eqb v) m
              else false
  | None => if is_prim v then existsb (prim_eqb v) (cl_values c) else false
  end.

Definition clause_regex (c : clause) (i : nat) : option str :=
  match cp_values (cl_pre c) with
  | Some pvs => match nth_opt pvs i with Some p => pv_re p | None => None end
  | None => match nth_opt (cl_values c) i with Some v => value_to_regex v | None => None end
  end.
Definition clause_time (c : clause) (i : nat) : option Z :=
  match cp_values (cl_pre c) with
  | Some pvs => match nth_opt pvs i with Some p => pv_time p | None => None end
  | None => match nth_opt (cl_values c) i with Some v => value_to_time v | None => None end
  end.
Definition clause_semver (c : clause) (i : nat) : option semver :=
  match cp_values (cl_pre c) with
  | Some pvs => match nth_opt pvs i with Some p => pv_sem p | None => None end
  | None => match nth_opt (cl_values c) i with Some v => value_to_semver v | None => None end
  end.

Definition string_op (f : str -> str -> bool) (cv clv : jv) : bool :=
  match cv, clv with JStr a, JStr b => f a b | _, _ => false end.
Definition numeric_op (f : dy -> dy -> bool) (cv clv : jv) : bool :=
  match cv, clv with JNum a, JNum b => f a b | _, _ => false end.
Definition date_op (c : clause) (cv : jv) (i : nat) (f : Z -> Z -> bool) : bool :=
  match clause_time c i with
  | Some clt => match value_to_time cv with Some ct => f ct clt | None => false end
  | None => false
  end.
Definition semver_op (c : clause) (cv : jv) (i : nat) (expected : Z) : bool :=
  match clause_semver c i with
  | Some clv => match value_to_semver cv with Some v => semver_cmp v clv =? expected | None => false end
  | None => false
  end.

(* doOp *)
Definition do_op (c : clause) (cv clv : jv) (i : nat) : bool :=
  let op := cl_op c in
  if str_eqb op op_ends then string_op (fun a b => is_suffix b a) cv clv
  else if str_eqb op op_starts then string_op (fun a b => is_prefix b a) cv clv
  else if str_eqb op op_matches then
    match cv with
    | JStr subject => match clause_regex c i with Some p => re_match p subject | None => false end
    | _ => false
    end
  else if str_eqb op op_contains then string_op (fun a b => is_infix b a) cv clv
  else if str_eqb op op_lt then numeric_op dy_ltb cv clv
  else if str_eqb op op_le then numeric_op dy_leb cv clv
  else if str_eqb op op_gt then numeric_op (fun a b => dy_ltb b a) cv clv
  else if str_eqb op op_ge then numeric_op (fun a b => dy_leb b a) cv clv
  else if str_eqb op op_before then date_op c cv i Z.ltb
  else if str_eqb op op_after then date_op c cv i (fun a b => Z.ltb b a)
  else if str_eqb op op_sv_eq then semver_op c cv i 0
  else if str_eqb op op_sv_lt then semver_op c cv i (-1)
  else if str_eqb op op_sv_gt then semver_op c cv i 1
  else false.

Fixpoint any_op (c : clause) (cv : jv) (vals : list jv) (i : nat) : bool :=
  match vals with
  | [] => false
  | v :: r => do_op c cv v i || any_op c cv r (S i)
  end.

(* matchAny *)
Definition match_any (c : clause) (cv : jv) : bool :=
  if str_eqb (cl_op c) op_in then clause_find_value c cv
  else any_op c cv (cl_values c) O.

Definition maybe_negate (n b : bool) : bool := if n then negb b else b.

(* clauseMatchByKind *)
Definition clause_match_by_kind (c : clause) (x : ctx) : bool :=
  match x with
  | CMulti l => existsb (fun i => match_any c (JStr (c_kind i))) l
  | CSingle i => match_any c (JStr (c_kind i))
  | CInvalid => false
  end.

(* clauseMatchesContextNoSegments *)
Definition clause_match_noseg (c : clause) (x : ctx) : er bool :=
  if negb (ref_defined (cl_attr c)) then Err EEmptyAttr
  else if ref_has_err (cl_attr c) then Err (EBadAttr (ref_string (cl_attr c)))
  else if str_eqb (ref_string (cl_attr c)) (s "kind") then
    Ok (maybe_negate (cl_negate c) (clause_match_by_kind c x))
  else match ctx_by_kind x (cl_kind c) with
       | None => Ok false
       | Some i =>
         match get_value_for_ref i (cl_attr c) with
         | JNull => Ok false
         | JArr l => Ok (maybe_negate (cl_negate c) (existsb (match_any c) l))
         | v => Ok (maybe_negate (cl_negate c) (match_any c v))
         end
       end.

End WithRegex.

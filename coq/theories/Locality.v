(* C20: results depend only on referenced data *)
From LD Require Import Base F32 Data Semver Model Ops Bucket Eval EvalFacts Pure Order.
From Coq Require Import Permutation.
Open Scope Z_scope.

(* ---------------- flag metadata is never read ---------------- *)
Definition with_meta (f : flag) (m : fmeta) (excl : bool) : flag :=
  mkflag (f_key f) (f_on f) (f_prereqs f) (f_targets f) (f_ctargets f) (f_rules f) (f_fallthrough f) (f_off f)
         (f_vars f) (f_salt f) (f_track_ft f) excl m.

Section Meta.
Variable re_ok : str -> bool.
Variable re_match : str -> str -> bool.
Variable o : opts.
Variable E : env.
Variable P : bsprov.
Variable c : ctx.

Lemma p_rules_meta segc f m e rs i :
  p_rules re_ok re_match o E c segc (with_meta f m e) rs i = p_rules re_ok re_match o E c segc f rs i.
Proof.
  revert i. induction rs as [|ru rest IH]; intros i; cbn [p_rules]; [reflexivity|].
  destruct (p_all_clauses _ _) as [[[|]|err]| |]; simpl; auto.
Qed.

Lemma ctx_targets_meta f m e ts : ctx_targets c (with_meta f m e) ts = ctx_targets c f ts.
Proof. induction ts as [|t r IH]; simpl; [reflexivity|]. rewrite IH. reflexivity. Qed.

Lemma any_target_match_meta f m e : any_target_match c (with_meta f m e) = any_target_match c f.
Proof.
  unfold any_target_match. change (f_ctargets (with_meta f m e)) with (f_ctargets f).
  change (f_targets (with_meta f m e)) with (f_targets f).
  destruct (f_ctargets f) as [|t r] eqn:He; [reflexivity|]. apply (ctx_targets_meta f m e (t :: r)).
Qed.

(* version, deleted, client-side availability, debug date, sampling, migration, tracking of all events, and the
   summary-exclusion setting of the evaluated flag do not influence its result *)
Theorem metadata_irrelevant fuel chain f m e :
  p_eval re_ok re_match o E P c fuel chain (with_meta f m e) = p_eval re_ok re_match o E P c fuel chain f.
Proof.
  destruct fuel as [|n]; [reflexivity|]. cbn [p_eval]. rewrite any_target_match_meta.
  change (f_on (with_meta f m e)) with (f_on f). change (f_prereqs (with_meta f m e)) with (f_prereqs f).
  change (f_key (with_meta f m e)) with (f_key f). change (f_rules (with_meta f m e)) with (f_rules f).
  destruct (negb (f_on f)); [reflexivity|].
  destruct (match f_prereqs f with [] => _ | _ => _ end) as [[|k|]| |]; simpl; try reflexivity.
  destruct (any_target_match c f); [reflexivity|]. apply p_rules_meta.
Qed.
End Meta.

(* ---------------- an attribute that nothing references ---------------- *)
Definition add_attr (x : single) (n : str) (v : jv) : single :=
  mksingle (c_kind x) (c_key x) (c_name x) (c_anon x) (c_secondary x) (c_attrs x ++ [(n, v)]).
Definition add_attr_ctx (c : ctx) (n : str) (v : jv) : ctx :=
  match c with
  | CInvalid => CInvalid
  | CSingle x => CSingle (add_attr x n v)
  | CMulti l => CMulti (map (fun x => add_attr x n v) l)
  end.

Lemma assoc_app_other {A} k n (v : A) l : str_eqb k n = false -> assoc k (l ++ [(n, v)]) = assoc k l.
Proof.
  intros H. induction l as [|[k' v'] r IH]; simpl; [rewrite H; reflexivity|].
  destruct (str_eqb k k'); [reflexivity|exact IH].
Qed.

Lemma top_attr_other x n v name : str_eqb name n = false -> top_attr (add_attr x n v) name = top_attr x name.
Proof.
  intros H. unfold top_attr, add_attr. simpl.
  destruct (str_eqb name (s "kind")); [reflexivity|]. destruct (str_eqb name (s "key")); [reflexivity|].
  destruct (str_eqb name (s "name")); [reflexivity|]. destruct (str_eqb name (s "anonymous")); [reflexivity|].
  apply assoc_app_other. exact H.
Qed.

(* the reference's first component is what selects the top-level attribute *)
Lemma value_for_ref_other x n v r :
  str_eqb (ref_component r 0) n = false -> get_value_for_ref (add_attr x n v) r = get_value_for_ref x r.
Proof. intros H. unfold get_value_for_ref. rewrite top_attr_other by exact H. reflexivity. Qed.

Lemma ctx_by_kind_add c n v k : ctx_by_kind (add_attr_ctx c n v) k = option_map (fun x => add_attr x n v) (ctx_by_kind c k).
Proof.
  unfold ctx_by_kind. destruct c as [|x|l]; simpl; [reflexivity| |].
  - destruct (str_eqb (c_kind x) (norm_kind k)); reflexivity.
  - induction l as [|x l IH]; simpl; [reflexivity|]. destruct (str_eqb (c_kind x) (norm_kind k)); [reflexivity|exact IH].
Qed.

Section ExtraAttr.
Variable re_ok : str -> bool.
Variable re_match : str -> str -> bool.

(* a clause that addresses another attribute does not see the added one *)
Theorem clause_ignores_unreferenced_attribute cl c n v :
  str_eqb (ref_component (cl_attr cl) 0) n = false ->
  clause_match_noseg re_ok re_match cl (add_attr_ctx c n v) = clause_match_noseg re_ok re_match cl c.
Proof.
  intros H. unfold clause_match_noseg.
  destruct (negb (ref_defined (cl_attr cl))); [reflexivity|]. destruct (ref_has_err (cl_attr cl)); [reflexivity|].
  destruct (str_eqb (ref_string (cl_attr cl)) (s "kind")).
  - f_equal. f_equal. unfold clause_match_by_kind. destruct c as [|x|l]; simpl; try reflexivity.
    induction l as [|x l IH]; simpl; [reflexivity|]. rewrite IH. reflexivity.
  - rewrite ctx_by_kind_add. destruct (ctx_by_kind c (cl_kind cl)) as [i|]; cbn [option_map]; [|reflexivity].
    rewrite value_for_ref_other by exact H. reflexivity.
Qed.

(* a rollout or weighted segment rule that buckets by another attribute (or by key) does not see it either *)
Theorem bucket_ignores_unreferenced_attribute sec c isexp seed kind key attr salt n v :
  str_eqb (ref_component attr 0) n = false -> str_eqb (s "key") n = false ->
  compute_bucket sec (add_attr_ctx c n v) isexp seed kind key attr salt = compute_bucket sec c isexp seed kind key attr salt.
Proof.
  intros H Hk. unfold compute_bucket.
  destruct (isexp || negb (ref_defined attr)).
  - rewrite ctx_by_kind_add. destruct (ctx_by_kind c kind) as [i|]; cbn [option_map]; [|reflexivity].
    rewrite value_for_ref_other by (cbn; exact Hk). reflexivity.
  - destruct (ref_has_err attr); [reflexivity|].
    rewrite ctx_by_kind_add. destruct (ctx_by_kind c kind) as [i|]; cbn [option_map]; [|reflexivity].
    rewrite value_for_ref_other by exact H. reflexivity.
Qed.

(* targets only read keys *)
Theorem target_ignores_attributes c n v t : target_match (add_attr_ctx c n v) t = target_match c t.
Proof. unfold target_match. rewrite ctx_by_kind_add. destruct (ctx_by_kind c (t_kind t)); reflexivity. Qed.

(* ---------------- reordering values inside a clause (plain form) ---------------- *)
(* operator on one pair of values, without reference to the position of the clause value *)
Definition op_on_values (c : clause) (cv clv : jv) : bool :=
  let op := cl_op c in
  if str_eqb op op_ends then string_op (fun a b => is_suffix b a) cv clv
  else if str_eqb op op_starts then string_op (fun a b => is_prefix b a) cv clv
  else if str_eqb op op_matches then
    match cv with JStr subject => match value_to_regex re_ok clv with Some p => re_match p subject | None => false end | _ => false end
  else if str_eqb op op_contains then string_op (fun a b => is_infix b a) cv clv
  else if str_eqb op op_lt then numeric_op dy_ltb cv clv
  else if str_eqb op op_le then numeric_op dy_leb cv clv
  else if str_eqb op op_gt then numeric_op (fun a b => dy_ltb b a) cv clv
  else if str_eqb op op_ge then numeric_op (fun a b => dy_leb b a) cv clv
  else if str_eqb op op_before then match value_to_time clv, value_to_time cv with Some t, Some u => u <? t | _, _ => false end
  else if str_eqb op op_after then match value_to_time clv, value_to_time cv with Some t, Some u => t <? u | _, _ => false end
  else if str_eqb op op_sv_eq then match value_to_semver clv, value_to_semver cv with Some t, Some u => semver_cmp u t =? 0 | _, _ => false end
  else if str_eqb op op_sv_lt then match value_to_semver clv, value_to_semver cv with Some t, Some u => semver_cmp u t =? -1 | _, _ => false end
  else if str_eqb op op_sv_gt then match value_to_semver clv, value_to_semver cv with Some t, Some u => semver_cmp u t =? 1 | _, _ => false end
  else false.

Lemma do_op_plain c cv clv i :
  cl_pre c = cpre_none -> nth_opt (cl_values c) i = Some clv ->
  do_op re_ok re_match c cv clv i = op_on_values c cv clv.
Proof.
  intros Hp Hn. unfold do_op, op_on_values, clause_regex, date_op, semver_op, clause_time, clause_semver. rewrite Hp. simpl. rewrite Hn.
  repeat match goal with |- context [if ?b then _ else _] => destruct b; [reflexivity|] end. reflexivity.
Qed.

Lemma any_op_plain c cv : cl_pre c = cpre_none ->
  forall vals i, (forall k v, nth_opt vals k = Some v -> nth_opt (cl_values c) (i + k) = Some v) ->
  any_op re_ok re_match c cv vals i = existsb (op_on_values c cv) vals.
Proof.
  intros Hp. induction vals as [|v r IH]; intros i H; simpl; [reflexivity|].
  rewrite (do_op_plain c cv v i Hp) by (specialize (H O v eq_refl); rewrite Nat.add_0_r in H; exact H).
  rewrite IH; [reflexivity|]. intros k w Hk. specialize (H (S k) w Hk). rewrite <- Nat.add_succ_comm in H. exact H.
Qed.

Lemma match_any_plain c cv : cl_pre c = cpre_none ->
  match_any re_ok re_match c cv =
  if str_eqb (cl_op c) op_in then is_prim cv && existsb (prim_eqb cv) (cl_values c)
  else existsb (op_on_values c cv) (cl_values c).
Proof.
  intros Hp. unfold match_any. destruct (str_eqb (cl_op c) op_in).
  - unfold clause_find_value. rewrite Hp. simpl. destruct (is_prim cv); reflexivity.
  - apply any_op_plain; [exact Hp|]. intros k v H. exact H.
Qed.

Lemma existsb_ext {A} (p q : A -> bool) l : (forall x, p x = q x) -> existsb p l = existsb q l.
Proof. intros H. induction l as [|x l IH]; simpl; [reflexivity|]. rewrite H, IH. reflexivity. Qed.

Lemma existsb_perm {A} (p : A -> bool) l l' : Permutation l l' -> existsb p l = existsb p l'.
Proof.
  intros H. induction H; simpl; auto.
  - rewrite IHPermutation. reflexivity.
  - destruct (p x), (p y); reflexivity.
  - congruence.
Qed.

Definition with_values (c : clause) (vals : list jv) : clause :=
  mkclause (cl_kind c) (cl_attr c) (cl_op c) vals (cl_negate c) cpre_none.

(* reordering the values of a (plain, non-segment) clause never changes what it matches *)
Theorem clause_values_order_irrelevant c vals' x :
  cl_pre c = cpre_none -> Permutation (cl_values c) vals' ->
  clause_match_noseg re_ok re_match (with_values c vals') x = clause_match_noseg re_ok re_match c x.
Proof.
  intros Hp Hperm.
  assert (Hm : forall cv, match_any re_ok re_match (with_values c vals') cv = match_any re_ok re_match c cv).
  { intros cv. rewrite !match_any_plain by (assumption || reflexivity). simpl.
    destruct (str_eqb (cl_op c) op_in).
    - f_equal. symmetry. apply existsb_perm. exact Hperm.
    - symmetry. erewrite existsb_perm by exact Hperm. apply existsb_ext. intros v. reflexivity. }
  unfold clause_match_noseg. simpl.
  destruct (negb (ref_defined (cl_attr c))); [reflexivity|]. destruct (ref_has_err (cl_attr c)); [reflexivity|].
  destruct (str_eqb (ref_string (cl_attr c)) (s "kind")).
  - f_equal. f_equal. unfold clause_match_by_kind. destruct x as [|i|l]; try reflexivity; [apply Hm|].
    apply existsb_ext. intros i. apply Hm.
  - destruct (ctx_by_kind x (cl_kind c)) as [i|]; [|reflexivity].
    destruct (get_value_for_ref i (cl_attr c)); try reflexivity; try (rewrite Hm; reflexivity).
    f_equal. f_equal. apply existsb_ext. intros v. apply Hm.
Qed.

(* reordering keys inside a target list *)
Theorem target_keys_order_irrelevant c t vals' :
  t_pre t = None -> Permutation (t_values t) vals' ->
  target_match c (mktarget (t_kind t) vals' (t_var t) None) = target_match c t.
Proof.
  intros Hp Hperm. unfold target_match. simpl. rewrite Hp. destruct (ctx_by_kind c (t_kind t)) as [i|]; [|reflexivity].
  unfold find_key, mem_str. rewrite (existsb_perm _ _ _ Hperm). reflexivity.
Qed.

End ExtraAttr.

(* ---------------- well-formed clauses of a rule may be reordered ---------------- *)
Lemma all_clauses_no_error (cm : clause -> res (er bool)) cls :
  (forall cl, In cl cls -> exists b, cm cl = Done (Ok b)) ->
  p_all_clauses cm cls = Done (Ok (forallb (fun cl => match cm cl with Done (Ok b) => b | _ => false end) cls)).
Proof.
  induction cls as [|cl r IH]; intros H; simpl; [reflexivity|].
  destruct (H cl (or_introl eq_refl)) as [b Hb]. rewrite Hb. simpl. destruct b; [|reflexivity].
  apply IH. intros cl' Hin. apply H. right. exact Hin.
Qed.

Lemma forallb_perm {A} (p : A -> bool) l l' : Permutation l l' -> forallb p l = forallb p l'.
Proof.
  intros H. induction H; simpl; auto.
  - rewrite IHPermutation. reflexivity.
  - destruct (p x), (p y); reflexivity.
  - congruence.
Qed.

Theorem clause_order_irrelevant (cm : clause -> res (er bool)) cls cls' :
  (forall cl, In cl cls -> exists b, cm cl = Done (Ok b)) -> Permutation cls cls' ->
  p_all_clauses cm cls' = p_all_clauses cm cls.
Proof.
  intros H Hperm. rewrite !all_clauses_no_error.
  - f_equal. f_equal. symmetry. apply forallb_perm. exact Hperm.
  - exact H.
  - intros cl Hin. apply H. apply Permutation_sym in Hperm. eapply Permutation_in; eauto.
Qed.

(* ---------------- rules after the deciding one; a dead rule before it ---------------- *)
Lemma first_decided_app {A B} (step : A -> res (option B)) l l' d d' b :
  (exists pre x post, l = pre ++ x :: post /\ Forall (fun y => step y = Done None) pre /\ step x = Done (Some b)) ->
  first_decided step (l ++ l') d' = first_decided step l d.
Proof.
  intros [pre [x [post [Hl [Hp Hx]]]]]. subst l. rewrite <- app_assoc. simpl.
  rewrite !(first_decided_intro step pre x _ _ b Hp Hx). reflexivity.
Qed.

Lemma indexed_app {A} (l l' : list A) i : indexed i (l ++ l') = indexed i l ++ indexed (i + zlen l) l'.
Proof.
  revert i. induction l as [|x l IH]; intros i; simpl.
  - unfold zlen. simpl. rewrite Z.add_0_r. reflexivity.
  - rewrite IH.
    assert (Hz : zlen (x :: l) = zlen l + 1) by (unfold zlen; simpl List.length; lia).
    rewrite Hz. replace (i + (zlen l + 1)) with (i + 1 + zlen l) by lia. reflexivity.
Qed.

Section Rules.
Variable re_ok : str -> bool.
Variable re_match : str -> str -> bool.
Variable o : opts.
Variable E : env.
Variable c : ctx.

(* when some rule of the list decides (matches, or fails), rules appended after the list change nothing *)
Theorem appended_rules_irrelevant segc f rs extra r :
  (exists pre x post, indexed 0 rs = pre ++ x :: post /\
      Forall (fun y => rule_step re_ok re_match o E c segc f y = Done None) pre /\
      rule_step re_ok re_match o E c segc f x = Done (Some r)) ->
  p_rules re_ok re_match o E c segc f (rs ++ extra) 0 = p_rules re_ok re_match o E c segc f rs 0.
Proof.
  intros H. rewrite !p_rules_first. rewrite indexed_app. eapply first_decided_app. exact H.
Qed.

(* a rule that cannot match: one clause over the key with no values *)
Definition shift_reason (r : reason) : reason :=
  match rs_kind r with RRule i id => mkreason (RRule (i + 1) id) (rs_inexp r) (rs_bigseg r) | _ => r end.
Definition shift_detail (d : detail) : detail := mkdetail (d_value d) (d_index d) (shift_reason (d_reason d)).
Definition shift_result (r : res (detail * bool)) : res (detail * bool) :=
  match r with Done (d, ok) => Done (shift_detail d, ok) | Panic => Panic | OutOfFuel => OutOfFuel end.

Lemma p_get_variation_shift f v r : p_get_variation f v (shift_reason r) = shift_detail (p_get_variation f v r).
Proof. unfold p_get_variation. destruct (znth_opt _ _); reflexivity. Qed.

Lemma p_vr_detail_rule_shift f vr i id :
  p_vr_detail o c f vr (plain_reason (RRule (i + 1) id)) =
  match p_vr_detail o c f vr (plain_reason (RRule i id)) with Done d => Done (shift_detail d) | Panic => Panic | OutOfFuel => OutOfFuel end.
Proof.
  unfold p_vr_detail. destruct (vr_result o c vr (f_key f) (f_salt f)) as [[[v b]|e]| |]; try reflexivity.
  destruct b; unfold p_get_variation; destruct (znth_opt _ _); reflexivity.
Qed.

Lemma shift_fallthrough f :
  match p_vr_detail o c f (f_fallthrough f) (plain_reason RFallthrough) with Done d => Done (shift_detail d) | Panic => Panic | OutOfFuel => OutOfFuel end
  = p_vr_detail o c f (f_fallthrough f) (plain_reason RFallthrough).
Proof.
  unfold p_vr_detail. destruct (vr_result o c (f_fallthrough f) (f_key f) (f_salt f)) as [[[v b]|e]| |]; try reflexivity.
  destruct b; unfold p_get_variation; destruct (znth_opt _ _); reflexivity.
Qed.

(* evaluating the same rules one position later only shifts the reported rule index *)
Lemma p_rules_shift segc f rs i :
  p_rules re_ok re_match o E c segc f rs (i + 1) = shift_result (p_rules re_ok re_match o E c segc f rs i).
Proof.
  revert i. induction rs as [|ru rest IH]; intros i; cbn [p_rules].
  - pose proof (shift_fallthrough f) as H. destruct (p_vr_detail o c f (f_fallthrough f) (plain_reason RFallthrough)) as [d| |]; simpl in *; try reflexivity.
    injection H as H1. congruence.
  - destruct (p_all_clauses _ _) as [[[|]|e]| |]; simpl; try reflexivity.
    + rewrite p_vr_detail_rule_shift. destruct (p_vr_detail o c f (ru_vr ru) _) as [d| |]; reflexivity.
    + apply IH.
Qed.

(* inserting a never-matching rule before the rules changes only the reported rule index *)
Theorem dead_rule_only_shifts_index segc f dead rs :
  p_all_clauses (p_clause re_ok re_match E c segc) (ru_clauses dead) = Done (Ok false) ->
  p_rules re_ok re_match o E c segc f (dead :: rs) 0 = shift_result (p_rules re_ok re_match o E c segc f rs 0).
Proof. intros H. cbn [p_rules]. rewrite H. simpl. apply (p_rules_shift segc f rs 0). Qed.

End Rules.

(* The logger and the recorder are pure observers: two evaluators that differ only in having a logger / a recorder
   compute the same results and the same trace, log lines and events aside (C09 recorder optional, C19 logger
   transparent). *)
From LD Require Import Base F32 Data Semver Model Ops Bucket Eval EvalFacts Safety WellFormed.
Open Scope Z_scope.

(* [kl] = keep log lines: with [kl = false] both log lines and events are observers (stripped before comparing); with
   [kl = true] only events are, and the two evaluators must then agree on having a logger. *)
Section Strip.
Variable kl : bool.
Definition observer (x : obs) : bool := match x with OLog _ _ => negb kl | OEvent _ => true | _ => false end.
Definition stripg (tr : list obs) : list obs := filter (fun x => negb (observer x)) tr.
Notation strip := stripg.

Definition R (s1 s2 : st) : Prop :=
  s_cache s1 = s_cache s2 /\ s_status s1 = s_status s2 /\ strip (s_trace s1) = strip (s_trace s2).

Definition rel {A} (m1 m2 : M A) : Prop := forall s1 s2, R s1 s2 -> fst (m1 s1) = fst (m2 s2) /\ R (snd (m1 s1)) (snd (m2 s2)).

Lemma rel_ret {A} (a : A) : rel (ret a) (ret a).
Proof. intros s1 s2 H. split; [reflexivity|exact H]. Qed.
Lemma rel_fail1 {A} : rel (@out_of_fuel A) (@out_of_fuel A).
Proof. intros s1 s2 H. split; [reflexivity|exact H]. Qed.
Lemma rel_fail2 {A} : rel (@panic A) (@panic A).
Proof. intros s1 s2 H. split; [reflexivity|exact H]. Qed.
Lemma rel_emit x : rel (emit x) (emit x).
Proof.
  intros s1 s2 [H1 [H2 H3]]. split; [reflexivity|]. unfold R; simpl. repeat split; auto.
  unfold strip in *. simpl. destruct (negb (observer x)); [f_equal|]; exact H3.
Qed.
Lemma rel_set_status b : rel (set_status b) (set_status b).
Proof. intros s1 s2 [H1 [H2 H3]]. split; [reflexivity|]. unfold R; simpl. auto. Qed.
Lemma rel_bind {A B} (m1 m2 : M A) (f1 f2 : A -> M B) :
  rel m1 m2 -> (forall a, rel (f1 a) (f2 a)) -> rel (bind m1 f1) (bind m2 f2).
Proof.
  intros Hm Hf s1 s2 Hs. unfold bind. destruct (Hm s1 s2 Hs) as [E1 E2].
  destruct (m1 s1) as [r1 t1]. destruct (m2 s2) as [r2 t2]. simpl in *. subst r2.
  destruct r1; simpl; [apply Hf; exact E2| |]; split; auto.
Qed.
(* an observer-only step on either side *)
Lemma rel_observe (m1 m2 : M unit) :
  (forall s, fst (m1 s) = Done tt /\ s_cache (snd (m1 s)) = s_cache s /\ s_status (snd (m1 s)) = s_status s /\
             strip (s_trace (snd (m1 s))) = strip (s_trace s)) ->
  (forall s, fst (m2 s) = Done tt /\ s_cache (snd (m2 s)) = s_cache s /\ s_status (snd (m2 s)) = s_status s /\
             strip (s_trace (snd (m2 s))) = strip (s_trace s)) ->
  rel m1 m2.
Proof.
  intros H1 H2 s1 s2 [A [B C]]. destruct (H1 s1) as [a1 [b1 [c1 d1]]]. destruct (H2 s2) as [a2 [b2 [c2 d2]]].
  split; [congruence|]. unfold R. rewrite b1, b2, c1, c2, d1, d2. auto.
Qed.

Section Transparent.
Variable re_ok : str -> bool.
Variable re_match : str -> str -> bool.
Variable o1 o2 : opts.
Hypothesis same_secondary : o_secondary o1 = o_secondary o2.
Hypothesis same_logger : kl = true -> o_logger o1 = o_logger o2.
Variable E : env.
Variable P : bsprov.
Variable c : ctx.

Lemma observer_log (o : opts) k e s : kl = false ->
  fst (log o k e s) = Done tt /\ s_cache (snd (log o k e s)) = s_cache s /\ s_status (snd (log o k e s)) = s_status s /\
  strip (s_trace (snd (log o k e s))) = strip (s_trace s).
Proof. intros Hk. unfold log, stripg. destruct (o_logger o); simpl; rewrite ?Hk; simpl; auto. Qed.

Lemma rel_log k e : rel (log o1 k e) (log o2 k e).
Proof.
  destruct kl eqn:Hk; [|apply rel_observe; intros s; apply observer_log; exact Hk].
  unfold log. rewrite (same_logger eq_refl). destruct (o_logger o2); [apply rel_emit|apply rel_ret].
Qed.

Lemma rel_membership_for k : rel (membership_for P k) (membership_for P k).
Proof.
  intros s1 s2 [H1 [H2 H3]]. unfold membership_for. rewrite H1.
  destruct (assoc k (s_cache s2)); [split; [reflexivity|unfold R; auto]|].
  destruct P as [prov|]; simpl; (split; [reflexivity|]); unfold R; simpl; rewrite ?H1, ?H2; repeat split; auto.
  unfold strip in *. simpl. f_equal. exact H3.
Qed.

Lemma rel_first_clause cm1 cm2 cls : (forall cl, rel (cm1 cl) (cm2 cl)) -> rel (first_clause cm1 cls) (first_clause cm2 cls).
Proof.
  intros H. induction cls as [|cl r IH]; simpl; [apply rel_ret|].
  apply rel_bind; [apply H|]. intros [[|]|e]; try apply rel_ret. exact IH.
Qed.
Lemma rel_seg_match_values sc1 sc2 neg vals :
  (forall sg, rel (sc1 sg) (sc2 sg)) -> rel (seg_match_values E sc1 neg vals) (seg_match_values E sc2 neg vals).
Proof.
  intros H. induction vals as [|v r IH]; simpl; [apply rel_ret|]. destruct v; try exact IH.
  apply rel_bind; [apply rel_emit|]. intros _. destruct (assoc x (e_segments E)); [|exact IH].
  apply rel_bind; [apply H|]. intros [[|]|e]; try apply rel_ret. exact IH.
Qed.
Lemma rel_clause_match sc1 sc2 cl :
  (forall sg, rel (sc1 sg) (sc2 sg)) -> rel (clause_match re_ok re_match E c sc1 cl) (clause_match re_ok re_match E c sc2 cl).
Proof. intros H. unfold clause_match. destruct (str_eqb _ _); [apply rel_seg_match_values; exact H|apply rel_ret]. Qed.
Lemma rel_seg_rule_match sc1 sc2 sg r :
  (forall sg, rel (sc1 sg) (sc2 sg)) ->
  rel (seg_rule_match re_ok re_match o1 E c sc1 sg r) (seg_rule_match re_ok re_match o2 E c sc2 sg r).
Proof.
  intros H. unfold seg_rule_match. rewrite same_secondary. apply rel_bind.
  - apply rel_first_clause. intros cl. apply rel_clause_match. exact H.
  - intros [[|]|e]; try apply rel_ret. destruct (sr_weight r); [|apply rel_ret].
    destruct (compute_bucket _ _ _ _ _ _ _ _) as [[b []]|e]; apply rel_ret.
Qed.
Lemma rel_seg_rules rm1 rm2 key rs : (forall r, rel (rm1 r) (rm2 r)) -> rel (seg_rules rm1 key rs) (seg_rules rm2 key rs).
Proof.
  intros H. induction rs as [|r rest IH]; simpl; [apply rel_ret|].
  apply rel_bind; [apply H|]. intros [[|]|e]; try apply rel_ret. exact IH.
Qed.

Lemma rel_seg_contains : forall fuel chain sg,
  rel (seg_contains re_ok re_match o1 E P c fuel chain sg) (seg_contains re_ok re_match o2 E P c fuel chain sg).
Proof.
  induction fuel as [|n IH]; intros chain sg; cbn [seg_contains]; [apply rel_fail1|].
  destruct (mem_str (sg_key sg) chain); [apply rel_ret|].
  apply rel_bind.
  - destruct (sg_unbounded sg); [|apply rel_ret].
    destruct (sg_generation sg).
    + destruct (ctx_key_by_kind c (sg_unb_kind sg)).
      * apply rel_bind; [apply rel_emit|]. intros _. apply rel_bind; [apply rel_membership_for|].
        intros [m|]; [apply rel_bind; [apply rel_emit|intros; apply rel_ret]|apply rel_ret].
      * apply rel_bind; [apply rel_emit|intros; apply rel_ret].
    + apply rel_bind; [apply rel_emit|]. intros _. apply rel_bind; [apply rel_set_status|intros; apply rel_ret].
  - intros [b|]; [apply rel_ret|].
    apply rel_seg_rules. intros r. apply rel_seg_rule_match. intros sg'. apply IH.
Qed.

Lemma rel_get_variation f i r : rel (get_variation o1 f i r) (get_variation o2 f i r).
Proof. unfold get_variation. destruct (znth_opt _ _); [apply rel_ret|]. apply rel_bind; [apply rel_log|intros; apply rel_ret]. Qed.
Lemma rel_off_value f r : rel (off_value o1 f r) (off_value o2 f r).
Proof. unfold off_value. destruct (f_off f); [apply rel_get_variation|apply rel_ret]. Qed.

Lemma vr_result_same vr key salt : vr_result o1 c vr key salt = vr_result o2 c vr key salt.
Proof. unfold vr_result. rewrite same_secondary. reflexivity. Qed.

Lemma rel_vr_detail f vr r : rel (vr_detail o1 c f vr r) (vr_detail o2 c f vr r).
Proof.
  unfold vr_detail. rewrite vr_result_same. destruct (vr_result o2 c vr (f_key f) (f_salt f)) as [[[i b]|e]| |].
  - apply rel_get_variation.
  - apply rel_bind; [apply rel_log|intros; apply rel_ret].
  - apply rel_fail2.
  - apply rel_fail1.
Qed.

Lemma rel_rules_loop sc1 sc2 f rs i :
  (forall sg, rel (sc1 sg) (sc2 sg)) ->
  rel (rules_loop re_ok re_match o1 E c sc1 f rs i) (rules_loop re_ok re_match o2 E c sc2 f rs i).
Proof.
  intros H. revert i. induction rs as [|ru rest IH]; intros i; cbn [rules_loop].
  - apply rel_bind; [apply rel_vr_detail|intros; apply rel_ret].
  - apply rel_bind; [apply rel_first_clause; intros cl; apply rel_clause_match; exact H|].
    intros [[|]|e].
    + apply rel_bind; [apply rel_vr_detail|intros; apply rel_ret].
    + apply IH.
    + apply rel_bind; [apply rel_log|intros; apply rel_ret].
Qed.

Lemma observer_event (o : opts) ev s :
  let m := (if o_recorder o then emit (OEvent ev) else ret tt) in
  fst (m s) = Done tt /\ s_cache (snd (m s)) = s_cache s /\ s_status (snd (m s)) = s_status s /\
  strip (s_trace (snd (m s))) = strip (s_trace s).
Proof. destruct (o_recorder o); simpl; auto. Qed.

Lemma rel_prereq_loop ev1 ev2 f chain' ps :
  (forall pf, rel (ev1 pf) (ev2 pf)) -> rel (prereq_loop o1 E ev1 f chain' ps) (prereq_loop o2 E ev2 f chain' ps).
Proof.
  intros H. induction ps as [|p rest IH]; cbn [prereq_loop]; [apply rel_ret|].
  apply rel_bind; [apply rel_emit|]. intros _.
  destruct (assoc (pq_key p) (e_flags E)) as [pf|]; [|apply rel_ret].
  destruct (mem_str (f_key pf) chain').
  - apply rel_bind; [apply rel_log|intros; apply rel_ret].
  - apply rel_bind; [apply H|]. intros [d ok]. destruct (negb ok); [apply rel_ret|].
    apply rel_bind.
    + apply rel_observe; intros s; apply observer_event.
    + intros _. destruct (_ || _); [apply rel_ret|exact IH].
Qed.

Theorem rel_eval_flag : forall fuel chain f,
  rel (eval_flag re_ok re_match o1 E P c fuel chain f) (eval_flag re_ok re_match o2 E P c fuel chain f).
Proof.
  induction fuel as [|n IH]; intros chain f; cbn [eval_flag]; [apply rel_fail1|].
  destruct (negb (f_on f)); [apply rel_bind; [apply rel_off_value|intros; apply rel_ret]|].
  apply rel_bind.
  - destruct (f_prereqs f) as [|p ps]; [apply rel_ret|].
    change (rel (prereq_loop o1 E (eval_flag re_ok re_match o1 E P c n (chain ++ [f_key f])) f (chain ++ [f_key f]) (p :: ps))
                (prereq_loop o2 E (eval_flag re_ok re_match o2 E P c n (chain ++ [f_key f])) f (chain ++ [f_key f]) (p :: ps))).
    apply rel_prereq_loop. intros pf. apply IH.
  - intros [|k|].
    + destruct (any_target_match c f); [apply rel_bind; [apply rel_get_variation|intros; apply rel_ret]|].
      apply rel_rules_loop. intros sg. apply rel_seg_contains.
    + apply rel_bind; [apply rel_off_value|intros; apply rel_ret].
    + apply rel_ret.
Qed.

End Transparent.

Lemma strip_rev tr : strip (rev tr) = rev (strip tr).
Proof.
  unfold stripg. induction tr as [|x tr IH]; simpl; [reflexivity|]. rewrite filter_app, IH. simpl.
  destruct (negb (observer x)); simpl; [reflexivity|rewrite app_nil_r; reflexivity].
Qed.

Theorem observers_are_transparent_g re_ok re_match o1 o2 E P c f out1 :
  o_secondary o1 = o_secondary o2 -> (kl = true -> o_logger o1 = o_logger o2) ->
  run re_ok re_match o1 E P c f = Done out1 ->
  exists out2, run re_ok re_match o2 E P c f = Done out2 /\
               out_detail out2 = out_detail out1 /\ out_isexp out2 = out_isexp out1 /\
               strip (out_trace out2) = strip (out_trace out1).
Proof.
  intros Hs Hl Hr.
  destruct (match c with CInvalid => true | _ => false end) eqn:Hc.
  { destruct c; try discriminate. inversion Hr; subst. eexists. split; [reflexivity|auto]. }
  assert (Hn : c <> CInvalid) by (intros Hx; rewrite Hx in Hc; discriminate).
  rewrite (run_valid re_ok re_match o1 E P c f Hn) in Hr. rewrite (run_valid re_ok re_match o2 E P c f Hn). unfold finish in *.
  assert (HR0 : R st0 st0) by (unfold R; auto).
  destruct (rel_eval_flag re_ok re_match o1 o2 Hs Hl E P c (flag_fuel E) [] f st0 st0 HR0) as [E1 [E2 [E3 E4]]].
  destruct (eval_flag re_ok re_match o1 E P c (flag_fuel E) [] f st0) as [r1 s1].
  destruct (eval_flag re_ok re_match o2 E P c (flag_fuel E) [] f st0) as [r2 s2]. simpl in *. subst r2.
  destruct r1 as [[d b]| |]; try discriminate. inversion Hr; subst. rewrite <- E3.
  eexists. split; [reflexivity|]. cbn [out_detail out_isexp out_trace]. split; [reflexivity|]. split; [reflexivity|].
  rewrite !strip_rev. f_equal. symmetry. exact E4.
Qed.
End Strip.

Notation strip := (stripg false).
(* events aside: what is left includes every log line *)
Notation strip_events := (stripg true).

(* same result, same experiment bit, same trace apart from log lines and events *)
Theorem observers_are_transparent re_ok re_match o1 o2 E P c f out1 :
  o_secondary o1 = o_secondary o2 ->
  run re_ok re_match o1 E P c f = Done out1 ->
  exists out2, run re_ok re_match o2 E P c f = Done out2 /\
               out_detail out2 = out_detail out1 /\ out_isexp out2 = out_isexp out1 /\
               strip (out_trace out2) = strip (out_trace out1).
Proof. intros Hs. apply observers_are_transparent_g; [exact Hs|discriminate]. Qed.

(* with the same logger, a recorder changes nothing but the events: the log lines are the same, in the same order *)
Theorem recorder_keeps_log_lines re_ok re_match o1 o2 E P c f out1 :
  o_secondary o1 = o_secondary o2 -> o_logger o1 = o_logger o2 ->
  run re_ok re_match o1 E P c f = Done out1 ->
  exists out2, run re_ok re_match o2 E P c f = Done out2 /\
               out_detail out2 = out_detail out1 /\ out_isexp out2 = out_isexp out1 /\
               strip_events (out_trace out2) = strip_events (out_trace out1).
Proof. intros Hs Hl. apply observers_are_transparent_g; [exact Hs|intros _; exact Hl]. Qed.

Lemma in_strip_events_log k e tr : In (OLog k e) tr <-> In (OLog k e) (strip_events tr).
Proof. unfold stripg. rewrite filter_In. simpl. tauto. Qed.

(* C17: an omitted property equals its default. For every object the decoder reads and every property that has a
   default, a document that spells the default out decodes exactly like the document without the property (names pairwise
   distinct). By the permutation theorem the property can be moved to the front, where reading the default over the
   initial value is the identity. *)
From LD Require Import Base F32 Data Semver Model Ops Codec CodecFacts PermDecode.
From Coq Require Import Permutation.
Open Scope Z_scope.

Definition zero : jv := jint 0.
Definition flag_defaults : list (str * jv) :=
  [(s "key", JStr []); (s "on", JBool false); (s "prerequisites", JArr []); (s "prerequisites", JNull);
   (s "targets", JArr []); (s "targets", JNull); (s "contextTargets", JArr []); (s "contextTargets", JNull);
   (s "rules", JArr []); (s "rules", JNull); (s "fallthrough", JObj []); (s "offVariation", JNull);
   (s "variations", JArr []); (s "variations", JNull); (s "clientSide", JBool false); (s "salt", JStr []);
   (s "trackEvents", JBool false); (s "trackEventsFallthrough", JBool false);
   (s "debugEventsUntilDate", JNull); (s "debugEventsUntilDate", zero);
   (s "version", zero); (s "deleted", JBool false); (s "excludeFromSummaries", JBool false)].
Definition segment_defaults : list (str * jv) :=
  [(s "key", JStr []); (s "version", zero); (s "generation", JNull); (s "deleted", JBool false);
   (s "included", JArr []); (s "included", JNull); (s "excluded", JArr []); (s "excluded", JNull);
   (s "includedContexts", JArr []); (s "includedContexts", JNull); (s "excludedContexts", JArr []); (s "excludedContexts", JNull);
   (s "rules", JArr []); (s "rules", JNull); (s "salt", JStr []); (s "unbounded", JBool false); (s "unboundedContextKind", JStr [])].
Definition rule_defaults : list (str * jv) :=
  [(s "id", JStr []); (s "clauses", JArr []); (s "clauses", JNull); (s "trackEvents", JBool false); (s "variation", JNull); (s "rollout", JNull)].
Definition clause_defaults : list (str * jv) :=
  [(s "contextKind", JStr []); (s "attribute", JStr []); (s "attribute", JNull); (s "op", JStr []); (s "values", JArr []); (s "values", JNull);
   (s "negate", JBool false)].
Definition target_defaults : list (str * jv) :=
  [(s "contextKind", JStr []); (s "values", JArr []); (s "values", JNull); (s "variation", zero)].
Definition prereq_defaults : list (str * jv) := [(s "key", JStr []); (s "variation", zero)].
Definition wvar_defaults : list (str * jv) := [(s "variation", zero); (s "weight", zero); (s "untracked", JBool false)].
Definition segrule_defaults : list (str * jv) :=
  [(s "id", JStr []); (s "clauses", JArr []); (s "clauses", JNull); (s "weight", JNull); (s "bucketBy", JStr []); (s "bucketBy", JNull);
   (s "rolloutContextKind", JStr [])].
Definition segtarget_defaults : list (str * jv) := [(s "contextKind", JStr []); (s "values", JArr []); (s "values", JNull)].

Ltac each_default Hin :=
  simpl in Hin;
  repeat match type of Hin with
  | _ \/ _ => destruct Hin as [Hin|Hin]
  | False => destruct Hin
  end; inversion Hin; subst; reflexivity.

Section D.
Variables (pre post : list (str * jv)) (k : str) (d : jv).
Hypothesis HN : NoDup (map fst (pre ++ (k, d) :: post)).

Lemma to_front : Permutation (pre ++ (k, d) :: post) ((k, d) :: pre ++ post).
Proof. apply Permutation_sym, Permutation_middle. Qed.

Theorem default_flag : In (k, d) flag_defaults ->
  decode_flag (JObj (pre ++ (k, d) :: post)) = decode_flag (JObj (pre ++ post)).
Proof. intros Hin. rewrite (perm_flag _ _ to_front HN). each_default Hin. Qed.
Theorem default_segment : In (k, d) segment_defaults ->
  decode_segment (JObj (pre ++ (k, d) :: post)) = decode_segment (JObj (pre ++ post)).
Proof. intros Hin. rewrite (perm_segment _ _ to_front HN). each_default Hin. Qed.
Theorem default_rule : In (k, d) rule_defaults -> rd_rule (JObj (pre ++ (k, d) :: post)) = rd_rule (JObj (pre ++ post)).
Proof. intros Hin. rewrite (perm_rule _ _ to_front HN). each_default Hin. Qed.
Theorem default_clause : In (k, d) clause_defaults -> rd_clause (JObj (pre ++ (k, d) :: post)) = rd_clause (JObj (pre ++ post)).
Proof. intros Hin. rewrite (perm_clause _ _ to_front HN). each_default Hin. Qed.
Theorem default_target : In (k, d) target_defaults -> rd_target (JObj (pre ++ (k, d) :: post)) = rd_target (JObj (pre ++ post)).
Proof. intros Hin. rewrite (perm_target _ _ to_front HN). each_default Hin. Qed.
Theorem default_prereq : In (k, d) prereq_defaults -> rd_prereq (JObj (pre ++ (k, d) :: post)) = rd_prereq (JObj (pre ++ post)).
Proof. intros Hin. rewrite (perm_prereq _ _ to_front HN). each_default Hin. Qed.
Theorem default_wvar : In (k, d) wvar_defaults -> rd_wvar (JObj (pre ++ (k, d) :: post)) = rd_wvar (JObj (pre ++ post)).
Proof. intros Hin. rewrite (perm_wvar _ _ to_front HN). each_default Hin. Qed.
Theorem default_segrule : In (k, d) segrule_defaults -> rd_segrule (JObj (pre ++ (k, d) :: post)) = rd_segrule (JObj (pre ++ post)).
Proof. intros Hin. rewrite (perm_segrule _ _ to_front HN). each_default Hin. Qed.
Theorem default_segtarget : In (k, d) segtarget_defaults -> rd_segtarget (JObj (pre ++ (k, d) :: post)) = rd_segtarget (JObj (pre ++ post)).
Proof. intros Hin. rewrite (perm_segtarget _ _ to_front HN). each_default Hin. Qed.
End D.

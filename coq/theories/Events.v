(* C09 prerequisite events and C11 big-segment membership: one-step facts of the model and the reference interpreter *)
From LD Require Import Base F32 Data Semver Model Ops Bucket Eval EvalFacts Pure Order.
Open Scope Z_scope.

Section Events.
Variable re_ok : str -> bool.
Variable re_match : str -> str -> bool.
Variable o : opts.
Variable E : env.
Variable P : bsprov.
Variable c : ctx.

Definition after_lookup (st : st) (k : str) : Eval.st := mkst (s_cache st) (s_status st) (OGetFlag k :: s_trace st).

(* a missing prerequisite: PREREQUISITE_FAILED at once, nothing recorded, later prerequisites not looked at *)
Lemma prereq_missing ev f chain' p rest st :
  assoc (pq_key p) (e_flags E) = None ->
  prereq_loop o E ev f chain' (p :: rest) st = (Done (PFailed (pq_key p)), after_lookup st (pq_key p)).
Proof. intros H. cbn [prereq_loop]. unfold bind, emit. simpl. rewrite H. reflexivity. Qed.

(* a completed nested evaluation is recorded exactly once, after it finished (post-order), with the dependent's key,
   the prerequisite flag, its result, its experiment bit and its summary-exclusion setting *)
Definition event_of (f pf : flag) (d : detail) : obs :=
  OEvent (mkevent (f_key f) pf d (is_experiment pf (d_reason d)) (f_exclude pf)).

Lemma prereq_completed_recorded ev f chain' p rest pf st d st1 :
  o_recorder o = true ->
  assoc (pq_key p) (e_flags E) = Some pf -> mem_str (f_key pf) chain' = false ->
  ev pf (after_lookup st (pq_key p)) = (Done (d, true), st1) ->
  prereq_loop o E ev f chain' (p :: rest) st =
  (if prereq_met pf d (pq_var p)
   then prereq_loop o E ev f chain' rest
   else ret (PFailed (pq_key p))) (mkst (s_cache st1) (s_status st1) (event_of f pf d :: s_trace st1)).
Proof.
  intros Hrec Ha Hm He. cbn [prereq_loop]. unfold bind at 1. unfold emit at 1. cbn [fst snd].
  fold (after_lookup st (pq_key p)). rewrite Ha, Hm. unfold bind at 1. rewrite He. cbn [negb].
  unfold bind at 1. rewrite Hrec. unfold emit. cbn [fst snd]. unfold prereq_met, event_of.
  destruct (f_on pf); simpl; [|reflexivity]. destruct (d_index d) as [i|]; simpl; [|reflexivity].
  destruct (i =? pq_var p); reflexivity.
Qed.

Lemma prereq_completed_unrecorded ev f chain' p rest pf st d st1 :
  o_recorder o = false ->
  assoc (pq_key p) (e_flags E) = Some pf -> mem_str (f_key pf) chain' = false ->
  ev pf (after_lookup st (pq_key p)) = (Done (d, true), st1) ->
  prereq_loop o E ev f chain' (p :: rest) st =
  (if prereq_met pf d (pq_var p) then prereq_loop o E ev f chain' rest else ret (PFailed (pq_key p))) st1.
Proof.
  intros Hrec Ha Hm He. cbn [prereq_loop]. unfold bind at 1. unfold emit at 1. cbn [fst snd].
  fold (after_lookup st (pq_key p)). rewrite Ha, Hm. unfold bind at 1. rewrite He. cbn [negb].
  unfold bind at 1. rewrite Hrec. unfold ret at 1. cbn [fst snd]. unfold prereq_met.
  destruct (f_on pf); simpl; [|reflexivity]. destruct (d_index d) as [i|]; simpl; [|reflexivity].
  destruct (i =? pq_var p); reflexivity.
Qed.

(* nothing after the first unmet prerequisite: the remaining list is irrelevant *)
Lemma prereq_unmet_stops ev f chain' p rest rest' pf st d st1 :
  assoc (pq_key p) (e_flags E) = Some pf -> mem_str (f_key pf) chain' = false ->
  ev pf (after_lookup st (pq_key p)) = (Done (d, true), st1) -> prereq_met pf d (pq_var p) = false ->
  prereq_loop o E ev f chain' (p :: rest) st = prereq_loop o E ev f chain' (p :: rest') st.
Proof.
  intros Ha Hm He Hu. destruct (o_recorder o) eqn:Hrec.
  - rewrite !(prereq_completed_recorded ev f chain' p _ pf st d st1 Hrec Ha Hm He). rewrite Hu. reflexivity.
  - rewrite !(prereq_completed_unrecorded ev f chain' p _ pf st d st1 Hrec Ha Hm He). rewrite Hu. reflexivity.
Qed.

(* ---- C11: an unbounded segment with a generation is decided by the store's answer under <key>.g<generation> ---- *)
Lemma big_segment_ref_format sg g : big_segment_ref sg g = sg_key sg ++ s ".g" ++ dec g.
Proof. reflexivity. Qed.

Lemma p_seg_unbounded n chain sg g k :
  sg_unbounded sg = true -> mem_str (sg_key sg) chain = false -> sg_generation sg = Some g ->
  ctx_key_by_kind c (sg_unb_kind sg) = Some k ->
  p_seg re_ok re_match o E P c (S n) chain sg =
  match (match p_membership P k with Some mem => assoc (big_segment_ref sg g) mem | None => None end) with
  | Some included => Done (Ok included)
  | None => p_seg_rules (p_seg_rule re_ok re_match o E c (p_seg re_ok re_match o E P c n (chain ++ [sg_key sg])) sg)
                        (sg_key sg) (sg_rules sg)
  end.
Proof.
  intros Hu Hm Hg Hk. cbn [p_seg]. rewrite Hm. unfold p_seg_early. rewrite Hu, Hg, Hk. reflexivity.
Qed.

Lemma p_seg_no_generation n chain sg :
  sg_unbounded sg = true -> mem_str (sg_key sg) chain = false -> sg_generation sg = None ->
  p_seg re_ok re_match o E P c (S n) chain sg = Done (Ok false).
Proof. intros Hu Hm Hg. cbn [p_seg]. rewrite Hm. unfold p_seg_early. rewrite Hu, Hg. reflexivity. Qed.

Lemma p_seg_kind_absent n chain sg g :
  sg_unbounded sg = true -> mem_str (sg_key sg) chain = false -> sg_generation sg = Some g ->
  ctx_key_by_kind c (sg_unb_kind sg) = None ->
  p_seg re_ok re_match o E P c (S n) chain sg = Done (Ok false).
Proof. intros Hu Hm Hg Hk. cbn [p_seg]. rewrite Hm. unfold p_seg_early. rewrite Hu, Hg, Hk. reflexivity. Qed.

(* a context lacking the segment's kind triggers no query: the only trace entry is the ghost marker *)
Lemma seg_kind_absent_no_query n chain sg g st :
  sg_unbounded sg = true -> mem_str (sg_key sg) chain = false -> sg_generation sg = Some g ->
  ctx_key_by_kind c (sg_unb_kind sg) = None ->
  seg_contains re_ok re_match o E P c (S n) chain sg st =
  (Done (Ok false), mkst (s_cache st) (s_status st) (GUnbounded (sg_key sg) true false :: s_trace st)).
Proof. intros Hu Hm Hg Hk. cbn [seg_contains]. rewrite Hm, Hu, Hg, Hk. reflexivity. Qed.

(* a missing generation is a non-match reported as NOT_CONFIGURED *)
Lemma seg_no_generation_status n chain sg st :
  sg_unbounded sg = true -> mem_str (sg_key sg) chain = false -> sg_generation sg = None ->
  seg_contains re_ok re_match o E P c (S n) chain sg st =
  (Done (Ok false), mkst (s_cache st) (Some NotConfigured) (GUnbounded (sg_key sg) false false :: s_trace st)).
Proof. intros Hu Hm Hg. cbn [seg_contains]. rewrite Hm, Hu, Hg. reflexivity. Qed.

(* the regular included / excluded lists of an unbounded segment are ignored *)
Lemma unbounded_ignores_lists sg inc exc ic ec pi pe :
  sg_unbounded sg = true ->
  p_seg_early P c (mksegment (sg_key sg) inc exc ic ec (sg_salt sg) (sg_rules sg) (sg_unbounded sg) (sg_unb_kind sg)
                             (sg_version sg) (sg_generation sg) (sg_deleted sg) pi pe) = p_seg_early P c sg.
Proof. intros Hu. unfold p_seg_early. simpl. rewrite Hu. reflexivity. Qed.

End Events.

(* status order: NOT_CONFIGURED > STORE_ERROR > STALE > HEALTHY, and merging keeps the worst *)
Lemma merge_is_worst a b :
  merge_status (Some a) (Some b) = Some (if bs_priority b <? bs_priority a then a else b).
Proof. simpl. destruct (bs_priority b <? bs_priority a); reflexivity. Qed.
Lemma priority_order :
  bs_priority NotConfigured > bs_priority StoreError /\ bs_priority StoreError > bs_priority Stale /\
  bs_priority Stale > bs_priority Healthy.
Proof. simpl. lia. Qed.

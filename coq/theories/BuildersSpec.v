(* What a sequence of builder calls builds, and that a builder value made of valid parts is returned exactly by
   decode (encode v) (C15). *)
From LD Require Import Base F32 Data Model Ops Codec CodecFacts CodecRT Builders.
Open Scope Z_scope.

(* ---- the call sequence ---- *)
Theorem intermediate_build_is_invisible key l1 l2 : fb_build key (l1 ++ FBuild :: l2) = fb_build key (l1 ++ l2).
Proof. unfold fb_build. rewrite !fold_left_app. reflexivity. Qed.
Theorem intermediate_segment_build_is_invisible key l1 l2 : sb_build key (l1 ++ SBuild :: l2) = sb_build key (l1 ++ l2).
Proof. unfold sb_build. rewrite !fold_left_app. reflexivity. Qed.

Lemma fb_build_snoc key l o : fb_build key (l ++ [o]) = fb_apply (fb_build key l) o.
Proof. unfold fb_build. rewrite fold_left_app. reflexivity. Qed.
Lemma sb_build_snoc key l o : sb_build key (l ++ [o]) = sb_apply (sb_build key l) o.
Proof. unfold sb_build. rewrite fold_left_app. reflexivity. Qed.

(* the Add* calls append, in call order, and touch nothing else of their list *)
Theorem add_calls_append key l :
  (forall k v, f_prereqs (fb_build key (l ++ [FAddPrereq k v])) = f_prereqs (fb_build key l) ++ [mkprereq k v]) /\
  (forall v ks, f_targets (fb_build key (l ++ [FAddTarget v ks])) = f_targets (fb_build key l) ++ [mktarget [] ks v None]) /\
  (forall kd v ks, f_ctargets (fb_build key (l ++ [FAddCtxTarget kd v ks])) = f_ctargets (fb_build key l) ++ [mktarget kd ks v None]) /\
  (forall ops, f_rules (fb_build key (l ++ [FAddRule ops])) = f_rules (fb_build key l) ++ [rb_build ops]).
Proof. repeat split; intros; rewrite fb_build_snoc; reflexivity. Qed.

(* a setter decides its field whatever was called before *)
Theorem setters_overwrite key l :
  (forall b, f_on (fb_build key (l ++ [FOn b])) = b) /\
  (forall x, f_salt (fb_build key (l ++ [FSalt x])) = x) /\
  (forall v, f_off (fb_build key (l ++ [FOffVar v])) = Some v) /\
  (forall vs, f_vars (fb_build key (l ++ [FVars vs])) = vs) /\
  (forall vr, f_fallthrough (fb_build key (l ++ [FFallthrough vr])) = vr) /\
  (forall z, fm_version (f_meta (fb_build key (l ++ [FVersion z]))) = z).
Proof. repeat split; intros; rewrite fb_build_snoc; reflexivity. Qed.

(* SingleVariation(v) = Variations(v).OffVariation(0).On(false) *)
Theorem single_variation_is_three_calls key l v :
  fb_build key (l ++ [FSingleVar v]) = fb_build key (l ++ [FVars [v]; FOffVar 0; FOn false]).
Proof. unfold fb_build. rewrite !fold_left_app. reflexivity. Qed.

(* a segment rule builder: BucketBy takes a name, BucketByRef a reference *)
Theorem bucket_by_name_is_literal l a : sr_bucket_by (srb_build (l ++ [SRBucketBy a])) = new_literal_ref a.
Proof. unfold srb_build. rewrite fold_left_app. reflexivity. Qed.
(* the order of Unbounded and UnboundedContextKind does not matter *)
Theorem unbounded_kind_order key l b k :
  sb_build key (l ++ [SUnbounded b; SUnbKind k]) = sb_build key (l ++ [SUnbKind k; SUnbounded b]).
Proof. unfold sb_build. rewrite !fold_left_app. reflexivity. Qed.

(* ---- valid parts ---- *)
Definition ok_fbop (o : fbop) : Prop :=
  match o with
  | FAddPrereq _ v | FAddTarget v _ | FAddCtxTarget _ v _ | FOffVar v | FSampling v | FVersion v => in64 v
  | FAddRule ops => wf_rule (rb_build ops) /\ canon_rule (rb_build ops) = rb_build ops
  | FDebug z => in_u64 z
  | FFallthrough vr => wf_vorr vr /\ canon_vorr vr = vr
  | FMigration cr => in64o cr
  | _ => True
  end.

Definition good (f : flag) : Prop := wf_flag f /\ canon_flag f = f.

Lemma in64o_none : in64o None.
Proof. intros z H. discriminate. Qed.

Lemma good_new key : good (fb_new key).
Proof.
  split; [|reflexivity]. unfold wf_flag. cbn.
  refine (conj (Forall_nil _) (conj (Forall_nil _) (conj (Forall_nil _) (conj (Forall_nil _) (conj _ (conj in64o_none _)))))).
  - split; [apply in64o_none|]. unfold wf_rollout. cbn. refine (conj (Forall_nil _) (conj in64o_none _)). reflexivity.
  - unfold wf_meta. cbn. refine (conj _ (conj _ (conj in64o_none _))).
    + unfold in64, two63. lia.
    + unfold in_u64, two64. lia.
    + intros cr H. discriminate.
Qed.

Lemma map_snoc_fix {A} (g : A -> A) l x : map g l = l -> g x = x -> map g (l ++ [x]) = l ++ [x].
Proof. intros H1 H2. rewrite map_app. cbn. rewrite H1, H2. reflexivity. Qed.

Lemma canon_meta_explicit m : fm_cs_explicit m = true -> canon_meta m = m.
Proof. intro H. unfold canon_meta. rewrite H. reflexivity. Qed.

Lemma good_apply f o : good f -> ok_fbop o -> good (fb_apply f o).
Proof.
  intros [W C] Ho. destruct f as [key on pre ts cts rules ft off vars salt tft excl m].
  destruct m as [ver del trk dbg mob env ex smp mig].
  destruct W as (Wp & Wt & Wc & Wr & Wf & Wo & Wm). cbn [f_prereqs f_targets f_ctargets f_rules f_fallthrough f_off f_meta] in *.
  unfold canon_flag in C. cbn [f_key f_on f_prereqs f_targets f_ctargets f_rules f_fallthrough f_off f_vars f_salt f_track_ft f_exclude f_meta] in C.
  injection C as Ct Cc Cr Cf Cm.
  destruct Wm as (Wv & Wd & Ws & Wg). cbn [fm_version fm_debug_until fm_sampling fm_migration] in *.
  assert (Hmob : ex = false -> mob = true).
  { intro E. subst ex. unfold canon_meta in Cm. cbn in Cm. congruence. }
  assert (Hcm : forall ver' del' trk' dbg' smp' mig', canon_meta (mkfmeta ver' del' trk' dbg' mob env ex smp' mig') = mkfmeta ver' del' trk' dbg' mob env ex smp' mig').
  { intros. unfold canon_meta. cbn. destruct ex; [reflexivity|]. rewrite (Hmob eq_refl). reflexivity. }
  assert (Hmeta : forall m', wf_meta m' -> canon_meta m' = m' ->
            forall pre' ts' cts' rules' ft' off' on' vars' salt' tft' excl',
              Forall wf_prereq pre' -> Forall wf_target ts' -> Forall wf_target cts' -> Forall wf_rule rules' -> wf_vorr ft' -> in64o off' ->
              map canon_target ts' = ts' -> map canon_target cts' = cts' -> map canon_rule rules' = rules' -> canon_vorr ft' = ft' ->
              good (mkflag key on' pre' ts' cts' rules' ft' off' vars' salt' tft' excl' m')).
  { intros. split; [unfold wf_flag; cbn; tauto|]. unfold canon_flag. cbn. congruence. }
  assert (Hwm : forall ver' del' trk' dbg' mob' env' ex' smp' mig',
            in64 ver' -> in_u64 dbg' -> in64o smp' -> (forall cr, mig' = Some cr -> in64o cr) ->
            wf_meta (mkfmeta ver' del' trk' dbg' mob' env' ex' smp' mig')).
  { intros. unfold wf_meta. cbn. tauto. }
  assert (Hsome : forall z, in64 z -> in64o (Some z)).
  { intros z Hz z' E. injection E as <-. exact Hz. }
  assert (Hsnoc : forall (A : Type) (Q : A -> Prop) l x, Forall Q l -> Q x -> Forall Q (l ++ [x])).
  { intros A Q l x Hl Hx. apply Forall_app. split; [exact Hl | constructor; [exact Hx | constructor]]. }
  destruct o; cbn [fb_apply set_meta f_key f_on f_prereqs f_targets f_ctargets f_rules f_fallthrough f_off f_vars f_salt f_track_ft f_exclude f_meta
                   fm_version fm_deleted fm_track_events fm_debug_until fm_cs_mobile fm_cs_env fm_cs_explicit fm_sampling fm_migration];
    cbn [ok_fbop] in Ho; apply Hmeta;
    try assumption; try apply Hcm; try (apply canon_meta_explicit; reflexivity);
    try (apply Hwm; try assumption; try (apply Hsome; exact Ho); intros cr0 Hc0; injection Hc0 as <-; exact Ho);
    try (apply Hsnoc; [assumption | first [exact Ho | apply Ho]]);
    try (apply map_snoc_fix; [assumption | first [reflexivity | apply Ho]]);
    try (apply Hsome; first [exact Ho | unfold in64, two63; lia]);
    try apply Ho.
Qed.

Theorem builder_values_are_exact key ops : Forall ok_fbop ops -> good (fb_build key ops).
Proof.
  intro H. unfold fb_build. assert (G : forall f, good f -> good (fold_left fb_apply ops f)).
  { induction H as [|o ops Ho H IH]; intros f Gf; cbn [fold_left]; [exact Gf|]. apply IH. apply good_apply; assumption. }
  apply G. apply good_new.
Qed.

(* C15 for the builders: whatever sequence of calls with valid parts, decode (encode (Build())) is the built value *)
Theorem builder_round_trip key ops : Forall ok_fbop ops ->
  decode_flag (encode_flag (fb_build key ops)) = Some (fb_build key ops).
Proof. intro H. destruct (builder_values_are_exact key ops H) as [W E]. apply builder_value_round_trip; assumption. Qed.

(* the helpers produce valid parts *)
Lemma variation_ok i : in64 i -> wf_vorr (b_variation i) /\ canon_vorr (b_variation i) = b_variation i.
Proof.
  intro H. split; [|reflexivity]. unfold wf_vorr, b_variation. cbn. split; [intros z Hz; injection Hz as <-; exact H|].
  unfold wf_rollout, rollout0. cbn. refine (conj (Forall_nil _) (conj in64o_none _)). reflexivity.
Qed.

Definition example_calls : list fbop :=
  [FOn true; FAddPrereq (s "p") 1; FAddTarget 0 [s "a"]; FBuild; FAddCtxTarget (s "org") 1 [s "b"];
   FFallthrough (b_variation 1); FCSEnv true; FVersion 3; FSampling 10; FMigration (Some 5); FOn false].
Example example_calls_are_valid_parts : Forall ok_fbop example_calls.
Proof.
  assert (H64 : forall z, -1000 <= z <= 1000 -> in64 z) by (intros; unfold in64, two63; lia).
  unfold example_calls.
  repeat (apply Forall_cons || apply Forall_nil); cbn [ok_fbop]; try exact I; try (apply H64; lia);
    try (apply variation_ok; apply H64; lia);
    try (intros z0 E; injection E as <-; apply H64; lia).
Qed.

(* ---- segments: the same for SegmentBuilder ---- *)
Definition ok_sbop (o : sbop) : Prop :=
  match o with
  | SAddRule ops => wf_segrule (srb_build ops) /\ canon_segrule (srb_build ops) = srb_build ops
  | SVersion z | SGeneration z => in64 z
  | _ => True
  end.

Definition good_seg (g : segment) : Prop := wf_segment g /\ canon_segment g = g.

Lemma good_seg_new key : good_seg (sb_new key).
Proof.
  split; [|reflexivity]. unfold wf_segment, sb_new. cbn.
  refine (conj (Forall_nil _) (conj _ in64o_none)). unfold in64, two63. lia.
Qed.

Lemma good_seg_apply g o : good_seg g -> ok_sbop o -> good_seg (sb_apply g o).
Proof.
  intros [W C] Ho. destruct g as [key inc exc ic ec salt rules unb uk ver gen del pi pe].
  destruct W as (Wr & Wv & Wg). cbn [sg_rules sg_version sg_generation] in *.
  unfold canon_segment in C.
  cbn [sg_key sg_included sg_excluded sg_inc_ctx sg_exc_ctx sg_salt sg_rules sg_unbounded sg_unb_kind sg_version sg_generation sg_deleted] in C.
  injection C as Ci Ce Cr Cpi Cpe. subst pi pe.
  assert (Hmk : forall inc' exc' ic' ec' salt' rules' unb' uk' ver' gen',
            Forall wf_segrule rules' -> in64 ver' -> in64o gen' ->
            map canon_segtarget ic' = ic' -> map canon_segtarget ec' = ec' -> map canon_segrule rules' = rules' ->
            good_seg (mksegment key inc' exc' ic' ec' salt' rules' unb' uk' ver' gen' del None None)).
  { intros. split; [unfold wf_segment; cbn; tauto|]. unfold canon_segment. cbn. congruence. }
  assert (Hsome : forall z, in64 z -> in64o (Some z)).
  { intros z Hz z' E. injection E as <-. exact Hz. }
  destruct o; cbn [sb_apply sg_key sg_included sg_excluded sg_inc_ctx sg_exc_ctx sg_salt sg_rules sg_unbounded sg_unb_kind
                   sg_version sg_generation sg_deleted sg_pre_inc sg_pre_exc];
    cbn [ok_sbop] in Ho; apply Hmk; try assumption;
    try (apply Hsome; exact Ho); try exact Ho;
    try (apply Forall_app; split; [assumption | constructor; [apply Ho | constructor]]);
    try (apply map_snoc_fix; [assumption | first [reflexivity | apply Ho]]).
Qed.

Theorem segment_builder_round_trip key ops : Forall ok_sbop ops ->
  decode_segment (encode_segment (sb_build key ops)) = Some (sb_build key ops).
Proof.
  intro H. assert (G : good_seg (sb_build key ops)).
  { unfold sb_build. assert (G0 : forall g, good_seg g -> good_seg (fold_left sb_apply ops g)).
    { induction H as [|o ops Ho H IH]; intros g Gg; cbn [fold_left]; [exact Gg|]. apply IH. apply good_seg_apply; assumption. }
    apply G0. apply good_seg_new. }
  destruct G as [W E]. rewrite (decode_encode_segment _ W). rewrite E. reflexivity.
Qed.

(* ---- rules made of valid parts: the hypothesis of ok_fbop for AddRule, call by call ---- *)
Definition ok_clause (c : clause) : Prop := wf_clause c /\ canon_clause c = c.
Definition ok_rbop (o : rbop) : Prop :=
  match o with
  | RClauses l => Forall ok_clause l
  | RVorr vr => wf_vorr vr /\ canon_vorr vr = vr
  | _ => True
  end.

Lemma map_fix_of_forall {A} (g : A -> A) (Q : A -> Prop) l : (forall x, Q x -> g x = x) -> Forall Q l -> map g l = l.
Proof. intros Hg H. induction H as [|x l Hx H IH]; cbn; [reflexivity|]. rewrite (Hg x Hx), IH. reflexivity. Qed.

Theorem rule_of_valid_parts ops : Forall ok_rbop ops -> wf_rule (rb_build ops) /\ canon_rule (rb_build ops) = rb_build ops.
Proof.
  intro H. unfold rb_build.
  assert (G : forall r, (wf_rule r /\ canon_rule r = r) -> wf_rule (fold_left rb_apply ops r) /\ canon_rule (fold_left rb_apply ops r) = fold_left rb_apply ops r).
  { induction H as [|o ops Ho H IH]; intros r Hr; cbn [fold_left]; [exact Hr|]. apply IH.
    destruct r as [vr id cls tr]. destruct Hr as [[Wv Wc] C]. unfold canon_rule in C. cbn in C. injection C as Cv Cc.
    cbn [ru_vr ru_clauses] in *.
    destruct o as [l|x|b|vr']; cbn [rb_apply ru_vr ru_id ru_clauses ru_track]; cbn [ok_rbop] in Ho.
    - split; [split; [exact Wv|]|].
      + cbn. clear -Ho. induction Ho as [|c l [Hc _] _ IHl]; constructor; assumption.
      + unfold canon_rule. cbn. rewrite Cv. f_equal. apply (map_fix_of_forall canon_clause ok_clause); [intros c [_ E]; exact E | exact Ho].
    - split; [split; assumption|]. unfold canon_rule. cbn. congruence.
    - split; [split; assumption|]. unfold canon_rule. cbn. congruence.
    - destruct Ho as [Hw Hc]. split; [split; assumption|]. unfold canon_rule. cbn. congruence. }
  apply G. unfold rule0. split; [|reflexivity]. split; [|constructor].
  cbn. split; [apply in64o_none|]. unfold wf_rollout. cbn. refine (conj (Forall_nil _) (conj in64o_none _)). reflexivity.
Qed.

(* the clause helpers give valid parts whenever the attribute name survives the wire format for the clause's kind *)
Lemma clause_helper_ok kind attr op vs : ref_rt (new_literal_ref attr) kind -> ok_clause (b_clause kind attr op vs).
Proof. intro H. split; [exact H | reflexivity]. Qed.
Lemma negate_ok c : ok_clause c -> ok_clause (b_negate c).
Proof. intros [W C]. split; [exact W|]. unfold canon_clause in *. destruct c. cbn in *. injection C as ->. reflexivity. Qed.

(* The reference interpreter: evaluation as a pure function of (flag, context, store contents, provider answers,
   options) with no cache, no status register and no trace.  Refine.v proves that the trace-producing model computes
   exactly this function; the decision-order properties (C02, C03, C05, C08) are stated about it. *)
From LD Require Import Base F32 Data Semver Model Ops Bucket Eval.
Open Scope Z_scope.

Definition rbind {A B} (r : res A) (f : A -> res B) : res B :=
  match r with Done a => f a | Panic => Panic | OutOfFuel => OutOfFuel end.

Section Pure.
Variable re_ok : str -> bool.
Variable re_match : str -> str -> bool.
Variable o : opts.
Variable E : env.
Variable P : bsprov.
Variable c : ctx.

(* what the big-segment store says about a context key *)
Definition p_membership (key : str) : option membership :=
  match P with None => None | Some prov => bs_membership (prov key) end.

(* all clauses must match; the first non-match or error decides *)
Fixpoint p_all_clauses (cm : clause -> res (er bool)) (cls : list clause) : res (er bool) :=
  match cls with
  | [] => Done (Ok true)
  | cl :: r => rbind (cm cl) (fun m => match m with
                                       | Err e => Done (Err e)
                                       | Ok false => Done (Ok false)
                                       | Ok true => p_all_clauses cm r
                                       end)
  end.

(* segmentMatch: some referenced segment that exists in the store contains the context *)
Fixpoint p_any_segment (segc : segment -> res (er bool)) (negate : bool) (vals : list jv) : res (er bool) :=
  match vals with
  | [] => Done (Ok negate)
  | JStr k :: r =>
      match assoc k (e_segments E) with
      | None => p_any_segment segc negate r
      | Some sg => rbind (segc sg) (fun m => match m with
                                             | Err e => Done (Err e)
                                             | Ok true => Done (Ok (negb negate))
                                             | Ok false => p_any_segment segc negate r
                                             end)
      end
  | _ :: r => p_any_segment segc negate r
  end.

Definition p_clause (segc : segment -> res (er bool)) (cl : clause) : res (er bool) :=
  if str_eqb (cl_op cl) op_segment then p_any_segment segc (cl_negate cl) (cl_values cl)
  else Done (clause_match_noseg re_ok re_match cl c).

Definition p_seg_rule (segc : segment -> res (er bool)) (sg : segment) (r : segrule) : res (er bool) :=
  rbind (p_all_clauses (p_clause segc) (sr_clauses r)) (fun m =>
    match m with
    | Err e => Done (Err e)
    | Ok false => Done (Ok false)
    | Ok true =>
      match sr_weight r with
      | None => Done (Ok true)
      | Some w =>
        match compute_bucket (o_secondary o) c false None (sr_kind r) (sg_key sg) (sr_bucket_by r) (sg_salt sg) with
        | Err e => Done (Err e)
        | Ok (b, BLacksKind) => Done (Ok false)
        | Ok (b, _) => Done (Ok (f32_ltb b (weight_frac w)))
        end
      end
    end).

Fixpoint p_seg_rules (rm : segrule -> res (er bool)) (key : str) (rs : list segrule) : res (er bool) :=
  match rs with
  | [] => Done (Ok false)
  | r :: rest => rbind (rm r) (fun m => match m with
                                        | Err e => Done (Err (EMalformedSeg key e))
                                        | Ok true => Done (Ok true)
                                        | Ok false => p_seg_rules rm key rest
                                        end)
  end.

(* the answer that precedes the rules: big-segment store answer, or the include/exclude lists *)
Definition p_seg_early (sg : segment) : option bool :=
  if sg_unbounded sg then
    match sg_generation sg with
    | None => Some false
    | Some g =>
      match ctx_key_by_kind c (sg_unb_kind sg) with
      | None => Some false
      | Some k => match p_membership k with
                  | None => None
                  | Some mem => assoc (big_segment_ref sg g) mem
                  end
      end
    end
  else regular_lists c sg.

Fixpoint p_seg (fuel : nat) (chain : list str) (sg : segment) : res (er bool) :=
  match fuel with
  | O => OutOfFuel
  | S n =>
    if mem_str (sg_key sg) chain then Done (Err (ECircSeg (sg_key sg)))
    else match p_seg_early sg with
         | Some b => Done (Ok b)
         | None => p_seg_rules (p_seg_rule (p_seg n (chain ++ [sg_key sg])) sg) (sg_key sg) (sg_rules sg)
         end
  end.

(* ---- flags ---- *)
Definition p_get_variation (f : flag) (i : Z) (r : reason) : detail :=
  match znth_opt (f_vars f) i with
  | Some v => mkdetail v (Some i) r
  | None => err_detail KMalformed
  end.
Definition p_off_value (f : flag) (r : reason) : detail :=
  match f_off f with None => mkdetail JNull None r | Some i => p_get_variation f i r end.
Definition p_vr_detail (f : flag) (vr : vorr) (r : reason) : res detail :=
  match vr_result o c vr (f_key f) (f_salt f) with
  | Panic => Panic
  | OutOfFuel => OutOfFuel
  | Done (Err e) => Done (err_detail (err_kind e))
  | Done (Ok (i, inexp)) => Done (p_get_variation f i (if inexp then to_experiment_reason r else r))
  end.

(* a prerequisite is met iff the flag exists, is on, and its own evaluation serves exactly the required variation *)
Definition prereq_met (pf : flag) (d : detail) (required : Z) : bool :=
  f_on pf && match d_index d with Some i => i =? required | None => false end.

Fixpoint p_prereqs (ev : flag -> res (detail * bool)) (chain' : list str) (ps : list prereq) : res prereq_outcome :=
  match ps with
  | [] => Done POk
  | p :: rest =>
    match assoc (pq_key p) (e_flags E) with
    | None => Done (PFailed (pq_key p))
    | Some pf =>
      if mem_str (f_key pf) chain' then Done PAbort
      else rbind (ev pf) (fun r =>
             let '(d, ok) := r in
             if negb ok then Done PAbort
             else if prereq_met pf d (pq_var p) then p_prereqs ev chain' rest
             else Done (PFailed (pq_key p)))
    end
  end.

Fixpoint p_rules (segc : segment -> res (er bool)) (f : flag) (rs : list rule) (i : Z) : res (detail * bool) :=
  match rs with
  | [] => rbind (p_vr_detail f (f_fallthrough f) (plain_reason RFallthrough)) (fun d => Done (d, true))
  | ru :: rest =>
    rbind (p_all_clauses (p_clause segc) (ru_clauses ru)) (fun m =>
      match m with
      | Err e => Done (err_detail (err_kind e), false)
      | Ok true => rbind (p_vr_detail f (ru_vr ru) (plain_reason (RRule i (ru_id ru)))) (fun d => Done (d, true))
      | Ok false => p_rules segc f rest (i + 1)
      end)
  end.

(* off, prerequisites, targets, rules, fallthrough: the first applicable stage decides *)
Fixpoint p_eval (fuel : nat) (chain : list str) (f : flag) : res (detail * bool) :=
  match fuel with
  | O => OutOfFuel
  | S n =>
    if negb (f_on f) then Done (p_off_value f (plain_reason ROff), true)
    else
      rbind (match f_prereqs f with
             | [] => Done POk
             | ps => let chain' := chain ++ [f_key f] in p_prereqs (p_eval n chain') chain' ps
             end) (fun p =>
        match p with
        | PAbort => Done (err_detail KMalformed, false)
        | PFailed k => Done (p_off_value f (plain_reason (RPrereqFailed k)), true)
        | POk =>
          match any_target_match c f with
          | Some v => Done (p_get_variation f v (plain_reason RTarget), true)
          | None => p_rules (p_seg (seg_fuel E) []) f (f_rules f) 0
          end
        end)
  end.

(* the detail that Evaluate returns, before the big-segments status annotation *)
Definition p_run (f : flag) : res detail :=
  match c with
  | CInvalid => Done (err_detail KUserNotSpecified)
  | _ => rbind (p_eval (flag_fuel E) [] f) (fun r => Done (fst r))
  end.

End Pure.

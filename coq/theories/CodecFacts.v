(* C16 wire schema of the encoder's output; C17 decoder leniency (unknown properties, null = omission) *)
From LD Require Import Base F32 Data Semver Model Ops Codec.
From RecordUpdate Require Import RecordUpdate.
Open Scope Z_scope.
Delimit Scope string_scope with string.

(* ---------------- the wire schema, spelled out from the property text ---------------- *)
Definition is_arr v := match v with JArr _ => true | _ => false end.
Definition is_str v := match v with JStr _ => true | _ => false end.
Definition is_bool v := match v with JBool _ => true | _ => false end.
Definition is_num v := match v with JNum _ => true | _ => false end.
Definition is_num_or_null v := match v with JNum _ | JNull => true | _ => false end.
Definition is_obj v := match v with JObj _ => true | _ => false end.

Definition has (ty : jv -> bool) (k : String.string) (ps : list (str * jv)) : bool :=
  match assoc (s k) ps with Some v => ty v | None => false end.
Arguments has _ _%string_scope _.
Definition all_items (p : jv -> bool) (v : jv) : bool := match v with JArr l => forallb p l | _ => false end.
Definition obj_with (p : list (str * jv) -> bool) (v : jv) : bool := match v with JObj ps => p ps | _ => false end.

Definition schema_clause : jv -> bool :=
  obj_with (fun ps => has is_str "attribute" ps && has is_str "op" ps && has is_arr "values" ps && has is_bool "negate" ps).
Definition schema_target : jv -> bool := obj_with (fun ps => has is_arr "values" ps && has is_num "variation" ps).
Definition schema_prereq : jv -> bool := obj_with (fun ps => has is_str "key" ps && has is_num "variation" ps).
Definition schema_wvar : jv -> bool := obj_with (fun ps => has is_num "variation" ps && has is_num "weight" ps).
Definition schema_vorr (ps : list (str * jv)) : bool :=
  match assoc (s "rollout") ps with
  | None => true
  | Some ro => obj_with (fun rp => has (all_items schema_wvar) "variations" rp) ro
  end.
Definition schema_rule : jv -> bool :=
  obj_with (fun ps => has (all_items schema_clause) "clauses" ps && has is_bool "trackEvents" ps && schema_vorr ps).

Definition schema_flag : jv -> bool :=
  obj_with (fun ps =>
    has is_str "key" ps && has is_bool "on" ps && has (all_items schema_prereq) "prerequisites" ps &&
    has (all_items schema_target) "targets" ps && has (all_items schema_target) "contextTargets" ps &&
    has (all_items schema_rule) "rules" ps && has (obj_with schema_vorr) "fallthrough" ps &&
    has is_num_or_null "offVariation" ps && has is_arr "variations" ps && has is_bool "clientSide" ps &&
    has is_str "salt" ps && has is_bool "trackEvents" ps && has is_bool "trackEventsFallthrough" ps &&
    has is_num_or_null "debugEventsUntilDate" ps && has is_num "version" ps && has is_bool "deleted" ps).

Definition schema_segtarget : jv -> bool := obj_with (fun ps => has is_arr "values" ps).
Definition schema_segrule : jv -> bool := obj_with (fun ps => has is_str "id" ps && has (all_items schema_clause) "clauses" ps).
Definition schema_segment : jv -> bool :=
  obj_with (fun ps =>
    has is_str "key" ps && has (all_items is_str) "included" ps && has (all_items is_str) "excluded" ps &&
    has (all_items schema_segtarget) "includedContexts" ps && has (all_items schema_segtarget) "excludedContexts" ps &&
    has is_str "salt" ps && has (all_items schema_segrule) "rules" ps && has is_num "version" ps &&
    has is_num_or_null "generation" ps && has is_bool "deleted" ps).

Lemma forallb_map {A B} (p : B -> bool) (f : A -> B) l : (forall x, p (f x) = true) -> forallb p (map f l) = true.
Proof. intros H. induction l as [|x l IH]; simpl; [reflexivity|]. rewrite H, IH. reflexivity. Qed.

Lemma maybe_cases b k v : maybe b k v = [] \/ maybe b k v = [(s k, v)].
Proof. destruct b; simpl; auto. Qed.

Lemma clause_ok c : schema_clause (enc_clause c) = true.
Proof.
  unfold enc_clause, schema_clause, obj_with, has.
  destruct (nonempty (cl_kind c)); simpl; destruct (ref_defined (cl_attr c)); simpl;
    try reflexivity; unfold enc_attr_ref; destruct (cl_kind c); reflexivity.
Qed.
Lemma clauses_ok cs : all_items schema_clause (enc_clauses cs) = true.
Proof. unfold enc_clauses. simpl. apply forallb_map. apply clause_ok. Qed.

Lemma target_ok t : schema_target (enc_target t) = true.
Proof. unfold enc_target, schema_target, obj_with, has. destruct (nonempty (t_kind t)); reflexivity. Qed.
Lemma targets_ok ts : all_items schema_target (enc_targets ts) = true.
Proof. unfold enc_targets. simpl. apply forallb_map. apply target_ok. Qed.

Lemma wvar_ok w : schema_wvar (enc_wvar w) = true.
Proof. unfold enc_wvar, schema_wvar, obj_with, has. destruct (wv_untracked w); reflexivity. Qed.

Lemma vorr_ok x : schema_vorr (enc_vorr_props x) = true.
Proof.
  unfold enc_vorr_props, schema_vorr.
  destruct (is_some (vr_var x)); destruct (ro_vars (vr_rollout x)) as [|w ws]; try reflexivity.
  all: cbn [maybe app assoc str_eqb]; cbn -[enc_wvar schema_wvar];
       destruct (nonempty (ro_kind (vr_rollout x))); destruct (nonempty (ro_ctxkind (vr_rollout x)));
       cbn -[enc_wvar schema_wvar]; rewrite wvar_ok; cbn -[enc_wvar schema_wvar];
       apply forallb_map; apply wvar_ok.
Qed.

Lemma rule_ok r : schema_rule (enc_rule r) = true.
Proof.
  unfold enc_rule, schema_rule, obj_with.
  pose proof (vorr_ok (ru_vr r)) as Hv. pose proof (clauses_ok (ru_clauses r)) as Hc.
  unfold enc_vorr_props in *. unfold schema_vorr in *.
  destruct (is_some (vr_var (ru_vr r))); destruct (ro_vars (vr_rollout (ru_vr r))) as [|w ws];
    destruct (nonempty (ru_id r)); unfold has;
    cbn -[enc_clauses all_items enc_wvar schema_wvar] in *; rewrite ?Hc; cbn -[enc_wvar schema_wvar]; try reflexivity; exact Hv.
Qed.

(* C16: for EVERY flag value the encoder's output carries every legacy property with its schema type; lists are
   arrays even when empty *)
Theorem encode_flag_schema f : schema_flag (encode_flag f) = true.
Proof.
  unfold encode_flag, schema_flag, obj_with.
  pose proof (targets_ok (f_targets f)) as Ht. pose proof (targets_ok (f_ctargets f)) as Hct.
  assert (Hr : all_items schema_rule (JArr (map enc_rule (f_rules f))) = true) by (simpl; apply forallb_map; apply rule_ok).
  pose proof (vorr_ok (f_fallthrough f)) as Hf.
  assert (Hp : all_items schema_prereq (JArr (map enc_prereq (f_prereqs f))) = true) by (simpl; apply forallb_map; reflexivity).
  set (rules := JArr (map enc_rule (f_rules f))) in *.
  set (pre := JArr (map enc_prereq (f_prereqs f))) in *.
  set (t1 := enc_targets (f_targets f)) in *. set (t2 := enc_targets (f_ctargets f)) in *.
  set (ft := enc_vorr_props (f_fallthrough f)) in *.
  unfold has.
  destruct (fm_cs_explicit (f_meta f)); destruct (fm_migration (f_meta f)) as [cr|];
    destruct (is_some (fm_sampling (f_meta f))); destruct (f_exclude f); cbn -[schema_vorr all_items];
    rewrite Hp, Ht, Hct, Hr; cbn -[schema_vorr]; rewrite Hf; cbn;
    destruct (f_off f); destruct (fm_debug_until (f_meta f) =? 0); reflexivity.
Qed.

Lemma segtarget_ok t : schema_segtarget (enc_segtarget t) = true.
Proof. unfold enc_segtarget, schema_segtarget, obj_with, has. destruct (nonempty (st_kind t)); reflexivity. Qed.
Lemma segrule_ok r : schema_segrule (enc_segrule r) = true.
Proof.
  unfold enc_segrule, schema_segrule, obj_with, has. cbn -[enc_clauses all_items].
  rewrite (clauses_ok (sr_clauses r)). reflexivity.
Qed.

Theorem encode_segment_schema sg : schema_segment (encode_segment sg) = true.
Proof.
  unfold encode_segment, schema_segment, obj_with.
  assert (H1 : forall l, all_items is_str (jstr_list l) = true) by (intros l; simpl; apply forallb_map; reflexivity).
  assert (H2 : forall l, all_items schema_segtarget (enc_segtargets l) = true)
    by (intros l; unfold enc_segtargets; simpl; apply forallb_map; apply segtarget_ok).
  assert (H3 : all_items schema_segrule (JArr (map enc_segrule (sg_rules sg))) = true) by (simpl; apply forallb_map; apply segrule_ok).
  set (rules := JArr (map enc_segrule (sg_rules sg))) in *.
  set (i1 := jstr_list (sg_included sg)). set (i2 := jstr_list (sg_excluded sg)).
  set (c1 := enc_segtargets (sg_inc_ctx sg)). set (c2 := enc_segtargets (sg_exc_ctx sg)).
  unfold has.
  destruct (sg_unbounded sg); destruct (nonempty (sg_unb_kind sg)); cbn -[all_items];
    unfold i1, i2, c1, c2; rewrite !H1, !H2, H3; cbn; destruct (sg_generation sg); reflexivity.
Qed.

(* ---------------- C17: unknown properties are ignored ---------------- *)
Lemma fold_props_skip {A} (step : str -> jv -> A -> option A) pre k v post a :
  (forall x, step k v x = Some x) -> fold_props step (pre ++ (k, v) :: post) a = fold_props step (pre ++ post) a.
Proof.
  intros H. revert a. induction pre as [|[k' v'] pre IH]; intros a; simpl.
  - rewrite H. reflexivity.
  - destruct (step k' v' a); simpl; [apply IH|reflexivity].
Qed.

Definition flag_names : list String.string :=
  ["key"; "on"; "prerequisites"; "targets"; "contextTargets"; "rules"; "fallthrough"; "offVariation"; "variations";
   "clientSideAvailability"; "clientSide"; "salt"; "trackEvents"; "trackEventsFallthrough"; "debugEventsUntilDate";
   "version"; "deleted"; "excludeFromSummaries"; "samplingRatio"; "migration"]%string.
Definition segment_names : list String.string :=
  ["key"; "version"; "generation"; "deleted"; "included"; "excluded"; "includedContexts"; "excludedContexts"; "rules";
   "salt"; "unbounded"; "unboundedContextKind"]%string.

Definition unknown (names : list String.string) (k : str) : Prop := forall n, In n names -> str_eqb k (s n) = false.

Lemma flag_step_unknown k v x : unknown flag_names k -> flag_step k v x = Some x.
Proof.
  intros H. destruct x as [f dcs]. unfold flag_step, is.
  repeat match goal with
  | |- context [str_eqb k (s ?n)] => rewrite (H n) by (unfold flag_names; simpl; tauto)
  end. reflexivity.
Qed.
Lemma segment_step_unknown k v x : unknown segment_names k -> segment_step k v x = Some x.
Proof.
  intros H. unfold segment_step, is.
  repeat match goal with
  | |- context [str_eqb k (s ?n)] => rewrite (H n) by (unfold segment_names; simpl; tauto)
  end. reflexivity.
Qed.

Theorem decode_flag_ignores_unknown pre k v post :
  unknown flag_names k -> decode_flag (JObj (pre ++ (k, v) :: post)) = decode_flag (JObj (pre ++ post)).
Proof.
  intros H. unfold decode_flag, rd_object. rewrite fold_props_skip by (intros x; apply flag_step_unknown; exact H). reflexivity.
Qed.
Theorem decode_segment_ignores_unknown pre k v post :
  unknown segment_names k -> decode_segment (JObj (pre ++ (k, v) :: post)) = decode_segment (JObj (pre ++ post)).
Proof.
  intros H. unfold decode_segment, rd_object. apply fold_props_skip. intros x. apply segment_step_unknown. exact H.
Qed.

(* the same at the nested levels: clauses, rules, targets, prerequisites, rollouts and their buckets *)
Definition clause_names : list String.string := ["contextKind"; "attribute"; "op"; "values"; "negate"]%string.
Lemma rd_clause_ignores_unknown pre k v post :
  unknown clause_names k -> rd_clause (JObj (pre ++ (k, v) :: post)) = rd_clause (JObj (pre ++ post)).
Proof.
  intros H. unfold rd_clause, rd_object. rewrite fold_props_skip; [reflexivity|].
  intros [c a]. unfold is.
  repeat match goal with
  | |- context [str_eqb k (s ?n)] => rewrite (H n) by (unfold clause_names; simpl; tauto)
  end. reflexivity.
Qed.
Definition target_names : list String.string := ["contextKind"; "values"; "variation"]%string.
Lemma rd_target_ignores_unknown pre k v post :
  unknown target_names k -> rd_target (JObj (pre ++ (k, v) :: post)) = rd_target (JObj (pre ++ post)).
Proof.
  intros H. unfold rd_target, rd_object. apply fold_props_skip. intros t. unfold is.
  repeat match goal with
  | |- context [str_eqb k (s ?n)] => rewrite (H n) by (unfold target_names; simpl; tauto)
  end. reflexivity.
Qed.
Definition rule_names : list String.string := ["id"; "clauses"; "trackEvents"; "variation"; "rollout"]%string.
Lemma rd_rule_ignores_unknown pre k v post :
  unknown rule_names k -> rd_rule (JObj (pre ++ (k, v) :: post)) = rd_rule (JObj (pre ++ post)).
Proof.
  intros H. unfold rd_rule, rd_object. apply fold_props_skip. intros ru. unfold vorr_step, is.
  repeat match goal with
  | |- context [str_eqb k (s ?n)] => rewrite (H n) by (unfold rule_names; simpl; tauto)
  end. reflexivity.
Qed.

(* ---------------- C17: an explicit null means the same as omission ---------------- *)
(* on a document whose first property is the null: the accumulator is the default value, and reading null leaves it *)
Definition nullable_flag_names : list String.string :=
  ["prerequisites"; "targets"; "contextTargets"; "rules"; "variations"; "offVariation"; "debugEventsUntilDate";
   "clientSideAvailability"]%string.
Theorem flag_null_is_omission n rest :
  In n nullable_flag_names -> decode_flag (JObj ((s n, JNull) :: rest)) = decode_flag (JObj rest).
Proof.
  intros Hn. unfold decode_flag, rd_object. cbn [fold_props].
  assert (Hs : flag_step (s n) JNull (flag0, false) = Some (flag0, false)).
  { unfold nullable_flag_names in Hn. simpl in Hn.
    repeat (destruct Hn as [Hn|Hn]; [subst n; reflexivity|]). contradiction. }
  rewrite Hs. reflexivity.
Qed.

Definition nullable_segment_names : list String.string :=
  ["included"; "excluded"; "includedContexts"; "excludedContexts"; "rules"; "generation"]%string.
Theorem segment_null_is_omission n rest :
  In n nullable_segment_names -> decode_segment (JObj ((s n, JNull) :: rest)) = decode_segment (JObj rest).
Proof.
  intros Hn. unfold decode_segment, rd_object. cbn [fold_props].
  assert (Hs : segment_step (s n) JNull segment0 = Some segment0).
  { unfold nullable_segment_names in Hn. simpl in Hn.
    repeat (destruct Hn as [Hn|Hn]; [subst n; reflexivity|]). contradiction. }
  rewrite Hs. reflexivity.
Qed.

(* nested: clauses / values of a rule and of a clause, the optional variation and rollout of a rule, seed, bucketBy *)
Lemma rule_null_is_omission n rest :
  In n ["clauses"; "variation"; "rollout"]%string -> rd_rule (JObj ((s n, JNull) :: rest)) = rd_rule (JObj rest).
Proof.
  intros Hn. unfold rd_rule, rd_object. cbn [fold_props]. simpl in Hn.
  repeat (destruct Hn as [Hn|Hn]; [subst n; reflexivity|]). contradiction.
Qed.
Lemma clause_null_is_omission n rest :
  In n ["values"; "attribute"]%string -> rd_clause (JObj ((s n, JNull) :: rest)) = rd_clause (JObj rest).
Proof.
  intros Hn. unfold rd_clause, rd_object. cbn [fold_props]. simpl in Hn.
  repeat (destruct Hn as [Hn|Hn]; [subst n; reflexivity|]). contradiction.
Qed.
Lemma target_null_values_is_omission rest : rd_target (JObj ((s "values", JNull) :: rest)) = rd_target (JObj rest).
Proof. reflexivity. Qed.
Lemma rollout_null_is_omission n rest out :
  In n ["seed"; "bucketBy"]%string -> rd_rollout (JObj ((s n, JNull) :: rest)) out = rd_rollout (JObj rest) out.
Proof.
  intros Hn. unfold rd_rollout. cbn [fold_props]. simpl in Hn.
  repeat (destruct Hn as [Hn|Hn]; [subst n; reflexivity|]). contradiction.
Qed.
(* the one exception: a rollout's variations must be an array *)
Lemma rollout_null_variations_is_an_error rest out : rd_rollout (JObj ((s "variations", JNull) :: rest)) out = None.
Proof. reflexivity. Qed.
Lemma segrule_null_is_omission n rest :
  In n ["clauses"; "weight"; "bucketBy"]%string -> rd_segrule (JObj ((s n, JNull) :: rest)) = rd_segrule (JObj rest).
Proof.
  intros Hn. unfold rd_segrule, rd_object. cbn [fold_props]. simpl in Hn.
  repeat (destruct Hn as [Hn|Hn]; [subst n; reflexivity|]). contradiction.
Qed.

(* a type mismatch anywhere makes the decoder fail (no partial value): e.g. at the top level *)
Lemma decode_flag_wrong_type_key v rest : (forall x, v <> JStr x) -> decode_flag (JObj ((s "key", v) :: rest)) = None.
Proof. intros H. unfold decode_flag, rd_object. cbn [fold_props]. destruct v; try reflexivity. exfalso. eapply H. reflexivity. Qed.
Lemma decode_flag_not_object v : (forall ps, v <> JObj ps) -> decode_flag v = None.
Proof. intros H. destruct v; try reflexivity. exfalso. eapply H. reflexivity. Qed.

Lemma schema_rejects_missing_list : schema_flag (JObj [(s "key", JStr [])]) = false.
Proof. reflexivity. Qed.

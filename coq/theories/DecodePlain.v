(* The decoder never fills in a precomputed field: every decoded flag / segment is "plain" in the sense of PrepEval, so
   the whole-evaluation transparency theorem applies to decode(j) versus PreprocessFlag(decode(j)) for every accepted
   JSON document j -- which is exactly the pair (hand-built value, value obtained by JSON decoding) of C14. *)
From LD Require Import Base F32 Data Semver Model Ops Bucket Eval Codec CodecFacts CodecRT DecodeWF Prep PrepEval.
From RecordUpdate Require Import RecordUpdate.
Open Scope Z_scope.

Lemma plain_rd_target v t : rd_target v = Some t -> plain_target t.
Proof.
  unfold rd_target, rd_object. destruct v; try discriminate. intros H.
  eapply (fold_props_inv plain_target _ _ target0); [|reflexivity|exact H].
  intros k v x x' Hx Hs. unfold is in Hs.
  destruct (str_eqb k (s "contextKind")); [destruct (rd_string v); inversion Hs; subst; exact Hx|].
  destruct (str_eqb k (s "values")); [destruct (rd_array_or_null rd_string v (t_values x)); inversion Hs; subst; exact Hx|].
  destruct (str_eqb k (s "variation")); [|inversion Hs; subst; exact Hx].
  destruct (rd_int v); inversion Hs; subst. exact Hx.
Qed.

Lemma plain_rd_clause v c : rd_clause v = Some c -> plain_clause c.
Proof.
  unfold rd_clause. unfold bindo at 1.
  match goal with |- match ?m with _ => _ end = _ -> _ => destruct m as [[c0 a]|] eqn:E end; [|discriminate].
  intros H; inversion H; subst; clear H. unfold plain_clause. cbn.
  unfold rd_object in E. destruct v; try discriminate.
  change (plain_clause (fst (c0, a))).
  eapply (fold_props_inv (fun ca : clause * str => plain_clause (fst ca)) _ _ (clause0, [])); [|reflexivity|exact E].
  intros k v [x xa] [x' xa'] Hx Hs. cbn [fst] in *. unfold is in Hs.
  destruct (str_eqb k (s "contextKind")); [destruct (rd_string v); inversion Hs; subst; exact Hx|].
  destruct (str_eqb k (s "attribute")); [destruct (rd_string_or_null v); inversion Hs; subst; exact Hx|].
  destruct (str_eqb k (s "op")); [destruct (rd_string v); inversion Hs; subst; exact Hx|].
  destruct (str_eqb k (s "values")); [destruct (rd_array_or_null Some v (cl_values x)); inversion Hs; subst; exact Hx|].
  destruct (str_eqb k (s "negate")); [destruct (rd_bool v); inversion Hs; subst; exact Hx|].
  inversion Hs; subst; exact Hx.
Qed.

Lemma plain_rd_rule v ru : rd_rule v = Some ru -> plain_rule ru.
Proof.
  unfold rd_rule, rd_object. destruct v; try discriminate. intros H.
  eapply (fold_props_inv plain_rule _ _ rule0); [|constructor|exact H].
  intros k v x x' Hx Hs. unfold is in Hs. unfold plain_rule in *.
  destruct (str_eqb k (s "id")); [destruct (rd_string v); inversion Hs; subst; exact Hx|].
  destruct (str_eqb k (s "clauses")).
  { destruct (rd_array_or_null rd_clause v (ru_clauses x)) eqn:Ea; inversion Hs; subst. cbn.
    eapply rd_array_or_null_Forall; [apply plain_rd_clause|exact Hx|exact Ea]. }
  destruct (str_eqb k (s "trackEvents")); [destruct (rd_bool v); inversion Hs; subst; exact Hx|].
  destruct (vorr_step k v (ru_vr x)) as [[x2|]|]; inversion Hs; subst; exact Hx.
Qed.

Lemma plain_flag_step k v fd fd' : plain_flag (fst fd) -> flag_step k v fd = Some fd' -> plain_flag (fst fd').
Proof.
  destruct fd as [f d]. destruct fd' as [f' d']. cbn [fst]. intros [Ht Hr] Hs. unfold flag_step, is in Hs. unfold plain_flag.
  destruct (str_eqb k (s "key")); [destruct (rd_string v); inversion Hs; subst; split; assumption|].
  destruct (str_eqb k (s "on")); [destruct (rd_bool v); inversion Hs; subst; split; assumption|].
  destruct (str_eqb k (s "prerequisites")); [destruct (rd_array_or_null rd_prereq v (f_prereqs f)); inversion Hs; subst; split; assumption|].
  destruct (str_eqb k (s "targets")).
  { destruct (rd_array_or_null rd_target v (f_targets f)) eqn:Ea; inversion Hs; subst. split; [|exact Hr]. cbn.
    eapply rd_array_or_null_Forall; [apply plain_rd_target|exact Ht|exact Ea]. }
  destruct (str_eqb k (s "contextTargets")); [destruct (rd_array_or_null rd_target v (f_ctargets f)); inversion Hs; subst; split; assumption|].
  destruct (str_eqb k (s "rules")).
  { destruct (rd_array_or_null rd_rule v (f_rules f)) eqn:Ea; inversion Hs; subst. split; [exact Ht|]. cbn.
    eapply rd_array_or_null_Forall; [apply plain_rd_rule|exact Hr|exact Ea]. }
  destruct (str_eqb k (s "fallthrough")); [destruct (rd_vorr v (f_fallthrough f)); inversion Hs; subst; split; assumption|].
  destruct (str_eqb k (s "offVariation")); [destruct (rd_int_or_null v); inversion Hs; subst; split; assumption|].
  destruct (str_eqb k (s "variations")); [destruct (rd_array_or_null Some v (f_vars f)); inversion Hs; subst; split; assumption|].
  destruct (str_eqb k (s "clientSideAvailability")); [destruct (rd_csa v (f_meta f)); inversion Hs; subst; split; assumption|].
  destruct (str_eqb k (s "clientSide")); [destruct (rd_bool v); inversion Hs; subst; split; assumption|].
  destruct (str_eqb k (s "salt")); [destruct (rd_string v); inversion Hs; subst; split; assumption|].
  destruct (str_eqb k (s "trackEvents")); [destruct (rd_bool v); inversion Hs; subst; split; assumption|].
  destruct (str_eqb k (s "trackEventsFallthrough")); [destruct (rd_bool v); inversion Hs; subst; split; assumption|].
  destruct (str_eqb k (s "debugEventsUntilDate")); [destruct v; inversion Hs; subst; split; assumption|].
  destruct (str_eqb k (s "version")); [destruct (rd_int v); inversion Hs; subst; split; assumption|].
  destruct (str_eqb k (s "deleted")); [destruct (rd_bool v); inversion Hs; subst; split; assumption|].
  destruct (str_eqb k (s "excludeFromSummaries")); [destruct (rd_bool v); inversion Hs; subst; split; assumption|].
  destruct (str_eqb k (s "samplingRatio")); [destruct (rd_int v); inversion Hs; subst; split; assumption|].
  destruct (str_eqb k (s "migration")); [destruct (rd_migration v); inversion Hs; subst; split; assumption|].
  inversion Hs; subst; split; assumption.
Qed.

Theorem decode_flag_plain j f : decode_flag j = Some f -> plain_flag f.
Proof.
  unfold decode_flag, rd_object. destruct j; try discriminate.
  destruct (fold_props flag_step l (flag0, false)) as [[f1 d]|] eqn:E; simpl; [|discriminate].
  assert (H1 : plain_flag f1).
  { change f1 with (fst (f1, d)).
    apply (fold_props_inv (fun fd => plain_flag (fst fd)) flag_step l (flag0, false) (f1, d)); [|split; constructor|exact E].
    intros k v x x' Hx Hs. eapply plain_flag_step; eauto. }
  intros H; inversion H; subst. destruct (fm_cs_explicit (f_meta f1)); exact H1.
Qed.

Lemma plain_rd_segtarget v t : rd_segtarget v = Some t -> plain_segtarget t.
Proof.
  unfold rd_segtarget, rd_object. destruct v; try discriminate. intros H.
  eapply (fold_props_inv plain_segtarget _ _ segtarget0); [|reflexivity|exact H].
  intros k v x x' Hx Hs. unfold is in Hs.
  destruct (str_eqb k (s "contextKind")); [destruct (rd_string v); inversion Hs; subst; exact Hx|].
  destruct (str_eqb k (s "values")); [destruct (rd_array_or_null rd_string v (st_values x)); inversion Hs; subst; exact Hx|].
  inversion Hs; subst; exact Hx.
Qed.

Lemma plain_rd_segrule v r : rd_segrule v = Some r -> plain_segrule r.
Proof.
  unfold rd_segrule. unfold bindo at 1.
  match goal with |- match ?m with _ => _ end = _ -> _ => destruct m as [[ru b]|] eqn:E end; [|discriminate].
  intros H; inversion H; subst; clear H. unfold plain_segrule. cbn.
  unfold rd_object in E. destruct v; try discriminate.
  change (plain_segrule (fst (ru, b))).
  eapply (fold_props_inv (fun rb : segrule * str => plain_segrule (fst rb)) _ _ (segrule0, [])); [|constructor|exact E].
  intros k v [x xb] [x' xb'] Hx Hs. cbn [fst] in *. unfold is in Hs. unfold plain_segrule in *.
  destruct (str_eqb k (s "id")); [destruct (rd_string v); inversion Hs; subst; exact Hx|].
  destruct (str_eqb k (s "clauses")).
  { destruct (rd_array_or_null rd_clause v (sr_clauses x)) eqn:Ea; inversion Hs; subst. cbn.
    eapply rd_array_or_null_Forall; [apply plain_rd_clause|exact Hx|exact Ea]. }
  destruct (str_eqb k (s "weight")); [destruct (rd_int_or_null v) as [[n|]|]; inversion Hs; subst; exact Hx|].
  destruct (str_eqb k (s "bucketBy")); [destruct (rd_string_or_null v); inversion Hs; subst; exact Hx|].
  destruct (str_eqb k (s "rolloutContextKind")); [destruct (rd_string v); inversion Hs; subst; exact Hx|].
  inversion Hs; subst; exact Hx.
Qed.

Lemma plain_segment_step k v sg sg' : plain_segment sg -> segment_step k v sg = Some sg' -> plain_segment sg'.
Proof.
  intros [H1 [H2 [H3 [H4 H5]]]] Hs. unfold segment_step, is in Hs. unfold plain_segment.
  destruct (str_eqb k (s "key")); [destruct (rd_string v); inversion Hs; subst; cbn; auto|].
  destruct (str_eqb k (s "version")); [destruct (rd_int v); inversion Hs; subst; cbn; auto|].
  destruct (str_eqb k (s "generation")); [destruct (rd_int_or_null v); inversion Hs; subst; cbn; auto|].
  destruct (str_eqb k (s "deleted")); [destruct (rd_bool v); inversion Hs; subst; cbn; auto|].
  destruct (str_eqb k (s "included")); [destruct (rd_array_or_null rd_string v (sg_included sg)); inversion Hs; subst; cbn; auto|].
  destruct (str_eqb k (s "excluded")); [destruct (rd_array_or_null rd_string v (sg_excluded sg)); inversion Hs; subst; cbn; auto|].
  destruct (str_eqb k (s "includedContexts")).
  { destruct (rd_array_or_null rd_segtarget v (sg_inc_ctx sg)) eqn:Ea; inversion Hs; subst. cbn. repeat split; auto.
    eapply rd_array_or_null_Forall; [apply plain_rd_segtarget|exact H3|exact Ea]. }
  destruct (str_eqb k (s "excludedContexts")).
  { destruct (rd_array_or_null rd_segtarget v (sg_exc_ctx sg)) eqn:Ea; inversion Hs; subst. cbn. repeat split; auto.
    eapply rd_array_or_null_Forall; [apply plain_rd_segtarget|exact H4|exact Ea]. }
  destruct (str_eqb k (s "rules")).
  { destruct (rd_array_or_null rd_segrule v (sg_rules sg)) eqn:Ea; inversion Hs; subst. cbn. repeat split; auto.
    eapply rd_array_or_null_Forall; [apply plain_rd_segrule|exact H5|exact Ea]. }
  destruct (str_eqb k (s "salt")); [destruct (rd_string v); inversion Hs; subst; cbn; auto|].
  destruct (str_eqb k (s "unbounded")); [destruct (rd_bool v); inversion Hs; subst; cbn; auto|].
  destruct (str_eqb k (s "unboundedContextKind")); [destruct (rd_string v); inversion Hs; subst; cbn; auto|].
  inversion Hs; subst; auto.
Qed.

Theorem decode_segment_plain j sg : decode_segment j = Some sg -> plain_segment sg.
Proof.
  unfold decode_segment, rd_object. destruct j; try discriminate. intros E.
  apply (fold_props_inv plain_segment segment_step l segment0 sg); [| |exact E].
  - intros k v x x' Hx Hs. eapply plain_segment_step; eauto.
  - unfold plain_segment. cbn. repeat split; constructor.
Qed.

(* a store built by decoding: every flag and segment in it is plain *)
Definition decoded_env (E : env) : Prop :=
  Forall (fun kv => exists j, decode_flag j = Some (snd kv)) (e_flags E) /\
  Forall (fun kv => exists j, decode_segment j = Some (snd kv)) (e_segments E).

Lemma decoded_env_plain E : decoded_env E -> plain_env E.
Proof.
  intros [Hf Hs]. split.
  - eapply Forall_impl; [|exact Hf]. intros kv [j Hj]. eapply decode_flag_plain; eauto.
  - eapply Forall_impl; [|exact Hs]. intros kv [j Hj]. eapply decode_segment_plain; eauto.
Qed.

(* C14 for JSON documents: evaluating what the SDK's decoder hands out (decode, then PreprocessFlag / PreprocessSegment
   on every item) gives the same outcome as evaluating the bare decoded values that carry no precomputed data *)
Theorem decoded_then_preprocessed_same_evaluation re_ok re_match o E P c j f :
  decoded_env E -> decode_flag j = Some f ->
  run re_ok re_match o (pp_env re_ok E) P c (preprocess_flag re_ok f) =
  match run re_ok re_match o E P c f with Done r => Done (pp_out re_ok r) | Panic => Panic | OutOfFuel => OutOfFuel end.
Proof.
  intros HE Hj. apply (preprocessed_store_same_evaluation re_ok re_match o E P c (decoded_env_plain E HE)).
  eapply decode_flag_plain; eauto.
Qed.

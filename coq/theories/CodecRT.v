(* C15: decode (encode v) for values whose parts are valid; canonical forms; the fixed point after one step. *)
From LD Require Import Base F32 Data Semver Model Ops Codec CodecFacts.
From RecordUpdate Require Import RecordUpdate.
Open Scope Z_scope.

Definition in64 (z : Z) : Prop := - two63 <= z < two63.
Definition in64o (x : option Z) : Prop := forall z, x = Some z -> in64 z.

Lemma dy_to_int_of_Z z : in64 z -> dy_to_int (dy_of_Z z) = z.
Proof.
  intros [H1 H2]. unfold dy_to_int.
  assert (Ht : dy_trunc (dy_of_Z z) = z) by (unfold dy_trunc, dy_of_Z; cbn; lia). rewrite Ht.
  apply Z.leb_le in H1. apply Z.ltb_lt in H2. rewrite H1, H2. reflexivity.
Qed.
Lemma rd_int_jint z : in64 z -> rd_int (jint z) = Some z.
Proof. intros H. unfold rd_int, jint. rewrite dy_to_int_of_Z by exact H. reflexivity. Qed.
Lemma rd_int_or_null_enc x : in64o x -> rd_int_or_null (enc_opt_int x) = Some x.
Proof.
  intros H. destruct x as [z|]; simpl; [|reflexivity]. rewrite dy_to_int_of_Z by (apply H; reflexivity). reflexivity.
Qed.
Lemma rd_int_or_null_jint z : in64 z -> rd_int_or_null (jint z) = Some (Some z).
Proof. intros H. unfold rd_int_or_null, jint. rewrite dy_to_int_of_Z by exact H. reflexivity. Qed.

Lemma rd_items_map {A B} (f : jv -> option B) (enc : A -> jv) (g : A -> B) l : forall acc,
  (forall x, In x l -> f (enc x) = Some (g x)) -> rd_items f (map enc l) acc = Some (acc ++ map g l).
Proof.
  induction l as [|x l IH]; intros acc H; simpl; [rewrite app_nil_r; reflexivity|].
  rewrite (H x (or_introl eq_refl)). simpl. rewrite IH by (intros y Hy; apply H; right; exact Hy).
  rewrite <- app_assoc. reflexivity.
Qed.
Lemma rd_items_id l acc : rd_items Some l acc = Some (acc ++ l).
Proof. rewrite <- (map_id l) at 1. rewrite (rd_items_map Some (fun x => x) (fun x => x)); [rewrite map_id; reflexivity|reflexivity]. Qed.
Lemma rd_strings l acc : rd_items rd_string (map JStr l) acc = Some (acc ++ l).
Proof. rewrite (rd_items_map rd_string JStr (fun x => x)); [rewrite map_id; reflexivity|reflexivity]. Qed.

(* ---- attribute references: what the schema can express is what survives a round trip ---- *)
Definition enc_ref_str (r : ref) (kind : str) : str :=
  if ref_defined r then match kind with [] => ref_component r 0 | _ => ref_string r end else [].
Definition ref_rt (r : ref) (kind : str) : Prop := attr_name_or_ref (enc_ref_str r kind) kind = r.

Lemma new_ref_raw v : r_raw (new_ref v) = v.
Proof.
  unfold new_ref. destruct v as [|c path]; [reflexivity|]. destruct (N.eqb c slash); [|reflexivity].
  destruct path as [|d p]; [reflexivity|]. destruct (existsb _ _).
  - generalize (split_slash [] (d :: p)). generalize (@nil str). intros acc ps. revert acc.
    induction ps as [|x ps IH]; intros acc; simpl; [reflexivity|]. destruct x; [reflexivity|].
    destruct (unescape _); [apply IH|reflexivity].
  - destruct (unescape _); reflexivity.
Qed.

(* every reference the decoder builds is stable: names without a context kind, paths with one *)
Lemma decoder_refs_are_stable v kind : ref_rt (attr_name_or_ref v kind) kind.
Proof.
  unfold ref_rt, enc_ref_str. destruct v as [|c v']; [reflexivity|].
  destruct kind as [|k kind'].
  - cbn [attr_name_or_ref]. unfold new_literal_ref. destruct (N.eqb c slash) eqn:E; cbn; rewrite E; reflexivity.
  - cbn [attr_name_or_ref]. unfold ref_defined, ref_string. rewrite new_ref_raw. reflexivity.
Qed.

Lemma enc_attr_ref_str r kind : enc_attr_ref r kind = JStr (match kind with [] => ref_component r 0 | _ => ref_string r end).
Proof. unfold enc_attr_ref. destruct kind; reflexivity. Qed.

(* ---- items ---- *)
Lemma rt_prereq p : in64 (pq_var p) -> rd_prereq (enc_prereq p) = Some p.
Proof.
  intros H. unfold rd_prereq, enc_prereq, rd_object. cbn [fold_props]. unfold is. cbn -[rd_int jint].
  rewrite rd_int_jint by exact H. cbn. destruct p; reflexivity.
Qed.

Definition canon_target (t : target) : target := mktarget (t_kind t) (t_values t) (t_var t) None.
Lemma rt_target t : in64 (t_var t) -> rd_target (enc_target t) = Some (canon_target t).
Proof.
  intros H. unfold canon_target, rd_target, enc_target, rd_object, jstr_list.
  destruct (t_kind t) as [|k ks] eqn:Hk; cbn [nonempty maybe app fold_props]; unfold is; cbn -[rd_int jint rd_items].
  - rewrite rd_int_jint by exact H. cbn -[rd_items]. rewrite rd_strings. reflexivity.
  - rewrite rd_int_jint by exact H. cbn -[rd_items]. rewrite rd_strings. reflexivity.
Qed.

Lemma rt_wvar w : in64 (wv_var w) -> in64 (wv_weight w) -> rd_wvar (enc_wvar w) = Some w.
Proof.
  intros H1 H2. unfold rd_wvar, enc_wvar, rd_object.
  destruct w as [v wt u]; cbn [wv_var wv_weight wv_untracked] in *.
  destruct u; cbn [maybe app fold_props]; unfold is; cbn -[rd_int jint].
  - rewrite (rd_int_jint v) by exact H1. cbn -[rd_int jint]. rewrite (rd_int_jint wt) by exact H2. reflexivity.
  - rewrite (rd_int_jint v) by exact H1. cbn -[rd_int jint]. rewrite (rd_int_jint wt) by exact H2. reflexivity.
Qed.

Definition canon_clause (c : clause) : clause :=
  mkclause (cl_kind c) (cl_attr c) (cl_op c) (cl_values c) (cl_negate c) cpre_none.
Lemma rt_clause c : ref_rt (cl_attr c) (cl_kind c) -> rd_clause (enc_clause c) = Some (canon_clause c).
Proof.
  intros Hr. unfold canon_clause, rd_clause, enc_clause, rd_object. unfold ref_rt, enc_ref_str in Hr.
  rewrite enc_attr_ref_str.
  destruct (cl_kind c) as [|k ks] eqn:Hk; destruct (ref_defined (cl_attr c)) eqn:Hd;
    cbn [nonempty maybe app fold_props]; unfold is; cbn -[rd_items attr_name_or_ref ref_component ref_string];
    rewrite rd_items_id; cbn -[attr_name_or_ref ref_component ref_string]; rewrite Hr; reflexivity.
Qed.

(* ---- rollouts ---- *)
Definition enc_rollout (ro : rollout) : jv :=
  JObj (maybe (nonempty (ro_kind ro)) "kind" (JStr (ro_kind ro)) ++
        maybe (nonempty (ro_ctxkind ro)) "contextKind" (JStr (ro_ctxkind ro)) ++
        [(s "variations", JArr (map enc_wvar (ro_vars ro)))] ++
        maybe (is_some (ro_seed ro)) "seed" (jint (oz (ro_seed ro))) ++
        maybe (ref_defined (ro_bucket_by ro)) "bucketBy" (enc_attr_ref (ro_bucket_by ro) (ro_ctxkind ro))).

Lemma enc_vorr_props_eq x :
  enc_vorr_props x =
  maybe (is_some (vr_var x)) "variation" (jint (oz (vr_var x))) ++
  match ro_vars (vr_rollout x) with [] => [] | _ => [(s "rollout", enc_rollout (vr_rollout x))] end.
Proof. unfold enc_vorr_props, enc_rollout. destruct (ro_vars (vr_rollout x)); reflexivity. Qed.

Definition wf_wvar (w : wvar) : Prop := in64 (wv_var w) /\ in64 (wv_weight w).
Definition wf_rollout (ro : rollout) : Prop :=
  Forall wf_wvar (ro_vars ro) /\ in64o (ro_seed ro) /\ ref_rt (ro_bucket_by ro) (ro_ctxkind ro).

Lemma rd_wvars l acc : Forall wf_wvar l -> rd_items rd_wvar (map enc_wvar l) acc = Some (acc ++ l).
Proof.
  intros H. rewrite (rd_items_map rd_wvar enc_wvar (fun w => w)); [rewrite map_id; reflexivity|].
  intros w Hin. rewrite Forall_forall in H. destruct (H w Hin). apply rt_wvar; assumption.
Qed.

Lemma rt_rollout ro : wf_rollout ro -> rd_rollout (enc_rollout ro) rollout0 = Some ro.
Proof.
  intros [Hw [Hs Hr]]. unfold rd_rollout, enc_rollout. unfold ref_rt, enc_ref_str in Hr. rewrite enc_attr_ref_str.
  destruct ro as [kind ck vars bb seed]; cbn [ro_kind ro_ctxkind ro_vars ro_bucket_by ro_seed] in *.
  destruct kind as [|k0 k1]; destruct ck as [|c0 c1]; destruct seed as [sd|]; destruct (ref_defined bb) eqn:Hd;
    cbn [nonempty is_some maybe app fold_props oz]; unfold is;
    cbn -[rd_items rd_int_or_null jint attr_name_or_ref ref_component ref_string rd_wvar enc_wvar];
    rewrite (rd_wvars vars [] Hw);
    cbn -[rd_int_or_null jint attr_name_or_ref ref_component ref_string];
    rewrite ?rd_int_or_null_jint by (apply Hs; reflexivity);
    cbn -[attr_name_or_ref ref_component ref_string]; rewrite Hr; reflexivity.
Qed.

Definition canon_vorr (x : vorr) : vorr :=
  mkvorr (vr_var x) (match ro_vars (vr_rollout x) with [] => rollout0 | _ => vr_rollout x end).
Definition wf_vorr (x : vorr) : Prop := in64o (vr_var x) /\ wf_rollout (vr_rollout x).

Lemma rt_vorr x : wf_vorr x -> rd_vorr (JObj (enc_vorr_props x)) vorr0 = Some (canon_vorr x).
Proof.
  intros [Hv Hro]. unfold rd_vorr, rd_object, canon_vorr. rewrite enc_vorr_props_eq.
  destruct x as [var ro]; cbn [vr_var vr_rollout] in *.
  destruct var as [v|]; destruct (ro_vars ro) eqn:Hvars;
    cbn [is_some maybe app fold_props oz]; unfold vorr_step, is;
    cbn -[rd_int_or_null jint rd_rollout enc_rollout];
    rewrite ?rd_int_or_null_jint by (apply Hv; reflexivity);
    cbn -[rd_rollout enc_rollout]; rewrite ?(rt_rollout ro Hro); reflexivity.
Qed.

Definition wf_clause (c : clause) : Prop := ref_rt (cl_attr c) (cl_kind c).
Lemma rd_clauses l acc : Forall wf_clause l -> rd_items rd_clause (map enc_clause l) acc = Some (acc ++ map canon_clause l).
Proof.
  intros H. apply rd_items_map. intros c Hin. rewrite Forall_forall in H. apply rt_clause. apply H. exact Hin.
Qed.

Definition canon_rule (r : rule) : rule :=
  mkrule (canon_vorr (ru_vr r)) (ru_id r) (map canon_clause (ru_clauses r)) (ru_track r).
Definition wf_rule (r : rule) : Prop := wf_vorr (ru_vr r) /\ Forall wf_clause (ru_clauses r).

Lemma rt_rule r : wf_rule r -> rd_rule (enc_rule r) = Some (canon_rule r).
Proof.
  intros [[Hv Hro] Hc]. unfold rd_rule, enc_rule, rd_object, canon_rule, canon_vorr, enc_clauses. rewrite enc_vorr_props_eq.
  destruct r as [[var ro] id cls tr]; cbn [ru_vr ru_id ru_clauses ru_track vr_var vr_rollout] in *.
  destruct var as [v|]; destruct (ro_vars ro) eqn:Hvars; destruct id as [|i0 i1];
    cbn [is_some nonempty maybe app fold_props oz]; unfold vorr_step, is;
    cbn -[rd_int_or_null jint rd_rollout enc_rollout rd_items rd_clause enc_clause];
    rewrite ?rd_int_or_null_jint by (apply Hv; reflexivity);
    cbn -[rd_rollout enc_rollout rd_items rd_clause enc_clause]; rewrite ?(rt_rollout ro Hro);
    cbn -[rd_items rd_clause enc_clause]; rewrite (rd_clauses cls [] Hc); reflexivity.
Qed.

(* ---- flags ---- *)
Definition wf_prereq (p : prereq) : Prop := in64 (pq_var p).
Definition wf_target (t : target) : Prop := in64 (t_var t).
Lemma rd_prereqs l acc : Forall wf_prereq l -> rd_items rd_prereq (map enc_prereq l) acc = Some (acc ++ l).
Proof.
  intros H. rewrite (rd_items_map rd_prereq enc_prereq (fun p => p)); [rewrite map_id; reflexivity|].
  intros p Hin. rewrite Forall_forall in H. apply rt_prereq. apply H. exact Hin.
Qed.
Lemma rd_targets l acc : Forall wf_target l -> rd_items rd_target (map enc_target l) acc = Some (acc ++ map canon_target l).
Proof. intros H. apply rd_items_map. intros t Hin. rewrite Forall_forall in H. apply rt_target. apply H. exact Hin. Qed.
Lemma rd_rules l acc : Forall wf_rule l -> rd_items rd_rule (map enc_rule l) acc = Some (acc ++ map canon_rule l).
Proof. intros H. apply rd_items_map. intros r Hin. rewrite Forall_forall in H. apply rt_rule. apply H. exact Hin. Qed.

Definition canon_meta (m : fmeta) : fmeta :=
  if fm_cs_explicit m then m
  else mkfmeta (fm_version m) (fm_deleted m) (fm_track_events m) (fm_debug_until m) true (fm_cs_env m) false
               (fm_sampling m) (fm_migration m).
Definition canon_flag (f : flag) : flag :=
  mkflag (f_key f) (f_on f) (f_prereqs f) (map canon_target (f_targets f)) (map canon_target (f_ctargets f))
         (map canon_rule (f_rules f)) (canon_vorr (f_fallthrough f)) (f_off f) (f_vars f) (f_salt f) (f_track_ft f)
         (f_exclude f) (canon_meta (f_meta f)).

Definition in_u64 (z : Z) : Prop := 0 <= z < two64.
Definition wf_meta (m : fmeta) : Prop :=
  in64 (fm_version m) /\ in_u64 (fm_debug_until m) /\ in64o (fm_sampling m) /\
  (forall cr, fm_migration m = Some cr -> in64o cr).
Definition wf_flag (f : flag) : Prop :=
  Forall wf_prereq (f_prereqs f) /\ Forall wf_target (f_targets f) /\ Forall wf_target (f_ctargets f) /\
  Forall wf_rule (f_rules f) /\ wf_vorr (f_fallthrough f) /\ in64o (f_off f) /\ wf_meta (f_meta f).

Lemma debug_rt d : 0 <= d < two64 -> debug_date_of (dy_of_Z d) = d.
Proof.
  intros [H1 H2]. unfold debug_date_of. assert (Ht : dy_trunc (dy_of_Z d) = d) by (unfold dy_trunc, dy_of_Z; cbn; lia).
  rewrite Ht. destruct (d <? 0) eqn:E1; [apply Z.ltb_lt in E1; lia|]. destruct (d <? two64) eqn:E2; [reflexivity|].
  apply Z.ltb_ge in E2. lia.
Qed.

(* one lemma per property: reading it from the head of the remaining document updates exactly one field *)
Notation fstep := (fold_props flag_step).

Lemma st_key k rest f d : fstep ((s "key", JStr k) :: rest) (f, d) = fstep rest (f <| f_key := k |>, d).
Proof. reflexivity. Qed.
Lemma st_on b rest f d : fstep ((s "on", JBool b) :: rest) (f, d) = fstep rest (f <| f_on := b |>, d).
Proof. reflexivity. Qed.
Lemma st_prereqs l rest f d : Forall wf_prereq l ->
  fstep ((s "prerequisites", JArr (map enc_prereq l)) :: rest) (f, d) = fstep rest (f <| f_prereqs := f_prereqs f ++ l |>, d).
Proof. intros H. cbn [fold_props]. unfold flag_step, is. cbn -[rd_items rd_prereq enc_prereq]. rewrite (rd_prereqs l _ H). reflexivity. Qed.
Lemma st_targets l rest f d : Forall wf_target l ->
  fstep ((s "targets", JArr (map enc_target l)) :: rest) (f, d) = fstep rest (f <| f_targets := f_targets f ++ map canon_target l |>, d).
Proof. intros H. cbn [fold_props]. unfold flag_step, is. cbn -[rd_items rd_target enc_target]. rewrite (rd_targets l _ H). reflexivity. Qed.
Lemma st_ctargets l rest f d : Forall wf_target l ->
  fstep ((s "contextTargets", JArr (map enc_target l)) :: rest) (f, d) = fstep rest (f <| f_ctargets := f_ctargets f ++ map canon_target l |>, d).
Proof. intros H. cbn [fold_props]. unfold flag_step, is. cbn -[rd_items rd_target enc_target]. rewrite (rd_targets l _ H). reflexivity. Qed.
Lemma st_rules l rest f d : Forall wf_rule l ->
  fstep ((s "rules", JArr (map enc_rule l)) :: rest) (f, d) = fstep rest (f <| f_rules := f_rules f ++ map canon_rule l |>, d).
Proof. intros H. cbn [fold_props]. unfold flag_step, is. cbn -[rd_items rd_rule enc_rule]. rewrite (rd_rules l _ H). reflexivity. Qed.
Lemma st_fallthrough x rest f d : wf_vorr x -> f_fallthrough f = vorr0 ->
  fstep ((s "fallthrough", JObj (enc_vorr_props x)) :: rest) (f, d) = fstep rest (f <| f_fallthrough := canon_vorr x |>, d).
Proof. intros H H0. cbn [fold_props]. unfold flag_step, is. cbn -[rd_vorr enc_vorr_props]. rewrite H0, (rt_vorr x H). reflexivity. Qed.
Lemma st_off x rest f d : in64o x ->
  fstep ((s "offVariation", enc_opt_int x) :: rest) (f, d) = fstep rest (f <| f_off := x |>, d).
Proof. intros H. cbn [fold_props]. unfold flag_step, is. cbn -[rd_int_or_null enc_opt_int]. rewrite (rd_int_or_null_enc x H). reflexivity. Qed.
Lemma st_variations l rest f d :
  fstep ((s "variations", JArr l) :: rest) (f, d) = fstep rest (f <| f_vars := f_vars f ++ l |>, d).
Proof. cbn [fold_props]. unfold flag_step, is. cbn -[rd_items]. rewrite rd_items_id. reflexivity. Qed.
Lemma st_csa mob env rest f d :
  fstep ((s "clientSideAvailability", JObj [(s "usingMobileKey", JBool mob); (s "usingEnvironmentId", JBool env)]) :: rest) (f, d)
  = fstep rest (f <| f_meta := f_meta f <| fm_cs_explicit := true |> <| fm_cs_mobile := mob |> <| fm_cs_env := env |> |>, d).
Proof. reflexivity. Qed.
Lemma st_client_side b rest f d : fstep ((s "clientSide", JBool b) :: rest) (f, d) = fstep rest (f, b).
Proof. reflexivity. Qed.
Lemma st_salt k rest f d : fstep ((s "salt", JStr k) :: rest) (f, d) = fstep rest (f <| f_salt := k |>, d).
Proof. reflexivity. Qed.
Lemma st_track_events b rest f d :
  fstep ((s "trackEvents", JBool b) :: rest) (f, d) = fstep rest (onmeta f (fun m => m <| fm_track_events := b |>), d).
Proof. reflexivity. Qed.
Lemma st_track_ft b rest f d :
  fstep ((s "trackEventsFallthrough", JBool b) :: rest) (f, d) = fstep rest (f <| f_track_ft := b |>, d).
Proof. reflexivity. Qed.
Lemma st_debug z rest f d : 0 <= z < two64 ->
  fstep ((s "debugEventsUntilDate", if z =? 0 then JNull else jint z) :: rest) (f, d)
  = fstep rest (onmeta f (fun m => m <| fm_debug_until := z |>), d).
Proof.
  intros H. cbn [fold_props]. unfold flag_step, is. destruct (z =? 0) eqn:E.
  - apply Z.eqb_eq in E. subst z. reflexivity.
  - unfold jint. cbn -[debug_date_of dy_of_Z]. rewrite (debug_rt z H). reflexivity.
Qed.
Lemma st_version z rest f d : in64 z ->
  fstep ((s "version", jint z) :: rest) (f, d) = fstep rest (onmeta f (fun m => m <| fm_version := z |>), d).
Proof. intros H. cbn [fold_props]. unfold flag_step, is. cbn -[rd_int jint]. rewrite (rd_int_jint z H). reflexivity. Qed.
Lemma st_deleted b rest f d :
  fstep ((s "deleted", JBool b) :: rest) (f, d) = fstep rest (onmeta f (fun m => m <| fm_deleted := b |>), d).
Proof. reflexivity. Qed.
Lemma st_migration cr rest f d : in64o cr ->
  fstep ((s "migration", JObj (maybe (is_some cr) "checkRatio" (jint (oz cr)))) :: rest) (f, d)
  = fstep rest (onmeta f (fun m => m <| fm_migration := Some cr |>), d).
Proof.
  intros H. cbn [fold_props]. unfold flag_step, is. destruct cr as [z|]; cbn -[rd_int jint]; [|reflexivity].
  rewrite (rd_int_jint z) by (apply H; reflexivity). reflexivity.
Qed.
Lemma st_sampling z rest f d : in64 z ->
  fstep ((s "samplingRatio", jint z) :: rest) (f, d) = fstep rest (onmeta f (fun m => m <| fm_sampling := Some z |>), d).
Proof. intros H. cbn [fold_props]. unfold flag_step, is. cbn -[rd_int jint]. rewrite (rd_int_jint z H). reflexivity. Qed.
Lemma st_exclude rest f d :
  fstep ((s "excludeFromSummaries", JBool true) :: rest) (f, d) = fstep rest (f <| f_exclude := true |>, d).
Proof. reflexivity. Qed.

Theorem decode_encode_flag f : wf_flag f -> decode_flag (encode_flag f) = Some (canon_flag f).
Proof.
  intros [Hp [Ht [Hct [Hr [Hft [Hoff [Hver [Hdbg [Hsamp Hmig]]]]]]]]].
  unfold decode_flag, encode_flag, rd_object, canon_flag, canon_meta, enc_targets.
  destruct f as [key on pre tg ctg rules ft off vars salt tft excl m]; destruct m as [ver del tev dbg csm cse csx samp mig];
    cbn [f_key f_on f_prereqs f_targets f_ctargets f_rules f_fallthrough f_off f_vars f_salt f_track_ft f_exclude f_meta
         fm_version fm_deleted fm_track_events fm_debug_until fm_cs_mobile fm_cs_env fm_cs_explicit fm_sampling fm_migration] in *.
  cbn [app].
  rewrite st_key, st_on, (st_prereqs _ _ _ _ Hp), (st_targets _ _ _ _ Ht), (st_ctargets _ _ _ _ Hct), (st_rules _ _ _ _ Hr).
  rewrite (st_fallthrough _ _ _ _ Hft) by reflexivity. rewrite (st_off _ _ _ _ Hoff), st_variations.
  destruct csx; cbn [maybe app]; rewrite ?st_csa; rewrite st_client_side, st_salt, st_track_events, st_track_ft,
    (st_debug _ _ _ _ Hdbg), (st_version _ _ _ _ Hver), st_deleted.
  all: destruct mig as [cr|]; cbn [app]; [rewrite (st_migration cr) by (apply Hmig; reflexivity)|].
  all: destruct samp as [sr|]; cbn [is_some maybe app oz]; [rewrite (st_sampling sr) by (apply Hsamp; reflexivity)|].
  all: destruct excl; cbn [maybe app]; rewrite ?st_exclude; reflexivity.
Qed.

(* ---- canonical forms: idempotent, well-formed, and invisible to the encoder ---- *)
Lemma canon_vorr_idem x : canon_vorr (canon_vorr x) = canon_vorr x.
Proof. unfold canon_vorr. simpl. destruct (ro_vars (vr_rollout x)) eqn:E; simpl; [reflexivity|rewrite E; reflexivity]. Qed.
Lemma enc_canon_vorr x : enc_vorr_props (canon_vorr x) = enc_vorr_props x.
Proof. unfold enc_vorr_props, canon_vorr. simpl. destruct (ro_vars (vr_rollout x)) eqn:E; simpl; [reflexivity|rewrite E; reflexivity]. Qed.
Lemma wf_rollout0 : wf_rollout rollout0.
Proof.
  unfold wf_rollout, rollout0. simpl. split; [constructor|]. split; [intros z H; discriminate|reflexivity].
Qed.
Lemma wf_canon_vorr x : wf_vorr x -> wf_vorr (canon_vorr x).
Proof. intros [H1 H2]. split; [exact H1|]. unfold canon_vorr. simpl. destruct (ro_vars (vr_rollout x)); [apply wf_rollout0|exact H2]. Qed.

Lemma enc_canon_clause c : enc_clause (canon_clause c) = enc_clause c.
Proof. reflexivity. Qed.
Lemma enc_canon_target t : enc_target (canon_target t) = enc_target t.
Proof. reflexivity. Qed.
Lemma enc_canon_rule r : enc_rule (canon_rule r) = enc_rule r.
Proof.
  unfold enc_rule, canon_rule. simpl. rewrite enc_canon_vorr. unfold enc_clauses. rewrite map_map.
  f_equal.
Qed.

Lemma canon_rule_idem r : canon_rule (canon_rule r) = canon_rule r.
Proof. unfold canon_rule. simpl. rewrite canon_vorr_idem, map_map. reflexivity. Qed.
Lemma wf_canon_rule r : wf_rule r -> wf_rule (canon_rule r).
Proof.
  intros [H1 H2]. split; [apply wf_canon_vorr; exact H1|]. simpl. rewrite Forall_forall in *. intros c Hin.
  apply in_map_iff in Hin. destruct Hin as [c0 [Hc Hin]]. subst c. apply (H2 c0 Hin).
Qed.

Lemma canon_meta_idem m : canon_meta (canon_meta m) = canon_meta m.
Proof. unfold canon_meta. destruct (fm_cs_explicit m) eqn:E; [rewrite E; reflexivity|reflexivity]. Qed.

Theorem canon_flag_idem f : canon_flag (canon_flag f) = canon_flag f.
Proof.
  unfold canon_flag. simpl. rewrite !map_map, canon_vorr_idem, canon_meta_idem. f_equal.
  apply map_ext. intros r. apply canon_rule_idem.
Qed.

Theorem encode_canon_flag f : encode_flag (canon_flag f) = encode_flag f.
Proof.
  destruct f as [key on pre tg ctg rules ft off vars salt tft excl m]; destruct m as [ver del tev dbg csm cse csx samp mig].
  unfold canon_flag, canon_meta, encode_flag, enc_targets.
  cbn [f_key f_on f_prereqs f_targets f_ctargets f_rules f_fallthrough f_off f_vars f_salt f_track_ft f_exclude f_meta
       fm_version fm_deleted fm_track_events fm_debug_until fm_cs_mobile fm_cs_env fm_cs_explicit fm_sampling fm_migration].
  rewrite !map_map, enc_canon_vorr.
  rewrite (map_ext (fun x => enc_rule (canon_rule x)) enc_rule) by (intros r; apply enc_canon_rule).
  rewrite (map_ext (fun x => enc_target (canon_target x)) enc_target) by reflexivity.
  destruct csx; reflexivity.
Qed.

Lemma Forall_map_canon {A} (P : A -> Prop) (g : A -> A) l : (forall x, P x -> P (g x)) -> Forall P l -> Forall P (map g l).
Proof. intros Hg H. induction H; simpl; constructor; auto. Qed.

Theorem wf_canon_flag f : wf_flag f -> wf_flag (canon_flag f).
Proof.
  intros [Hp [Ht [Hct [Hr [Hft [Hoff Hm]]]]]]. unfold wf_flag, canon_flag.
  cbn [f_prereqs f_targets f_ctargets f_rules f_fallthrough f_off f_meta].
  split; [exact Hp|]. split; [apply Forall_map_canon; [intros t H; exact H|exact Ht]|].
  split; [apply Forall_map_canon; [intros t H; exact H|exact Hct]|].
  split; [apply Forall_map_canon; [apply wf_canon_rule|exact Hr]|].
  split; [apply wf_canon_vorr; exact Hft|]. split; [exact Hoff|].
  unfold canon_meta, wf_meta in *. destruct (fm_cs_explicit (f_meta f)); [exact Hm|]. exact Hm.
Qed.

(* C15: one encode/decode step reaches a fixed point -- same JSON, same value from then on *)
Theorem flag_fixed_point_after_one_step f1 :
  wf_flag f1 ->
  exists f2, decode_flag (encode_flag f1) = Some f2 /\ encode_flag f2 = encode_flag f1 /\
             decode_flag (encode_flag f2) = Some f2.
Proof.
  intros H. exists (canon_flag f1). split; [apply decode_encode_flag; exact H|]. split; [apply encode_canon_flag|].
  rewrite (decode_encode_flag _ (wf_canon_flag _ H)). rewrite canon_flag_idem. reflexivity.
Qed.

(* a value whose lookup data is not precomputed and whose rollouts are either absent or non-empty is returned
   exactly: decode (encode v) = v *)
Definition exact_flag (f : flag) : Prop := canon_flag f = f.
Theorem builder_value_round_trip f : wf_flag f -> exact_flag f -> decode_flag (encode_flag f) = Some f.
Proof. intros H E. rewrite (decode_encode_flag f H). rewrite E. reflexivity. Qed.

(* the hypotheses are satisfiable by a non-trivial flag *)
Definition sample_flag : flag :=
  mkflag (s "f") true [mkprereq (s "p") 1] [mktarget [] [s "a"] 0 None] [mktarget (s "org") [s "b"] 1 None]
    [mkrule (mkvorr None (mkrollout (s "experiment") (s "org") [mkwvar 0 60000 false; mkwvar 1 40000 true]
                                     (new_ref (s "/a/b")) (Some 7)))
            (s "r1") [mkclause (s "org") (new_ref (s "/addr/city")) op_in [JStr (s "x"); JNull] true cpre_none;
                      mkclause [] (new_literal_ref (s "/name")) op_matches [JStr (s "^a")] false cpre_none] true]
    (mkvorr (Some 1) rollout0) (Some 0) [JBool true; JStr (s "v")] (s "salt") true true
    (mkfmeta 3 false true 1577836800000 true true true (Some 10) (Some (Some 5))).

Ltac wf_solve :=
  repeat match goal with
  | |- _ /\ _ => split
  | |- Forall _ [] => constructor
  | |- Forall _ (_ :: _) => constructor
  | |- in64 _ => unfold in64, two63; cbn; lia
  | |- in64o _ => let z := fresh in let H := fresh in intros z H; inversion H; subst; unfold in64, two63; cbn; lia
  | |- ref_rt _ _ => reflexivity
  | |- wf_prereq _ => unfold wf_prereq
  | |- wf_target _ => unfold wf_target
  | |- wf_rule _ => unfold wf_rule
  | |- wf_vorr _ => unfold wf_vorr
  | |- wf_rollout _ => unfold wf_rollout
  | |- wf_clause _ => unfold wf_clause
  | |- wf_wvar _ => unfold wf_wvar
  | |- _ <= _ < _ => unfold two64; cbn; lia
  | |- in_u64 _ => unfold in_u64, two64; cbn; lia
  | |- _ => progress cbn [ru_vr ru_clauses vr_var vr_rollout ro_vars ro_seed ro_bucket_by ro_ctxkind pq_var t_var wv_var wv_weight cl_attr cl_kind]
  end.

Example sample_flag_wf : wf_flag sample_flag /\ exact_flag sample_flag.
Proof.
  split; [|vm_compute; reflexivity].
  unfold wf_flag, sample_flag, wf_meta. cbn [f_prereqs f_targets f_ctargets f_rules f_fallthrough f_off f_meta
    fm_version fm_debug_until fm_sampling fm_migration ru_vr ru_clauses vr_var vr_rollout ro_vars ro_seed ro_bucket_by ro_ctxkind
    pq_var t_var wv_var wv_weight cl_attr cl_kind].
  wf_solve.
  all: try (intros cr H; inversion H; subst; wf_solve).
  all: try (unfold two64; lia). constructor.
Qed.

Example sample_flag_round_trip : decode_flag (encode_flag sample_flag) = Some sample_flag.
Proof. vm_compute. reflexivity. Qed.

(* ---------------- segments ---------------- *)
Definition canon_segtarget (t : segtarget) : segtarget := mksegtarget (st_kind t) (st_values t) None.
Lemma rt_segtarget t : rd_segtarget (enc_segtarget t) = Some (canon_segtarget t).
Proof.
  unfold canon_segtarget, rd_segtarget, enc_segtarget, rd_object, jstr_list.
  destruct (st_kind t) as [|k ks] eqn:Hk; cbn [nonempty maybe app fold_props]; unfold is; cbn -[rd_items];
    rewrite rd_strings; reflexivity.
Qed.

Definition canon_segrule (r : segrule) : segrule :=
  mksegrule (sr_id r) (map canon_clause (sr_clauses r)) (sr_weight r) (sr_bucket_by r) (sr_kind r).
Definition wf_segrule (r : segrule) : Prop :=
  Forall wf_clause (sr_clauses r) /\ in64o (sr_weight r) /\ ref_rt (sr_bucket_by r) (sr_kind r).

Lemma rt_segrule r : wf_segrule r -> rd_segrule (enc_segrule r) = Some (canon_segrule r).
Proof.
  intros [Hc [Hw Hr]]. unfold rd_segrule, enc_segrule, rd_object, canon_segrule, enc_clauses.
  unfold ref_rt, enc_ref_str in Hr. rewrite enc_attr_ref_str.
  destruct r as [id cls w bb kind]; cbn [sr_id sr_clauses sr_weight sr_bucket_by sr_kind] in *.
  destruct w as [wz|]; destruct (ref_defined bb) eqn:Hd; destruct kind as [|k0 k1];
    cbn [is_some nonempty maybe app fold_props oz]; unfold is;
    cbn -[rd_items rd_clause enc_clause rd_int_or_null jint attr_name_or_ref ref_component ref_string];
    rewrite (rd_clauses cls [] Hc);
    cbn -[rd_int_or_null jint attr_name_or_ref ref_component ref_string];
    rewrite ?rd_int_or_null_jint by (apply Hw; reflexivity);
    cbn -[attr_name_or_ref ref_component ref_string]; rewrite Hr; reflexivity.
Qed.

Definition canon_segment (sg : segment) : segment :=
  mksegment (sg_key sg) (sg_included sg) (sg_excluded sg) (map canon_segtarget (sg_inc_ctx sg))
            (map canon_segtarget (sg_exc_ctx sg)) (sg_salt sg) (map canon_segrule (sg_rules sg)) (sg_unbounded sg)
            (sg_unb_kind sg) (sg_version sg) (sg_generation sg) (sg_deleted sg) None None.
Definition wf_segment (sg : segment) : Prop :=
  Forall wf_segrule (sg_rules sg) /\ in64 (sg_version sg) /\ in64o (sg_generation sg).

Lemma rd_segtargets l acc : rd_items rd_segtarget (map enc_segtarget l) acc = Some (acc ++ map canon_segtarget l).
Proof. apply rd_items_map. intros t _. apply rt_segtarget. Qed.
Lemma rd_segrules l acc : Forall wf_segrule l -> rd_items rd_segrule (map enc_segrule l) acc = Some (acc ++ map canon_segrule l).
Proof. intros H. apply rd_items_map. intros r Hin. rewrite Forall_forall in H. apply rt_segrule. apply H. exact Hin. Qed.

Theorem decode_encode_segment sg : wf_segment sg -> decode_segment (encode_segment sg) = Some (canon_segment sg).
Proof.
  intros [Hr [Hv Hg]]. unfold decode_segment, encode_segment, rd_object, canon_segment, enc_segtargets, jstr_list.
  destruct sg as [key inc exc ic ec salt rules unb uk ver gen del pi pe];
    cbn [sg_key sg_included sg_excluded sg_inc_ctx sg_exc_ctx sg_salt sg_rules sg_unbounded sg_unb_kind sg_version
         sg_generation sg_deleted] in *.
  destruct unb; destruct uk as [|u0 u1];
    cbn [nonempty maybe app fold_props]; unfold segment_step, is;
    repeat (cbn -[rd_items rd_segtarget enc_segtarget rd_segrule enc_segrule rd_int jint rd_int_or_null enc_opt_int];
            first [ rewrite rd_strings | rewrite rd_segtargets | rewrite (rd_segrules rules [] Hr)
                  | rewrite (rd_int_jint ver Hv) | rewrite (rd_int_or_null_enc gen Hg) ]);
    reflexivity.
Qed.

Theorem canon_segment_idem sg : canon_segment (canon_segment sg) = canon_segment sg.
Proof.
  unfold canon_segment. simpl. rewrite !map_map. f_equal.
  apply map_ext. intros r. unfold canon_segrule. simpl. rewrite map_map. reflexivity.
Qed.
Theorem encode_canon_segment sg : encode_segment (canon_segment sg) = encode_segment sg.
Proof.
  unfold encode_segment, canon_segment, enc_segtargets. simpl. rewrite !map_map.
  rewrite (map_ext (fun x => enc_segtarget (canon_segtarget x)) enc_segtarget) by reflexivity.
  rewrite (map_ext (fun x => enc_segrule (canon_segrule x)) enc_segrule); [reflexivity|].
  intros r. unfold enc_segrule, canon_segrule, enc_clauses. simpl. rewrite map_map. reflexivity.
Qed.
Theorem wf_canon_segment sg : wf_segment sg -> wf_segment (canon_segment sg).
Proof.
  intros [Hr [Hv Hg]]. unfold wf_segment, canon_segment. simpl. split; [|split; assumption].
  apply Forall_map_canon; [|exact Hr]. intros r [H1 [H2 H3]]. unfold wf_segrule, canon_segrule. simpl.
  split; [|split; assumption]. rewrite Forall_forall in *. intros c Hin. apply in_map_iff in Hin.
  destruct Hin as [c0 [E Hin]]. subst c. apply (H1 c0 Hin).
Qed.
Theorem segment_fixed_point_after_one_step s1 :
  wf_segment s1 ->
  exists s2, decode_segment (encode_segment s1) = Some s2 /\ encode_segment s2 = encode_segment s1 /\
             decode_segment (encode_segment s2) = Some s2.
Proof.
  intros H. exists (canon_segment s1). split; [apply decode_encode_segment; exact H|]. split; [apply encode_canon_segment|].
  rewrite (decode_encode_segment _ (wf_canon_segment _ H)). rewrite canon_segment_idem. reflexivity.
Qed.

(* The simple ASCII scanner shared by the RFC 3339 parser (ldmodel/parse_time.go) and go-semver. *)
From LD Require Import Base.
Open Scope Z_scope.

Inductive term := TChar (c : N) | TEof | TNonAscii.

Definition is_ascii (c : N) : bool := negb (N.eqb c 0) && N.leb c 127.

(* readUntil: returns the substring before the terminator, the terminator, and the rest.
   A terminating character is consumed; a non-ASCII byte (or NUL) is not. *)
Fixpoint read_until (p : N -> bool) (x : str) : str * term * str :=
  match x with
  | [] => ([], TEof, [])
  | c :: r =>
    if negb (is_ascii c) then ([], TNonAscii, x)
    else if p c then ([], TChar c, r)
    else let '(sub, t, rest) := read_until p r in (c :: sub, t, rest)
  end.

Definition is_digit (c : N) : bool := N.leb 48 c && N.leb c 57.

(* parsePositiveNumericString of parse_time.go (leading zeros allowed), Go int arithmetic *)
Fixpoint digits_val (acc : Z) (x : str) : option Z :=
  match x with
  | [] => Some acc
  | c :: r => if is_digit c then digits_val (wrap64 (acc * 10 + (Z.of_N c - 48))) r else None
  end.
Definition parse_num (x : str) : option Z :=
  match x with [] => None | _ => digits_val 0 x end.

(* go-semver's variant: a leading zero is rejected when there is more than one character *)
Definition parse_num_nolead (x : str) : option Z :=
  match x with
  | [] => None
  | c :: _ :: _ => if N.eqb c 48 then None else digits_val 0 x
  | _ => digits_val 0 x
  end.

Definition term_is (t : term) (c : N) : bool := match t with TChar d => N.eqb c d | _ => false end.

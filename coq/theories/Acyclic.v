(* C10, second half: on acyclic reference graphs the cycle detection is invisible. A flag or segment that is merely
   reachable along several acyclic paths (diamonds), at any depth, is evaluated exactly as an evaluator with NO cycle check
   at all would evaluate it: same result, same state, same trace, for every fuel, every path prefix and every start state.
   Acyclicity is stated with a rank function that strictly decreases along every prerequisite edge / segment reference
   that the store can resolve. *)
From LD Require Import Base F32 Data Semver Model Ops Bucket Eval EvalFacts Safety.
Open Scope Z_scope.

Definition meq {A} (m1 m2 : M A) : Prop := forall st, m1 st = m2 st.
Infix "==" := meq (at level 70).

Lemma meq_refl {A} (m : M A) : m == m.
Proof. intros st; reflexivity. Qed.
Lemma bind_ext {A B} (m1 m2 : M A) (f1 f2 : A -> M B) : m1 == m2 -> (forall a, f1 a == f2 a) -> bind m1 f1 == bind m2 f2.
Proof. intros Hm Hf st. unfold bind. rewrite Hm. destruct (m2 st) as [[a| |] st1]; [apply Hf|reflexivity|reflexivity]. Qed.

Section Acyclic.
Variable re_ok : str -> bool.
Variable re_match : str -> str -> bool.
Variable o : opts.
Variable E : env.
Variable P : bsprov.
Variable c : ctx.

(* ---------------- segments ---------------- *)

(* segment evaluation with no cycle detection and no path *)
Fixpoint seg_nc (fuel : nat) (sg : segment) : M (er bool) :=
  match fuel with
  | O => out_of_fuel
  | S n =>
    early <- seg_early P c sg ;;
    match early with
    | Some b => ret (Ok b)
    | None => seg_rules (seg_rule_match re_ok re_match o E c (seg_nc n) sg) (sg_key sg) (sg_rules sg)
    end
  end.

Variable srank : str -> nat.

(* every segment reference the store can resolve goes to a segment of strictly smaller rank *)
Definition seg_refs_ok (sg : segment) : Prop :=
  forall r cl k sg', In r (sg_rules sg) -> In cl (sr_clauses r) -> str_eqb (cl_op cl) op_segment = true ->
    In (JStr k) (cl_values cl) -> assoc k (e_segments E) = Some sg' -> (srank (sg_key sg') < srank (sg_key sg))%nat.
Definition acyclic_segments : Prop := forall k sg, assoc k (e_segments E) = Some sg -> seg_refs_ok sg.

Lemma seg_match_values_ext sc1 sc2 neg vals :
  (forall k sg', In (JStr k) vals -> assoc k (e_segments E) = Some sg' -> sc1 sg' == sc2 sg') ->
  seg_match_values E sc1 neg vals == seg_match_values E sc2 neg vals.
Proof.
  induction vals as [|v r IH]; intros H; cbn [seg_match_values]; [apply meq_refl|].
  assert (Hr : seg_match_values E sc1 neg r == seg_match_values E sc2 neg r).
  { apply IH. intros k sg' Hin Ha. apply (H k sg'); [right; exact Hin|exact Ha]. }
  destruct v; try exact Hr.
  apply bind_ext; [apply meq_refl|]. intros _.
  destruct (assoc x (e_segments E)) as [sg'|] eqn:Ha; [|exact Hr].
  apply bind_ext; [apply (H x sg'); [left; reflexivity|exact Ha]|].
  intros [[|]|e]; try apply meq_refl. exact Hr.
Qed.

Lemma clause_match_ext sc1 sc2 cl :
  (forall k sg', str_eqb (cl_op cl) op_segment = true -> In (JStr k) (cl_values cl) ->
                 assoc k (e_segments E) = Some sg' -> sc1 sg' == sc2 sg') ->
  clause_match re_ok re_match E c sc1 cl == clause_match re_ok re_match E c sc2 cl.
Proof.
  intros H. unfold clause_match. destruct (str_eqb (cl_op cl) op_segment) eqn:Hop; [|apply meq_refl].
  apply seg_match_values_ext. intros k sg' Hin Ha. apply (H k sg'); auto.
Qed.

Lemma first_clause_ext cm1 cm2 cls : (forall cl, In cl cls -> cm1 cl == cm2 cl) -> first_clause cm1 cls == first_clause cm2 cls.
Proof.
  induction cls as [|cl r IH]; intros H; cbn [first_clause]; [apply meq_refl|].
  apply bind_ext; [apply H; left; reflexivity|]. intros [[|]|e]; try apply meq_refl.
  apply IH. intros x Hx. apply H. right; exact Hx.
Qed.

Lemma seg_rule_match_ext sc1 sc2 sg r :
  (forall cl k sg', In cl (sr_clauses r) -> str_eqb (cl_op cl) op_segment = true -> In (JStr k) (cl_values cl) ->
                    assoc k (e_segments E) = Some sg' -> sc1 sg' == sc2 sg') ->
  seg_rule_match re_ok re_match o E c sc1 sg r == seg_rule_match re_ok re_match o E c sc2 sg r.
Proof.
  intros H. unfold seg_rule_match. apply bind_ext; [|intros a; apply meq_refl].
  apply first_clause_ext. intros cl Hin. apply clause_match_ext. intros k sg' Hop Hk Ha. apply (H cl k sg'); auto.
Qed.

Lemma seg_rules_ext rm1 rm2 key rs : (forall r, In r rs -> rm1 r == rm2 r) -> seg_rules rm1 key rs == seg_rules rm2 key rs.
Proof.
  induction rs as [|r rest IH]; intros H; cbn [seg_rules]; [apply meq_refl|].
  apply bind_ext; [apply H; left; reflexivity|]. intros [[|]|e]; try apply meq_refl.
  apply IH. intros x Hx. apply H. right; exact Hx.
Qed.

Hypothesis HS : acyclic_segments.

Theorem seg_contains_nocheck : forall fuel chain sg,
  seg_refs_ok sg -> (forall k, In k chain -> (srank (sg_key sg) < srank k)%nat) ->
  seg_contains re_ok re_match o E P c fuel chain sg == seg_nc fuel sg.
Proof.
  induction fuel as [|n IH]; intros chain sg Hok Hch; [apply meq_refl|].
  rewrite seg_contains_unfold. cbn [seg_nc].
  destruct (mem_str (sg_key sg) chain) eqn:Hm.
  { apply mem_str_In in Hm. specialize (Hch _ Hm). lia. }
  apply bind_ext; [apply meq_refl|]. intros [b|]; [apply meq_refl|].
  apply seg_rules_ext. intros r Hr. apply seg_rule_match_ext. intros cl k sg' Hcl Hop Hk Ha.
  apply IH.
  - exact (HS k sg' Ha).
  - intros k' Hk'. pose proof (Hok r cl k sg' Hr Hcl Hop Hk Ha) as Hlt.
    apply in_app_or in Hk'. destruct Hk' as [Hk'|[Hk'|[]]]; [specialize (Hch _ Hk'); lia|subst k'; exact Hlt].
Qed.

(* from the empty path, as the flag rules call it *)
Corollary stored_segment_nocheck fuel k sg : assoc k (e_segments E) = Some sg ->
  seg_contains re_ok re_match o E P c fuel [] sg == seg_nc fuel sg.
Proof. intros Ha. apply seg_contains_nocheck; [exact (HS k sg Ha)|intros k' []]. Qed.

(* ---------------- flags ---------------- *)

Fixpoint eval_nc (fuel : nat) (f : flag) : M (detail * bool) :=
  match fuel with
  | O => out_of_fuel
  | S n =>
    if negb (f_on f) then d <- off_value o f (plain_reason ROff) ;; ret (d, true)
    else
      p <- (match f_prereqs f with
            | [] => ret POk
            | ps => prereq_loop o E (eval_nc n) f [] ps
            end) ;;
      match p with
      | PAbort => ret (err_detail KMalformed, false)
      | PFailed k => d <- off_value o f (plain_reason (RPrereqFailed k)) ;; ret (d, true)
      | POk =>
        match any_target_match c f with
        | Some v => d <- get_variation o f v (plain_reason RTarget) ;; ret (d, true)
        | None => rules_loop re_ok re_match o E c (seg_nc (seg_fuel E)) f (f_rules f) 0
        end
      end
  end.

Variable frank : str -> nat.
Definition prereqs_ok (g : flag) : Prop :=
  forall p pf, In p (f_prereqs g) -> assoc (pq_key p) (e_flags E) = Some pf -> (frank (f_key pf) < frank (f_key g))%nat.
Definition acyclic_flags : Prop := forall k g, assoc k (e_flags E) = Some g -> prereqs_ok g.
Hypothesis HF : acyclic_flags.

Lemma prereq_loop_nocheck ev1 ev2 f chain' ps :
  (forall p pf, In p ps -> assoc (pq_key p) (e_flags E) = Some pf -> mem_str (f_key pf) chain' = false /\ ev1 pf == ev2 pf) ->
  prereq_loop o E ev1 f chain' ps == prereq_loop o E ev2 f [] ps.
Proof.
  induction ps as [|p rest IH]; intros H; cbn [prereq_loop]; [apply meq_refl|].
  apply bind_ext; [apply meq_refl|]. intros _.
  destruct (assoc (pq_key p) (e_flags E)) as [pf|] eqn:Ha; [|apply meq_refl].
  destruct (H p pf (or_introl eq_refl) Ha) as [H1 H2]. rewrite H1. cbn [mem_str existsb].
  apply bind_ext; [exact H2|]. intros [d ok]. destruct (negb ok); [apply meq_refl|].
  apply bind_ext; [apply meq_refl|]. intros _. destruct (_ || _); [apply meq_refl|].
  apply IH. intros p' pf' Hin Ha'. apply (H p' pf'); [right; exact Hin|exact Ha'].
Qed.

Lemma rules_loop_ext sc1 sc2 f rs i :
  (forall k sg', assoc k (e_segments E) = Some sg' -> sc1 sg' == sc2 sg') ->
  rules_loop re_ok re_match o E c sc1 f rs i == rules_loop re_ok re_match o E c sc2 f rs i.
Proof.
  intros H. revert i. induction rs as [|ru rest IH]; intros i; cbn [rules_loop]; [apply meq_refl|].
  apply bind_ext.
  - apply first_clause_ext. intros cl _. apply clause_match_ext. intros k sg' _ _ Ha. exact (H k sg' Ha).
  - intros [[|]|e]; try apply meq_refl. apply IH.
Qed.

Theorem eval_flag_nocheck : forall fuel chain f,
  prereqs_ok f -> (forall k, In k chain -> (frank (f_key f) < frank k)%nat) ->
  eval_flag re_ok re_match o E P c fuel chain f == eval_nc fuel f.
Proof.
  induction fuel as [|n IH]; intros chain f Hok Hch; [apply meq_refl|].
  cbn [eval_flag eval_nc].
  destruct (negb (f_on f)); [apply meq_refl|].
  apply bind_ext.
  - destruct (f_prereqs f) as [|p0 ps] eqn:Hps; [apply meq_refl|].
    change (prereq_loop o E (eval_flag re_ok re_match o E P c n (chain ++ [f_key f])) f (chain ++ [f_key f]) (p0 :: ps) ==
            prereq_loop o E (eval_nc n) f [] (p0 :: ps)).
    apply prereq_loop_nocheck. intros p pf Hin Ha.
    assert (Hlt : (frank (f_key pf) < frank (f_key f))%nat) by (apply (Hok p pf); [rewrite Hps; exact Hin|exact Ha]).
    split.
    + destruct (mem_str (f_key pf) (chain ++ [f_key f])) eqn:Hm; [|reflexivity].
      apply mem_str_In in Hm. apply in_app_or in Hm. destruct Hm as [Hm|[Hm|[]]].
      * specialize (Hch _ Hm). lia.
      * rewrite <- Hm in Hlt. lia.
    + apply IH; [exact (HF _ _ Ha)|]. intros k Hk. apply in_app_or in Hk. destruct Hk as [Hk|[Hk|[]]].
      * specialize (Hch _ Hk). lia.
      * subst k. exact Hlt.
  - intros [|k|]; try apply meq_refl.
    destruct (any_target_match c f); [apply meq_refl|].
    apply rules_loop_ext. intros k sg' Ha. exact (stored_segment_nocheck (seg_fuel E) k sg' Ha).
Qed.

(* the top-level call: empty path *)
Corollary acyclic_store_evaluates_without_cycle_check f st :
  prereqs_ok f ->
  eval_flag re_ok re_match o E P c (flag_fuel E) [] f st = eval_nc (flag_fuel E) f st.
Proof. intros Hok. apply eval_flag_nocheck; [exact Hok|intros k []]. Qed.

End Acyclic.

(* non-vacuity: a diamond (top -> left, right -> shared) satisfies the hypotheses with an explicit rank *)
Definition mkf (k : str) (ps : list str) : flag :=
  mkflag k true (map (fun p => mkprereq p 0) ps) [] [] [] (mkvorr (Some 0) (mkrollout [] [] [] ref_undef None)) None [JBool true] [] false false
         (mkfmeta 0 false false 0 false false false None None).
Definition diamond : env :=
  mkenv [(s "left", mkf (s "left") [s "shared"]); (s "right", mkf (s "right") [s "shared"]); (s "shared", mkf (s "shared") [])] [].
Definition diamond_rank (k : str) : nat :=
  if str_eqb k (s "top") then 3 else if str_eqb k (s "left") then 2 else if str_eqb k (s "right") then 2 else 0.
Example diamond_is_acyclic :
  acyclic_flags diamond diamond_rank /\ prereqs_ok diamond diamond_rank (mkf (s "top") [s "left"; s "right"]) /\
  acyclic_segments diamond (fun _ => 0%nat).
Proof.
  split; [|split].
  - intros k g Ha p pf Hin Hp. simpl in Ha.
    repeat match type of Ha with
    | (if ?b then _ else _) = _ => destruct b
    | Some _ = Some _ => inversion Ha; subst; clear Ha
    | None = Some _ => discriminate
    end; simpl in Hin;
    repeat match type of Hin with
    | _ \/ _ => destruct Hin as [Hin|Hin]
    | False => destruct Hin
    | _ = _ => subst p
    end; vm_compute in Hp; inversion Hp; subst; vm_compute; lia.
  - intros p pf Hin Hp. simpl in Hin. destruct Hin as [Hin|[Hin|[]]]; subst p; vm_compute in Hp; inversion Hp; subst; vm_compute; lia.
  - intros k sg Ha. simpl in Ha. discriminate.
Qed.

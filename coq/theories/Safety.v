(* Totality of the model: with the fuel that `run` supplies, evaluation never runs out of fuel and never reaches a
   panic site, for every flag, context, store and provider (C10 termination, C01 totality). *)
From LD Require Import Base F32 Data Semver Model Ops Bucket Eval EvalFacts.
Open Scope Z_scope.

Definition ok_res {A} (r : res A) : Prop := match r with Done _ => True | _ => False end.
Definition safe {A} (m : M A) : Prop := forall st, ok_res (fst (m st)).

Lemma safe_ret {A} (a : A) : safe (ret a).
Proof. intros st; exact I. Qed.
Lemma safe_emit x : safe (emit x).
Proof. intros st; exact I. Qed.
Lemma safe_set_status b : safe (set_status b).
Proof. intros st; exact I. Qed.
Lemma safe_bind {A B} (m : M A) (f : A -> M B) : safe m -> (forall a, safe (f a)) -> safe (bind m f).
Proof.
  intros Hm Hf st. unfold bind. specialize (Hm st). destruct (m st) as [r st']. simpl in Hm.
  destruct r; try contradiction. apply Hf.
Qed.

Ltac safe_tac :=
  repeat first
    [ apply safe_ret | apply safe_emit | apply safe_set_status
    | apply safe_bind; [ | intros ? ] ].

Section Safety.
Variable re_ok : str -> bool.
Variable re_match : str -> str -> bool.
Variable o : opts.
Variable E : env.
Variable P : bsprov.
Variable c : ctx.

Lemma safe_log k e : safe (log o k e).
Proof. unfold log. destruct (o_logger o); safe_tac. Qed.

Lemma safe_membership_for k : safe (membership_for P k).
Proof.
  intros st. unfold membership_for. destruct (assoc k (s_cache st)); [exact I|]. destruct P; exact I.
Qed.

Lemma safe_first_clause cm cls : (forall cl, safe (cm cl)) -> safe (first_clause cm cls).
Proof.
  intros H. induction cls as [|cl r IH]; simpl; [apply safe_ret|].
  apply safe_bind; [apply H|]. intros [[|]|e]; try apply safe_ret. exact IH.
Qed.

Definition seg_keys : list str := map (fun kv => sg_key (snd kv)) (e_segments E).
Definition flag_keys : list str := map (fun kv => f_key (snd kv)) (e_flags E).

Lemma assoc_in {A} k (l : list (str * A)) v : assoc k l = Some v -> exists k', In (k', v) l.
Proof.
  induction l as [|[k' v'] r IH]; simpl; [discriminate|].
  destruct (str_eqb k k').
  - intros H; inversion H; subst. exists k'. now left.
  - intros H. destruct (IH H) as [k'' Hin]. exists k''. now right.
Qed.

Lemma assoc_seg_key k sg : assoc k (e_segments E) = Some sg -> In (sg_key sg) seg_keys.
Proof.
  intros H. destruct (assoc_in _ _ _ H) as [k' Hin]. unfold seg_keys.
  apply in_map_iff. exists (k', sg). split; [reflexivity|exact Hin].
Qed.
Lemma assoc_flag_key k f : assoc k (e_flags E) = Some f -> In (f_key f) flag_keys.
Proof.
  intros H. destruct (assoc_in _ _ _ H) as [k' Hin]. unfold flag_keys.
  apply in_map_iff. exists (k', f). split; [reflexivity|exact Hin].
Qed.

Lemma safe_seg_match_values segc neg vals :
  (forall k sg, assoc k (e_segments E) = Some sg -> safe (segc sg)) -> safe (seg_match_values E segc neg vals).
Proof.
  intros H. induction vals as [|v r IH]; simpl; [apply safe_ret|].
  destruct v; try exact IH.
  apply safe_bind; [apply safe_emit|]. intros _.
  destruct (assoc x (e_segments E)) eqn:Ha; [|exact IH].
  apply safe_bind; [eapply H; eauto|]. intros [[|]|e]; try apply safe_ret. exact IH.
Qed.

Lemma safe_clause_match segc cl :
  (forall k sg, assoc k (e_segments E) = Some sg -> safe (segc sg)) ->
  safe (clause_match re_ok re_match E c segc cl).
Proof.
  intros H. unfold clause_match. destruct (str_eqb _ _); [apply safe_seg_match_values; exact H|apply safe_ret].
Qed.

Lemma safe_seg_rule_match segc sg r :
  (forall k sg, assoc k (e_segments E) = Some sg -> safe (segc sg)) ->
  safe (seg_rule_match re_ok re_match o E c segc sg r).
Proof.
  intros H. unfold seg_rule_match. apply safe_bind.
  - apply safe_first_clause. intros cl. apply safe_clause_match. exact H.
  - intros [[|]|e]; try apply safe_ret.
    destruct (sr_weight r); [|apply safe_ret].
    destruct (compute_bucket _ _ _ _ _ _ _ _) as [[b []]|e]; apply safe_ret.
Qed.

Lemma safe_seg_rules rm key rs : (forall r, safe (rm r)) -> safe (seg_rules rm key rs).
Proof.
  intros H. induction rs as [|r rest IH]; simpl; [apply safe_ret|].
  apply safe_bind; [apply H|]. intros [[|]|e]; try apply safe_ret. exact IH.
Qed.

Lemma mem_str_In k l : mem_str k l = true <-> In k l.
Proof.
  unfold mem_str. rewrite existsb_exists. split.
  - intros [x [Hin He]]. apply str_eqb_eq in He. subst. exact Hin.
  - intros H. exists k. split; [exact H|apply str_eqb_refl].
Qed.

Lemma NoDup_snoc {A} (l : list A) x : NoDup l -> ~ In x l -> NoDup (l ++ [x]).
Proof.
  intros Hn Hx. induction l as [|a l IH]; simpl.
  - constructor; [intros []|constructor].
  - inversion Hn; subst. constructor.
    + rewrite in_app_iff. intros [H|[H|[]]]; [contradiction|]. subst. apply Hx. now left.
    + apply IH; [assumption|]. intros H. apply Hx. now right.
Qed.

(* fuel adequacy for the segment recursion: the chain is duplicate-free and made of keys of stored segments *)
Lemma safe_seg_contains : forall fuel chain sg,
  NoDup chain -> incl chain seg_keys -> In (sg_key sg) seg_keys ->
  (List.length seg_keys < fuel + List.length chain)%nat ->
  safe (seg_contains re_ok re_match o E P c fuel chain sg).
Proof.
  induction fuel as [|n IH]; intros chain sg Hnd Hincl Hin Hlen.
  - exfalso. pose proof (NoDup_incl_length Hnd Hincl). simpl in Hlen. lia.
  - simpl. destruct (mem_str (sg_key sg) chain) eqn:Hm; [apply safe_ret|].
    apply safe_bind.
    + destruct (sg_unbounded sg); [|apply safe_ret].
      destruct (sg_generation sg); [|safe_tac].
      destruct (ctx_key_by_kind c (sg_unb_kind sg)); [|safe_tac].
      apply safe_bind; [apply safe_emit|]. intros _.
      apply safe_bind; [apply safe_membership_for|]. intros [m|]; safe_tac.
    + intros [b|]; [apply safe_ret|].
      apply safe_seg_rules. intros r. apply safe_seg_rule_match. intros k sg' Ha.
      apply IH.
      * apply NoDup_snoc; [exact Hnd|]. intros Hc. apply mem_str_In in Hc. congruence.
      * intros x Hx. apply in_app_iff in Hx. destruct Hx as [Hx|[Hx|[]]]; [apply Hincl; exact Hx|subst; exact Hin].
      * eapply assoc_seg_key; eauto.
      * rewrite app_length. simpl. lia.
Qed.

Lemma safe_seg_top sg : In (sg_key sg) seg_keys -> safe (seg_contains re_ok re_match o E P c (seg_fuel E) [] sg).
Proof.
  intros Hin. apply safe_seg_contains; [constructor|intros x []|exact Hin|].
  unfold seg_fuel, seg_keys. rewrite map_length. simpl. lia.
Qed.

(* ---- flags ---- *)
Lemma vr_result_ok vr key salt : ok_res (vr_result o c vr key salt).
Proof.
  unfold vr_result. destruct (vr_var vr); [exact I|].
  destruct (ro_vars (vr_rollout vr)) as [|w ws] eqn:Hv; [exact I|].
  destruct (compute_bucket _ _ _ _ _ _ _ _) as [[b fl]|e]; [|exact I].
  destruct (scan b f32_zero (w :: ws)); [exact I|].
  destruct (last_opt_nonempty (w :: ws)) as [x Hx]; [discriminate|]. rewrite Hx. exact I.
Qed.

Lemma safe_get_variation f i r : safe (get_variation o f i r).
Proof. unfold get_variation. destruct (znth_opt _ _); [apply safe_ret|]. apply safe_bind; [apply safe_log|intros; apply safe_ret]. Qed.
Lemma safe_off_value f r : safe (off_value o f r).
Proof. unfold off_value. destruct (f_off f); [apply safe_get_variation|apply safe_ret]. Qed.
Lemma safe_vr_detail f vr r : safe (vr_detail o c f vr r).
Proof.
  unfold vr_detail. pose proof (vr_result_ok vr (f_key f) (f_salt f)) as H.
  destruct (vr_result o c vr (f_key f) (f_salt f)) as [[[i b]|e]| |]; try contradiction.
  - apply safe_get_variation.
  - apply safe_bind; [apply safe_log|intros; apply safe_ret].
Qed.

Lemma safe_rules_loop f rs i :
  safe (rules_loop re_ok re_match o E c (seg_contains re_ok re_match o E P c (seg_fuel E) []) f rs i).
Proof.
  revert i. induction rs as [|ru rest IH]; intros i; simpl.
  - apply safe_bind; [apply safe_vr_detail|intros; apply safe_ret].
  - apply safe_bind.
    + apply safe_first_clause. intros cl. apply safe_clause_match.
      exact (fun k sg Ha => safe_seg_top sg (assoc_seg_key k sg Ha)).
    + intros [[|]|e].
      * apply safe_bind; [apply safe_vr_detail|intros; apply safe_ret].
      * apply IH.
      * apply safe_bind; [apply safe_log|intros; apply safe_ret].
Qed.

Lemma safe_prereq_loop ev f chain' ps :
  (forall k pf, assoc k (e_flags E) = Some pf -> mem_str (f_key pf) chain' = false -> safe (ev pf)) ->
  safe (prereq_loop o E ev f chain' ps).
Proof.
  intros H. induction ps as [|p rest IH]; simpl; [apply safe_ret|].
  apply safe_bind; [apply safe_emit|]. intros _.
  destruct (assoc (pq_key p) (e_flags E)) as [pf|] eqn:Ha; [|apply safe_ret].
  destruct (mem_str (f_key pf) chain') eqn:Hm.
  - apply safe_bind; [apply safe_log|intros; apply safe_ret].
  - apply safe_bind; [eapply H; eauto|]. intros [d ok].
    destruct (negb ok); [apply safe_ret|].
    apply safe_bind; [destruct (o_recorder o); [apply safe_emit|apply safe_ret]|]. intros _.
    destruct (_ || _); [apply safe_ret|exact IH].
Qed.

(* fuel adequacy for the prerequisite recursion: the path (chain plus the current flag) is duplicate-free and all
   but its first element are keys of stored flags *)
Lemma safe_eval_flag : forall fuel chain f,
  NoDup (chain ++ [f_key f]) -> incl (tl (chain ++ [f_key f])) flag_keys ->
  (List.length flag_keys + 2 <= fuel + List.length chain)%nat ->
  safe (eval_flag re_ok re_match o E P c fuel chain f).
Proof.
  induction fuel as [|n IH]; intros chain f Hnd Hincl Hlen.
  - exfalso.
    assert (Hl : (List.length (tl (chain ++ [f_key f])) <= List.length flag_keys)%nat).
    { apply NoDup_incl_length; [|exact Hincl]. destruct (chain ++ [f_key f]); [constructor|]. inversion Hnd; assumption. }
    assert (List.length (tl (chain ++ [f_key f])) = List.length chain).
    { destruct chain; simpl; [reflexivity|]. rewrite app_length. simpl. lia. }
    simpl in Hlen. lia.
  - simpl. destruct (negb (f_on f)).
    + apply safe_bind; [apply safe_off_value|intros; apply safe_ret].
    + apply safe_bind.
      * destruct (f_prereqs f) as [|p ps] eqn:Hp; [apply safe_ret|].
        change (safe (prereq_loop o E (eval_flag re_ok re_match o E P c n (chain ++ [f_key f])) f (chain ++ [f_key f]) (p :: ps))).
        apply safe_prereq_loop. intros k pf Ha Hm. apply IH.
        -- apply NoDup_snoc; [exact Hnd|]. intros Hc. apply mem_str_In in Hc. congruence.
        -- destruct chain as [|x chain0]; simpl in *.
           ++ intros y [Hy|[]]. subst. eapply assoc_flag_key; eauto.
           ++ intros y Hy. apply in_app_iff in Hy. destruct Hy as [Hy|[Hy|[]]]; [apply Hincl; exact Hy|].
              subst. eapply assoc_flag_key; eauto.
        -- rewrite app_length. simpl. lia.
      * intros [|k|].
        -- destruct (any_target_match c f); [apply safe_bind; [apply safe_get_variation|intros; apply safe_ret]|].
           apply safe_rules_loop.
        -- apply safe_bind; [apply safe_off_value|intros; apply safe_ret].
        -- apply safe_ret.
Qed.

Lemma safe_eval_top f : safe (eval_flag re_ok re_match o E P c (flag_fuel E) [] f).
Proof.
  apply safe_eval_flag.
  - simpl. constructor. { intros Hin; inversion Hin. } constructor.
  - simpl. intros y Hy. inversion Hy.
  - unfold flag_fuel, flag_keys. rewrite map_length. simpl. lia.
Qed.

(* C01 / C10: with the fuel that run supplies, the result is always Done *)
Theorem run_total f : exists out, run re_ok re_match o E P c f = Done out.
Proof.
  pose proof (safe_eval_top f st0) as Hs.
  unfold run. destruct c; [eexists; reflexivity| |];
    destruct (eval_flag _ _ _ _ _ _ _ _ _ _) as [[[d b]| |] st1]; simpl in Hs; try contradiction;
    eexists; reflexivity.
Qed.

End Safety.

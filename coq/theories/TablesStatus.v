(* The constant tables lifted from the repository source (gen/Tables.v, regenerated on every run) are the ones the
   model uses.  If the source changes one of them, this proof stops checking.  One file per property, so that a changed
   table breaks the proofs of the property it belongs to and no other. *)
From LD Require Import Base F32 Data Model Ops Bucket Eval Codec CodecFacts.
From LDGen Require Import Tables.
From Coq Require Import String List ZArith Bool.
Import ListNotations.


(* big-segments status priorities *)
Theorem status_priorities_match_source :
  status_priorities = [("BigSegmentsStale", bs_priority Stale); ("BigSegmentsStoreError", bs_priority StoreError);
                       ("BigSegmentsNotConfigured", bs_priority NotConfigured)]%string
  /\ status_priority_default = bs_priority Healthy.
Proof. vm_compute. auto. Qed.

(* The trace-producing model computes the pure reference interpreter: the membership cache, the status register and
   the trace never influence a result (C12: the result depends only on flag, context, store answers and options). *)
From LD Require Import Base F32 Data Semver Model Ops Bucket Eval Pure.
Open Scope Z_scope.

Section Refine.
Variable re_ok : str -> bool.
Variable re_match : str -> str -> bool.
Variable o : opts.
Variable E : env.
Variable P : bsprov.
Variable c : ctx.

(* the cache only ever holds what the provider answers *)
Definition Inv (s : st) : Prop := forall k m, assoc k (s_cache s) = Some m -> m = p_membership P k.

Definition sim {A} (m : M A) (p : res A) : Prop := forall s, Inv s -> fst (m s) = p /\ Inv (snd (m s)).

Lemma sim_ret {A} (a : A) : sim (ret a) (Done a).
Proof. intros s H; split; [reflexivity|exact H]. Qed.
Lemma sim_emit x : sim (emit x) (Done tt).
Proof. intros s H; split; [reflexivity|exact H]. Qed.
Lemma sim_set_status b : sim (set_status b) (Done tt).
Proof. intros s H; split; [reflexivity|exact H]. Qed.
Lemma sim_log k e : sim (log o k e) (Done tt).
Proof. unfold log. destruct (o_logger o); [apply sim_emit|apply sim_ret]. Qed.
Lemma sim_bind {A B} (m : M A) (f : A -> M B) p g :
  sim m p -> (forall a, sim (f a) (g a)) -> sim (bind m f) (rbind p g).
Proof.
  intros Hm Hf s Hs. unfold bind. destruct (Hm s Hs) as [H1 H2]. destruct (m s) as [r s1]. simpl in *. subst p.
  destruct r; simpl; [apply Hf; exact H2| |]; split; auto.
Qed.
Lemma sim_bind_done {A B} (m : M A) (f : A -> M B) a q :
  sim m (Done a) -> sim (f a) q -> sim (bind m f) q.
Proof.
  intros Hm Hf s Hs. unfold bind. destruct (Hm s Hs) as [H1 H2]. destruct (m s) as [r s1]. simpl in *. subst r.
  apply Hf. exact H2.
Qed.
Lemma sim_emit_then {B} x (m : M B) q : sim m q -> sim (bind (emit x) (fun _ => m)) q.
Proof. intros H. eapply sim_bind_done; [apply sim_emit|exact H]. Qed.
Lemma sim_log_then {B} k e (m : M B) q : sim m q -> sim (bind (log o k e) (fun _ => m)) q.
Proof. intros H. eapply sim_bind_done; [apply sim_log|exact H]. Qed.
Lemma sim_panic {A} : sim (@panic A) Panic.
Proof. intros s H; split; [reflexivity|exact H]. Qed.
Lemma sim_oof {A} : sim (@out_of_fuel A) OutOfFuel.
Proof. intros s H; split; [reflexivity|exact H]. Qed.

Lemma sim_membership_for k : sim (membership_for P k) (Done (p_membership P k)).
Proof.
  intros s Hs. unfold membership_for. destruct (assoc k (s_cache s)) as [m|] eqn:Ha.
  - simpl. split; [rewrite (Hs k m Ha); reflexivity|exact Hs].
  - unfold Inv, p_membership in *. destruct P as [prov|] eqn:HP; simpl.
    + split; [reflexivity|]. intros k' m'. simpl. destruct (str_eqb k' k) eqn:Hk.
      * apply str_eqb_eq in Hk. subst k'. intros H; inversion H; reflexivity.
      * apply Hs.
    + split; [reflexivity|exact Hs].
Qed.

Lemma sim_first_clause cm pcm cls :
  (forall cl, sim (cm cl) (pcm cl)) -> sim (first_clause cm cls) (p_all_clauses pcm cls).
Proof.
  intros H. induction cls as [|cl r IH]; simpl; [apply sim_ret|].
  apply sim_bind; [apply H|]. intros [[|]|e]; [exact IH|apply sim_ret|apply sim_ret].
Qed.

Lemma sim_seg_match_values segc psegc neg vals :
  (forall sg, sim (segc sg) (psegc sg)) -> sim (seg_match_values E segc neg vals) (p_any_segment E psegc neg vals).
Proof.
  intros H. induction vals as [|v r IH]; simpl; [apply sim_ret|].
  destruct v; try exact IH.
  apply sim_emit_then.
  destruct (assoc x (e_segments E)); [|exact IH].
  apply sim_bind; [apply H|]. intros [[|]|e]; [apply sim_ret|exact IH|apply sim_ret].
Qed.

Lemma sim_clause_match segc psegc cl :
  (forall sg, sim (segc sg) (psegc sg)) ->
  sim (clause_match re_ok re_match E c segc cl) (p_clause re_ok re_match E c psegc cl).
Proof.
  intros H. unfold clause_match, p_clause. destruct (str_eqb _ _); [apply sim_seg_match_values; exact H|apply sim_ret].
Qed.

Lemma sim_seg_rule_match segc psegc sg r :
  (forall sg, sim (segc sg) (psegc sg)) ->
  sim (seg_rule_match re_ok re_match o E c segc sg r) (p_seg_rule re_ok re_match o E c psegc sg r).
Proof.
  intros H. unfold seg_rule_match, p_seg_rule. apply sim_bind.
  - apply sim_first_clause. intros cl. apply sim_clause_match. exact H.
  - intros [[|]|e]; try apply sim_ret.
    destruct (sr_weight r); [|apply sim_ret].
    destruct (compute_bucket _ _ _ _ _ _ _ _) as [[b []]|e]; apply sim_ret.
Qed.

Lemma sim_seg_rules rm prm key rs :
  (forall r, sim (rm r) (prm r)) -> sim (seg_rules rm key rs) (p_seg_rules prm key rs).
Proof.
  intros H. induction rs as [|r rest IH]; simpl; [apply sim_ret|].
  apply sim_bind; [apply H|]. intros [[|]|e]; [apply sim_ret|exact IH|apply sim_ret].
Qed.

Lemma sim_seg_contains : forall fuel chain sg,
  sim (seg_contains re_ok re_match o E P c fuel chain sg) (p_seg re_ok re_match o E P c fuel chain sg).
Proof.
  induction fuel as [|n IH]; intros chain sg; simpl; [apply sim_oof|].
  destruct (mem_str (sg_key sg) chain); [apply sim_ret|].
  eapply sim_bind_done with (a := p_seg_early P c sg).
  - unfold p_seg_early. destruct (sg_unbounded sg); [|apply sim_ret].
    destruct (sg_generation sg) as [g|].
    + destruct (ctx_key_by_kind c (sg_unb_kind sg)) as [k|].
      * apply sim_emit_then. eapply sim_bind_done; [apply sim_membership_for|].
        destruct (p_membership P k); [apply sim_emit_then|]; apply sim_ret.
      * apply sim_emit_then. apply sim_ret.
    + apply sim_emit_then. eapply sim_bind_done; [apply sim_set_status|apply sim_ret].
  - destruct (p_seg_early P c sg) as [b|]; [apply sim_ret|].
    apply sim_seg_rules. intros r. apply sim_seg_rule_match. intros sg'. apply IH.
Qed.

(* ---- flags ---- *)
Lemma sim_get_variation f i r : sim (get_variation o f i r) (Done (p_get_variation f i r)).
Proof.
  unfold get_variation, p_get_variation. destruct (znth_opt _ _); [apply sim_ret|].
  apply sim_log_then. apply sim_ret.
Qed.
Lemma sim_off_value f r : sim (off_value o f r) (Done (p_off_value f r)).
Proof. unfold off_value, p_off_value. destruct (f_off f); [apply sim_get_variation|apply sim_ret]. Qed.
Lemma sim_vr_detail f vr r : sim (vr_detail o c f vr r) (p_vr_detail o c f vr r).
Proof.
  unfold vr_detail, p_vr_detail. destruct (vr_result o c vr (f_key f) (f_salt f)) as [[[i b]|e]| |].
  - apply sim_get_variation.
  - apply sim_log_then. apply sim_ret.
  - apply sim_panic.
  - apply sim_oof.
Qed.

Lemma sim_prereq_loop ev pev f chain' ps :
  (forall pf, sim (ev pf) (pev pf)) -> sim (prereq_loop o E ev f chain' ps) (p_prereqs E pev chain' ps).
Proof.
  intros H. induction ps as [|p rest IH]; simpl; [apply sim_ret|].
  apply sim_emit_then.
  destruct (assoc (pq_key p) (e_flags E)) as [pf|]; [|apply sim_ret].
  destruct (mem_str (f_key pf) chain').
  - apply sim_log_then. apply sim_ret.
  - apply sim_bind; [apply H|]. intros [d ok].
    destruct (negb ok); [apply sim_ret|].
    eapply sim_bind_done with (a := tt); [destruct (o_recorder o); [apply sim_emit|apply sim_ret]|].
    unfold prereq_met. destruct (f_on pf); simpl.
    + destruct (d_index d) as [i|]; simpl; [|apply sim_ret].
      destruct (i =? pq_var p); simpl; [exact IH|apply sim_ret].
    + apply sim_ret.
Qed.

Lemma sim_rules_loop segc psegc f rs i :
  (forall sg, sim (segc sg) (psegc sg)) ->
  sim (rules_loop re_ok re_match o E c segc f rs i) (p_rules re_ok re_match o E c psegc f rs i).
Proof.
  intros H. revert i. induction rs as [|ru rest IH]; intros i; simpl.
  - apply sim_bind; [apply sim_vr_detail|intros; apply sim_ret].
  - apply sim_bind.
    + apply sim_first_clause. intros cl. apply sim_clause_match. exact H.
    + intros [[|]|e].
      * apply sim_bind; [apply sim_vr_detail|intros; apply sim_ret].
      * apply IH.
      * apply sim_log_then. apply sim_ret.
Qed.

Lemma sim_eval_flag : forall fuel chain f,
  sim (eval_flag re_ok re_match o E P c fuel chain f) (p_eval re_ok re_match o E P c fuel chain f).
Proof.
  induction fuel as [|n IH]; intros chain f; cbn [eval_flag p_eval]; [apply sim_oof|].
  destruct (negb (f_on f)).
  - eapply sim_bind_done; [apply sim_off_value|apply sim_ret].
  - apply sim_bind.
    + destruct (f_prereqs f) as [|p ps]; [apply sim_ret|].
      change (sim (prereq_loop o E (eval_flag re_ok re_match o E P c n (chain ++ [f_key f])) f (chain ++ [f_key f]) (p :: ps))
                  (p_prereqs E (p_eval re_ok re_match o E P c n (chain ++ [f_key f])) (chain ++ [f_key f]) (p :: ps))).
      apply sim_prereq_loop. intros pf. apply IH.
    + intros [|k|].
      * destruct (any_target_match c f).
        -- eapply sim_bind_done; [apply sim_get_variation|apply sim_ret].
        -- apply sim_rules_loop. intros sg. apply sim_seg_contains.
      * eapply sim_bind_done; [apply sim_off_value|apply sim_ret].
      * apply sim_ret.
Qed.

Lemma Inv_st0 : Inv st0.
Proof. intros k m H. discriminate. Qed.

End Refine.

Definition strip_status (d : detail) : detail :=
  mkdetail (d_value d) (d_index d) (mkreason (rs_kind (d_reason d)) (rs_inexp (d_reason d)) None).

(* every detail produced inside an evaluation carries no status; the status is attached once, at the end *)
Theorem run_is_pure re_ok re_match o E P c f out :
  run re_ok re_match o E P c f = Done out ->
  exists d, p_run re_ok re_match o E P c f = Done d /\
            d_value (out_detail out) = d_value d /\ d_index (out_detail out) = d_index d /\
            rs_kind (d_reason (out_detail out)) = rs_kind (d_reason d) /\
            rs_inexp (d_reason (out_detail out)) = rs_inexp (d_reason d).
Proof.
  assert (Hgen : forall c', c' <> CInvalid -> c = c' ->
     run re_ok re_match o E P c f = Done out ->
     exists d, rbind (p_eval re_ok re_match o E P c (flag_fuel E) [] f) (fun r => Done (fst r)) = Done d /\
            d_value (out_detail out) = d_value d /\ d_index (out_detail out) = d_index d /\
            rs_kind (d_reason (out_detail out)) = rs_kind (d_reason d) /\
            rs_inexp (d_reason (out_detail out)) = rs_inexp (d_reason d)).
  { intros c' Hne Hc Hr.
    assert (Hrun : run re_ok re_match o E P c f =
                   match eval_flag re_ok re_match o E P c (flag_fuel E) [] f st0 with
                   | (Done (d, _), st1) =>
                       let d' := match s_status st1 with
                                 | Some b => mkdetail (d_value d) (d_index d) (mkreason (rs_kind (d_reason d)) (rs_inexp (d_reason d)) (Some b))
                                 | None => d end in
                       Done (mkoutcome d' (is_experiment f (d_reason d')) (rev (s_trace st1)))
                   | (Panic, _) => Panic | (OutOfFuel, _) => OutOfFuel end).
    { subst c. destruct c'; [congruence|reflexivity|reflexivity]. }
    rewrite Hrun in Hr. clear Hrun.
    generalize (sim_eval_flag re_ok re_match o E P c (flag_fuel E) [] f st0 (Inv_st0 P)).
    destruct (eval_flag re_ok re_match o E P c (flag_fuel E) [] f st0) as [r s1].
    intros [H1 _]. cbn [fst] in H1. rewrite <- H1.
    destruct r as [[d b]| |]; try discriminate. inversion Hr; subst out. cbn [rbind fst out_detail].
    exists d. split; [reflexivity|]. destruct (s_status s1); cbn; auto. }
  intros Hr. destruct c as [|x|l] eqn:Hc.
  - unfold run in Hr. inversion Hr; subst. unfold p_run. eexists; split; [reflexivity|cbn; auto].
  - unfold p_run. eapply Hgen; [|reflexivity|exact Hr]. discriminate.
  - unfold p_run. eapply Hgen; [|reflexivity|exact Hr]. discriminate.
Qed.

(* a history of calls against one evaluator: the model's evaluator state is its options only, so the i-th answer of any
   history is the answer a fresh evaluator gives to the i-th call alone *)
Definition call := (env * bsprov * ctx * flag)%type.
Definition answer re_ok re_match o (x : call) : res outcome :=
  let '(E, P, c, f) := x in run re_ok re_match o E P c f.
Lemma history_answers re_ok re_match o (h : list call) i x :
  nth_error h i = Some x -> nth_error (map (answer re_ok re_match o) h) i = Some (answer re_ok re_match o x).
Proof. intros. apply map_nth_error. assumption. Qed.

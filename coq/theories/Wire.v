(* Wire format shared with the Go harness: a case is a list of naturals (a prefix-coded tree); so is the answer.
   The decoder is Gallina, so the extracted driver and the in-kernel vm_compute route run the same function. *)
From LD Require Import Base F32 Data Scan Semver Time Model Ops Bucket Eval Codec Buffer Nesting Options Builders.
Open Scope Z_scope.

Inductive T := A (n : N) | S (b : str) | L (l : list T).

(* ---- parsing: 0 n | 1 k b1..bk | 2 k T1..Tk ---- *)
Fixpoint take_n {X} (k : nat) (l : list X) : option (list X * list X) :=
  match k with
  | O => Some ([], l)
  | Datatypes.S k' => match l with
             | [] => None
             | x :: r => match take_n k' r with Some (a, b) => Some (x :: a, b) | None => None end
             end
  end.

Fixpoint parse_T (fuel : nat) (l : list N) : option (T * list N) :=
  match fuel with
  | O => None
  | Datatypes.S f =>
    match l with
    | 0%N :: n :: r => Some (A n, r)
    | 1%N :: k :: r => match take_n (N.to_nat k) r with Some (b, r') => Some (S b, r') | None => None end
    | 2%N :: k :: r =>
      (fix items (cnt : nat) (r : list N) (acc : list T) : option (T * list N) :=
         match cnt with
         | O => Some (L (rev acc), r)
         | Datatypes.S c' => match parse_T f r with
                    | Some (t, r') => items c' r' (t :: acc)
                    | None => None
                    end
         end) (N.to_nat k) r []
    | _ => None
    end
  end.

Fixpoint flat (t : T) : list N :=
  match t with
  | A n => [0%N; n]
  | S b => 1%N :: N.of_nat (List.length b) :: b
  | L l => 2%N :: N.of_nat (List.length l) :: flat_map flat l
  end.

Definition zz (z : Z) : N := if 0 <=? z then Z.to_N (2 * z) else Z.to_N (- 2 * z - 1).
Definition unzz (n : N) : Z := if N.even n then Z.of_N n / 2 else - ((Z.of_N n + 1) / 2).
Definition AZ (z : Z) : T := A (zz z).
Definition Ab (b : bool) : T := A (if b then 1 else 0)%N.

(* ---- typed decoders (None = malformed case: a harness bug, reported as such) ---- *)
Definition d_bool (t : T) : option bool := match t with A n => Some (negb (N.eqb n 0)) | _ => None end.
Definition d_str (t : T) : option str := match t with S b => Some b | _ => None end.
Definition d_Z (t : T) : option Z := match t with A n => Some (unzz n) | _ => None end.
Definition d_opt {X} (d : T -> option X) (t : T) : option (option X) :=
  match t with L [] => Some None | L [x] => option_map Some (d x) | _ => None end.
Fixpoint d_all {X} (d : T -> option X) (l : list T) : option (list X) :=
  match l with
  | [] => Some []
  | t :: r => match d t, d_all d r with Some x, Some xs => Some (x :: xs) | _, _ => None end
  end.
Definition d_list {X} (d : T -> option X) (t : T) : option (list X) :=
  match t with L l => d_all d l | _ => None end.

Fixpoint d_jv (t : T) : option jv :=
  match t with
  | L [A 0%N] => Some JNull
  | L [A 1%N; A b] => Some (JBool (negb (N.eqb b 0)))
  | L [A 2%N; A m; A e] => Some (JNum (mkdy (unzz m) (unzz e)))
  | L [A 3%N; S x] => Some (JStr x)
  | L [A 4%N; L items] =>
      option_map JArr ((fix go (l : list T) : option (list jv) :=
         match l with
         | [] => Some []
         | x :: r => match d_jv x, go r with Some v, Some vs => Some (v :: vs) | _, _ => None end
         end) items)
  | L [A 5%N; L props] =>
      option_map JObj ((fix go (l : list T) : option (list (str * jv)) :=
         match l with
         | [] => Some []
         | L [S k; x] :: r => match d_jv x, go r with Some v, Some vs => Some ((k, v) :: vs) | _, _ => None end
         | _ => None
         end) props)
  | _ => None
  end.

(* normal form of a dyadic for output: odd mantissa (or 0·2^0) *)
Fixpoint dy_norm_aux (fuel : nat) (m e : Z) : dy :=
  match fuel with
  | O => mkdy m e
  | Datatypes.S f => if m =? 0 then mkdy 0 0 else if Z.even m then dy_norm_aux f (m / 2) (e + 1) else mkdy m e
  end.
Definition dy_norm (d : dy) : dy := dy_norm_aux (Datatypes.S (Z.to_nat (Z.log2 (Z.abs (dm d))))) (dm d) (de d).

Fixpoint e_jv (v : jv) : T :=
  match v with
  | JNull => L [A 0%N]
  | JBool b => L [A 1%N; Ab b]
  | JNum d => let n := dy_norm d in L [A 2%N; AZ (dm n); AZ (de n)]
  | JStr x => L [A 3%N; S x]
  | JArr l => L [A 4%N; L (map e_jv l)]
  | JObj ps => L [A 5%N; L (map (fun kv => L [S (fst kv); e_jv (snd kv)]) ps)]
  end.

Definition d_single (t : T) : option single :=
  match t with
  | L [S kind; S key; name; A anon; sec; L attrs] =>
    match d_opt d_str name, d_opt d_str sec,
          d_all (fun a => match a with L [S k; v] => option_map (pair k) (d_jv v) | _ => None end) attrs with
    | Some n, Some sc, Some ats => Some (mksingle kind key n (negb (N.eqb anon 0)) sc ats)
    | _, _, _ => None
    end
  | _ => None
  end.
Definition d_ctx (t : T) : option ctx :=
  match t with
  | L [A 0%N] => Some CInvalid
  | L [A 1%N; x] => option_map CSingle (d_single x)
  | L [A 2%N; xs] => option_map CMulti (d_list d_single xs)
  | _ => None
  end.

Definition d_status (n : N) : bsstatus :=
  match n with 1%N => Stale | 2%N => StoreError | 3%N => NotConfigured | _ => Healthy end.
Definition e_status (b : bsstatus) : N :=
  match b with Healthy => 0 | Stale => 1 | StoreError => 2 | NotConfigured => 3 end%N.

Definition d_answer (t : T) : option bsanswer :=
  match t with
  | L [m; A st] =>
    match d_opt (d_list (fun e => match e with L [S r; A b] => Some (r, negb (N.eqb b 0)) | _ => None end)) m with
    | Some mm => Some (mkbsanswer mm (d_status st))
    | None => None
    end
  | _ => None
  end.
Definition d_prov (t : T) : option bsprov :=
  match t with
  | L [] => Some None
  | L [L entries; dflt] =>
    match d_all (fun e => match e with L [S k; a] => option_map (pair k) (d_answer a) | _ => None end) entries,
          d_answer dflt with
    | Some es, Some d => Some (Some (fun k => match assoc k es with Some a => a | None => d end))
    | _, _ => None
    end
  | _ => None
  end.

(* regex oracle table: [pattern; compiles?; [subject; matches?]...] *)
Definition retable := list (str * (bool * list (str * bool))).
Definition d_retable (t : T) : option retable :=
  d_list (fun e => match e with
    | L [S p; A ok; L subs] =>
      match d_all (fun x => match x with L [S sb; A r] => Some (sb, negb (N.eqb r 0)) | _ => None end) subs with
      | Some ss => Some (p, (negb (N.eqb ok 0), ss))
      | None => None
      end
    | _ => None end) t.
Definition tbl_ok (tb : retable) (p : str) : bool :=
  match assoc p tb with Some (ok, _) => ok | None => false end.
Definition tbl_match (tb : retable) (p sb : str) : bool :=
  match assoc p tb with
  | Some (_, ss) => match assoc sb ss with Some r => r | None => false end
  | None => false
  end.

(* ---- outcome encoding ---- *)
Fixpoint e_everr (e : everr) : T :=
  match e with
  | EBadVariation i => L [A 1%N; AZ i]
  | EEmptyAttr => L [A 2%N]
  | EBadAttr x => L [A 3%N; S x]
  | EEmptyRollout => L [A 4%N]
  | ECircPrereq k => L [A 5%N; S k]
  | ECircSeg k => L [A 6%N; S k]
  | EMalformedSeg k e' => L [A 7%N; S k; e_everr e']
  end.
Definition e_errkind (k : errkind) : N :=
  match k with KMalformed => 1 | KUserNotSpecified => 2 | KException => 3 end%N.
Definition e_opt {X} (e : X -> T) (x : option X) : T := match x with Some v => L [e v] | None => L [] end.
Definition e_reason (r : reason) : T :=
  let k := match rs_kind r with
           | ROff => L [A 1%N] | RFallthrough => L [A 2%N] | RTarget => L [A 3%N]
           | RRule i id => L [A 4%N; AZ i; S id] | RPrereqFailed k => L [A 5%N; S k]
           | RError ek => L [A 6%N; A (e_errkind ek)]
           end in
  L [k; Ab (rs_inexp r); e_opt (fun b => A (e_status b)) (rs_bigseg r)].
Definition e_detail (d : detail) : T := L [e_jv (d_value d); e_opt AZ (d_index d); e_reason (d_reason d)].
Definition e_obs (x : obs) : list T :=
  match x with
  | OGetFlag k => [L [A 1%N; S k]]
  | OGetSegment k => [L [A 2%N; S k]]
  | OBsQuery k => [L [A 3%N; S k]]
  | OBsCheck k r => [L [A 4%N; S k; S r]]
  | OLog k e => [L [A 5%N; S k; e_everr e]]
  | OEvent ev => [L [A 6%N; S (ev_flagkey ev); S (f_key (ev_prereq ev)); AZ (fm_version (f_meta (ev_prereq ev)));
                     e_detail (ev_detail ev); Ab (ev_isexp ev); Ab (ev_exclude ev)]]
  | GUnbounded _ _ _ => []
  end.
Definition e_outcome (r : res outcome) : T :=
  match r with
  | Done out => L [A 1%N; e_detail (out_detail out); Ab (out_isexp out); L (flat_map e_obs (out_trace out))]
  | Panic => L [A 2%N]
  | OutOfFuel => L [A 3%N]
  end.

Definition e_f32 (x : f32) : T :=
  match f32_view x with
  | FZero sg => L [A 0%N; Ab sg]
  | FFin sg m e => L [A 1%N; Ab sg; A (Npos m); AZ e]
  | FInf sg => L [A 2%N; Ab sg]
  | FNan => L [A 3%N]
  end.
Definition e_bfail (b : bfail) : N :=
  match b with BNone => 0 | BInvalidRef => 1 | BLacksKind => 2 | BNotFound => 3 | BWrongType => 4 end%N.

(* a stored item: [form; json]; form 0 = plain (no precomputed data), 1 = preprocessed *)
Definition d_flag (tb : retable) (t : T) : option (option flag) :=
  match t with
  | L [A form; doc] =>
    match d_jv doc with
    | Some j => Some (option_map (fun f => if N.eqb form 0 then f else preprocess_flag (tbl_ok tb) f) (decode_flag j))
    | None => None
    end
  | _ => None
  end.
Definition d_segment (tb : retable) (t : T) : option (option segment) :=
  match t with
  | L [A form; doc] =>
    match d_jv doc with
    | Some j => Some (option_map (fun x => if N.eqb form 0 then x else preprocess_segment (tbl_ok tb) x) (decode_segment j))
    | None => None
    end
  | _ => None
  end.

Definition d_ref (t : T) : option ref :=
  match t with
  | L [A 0%N] => Some ref_undef
  | L [A 1%N; S x] => Some (new_ref x)
  | L [A 2%N; S x] => Some (new_literal_ref x)
  | _ => None
  end.
Definition e_ref (r : ref) : T :=
  L [Ab (ref_defined r); Ab (ref_has_err r); S (ref_string r); A (N.of_nat (ref_depth r));
     L (map (fun i => S (ref_component r i)) (seq 0 (ref_depth r)))].

(* builder calls (kind 13) *)
Definition d_bucket (t : T) : option wvar :=
  match t with L [A v; A w; A u] => Some (mkwvar (unzz v) (unzz w) (negb (N.eqb u 0))) | _ => None end.
Definition d_bvorr (t : T) : option vorr :=
  match t with
  | L [A 0%N; A i] => Some (b_variation (unzz i))
  | L [A 1%N; L bs] => option_map b_rollout (d_all d_bucket bs)
  | L [A 2%N; seed; L bs] =>
    match d_opt d_Z seed, d_all d_bucket bs with Some sd, Some l => Some (b_experiment sd l) | _, _ => None end
  | _ => None
  end.
Definition d_bclause (t : T) : option clause :=
  match t with
  | L [A 0%N; S kind; S attr; S op; L vals; A neg] =>
    option_map (fun vs => let c := b_clause kind attr op vs in if N.eqb neg 0 then c else b_negate c) (d_all d_jv vals)
  | L [A 1%N; L keys; A neg] =>
    option_map (fun ks => let c := b_segment_match ks in if N.eqb neg 0 then c else b_negate c) (d_all d_str keys)
  | _ => None
  end.
Definition d_rbop (t : T) : option rbop :=
  match t with
  | L [A 1%N; L cls] => option_map RClauses (d_all d_bclause cls)
  | L [A 2%N; S x] => Some (RId x)
  | L [A 3%N; A b] => Some (RTrack (negb (N.eqb b 0)))
  | L [A 4%N; vr] => option_map RVorr (d_bvorr vr)
  | _ => None
  end.
Definition d_fbop (t : T) : option fbop :=
  let b n := negb (N.eqb n 0) in
  match t with
  | L [A 1%N; S k; A v] => Some (FAddPrereq k (unzz v))
  | L [A 2%N; L rops] => option_map FAddRule (d_all d_rbop rops)
  | L [A 3%N; A v; L keys] => option_map (FAddTarget (unzz v)) (d_all d_str keys)
  | L [A 4%N; S kind; A v; L keys] => option_map (FAddCtxTarget kind (unzz v)) (d_all d_str keys)
  | L [A 5%N; A x] => Some (FCSEnv (b x))
  | L [A 6%N; A x] => Some (FCSMobile (b x))
  | L [A 7%N; A z] => Some (FDebug (unzz z))
  | L [A 8%N; A x] => Some (FDeleted (b x))
  | L [A 9%N; A x] => Some (FExclude (b x))
  | L [A 10%N; vr] => option_map FFallthrough (d_bvorr vr)
  | L [A 11%N; A v] => Some (FOffVar (unzz v))
  | L [A 12%N; A x] => Some (FOn (b x))
  | L [A 13%N; S x] => Some (FSalt x)
  | L [A 14%N; A z] => Some (FSampling (unzz z))
  | L [A 15%N; v] => option_map FSingleVar (d_jv v)
  | L [A 16%N; A x] => Some (FTrack (b x))
  | L [A 17%N; A x] => Some (FTrackFt (b x))
  | L [A 18%N; L vs] => option_map FVars (d_all d_jv vs)
  | L [A 19%N; A z] => Some (FVersion (unzz z))
  | L [A 20%N; cr] => option_map FMigration (d_opt d_Z cr)
  | L [A 21%N] => Some FBuild
  | _ => None
  end.

Definition d_srbop (t : T) : option srbop :=
  match t with
  | L [A 1%N; S a] => Some (SRBucketBy a)
  | L [A 2%N; S a] => Some (SRBucketByRef a)
  | L [A 3%N; L cls] => option_map SRClauses (d_all d_bclause cls)
  | L [A 4%N; S x] => Some (SRId x)
  | L [A 5%N; S k] => Some (SRKind k)
  | L [A 6%N; A z] => Some (SRWeight (unzz z))
  | _ => None
  end.
Definition d_sbop (t : T) : option sbop :=
  match t with
  | L [A 1%N; L rops] => option_map SAddRule (d_all d_srbop rops)
  | L [A 2%N; L keys] => option_map SExcluded (d_all d_str keys)
  | L [A 3%N; L keys] => option_map SIncluded (d_all d_str keys)
  | L [A 4%N; S kind; L keys] => option_map (SIncCtx kind) (d_all d_str keys)
  | L [A 5%N; S kind; L keys] => option_map (SExcCtx kind) (d_all d_str keys)
  | L [A 6%N; A z] => Some (SVersion (unzz z))
  | L [A 7%N; S x] => Some (SSalt x)
  | L [A 8%N; A b] => Some (SUnbounded (negb (N.eqb b 0)))
  | L [A 9%N; S k] => Some (SUnbKind k)
  | L [A 10%N; A z] => Some (SGeneration (unzz z))
  | L [A 11%N] => Some SBuild
  | _ => None
  end.

Definition bad : T := L [A 99%N].           (* malformed case *)
Definition undecodable : T := L [A 98%N].   (* the document was rejected by the decoder *)

Definition all_some {X} (l : list (option X)) : option (list X) :=
  fold_right (fun x acc => match x, acc with Some v, Some vs => Some (v :: vs) | _, _ => None end) (Some []) l.

Definition run_case1 (t : T) : T :=
  match t with
  (* 1: evaluation *)
  | L [A 1%N; L [A sec; A lg; A rec]; L flags; L segs; prov; top; cx; rt] =>
    match d_retable rt with None => bad | Some tb =>
    match d_all (fun e => match e with L [S k; it] => option_map (pair k) (d_flag tb it) | _ => None end) flags,
          d_all (fun e => match e with L [S k; it] => option_map (pair k) (d_segment tb it) | _ => None end) segs,
          d_prov prov, d_flag tb top, d_ctx cx with
    | Some fl, Some sl, Some pv, Some tf, Some cxx =>
      match all_some (map (fun kv => option_map (pair (fst kv)) (snd kv)) fl),
            all_some (map (fun kv => option_map (pair (fst kv)) (snd kv)) sl), tf with
      | Some fl', Some sl', Some f =>
        e_outcome (run (tbl_ok tb) (tbl_match tb)
                       (mkopts (negb (N.eqb sec 0)) (negb (N.eqb lg 0)) (negb (N.eqb rec 0)))
                       (mkenv fl' sl') pv cxx f)
      | _, _, _ => undecodable
      end
    | _, _, _, _, _ => bad
    end end
  (* 2: bucket *)
  | L [A 2%N; A sec; cx; A isexp; seed; S kind; S key; attr; S salt] =>
    match d_ctx cx, d_opt d_Z seed, d_ref attr with
    | Some cxx, Some sd, Some a =>
      match compute_bucket (negb (N.eqb sec 0)) cxx (negb (N.eqb isexp 0)) sd kind key a salt with
      | Ok (b, fl) => L [A 1%N; e_f32 b; A (e_bfail fl)]
      | Err e => L [A 2%N; e_everr e]
      end
    | _, _, _ => bad
    end
  (* 3 / 4: codec flag / segment: document -> encode(decode), encode(decode(encode(decode))) *)
  | L [A 3%N; doc] =>
    match d_jv doc with None => bad | Some j =>
      match decode_flag j with
      | None => undecodable
      | Some f1 => let j1 := encode_flag f1 in
                   match decode_flag j1 with
                   | None => L [A 2%N; e_jv j1]
                   | Some f2 => L [A 1%N; e_jv j1; e_jv (encode_flag f2)]
                   end
      end end
  | L [A 4%N; doc] =>
    match d_jv doc with None => bad | Some j =>
      match decode_segment j with
      | None => undecodable
      | Some f1 => let j1 := encode_segment f1 in
                   match decode_segment j1 with
                   | None => L [A 2%N; e_jv j1]
                   | Some f2 => L [A 1%N; e_jv j1; e_jv (encode_segment f2)]
                   end
      end end
  (* 5: timestamp conversion *)
  | L [A 5%N; v] =>
    match d_jv v with None => bad | Some x => e_opt AZ (value_to_time x) end
  (* 6: semver parse and compare *)
  | L [A 6%N; S a; S b] =>
    L [Ab (match parse_semver a with Some _ => true | None => false end);
       Ab (match parse_semver b with Some _ => true | None => false end);
       match parse_semver a, parse_semver b with Some x, Some y => L [AZ (semver_cmp x y)] | _, _ => L [] end]
  (* 7: attribute references *)
  | L [A 7%N; r] => match d_ref r with Some x => e_ref x | None => bad end
  (* 8: local buffer *)
  | L [A 8%N; A cap; L ops] =>
    match d_all (fun o => match o with S b => Some (BAppend b) | A z => Some (BAppendInt (unzz z)) | _ => None end) ops with
    | Some os => let b := fold_left buf_step os (buf_new (Z.of_N cap)) in L [S (buf_data b); AZ (buf_cap b)]
    | None => bad
    end
  (* 9: hex *)
  | L [A 9%N; S x] => e_opt AZ (parse_hex x)
  (* 11: nesting scan of the byte entry points; the document comes as repeated pieces *)
  | L [A 11%N; L pieces] =>
    match d_all (fun p => match p with L [A n; S x] => Some (n, x) | _ => None end) pieces with
    | Some ps => Ab (nesting_ok (expand ps))
    | None => bad
    end
  (* 13: ldbuilders: a flag built by a sequence of builder calls, encoded *)
  | L [A 13%N; S key; L ops] =>
    match d_all d_fbop ops with
    | Some os => e_jv (encode_flag (fb_build key os))
    | None => bad
    end
  (* 14: ldbuilders: a segment built by a sequence of builder calls, encoded *)
  | L [A 14%N; S key; L ops] =>
    match d_all d_sbop ops with
    | Some os => e_jv (encode_segment (sb_build key os))
    | None => bad
    end
  (* 12: option list of NewEvaluatorWithOptions *)
  | L [A 12%N; L os] =>
    match d_all (fun o => match o with
                          | L [] => Some None
                          | L [A 1%N; A b] => Some (Some (OSecondary (negb (N.eqb b 0))))
                          | L [A 2%N; A b] => Some (Some (OLogger (negb (N.eqb b 0))))
                          | L [A 3%N; A b] => Some (Some (OProvider (negb (N.eqb b 0))))
                          | _ => None
                          end) os with
    | Some l => let c := build_ecfg l in L [Ab (ec_secondary c); Ab (ec_logger c); Ab (ec_provider c)]
    | None => bad
    end
  | _ => bad
  end.

(* 10: several cases answered together *)
Definition run_case (t : T) : T :=
  match t with
  | L [A 10%N; L cases] => L (map run_case1 cases)
  | _ => run_case1 t
  end.

Definition run_line (l : list N) : list N :=
  match parse_T (Datatypes.S (List.length l)) l with
  | Some (t, []) => flat (run_case t)
  | _ => flat bad
  end.

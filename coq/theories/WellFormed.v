(* C01: every result is well-formed; the only error kinds are MALFORMED_FLAG and USER_NOT_SPECIFIED. *)
From LD Require Import Base F32 Data Semver Model Ops Bucket Eval EvalFacts Safety.
Open Scope Z_scope.

(* partial-correctness triples for the evaluation monad *)
Definition post {A} (m : M A) (Q : A -> Prop) : Prop := forall st a st', m st = (Done a, st') -> Q a.

Lemma post_ret {A} (a : A) (Q : A -> Prop) : Q a -> post (ret a) Q.
Proof. intros H st a' st' E. inversion E; subst. exact H. Qed.
Lemma post_bind {A B} (m : M A) (f : A -> M B) (Q1 : A -> Prop) (Q : B -> Prop) :
  post m Q1 -> (forall a, Q1 a -> post (f a) Q) -> post (bind m f) Q.
Proof.
  intros Hm Hf st b st' E. unfold bind in E. destruct (m st) as [[a| |] st1] eqn:Em; try discriminate.
  eapply Hf; [eapply Hm; eauto|exact E].
Qed.
Lemma post_weaken {A} (m : M A) (Q1 Q2 : A -> Prop) : post m Q1 -> (forall a, Q1 a -> Q2 a) -> post m Q2.
Proof. intros H W st a st' E. apply W. eapply H; eauto. Qed.
Lemma post_true {A} (m : M A) : post m (fun _ => True).
Proof. intros st a st' _. exact I. Qed.

Definition is_error (r : reason) : Prop := exists k, rs_kind r = RError k.

(* the statement of C01 about one result, for a valid context *)
Definition wf_detail (f : flag) (d : detail) : Prop :=
  (exists i v, d_index d = Some i /\ znth_opt (f_vars f) i = Some v /\ d_value d = v /\ ~ is_error (d_reason d))
  \/ (d_index d = None /\ d_value d = JNull /\ rs_kind (d_reason d) = RError KMalformed)
  \/ (d_index d = None /\ d_value d = JNull /\ f_off f = None /\
      (rs_kind (d_reason d) = ROff \/ exists k, rs_kind (d_reason d) = RPrereqFailed k)).

Lemma znth_in_range {A} (l : list A) i v : znth_opt l i = Some v -> 0 <= i < zlen l.
Proof.
  unfold znth_opt, zlen. destruct (i <? 0) eqn:Hi; [discriminate|]. apply Z.ltb_ge in Hi.
  intros H. split; [exact Hi|].
  assert (Hn : (Z.to_nat i < List.length l)%nat).
  { revert H. generalize (Z.to_nat i). induction l as [|x l IH]; intros [|n]; simpl; try discriminate; intros H; try lia.
    apply IH in H. lia. }
  lia.
Qed.

Definition finish (f : flag) (r : res (detail * bool) * st) : res outcome :=
  match r with
  | (Done (d, _), st1) =>
      let d' := match s_status st1 with
                | Some b => mkdetail (d_value d) (d_index d) (mkreason (rs_kind (d_reason d)) (rs_inexp (d_reason d)) (Some b))
                | None => d
                end in
      Done (mkoutcome d' (is_experiment f (d_reason d')) (rev (s_trace st1)))
  | (Panic, _) => Panic
  | (OutOfFuel, _) => OutOfFuel
  end.

Lemma run_valid re_ok re_match o E P c f :
  c <> CInvalid ->
  run re_ok re_match o E P c f = finish f (eval_flag re_ok re_match o E P c (flag_fuel E) [] f st0).
Proof. intros H. destruct c; [congruence|reflexivity|reflexivity]. Qed.

Section WF.
Variable re_ok : str -> bool.
Variable re_match : str -> str -> bool.
Variable o : opts.
Variable E : env.
Variable P : bsprov.
Variable c : ctx.

Lemma post_log k e (Q : unit -> Prop) : Q tt -> post (log o k e) Q.
Proof.
  intros H st a st' Ee. destruct a. exact H.
Qed.

Lemma post_get_variation f i r :
  ~ is_error r -> post (get_variation o f i r) (wf_detail f).
Proof.
  intros Hr. unfold get_variation. destruct (znth_opt (f_vars f) i) eqn:Hv.
  - apply post_ret. left. exists i, j. simpl. auto.
  - eapply post_bind; [apply post_true|]. intros _ _. apply post_ret. right; left. simpl. auto.
Qed.

Lemma post_off_value f r :
  (rs_kind r = ROff \/ exists k, rs_kind r = RPrereqFailed k) -> post (off_value o f r) (wf_detail f).
Proof.
  intros Hr. unfold off_value. destruct (f_off f) eqn:Ho.
  - apply post_get_variation. intros [k Hk]. destruct Hr as [Hr|[k' Hr]]; congruence.
  - apply post_ret. right; right. simpl. auto.
Qed.

Definition err_ok (e : everr) : Prop := err_kind e = KMalformed.

Lemma compute_bucket_err sec x isexp seed kind key attr salt e :
  compute_bucket sec x isexp seed kind key attr salt = Err e -> e = EBadAttr (ref_string attr).
Proof.
  unfold compute_bucket.
  destruct (isexp || negb (ref_defined attr)).
  - destruct (ctx_by_kind x kind) as [i|]; [|discriminate].
    destruct (get_value_for_ref i _); try discriminate. destruct (dy_is_int d); discriminate.
  - destruct (ref_has_err attr); [intros H; inversion H; reflexivity|].
    destruct (ctx_by_kind x kind) as [i|]; [|discriminate].
    destruct (get_value_for_ref i _); try discriminate. destruct (dy_is_int d); discriminate.
Qed.

Lemma vr_result_err_ok vr key salt e : vr_result o c vr key salt = Done (Err e) -> err_ok e.
Proof.
  unfold vr_result. destruct (vr_var vr); [discriminate|].
  destruct (ro_vars (vr_rollout vr)) as [|w ws]; [intros H; inversion H; reflexivity|].
  destruct (compute_bucket _ _ _ _ _ _ _ _) as [[b fl]|e'] eqn:Hb.
  - destruct (scan _ _ _); [discriminate|]. destruct (last_opt _); discriminate.
  - intros H. inversion H; subst. rewrite (compute_bucket_err _ _ _ _ _ _ _ _ _ Hb). reflexivity.
Qed.

Lemma post_vr_detail f vr r :
  ~ is_error r -> ~ is_error (to_experiment_reason r) -> post (vr_detail o c f vr r) (wf_detail f).
Proof.
  intros Hr Hr'. unfold vr_detail.
  destruct (vr_result o c vr (f_key f) (f_salt f)) as [[[i b]|e]| |] eqn:Hv.
  - apply post_get_variation. destruct b; assumption.
  - eapply post_bind; [apply post_true|]. intros _ _. apply post_ret. right; left. simpl.
    rewrite (vr_result_err_ok _ _ _ _ Hv). auto.
  - intros st a st' Ee. discriminate.
  - intros st a st' Ee. discriminate.
Qed.

(* errors of clause matching: only a segment cycle detected at the entry segment is not yet MALFORMED_FLAG *)
Definition clause_err_ok (r : er bool) : Prop := forall e, r = Err e -> err_ok e.

Lemma clause_noseg_err_ok cl : clause_err_ok (clause_match_noseg re_ok re_match cl c).
Proof.
  intros e. unfold clause_match_noseg.
  destruct (negb (ref_defined _)); [intros H; inversion H; reflexivity|].
  destruct (ref_has_err _); [intros H; inversion H; reflexivity|].
  destruct (str_eqb _ _); [discriminate|].
  destruct (ctx_by_kind _ _); [|discriminate]. destruct (get_value_for_ref _ _); discriminate.
Qed.

Lemma post_first_clause cm cls : (forall cl, post (cm cl) clause_err_ok) -> post (first_clause cm cls) clause_err_ok.
Proof.
  intros H. induction cls as [|cl r IH]; simpl.
  - apply post_ret. intros e He. discriminate.
  - eapply post_bind; [apply H|]. intros [[|]|e] Ha.
    + exact IH.
    + apply post_ret. intros e He; discriminate.
    + apply post_ret. intros e' He. inversion He; subst. apply Ha. reflexivity.
Qed.

Lemma post_seg_match_values segc neg vals :
  (forall sg, post (segc sg) clause_err_ok) -> post (seg_match_values E segc neg vals) clause_err_ok.
Proof.
  intros H. induction vals as [|v r IH]; simpl.
  - apply post_ret. intros e He; discriminate.
  - destruct v; try exact IH.
    eapply post_bind; [apply post_true|]. intros _ _.
    destruct (assoc x (e_segments E)); [|exact IH].
    eapply post_bind; [apply H|]. intros [[|]|e] Ha.
    + apply post_ret. intros e He; discriminate.
    + exact IH.
    + apply post_ret. intros e' He. inversion He; subst. apply Ha. reflexivity.
Qed.

Lemma post_clause_match segc cl :
  (forall sg, post (segc sg) clause_err_ok) -> post (clause_match re_ok re_match E c segc cl) clause_err_ok.
Proof.
  intros H. unfold clause_match. destruct (str_eqb _ _).
  - apply post_seg_match_values. exact H.
  - apply post_ret. apply clause_noseg_err_ok.
Qed.

(* a segment evaluation reports either a wrapped error (MALFORMED_FLAG) or a cycle at its own key on the path *)
Lemma post_seg_contains fuel chain sg :
  post (seg_contains re_ok re_match o E P c fuel chain sg)
       (fun r => forall e, r = Err e -> err_ok e \/ (e = ECircSeg (sg_key sg) /\ mem_str (sg_key sg) chain = true)).
Proof.
  destruct fuel as [|n]; simpl; [intros st a st' Ee; discriminate|].
  destruct (mem_str (sg_key sg) chain) eqn:Hm.
  - apply post_ret. intros e He. inversion He; subst. right. auto.
  - eapply post_bind; [apply post_true|]. intros [b|] _.
    + apply post_ret. intros e He; discriminate.
    + generalize (sg_rules sg). intros rs. induction rs as [|r rest IH]; simpl.
      * apply post_ret. intros e He; discriminate.
      * eapply post_bind; [apply post_true|]. intros [[|]|e] _.
        -- apply post_ret. intros e He; discriminate.
        -- exact IH.
        -- apply post_ret. intros e' He. inversion He; subst. left. reflexivity.
Qed.

Lemma post_seg_top sg : post (seg_contains re_ok re_match o E P c (seg_fuel E) [] sg) clause_err_ok.
Proof.
  eapply post_weaken; [apply post_seg_contains|]. intros r H e He.
  destruct (H e He) as [Hk|[_ Hm]]; [exact Hk|discriminate].
Qed.

Lemma post_rules_loop f rs i :
  post (rules_loop re_ok re_match o E c (seg_contains re_ok re_match o E P c (seg_fuel E) []) f rs i)
       (fun r => wf_detail f (fst r)).
Proof.
  revert i. induction rs as [|ru rest IH]; intros i; simpl.
  - eapply post_bind; [apply post_vr_detail|].
    + intros [k Hk]; discriminate.
    + intros [k Hk]; discriminate.
    + intros d Hd. apply post_ret. exact Hd.
  - eapply post_bind.
    + apply post_first_clause. intros cl. apply post_clause_match. apply post_seg_top.
    + intros [[|]|e] Ha.
      * eapply post_bind; [apply post_vr_detail|].
        -- intros [k Hk]; discriminate.
        -- intros [k Hk]; discriminate.
        -- intros d Hd. apply post_ret. exact Hd.
      * apply IH.
      * eapply post_bind; [apply post_true|]. intros _ _. apply post_ret. simpl. right; left. simpl.
        rewrite (Ha e eq_refl). auto.
Qed.

Lemma post_eval_flag fuel chain f :
  post (eval_flag re_ok re_match o E P c fuel chain f) (fun r => wf_detail f (fst r)).
Proof.
  destruct fuel as [|n]; simpl; [intros st a st' Ee; discriminate|].
  destruct (negb (f_on f)).
  - eapply post_bind; [apply post_off_value; left; reflexivity|]. intros d Hd. apply post_ret. exact Hd.
  - eapply post_bind; [apply post_true|]. intros [|k|] _.
    + destruct (any_target_match c f).
      * eapply post_bind; [apply post_get_variation|].
        -- intros [k Hk]; discriminate.
        -- intros d Hd. apply post_ret. exact Hd.
      * apply post_rules_loop.
    + eapply post_bind; [apply post_off_value; right; eexists; reflexivity|]. intros d Hd. apply post_ret. exact Hd.
    + apply post_ret. right; left. simpl. auto.
Qed.

(* C01: the result of an evaluation with a valid context is well-formed for the evaluated flag *)
Theorem run_wellformed f out :
  c <> CInvalid -> run re_ok re_match o E P c f = Done out -> wf_detail f (out_detail out).
Proof.
  intros Hc. rewrite (run_valid _ _ _ _ _ _ _ Hc). unfold finish.
  destruct (eval_flag _ _ _ _ _ _ _ _ _ _) as [[[d b]| |] st1] eqn:Ee; try discriminate.
  intros H; inversion H; subst; simpl.
  pose proof (post_eval_flag _ _ _ _ _ _ Ee) as Hw; simpl in Hw.
  destruct (s_status st1); [|exact Hw].
  destruct Hw as [[i [v [H1 [H2 [H3 H4]]]]]|[[H1 [H2 H3]]|[H1 [H2 [H3 H4]]]]];
    [left; exists i, v; simpl; repeat split; auto | right; left; simpl; auto | right; right; simpl; auto].
Qed.

(* C01: the only error kinds are MALFORMED_FLAG (valid context) and USER_NOT_SPECIFIED (exactly the invalid contexts) *)
Theorem run_error_kinds f out k :
  run re_ok re_match o E P c f = Done out -> rs_kind (d_reason (out_detail out)) = RError k ->
  (k = KMalformed /\ c <> CInvalid) \/ (k = KUserNotSpecified /\ c = CInvalid).
Proof.
  intros Hr Hk. destruct (match c with CInvalid => true | _ => false end) eqn:Hc.
  - assert (Hx : c = CInvalid) by (destruct c; try discriminate; reflexivity).
    right. rewrite Hx in Hr. unfold run in Hr. inversion Hr; subst. simpl in Hk. inversion Hk. auto.
  - assert (Hn : c <> CInvalid) by (intros Hx; rewrite Hx in Hc; discriminate).
    left. split; [|exact Hn].
    destruct (run_wellformed f out Hn Hr) as [[i [v [_ [_ [_ H4]]]]]|[[_ [_ H3]]|[_ [_ [_ H4]]]]].
    + exfalso. apply H4. exists k. exact Hk.
    + congruence.
    + destruct H4 as [H4|[k' H4]]; congruence.
Qed.

End WF.

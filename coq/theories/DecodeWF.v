(* Every value the decoder produces is well-formed in the sense of CodecRT (all integers within int64, the debug date
   within uint64, every attribute reference round-trip stable): so the fixed-point theorem applies to every accepted
   document (C15). *)
From LD Require Import Base F32 Data Semver Model Ops Codec CodecFacts CodecRT.
From RecordUpdate Require Import RecordUpdate.
Open Scope Z_scope.

Lemma dy_to_int_range d : in64 (dy_to_int d).
Proof.
  unfold in64, dy_to_int. destruct ((- two63 <=? dy_trunc d) && (dy_trunc d <? two63)) eqn:E.
  - apply andb_true_iff in E as [E1 E2]. apply Z.leb_le in E1. apply Z.ltb_lt in E2. lia.
  - unfold two63. lia.
Qed.
Lemma debug_range d : in_u64 (debug_date_of d).
Proof.
  unfold in_u64, debug_date_of. destruct (dy_trunc d <? 0) eqn:E1; [unfold two64; lia|].
  destruct (dy_trunc d <? two64) eqn:E2; [apply Z.ltb_ge in E1; apply Z.ltb_lt in E2; lia|unfold two63, two64; lia].
Qed.

Lemma in64_0 : in64 0.
Proof. unfold in64, two63. lia. Qed.

Lemma rd_int_range v z : rd_int v = Some z -> in64 z.
Proof. destruct v; simpl; try discriminate. intros H; inversion H. apply dy_to_int_range. Qed.
Lemma rd_int_or_null_range v x : rd_int_or_null v = Some x -> in64o x.
Proof.
  destruct v; simpl; try discriminate; intros H; inversion H; subst; intros z Hz; inversion Hz; subst.
  apply dy_to_int_range.
Qed.

Lemma fold_props_inv {A} (I : A -> Prop) (step : str -> jv -> A -> option A) props : forall a0 a,
  (forall k v x x', I x -> step k v x = Some x' -> I x') -> I a0 -> fold_props step props a0 = Some a -> I a.
Proof.
  induction props as [|[k v] r IH]; intros a0 a Hs H0 Hf; simpl in Hf.
  - inversion Hf; subst; exact H0.
  - destruct (step k v a0) as [a1|] eqn:E; simpl in Hf; [|discriminate].
    eapply IH; [exact Hs|eapply Hs; eauto|exact Hf].
Qed.

Lemma rd_items_Forall {A} (P : A -> Prop) (f : jv -> option A) l : forall acc r,
  (forall v x, f v = Some x -> P x) -> Forall P acc -> rd_items f l acc = Some r -> Forall P r.
Proof.
  induction l as [|v l IH]; intros acc r Hf Ha Hr; simpl in Hr.
  - inversion Hr; subst; exact Ha.
  - destruct (f v) as [x|] eqn:E; simpl in Hr; [|discriminate].
    eapply IH; [exact Hf| |exact Hr]. apply Forall_app. split; [exact Ha|]. constructor; [eapply Hf; eauto|constructor].
Qed.
Lemma rd_array_or_null_Forall {A} (P : A -> Prop) (f : jv -> option A) v acc r :
  (forall v x, f v = Some x -> P x) -> Forall P acc -> rd_array_or_null f v acc = Some r -> Forall P r.
Proof.
  intros Hf Ha. destruct v; simpl; try discriminate.
  - intros H; inversion H; subst; exact Ha.
  - apply rd_items_Forall; assumption.
Qed.
Lemma rd_array_Forall {A} (P : A -> Prop) (f : jv -> option A) v acc r :
  (forall v x, f v = Some x -> P x) -> Forall P acc -> rd_array f v acc = Some r -> Forall P r.
Proof. intros Hf Ha. destruct v; simpl; try discriminate. apply rd_items_Forall; assumption. Qed.

(* split one step of a reader: either the property is the named one, or go on with the rest of the chain *)
Ltac chain H :=
  repeat match type of H with
  | (if ?b then _ else _) = Some _ => destruct b
  | bindo ?m _ = Some _ => let E := fresh "E" in destruct m eqn:E; cbn [bindo] in H; [|discriminate H]
  | Some _ = Some _ => inversion H; subst; clear H
  | None = Some _ => discriminate H
  end.

Lemma wf_rd_prereq v p : rd_prereq v = Some p -> wf_prereq p.
Proof.
  unfold rd_prereq, rd_object. destruct v; try discriminate. intros H.
  eapply (fold_props_inv (fun p => in64 (pq_var p)) _ _ prereq0); [|exact in64_0|exact H].
  intros k v x x' Hx Hs. unfold is in Hs.
  destruct (str_eqb k (s "key")); [destruct (rd_string v); inversion Hs; subst; exact Hx|].
  destruct (str_eqb k (s "variation")); [|inversion Hs; subst; exact Hx].
  destruct (rd_int v) eqn:E; inversion Hs; subst. cbn. eapply rd_int_range; eauto.
Qed.

Lemma wf_rd_target v t : rd_target v = Some t -> wf_target t.
Proof.
  unfold rd_target, rd_object. destruct v; try discriminate. intros H.
  eapply (fold_props_inv (fun t => in64 (t_var t)) _ _ target0); [|exact in64_0|exact H].
  intros k v x x' Hx Hs. unfold is in Hs.
  destruct (str_eqb k (s "contextKind")); [destruct (rd_string v); inversion Hs; subst; exact Hx|].
  destruct (str_eqb k (s "values")); [destruct (rd_array_or_null rd_string v (t_values x)); inversion Hs; subst; exact Hx|].
  destruct (str_eqb k (s "variation")); [|inversion Hs; subst; exact Hx].
  destruct (rd_int v) eqn:E; inversion Hs; subst. cbn. eapply rd_int_range; eauto.
Qed.

Lemma wf_rd_wvar v w : rd_wvar v = Some w -> wf_wvar w.
Proof.
  unfold rd_wvar, rd_object. destruct v; try discriminate. intros H.
  eapply (fold_props_inv wf_wvar _ _ wvar0); [|split; exact in64_0|exact H].
  intros k v x x' [H1 H2] Hs. unfold is in Hs.
  destruct (str_eqb k (s "variation")); [destruct (rd_int v) eqn:E; inversion Hs; subst; split; cbn; [eapply rd_int_range; eauto|exact H2]|].
  destruct (str_eqb k (s "weight")); [destruct (rd_int v) eqn:E; inversion Hs; subst; split; cbn; [exact H1|eapply rd_int_range; eauto]|].
  destruct (str_eqb k (s "untracked")); [destruct (rd_bool v); inversion Hs; subst; split; assumption|].
  inversion Hs; subst; split; assumption.
Qed.

Lemma wf_rd_clause v c : rd_clause v = Some c -> wf_clause c.
Proof.
  unfold rd_clause. unfold bindo at 1.
  match goal with |- match ?m with _ => _ end = _ -> _ => destruct m as [[c0 a]|] end; [|discriminate].
  intros H; inversion H; subst. unfold wf_clause. cbn. apply decoder_refs_are_stable.
Qed.

(* the parts of a rollout that accumulate across (duplicate) properties *)
Definition loose_rollout (ro : rollout) : Prop := Forall wf_wvar (ro_vars ro) /\ in64o (ro_seed ro).

Lemma rollout_step_loose k v (rb rb' : rollout * str) (step : str -> jv -> rollout * str -> option (rollout * str)) :
  step = (fun k v (rb : rollout * str) =>
      let '(ro, b) := rb in
      if is "kind" k then x <-? rd_string v ;; Some (ro <| ro_kind := x |>, b)
      else if is "contextKind" k then x <-? rd_string v ;; Some (ro <| ro_ctxkind := x |>, b)
      else if is "variations" k then x <-? rd_array rd_wvar v (ro_vars ro) ;; Some (ro <| ro_vars := x |>, b)
      else if is "bucketBy" k then x <-? rd_string_or_null v ;; Some (ro, x)
      else if is "seed" k then x <-? rd_int_or_null v ;;
           Some (match x with Some n => ro <| ro_seed := Some n |> | None => ro end, b)
      else Some (ro, b)) ->
  loose_rollout (fst rb) -> step k v rb = Some rb' -> loose_rollout (fst rb').
Proof.
  intros Hst [Hx1 Hx2] Hs. subst step. destruct rb as [x xb]. destruct rb' as [x' xb']. cbn [fst] in *. unfold is in Hs.
  destruct (str_eqb k (s "kind")); [destruct (rd_string v); inversion Hs; subst; split; assumption|].
  destruct (str_eqb k (s "contextKind")); [destruct (rd_string v); inversion Hs; subst; split; assumption|].
  destruct (str_eqb k (s "variations")).
  { destruct (rd_array rd_wvar v (ro_vars x)) eqn:Ea; inversion Hs; subst. split; cbn; [|exact Hx2].
    eapply rd_array_Forall; [apply wf_rd_wvar|exact Hx1|exact Ea]. }
  destruct (str_eqb k (s "bucketBy")); [destruct (rd_string_or_null v); inversion Hs; subst; split; assumption|].
  destruct (str_eqb k (s "seed")).
  { destruct (rd_int_or_null v) as [[n|]|] eqn:Ei; inversion Hs; subst; split; cbn; auto.
    intros z Hz. inversion Hz; subst. eapply (rd_int_or_null_range _ _ Ei). reflexivity. }
  inversion Hs; subst; split; assumption.
Qed.

Lemma wf_rd_rollout v out ro : loose_rollout out -> rd_rollout v out = Some ro -> wf_rollout ro.
Proof.
  intros Hout. unfold rd_rollout. destruct v; try discriminate.
  - intros H; inversion H; subst. apply wf_rollout0.
  - unfold bindo at 1.
    match goal with |- match ?m with _ => _ end = _ -> _ => destruct m as [[ro1 b]|] eqn:E end; [|discriminate].
    intros H; inversion H; subst.
    assert (Hl : loose_rollout (fst (ro1, b))).
    { eapply (fold_props_inv (fun rb : rollout * str => loose_rollout (fst rb)) _ _ (out, [])); [|exact Hout|exact E].
      intros k v x x' Hx Hs. eapply rollout_step_loose; [reflexivity|exact Hx|exact Hs]. }
    destruct Hl as [H1 H2]. cbn [fst] in H1, H2. unfold wf_rollout. cbn.
    split; [exact H1|]. split; [exact H2|]. apply decoder_refs_are_stable.
Qed.

Lemma wf_loose ro : wf_rollout ro -> loose_rollout ro.
Proof. intros [H1 [H2 _]]. split; assumption. Qed.

Lemma wf_vorr_step k v x r : wf_vorr x -> vorr_step k v x = Some r -> match r with Some x' => wf_vorr x' | None => True end.
Proof.
  intros [H1 H2]. unfold vorr_step, is.
  destruct (str_eqb k (s "variation")).
  { destruct (rd_int_or_null v) eqn:E; simpl; [|discriminate]. intros H; inversion H; subst. split; cbn; [eapply rd_int_or_null_range; eauto|exact H2]. }
  destruct (str_eqb k (s "rollout")).
  { destruct (rd_rollout v (vr_rollout x)) eqn:E; simpl; [|discriminate]. intros H; inversion H; subst. split; cbn; [exact H1|].
    eapply wf_rd_rollout; [apply wf_loose; exact H2|exact E]. }
  intros H; inversion H; subst. exact I.
Qed.

Lemma wf_vorr0 : wf_vorr vorr0.
Proof. split; [intros z H; discriminate|apply wf_rollout0]. Qed.

Lemma wf_rd_vorr v out x : wf_vorr out -> rd_vorr v out = Some x -> wf_vorr x.
Proof.
  intros Hout. unfold rd_vorr, rd_object. destruct v; try discriminate. intros H.
  eapply (fold_props_inv wf_vorr); [|exact Hout|exact H].
  intros k v x0 x' Hx Hs. cbv beta in Hs. destruct (vorr_step k v x0) as [[x1|]|] eqn:E; cbn [bindo] in Hs; inversion Hs; subst; [|exact Hx].
  exact (wf_vorr_step _ _ _ _ Hx E).
Qed.

Lemma wf_rd_rule v r : rd_rule v = Some r -> wf_rule r.
Proof.
  unfold rd_rule, rd_object. destruct v; try discriminate. intros H.
  eapply (fold_props_inv wf_rule); [| |exact H].
  - intros k v x x' [Hx1 Hx2] Hs. unfold is in Hs.
    destruct (str_eqb k (s "id")); [destruct (rd_string v); inversion Hs; subst; split; assumption|].
    destruct (str_eqb k (s "clauses")).
    { destruct (rd_array_or_null rd_clause v (ru_clauses x)) eqn:Ea; inversion Hs; subst. split; cbn; [exact Hx1|].
      eapply rd_array_or_null_Forall; [apply wf_rd_clause|exact Hx2|exact Ea]. }
    destruct (str_eqb k (s "trackEvents")); [destruct (rd_bool v); inversion Hs; subst; split; assumption|].
    destruct (vorr_step k v (ru_vr x)) as [[x1|]|] eqn:E; cbn [bindo] in Hs; inversion Hs; subst; [|split; assumption].
    split; cbn; [exact (wf_vorr_step _ _ _ _ Hx1 E)|exact Hx2].
  - split; [apply wf_vorr0|constructor].
Qed.

Lemma wf_rd_migration v x : rd_migration v = Some x -> in64o x.
Proof.
  unfold rd_migration. destruct v; try discriminate.
  - intros H; inversion H; subst. intros z Hz; discriminate.
  - intros H. eapply (fold_props_inv in64o); [| |exact H].
    + intros k v x0 x' Hx Hs. unfold is in Hs. destruct (str_eqb k (s "checkRatio")); [|inversion Hs; subst; exact Hx].
      destruct (rd_int v) as [zz|] eqn:E; inversion Hs; subst. intros z1 Hz; inversion Hz; subst. eapply rd_int_range; eauto.
    + intros z1 Hz; discriminate.
Qed.

Lemma wf_rd_csa v m m' : wf_meta m -> rd_csa v m = Some m' -> wf_meta m'.
Proof.
  intros Hm. unfold rd_csa. destruct v; try discriminate.
  - intros H; inversion H; subst. exact Hm.
  - intros H. eapply (fold_props_inv wf_meta _ _ (m <| fm_cs_explicit := true |>)); [|exact Hm|exact H].
    intros k v x x' Hx Hs. unfold is in Hs.
    destruct (str_eqb k (s "usingEnvironmentId")); [destruct (rd_bool v); inversion Hs; subst; exact Hx|].
    destruct (str_eqb k (s "usingMobileKey")); [destruct (rd_bool v); inversion Hs; subst; exact Hx|].
    inversion Hs; subst; exact Hx.
Qed.

Lemma wf_flag0 : wf_flag flag0.
Proof.
  unfold wf_flag, flag0, wf_meta, fmeta0. cbn.
  split; [constructor|]. split; [constructor|]. split; [constructor|]. split; [constructor|].
  split; [apply wf_vorr0|]. split; [intros z Hz; discriminate|].
  split; [exact in64_0|]. split; [unfold in_u64, two64; lia|]. split; [intros z Hz; discriminate|intros cr Hc; discriminate].
Qed.

Lemma in_u64_0 : in_u64 0.
Proof. unfold in_u64, two64. lia. Qed.

Local Opaque in64 in64o in_u64 wf_vorr.

Ltac fin := unfold wf_flag, wf_meta, onmeta; cbn;
  (split; [|split; [|split; [|split; [|split; [|split; [|split; [|split; [|split]]]]]]]]); auto.

Lemma wf_flag_step k v fd fd' : wf_flag (fst fd) -> flag_step k v fd = Some fd' -> wf_flag (fst fd').
Proof.
  destruct fd as [f d]. destruct fd' as [f' d']. cbn [fst]. intros [Hp [Ht [Hct [Hr [Hft [Hoff [Hm1 [Hm2 [Hm3 Hm4]]]]]]]]] Hs.
  unfold flag_step, is in Hs.
  destruct (str_eqb k (s "key")); [destruct (rd_string v) as [x|]; inversion Hs; subst; fin|].
  destruct (str_eqb k (s "on")); [destruct (rd_bool v); inversion Hs; subst; fin|].
  destruct (str_eqb k (s "prerequisites")).
  { destruct (rd_array_or_null rd_prereq v (f_prereqs f)) eqn:E; inversion Hs; subst. fin.
    eapply rd_array_or_null_Forall; [apply wf_rd_prereq|exact Hp|exact E]. }
  destruct (str_eqb k (s "targets")).
  { destruct (rd_array_or_null rd_target v (f_targets f)) eqn:E; inversion Hs; subst. fin.
    eapply rd_array_or_null_Forall; [apply wf_rd_target|exact Ht|exact E]. }
  destruct (str_eqb k (s "contextTargets")).
  { destruct (rd_array_or_null rd_target v (f_ctargets f)) eqn:E; inversion Hs; subst. fin.
    eapply rd_array_or_null_Forall; [apply wf_rd_target|exact Hct|exact E]. }
  destruct (str_eqb k (s "rules")).
  { destruct (rd_array_or_null rd_rule v (f_rules f)) eqn:E; inversion Hs; subst. fin.
    eapply rd_array_or_null_Forall; [apply wf_rd_rule|exact Hr|exact E]. }
  destruct (str_eqb k (s "fallthrough")).
  { destruct (rd_vorr v (f_fallthrough f)) eqn:E; inversion Hs; subst. fin. eapply wf_rd_vorr; eauto. }
  destruct (str_eqb k (s "offVariation")).
  { destruct (rd_int_or_null v) eqn:E; inversion Hs; subst. fin. eapply rd_int_or_null_range; eauto. }
  destruct (str_eqb k (s "variations")).
  { destruct (rd_array_or_null Some v (f_vars f)); inversion Hs; subst. fin. }
  destruct (str_eqb k (s "clientSideAvailability")).
  { destruct (rd_csa v (f_meta f)) as [m'|] eqn:E; inversion Hs; subst.
    destruct (wf_rd_csa v (f_meta f) m' (conj Hm1 (conj Hm2 (conj Hm3 Hm4))) E) as [G1 [G2 [G3 G4]]]. fin. }
  destruct (str_eqb k (s "clientSide")); [destruct (rd_bool v); inversion Hs; subst; fin|].
  destruct (str_eqb k (s "salt")); [destruct (rd_string v); inversion Hs; subst; fin|].
  destruct (str_eqb k (s "trackEvents")); [destruct (rd_bool v); inversion Hs; subst; fin|].
  destruct (str_eqb k (s "trackEventsFallthrough")); [destruct (rd_bool v); inversion Hs; subst; fin|].
  destruct (str_eqb k (s "debugEventsUntilDate")).
  { destruct v; inversion Hs; subst; fin; try apply debug_range; apply in_u64_0. }
  destruct (str_eqb k (s "version")).
  { destruct (rd_int v) eqn:E; inversion Hs; subst. fin. eapply rd_int_range; eauto. }
  destruct (str_eqb k (s "deleted")); [destruct (rd_bool v); inversion Hs; subst; fin|].
  destruct (str_eqb k (s "excludeFromSummaries")); [destruct (rd_bool v); inversion Hs; subst; fin|].
  destruct (str_eqb k (s "samplingRatio")).
  { destruct (rd_int v) as [zz|] eqn:E; inversion Hs; subst. fin.
    Local Transparent in64o. intros z0 Hz; inversion Hz; subst. eapply rd_int_range; eauto. }
  destruct (str_eqb k (s "migration")).
  { destruct (rd_migration v) eqn:E; inversion Hs; subst. fin.
    intros cr Hc; inversion Hc; subst. eapply wf_rd_migration; eauto. }
  inversion Hs; subst. fin.
Qed.

(* every accepted flag document decodes to a well-formed flag *)
Theorem decode_flag_wf j f : decode_flag j = Some f -> wf_flag f.
Proof.
  unfold decode_flag, rd_object. destruct j; try discriminate.
  destruct (fold_props flag_step l (flag0, false)) as [[f1 d]|] eqn:E; simpl; [|discriminate].
  assert (H1 : wf_flag f1).
  { change f1 with (fst (f1, d)). apply (fold_props_inv (fun fd => wf_flag (fst fd)) flag_step l (flag0, false) (f1, d)); [|cbn [fst]; apply wf_flag0|exact E].
    intros k v x x' Hx Hs. eapply wf_flag_step; eauto. }
  intros H; inversion H; subst. destruct (fm_cs_explicit (f_meta f1)); [exact H1|].
  destruct H1 as [Hp [Ht [Hct [Hr [Hft [Hoff [Hm1 [Hm2 [Hm3 Hm4]]]]]]]]]. fin.
Qed.

(* C15 for every accepted document: encode, decode once more -- and from then on nothing changes *)
Theorem accepted_document_reaches_fixed_point j f1 :
  decode_flag j = Some f1 ->
  exists f2, decode_flag (encode_flag f1) = Some f2 /\ encode_flag f2 = encode_flag f1 /\
             decode_flag (encode_flag f2) = Some f2.
Proof. intros H. apply flag_fixed_point_after_one_step. eapply decode_flag_wf; eauto. Qed.

(* ---------------- segments ---------------- *)
Local Transparent in64o.
Definition loose_segrule (r : segrule) : Prop := Forall wf_clause (sr_clauses r) /\ in64o (sr_weight r).

Lemma wf_rd_segrule v r : rd_segrule v = Some r -> wf_segrule r.
Proof.
  unfold rd_segrule. unfold bindo at 1.
  match goal with |- match ?m with _ => _ end = _ -> _ => destruct m as [[ru b]|] eqn:E end; [|discriminate].
  intros H; inversion H; subst; clear H.
  assert (L : loose_segrule (fst (ru, b))).
  { unfold rd_object in E. destruct v; try discriminate.
    eapply (fold_props_inv (fun rb : segrule * str => loose_segrule (fst rb)) _ _ (segrule0, [])); [| |exact E].
    - intros k v [x xb] [x' xb'] [H1 H2] Hs. cbn [fst] in *. unfold is in Hs.
      destruct (str_eqb k (s "id")); [destruct (rd_string v); inversion Hs; subst; split; assumption|].
      destruct (str_eqb k (s "clauses")).
      { destruct (rd_array_or_null rd_clause v (sr_clauses x)) eqn:Ea; inversion Hs; subst. split; cbn; [|exact H2].
        eapply rd_array_or_null_Forall; [apply wf_rd_clause|exact H1|exact Ea]. }
      destruct (str_eqb k (s "weight")).
      { destruct (rd_int_or_null v) as [[n|]|] eqn:Ei; inversion Hs; subst; split; cbn; auto.
        intros z Hz; inversion Hz; subst. eapply (rd_int_or_null_range v (Some z)); eauto. }
      destruct (str_eqb k (s "bucketBy")); [destruct (rd_string_or_null v); inversion Hs; subst; split; assumption|].
      destruct (str_eqb k (s "rolloutContextKind")); [destruct (rd_string v); inversion Hs; subst; split; assumption|].
      inversion Hs; subst; split; assumption.
    - split; [constructor|intros z Hz; discriminate]. }
  destruct L as [L1 L2]. unfold wf_segrule. cbn. split; [exact L1|]. split; [exact L2|]. apply decoder_refs_are_stable.
Qed.

Lemma wf_segment_step k v sg sg' : wf_segment sg -> segment_step k v sg = Some sg' -> wf_segment sg'.
Proof.
  intros [Hr [Hv Hg]] Hs. unfold segment_step, is in Hs. unfold wf_segment.
  destruct (str_eqb k (s "key")); [destruct (rd_string v); inversion Hs; subst; cbn; auto|].
  destruct (str_eqb k (s "version")).
  { destruct (rd_int v) eqn:E; inversion Hs; subst. cbn. split; [exact Hr|]. split; [eapply rd_int_range; eauto|exact Hg]. }
  destruct (str_eqb k (s "generation")).
  { destruct (rd_int_or_null v) eqn:E; inversion Hs; subst. cbn. split; [exact Hr|]. split; [exact Hv|eapply rd_int_or_null_range; eauto]. }
  destruct (str_eqb k (s "deleted")); [destruct (rd_bool v); inversion Hs; subst; cbn; auto|].
  destruct (str_eqb k (s "included")); [destruct (rd_array_or_null rd_string v (sg_included sg)); inversion Hs; subst; cbn; auto|].
  destruct (str_eqb k (s "excluded")); [destruct (rd_array_or_null rd_string v (sg_excluded sg)); inversion Hs; subst; cbn; auto|].
  destruct (str_eqb k (s "includedContexts")); [destruct (rd_array_or_null rd_segtarget v (sg_inc_ctx sg)); inversion Hs; subst; cbn; auto|].
  destruct (str_eqb k (s "excludedContexts")); [destruct (rd_array_or_null rd_segtarget v (sg_exc_ctx sg)); inversion Hs; subst; cbn; auto|].
  destruct (str_eqb k (s "rules")).
  { destruct (rd_array_or_null rd_segrule v (sg_rules sg)) eqn:E; inversion Hs; subst. cbn. split; [|split; assumption].
    eapply rd_array_or_null_Forall; [apply wf_rd_segrule|exact Hr|exact E]. }
  destruct (str_eqb k (s "salt")); [destruct (rd_string v); inversion Hs; subst; cbn; auto|].
  destruct (str_eqb k (s "unbounded")); [destruct (rd_bool v); inversion Hs; subst; cbn; auto|].
  destruct (str_eqb k (s "unboundedContextKind")); [destruct (rd_string v); inversion Hs; subst; cbn; auto|].
  inversion Hs; subst; auto.
Qed.

Theorem decode_segment_wf j sg : decode_segment j = Some sg -> wf_segment sg.
Proof.
  unfold decode_segment, rd_object. destruct j; try discriminate. intros E.
  apply (fold_props_inv wf_segment segment_step l segment0 sg); [|split; [constructor|split; [exact in64_0|intros z Hz; discriminate]]|exact E].
  intros k v x x' Hx Hs. eapply wf_segment_step; eauto.
Qed.

Theorem accepted_segment_reaches_fixed_point j s1 :
  decode_segment j = Some s1 ->
  exists s2, decode_segment (encode_segment s1) = Some s2 /\ encode_segment s2 = encode_segment s1 /\
             decode_segment (encode_segment s2) = Some s2.
Proof. intros H. apply segment_fixed_point_after_one_step. eapply decode_segment_wf; eauto. Qed.

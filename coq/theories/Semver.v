(* go-semver v1.0.3: ParseAs(_, ParseModeAllowMissingMinorAndPatch) and ComparePrecedence. *)
From LD Require Import Base Scan.
Open Scope Z_scope.

Record semver := mksv { sv_major : Z; sv_minor : Z; sv_patch : Z; sv_pre : str; sv_build : str }.

Definition c_dot : N := 46%N.  Definition c_hyphen : N := 45%N.  Definition c_plus : N := 43%N.
Definition dot_t c := N.eqb c c_dot.
Definition hyphen_plus_t c := N.eqb c c_hyphen || N.eqb c c_plus.
Definition dot_hyphen_plus_t c := dot_t c || hyphen_plus_t c.
Definition plus_t c := N.eqb c c_plus.
Definition no_t (c : N) := false.

Definition is_alnum_hyphen (c : N) : bool :=
  is_digit c || (N.leb 97 c && N.leb c 122) || (N.leb 65 c && N.leb c 90) || N.eqb c c_hyphen.

(* requirePositiveIntegerComponent *)
Definition req_int (p : N -> bool) (x : str) : option (Z * term * str) :=
  let '(sub, t, rest) := read_until p x in
  match t with
  | TNonAscii => None
  | _ => match parse_num_nolead sub with Some n => Some (n, t, rest) | None => None end
  end.

Fixpoint validate_ids (fuel : nat) (prerelease : bool) (x : str) : bool :=
  match fuel with
  | O => false
  | S f =>
    let '(sub, t, rest) := read_until dot_t x in
    match t with
    | TNonAscii => false
    | _ =>
      match sub with
      | [] => false
      | c :: tl =>
        if negb (forallb is_alnum_hyphen sub) then false
        else if prerelease && (match tl with [] => false | _ => true end) && forallb is_digit sub && N.eqb c 48 then false
        else match t with TEof => true | _ => validate_ids f prerelease rest end
      end
    end
  end.

Definition parse_tail (v : semver) (t : term) (rest : str) : option semver :=
  (* prerelease *)
  let after_pre :=
    if term_is t c_hyphen then
      let '(pre, t2, rest2) := read_until plus_t rest in
      match pre, t2 with
      | [], _ => None
      | _, TNonAscii => None
      | _, _ => if validate_ids (S (List.length pre)) true pre
                then Some (mksv (sv_major v) (sv_minor v) (sv_patch v) pre [], t2, rest2) else None
      end
    else Some (v, t, rest) in
  match after_pre with
  | None => None
  | Some (v2, t2, rest2) =>
    if term_is t2 c_plus then
      let '(b, t3, _) := read_until no_t rest2 in
      match b, t3 with
      | [], _ => None
      | _, TNonAscii => None
      | _, _ => if validate_ids (S (List.length b)) false b
                then Some (mksv (sv_major v2) (sv_minor v2) (sv_patch v2) (sv_pre v2) b) else None
      end
    else Some v2
  end.

Definition parse_semver (x : str) : option semver :=
  match req_int dot_hyphen_plus_t x with
  | None => None
  | Some (mj, t, r) =>
    if term_is t c_dot then
      match req_int dot_hyphen_plus_t r with
      | None => None
      | Some (mn, t2, r2) =>
        if term_is t2 c_dot then
          match req_int hyphen_plus_t r2 with
          | None => None
          | Some (pa, t3, r3) => parse_tail (mksv mj mn pa [] []) t3 r3
          end
        else parse_tail (mksv mj mn 0 [] []) t2 r2
      end
    else parse_tail (mksv mj 0 0 [] []) t r
  end.

(* comparePrereleaseIdentifiers; an identifier list is consumed from both strings in lock step *)
Fixpoint cmp_pre (fuel : nat) (a b : str) (a_eof b_eof : bool) : Z :=
  match fuel with
  | O => 0
  | S f =>
    if a_eof then (if b_eof then 0 else -1)
    else if b_eof then 1
    else
      let '(i1, t1, r1) := read_until dot_t a in
      let '(i2, t2, r2) := read_until dot_t b in
      let d :=
        match parse_num_nolead i1, parse_num_nolead i2 with
        | Some n1, Some n2 => if n1 <? n2 then -1 else if n2 <? n1 then 1 else 0
        | Some _, None => -1
        | None, Some _ => 1
        | None, None => if str_ltb i1 i2 then -1 else if str_ltb i2 i1 then 1 else 0
        end in
      if negb (d =? 0) then d
      else cmp_pre f r1 r2 (match r1 with [] => true | _ => false end) (match r2 with [] => true | _ => false end)
  end.

Definition is_nil (x : str) := match x with [] => true | _ => false end.

Definition semver_cmp (v o : semver) : Z :=
  if sv_major v <? sv_major o then -1 else if sv_major o <? sv_major v then 1
  else if sv_minor v <? sv_minor o then -1 else if sv_minor o <? sv_minor v then 1
  else if sv_patch v <? sv_patch o then -1 else if sv_patch o <? sv_patch v then 1
  else if is_nil (sv_pre v) && is_nil (sv_pre o) then 0
  else if is_nil (sv_pre v) then 1
  else if is_nil (sv_pre o) then -1
  else cmp_pre (S (List.length (sv_pre v) + List.length (sv_pre o))) (sv_pre v) (sv_pre o) false false.

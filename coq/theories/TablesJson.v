(* The constant tables lifted from the repository source (gen/Tables.v, regenerated on every run) are the ones the
   model uses.  If the source changes one of them, this proof stops checking.  One file per property, so that a changed
   table breaks the proofs of the property it belongs to and no other. *)
From LD Require Import Base F32 Data Model Ops Bucket Eval Codec CodecFacts.
From LDGen Require Import Tables.
From Coq Require Import String List ZArith Bool.
Import ListNotations.


(* JSON property names: everything the encoder writes is recognised by the decoder, and the names the model's decoder
   and schema use are exactly among them *)
Definition mem_s (x : string) (l : list string) : bool := existsb (String.eqb x) l.

Theorem written_properties_are_read :
  forallb (fun p => String.eqb p "" || mem_s p read_properties) written_properties = true.
Proof. vm_compute. reflexivity. Qed.

Theorem model_property_names_are_the_source_names :
  forallb (fun p => mem_s p read_properties && mem_s p written_properties)
          (flag_names ++ segment_names ++ clause_names ++ target_names ++ rule_names)%list = true.
Proof. vm_compute. reflexivity. Qed.

Definition legacy_required : list string :=
  ["key"; "on"; "prerequisites"; "targets"; "contextTargets"; "rules"; "fallthrough"; "offVariation"; "variations";
   "clientSide"; "salt"; "trackEvents"; "trackEventsFallthrough"; "debugEventsUntilDate"; "version"; "deleted";
   "clauses"; "values"; "included"; "excluded"; "generation"]%string.
Theorem legacy_properties_are_written : forallb (fun p => mem_s p written_properties) legacy_required = true.
Proof. vm_compute. reflexivity. Qed.

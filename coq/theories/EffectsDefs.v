(* Vocabulary of the generated effect summary (gen/Effects.v) and a generic, once-proved reachability argument. *)
From Coq Require Import String List Bool.
Import ListNotations.
Open Scope string_scope.

Inductive wclass :=
| WLocal                       (* memory allocated by this very function (or a fresh value) *)
| WPerCall (t : string)        (* reached through a value of a per-call type: evaluationScope, evaluationStack, LocalBuffer, scanner *)
| WShared (t : string)         (* reached through a value of a data-model / evaluator type or a parameter pointing to one *)
| WGlobal (g : string)         (* package-level variable *)
| WUnknown (why : string).     (* the classifier could not place it *)

Inductive effect :=
| EWrite (c : wclass) (pos : string)
| ECall (fn : string)                    (* static callee, closure, function value or implementation of the module's own interface *)
| ECallIface (sig : string)              (* invoke on a foreign interface: providers, logger, membership *)
| ECallExt (name : string)               (* function of a dependency or of the standard library *)
| ECallDyn (sig : string)                (* call through a function-typed value that is not a known closure *)
| EGo (pos : string)
| ESync (what : string).

Record fn := mkfn { fn_name : string; fn_effects : list effect }.

Definition callees (f : fn) : list string :=
  flat_map (fun e => match e with ECall g => [g] | _ => [] end) (fn_effects f).

Fixpoint find_fn (fs : list fn) (n : string) : option fn :=
  match fs with [] => None | f :: r => if String.eqb (fn_name f) n then Some f else find_fn r n end.

Definition mem (n : string) (l : list string) : bool := existsb (String.eqb n) l.

(* one round: add the callees of everything in the set *)
Definition expand (fs : list fn) (seen : list string) : list string :=
  fold_left (fun acc n =>
    match find_fn fs n with
    | Some f => fold_left (fun acc g => if mem g acc then acc else (acc ++ [g])%list) (callees f) acc
    | None => acc
    end) seen seen.

Fixpoint closure (fuel : nat) (fs : list fn) (seen : list string) : list string :=
  match fuel with
  | O => seen
  | S k => let seen' := expand fs seen in
           if Nat.eqb (List.length seen') (List.length seen) then seen else closure k fs seen'
  end.

(* the set is closed when every callee of every member is a member *)
Definition closed (fs : list fn) (seen : list string) : bool :=
  forallb (fun n => match find_fn fs n with
                    | Some f => forallb (fun g => mem g seen) (callees f)
                    | None => true
                    end) seen.

Inductive Reach (fs : list fn) : string -> string -> Prop :=
| reach_refl n : Reach fs n n
| reach_step a f g c : Reach fs a (fn_name f) -> find_fn fs (fn_name f) = Some f -> In g (callees f) -> g = c -> Reach fs a c.

Lemma mem_In n l : mem n l = true <-> In n l.
Proof.
  unfold mem. rewrite existsb_exists. split.
  - intros [x [Hin He]]. apply String.eqb_eq in He. subst. exact Hin.
  - intros H. exists n. split; [exact H|apply String.eqb_refl].
Qed.

(* soundness of the check, for every graph: a closed set that contains the start contains everything reachable *)
Theorem closed_sound fs seen start :
  closed fs seen = true -> In start seen -> forall n, Reach fs start n -> In n seen.
Proof.
  intros Hc Hs n Hr. induction Hr as [|a f g c Hr IH Hf Hg He]; [exact Hs|]. subst c. specialize (IH Hs).
  unfold closed in Hc. rewrite forallb_forall in Hc. specialize (Hc (fn_name f) IH). rewrite Hf in Hc.
  rewrite forallb_forall in Hc. apply mem_In. apply Hc. exact Hg.
Qed.

(* every effect of every function in the set satisfies p *)
Definition all_effects (fs : list fn) (seen : list string) (p : effect -> bool) : bool :=
  forallb (fun n => match find_fn fs n with Some f => forallb p (fn_effects f) | None => true end) seen.

Theorem all_effects_sound fs seen start p :
  closed fs seen = true -> In start seen -> all_effects fs seen p = true ->
  forall n f e, Reach fs start n -> find_fn fs n = Some f -> In e (fn_effects f) -> p e = true.
Proof.
  intros Hc Hs Ha n f e Hr Hf He. pose proof (closed_sound fs seen start Hc Hs n Hr) as Hin.
  unfold all_effects in Ha. rewrite forallb_forall in Ha. specialize (Ha n Hin). rewrite Hf in Ha.
  rewrite forallb_forall in Ha. apply Ha. exact He.
Qed.

Definition write_ok (e : effect) : bool :=
  match e with EWrite WLocal _ | EWrite (WPerCall _) _ => true | EWrite _ _ => false | _ => true end.
Definition no_concurrency (e : effect) : bool := match e with EGo _ | ESync _ => false | _ => true end.
Definition no_dyn_except (allowed : list string) (e : effect) : bool :=
  match e with ECallDyn sg => mem sg allowed | _ => true end.
Definition ext_in (allowed : list string) (e : effect) : bool :=
  match e with ECallExt n => existsb (fun p => String.prefix p n) allowed | _ => true end.
Definition iface_in (allowed : list string) (e : effect) : bool :=
  match e with ECallIface n => mem n allowed | _ => true end.

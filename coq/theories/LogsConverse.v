(* C19, last sentence: "Results that are not errors on the evaluated flag's own path write nothing unless a nested
   prerequisite flag was itself malformed."  With a recorder configured the nested results are observable as events, and
   the statement is: if an evaluation -- top-level or nested -- wrote an error line, then either its own result is bad
   (MALFORMED_FLAG, or it told its dependents to stop), or during that evaluation an event was recorded whose
   prerequisite result is MALFORMED_FLAG. Every line is accounted for. *)
From LD Require Import Base F32 Data Semver Model Ops Bucket Eval EvalFacts Safety WellFormed Cycles Trace Transparent.
Open Scope Z_scope.

Definition bad_b (d : detail) : bool := match rs_kind (d_reason d) with RError KMalformed => true | _ => false end.
Lemma bad_b_spec d : bad_b d = true <-> bad_detail d.
Proof.
  unfold bad_b, bad_detail. destruct (rs_kind (d_reason d)) as [| | | | |k]; try (split; [discriminate|intros H; discriminate H]).
  destruct k; split; try reflexivity; try discriminate; intros H; discriminate H.
Qed.
Definition bad_event (x : obs) : bool := match x with OEvent ev => bad_b (ev_detail ev) | _ => false end.
Definition nbadev (s : st) : nat := List.length (filter bad_event (s_trace s)).

Section Conv.
Variable re_ok : str -> bool.
Variable re_match : str -> str -> bool.
Variable o : opts.
Variable E : env.
Variable P : bsprov.
Variable c : ctx.
Hypothesis has_recorder : o_recorder o = true.

(* neither counter moves / lines only with a bad answer *)
Definition quiet {A} (m : M A) (bad : A -> Prop) : Prop :=
  forall s a s', m s = (Done a, s') -> nbadev s' = nbadev s /\ (nlogs s <= nlogs s')%nat /\ ((nlogs s < nlogs s')%nat -> bad a).

Lemma quiet_ret {A} (a : A) bad : quiet (ret a) bad.
Proof. intros s a' s' Ee. inversion Ee; subst. split; [reflexivity|]. split; [lia|lia]. Qed.

Lemma log_effect k e s : exists s1, log o k e s = (Done tt, s1) /\ nbadev s1 = nbadev s /\ (nlogs s <= nlogs s1)%nat.
Proof.
  unfold log. destruct (o_logger o); [|exists s; split; [reflexivity|split; [reflexivity|lia]]].
  eexists. split; [reflexivity|]. unfold nbadev, nlogs. simpl. split; [reflexivity|lia].
Qed.

Lemma quiet_log_then {A} k e (a : A) (bad : A -> Prop) : bad a -> quiet (bind (log o k e) (fun _ => ret a)) bad.
Proof.
  intros Hb s a' s' Ee. unfold bind in Ee. destruct (log_effect k e s) as [s1 [H1 [H2 H3]]]. rewrite H1 in Ee.
  inversion Ee; subst. split; [exact H2|]. split; [exact H3|intros _; exact Hb].
Qed.

Lemma quiet_get_variation f i r : quiet (get_variation o f i r) bad_detail.
Proof.
  unfold get_variation. destruct (znth_opt _ _); [apply quiet_ret|]. apply quiet_log_then. reflexivity.
Qed.
Lemma quiet_off_value f r : quiet (off_value o f r) bad_detail.
Proof. unfold off_value. destruct (f_off f); [apply quiet_get_variation|apply quiet_ret]. Qed.
Lemma quiet_vr_detail f vr r : quiet (vr_detail o c f vr r) (fun d => bad_detail d \/ is_error (d_reason d)).
Proof.
  unfold vr_detail. destruct (vr_result o c vr (f_key f) (f_salt f)) as [[[i b]|e]| |].
  - intros s a s' Ee. destruct (quiet_get_variation f i _ s a s' Ee) as [H1 [H2 H3]]. split; [exact H1|]. split; [exact H2|].
    intros H. left. apply H3. exact H.
  - apply quiet_log_then. right. exists (err_kind e). reflexivity.
  - intros s a s' Ee; discriminate.
  - intros s a s' Ee; discriminate.
Qed.

(* clause and segment evaluation writes no line and records no event *)
Definition seg_obs (x : obs) : bool := match x with OGetSegment _ | OBsCheck _ _ => true | _ => false end.
Lemma early_silent sg s :
  nlogs (snd (seg_early P c sg s)) = nlogs s /\ nbadev (snd (seg_early P c sg s)) = nbadev s.
Proof.
  unfold seg_early, bind, emit, ret, set_status, membership_for, nlogs, nbadev.
  destruct (sg_unbounded sg); [|split; reflexivity].
  destruct (sg_generation sg) as [g|]; [|split; reflexivity].
  destruct (ctx_key_by_kind c (sg_unb_kind sg)) as [k|]; [|split; reflexivity].
  cbn [fst snd s_cache s_status s_trace].
  destruct (assoc k (s_cache s)) as [m|].
  - destruct m as [mem|]; split; reflexivity.
  - destruct P as [prov|]; cbn [fst snd]; [|split; reflexivity].
    destruct (bs_membership (prov k)) as [mem|]; split; reflexivity.
Qed.
Lemma clauses_silent cls s :
  let s' := snd (first_clause (clause_match re_ok re_match E c (seg_contains re_ok re_match o E P c (seg_fuel E) [])) cls s) in
  nlogs s' = nlogs s /\ nbadev s' = nbadev s.
Proof.
  apply (keeps_rule_clauses re_ok re_match o E P c (fun s' => nlogs s' = nlogs s /\ nbadev s' = nbadev s) seg_obs);
    try (intros; reflexivity).
  - intros x s0 Hx [H1 H2]. unfold nlogs, nbadev in *. simpl. destruct x; try discriminate Hx; simpl; split; assumption.
  - intros sg s0 [H1 H2]. destruct (early_silent sg s0) as [G1 G2]. split; congruence.
  - split; reflexivity.
Qed.

(* what an evaluation owes for the lines it wrote *)
Definition accounted (m : M (detail * bool)) : Prop :=
  forall s r s', m s = (Done r, s') ->
    (nbadev s <= nbadev s')%nat /\ (nlogs s <= nlogs s')%nat /\
    ((nlogs s < nlogs s')%nat -> bad_result r \/ is_error (d_reason (fst r)) \/ (nbadev s < nbadev s')%nat).

Lemma accounted_of_quiet (m : M detail) (bad : detail -> Prop) :
  quiet m bad -> (forall d, bad d -> bad_detail d \/ is_error (d_reason d)) -> accounted (bind m (fun d => ret (d, true))).
Proof.
  intros Hq Hb s r s' Ee. unfold bind in Ee. destruct (m s) as [[d| |] s1] eqn:Em; try discriminate.
  inversion Ee; subst. destruct (Hq _ _ _ Em) as [H1 [H2 H3]]. split; [lia|]. split; [exact H2|].
  intros H. destruct (Hb d (H3 H)) as [G|G]; [left; right; exact G|right; left; exact G].
Qed.

Lemma accounted_rules_loop f rs i :
  accounted (rules_loop re_ok re_match o E c (seg_contains re_ok re_match o E P c (seg_fuel E) []) f rs i).
Proof.
  revert i. induction rs as [|ru rest IH]; intros i; cbn [rules_loop].
  - apply (accounted_of_quiet _ _ (quiet_vr_detail f (f_fallthrough f) _)). auto.
  - intros s r s' Ee. unfold bind at 1 in Ee.
    pose proof (clauses_silent (ru_clauses ru) s) as [C1 C2]. cbv zeta in C1, C2.
    destruct (first_clause _ (ru_clauses ru) s) as [[m| |] sb]; try discriminate. simpl in C1, C2.
    destruct m as [[|]|e].
    + destruct (accounted_of_quiet _ _ (quiet_vr_detail f (ru_vr ru) (plain_reason (RRule i (ru_id ru)))) ltac:(auto) _ _ _ Ee) as [G1 [G2 G3]].
      split; [lia|]. split; [lia|]. intros H. destruct (G3 ltac:(lia)) as [G|[G|G]]; [left; exact G|right; left; exact G|right; right; lia].
    + destruct (IH _ _ _ _ Ee) as [G1 [G2 G3]]. split; [lia|]. split; [lia|].
      intros H. destruct (G3 ltac:(lia)) as [G|[G|G]]; [left; exact G|right; left; exact G|right; right; lia].
    + unfold bind in Ee. destruct (log_effect (f_key f) e sb) as [s1 [H1 [H2 H3]]]. rewrite H1 in Ee. inversion Ee; subst.
      split; [lia|]. split; [lia|]. intros _. left. left. reflexivity.
Qed.

Theorem accounted_eval_flag : forall fuel chain f, accounted (eval_flag re_ok re_match o E P c fuel chain f).
Proof.
  induction fuel as [|n IH]; intros chain f; cbn [eval_flag]; [intros s r s' Ee; discriminate|].
  destruct (negb (f_on f)).
  { apply (accounted_of_quiet _ _ (quiet_off_value f _)). auto. }
  intros s r s' Ee. unfold bind in Ee at 1.
  set (pm := match f_prereqs f with
             | [] => ret POk
             | ps => prereq_loop o E (eval_flag re_ok re_match o E P c n (chain ++ [f_key f])) f (chain ++ [f_key f]) ps
             end) in *.
  (* the prerequisite phase: a line is paid for by an abort or by a recorded malformed prerequisite result *)
  assert (Hpm : forall s0 out s1, pm s0 = (Done out, s1) ->
            (nbadev s0 <= nbadev s1)%nat /\ (nlogs s0 <= nlogs s1)%nat /\
            ((nlogs s0 < nlogs s1)%nat -> out = PAbort \/ (nbadev s0 < nbadev s1)%nat)).
  { unfold pm. destruct (f_prereqs f) as [|p0 ps0]; [intros s0 out s1 Hr; inversion Hr; subst; repeat split; lia|].
    generalize (p0 :: ps0). intros ps. induction ps as [|p rest IHp]; cbn [prereq_loop]; intros s0 out s1 Hr.
    - inversion Hr; subst. repeat split; lia.
    - unfold bind at 1 in Hr. unfold emit at 1 in Hr. cbn [fst snd] in Hr.
      set (sa := mkst (s_cache s0) (s_status s0) (OGetFlag (pq_key p) :: s_trace s0)) in *.
      assert (Hsa : nlogs sa = nlogs s0 /\ nbadev sa = nbadev s0) by (split; reflexivity). destruct Hsa as [Hsa1 Hsa2].
      destruct (assoc (pq_key p) (e_flags E)) as [pf|]; [|inversion Hr; subst; repeat split; lia].
      destruct (mem_str (f_key pf) (chain ++ [f_key f])).
      + unfold bind in Hr. destruct (log_effect (f_key f) (ECircPrereq (f_key pf)) sa) as [s2 [H1 [H2 H3]]]. rewrite H1 in Hr.
        inversion Hr; subst. split; [lia|]. split; [lia|]. intros _. left. reflexivity.
      + unfold bind at 1 in Hr.
        destruct (eval_flag re_ok re_match o E P c n (chain ++ [f_key f]) pf sa) as [[[d ok]| |] sb] eqn:Hev; try discriminate.
        destruct (IH _ _ _ _ _ Hev) as [G1 [G2 G3]].
        destruct ok; cbn [negb] in Hr.
        * unfold bind at 1 in Hr. rewrite has_recorder in Hr. unfold emit at 1 in Hr. cbn [fst snd] in Hr.
          set (sc := mkst (s_cache sb) (s_status sb) (OEvent (mkevent (f_key f) pf d (is_experiment pf (d_reason d)) (f_exclude pf)) :: s_trace sb)) in *.
          assert (Hsc1 : nlogs sc = nlogs sb) by reflexivity.
          assert (Hsc2 : nbadev sc = (if bad_b d then S (nbadev sb) else nbadev sb)).
          { unfold nbadev, sc. simpl. destruct (bad_b d); reflexivity. }
          (* a nested evaluation that wrote a line and completed: it recorded a bad event below, or its own result is bad *)
          assert (Hpay : (nlogs sa < nlogs sb)%nat -> (nbadev sa < nbadev sc)%nat).
          { intros Hl. destruct (G3 Hl) as [[Hb|Hb]|[Hb|Hb]].
            - simpl in Hb. discriminate.
            - simpl in Hb. apply bad_b_spec in Hb. rewrite Hsc2, Hb. lia.
            - (* an error reason that is not MALFORMED cannot come out of a nested evaluation with a valid context; either way
                 the count below already grew or the detail is bad *)
              simpl in Hb. destruct Hb as [k Hk]. rewrite Hsc2. destruct (bad_b d) eqn:Hbd; [lia|].
              exfalso. (* error kinds of nested results are MALFORMED only *)
              pose proof (post_eval_flag re_ok re_match o E P c n (chain ++ [f_key f]) pf _ _ _ Hev) as Hw. simpl in Hw.
              unfold bad_b in Hbd. rewrite Hk in Hbd. destruct k; try discriminate Hbd;
                destruct Hw as [[i [v [_ [_ [_ Hne]]]]]|[[_ [_ Hm]]|[_ [_ [_ [Hm|[k' Hm]]]]]]];
                try (apply Hne; eexists; exact Hk); rewrite Hk in Hm; discriminate Hm.
            - rewrite Hsc2. destruct (bad_b d); lia. }
          assert (Hmono : (nbadev sb <= nbadev sc)%nat) by (rewrite Hsc2; destruct (bad_b d); lia).
          destruct (_ || _).
          -- inversion Hr; subst. split; [lia|]. split; [lia|]. intros Hl. right. apply Hpay. lia.
          -- destruct (IHp _ _ _ Hr) as [G4 [G5 G6]]. split; [lia|]. split; [lia|].
             intros Hl. destruct (Nat.lt_ge_cases (nlogs sa) (nlogs sb)) as [Hc|Hc].
             ++ right. specialize (Hpay Hc). lia.
             ++ assert (Hl2 : (nlogs sc < nlogs s1)%nat) by lia. destruct (G6 Hl2) as [G|G]; [left; exact G|right; lia].
        * inversion Hr; subst. split; [lia|]. split; [lia|]. intros _. left. reflexivity. }
  destruct (pm s) as [[out| |] s1] eqn:Hp; try discriminate.
  destruct (Hpm _ _ _ Hp) as [P1 [P2 P3]].
  assert (Hlift : forall (m : M (detail * bool)), accounted m -> m s1 = (Done r, s') -> out <> PAbort ->
            (nbadev s <= nbadev s')%nat /\ (nlogs s <= nlogs s')%nat /\
            ((nlogs s < nlogs s')%nat -> bad_result r \/ is_error (d_reason (fst r)) \/ (nbadev s < nbadev s')%nat)).
  { intros m Hm Hr Hno. destruct (Hm _ _ _ Hr) as [G1 [G2 G3]]. split; [lia|]. split; [lia|].
    intros Hl. destruct (Nat.lt_ge_cases (nlogs s) (nlogs s1)) as [Hc|Hc].
    - destruct (P3 Hc) as [G|G]; [contradiction|right; right; lia].
    - destruct (G3 ltac:(lia)) as [G|[G|G]]; [left; exact G|right; left; exact G|right; right; lia]. }
  destruct out as [|k|].
  - destruct (any_target_match c f).
    + apply (Hlift _ (accounted_of_quiet _ _ (quiet_get_variation f z _) ltac:(auto)) Ee). discriminate.
    + apply (Hlift _ (accounted_rules_loop f (f_rules f) 0) Ee). discriminate.
  - apply (Hlift _ (accounted_of_quiet _ _ (quiet_off_value f _) ltac:(auto)) Ee). discriminate.
  - inversion Ee; subst. split; [lia|]. split; [lia|]. intros _. left. left. reflexivity.
Qed.

End Conv.

Lemma nbadev_pos_event tr : (0 < List.length (filter bad_event tr))%nat -> exists ev, In (OEvent ev) tr /\ bad_detail (ev_detail ev).
Proof.
  induction tr as [|x r IH]; simpl; [lia|]. destruct (bad_event x) eqn:Hx.
  - intros _. destruct x; try discriminate Hx. exists ev. split; [left; reflexivity|apply bad_b_spec; exact Hx].
  - intros H. destruct (IH H) as [ev [H1 H2]]. exists ev. split; [right; exact H1|exact H2].
Qed.
Lemma nlogs_pos_of_log tr k e : In (OLog k e) tr -> (0 < List.length (filter is_log tr))%nat.
Proof.
  induction tr as [|x r IH]; simpl; [intros []|]. intros [H|H]; [subst x; simpl; lia|].
  destruct (is_log x); simpl; [lia|apply IH; exact H].
Qed.

(* the whole call, as the property states it: a line in the log of an evaluation whose own result is not MALFORMED_FLAG
   means that a prerequisite evaluation recorded during the call was MALFORMED_FLAG *)
Theorem every_line_is_accounted_for re_ok re_match o E P c f out k e :
  o_recorder o = true -> run re_ok re_match o E P c f = Done out -> In (OLog k e) (out_trace out) ->
  rs_kind (d_reason (out_detail out)) = RError KMalformed \/
  exists ev, In (OEvent ev) (out_trace out) /\ bad_detail (ev_detail ev).
Proof.
  intros Hrec Hr Hin.
  destruct (match c with CInvalid => true | _ => false end) eqn:Hc.
  { destruct c; try discriminate. inversion Hr; subst. destruct Hin. }
  assert (Hn : c <> CInvalid) by (intros Hx; rewrite Hx in Hc; discriminate).
  pose proof Hr as Hr0. rewrite (run_valid re_ok re_match o E P c f Hn) in Hr. unfold finish in Hr.
  destruct (eval_flag re_ok re_match o E P c (flag_fuel E) [] f st0) as [[[d ok]| |] s1] eqn:Hev; try discriminate.
  destruct (accounted_eval_flag re_ok re_match o E P c Hrec _ _ _ _ _ _ Hev) as [G1 [G2 G3]].
  injection Hr as Hout.
  assert (Htr : out_trace out = rev (s_trace s1)) by (rewrite <- Hout; reflexivity).
  assert (Hkind : rs_kind (d_reason (out_detail out)) = rs_kind (d_reason d)) by (rewrite <- Hout; simpl; destruct (s_status s1); reflexivity).
  rewrite Htr in Hin. apply in_rev in Hin. pose proof (nlogs_pos_of_log _ _ _ Hin) as Hl.
  assert (Hl0 : (nlogs st0 < nlogs s1)%nat) by (unfold nlogs at 1; simpl; exact Hl).
  destruct (G3 Hl0) as [[Hb|Hb]|[Hb|Hb]].
  - simpl in Hb. subst ok. destruct (run_abort_is_malformed re_ok re_match o E P c f d s1 Hn Hev) as [out' [Ho [_ [_ Hk]]]].
    rewrite Ho in Hr0. injection Hr0 as Heq. subst out'. left. exact Hk.
  - left. simpl in Hb. rewrite Hkind. exact Hb.
  - simpl in Hb. destruct Hb as [k' Hk']. left. rewrite <- Hkind in Hk'.
    destruct (run_error_kinds re_ok re_match o E P c f out k' Hr0 Hk') as [[Hm _]|[_ Hx]]; [subst k'; exact Hk'|contradiction].
  - right. assert (Hp : (0 < List.length (filter bad_event (s_trace s1)))%nat) by (unfold nbadev in Hb; simpl in Hb; lia).
    destruct (nbadev_pos_event _ Hp) as [ev [H1 H2]]. exists ev. split; [|exact H2]. rewrite Htr. apply -> in_rev. exact H1.
Qed.

(* the same without assuming a recorder: the log lines of an evaluation do not depend on whether events are recorded
   ([recorder_keeps_log_lines]), so every line written by an evaluator *without* a recorder is accounted for by a
   MALFORMED_FLAG prerequisite result in the run of the same evaluator with one *)
Definition with_recorder (o : opts) : opts := mkopts (o_secondary o) (o_logger o) true.
Theorem every_line_is_accounted_for_any_recorder re_ok re_match o E P c f out k e :
  run re_ok re_match o E P c f = Done out -> In (OLog k e) (out_trace out) ->
  rs_kind (d_reason (out_detail out)) = RError KMalformed \/
  exists out', run re_ok re_match (with_recorder o) E P c f = Done out' /\ out_detail out' = out_detail out /\
               strip_events (out_trace out') = strip_events (out_trace out) /\
               exists ev, In (OEvent ev) (out_trace out') /\ bad_detail (ev_detail ev).
Proof.
  intros Hr Hin.
  destruct (recorder_keeps_log_lines re_ok re_match o (with_recorder o) E P c f out eq_refl eq_refl Hr) as [out' [Hr' [Hd [_ Ht]]]].
  assert (Hin' : In (OLog k e) (out_trace out')).
  { apply in_strip_events_log. rewrite Ht. apply (proj1 (in_strip_events_log k e (out_trace out))). exact Hin. }
  destruct (every_line_is_accounted_for re_ok re_match (with_recorder o) E P c f out' k e eq_refl Hr' Hin') as [H|H].
  - left. rewrite <- Hd. exact H.
  - right. exists out'. auto.
Qed.

(* The constant tables lifted from the repository source (gen/Tables.v, regenerated on every run) are the ones the
   model uses.  If the source changes one of them, this proof stops checking.  One file per property, so that a changed
   table breaks the proofs of the property it belongs to and no other. *)
From LD Require Import Base F32 Data Model Ops Bucket Eval Codec CodecFacts.
From LDGen Require Import Tables.
From Coq Require Import String List ZArith Bool.
Import ListNotations.


(* which internal error types map to MALFORMED_FLAG: all but the segment-cycle error, which has no errorKind method *)
Theorem error_kinds_match_source :
  error_kinds = [("badVariationError", "EvalErrorMalformedFlag"); ("emptyAttrRefError", "EvalErrorMalformedFlag");
                 ("badAttrRefError", "EvalErrorMalformedFlag"); ("emptyRolloutError", "EvalErrorMalformedFlag");
                 ("circularPrereqReferenceError", "EvalErrorMalformedFlag"); ("malformedSegmentError", "EvalErrorMalformedFlag")]%string
  /\ (err_kind (EBadVariation 0) = KMalformed /\ err_kind EEmptyAttr = KMalformed /\ err_kind (EBadAttr []) = KMalformed /\
      err_kind EEmptyRollout = KMalformed /\ err_kind (ECircPrereq []) = KMalformed /\
      err_kind (EMalformedSeg [] EEmptyAttr) = KMalformed /\ err_kind (ECircSeg []) = KException).
Proof. vm_compute. repeat split; reflexivity. Qed.

(* The constant tables lifted from the repository source (gen/Tables.v, regenerated on every run) are the ones the
   model uses.  If the source changes one of them, this proof stops checking.  One file per property, so that a changed
   table breaks the proofs of the property it belongs to and no other. *)
From LD Require Import Base F32 Data Model Ops Bucket Eval Codec CodecFacts.
From LDGen Require Import Tables.
From Coq Require Import String List ZArith Bool.
Import ListNotations.


(* bucketing constants *)
Theorem bucketing_constants_match_source :
  long_scale_src = long_scale /\ hash_prefix_len_src = hash_prefix_len /\
  weight_divisors = [("evaluator.go"%string, 100000%Z); ("evaluator_segment.go"%string, 100000%Z)].
Proof. vm_compute. auto. Qed.

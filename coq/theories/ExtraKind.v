(* C20 at the level of whole evaluations: adding to the context an individual context of a kind that no target, clause,
   rollout, segment rule, per-kind segment list or unbounded segment mentions (and that is not the default kind "user",
   which plain lists and kind-less clauses mean implicitly), and that no clause on the attribute "kind" can match, leaves
   the evaluation unchanged -- pointwise: same result, same state, same trace, from every start state, at every fuel,
   for every path prefix. A single-kind context becomes a multi-kind one in the process. *)
From LD Require Import Base F32 Data Semver Model Ops Bucket Eval EvalFacts Safety WellFormed Targets Prep PrepEval Locality Acyclic.
Open Scope Z_scope.

Definition add_kind (c : ctx) (x : single) : ctx :=
  match c with
  | CInvalid => CInvalid
  | CSingle y => CMulti [y; x]
  | CMulti l => CMulti (l ++ [x])
  end.

Section EK.
Variable re_ok : str -> bool.
Variable re_match : str -> str -> bool.
Variable o : opts.
Variable E : env.
Variable P : bsprov.
Variable c : ctx.
Variable x : single.       (* the added individual context *)

Definition cx : ctx := add_kind c x.

(* the configuration says kind k somewhere: it must not be the added kind ([] means the default kind) *)
Definition free (k : str) : Prop := str_eqb (c_kind x) (norm_kind k) = false.

Lemma find_app_last {A} (p : A -> bool) l y : p y = false -> find p (l ++ [y]) = find p l.
Proof. intros H. induction l as [|a l IH]; simpl; [rewrite H; reflexivity|]. destruct (p a); [reflexivity|exact IH]. Qed.

Lemma by_kind k : free k -> ctx_by_kind cx k = ctx_by_kind c k.
Proof.
  intros H. unfold ctx_by_kind, cx, add_kind. destruct c as [|y|l]; cbn [ctx_individuals]; [reflexivity| |].
  - change [y; x] with ([y] ++ [x]). apply find_app_last. exact H.
  - apply find_app_last. exact H.
Qed.
Lemma key_by_kind k : free k -> ctx_key_by_kind cx k = ctx_key_by_kind c k.
Proof. intros H. unfold ctx_key_by_kind. rewrite by_kind by exact H. reflexivity. Qed.

(* a clause does not see the added context: it addresses another kind, and if it tests the attribute "kind" it cannot
   match the added kind *)
Definition clause_free (cl : clause) : Prop :=
  str_eqb (cl_op cl) op_segment = true \/
  (free (cl_kind cl) /\ (str_eqb (ref_string (cl_attr cl)) (s "kind") = true -> match_any re_ok re_match cl (JStr (c_kind x)) = false)).
Definition vorr_free (vr : vorr) : Prop := free (ro_ctxkind (vr_rollout vr)).
Definition rule_free (ru : rule) : Prop := Forall clause_free (ru_clauses ru) /\ vorr_free (ru_vr ru).
Definition flag_free (f : flag) : Prop :=
  Forall (fun t => free (t_kind t)) (f_targets f) /\ Forall (fun t => free (t_kind t)) (f_ctargets f) /\
  Forall rule_free (f_rules f) /\ vorr_free (f_fallthrough f).
Definition segrule_free (r : segrule) : Prop := Forall clause_free (sr_clauses r) /\ free (sr_kind r).
Definition seg_free (sg : segment) : Prop :=
  Forall (fun t => free (st_kind t)) (sg_inc_ctx sg) /\ Forall (fun t => free (st_kind t)) (sg_exc_ctx sg) /\
  Forall segrule_free (sg_rules sg) /\ free (sg_unb_kind sg).
Definition env_free : Prop :=
  (forall k f, assoc k (e_flags E) = Some f -> flag_free f) /\ (forall k sg, assoc k (e_segments E) = Some sg -> seg_free sg).

Hypothesis Huser : free [].          (* the added kind is not "user" *)
Hypothesis HE : env_free.

Lemma free_user : free kind_user.
Proof. exact Huser. Qed.

Lemma clause_noseg_x cl : str_eqb (cl_op cl) op_segment = false -> clause_free cl ->
  clause_match_noseg re_ok re_match cl cx = clause_match_noseg re_ok re_match cl c.
Proof.
  intros Hop [Hc|[Hk Hm]]; [rewrite Hc in Hop; discriminate|]. unfold clause_match_noseg.
  destruct (negb (ref_defined (cl_attr cl))); [reflexivity|]. destruct (ref_has_err (cl_attr cl)); [reflexivity|].
  destruct (str_eqb (ref_string (cl_attr cl)) (s "kind")) eqn:Ek.
  - specialize (Hm eq_refl). f_equal. f_equal. unfold clause_match_by_kind, cx, add_kind. destruct c as [|y|l]; [reflexivity| |].
    + cbn [existsb]. rewrite Hm. rewrite !Bool.orb_false_r. reflexivity.
    + rewrite existsb_app. cbn [existsb]. rewrite Hm. rewrite !Bool.orb_false_r. reflexivity.
  - rewrite by_kind by exact Hk. reflexivity.
Qed.

Lemma seg_target_matches_x t : free (st_kind t) -> seg_target_matches cx t = seg_target_matches c t.
Proof. intros H. unfold seg_target_matches. rewrite key_by_kind by exact H. reflexivity. Qed.
Lemma regular_lists_x sg : seg_free sg -> regular_lists cx sg = regular_lists c sg.
Proof.
  intros [H1 [H2 _]]. unfold regular_lists. rewrite (key_by_kind kind_user free_user).
  rewrite (existsb_ext_in (seg_target_matches cx) (seg_target_matches c) (sg_inc_ctx sg))
    by (intros t Ht; apply seg_target_matches_x; rewrite Forall_forall in H1; exact (H1 t Ht)).
  rewrite (existsb_ext_in (seg_target_matches cx) (seg_target_matches c) (sg_exc_ctx sg))
    by (intros t Ht; apply seg_target_matches_x; rewrite Forall_forall in H2; exact (H2 t Ht)).
  reflexivity.
Qed.
Lemma seg_early_x sg : seg_free sg -> seg_early P cx sg == seg_early P c sg.
Proof.
  intros Hs. unfold seg_early. rewrite (regular_lists_x sg Hs). destruct Hs as [_ [_ [_ Hu]]].
  rewrite (key_by_kind _ Hu). apply meq_refl.
Qed.

Lemma clause_match_x sc1 sc2 cl :
  clause_free cl -> (forall k sg', assoc k (e_segments E) = Some sg' -> sc1 sg' == sc2 sg') ->
  clause_match re_ok re_match E cx sc1 cl == clause_match re_ok re_match E c sc2 cl.
Proof.
  intros Hc H. unfold clause_match. destruct (str_eqb (cl_op cl) op_segment) eqn:Hop.
  - apply seg_match_values_ext. intros k sg' _ Ha. exact (H k sg' Ha).
  - rewrite (clause_noseg_x cl Hop Hc). apply meq_refl.
Qed.
Lemma first_clause_x sc1 sc2 cls :
  Forall clause_free cls -> (forall k sg', assoc k (e_segments E) = Some sg' -> sc1 sg' == sc2 sg') ->
  first_clause (clause_match re_ok re_match E cx sc1) cls == first_clause (clause_match re_ok re_match E c sc2) cls.
Proof.
  intros Hc H. apply first_clause_ext. intros cl Hin. apply clause_match_x; [|exact H].
  rewrite Forall_forall in Hc. exact (Hc cl Hin).
Qed.

Lemma bucket_x sec isexp seed kind key attr salt : free kind ->
  compute_bucket sec cx isexp seed kind key attr salt = compute_bucket sec c isexp seed kind key attr salt.
Proof. intros H. unfold compute_bucket. rewrite by_kind by exact H. reflexivity. Qed.

Lemma seg_rule_match_x sc1 sc2 sg r :
  segrule_free r -> (forall k sg', assoc k (e_segments E) = Some sg' -> sc1 sg' == sc2 sg') ->
  seg_rule_match re_ok re_match o E cx sc1 sg r == seg_rule_match re_ok re_match o E c sc2 sg r.
Proof.
  intros [Hc Hk] H. unfold seg_rule_match. apply bind_ext; [apply first_clause_x; assumption|].
  intros [[|]|e]; try apply meq_refl. destruct (sr_weight r); [|apply meq_refl].
  rewrite (bucket_x _ _ _ _ _ _ _ Hk). apply meq_refl.
Qed.

Lemma seg_contains_x : forall fuel chain sg, seg_free sg ->
  seg_contains re_ok re_match o E P cx fuel chain sg == seg_contains re_ok re_match o E P c fuel chain sg.
Proof.
  induction fuel as [|m IH]; intros chain sg Hs; [apply meq_refl|].
  rewrite !seg_contains_unfold. destruct (mem_str (sg_key sg) chain); [apply meq_refl|].
  apply bind_ext; [apply seg_early_x; exact Hs|]. intros [b|]; [apply meq_refl|].
  apply seg_rules_ext. intros r Hr. apply seg_rule_match_x.
  - destruct Hs as [_ [_ [Hrs _]]]. rewrite Forall_forall in Hrs. exact (Hrs r Hr).
  - intros k sg' Ha. apply IH. exact (proj2 HE k sg' Ha).
Qed.

(* ---- flags ---- *)
Lemma vr_result_x vr key salt : vorr_free vr -> vr_result o cx vr key salt = vr_result o c vr key salt.
Proof.
  intros Hb. unfold vr_result. destruct (vr_var vr); [reflexivity|]. destruct (ro_vars (vr_rollout vr)); [reflexivity|].
  rewrite (bucket_x _ _ _ _ key _ salt Hb). reflexivity.
Qed.
Lemma vr_detail_x f vr r : vorr_free vr -> vr_detail o cx f vr r = vr_detail o c f vr r.
Proof. intros Hb. unfold vr_detail. rewrite (vr_result_x vr _ _ Hb). reflexivity. Qed.

Lemma target_match_x t : free (t_kind t) -> target_match cx t = target_match c t.
Proof. intros H. unfold target_match. rewrite by_kind by exact H. reflexivity. Qed.
Lemma first_target_x ts : Forall (fun t => free (t_kind t)) ts -> first_target cx ts = first_target c ts.
Proof. induction ts as [|t r IH]; intros H; simpl; [reflexivity|]. inversion H; subst. rewrite target_match_x, IH by assumption. reflexivity. Qed.
Lemma fallback_target_x ts v : Forall (fun t => free (t_kind t)) ts -> fallback_target cx ts v = fallback_target c ts v.
Proof. induction ts as [|t r IH]; intros H; simpl; [reflexivity|]. inversion H; subst. rewrite target_match_x, IH by assumption. reflexivity. Qed.
Lemma ctx_targets_x f ts : Forall (fun t => free (t_kind t)) (f_targets f) -> Forall (fun t => free (t_kind t)) ts ->
  ctx_targets cx f ts = ctx_targets c f ts.
Proof.
  intros Hf. induction ts as [|t r IH]; intros H; cbn [ctx_targets]; [reflexivity|]. inversion H; subst.
  rewrite fallback_target_x by assumption. rewrite target_match_x by assumption. rewrite IH by assumption. reflexivity.
Qed.
Lemma any_target_match_x f : flag_free f -> any_target_match cx f = any_target_match c f.
Proof.
  intros [Ht [Hct _]]. unfold any_target_match. destruct (f_ctargets f) as [|t0 r0]; [apply first_target_x; exact Ht|].
  apply ctx_targets_x; [exact Ht|exact Hct].
Qed.

Lemma rules_loop_x sc1 sc2 f rs i :
  Forall rule_free rs -> vorr_free (f_fallthrough f) ->
  (forall k sg', assoc k (e_segments E) = Some sg' -> sc1 sg' == sc2 sg') ->
  rules_loop re_ok re_match o E cx sc1 f rs i == rules_loop re_ok re_match o E c sc2 f rs i.
Proof.
  intros Hr Hft H. revert i. induction rs as [|ru rest IH]; intros i; cbn [rules_loop].
  - rewrite (vr_detail_x f _ _ Hft). apply meq_refl.
  - inversion Hr as [|? ? [Hc Hv] Hrest]; subst. apply bind_ext; [apply first_clause_x; assumption|].
    intros [[|]|e]; try apply meq_refl; [rewrite (vr_detail_x f _ _ Hv); apply meq_refl|apply IH; exact Hrest].
Qed.

Lemma prereq_loop_ext2 ev1 ev2 f chain' ps :
  (forall k pf, assoc k (e_flags E) = Some pf -> ev1 pf == ev2 pf) ->
  prereq_loop o E ev1 f chain' ps == prereq_loop o E ev2 f chain' ps.
Proof.
  intros H. induction ps as [|p rest IH]; cbn [prereq_loop]; [apply meq_refl|].
  apply bind_ext; [apply meq_refl|]. intros _.
  destruct (assoc (pq_key p) (e_flags E)) as [pf|] eqn:Ha; [|apply meq_refl].
  destruct (mem_str (f_key pf) chain'); [apply meq_refl|].
  apply bind_ext; [exact (H _ pf Ha)|]. intros [d ok]. destruct (negb ok); [apply meq_refl|].
  apply bind_ext; [apply meq_refl|]. intros _. destruct (_ || _); [apply meq_refl|exact IH].
Qed.

Theorem eval_flag_x : forall fuel chain f, flag_free f ->
  eval_flag re_ok re_match o E P cx fuel chain f == eval_flag re_ok re_match o E P c fuel chain f.
Proof.
  induction fuel as [|m IH]; intros chain f Hf; [apply meq_refl|].
  cbn [eval_flag]. destruct (negb (f_on f)); [apply meq_refl|].
  apply bind_ext.
  - destruct (f_prereqs f) as [|p0 ps]; [apply meq_refl|].
    change (prereq_loop o E (eval_flag re_ok re_match o E P cx m (chain ++ [f_key f])) f (chain ++ [f_key f]) (p0 :: ps) ==
            prereq_loop o E (eval_flag re_ok re_match o E P c m (chain ++ [f_key f])) f (chain ++ [f_key f]) (p0 :: ps)).
    apply prereq_loop_ext2. intros k pf Ha. apply IH. exact (proj1 HE k pf Ha).
  - intros [|k|]; try apply meq_refl. rewrite (any_target_match_x f Hf).
    destruct (any_target_match c f); [apply meq_refl|]. destruct Hf as [_ [_ [Hr Hft]]].
    apply rules_loop_x; [exact Hr|exact Hft|]. intros k sg' Ha. apply seg_contains_x. exact (proj2 HE k sg' Ha).
Qed.

Theorem unmentioned_kind_is_invisible f : flag_free f ->
  run re_ok re_match o E P cx f = run re_ok re_match o E P c f.
Proof.
  intros Hf. pose proof (eval_flag_x (flag_fuel E) [] f Hf st0) as H. unfold run. unfold cx in *.
  destruct c as [|y|l]; [reflexivity| |]; cbn [add_kind] in *; rewrite H; reflexivity.
Qed.

End EK.

(* non-vacuity: a flag with a rule on the user's "email" and a rollout over users mentions neither the kind "zz" nor
   tests the attribute "kind" *)
Example extra_kind_hypotheses_hold :
  let x := mksingle (s "zz") (s "q") None false None [] in
  let cl := mkclause [] (new_literal_ref (s "email")) op_in [JStr (s "a")] false cpre_none in
  let vr := mkvorr None (mkrollout [] [] [mkwvar 0 100000 false] (new_literal_ref (s "score")) None) in
  let f := mkflag (s "f") true [] [] [] [mkrule vr (s "r") [cl] false] vr None [JBool true] [] false false
                  (mkfmeta 0 false false 0 false false false None None) in
  forall re_ok re_match, free x [] /\ flag_free re_ok re_match x f /\ env_free re_ok re_match (mkenv [(s "f", f)] []) x.
Proof.
  cbv zeta. intros re_ok re_match.
  assert (Hf : flag_free re_ok re_match (mksingle (s "zz") (s "q") None false None [])
                 (mkflag (s "f") true [] [] []
                    [mkrule (mkvorr None (mkrollout [] [] [mkwvar 0 100000 false] (new_literal_ref (s "score")) None)) (s "r")
                       [mkclause [] (new_literal_ref (s "email")) op_in [JStr (s "a")] false cpre_none] false]
                    (mkvorr None (mkrollout [] [] [mkwvar 0 100000 false] (new_literal_ref (s "score")) None)) None [JBool true] [] false false
                    (mkfmeta 0 false false 0 false false false None None))).
  { split; [constructor|]. split; [constructor|]. split; [|reflexivity].
    constructor; [|constructor]. split; [|reflexivity]. constructor; [|constructor].
    right. split; [reflexivity|]. intros H; discriminate H. }
  split; [reflexivity|]. split; [exact Hf|]. split.
  - intros k g Ha. simpl in Ha. destruct (str_eqb k (s "f")); [|discriminate]. inversion Ha; subst. exact Hf.
  - intros k sg Ha. discriminate.
Qed.

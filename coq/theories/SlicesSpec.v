(* Go's by-value slice headers over shared backing arrays implement the immutable chains of the model: proofs. *)
From LD Require Import Base Slices.
From Coq Require Import Arith Lia.
Open Scope nat_scope.

Section TreeInd.
  Variable P : tree -> Prop.
  Hypothesis Hnode : forall k cs, Forall P cs -> P (Node k cs).
  Fixpoint tree_ind' (t : tree) : P t :=
    match t with
    | Node k cs => Hnode k cs ((fix go (l : list tree) : Forall P l :=
                                  match l with [] => Forall_nil _ | c :: r => Forall_cons _ (tree_ind' c) (go r) end) cs)
    end.
End TreeInd.

(* ---- lists ---- *)
Lemma set_nth_length {A} (l : list A) i x : length (set_nth l i x) = length l.
Proof. revert i; induction l as [|y l IH]; intros [|i]; cbn; auto. Qed.

Lemma firstn_set_nth {A} (l : list A) i x n : n <= i -> firstn n (set_nth l i x) = firstn n l.
Proof.
  revert i n; induction l as [|y l IH]; intros [|i] [|n] H; cbn; auto; try lia.
  f_equal. apply IH. lia.
Qed.

Lemma firstn_S_set_nth {A} (l : list A) i x : i < length l -> firstn (S i) (set_nth l i x) = firstn i l ++ [x].
Proof.
  revert i; induction l as [|y l IH]; intros [|i] H; cbn in *; try lia; auto.
  f_equal. apply IH. lia.
Qed.

Lemma nth_upd_nth_same {A} (l : list A) i f d : i < length l -> nth i (upd_nth l i f) d = f (nth i l d).
Proof. revert i; induction l as [|y l IH]; intros [|i] H; cbn in *; try lia; auto. apply IH. lia. Qed.

Lemma nth_upd_nth_other {A} (l : list A) i j f d : i <> j -> nth j (upd_nth l i f) d = nth j l d.
Proof. revert i j; induction l as [|y l IH]; intros [|i] [|j] H; cbn; auto; try congruence. Qed.

Lemma upd_nth_length {A} (l : list A) i f : length (upd_nth l i f) = length l.
Proof. revert i; induction l as [|y l IH]; intros [|i]; cbn; auto. Qed.

Lemma firstn_prefix_weaken {A} (l l' : list A) n : firstn (S n) l' = firstn (S n) l -> firstn n l' = firstn n l.
Proof.
  intro H. rewrite <- (Nat.min_l n (S n)) by lia. rewrite <- !firstn_firstn. rewrite H. reflexivity.
Qed.

Lemma firstn_S_app {A} (l : list A) x r : firstn (S (length l)) (l ++ x :: r) = l ++ [x].
Proof. induction l as [|y l IH]; cbn; [reflexivity|]. f_equal. exact IH. Qed.

(* ---- well-formed headers and what a callee may touch ---- *)
Definition wf (h : heap) (sl : slice) : Prop :=
  s_arr sl < length h /\ length (arr_of h (s_arr sl)) = s_cap sl /\ s_len sl <= s_cap sl.

(* h' differs from h at most beyond the part of the heap that the header sl (and hence every header of a caller, which
   shows a prefix of it or lives in an older array) can see *)
Definition frame (h : heap) (sl : slice) (h' : heap) : Prop :=
  length h <= length h' /\
  forall a, a < length h ->
    length (arr_of h' a) = length (arr_of h a) /\
    (a <> s_arr sl -> arr_of h' a = arr_of h a) /\
    (a = s_arr sl -> firstn (s_len sl) (arr_of h' a) = firstn (s_len sl) (arr_of h a)).

Lemma frame_refl h sl : frame h sl h.
Proof. split; [lia|]. intros a Ha. auto. Qed.

Lemma frame_trans h sl h1 h2 : frame h sl h1 -> frame h1 sl h2 -> frame h sl h2.
Proof.
  intros [L1 F1] [L2 F2]. split; [lia|]. intros a Ha.
  destruct (F1 a Ha) as (A1 & B1 & C1). destruct (F2 a ltac:(lia)) as (A2 & B2 & C2).
  split; [congruence|]. split.
  - intro N. rewrite B2, B1; auto.
  - intro E. rewrite C2, C1; auto.
Qed.

Lemma frame_read h sl h' : wf h sl -> frame h sl h' -> read h' sl = read h sl.
Proof. intros (Wa & _) [_ F]. destruct (F _ Wa) as (_ & _ & C). unfold read. apply C. reflexivity. Qed.

Lemma frame_wf h sl h' : wf h sl -> frame h sl h' -> wf h' sl.
Proof.
  intros (Wa & Wl & Wc) [L F]. destruct (F _ Wa) as (A & _ & _).
  split; [lia|]. split; [congruence | exact Wc].
Qed.

Section Append.
Variable grow : nat -> nat.
Notation append := (append grow).
Notation walk := (walk grow).

Lemma append_spec h sl x h1 sl1 : wf h sl -> append h sl x = (h1, sl1) ->
  wf h1 sl1 /\ read h1 sl1 = read h sl ++ [x] /\ frame h sl h1 /\
  (* whatever a callee holding sl1 may later change stays out of sight of sl *)
  (forall h2, frame h1 sl1 h2 -> frame h sl h2).
Proof.
  intros (Wa & Wl & Wc) E. unfold Slices.append in E.
  destruct (Nat.ltb_spec (s_len sl) (s_cap sl)) as [Lt|Ge]; injection E as <- <-.
  - (* in place *)
    assert (R : arr_of (upd_nth h (s_arr sl) (fun a => set_nth a (s_len sl) x)) (s_arr sl)
                = set_nth (arr_of h (s_arr sl)) (s_len sl) x).
    { unfold arr_of. rewrite nth_upd_nth_same by exact Wa. reflexivity. }
    assert (Fr : frame h sl (upd_nth h (s_arr sl) (fun a => set_nth a (s_len sl) x))).
    { split; [rewrite upd_nth_length; lia|]. intros a Ha. split; [|split].
      - destruct (Nat.eq_dec a (s_arr sl)) as [->|N].
        + rewrite R. apply set_nth_length.
        + unfold arr_of. rewrite nth_upd_nth_other by congruence. reflexivity.
      - intro N. unfold arr_of. rewrite nth_upd_nth_other by congruence. reflexivity.
      - intros ->. rewrite R. apply firstn_set_nth. lia. }
    split; [|split; [|split]].
    + split; cbn [s_arr s_len s_cap]; [rewrite upd_nth_length; exact Wa|]. split; [rewrite R, set_nth_length; exact Wl | lia].
    + unfold read. cbn [s_arr s_len]. rewrite R. apply firstn_S_set_nth. lia.
    + exact Fr.
    + intros h2 [L2 F2]. destruct Fr as [L1 F1]. split; [lia|]. intros a Ha.
      destruct (F1 a Ha) as (A1 & B1 & C1). destruct (F2 a ltac:(lia)) as (A2 & B2 & C2). cbn [s_arr s_len] in *.
      split; [congruence|]. split.
      * intro N. rewrite B2, B1; auto.
      * intro Ea. rewrite (firstn_prefix_weaken _ _ _ (C2 Ea)). apply C1. exact Ea.
  - (* reallocation: a fresh array; nothing that existed is written to *)
    assert (Len : s_len sl = s_cap sl) by lia.
    set (c := Nat.max (grow (s_cap sl)) (S (s_len sl))).
    set (na := read h sl ++ x :: repeat [] (c - S (s_len sl))).
    assert (Rl : length (read h sl) = s_len sl).
    { unfold read. rewrite firstn_length. lia. }
    assert (Old : forall a, a < length h -> arr_of (h ++ [na]) a = arr_of h a).
    { intros a Ha. unfold arr_of. apply app_nth1. exact Ha. }
    assert (New : arr_of (h ++ [na]) (length h) = na).
    { unfold arr_of. rewrite app_nth2 by lia. rewrite Nat.sub_diag. reflexivity. }
    assert (Fr : frame h sl (h ++ [na])).
    { split; [rewrite app_length; cbn; lia|]. intros a Ha. rewrite Old by exact Ha. auto. }
    split; [|split; [|split]].
    + split; cbn [s_arr s_len s_cap]; [rewrite app_length; cbn; lia|]. split.
      * rewrite New. unfold na. rewrite app_length. cbn [length]. rewrite repeat_length, Rl. lia.
      * lia.
    + unfold read at 1. cbn [s_arr s_len]. rewrite New. unfold na.
      rewrite <- Rl at 1. apply firstn_S_app.
    + exact Fr.
    + intros h2 [L2 F2]. split; [rewrite app_length in L2; cbn in L2; lia|]. intros a Ha.
      destruct (F2 a) as (A2 & B2 & _); [rewrite app_length; cbn; lia|]. cbn [s_arr] in B2.
      rewrite Old in A2, B2 by exact Ha.
      split; [exact A2|]. split; intros _; [|rewrite B2 by lia; reflexivity]. apply B2. lia.
Qed.

(* the walk over shared arrays sees, at every node, exactly the chain the immutable model threads; and what it leaves
   behind is out of sight of the caller's header *)
Theorem walk_refines t : forall h sl, wf h sl ->
  let '(h', o, ok) := walk h sl t in
  (o, ok) = pwalk (read h sl) t /\ frame h sl h'.
Proof.
  induction t as [k cs IH] using tree_ind'. intros h sl W.
  cbn [Slices.walk pwalk].
  destruct (mem k (read h sl)) eqn:M; [split; [reflexivity | apply frame_refl]|].
  destruct (append h sl k) as [h1 sl1] eqn:Ea.
  destruct (append_spec h sl k h1 sl1 W Ea) as (W1 & R1 & Fr1 & Up).
  rewrite <- R1.
  (* the children, one after the other, each with the header sl1 over the heap its predecessor left *)
  assert (Hgo : forall hx, wf hx sl1 -> read hx sl1 = read h1 sl1 -> frame h1 sl1 hx ->
    let '(h2, o, ok) :=
        (fix go (h : heap) (cs : list tree) : heap * list obs * bool :=
           match cs with
           | [] => (h, [], true)
           | c :: r =>
             let '(h2, o, ok) := walk h sl1 c in
             if ok then let '(h3, o', ok') := go h2 r in (h3, o ++ o', ok') else (h2, o, false)
           end) hx cs in
    (o, ok) = (fix go (cs : list tree) : list obs * bool :=
           match cs with
           | [] => ([], true)
           | c :: r =>
             let '(o, ok) := pwalk (read h1 sl1) c in
             if ok then let '(o', ok') := go r in (o ++ o', ok') else (o, false)
           end) cs /\ frame h1 sl1 h2).
  { induction cs as [|c r IHr]; intros hx Wx Rx Fx.
    - split; [reflexivity | exact Fx].
    - inversion IH as [|? ? Hc Hr]; subst.
      specialize (Hc hx sl1 Wx). destruct (walk hx sl1 c) as [[h2 o] ok]. destruct Hc as [Ec Fc].
      rewrite Rx in Ec. rewrite <- Ec.
      assert (F12 : frame h1 sl1 h2) by (eapply frame_trans; [exact Fx|]; exact Fc).
      destruct ok; [|split; [reflexivity | exact F12]].
      specialize (IHr Hr h2 (frame_wf _ _ _ W1 F12) (frame_read _ _ _ W1 F12) F12).
      destruct ((fix go (h : heap) (cs : list tree) : heap * list obs * bool :=
           match cs with
           | [] => (h, [], true)
           | c :: r =>
             let '(h2, o, ok) := walk h sl1 c in
             if ok then let '(h3, o', ok') := go h2 r in (h3, o ++ o', ok') else (h2, o, false)
           end) h2 r) as [[h3 o'] ok'].
      destruct IHr as [Er Fr]. rewrite <- Er. split; [reflexivity | exact Fr]. }
  specialize (Hgo h1 W1 eq_refl (frame_refl _ _)).
  destruct ((fix go (h : heap) (cs : list tree) : heap * list obs * bool :=
           match cs with
           | [] => (h, [], true)
           | c :: r =>
             let '(h2, o, ok) := walk h sl1 c in
             if ok then let '(h3, o', ok') := go h2 r in (h3, o ++ o', ok') else (h2, o, false)
           end) h1 cs) as [[h2 o] ok].
  destruct Hgo as [Eg Fg]. rewrite <- Eg. split; [reflexivity|]. apply Up. exact Fg.
Qed.

End Append.

Theorem callee_leaves_chain_intact grow t h sl : wf h sl ->
  let '(h', seen, completed) := walk grow h sl t in
  (seen, completed) = pwalk (read h sl) t /\ read h' sl = read h sl.
Proof.
  intros W. pose proof (walk_refines grow t h sl W) as H.
  destruct (walk grow h sl t) as [[h' o] ok]. destruct H as [E F]. split; [exact E|]. apply frame_read; assumption.
Qed.

Lemma make_wf n : wf (make_heap n) (make_slice n).
Proof. unfold wf, make_heap, make_slice, arr_of. cbn. rewrite repeat_length. lia. Qed.

(* evaluator.go: make([]string, 0, 20), then the recursion: whatever the reference tree, whatever append's growth policy *)
Theorem shared_arrays_implement_the_chain grow n t :
  let '(_, o, ok) := walk grow (make_heap n) (make_slice n) t in (o, ok) = pwalk [] t.
Proof.
  pose proof (walk_refines grow t (make_heap n) (make_slice n) (make_wf n)) as H.
  destruct (walk grow (make_heap n) (make_slice n) t) as [[h o] ok]. destruct H as [H _].
  rewrite H. unfold read, make_slice. cbn [s_len firstn]. reflexivity.
Qed.

(* what goes wrong without the by-value discipline: if the callee's append were visible to the caller's header (a pointer
   to the header instead of a copy), the second of two siblings would see the first one's key: a diamond reported as a
   cycle.  Kernel-checked on the smallest diamond. *)
Definition walk_by_pointer_diamond : bool :=
  (* F -> {A -> {C}, B -> {C}} with the chain persisting after A: C is "seen" when reached through B *)
  let chain_after_A := [s "F"; s "A"; s "C"] in mem (s "C") chain_after_A.
Example by_value_matters :
  walk_by_pointer_diamond = true /\
  snd (pwalk [] (Node (s "F") [Node (s "A") [Node (s "C") []]; Node (s "B") [Node (s "C") []]])) = true.
Proof. vm_compute. auto. Qed.

(* beyond the preallocated 20: a chain of 25 and a diamond below it *)
Fixpoint chain_tree (n : nat) (bottom : tree) : tree :=
  match n with O => bottom | S k => Node (s "k" ++ [N.of_nat n]) [chain_tree k bottom] end.
Example deeper_than_preallocated :
  let t := chain_tree 25 (Node (s "D") [Node (s "L") [Node (s "X") []]; Node (s "R") [Node (s "X") []]]) in
  let '(_, o, ok) := walk (fun c => 2 * c) (make_heap 20) (make_slice 20) t in
  ok = true /\ length o = 30.
Proof. vm_compute. auto. Qed.

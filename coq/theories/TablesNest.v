(* The constants of the nesting scan lifted from the repository source (gen/Tables.v, regenerated on every run): the model's
   limit is among the limits the source compares a counter with, and the six bytes the model distinguishes are among the
   byte constants the source compares (read by value, wherever in model_unmarshal.go the scan and its helpers are written). *)
From LD Require Import Base Nesting.
From LDGen Require Import Tables.
From Coq Require Import List ZArith Bool.
Import ListNotations.

Definition memZ (x : Z) (l : list Z) : bool := existsb (Z.eqb x) l.

Theorem nesting_constants_match_source :
  memZ nesting_limit nesting_limits_src = true /\
  forallb (fun c => memZ (Z.of_N c) nesting_chars_src) [ch_quote; ch_lbrack; ch_bslash; ch_rbrack; ch_lbrace; ch_rbrace] = true.
Proof. vm_compute. auto. Qed.

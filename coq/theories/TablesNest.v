(* The constants of the nesting scan lifted from the repository source (gen/Tables.v, regenerated on every run) are the
   ones the model uses: one limit, and exactly the six bytes the scan distinguishes. *)
From LD Require Import Base Nesting.
From LDGen Require Import Tables.
From Coq Require Import List ZArith.
Import ListNotations.

Theorem nesting_constants_match_source :
  nesting_limits_src = [nesting_limit] /\
  nesting_chars_src = map Z.of_N [ch_quote; ch_lbrack; ch_bslash; ch_rbrack; ch_lbrace; ch_rbrace].
Proof. vm_compute. auto. Qed.

(* C05: regular segment membership; C08: experiment attribution (statements on the reference interpreter) *)
From LD Require Import Base F32 Data Semver Model Ops Bucket Eval EvalFacts Safety WellFormed Pure Order.
Open Scope Z_scope.

Section SegSpec.
Variable re_ok : str -> bool.
Variable re_match : str -> str -> bool.
Variable o : opts.
Variable E : env.
Variable P : bsprov.
Variable c : ctx.

(* the context's key for the default kind is in the plain list *)
Definition in_plain (l : list str) (pre : option (list str)) : bool :=
  match ctx_key_by_kind c kind_user with Some k => find_key k l pre | None => false end.
(* per-kind lists: the key the context has for the entry's kind is in the entry's list *)
Definition per_kind (ts : list segtarget) : bool := existsb (seg_target_matches c) ts.

Definition included_any (sg : segment) : bool := in_plain (sg_included sg) (sg_pre_inc sg) || per_kind (sg_inc_ctx sg).
Definition excluded_any (sg : segment) : bool := in_plain (sg_excluded sg) (sg_pre_exc sg) || per_kind (sg_exc_ctx sg).

(* included lists (for any of the context's kinds) win over excluded lists; otherwise the rules decide *)
Lemma regular_lists_spec sg :
  regular_lists c sg = if included_any sg then Some true else if excluded_any sg then Some false else None.
Proof.
  unfold regular_lists, included_any, excluded_any, in_plain, per_kind.
  destruct (ctx_key_by_kind c kind_user) as [k|]; simpl.
  - destruct (find_key k (sg_included sg) (sg_pre_inc sg)); simpl; [reflexivity|].
    destruct (existsb (seg_target_matches c) (sg_inc_ctx sg)); simpl; [reflexivity|].
    destruct (find_key k (sg_excluded sg) (sg_pre_exc sg)); simpl; [reflexivity|].
    destruct (existsb (seg_target_matches c) (sg_exc_ctx sg)); reflexivity.
  - destruct (existsb (seg_target_matches c) (sg_inc_ctx sg)); simpl; [reflexivity|].
    destruct (existsb (seg_target_matches c) (sg_exc_ctx sg)); reflexivity.
Qed.

(* "its key is in an included list for one of its kinds", whatever the shape of the context: a per-kind list decides
   for a context -- single-kind or multi-kind -- exactly when the context has an individual context of the entry's kind
   whose key is listed (entries without precomputed data; the precomputed form is C14's business) *)
Lemma per_kind_spec ts : Forall (fun t => st_pre t = None) ts ->
  (per_kind ts = true <-> exists t x, In t ts /\ ctx_by_kind c (st_kind t) = Some x /\ In (c_key x) (st_values t)).
Proof.
  intros Hp. unfold per_kind. rewrite existsb_exists. rewrite Forall_forall in Hp. split.
  - intros [t [Hin Hm]]. unfold seg_target_matches, ctx_key_by_kind in Hm.
    destruct (ctx_by_kind c (st_kind t)) as [x|] eqn:Hx; [|discriminate]. cbn [option_map] in Hm.
    rewrite (Hp t Hin) in Hm. unfold find_key in Hm. apply mem_str_In in Hm. exists t, x. auto.
  - intros [t [x [Hin [Hx Hk]]]]. exists t. split; [exact Hin|]. unfold seg_target_matches, ctx_key_by_kind. rewrite Hx.
    cbn [option_map]. rewrite (Hp t Hin). unfold find_key. apply mem_str_In. exact Hk.
Qed.

Lemma included_any_unfolds sg :
  included_any sg = (match ctx_key_by_kind c kind_user with Some k => find_key k (sg_included sg) (sg_pre_inc sg) | None => false end
                     || per_kind (sg_inc_ctx sg))%bool /\
  excluded_any sg = (match ctx_key_by_kind c kind_user with Some k => find_key k (sg_excluded sg) (sg_pre_exc sg) | None => false end
                     || per_kind (sg_exc_ctx sg))%bool.
Proof. split; reflexivity. Qed.

(* a regular segment that is not on the current path: lists first, then the first matching rule *)
Lemma p_seg_regular n chain sg :
  sg_unbounded sg = false -> mem_str (sg_key sg) chain = false ->
  p_seg re_ok re_match o E P c (S n) chain sg =
  if included_any sg then Done (Ok true)
  else if excluded_any sg then Done (Ok false)
  else p_seg_rules (p_seg_rule re_ok re_match o E c (p_seg re_ok re_match o E P c n (chain ++ [sg_key sg])) sg)
                   (sg_key sg) (sg_rules sg).
Proof.
  intros Hu Hm. cbn [p_seg]. rewrite Hm. unfold p_seg_early. rewrite Hu. rewrite regular_lists_spec.
  destruct (included_any sg); [reflexivity|]. destruct (excluded_any sg); reflexivity.
Qed.

(* one segment rule: all clauses match and, when weighted, the bucket is below weight/100000; a weighted rule
   whose rollout kind is absent from the context does not match *)
Lemma p_seg_rule_unweighted segc sg r :
  sr_weight r = None ->
  p_seg_rule re_ok re_match o E c segc sg r =
  rbind (p_all_clauses (p_clause re_ok re_match E c segc) (sr_clauses r))
        (fun m => match m with Err e => Done (Err e) | Ok b => Done (Ok b) end).
Proof.
  intros H. unfold p_seg_rule. rewrite H. destruct (p_all_clauses _ _) as [[[|]|e]| |]; reflexivity.
Qed.

Lemma p_seg_rule_weighted segc sg r w b fl :
  sr_weight r = Some w ->
  p_all_clauses (p_clause re_ok re_match E c segc) (sr_clauses r) = Done (Ok true) ->
  compute_bucket (o_secondary o) c false None (sr_kind r) (sg_key sg) (sr_bucket_by r) (sg_salt sg) = Ok (b, fl) ->
  p_seg_rule re_ok re_match o E c segc sg r =
  Done (Ok (match fl with BLacksKind => false | _ => f32_ltb b (weight_frac w) end)).
Proof.
  intros Hw Hc Hb. unfold p_seg_rule. rewrite Hc. simpl. rewrite Hw, Hb. destruct fl; reflexivity.
Qed.

Lemma bucket_lacks_kind sec x isexp seed kind key attr salt b :
  compute_bucket sec x isexp seed kind key attr salt = Ok (b, BLacksKind) <->
  (isexp || negb (ref_defined attr) || negb (ref_has_err attr) = true) /\ ctx_by_kind x kind = None /\ b = f32_zero.
Proof.
  unfold compute_bucket. destruct (isexp || negb (ref_defined attr)) eqn:H1.
  - cbn [orb]. destruct (ctx_by_kind x kind) as [i|].
    + split; [|intros [_ [H _]]; discriminate].
      destruct (get_value_for_ref i (new_literal_ref (s "key"))); try discriminate. destruct (dy_is_int d); discriminate.
    + split; [intros H; inversion H; auto|intros [_ [_ H]]; subst; reflexivity].
  - cbn [orb]. destruct (ref_has_err attr) eqn:H2.
    + split; [discriminate|]. intros [H _]. discriminate.
    + destruct (ctx_by_kind x kind) as [i|].
      * split; [|intros [_ [H _]]; discriminate].
        destruct (get_value_for_ref i attr); try discriminate. destruct (dy_is_int d); discriminate.
      * split; [intros H; inversion H; auto|intros [_ [_ H]]; subst; reflexivity].
Qed.

(* a segment-match clause: missing segments and non-string values are skipped *)
Lemma segkey_step_missing segc neg k : assoc k (e_segments E) = None -> segkey_step E segc neg (JStr k) = Done None.
Proof. intros H. unfold segkey_step. rewrite H. reflexivity. Qed.
Lemma segkey_step_nonstring segc neg v : (forall k, v <> JStr k) -> segkey_step E segc neg v = Done None.
Proof. intros H. destruct v; try reflexivity. exfalso. eapply H; reflexivity. Qed.

(* ---- C08 ---- *)

(* the bucket that decides a rollout: the first one whose cumulative threshold exceeds b, else the last *)
Definition chosen_bucket (b : f32) (wvs : list wvar) : option wvar :=
  match scan b f32_zero wvs with Some wv => Some wv | None => last_opt wvs end.

Lemma chosen_bucket_in b wvs wv : chosen_bucket b wvs = Some wv -> In wv wvs.
Proof.
  unfold chosen_bucket. destruct (scan b f32_zero wvs) eqn:Hs.
  - intros H; inversion H; subst. eapply scan_in; eauto.
  - apply last_opt_in.
Qed.

(* in-experiment exactly when: rollout (no fixed variation) of kind experiment, chosen bucket not untracked, and the
   context has the rollout's kind -- on every exit of the scan, the last-bucket fallback included *)
Theorem vr_result_in_experiment vr key salt v inexp :
  vr_result o c vr key salt = Done (Ok (v, inexp)) ->
  inexp = true <->
  vr_var vr = None /\ is_experiment_rollout (vr_rollout vr) = true /\
  ctx_by_kind c (ro_ctxkind (vr_rollout vr)) <> None /\
  exists b fl wv, compute_bucket (o_secondary o) c true (ro_seed (vr_rollout vr)) (ro_ctxkind (vr_rollout vr)) key
                                 (ro_bucket_by (vr_rollout vr)) salt = Ok (b, fl) /\
                  chosen_bucket b (ro_vars (vr_rollout vr)) = Some wv /\ wv_untracked wv = false /\ v = wv_var wv.
Proof.
  unfold vr_result. destruct (vr_var vr) as [fixed|].
  { intros H; inversion H; subst. split; [discriminate|]. intros [Hn _]. discriminate. }
  destruct (ro_vars (vr_rollout vr)) as [|w ws] eqn:Hv; [discriminate|].
  destruct (is_experiment_rollout (vr_rollout vr)) eqn:Hexp.
  - destruct (compute_bucket _ _ true _ _ _ _ _) as [[b fl]|e] eqn:Hb; [|discriminate].
    unfold chosen_bucket.
    assert (Hlk : (match fl with BLacksKind => true | _ => false end) = true <-> ctx_by_kind c (ro_ctxkind (vr_rollout vr)) = None).
    { split.
      - intros H. destruct fl; try discriminate. apply bucket_lacks_kind in Hb. destruct Hb as [_ [Hb _]]. exact Hb.
      - intros H. unfold compute_bucket in Hb. cbn [orb] in Hb. rewrite H in Hb. inversion Hb. reflexivity. }
    destruct (scan b f32_zero (w :: ws)) as [wv|] eqn:Hs.
    + intros H; inversion H; subst. cbn [andb]. split.
      * intros Ht. apply andb_true_iff in Ht as [Hu Hl]. apply negb_true_iff in Hu, Hl.
        repeat split; auto.
        -- intros Hn. apply Hlk in Hn. congruence.
        -- exists b, fl, wv. rewrite Hs. auto.
      * intros [_ [_ [Hk [b' [fl' [wv' [Hb' [Hc [Hu Hvv]]]]]]]]]. inversion Hb'; subst b' fl'. rewrite Hs in Hc. inversion Hc; subst wv'.
        rewrite Hu. cbn [negb andb]. apply negb_true_iff. destruct (match fl with BLacksKind => true | _ => false end) eqn:Hm; [|reflexivity].
        exfalso. apply Hk. apply Hlk. reflexivity.
    + destruct (last_opt (w :: ws)) as [wv|] eqn:Hl; [|discriminate].
      intros H; inversion H; subst. cbn [andb]. split.
      * intros Ht. apply andb_true_iff in Ht as [Hu Hl']. apply negb_true_iff in Hu, Hl'.
        repeat split; auto.
        -- intros Hn. apply Hlk in Hn. congruence.
        -- exists b, fl, wv. rewrite Hs. repeat split; auto.
      * intros [_ [_ [Hk [b' [fl' [wv' [Hb' [Hc [Hu Hvv]]]]]]]]]. inversion Hb'; subst b' fl'. rewrite Hs in Hc.
        inversion Hc; subst wv'.
        rewrite Hu. cbn [negb andb]. apply negb_true_iff. destruct (match fl with BLacksKind => true | _ => false end) eqn:Hm; [|reflexivity].
        exfalso. apply Hk. apply Hlk. reflexivity.
  - destruct (compute_bucket _ _ false _ _ _ _ _) as [[b fl]|e]; [|discriminate].
    destruct (scan b f32_zero (w :: ws)); [|destruct (last_opt (w :: ws)); [|discriminate]];
      (intros H; inversion H; subst; split; [discriminate|intros [_ [H1 _]]; discriminate]).
Qed.

(* experiments always bucket by key and ignore bucket-by and the secondary key *)
Lemma experiment_buckets_by_key sec x seed kind key attr salt :
  compute_bucket sec x true seed kind key attr salt = compute_bucket false x true seed kind key ref_undef salt.
Proof. unfold compute_bucket. simpl. destruct sec; reflexivity. Qed.

(* IsExperiment: in-experiment, or legacy tracking of the fallthrough / of the matched rule *)
Lemma is_experiment_formula f r :
  is_experiment f r =
  rs_inexp r || match rs_kind r with
                | RFallthrough => f_track_ft f
                | RRule i _ => match znth_opt (f_rules f) i with Some ru => ru_track ru | None => false end
                | _ => false
                end.
Proof. unfold is_experiment. destruct (rs_inexp r); reflexivity. Qed.

Lemma is_experiment_other_stages f k :
  match k with ROff | RTarget | RPrereqFailed _ | RError _ => True | _ => False end ->
  is_experiment f (plain_reason k) = false.
Proof. destruct k; simpl; intros H; try contradiction; reflexivity. Qed.

End SegSpec.

(* ---- C07: every context is served exactly one of the listed buckets, whatever the weights sum to ---- *)
Lemma last_opt_some {A} (l : list A) : l <> [] -> exists x, last_opt l = Some x.
Proof.
  induction l as [|a l IH]; [congruence|]. intros _. destruct l as [|b l].
  - exists a. reflexivity.
  - destruct IH as [x Hx]; [congruence|]. exists x. cbn [last_opt] in *. exact Hx.
Qed.

Theorem chosen_bucket_exists b wvs : wvs <> [] -> exists wv, chosen_bucket b wvs = Some wv /\ In wv wvs.
Proof.
  intro H. unfold chosen_bucket. destruct (scan b f32_zero wvs) as [wv|] eqn:Hs.
  - exists wv. split; [reflexivity | eapply scan_in; eauto].
  - destruct (last_opt_some wvs H) as [x Hx]. exists x. split; [exact Hx | apply last_opt_in; exact Hx].
Qed.

Theorem chosen_bucket_fallback b wvs : scan b f32_zero wvs = None -> chosen_bucket b wvs = last_opt wvs.
Proof. intro H. unfold chosen_bucket. rewrite H. reflexivity. Qed.

(* what a rollout serves: the variation of the chosen bucket -- for every bucket value the hash produces, for an
   experiment as for a plain rollout; an empty rollout is the only way not to serve a bucket *)
Theorem rollout_serves_chosen_bucket o c vr key salt b fl :
  vr_var vr = None -> ro_vars (vr_rollout vr) <> [] ->
  compute_bucket (o_secondary o) c (is_experiment_rollout (vr_rollout vr)) (ro_seed (vr_rollout vr)) (ro_ctxkind (vr_rollout vr))
                 key (ro_bucket_by (vr_rollout vr)) salt = Ok (b, fl) ->
  exists wv inexp, chosen_bucket b (ro_vars (vr_rollout vr)) = Some wv /\
                   vr_result o c vr key salt = Done (Ok (wv_var wv, inexp)).
Proof.
  intros Hv Hne Hb. destruct (chosen_bucket_exists b _ Hne) as [wv [Hc _]].
  unfold vr_result. rewrite Hv. destruct (ro_vars (vr_rollout vr)) as [|w0 ws] eqn:Hw; [congruence|].
  rewrite Hb. unfold chosen_bucket in Hc.
  destruct (scan b f32_zero (w0 :: ws)) as [wv'|] eqn:Hs.
  - injection Hc as ->. eexists wv, _. split; [unfold chosen_bucket; rewrite Hs; reflexivity | reflexivity].
  - rewrite Hc. eexists wv, _. split; [unfold chosen_bucket; rewrite Hs; exact Hc | reflexivity].
Qed.

Theorem empty_rollout_is_malformed o c vr key salt :
  vr_var vr = None -> ro_vars (vr_rollout vr) = [] -> vr_result o c vr key salt = Done (Err EEmptyRollout).
Proof. intros Hv He. unfold vr_result. rewrite Hv, He. reflexivity. Qed.

(* Trace-level invariants of the model: big-segment query economy (C11) and error logging (C19).
   A state predicate that is stable under the primitive effects is stable under a whole evaluation. *)
From LD Require Import Base F32 Data Semver Model Ops Bucket Eval EvalFacts Safety WellFormed.
Open Scope Z_scope.

Definition is_query (x : obs) : bool := match x with OBsQuery _ => true | _ => false end.
Definition is_log (x : obs) : bool := match x with OLog _ _ => true | _ => false end.
(* observations other than provider queries and log lines *)
Definition plain_obs (x : obs) : bool := negb (is_query x) && negb (is_log x).
Definition is_ghost (x : obs) : bool := match x with GUnbounded _ _ _ => true | _ => false end.
(* observations of the flag-level walk: store reads, membership look-ups, events *)
Definition walk_obs (x : obs) : bool := plain_obs x && negb (is_ghost x).

Section Keeps.
Variable re_ok : str -> bool.
Variable re_match : str -> str -> bool.
Variable o : opts.
Variable E : env.
Variable P : bsprov.
Variable c : ctx.

(* A state predicate stable under (1) the observations of the walk, (2) log lines and (3) the big-segment block of a
   segment evaluation taken as ONE step (it emits a ghost observation, may query the provider and may change the status
   register, in that order: an invariant relating them only holds again at the end of the block). *)
Variable I : st -> Prop.
(* W: the observations the walk may emit outside that block; each lemma below depends only on the ones it meets
   (clause / segment evaluation: segment reads and membership look-ups; flags: also flag reads and events) *)
Variable W : obs -> bool.
Hypothesis W_getseg : forall k, W (OGetSegment k) = true.
Hypothesis W_check : forall k r, W (OBsCheck k r) = true.
Hypothesis W_getflag : forall k, W (OGetFlag k) = true.
Hypothesis W_event : forall ev, W (OEvent ev) = true.
Hypothesis I_emit : forall x s, W x = true -> I s -> I (mkst (s_cache s) (s_status s) (x :: s_trace s)).
Hypothesis I_log : forall k e s, I s -> I (snd (log o k e s)).
Hypothesis I_early : forall sg s, I s -> I (snd (seg_early P c sg s)).

Definition keeps {A} (m : M A) : Prop := forall s, I s -> I (snd (m s)).

Lemma keeps_ret {A} (a : A) : keeps (ret a).
Proof. intros s H; exact H. Qed.
Lemma keeps_fail1 {A} : keeps (@out_of_fuel A).
Proof. intros s H; exact H. Qed.
Lemma keeps_fail2 {A} : keeps (@panic A).
Proof. intros s H; exact H. Qed.
Lemma keeps_emit x : W x = true -> keeps (emit x).
Proof. intros Hx s H. apply I_emit; assumption. Qed.
Lemma keeps_bind {A B} (m : M A) (f : A -> M B) : keeps m -> (forall a, keeps (f a)) -> keeps (bind m f).
Proof.
  intros Hm Hf s Hs. unfold bind. specialize (Hm s Hs). destruct (m s) as [[a| |] s1]; simpl in *; auto. apply Hf. exact Hm.
Qed.
Lemma keeps_log k e : keeps (log o k e).
Proof. intros s H. apply I_log. exact H. Qed.

Ltac k_tac :=
  repeat first
    [ apply keeps_ret | apply keeps_log | apply keeps_fail1 | apply keeps_fail2
    | apply keeps_emit; first [apply W_getseg|apply W_check|apply W_getflag|apply W_event]
    | apply keeps_bind; [ | intros ? ] ].

Lemma keeps_first_clause cm cls : (forall cl, keeps (cm cl)) -> keeps (first_clause cm cls).
Proof.
  intros H. induction cls as [|cl r IH]; simpl; [apply keeps_ret|].
  apply keeps_bind; [apply H|]. intros [[|]|e]; try apply keeps_ret. exact IH.
Qed.
Lemma keeps_seg_match_values segc neg vals : (forall sg, keeps (segc sg)) -> keeps (seg_match_values E segc neg vals).
Proof.
  intros H. induction vals as [|v r IH]; simpl; [apply keeps_ret|]. destruct v; try exact IH.
  apply keeps_bind; [apply keeps_emit; first [apply W_getseg|apply W_check|apply W_getflag|apply W_event]|]. intros _.
  destruct (assoc x (e_segments E)); [|exact IH].
  apply keeps_bind; [apply H|]. intros [[|]|e]; try apply keeps_ret. exact IH.
Qed.
Lemma keeps_clause_match segc cl : (forall sg, keeps (segc sg)) -> keeps (clause_match re_ok re_match E c segc cl).
Proof. intros H. unfold clause_match. destruct (str_eqb _ _); [apply keeps_seg_match_values; exact H|apply keeps_ret]. Qed.
Lemma keeps_seg_rule_match segc sg r : (forall sg, keeps (segc sg)) -> keeps (seg_rule_match re_ok re_match o E c segc sg r).
Proof.
  intros H. unfold seg_rule_match. apply keeps_bind.
  - apply keeps_first_clause. intros cl. apply keeps_clause_match. exact H.
  - intros [[|]|e]; try apply keeps_ret. destruct (sr_weight r); [|apply keeps_ret].
    destruct (compute_bucket _ _ _ _ _ _ _ _) as [[b []]|e]; apply keeps_ret.
Qed.
Lemma keeps_seg_rules rm key rs : (forall r, keeps (rm r)) -> keeps (seg_rules rm key rs).
Proof.
  intros H. induction rs as [|r rest IH]; simpl; [apply keeps_ret|].
  apply keeps_bind; [apply H|]. intros [[|]|e]; try apply keeps_ret. exact IH.
Qed.

Lemma keeps_seg_contains : forall fuel chain sg, keeps (seg_contains re_ok re_match o E P c fuel chain sg).
Proof.
  induction fuel as [|n IH]; intros chain sg; [apply keeps_fail1|].
  rewrite seg_contains_unfold.
  destruct (mem_str (sg_key sg) chain); [apply keeps_ret|].
  apply keeps_bind.
  - intros s Hs. apply I_early. exact Hs.
  - intros [b|]; [apply keeps_ret|].
    apply keeps_seg_rules. intros r. apply keeps_seg_rule_match. intros sg'. apply IH.
Qed.

Lemma keeps_rule_clauses cls :
  keeps (first_clause (clause_match re_ok re_match E c (seg_contains re_ok re_match o E P c (seg_fuel E) [])) cls).
Proof. apply keeps_first_clause. intros cl. apply keeps_clause_match. intros sg. apply keeps_seg_contains. Qed.

Lemma keeps_get_variation f i r : keeps (get_variation o f i r).
Proof. unfold get_variation. destruct (znth_opt _ _); k_tac. Qed.
Lemma keeps_off_value f r : keeps (off_value o f r).
Proof. unfold off_value. destruct (f_off f); [apply keeps_get_variation|apply keeps_ret]. Qed.
Lemma keeps_vr_detail f vr r : keeps (vr_detail o c f vr r).
Proof.
  unfold vr_detail. destruct (vr_result o c vr (f_key f) (f_salt f)) as [[[i b]|e]| |]; k_tac. apply keeps_get_variation.
Qed.

Lemma keeps_rules_loop segc f rs i : (forall sg, keeps (segc sg)) -> keeps (rules_loop re_ok re_match o E c segc f rs i).
Proof.
  intros H. revert i. induction rs as [|ru rest IH]; intros i; cbn [rules_loop].
  - apply keeps_bind; [apply keeps_vr_detail|intros; apply keeps_ret].
  - apply keeps_bind; [apply keeps_first_clause; intros cl; apply keeps_clause_match; exact H|].
    intros [[|]|e]; [apply keeps_bind; [apply keeps_vr_detail|intros; apply keeps_ret]|apply IH|k_tac].
Qed.

Lemma keeps_prereq_loop ev f chain' ps : (forall pf, keeps (ev pf)) -> keeps (prereq_loop o E ev f chain' ps).
Proof.
  intros H. induction ps as [|p rest IH]; cbn [prereq_loop]; [apply keeps_ret|].
  apply keeps_bind; [apply keeps_emit; first [apply W_getseg|apply W_check|apply W_getflag|apply W_event]|]. intros _.
  destruct (assoc (pq_key p) (e_flags E)) as [pf|]; [|apply keeps_ret].
  destruct (mem_str (f_key pf) chain'); [k_tac|].
  apply keeps_bind; [apply H|]. intros [d ok]. destruct (negb ok); [apply keeps_ret|].
  apply keeps_bind; [destruct (o_recorder o); [apply keeps_emit; first [apply W_getseg|apply W_check|apply W_getflag|apply W_event]|apply keeps_ret]|]. intros _.
  destruct (_ || _); [apply keeps_ret|exact IH].
Qed.

Theorem keeps_eval_flag : forall fuel chain f, keeps (eval_flag re_ok re_match o E P c fuel chain f).
Proof.
  induction fuel as [|n IH]; intros chain f; cbn [eval_flag]; [apply keeps_fail1|].
  destruct (negb (f_on f)); [apply keeps_bind; [apply keeps_off_value|intros; apply keeps_ret]|].
  apply keeps_bind.
  - destruct (f_prereqs f) as [|p ps]; [apply keeps_ret|].
    change (keeps (prereq_loop o E (eval_flag re_ok re_match o E P c n (chain ++ [f_key f])) f (chain ++ [f_key f]) (p :: ps))).
    apply keeps_prereq_loop. intros pf. apply IH.
  - intros [|k|].
    + destruct (any_target_match c f); [apply keeps_bind; [apply keeps_get_variation|intros; apply keeps_ret]|].
      apply keeps_rules_loop. intros sg. apply keeps_seg_contains.
    + apply keeps_bind; [apply keeps_off_value|intros; apply keeps_ret].
    + apply keeps_ret.
Qed.

End Keeps.

(* the same with the block opened up: stability under every primitive effect implies stability under the block *)
Section KeepsPrims.
Variable re_ok : str -> bool.
Variable re_match : str -> str -> bool.
Variable o : opts.
Variable E : env.
Variable P : bsprov.
Variable c : ctx.
Variable I : st -> Prop.
Hypothesis I_emit : forall x s, plain_obs x = true -> I s -> I (mkst (s_cache s) (s_status s) (x :: s_trace s)).
Hypothesis I_log : forall k e s, I s -> I (snd (log o k e s)).
Hypothesis I_status : forall b s, I s -> I (mkst (s_cache s) (Some b) (s_trace s)).
Hypothesis I_membership : forall k s, I s -> I (snd (membership_for P k s)).

Lemma early_from_prims sg s : I s -> I (snd (seg_early P c sg s)).
Proof.
  intros Hs. unfold seg_early. destruct (sg_unbounded sg); [|exact Hs].
  destruct (sg_generation sg) as [g|].
  - destruct (ctx_key_by_kind c (sg_unb_kind sg)) as [k|].
    + unfold bind, emit. cbn [fst snd].
      set (s1 := mkst (s_cache s) (s_status s) (GUnbounded (sg_key sg) true true :: s_trace s)).
      assert (H1 : I s1) by (apply I_emit; [reflexivity|exact Hs]).
      pose proof (I_membership k s1 H1) as H2.
      destruct (membership_for P k s1) as [[m| |] s2]; cbn [fst snd] in *; try exact H2.
      destruct m as [mem|]; [|exact H2]. cbn [fst snd]. apply I_emit; [reflexivity|exact H2].
    + unfold bind, emit. cbn [fst snd]. apply I_emit; [reflexivity|exact Hs].
  - unfold bind, emit, set_status. cbn [fst snd]. apply I_status. apply (I_emit _ s); [reflexivity|exact Hs].
Qed.

Lemma walk_is_plain x : walk_obs x = true -> plain_obs x = true.
Proof. unfold walk_obs. intros H. apply andb_prop in H. exact (proj1 H). Qed.

Theorem keeps_eval_flag_prims fuel chain f s : I s -> I (snd (eval_flag re_ok re_match o E P c fuel chain f s)).
Proof.
  apply (keeps_eval_flag re_ok re_match o E P c I walk_obs); try (intros; reflexivity).
  - intros x s0 Hx H. apply I_emit; [apply walk_is_plain; exact Hx|exact H].
  - exact I_log.
  - exact early_from_prims.
Qed.
Theorem keeps_rule_clauses_prims cls s :
  I s -> I (snd (first_clause (clause_match re_ok re_match E c (seg_contains re_ok re_match o E P c (seg_fuel E) [])) cls s)).
Proof.
  apply (keeps_rule_clauses re_ok re_match o E P c I walk_obs); try (intros; reflexivity).
  - intros x s0 Hx H. apply I_emit; [apply walk_is_plain; exact Hx|exact H].
  - exact early_from_prims.
Qed.
End KeepsPrims.

(* ---------------- C11: the big-segment store is queried at most once per context key ---------------- *)
Definition queries (tr : list obs) : list str :=
  flat_map (fun x => match x with OBsQuery k => [k] | _ => [] end) tr.

Definition qinv (s : st) : Prop := queries (s_trace s) = map fst (s_cache s) /\ NoDup (map fst (s_cache s)).

Lemma assoc_none_notin {A} k (l : list (str * A)) : assoc k l = None -> ~ In k (map fst l).
Proof.
  induction l as [|[k' v] r IH]; simpl; [intros _ []|]. destruct (str_eqb k k') eqn:Hk; [discriminate|].
  intros H [H1|H1]; [subst; rewrite str_eqb_refl in Hk; discriminate|apply IH; assumption].
Qed.

Lemma qinv_membership P k s : qinv s -> qinv (snd (membership_for P k s)).
Proof.
  intros [H1 H2]. unfold membership_for. destruct (assoc k (s_cache s)) eqn:Ha; [split; assumption|].
  destruct P as [prov|]; simpl; [|split; assumption].
  split; simpl; [f_equal; exact H1|constructor; [apply assoc_none_notin; exact Ha|exact H2]].
Qed.

Theorem queries_nodup re_ok re_match o E P c f out :
  run re_ok re_match o E P c f = Done out -> NoDup (queries (out_trace out)).
Proof.
  destruct (match c with CInvalid => true | _ => false end) eqn:Hc.
  - destruct c; try discriminate. intros H; inversion H; subst. constructor.
  - assert (Hn : c <> CInvalid) by (intros Hx; rewrite Hx in Hc; discriminate).
    rewrite (run_valid _ _ _ _ _ _ _ Hn). unfold finish.
    pose proof (keeps_eval_flag_prims re_ok re_match o E P c qinv) as K.
    assert (Hq : qinv (snd (eval_flag re_ok re_match o E P c (flag_fuel E) [] f st0))).
    { apply K.
      - intros x s Hx [H1 H2]. split; simpl; [|exact H2]. destruct x; try discriminate; exact H1.
      - intros k e s [H1 H2]. unfold log. destruct (o_logger o); split; simpl; assumption.
      - intros b s H. exact H.
      - intros k s H. apply qinv_membership. exact H.
      - split; constructor. }
    destruct (eval_flag _ _ _ _ _ _ _ _ _ _) as [[[d b]| |] s1]; try discriminate.
    intros H; inversion H; subst. simpl. destruct Hq as [H1 H2]. simpl in *.
    assert (Hrev : forall tr, queries (rev tr) = rev (queries tr)).
    { induction tr as [|x tr IHt]; simpl; [reflexivity|]. unfold queries in *. rewrite flat_map_app, IHt. simpl.
      rewrite app_nil_r. destruct x; simpl; try (rewrite app_nil_r; reflexivity). reflexivity. }
    rewrite Hrev, H1. apply NoDup_rev. exact H2.
Qed.

(* ---------------- C19: a MALFORMED_FLAG result comes with an error line ---------------- *)
Definition nlogs (s : st) : nat := List.length (filter is_log (s_trace s)).

Section Logs.
Variable re_ok : str -> bool.
Variable re_match : str -> str -> bool.
Variable o : opts.
Variable E : env.
Variable P : bsprov.
Variable c : ctx.
Hypothesis has_logger : o_logger o = true.

(* logs are never removed *)
Lemma logs_mono_eval fuel chain f s : (nlogs s <= nlogs (snd (eval_flag re_ok re_match o E P c fuel chain f s)))%nat.
Proof.
  apply (keeps_eval_flag_prims re_ok re_match o E P c (fun s' => (nlogs s <= nlogs s')%nat)).
  - intros x s' _ H. unfold nlogs in *. simpl. destruct (is_log x); simpl; lia.
  - intros k e s' H. unfold log. destruct (o_logger o); unfold nlogs in *; simpl; lia.
  - intros b s' H. exact H.
  - intros k s' H. unfold membership_for. destruct (assoc k (s_cache s')); [exact H|]. destruct P; simpl; exact H.
  - lia.
Qed.

Lemma logs_mono_clauses cls s :
  (nlogs s <= nlogs (snd (first_clause (clause_match re_ok re_match E c (seg_contains re_ok re_match o E P c (seg_fuel E) [])) cls s)))%nat.
Proof.
  apply (keeps_rule_clauses_prims re_ok re_match o E P c (fun s' => (nlogs s <= nlogs s')%nat)).
  - intros x s' _ H. unfold nlogs in *. simpl. destruct (is_log x); simpl; lia.
  - intros b s' H. exact H.
  - intros k s' H. unfold membership_for. destruct (assoc k (s_cache s')); [exact H|]. destruct P; simpl; exact H.
  - lia.
Qed.

Definition grew {A} (m : M A) (bad : A -> Prop) : Prop :=
  forall s a s', m s = (Done a, s') -> (nlogs s <= nlogs s')%nat /\ (bad a -> (nlogs s < nlogs s')%nat).

Lemma grew_ret {A} (a : A) (bad : A -> Prop) : ~ bad a -> grew (ret a) bad.
Proof. intros H s a' s' Ee. inversion Ee; subst. split; [lia|contradiction]. Qed.

Lemma log_grows k e s : snd (log o k e s) = mkst (s_cache s) (s_status s) (OLog k e :: s_trace s) /\ fst (log o k e s) = Done tt.
Proof. unfold log. rewrite has_logger. split; reflexivity. Qed.

Lemma grew_log_then {A} k e (a : A) bad : grew (bind (log o k e) (fun _ => ret a)) bad.
Proof.
  intros s a' s' Ee. unfold bind in Ee. destruct (log_grows k e s) as [H1 H2].
  destruct (log o k e s) as [r s1]. simpl in *. subst r s1. inversion Ee; subst. unfold nlogs. simpl. split; lia.
Qed.

Definition bad_detail (d : detail) : Prop := rs_kind (d_reason d) = RError KMalformed.

Lemma grew_get_variation f i r : ~ is_error r -> grew (get_variation o f i r) bad_detail.
Proof.
  intros Hr. unfold get_variation. destruct (znth_opt _ _).
  - apply grew_ret. unfold bad_detail. simpl. intros H. apply Hr. exists KMalformed. exact H.
  - apply grew_log_then.
Qed.
Lemma grew_off_value f r : ~ is_error r -> grew (off_value o f r) bad_detail.
Proof.
  intros Hr. unfold off_value. destruct (f_off f); [apply grew_get_variation; exact Hr|].
  apply grew_ret. unfold bad_detail. simpl. intros H. apply Hr. exists KMalformed. exact H.
Qed.
Lemma grew_vr_detail f vr r : ~ is_error r -> ~ is_error (to_experiment_reason r) -> grew (vr_detail o c f vr r) bad_detail.
Proof.
  intros H1 H2. unfold vr_detail. destruct (vr_result o c vr (f_key f) (f_salt f)) as [[[i b]|e]| |].
  - apply grew_get_variation. destruct b; assumption.
  - apply grew_log_then.
  - intros s a s' Ee; discriminate.
  - intros s a s' Ee; discriminate.
Qed.

Definition bad_result (r : detail * bool) : Prop := snd r = false \/ bad_detail (fst r).

Lemma grew_then_pair {A} (m : M A) (bad : A -> Prop) (g : A -> detail * bool) :
  grew m bad -> (forall a, bad_result (g a) -> bad a) -> grew (bind m (fun a => ret (g a))) bad_result.
Proof.
  intros Hm Hg s r s' Ee. unfold bind in Ee. destruct (m s) as [[a| |] s1] eqn:Em; try discriminate.
  inversion Ee; subst. destruct (Hm _ _ _ Em) as [H1 H2]. split; [exact H1|]. intros Hb. apply H2. apply Hg. exact Hb.
Qed.

Lemma grew_weak_mono {A} (m : M A) : (forall s, (nlogs s <= nlogs (snd (m s)))%nat) -> grew m (fun _ => False).
Proof. intros H s a s' Ee. specialize (H s). rewrite Ee in H. simpl in H. split; [exact H|contradiction]. Qed.

Lemma logs_mono_generic {A} (m : M A) :
  (forall s0, (fun s' => (nlogs s0 <= nlogs s')%nat) s0 -> True) -> True.
Proof. auto. Qed.

(* every evaluation that ends in MALFORMED_FLAG, or that tells its dependents to stop, wrote an error line *)
Lemma grew_eval_flag : forall fuel chain f, grew (eval_flag re_ok re_match o E P c fuel chain f) bad_result.
Proof.
  induction fuel as [|n IH]; intros chain f; cbn [eval_flag]; [intros s a s' Ee; discriminate|].
  destruct (negb (f_on f)).
  { apply grew_then_pair with (bad := bad_detail); [apply grew_off_value; intros [k Hk]; discriminate|].
    intros d [Hb|Hb]; [discriminate|exact Hb]. }
  intros s r s' Ee. unfold bind in Ee at 1.
  set (pm := match f_prereqs f with
             | [] => ret POk
             | ps => prereq_loop o E (eval_flag re_ok re_match o E P c n (chain ++ [f_key f])) f (chain ++ [f_key f]) ps
             end) in *.
  (* the prerequisite phase: logs never shrink, and an abort comes with a line *)
  assert (Hpm : forall s0 out s1, pm s0 = (Done out, s1) -> (nlogs s0 <= nlogs s1)%nat /\ (out = PAbort -> (nlogs s0 < nlogs s1)%nat)).
  { unfold pm. destruct (f_prereqs f) as [|p0 ps0]; [intros s0 out s1 Hr; inversion Hr; subst; split; [lia|discriminate]|].
    generalize (p0 :: ps0). intros ps. induction ps as [|p rest IHp]; cbn [prereq_loop]; intros s0 out s1 Hr.
    - inversion Hr; subst. split; [lia|discriminate].
    - unfold bind at 1 in Hr. unfold emit at 1 in Hr. cbn [fst snd] in Hr.
      set (sa := mkst (s_cache s0) (s_status s0) (OGetFlag (pq_key p) :: s_trace s0)) in *.
      assert (Hsa : nlogs sa = nlogs s0) by reflexivity.
      destruct (assoc (pq_key p) (e_flags E)) as [pf|]; [|inversion Hr; subst; split; [lia|discriminate]].
      destruct (mem_str (f_key pf) (chain ++ [f_key f])).
      + destruct (grew_log_then (f_key f) (ECircPrereq (f_key pf)) PAbort (fun _ => True) _ _ _ Hr) as [G1 G2].
        split; [lia|intros _; specialize (G2 I); lia].
      + unfold bind at 1 in Hr.
        destruct (eval_flag re_ok re_match o E P c n (chain ++ [f_key f]) pf sa) as [[[d ok]| |] sb] eqn:Hev; try discriminate.
        destruct (IH _ _ _ _ _ Hev) as [G1 G2].
        destruct ok; cbn [negb] in Hr.
        * unfold bind at 1 in Hr.
          set (em := if o_recorder o then emit (OEvent (mkevent (f_key f) pf d (is_experiment pf (d_reason d)) (f_exclude pf))) else ret tt) in *.
          assert (Hem : fst (em sb) = Done tt /\ nlogs (snd (em sb)) = nlogs sb).
          { unfold em. destruct (o_recorder o); split; reflexivity. }
          destruct (em sb) as [r3 sc]. destruct Hem as [E1 E2]. simpl in E1, E2. subst r3.
          destruct (_ || _).
          -- inversion Hr; subst. split; [lia|discriminate].
          -- destruct (IHp _ _ _ Hr) as [G3 G4]. split; [lia|intros Ho; specialize (G4 Ho); lia].
        * inversion Hr; subst. split; [lia|]. intros _. assert ((nlogs sa < nlogs s1)%nat) by (apply G2; left; reflexivity). lia. }
  destruct (pm s) as [[out| |] s1] eqn:Hp; try discriminate.
  destruct (Hpm _ _ _ Hp) as [P1 P2].
  destruct out as [|k|].
  - destruct (any_target_match c f).
    + destruct (grew_then_pair (get_variation o f z (plain_reason RTarget)) bad_detail (fun d => (d, true))
                  (grew_get_variation f z (plain_reason RTarget) ltac:(intros [k Hk]; simpl in Hk; discriminate))
                  ltac:(intros d [Hb|Hb]; [discriminate|exact Hb]) _ _ _ Ee) as [G1 G2].
      split; [lia|intros Hb; specialize (G2 Hb); lia].
    + (* rules *)
      assert (Hrl : forall rs i s0 r0 s2,
                 rules_loop re_ok re_match o E c (seg_contains re_ok re_match o E P c (seg_fuel E) []) f rs i s0 = (Done r0, s2) ->
                 (nlogs s0 <= nlogs s2)%nat /\ (bad_result r0 -> (nlogs s0 < nlogs s2)%nat)).
      { induction rs as [|ru rest IHr]; intros i s0 r0 s2 Hr; cbn [rules_loop] in Hr.
        - eapply (grew_then_pair (vr_detail o c f (f_fallthrough f) (plain_reason RFallthrough)) bad_detail (fun d => (d, true))); eauto.
          + apply grew_vr_detail; intros [k Hk]; simpl in Hk; discriminate.
          + intros d [Hb|Hb]; [discriminate|exact Hb].
        - unfold bind at 1 in Hr.
          set (fc := first_clause (clause_match re_ok re_match E c (seg_contains re_ok re_match o E P c (seg_fuel E) [])) (ru_clauses ru)) in *.
          assert (Hfc : (nlogs s0 <= nlogs (snd (fc s0)))%nat) by apply logs_mono_clauses.
          destruct (fc s0) as [[m| |] sb]; try discriminate. simpl in Hfc.
          destruct m as [[|]|e].
          + destruct (grew_then_pair (vr_detail o c f (ru_vr ru) (plain_reason (RRule i (ru_id ru)))) bad_detail (fun d => (d, true))
                        (grew_vr_detail f (ru_vr ru) (plain_reason (RRule i (ru_id ru))) ltac:(intros [k Hk]; simpl in Hk; discriminate) ltac:(intros [k Hk]; simpl in Hk; discriminate))
                        ltac:(intros d [Hb|Hb]; [discriminate|exact Hb]) _ _ _ Hr) as [G1 G2].
            split; [lia|intros Hb; specialize (G2 Hb); lia].
          + destruct (IHr _ _ _ _ Hr) as [G1 G2]. split; [lia|intros Hb; specialize (G2 Hb); lia].
          + destruct (grew_log_then (f_key f) e (err_detail (err_kind e), false) (fun _ => True) _ _ _ Hr) as [G1 G2].
            split; [lia|intros _; specialize (G2 I); lia]. }
      destruct (Hrl _ _ _ _ _ Ee) as [G1 G2]. split; [lia|intros Hb; specialize (G2 Hb); lia].
  - destruct (grew_then_pair (off_value o f (plain_reason (RPrereqFailed k))) bad_detail (fun d => (d, true))
                (grew_off_value f (plain_reason (RPrereqFailed k)) ltac:(intros [k' Hk]; simpl in Hk; discriminate))
                ltac:(intros d [Hb|Hb]; [discriminate|exact Hb]) _ _ _ Ee) as [G1 G2].
    split; [lia|intros Hb; specialize (G2 Hb); lia].
  - inversion Ee; subst. split; [lia|]. intros _. apply P2. reflexivity.
Qed.

End Logs.

Lemma nlogs_in s : (0 < nlogs s)%nat -> exists k e, In (OLog k e) (s_trace s).
Proof.
  unfold nlogs. induction (s_trace s) as [|x tr IH]; simpl; [lia|].
  destruct x as [k0|k0|k0|k0 r0|fk e0|ev|k0 b1 b2]; simpl;
    try (intros H; destruct (IH H) as [k [e Hin]]; exists k, e; right; exact Hin).
  intros _. exists fk, e0. left. reflexivity.
Qed.

(* C19: with a logger configured, a MALFORMED_FLAG result means that an error line was written during the call *)
Theorem malformed_is_logged re_ok re_match o E P c f out :
  o_logger o = true -> run re_ok re_match o E P c f = Done out ->
  rs_kind (d_reason (out_detail out)) = RError KMalformed ->
  exists k e, In (OLog k e) (out_trace out).
Proof.
  intros Hl Hr Hk.
  destruct (match c with CInvalid => true | _ => false end) eqn:Hc.
  { destruct c; try discriminate. inversion Hr; subst. simpl in Hk. discriminate. }
  assert (Hn : c <> CInvalid) by (intros Hx; rewrite Hx in Hc; discriminate).
  rewrite (run_valid _ _ _ _ _ _ _ Hn) in Hr. unfold finish in Hr.
  destruct (eval_flag re_ok re_match o E P c (flag_fuel E) [] f st0) as [[[d b]| |] s1] eqn:Ee; try discriminate.
  destruct (grew_eval_flag re_ok re_match o E P c Hl _ _ _ _ _ _ Ee) as [_ G].
  inversion Hr; subst. simpl in *.
  assert (Hbad : bad_result (d, b)).
  { right. unfold bad_detail. simpl. destruct (s_status s1); simpl in Hk; exact Hk. }
  specialize (G Hbad). assert (Hpos : (0 < nlogs s1)%nat) by (unfold nlogs in *; simpl in *; lia).
  destruct (nlogs_in _ Hpos) as [k [e Hin]]. exists k, e. apply in_rev in Hin. exact Hin.
Qed.

(* without a logger nothing is ever logged *)
Theorem no_logger_no_lines re_ok re_match o E P c f out :
  o_logger o = false -> run re_ok re_match o E P c f = Done out -> forall k e, ~ In (OLog k e) (out_trace out).
Proof.
  intros Hl Hr k e Hin.
  destruct (match c with CInvalid => true | _ => false end) eqn:Hc.
  { destruct c; try discriminate. inversion Hr; subst. simpl in Hin. exact Hin. }
  assert (Hn : c <> CInvalid) by (intros Hx; rewrite Hx in Hc; discriminate).
  rewrite (run_valid _ _ _ _ _ _ _ Hn) in Hr. unfold finish in Hr.
  pose proof (keeps_eval_flag_prims re_ok re_match o E P c (fun s => nlogs s = O)) as K.
  assert (Hz : nlogs (snd (eval_flag re_ok re_match o E P c (flag_fuel E) [] f st0)) = O).
  { apply K; try reflexivity.
    - intros x s Hx H. unfold nlogs in *. simpl. unfold plain_obs in Hx. apply andb_true_iff in Hx as [_ Hx].
      apply negb_true_iff in Hx. rewrite Hx. exact H.
    - intros k' e' s H. unfold log. rewrite Hl. exact H.
    - intros b s H. exact H.
    - intros k' s H. unfold membership_for. destruct (assoc k' (s_cache s)); [exact H|]. destruct P; simpl; exact H. }
  destruct (eval_flag re_ok re_match o E P c (flag_fuel E) [] f st0) as [[[d b]| |] s1]; try discriminate.
  inversion Hr; subst. simpl in *. apply in_rev in Hin.
  unfold nlogs in Hz. apply length_zero_iff_nil in Hz.
  assert (Hf : In (OLog k e) (filter is_log (s_trace s1))) by (apply filter_In; split; [exact Hin|reflexivity]).
  rewrite Hz in Hf. exact Hf.
Qed.

(* every log site passes the key of the flag in whose scope the problem was found; the bad-variation site: *)
Lemma bad_variation_names_the_flag o f i r st :
  o_logger o = true -> znth_opt (f_vars f) i = None ->
  get_variation o f i r st =
  (Done (err_detail KMalformed), mkst (s_cache st) (s_status st) (OLog (f_key f) (EBadVariation i) :: s_trace st)).
Proof. intros Hl Hv. unfold get_variation. rewrite Hv. unfold bind, log. rewrite Hl. reflexivity. Qed.

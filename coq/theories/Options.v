(* evaluator_options.go and NewEvaluatorWithOptions: the option list is applied front to back to a zero configuration,
   a nil entry is skipped, each option overwrites one field. *)
From LD Require Import Base.

Inductive eopt :=
| OSecondary (enable : bool)          (* EvaluatorOptionEnableSecondaryKey(enable) *)
| OLogger (nonnil : bool)             (* EvaluatorOptionErrorLogger(l): l nil or not *)
| OProvider (nonnil : bool).          (* EvaluatorOptionBigSegmentProvider(p): p nil or not *)

Record ecfg := mkecfg { ec_secondary : bool; ec_logger : bool; ec_provider : bool }.
Definition ecfg0 : ecfg := mkecfg false false false.

Definition apply_eopt (c : ecfg) (o : option eopt) : ecfg :=
  match o with
  | None => c                                                    (* if o != nil { o.apply(e) } *)
  | Some (OSecondary b) => mkecfg b (ec_logger c) (ec_provider c)
  | Some (OLogger b) => mkecfg (ec_secondary c) b (ec_provider c)
  | Some (OProvider b) => mkecfg (ec_secondary c) (ec_logger c) b
  end.

Definition build_ecfg (l : list (option eopt)) : ecfg := fold_left apply_eopt l ecfg0.

(* The RFC 3339 scanner tables lifted from ldmodel/parse_time.go (gen/Tables.v, regenerated on every run). In a file of
   its own so that a change of these tables breaks the proofs of C18 only. *)
From LD Require Import Base F32 Data Model Scan Time.
From LDGen Require Import Tables.
From Coq Require Import String List ZArith Bool.
Import ListNotations.
(* ---- the RFC 3339 scanner: the model's scanner is the generic scanner instantiated with the field table, the
   terminator sets and the fraction limit that the translator reads from ldmodel/parse_time.go ---- *)
Open Scope Z_scope.
Definition trow := (string * bool * Z * Z * Z * Z)%type.
Definition term_of (name : string) : N -> bool :=
  if String.eqb name "hyphenTerminator" then hyphen_t
  else if String.eqb name "tTerminator" then t_t
  else if String.eqb name "colonTerminator" then colon_t
  else if String.eqb name "endOfSecondsTerminator" then end_sec_t
  else if String.eqb name "endOfFractionalSecondsTerminator" then end_frac_t
  else none_t.
Definition nf (row : trow) (x : str) : option (Z * term * str) :=
  let '(name, eof, a, b, c, d) := row in num_field (term_of name) eof a b c d x.

Definition parse_frac_tab (fmax : Z) (term0 : term) (r6 : str) : option (Z * term * str) :=
  if term_is term0 46%N then
    let '(fs, t2, r7) := read_until end_frac_t r6 in
    if term_neg t2 || (fmax <? zlen fs) then None
    else match parse_num fs with
         | None => None
         | Some n => Some (n * pow10 (fmax - zlen fs), t2, r7)
         end
  else Some (0, term0, r6).
Definition parse_zone_tab (f7 f8 : trow) (term1 : term) (r8 : str) : option Z :=
  if term_is term1 43%N || term_is term1 45%N then
    match nf f7 r8 with None => None | Some (oh, _, r9) =>
    match nf f8 r9 with None => None | Some (om, tm, _) =>
      match tm with
      | TEof => let secs := (om + oh * 60) * 60 in Some (if term_is term1 43%N then - secs else secs)
      | _ => None
      end
    end end
  else match r8 with [] => Some 0 | _ => None end.
Definition parse_rfc3339_tab (tab : list trow) (fmax : Z) (x : str) : option Z :=
  match tab with
  | [f1; f2; f3; f4; f5; f6; f7; f8] =>
    match nf f1 x with None => None | Some (year, _, r1) =>
    match nf f2 r1 with None => None | Some (month, _, r2) =>
    match nf f3 r2 with None => None | Some (day, _, r3) =>
    match nf f4 r3 with None => None | Some (hour, _, r4) =>
    match nf f5 r4 with None => None | Some (minute, _, r5) =>
    match nf f6 r5 with None => None | Some (second, term0, r6) =>
    match parse_frac_tab fmax term0 r6 with None => None | Some (nanos, term1, r8) =>
    match parse_zone_tab f7 f8 term1 r8 with None => None | Some tz =>
      if days_in_month year month <? day then None else
      Some ((days_from_civil year month day * 86400 + hour * 3600 + minute * 60 + second + tz) * 1000000000 + nanos)
    end end end end end end end end
  | _ => None
  end.

Theorem scanner_uses_the_source_table : forall x,
  parse_rfc3339 x = parse_rfc3339_tab time_fields_src time_fraction_max_src x.
Proof. intros x. reflexivity. Qed.

(* the terminator predicates are the character sets of the source *)
Definition in_set (c : N) (cs : list Z) : bool := existsb (fun z => N.eqb c (Z.to_N z)) cs.
Theorem terminators_match_source : forall name cs c,
  In (name, cs) time_terminators_src -> term_of name c = in_set c cs.
Proof.
  intros name cs c H. simpl in H.
  repeat (destruct H as [H|H]; [inversion H; subst; clear H;
    cbv [term_of String.eqb Ascii.eqb Bool.eqb in_set existsb Z.to_N hyphen_t t_t colon_t end_sec_t end_frac_t none_t];
    repeat match goal with |- context [N.eqb c ?k] => destruct (N.eqb c k) end; reflexivity|]).
  destruct H.
Qed.
Theorem time_tables_match_source :
  List.length time_fields_src = 8%nat /\ List.length time_terminators_src = 6%nat /\ time_fraction_max_src = 9.
Proof. vm_compute. auto. Qed.

(* C06: the hash input is the canonical byte string; LocalBuffer refines plain concatenation; failure cases *)
From LD Require Import Base F32 Data Sha1 Model Ops Bucket Buffer.
Open Scope Z_scope.

(* the canonical LaunchDarkly hash input *)
Definition canonical_input (seed : option Z) (key salt v : str) (secondary : option str) : str :=
  (match seed with Some sd => dec sd | None => key ++ [dot] ++ salt end) ++ [dot] ++ v ++
  (match secondary with Some x => dot :: x | None => [] end).

(* which secondary key takes part: only with the option on, outside experiments, when the context has one *)
Definition effective_secondary (enable : bool) (is_exp : bool) (i : single) : option str :=
  if enable && negb is_exp then c_secondary i else None.

(* which attribute is hashed: the key, unless a non-experiment rollout names a bucket-by attribute *)
Definition effective_ref (is_exp : bool) (attr : ref) : ref :=
  if is_exp || negb (ref_defined attr) then new_literal_ref (s "key") else attr.

Lemma sec_part enable is_exp i :
  (if enable && negb is_exp then match c_secondary i with Some x => dot :: x | None => [] end else []) =
  match effective_secondary enable is_exp i with Some x => dot :: x | None => [] end.
Proof. unfold effective_secondary. destruct (enable && negb is_exp); reflexivity. Qed.

Theorem bucket_of_string enable x is_exp seed kind key attr salt i v :
  (is_exp || negb (ref_defined attr) || negb (ref_has_err attr)) = true ->
  ctx_by_kind x kind = Some i -> get_value_for_ref i (effective_ref is_exp attr) = JStr v ->
  compute_bucket enable x is_exp seed kind key attr salt =
  Ok (hash_to_bucket (canonical_input seed key salt v (effective_secondary enable is_exp i)), BNone).
Proof.
  intros Hok Hk Hv. unfold compute_bucket, effective_ref in *.
  destruct (is_exp || negb (ref_defined attr)) eqn:H1.
  - rewrite Hk, Hv, sec_part. unfold canonical_input. rewrite <- !app_assoc. reflexivity.
  - simpl in Hok. apply negb_true_iff in Hok. rewrite Hok, Hk, Hv, sec_part.
    unfold canonical_input. rewrite <- !app_assoc. reflexivity.
Qed.

Theorem bucket_of_integer enable x is_exp seed kind key attr salt i d :
  (is_exp || negb (ref_defined attr) || negb (ref_has_err attr)) = true ->
  ctx_by_kind x kind = Some i -> get_value_for_ref i (effective_ref is_exp attr) = JNum d -> dy_is_int d = true ->
  compute_bucket enable x is_exp seed kind key attr salt =
  Ok (hash_to_bucket (canonical_input seed key salt (dec (dy_to_int d)) (effective_secondary enable is_exp i)), BNone).
Proof.
  intros Hok Hk Hv Hi. unfold compute_bucket, effective_ref in *.
  destruct (is_exp || negb (ref_defined attr)) eqn:H1.
  - rewrite Hk, Hv, Hi, sec_part. unfold canonical_input. rewrite <- !app_assoc. reflexivity.
  - simpl in Hok. apply negb_true_iff in Hok. rewrite Hok, Hk, Hv, Hi, sec_part.
    unfold canonical_input. rewrite <- !app_assoc. reflexivity.
Qed.

(* failures: bucket 0 with the failure tag; an invalid bucket-by reference on a non-experiment is an error, and it
   is checked before the context kind *)
Theorem bucket_bad_ref enable x seed kind key attr salt :
  ref_defined attr = true -> ref_has_err attr = true ->
  compute_bucket enable x false seed kind key attr salt = Err (EBadAttr (ref_string attr)).
Proof. intros H1 H2. unfold compute_bucket. rewrite H1, H2. reflexivity. Qed.

Theorem bucket_missing_kind enable x is_exp seed kind key attr salt :
  (is_exp || negb (ref_defined attr) || negb (ref_has_err attr)) = true -> ctx_by_kind x kind = None ->
  compute_bucket enable x is_exp seed kind key attr salt = Ok (f32_zero, BLacksKind).
Proof.
  intros Hok Hk. unfold compute_bucket. destruct (is_exp || negb (ref_defined attr)) eqn:H1.
  - rewrite Hk. reflexivity.
  - simpl in Hok. apply negb_true_iff in Hok. rewrite Hok, Hk. reflexivity.
Qed.

Theorem bucket_missing_attribute enable x is_exp seed kind key attr salt i :
  (is_exp || negb (ref_defined attr) || negb (ref_has_err attr)) = true -> ctx_by_kind x kind = Some i ->
  get_value_for_ref i (effective_ref is_exp attr) = JNull ->
  compute_bucket enable x is_exp seed kind key attr salt = Ok (f32_zero, BNotFound).
Proof.
  intros Hok Hk Hv. unfold compute_bucket, effective_ref in *. destruct (is_exp || negb (ref_defined attr)) eqn:H1.
  - rewrite Hk, Hv. reflexivity.
  - simpl in Hok. apply negb_true_iff in Hok. rewrite Hok, Hk, Hv. reflexivity.
Qed.

Theorem bucket_wrong_type enable x is_exp seed kind key attr salt i v :
  (is_exp || negb (ref_defined attr) || negb (ref_has_err attr)) = true -> ctx_by_kind x kind = Some i ->
  get_value_for_ref i (effective_ref is_exp attr) = v ->
  match v with JBool _ | JArr _ | JObj _ => True | JNum d => dy_is_int d = false | _ => False end ->
  compute_bucket enable x is_exp seed kind key attr salt = Ok (f32_zero, BWrongType).
Proof.
  intros Hok Hk Hv Ht. unfold compute_bucket, effective_ref in *. destruct (is_exp || negb (ref_defined attr)) eqn:H1.
  - rewrite Hk, Hv. destruct v; try contradiction; try reflexivity. rewrite Ht. reflexivity.
  - simpl in Hok. apply negb_true_iff in Hok. rewrite Hok, Hk, Hv. destruct v; try contradiction; try reflexivity. rewrite Ht. reflexivity.
Qed.

(* ---- LocalBuffer: for every initial capacity and every sequence of appends the contents are the plain
   concatenation of what was appended (input length never matters) ---- *)
Definition op_bytes (o : bufop) : str := match o with BAppend x => x | BAppendInt z => dec z end.

Lemma buf_step_data b o : buf_data (buf_step b o) = buf_data b ++ op_bytes o.
Proof.
  destruct o; simpl; unfold buf_append, grow; simpl;
    match goal with |- context [if ?c then _ else _] => destruct c end; reflexivity.
Qed.

Theorem buffer_refines_concat cap ops :
  buf_data (fold_left buf_step ops (buf_new cap)) = concat (map op_bytes ops).
Proof.
  assert (H : forall b, buf_data (fold_left buf_step ops b) = buf_data b ++ concat (map op_bytes ops)).
  { induction ops as [|o r IH]; intros b; simpl; [rewrite app_nil_r; reflexivity|].
    rewrite IH, buf_step_data, <- app_assoc. reflexivity. }
  rewrite H. reflexivity.
Qed.

(* capacity is never below the length (the explicit model of grow) *)
Lemma grow_cap b add : 0 <= add -> zlen (buf_data b) <= buf_cap b -> zlen (buf_data b) + add <= buf_cap (grow b add).
Proof.
  intros Ha Hc. unfold grow. destruct (zlen (buf_data b) + add <=? buf_cap b) eqn:H1.
  - apply Z.leb_le in H1. exact H1.
  - simpl. destruct (buf_cap b * 2 <? zlen (buf_data b) + add) eqn:H2.
    + apply Z.ltb_lt in H2. unfold zlen in *. lia.
    + apply Z.ltb_ge in H2. exact H2.
Qed.

(* ---- hex parser on digit strings: no wrap below 16 digits ---- *)
Definition nibble_char (d : Z) : N := if d <? 10 then Z.to_N (48 + d) else Z.to_N (87 + d).

Fixpoint nib_val (acc : Z) (ns : list Z) : Z :=
  match ns with [] => acc | d :: r => nib_val (acc * 16 + d) r end.

Lemma parse_hex_aux_nibbles ns : forall acc,
  Forall (fun d => 0 <= d < 16) ns -> 0 <= acc -> nib_val acc ns < two64 ->
  parse_hex_aux acc (map nibble_char ns) = Some (nib_val acc ns).
Proof.
  induction ns as [|d r IH]; intros acc Hf Ha Hb; simpl; [reflexivity|].
  inversion Hf as [|? ? Hd Hr]; subst.
  assert (Hmono : forall l a, Forall (fun d => 0 <= d < 16) l -> 0 <= a -> a <= nib_val a l).
  { induction l as [|x l IHl]; intros a Hl H0; simpl; [lia|]. inversion Hl; subst.
    specialize (IHl (a * 16 + x) H3 ltac:(lia)). lia. }
  assert (Hacc : acc * 16 + d < two64).
  { pose proof (Hmono r (acc * 16 + d) Hr ltac:(lia)). simpl in Hb. lia. }
  assert (H16 : (acc * 16) mod two64 = acc * 16) by (apply Z.mod_small; unfold two64 in *; lia).
  assert (Hsum : (acc * 16 + d) mod two64 = acc * 16 + d) by (apply Z.mod_small; unfold two64 in *; lia).
  unfold nibble_char. destruct (d <? 10) eqn:Hlt.
  - apply Z.ltb_lt in Hlt.
    assert (E1 : N.leb 48 (Z.to_N (48 + d)) && N.leb (Z.to_N (48 + d)) 57 = true).
    { apply andb_true_iff; split; apply N.leb_le; lia. }
    rewrite E1. rewrite H16. replace (Z.of_N (Z.to_N (48 + d)) - 48) with d by lia. rewrite Hsum.
    apply IH; auto; lia.
  - apply Z.ltb_ge in Hlt.
    assert (E1 : N.leb 48 (Z.to_N (87 + d)) && N.leb (Z.to_N (87 + d)) 57 = false).
    { apply andb_false_iff; right. apply N.leb_gt. lia. }
    assert (E2 : N.leb 97 (Z.to_N (87 + d)) && N.leb (Z.to_N (87 + d)) 102 = true).
    { apply andb_true_iff; split; apply N.leb_le; lia. }
    rewrite E1, E2. rewrite H16. replace (Z.of_N (Z.to_N (87 + d)) - 87) with d by lia. rewrite Hsum.
    apply IH; auto; lia.
Qed.

(* the FIPS vector also fixes the 15-digit prefix value *)
Example prefix15_abc :
  parse_hex (firstn hash_prefix_len (hex_encode (sha1 (s "abc")))) = Some 763804216667957270.
Proof. vm_compute. reflexivity. Qed.

(* ---- LocalBuffer never asks `make` for a slice longer than its capacity: whenever grow allocates, the capacity it
   chooses is at least the length it needs, so the buffer's length never exceeds its capacity -- for every initial
   capacity and every sequence of appends (the `makeslice: cap out of range` panic cannot happen) ---- *)
Definition buf_ok (b : buf) : Prop := 0 <= buf_cap b /\ zlen (buf_data b) <= buf_cap b.

Lemma zlen_app_ {A} (a b : list A) : zlen (a ++ b) = zlen a + zlen b.
Proof. unfold zlen. rewrite app_length. lia. Qed.
Lemma zlen_nonneg_ {A} (a : list A) : 0 <= zlen a.
Proof. unfold zlen. lia. Qed.

(* the allocation inside grow: make([]byte, newLen, newCap) is asked for newLen <= newCap *)
Lemma grow_allocation_is_legal b add : buf_ok b -> 0 <= add ->
  zlen (buf_data b) + add <= buf_cap (grow b add) /\ 0 <= buf_cap (grow b add).
Proof.
  intros [Hc Hl] Ha. unfold grow. cbn zeta.
  destruct (Z.leb_spec (zlen (buf_data b) + add) (buf_cap b)) as [L|L]; [lia|].
  cbn [buf_cap]. destruct (Z.ltb_spec (buf_cap b * 2) (zlen (buf_data b) + add)) as [L2|L2]; lia.
Qed.

Lemma buf_step_ok b o : buf_ok b -> buf_ok (buf_step b o).
Proof.
  intros H. assert (Hx : forall x, buf_ok (buf_append b x)).
  { intro x. destruct (grow_allocation_is_legal b (zlen x) H (zlen_nonneg_ x)) as [A B].
    unfold buf_ok, buf_append. cbn [buf_data buf_cap]. rewrite zlen_app_.
    assert (Hd : buf_data (grow b (zlen x)) = buf_data b).
    { unfold grow. cbn zeta. destruct (_ <=? _); reflexivity. }
    rewrite Hd. lia. }
  destruct o; cbn [buf_step]; apply Hx.
Qed.

Theorem buffer_length_within_capacity cap ops : 0 <= cap ->
  buf_ok (fold_left buf_step ops (buf_new cap)).
Proof.
  intro Hc. assert (H : forall b, buf_ok b -> buf_ok (fold_left buf_step ops b)).
  { induction ops as [|o r IH]; intros b Hb; cbn [fold_left]; [exact Hb|]. apply IH. apply buf_step_ok. exact Hb. }
  apply H. unfold buf_ok, buf_new. cbn. lia.
Qed.

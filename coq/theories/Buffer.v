(* internal/local_buffer.go: explicit length/capacity model of LocalBuffer.grow. *)
From LD Require Import Base.
Open Scope Z_scope.

(* the backing array is modelled by its capacity only; contents beyond len are irrelevant to Data *)
Record buf := mkbuf { buf_data : str; buf_cap : Z }.
Definition buf_new (cap : Z) : buf := mkbuf [] cap.

Definition grow (b : buf) (add : Z) : buf :=
  let old := zlen (buf_data b) in
  let newlen := old + add in
  if newlen <=? buf_cap b then b
  else let c2 := buf_cap b * 2 in
       mkbuf (buf_data b) (if c2 <? newlen then newlen * 2 else c2).

Definition buf_append (b : buf) (x : str) : buf :=
  let g := grow b (zlen x) in mkbuf (buf_data g ++ x) (buf_cap g).

Inductive bufop := BAppend (x : str) | BAppendInt (z : Z).
Definition buf_step (b : buf) (o : bufop) : buf :=
  match o with BAppend x => buf_append b x | BAppendInt z => buf_append b (dec z) end.

(* C07: rollout selection is a stable, monotone partition *)
From LD Require Import Base F32 Data Model Ops Bucket Eval EvalFacts F32Facts.
From Flocq Require Import Core BinarySingleNaN.
From Coq Require Import Reals Lra Lia.
Open Scope Z_scope.

(* cumulative single-precision thresholds S_1, S_2, ... of a weight list *)
Fixpoint thresholds (sum : f32) (wvs : list wvar) : list f32 :=
  match wvs with
  | [] => []
  | wv :: r => let sum' := f32_add sum (weight_frac (wv_weight wv)) in sum' :: thresholds sum' r
  end.

(* position of the bucket chosen by the scan *)
Fixpoint scan_idx (b : f32) (sum : f32) (wvs : list wvar) : option nat :=
  match wvs with
  | [] => None
  | wv :: r => let sum' := f32_add sum (weight_frac (wv_weight wv)) in
               if f32_ltb b sum' then Some O else option_map S (scan_idx b sum' r)
  end.

Fixpoint find_index {A} (p : A -> bool) (l : list A) : option nat :=
  match l with [] => None | x :: r => if p x then Some O else option_map S (find_index p r) end.

Lemma scan_is_nth b sum wvs :
  scan b sum wvs = match scan_idx b sum wvs with Some i => nth_error wvs i | None => None end.
Proof.
  revert sum. induction wvs as [|wv r IH]; intros sum; simpl; [reflexivity|].
  destruct (f32_ltb b _); [reflexivity|]. rewrite IH. destruct (scan_idx b _ r); reflexivity.
Qed.

(* the served bucket is the FIRST one whose cumulative threshold exceeds b *)
Theorem scan_first_below b sum wvs :
  scan_idx b sum wvs = find_index (fun t => f32_ltb b t) (thresholds sum wvs).
Proof.
  revert sum. induction wvs as [|wv r IH]; intros sum; simpl; [reflexivity|].
  destruct (f32_ltb b _); [reflexivity|]. rewrite IH. reflexivity.
Qed.

(* a zero-weight bucket repeats the previous threshold, so the scan can never choose it: it can only be served as
   the final fallback *)
Theorem zero_weight_not_scanned b sum wvs wv :
  f32_ltb b sum = false -> scan b sum wvs = Some wv -> wv_weight wv <> 0.
Proof.
  revert sum. induction wvs as [|w r IH]; intros sum Hb; simpl; [discriminate|].
  destruct (f32_ltb b (f32_add sum (weight_frac (wv_weight w)))) eqn:Hl.
  - intros H; inversion H; subst. intros Hz. rewrite Hz, frac_zero, add_zero_ltb in Hl. congruence.
  - apply IH. exact Hl.
Qed.

(* all weights within the 64-bit range and all partial sums finite *)
Fixpoint sums_finite (sum : f32) (wvs : list wvar) : Prop :=
  match wvs with
  | [] => True
  | wv :: r => small (wv_weight wv) /\ is_finite (f32_add sum (weight_frac (wv_weight wv))) = true /\
               sums_finite (f32_add sum (weight_frac (wv_weight wv))) r
  end.

(* growing one bucket at the expense of later ones never moves a context that was already in it out of it *)
Theorem grow_keeps b sum pre wv post wv' post' :
  is_finite b = true -> is_finite sum = true ->
  sums_finite sum (pre ++ wv :: post) -> sums_finite sum (pre ++ wv' :: post') ->
  wv_weight wv <= wv_weight wv' ->
  scan_idx b sum (pre ++ wv :: post) = Some (List.length pre) ->
  scan_idx b sum (pre ++ wv' :: post') = Some (List.length pre).
Proof.
  intros Fb. revert sum. induction pre as [|x pre IH]; intros sum Fs H1 H2 Hle; simpl in *.
  - destruct H1 as [S1 [F1 _]]. destruct H2 as [S2 [F2 _]].
    destruct (f32_ltb b (f32_add sum (weight_frac (wv_weight wv)))) eqn:Hl.
    + intros _. destruct (frac_correct _ S1) as [_ Ff1]. destruct (frac_correct _ S2) as [_ Ff2].
      rewrite (ltb_mono b _ (f32_add sum (weight_frac (wv_weight wv'))) Fb F1 F2); [reflexivity| |exact Hl].
      apply add_mono; auto. apply frac_mono; auto.
    + destruct (scan_idx b _ post); discriminate.
  - destruct H1 as [Sx [Fx R1]]. destruct H2 as [_ [_ R2]].
    destruct (f32_ltb b (f32_add sum (weight_frac (wv_weight x)))); [discriminate|].
    destruct (scan_idx b (f32_add sum (weight_frac (wv_weight x))) (pre ++ wv :: post)) as [k|] eqn:Hk; simpl; [|discriminate].
    intros H. inversion H; subst k. rewrite (IH _ Fx R1 R2 Hle Hk). reflexivity.
Qed.

(* a weighted segment rule: a context that matched keeps matching as the weight grows *)
Theorem segment_weight_monotone b w w' :
  is_finite b = true -> small w -> small w' -> w <= w' ->
  f32_ltb b (weight_frac w) = true -> f32_ltb b (weight_frac w') = true.
Proof.
  intros Fb S1 S2 Hle. destruct (frac_correct _ S1) as [_ F1]. destruct (frac_correct _ S2) as [_ F2].
  apply ltb_mono; auto. apply frac_mono; auto.
Qed.

(* the bucket value itself is always a finite number *)
Lemma parse_hex_aux_range acc x z : 0 <= acc < two64 -> parse_hex_aux acc x = Some z -> 0 <= z < two64.
Proof.
  revert acc. induction x as [|ch r IH]; intros acc Ha; simpl.
  - intros H; inversion H; subst; exact Ha.
  - assert (Hm : forall v, 0 <= v mod two64 < two64) by (intros v; apply Z.mod_pos_bound; unfold two64; lia).
    destruct (_ && _); [apply IH; apply Hm|]. destruct (_ && _); [apply IH; apply Hm|].
    destruct (_ && _); [apply IH; apply Hm|discriminate].
Qed.

Lemma view_B2R (x : f32) sg m e : f32_view x = FFin sg m e -> B2R x = F2R (Float radix2 (cond_Zopp sg (Zpos m)) e).
Proof. destruct x; simpl; intros H; try discriminate. inversion H; subst. reflexivity. Qed.

Lemma long_scale_value : B2R (f32_of_Z long_scale) = bpow radix2 60.
Proof.
  rewrite (view_B2R _ false 8388608 37) by (vm_compute; reflexivity).
  unfold F2R. simpl. lra.
Qed.

Lemma bucket_finite input : is_finite (hash_to_bucket input) = true.
Proof.
  unfold hash_to_bucket. set (iv := match parse_hex _ with Some z => z | None => 0 end).
  assert (Hiv : small iv).
  { unfold iv, small. destruct (parse_hex _) as [z|] eqn:Hp; [|simpl; lia].
    unfold parse_hex in Hp. destruct (firstn _ _); [discriminate|].
    apply parse_hex_aux_range in Hp; [|unfold two64; lia]. unfold two64 in Hp. rewrite Z.abs_eq by lia. lia. }
  destruct (of_Z_correct iv Hiv) as [Hv Fv].
  unfold f32_div.
  pose proof (Bdiv_correct prec emax Hprec Hmax mode_NE (f32_of_Z iv) (f32_of_Z long_scale)) as H.
  rewrite long_scale_value in H.
  pose proof (bpow_gt_0 radix2 60) as Hp60.
  specialize (H ltac:(lra)).
  rewrite Rlt_bool_true in H.
  - destruct H as [_ [H _]]. rewrite H. exact Fv.
  - eapply Rle_lt_trans; [apply (rnd_abs_le_bpow _ 64); [lia|]|apply bpow_lt; unfold emax; lia].
    rewrite Hv. unfold Rdiv. rewrite Rabs_mult.
    rewrite (Rabs_right (/ bpow radix2 60)) by (apply Rle_ge; left; apply Rinv_0_lt_compat; lra).
    pose proof (rnd_abs_le_bpow (IZR iv) 64 ltac:(lia) (IZR_small iv Hiv)) as Hb.
    assert (1 <= bpow radix2 60)%R by (change 1%R with (bpow radix2 0); apply bpow_le; lia).
    assert (Rabs (rnd (IZR iv)) * / bpow radix2 60 <= Rabs (rnd (IZR iv)))%R.
    { rewrite <- (Rmult_1_r (Rabs (rnd (IZR iv)))) at 2. apply Rmult_le_compat_l; [apply Rabs_pos|].
      rewrite <- Rinv_1. apply Rinv_le_contravar; lra. }
    lra.
Qed.

Lemma rnd_0 : rnd 0 = 0%R.
Proof. unfold rnd. apply round_0. typeclasses eauto. Qed.

Lemma B2R_zero : B2R f32_zero = 0%R.
Proof. reflexivity. Qed.

(* bucket values are never below zero: together with zero_weight_not_scanned, a zero-weight FIRST bucket cannot be
   chosen by the scan either *)
Lemma bucket_nonneg input : f32_ltb (hash_to_bucket input) f32_zero = false.
Proof.
  pose proof (bucket_finite input) as Fb. unfold f32_ltb. rewrite Bltb_correct by (auto; reflexivity).
  apply Rlt_bool_false. rewrite B2R_zero.
  unfold hash_to_bucket in *. set (iv := match parse_hex _ with Some z => z | None => 0 end) in *.
  assert (Hiv0 : 0 <= iv).
  { unfold iv. destruct (parse_hex _) as [z|] eqn:Hp; [|lia].
    unfold parse_hex in Hp. destruct (firstn _ _); [discriminate|].
    apply parse_hex_aux_range in Hp; [lia|unfold two64; lia]. }
  assert (Hiv : small iv).
  { unfold iv, small. destruct (parse_hex _) as [z|] eqn:Hp; [|cbn; lia].
    unfold parse_hex in Hp. destruct (firstn _ _); [discriminate|].
    apply parse_hex_aux_range in Hp; [|unfold two64; lia]. unfold two64 in Hp. rewrite Z.abs_eq by lia. lia. }
  destruct (of_Z_correct iv Hiv) as [Hv Fv].
  unfold f32_div in *.
  pose proof (Bdiv_correct prec emax Hprec Hmax mode_NE (f32_of_Z iv) (f32_of_Z long_scale)) as H.
  rewrite long_scale_value in H. pose proof (bpow_gt_0 radix2 60) as Hp60. specialize (H ltac:(lra)).
  match type of H with (if ?cx then _ else _) => destruct cx eqn:Hc end.
  - destruct H as [H _]. rewrite H. rewrite Hv. fold (rnd (rnd (IZR iv) / bpow radix2 60)).
    rewrite <- rnd_0. apply rnd_le.
    assert (0 <= rnd (IZR iv))%R by (rewrite <- rnd_0; apply rnd_le; apply IZR_le; exact Hiv0).
    unfold Rdiv. apply Rmult_le_pos; [assumption|left; apply Rinv_0_lt_compat; lra].
  - exfalso. clear Hc Hv.
    destruct (Bdiv mode_NE (f32_of_Z iv) (f32_of_Z long_scale)) as [sg|sg| |sg m e He];
      cbn [is_finite] in Fb; try discriminate; unfold binary_overflow, B2SF in H; cbn [overflow_to_inf] in H; discriminate.
Qed.

Example sums_finite_example :
  sums_finite f32_zero [mkwvar 0 60000 false; mkwvar 1 0 false; mkwvar 2 40000 true].
Proof.
  cbn [sums_finite wv_weight].
  repeat match goal with
  | |- _ /\ _ => split
  | |- small _ => unfold small; cbn; lia
  | |- is_finite _ = true => vm_compute; reflexivity
  | |- True => exact I
  end.
Qed.

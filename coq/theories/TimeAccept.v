(* C18, the rejection half: "values that are not timestamps never match".  The set of strings the scanner accepts is
   characterised *declaratively*: a string is accepted with instant t  iff  it is the rendering of a valid civil time
   (4-digit year, 2-digit month, a day that the month has, 'T'/'t', hour of 1 or 2 digits, minute, second 0..60,
   an optional fraction of 1 to 9 digits, 'Z'/'z' or a numeric offset hh:mm) -- with nothing before, between or after --
   and t is the instant that civil time denotes.  The declarative side is written from the property and the documented
   deviations of the library (1-digit hour, offset hours up to 99), not from the scanner; the proof of the "only if"
   direction is what found that the original scanner accepted trailing characters and days a month does not have. *)
From LD Require Import Base F32 Data Scan Semver Time Model Ops TimeSpec TimeFull.
From Coq Require Import ZifyBool.
Open Scope Z_scope.
Ltac Zify.zify_post_hook ::= Z.div_mod_to_equations.

Definition render_hour (short : bool) (h : Z) : str := if short then [digit h] else digits2 h.
Definition render_ts (y mo d : Z) (short : bool) (h mi sec : Z) (tl : N) (fs : list Z) (z : zone) : str :=
  digits4 y ++ 45%N :: digits2 mo ++ 45%N :: digits2 d ++ tl :: render_hour short h ++ 58%N :: digits2 mi ++ 58%N ::
  digits2 sec ++ render_frac fs ++ render_zone z.

Definition valid_ts (y mo d : Z) (short : bool) (h mi sec : Z) (tl : N) (fs : list Z) (z : zone) : Prop :=
  0 <= y <= 9999 /\ 1 <= mo <= 12 /\ 1 <= d <= days_in_month y mo /\ 0 <= h <= 23 /\ (short = true -> h <= 9) /\
  0 <= mi <= 59 /\ 0 <= sec <= 60 /\ (tl = 84%N \/ tl = 116%N) /\
  Forall (fun x => 0 <= x <= 9) fs /\ zlen fs <= 9 /\ zone_ok z.

Definition is_timestamp (s : str) (t : Z) : Prop :=
  exists y mo d short h mi sec tl fs z,
    valid_ts y mo d short h mi sec tl fs z /\ s = render_ts y mo d short h mi sec tl fs z /\ t = instant y mo d h mi sec fs z.

(* ---------- inversion of the scanner primitives ---------- *)
Definition plain (p : N -> bool) (ch : N) : Prop := is_ascii ch = true /\ p ch = false.

Lemma read_until_inv p : forall x sub t rest, read_until p x = (sub, t, rest) ->
  Forall (plain p) sub /\
  match t with
  | TChar c => x = sub ++ c :: rest /\ p c = true /\ is_ascii c = true
  | TEof => x = sub /\ rest = []
  | TNonAscii => x = sub ++ rest
  end.
Proof.
  induction x as [|c r IH]; intros sub t rest H; cbn [read_until] in H.
  - inversion H; subst. split; [constructor|auto].
  - destruct (is_ascii c) eqn:Ha; cbn [negb] in H.
    + destruct (p c) eqn:Hp.
      * inversion H; subst. split; [constructor|]. simpl. auto.
      * destruct (read_until p r) as [[sub' t'] rest'] eqn:Hr. inversion H; subst.
        destruct (IH _ _ _ eq_refl) as [F M]. split; [constructor; [split; assumption|exact F]|].
        destruct t as [c'| |].
        -- destruct M as [M1 [M2 M3]]. subst r. auto.
        -- destruct M as [M1 M2]. subst. auto.
        -- subst r. reflexivity.
    + inversion H; subst. split; [constructor|reflexivity].
Qed.

Definition step10 (a d : Z) : Z := a * 10 + d.
Lemma frac_val_fold fs : frac_val fs = fold_left step10 fs 0.
Proof. reflexivity. Qed.

Lemma is_digit_inv c : is_digit c = true -> 0 <= Z.of_N c - 48 <= 9 /\ c = digit (Z.of_N c - 48).
Proof.
  unfold is_digit, digit. intros H. apply andb_true_iff in H. destruct H as [H1 H2].
  apply N.leb_le in H1. apply N.leb_le in H2. split; [lia|]. lia.
Qed.

Lemma digits_val_inv : forall ds acc v, digits_val acc ds = Some v -> 0 <= acc -> (acc + 1) * 10 ^ zlen ds <= two63 ->
  exists fs, Forall (fun d => 0 <= d <= 9) fs /\ ds = map digit fs /\ v = fold_left step10 fs acc.
Proof.
  induction ds as [|c r IH]; intros acc v H Ha Hb; cbn [digits_val] in H.
  - inversion H; subst. exists []. split; [constructor|split; reflexivity].
  - destruct (is_digit c) eqn:Hd; [|discriminate]. destruct (is_digit_inv c Hd) as [Hr Hc].
    rewrite zlen_cons in Hb. pose proof (zlen_nonneg r) as Hl.
    assert (Hp : 0 < 10 ^ zlen r) by (apply Z.pow_pos_nonneg; lia).
    assert (Hstep : (acc * 10 + (Z.of_N c - 48) + 1) * 10 ^ zlen r <= two63).
    { rewrite Z.pow_add_r in Hb by lia. nia. }
    rewrite wrap64_small in H by (unfold two63 in *; nia).
    destruct (IH _ _ H ltac:(lia) Hstep) as [fs [F [E1 E2]]].
    exists ((Z.of_N c - 48) :: fs). split; [constructor; assumption|]. split; [simpl; rewrite <- Hc, <- E1; reflexivity|exact E2].
Qed.

Lemma parse_num_inv ds v : parse_num ds = Some v -> zlen ds <= 9 ->
  exists fs, fs <> [] /\ Forall (fun d => 0 <= d <= 9) fs /\ ds = map digit fs /\ v = frac_val fs.
Proof.
  intros H Hl. unfold parse_num in H. destruct ds as [|c r] eqn:E; [discriminate|]. rewrite <- E in *.
  assert (Hb : (0 + 1) * 10 ^ zlen ds <= two63).
  { rewrite Z.mul_1_l. apply Z.le_trans with (10 ^ 9); [apply Z.pow_le_mono_r; lia|unfold two63; vm_compute; discriminate]. }
  destruct (digits_val_inv ds 0 v H ltac:(lia) Hb) as [fs [F [E1 E2]]].
  exists fs. split; [intros Hx; subst fs; subst ds; discriminate|]. auto.
Qed.

(* what an accepted numeric field looks like *)
Lemma num_field_inv p eofOK minL maxL lo hi x v t rest :
  num_field p eofOK minL maxL lo hi x = Some (v, t, rest) -> maxL <= 9 ->
  exists fs, fs <> [] /\ Forall (fun d => 0 <= d <= 9) fs /\ minL <= zlen fs <= maxL /\ lo <= v <= hi /\ v = frac_val fs /\
             read_until p x = (map digit fs, t, rest) /\ (eofOK = false -> exists c, t = TChar c).
Proof.
  unfold num_field. intros H Hm. destruct (read_until p x) as [[sub t'] rest'] eqn:Hr.
  destruct sub as [|c0 sub0] eqn:Es; [discriminate|]. rewrite <- Es in *.
  destruct (negb eofOK && term_neg t') eqn:Ht; [discriminate|].
  destruct ((zlen sub <? minL) || (maxL <? zlen sub)) eqn:Hlen; [discriminate|].
  destruct (parse_num sub) as [n|] eqn:Hn; [|discriminate].
  destruct ((n <? lo) || (hi <? n)) eqn:Hrange; [discriminate|]. inversion H; subst n t' rest'.
  destruct (parse_num_inv sub v Hn ltac:(lia)) as [fs [N1 [F [E1 E2]]]].
  exists fs. rewrite E1 in Hlen. rewrite map_length_z in Hlen.
  split; [exact N1|]. split; [exact F|]. split; [lia|]. split; [lia|]. split; [exact E2|]. split; [rewrite <- E1; reflexivity|].
  intros He. subst eofOK. cbn [negb andb] in Ht. destruct t as [c| |]; try discriminate. eauto.
Qed.

(* fixed-width digit strings are the renderings of their value *)
Lemma two_digits fs : Forall (fun d => 0 <= d <= 9) fs -> zlen fs = 2 ->
  map digit fs = digits2 (frac_val fs) /\ 0 <= frac_val fs <= 99.
Proof.
  intros F L. destruct fs as [|a [|b [|c r]]]; unfold zlen in L; simpl in L; try lia.
  inversion F as [|? ? Ha F1]; subst. inversion F1 as [|? ? Hb _]; subst.
  unfold frac_val, digits2. cbn [fold_left map]. replace ((0 * 10 + a) * 10 + b) with (a * 10 + b) by lia.
  replace ((a * 10 + b) / 10) with a by lia. replace ((a * 10 + b) mod 10) with b by lia. split; [reflexivity|lia].
Qed.
Lemma one_digit fs : Forall (fun d => 0 <= d <= 9) fs -> zlen fs = 1 ->
  map digit fs = [digit (frac_val fs)] /\ 0 <= frac_val fs <= 9.
Proof.
  intros F L. destruct fs as [|a [|b r]]; unfold zlen in L; simpl in L; try lia.
  inversion F as [|? ? Ha _]; subst. unfold frac_val. cbn [fold_left map]. replace (0 * 10 + a) with a by lia. split; [reflexivity|lia].
Qed.
Lemma four_digits fs : Forall (fun d => 0 <= d <= 9) fs -> zlen fs = 4 ->
  map digit fs = digits4 (frac_val fs) /\ 0 <= frac_val fs <= 9999.
Proof.
  intros F L. destruct fs as [|a [|b [|c [|e [|g r]]]]]; unfold zlen in L; simpl in L; try lia.
  inversion F as [|? ? Ha F1]; subst. inversion F1 as [|? ? Hb F2]; subst. inversion F2 as [|? ? Hc F3]; subst.
  inversion F3 as [|? ? He _]; subst.
  unfold frac_val, digits4. cbn [fold_left map].
  replace ((((0 * 10 + a) * 10 + b) * 10 + c) * 10 + e) with (a * 1000 + b * 100 + c * 10 + e) by lia.
  set (v := a * 1000 + b * 100 + c * 10 + e).
  replace (v / 1000) with a by (unfold v; lia). replace (v / 100 mod 10) with b by (unfold v; lia).
  replace (v / 10 mod 10) with c by (unfold v; lia). replace (v mod 10) with e by (unfold v; lia).
  split; [reflexivity|unfold v; lia].
Qed.

(* a field that must end with a terminator character *)
Lemma field_inv p minL maxL lo hi x v t rest :
  num_field p false minL maxL lo hi x = Some (v, t, rest) -> maxL <= 9 ->
  exists fs c, Forall (fun d => 0 <= d <= 9) fs /\ minL <= zlen fs <= maxL /\ lo <= v <= hi /\ v = frac_val fs /\
               t = TChar c /\ p c = true /\ x = map digit fs ++ c :: rest.
Proof.
  intros H Hm. destruct (num_field_inv _ _ _ _ _ _ _ _ _ _ H Hm) as [fs [_ [F [L [R [E [Hr Ht]]]]]]].
  destruct (Ht eq_refl) as [c Hc]. subst t. destruct (read_until_inv _ _ _ _ _ Hr) as [_ [X1 [X2 _]]].
  exists fs, c. auto 10.
Qed.

Lemma hyphen_inv c : hyphen_t c = true -> c = 45%N.
Proof. unfold hyphen_t. intros H. apply N.eqb_eq in H. exact H. Qed.
Lemma colon_inv c : colon_t c = true -> c = 58%N.
Proof. unfold colon_t. intros H. apply N.eqb_eq in H. exact H. Qed.
Lemma t_inv c : t_t c = true -> c = 84%N \/ c = 116%N.
Proof. unfold t_t. intros H. apply orb_true_iff in H. destruct H as [H|H]; apply N.eqb_eq in H; auto. Qed.
Lemma end_frac_inv c : end_frac_t c = true -> c = 90%N \/ c = 122%N \/ c = 43%N \/ c = 45%N.
Proof.
  unfold end_frac_t. intros H. repeat (apply orb_true_iff in H; destruct H as [H|H]); apply N.eqb_eq in H; auto.
Qed.
Lemma end_sec_inv c : end_sec_t c = true -> c = 46%N \/ c = 90%N \/ c = 122%N \/ c = 43%N \/ c = 45%N.
Proof.
  unfold end_sec_t. intros H. repeat (apply orb_true_iff in H; destruct H as [H|H]); apply N.eqb_eq in H; auto.
Qed.

(* the zone *)
Lemma parse_zone_inv c r8 tz : parse_zone (TChar c) r8 = Some tz -> (c = 90%N \/ c = 122%N \/ c = 43%N \/ c = 45%N) ->
  exists z, zone_ok z /\ c :: r8 = render_zone z /\ tz = zone_seconds z.
Proof.
  unfold parse_zone. intros H Hc.
  destruct (term_is (TChar c) 43%N || term_is (TChar c) 45%N) eqn:Hs.
  - destruct (num_field colon_t false 2 2 0 99 r8) as [[[oh t1] r9]|] eqn:H1; [|discriminate].
    destruct (num_field none_t true 2 2 0 59 r9) as [[[om tm] r10]|] eqn:H2; [|discriminate].
    destruct tm; try discriminate.
    destruct (field_inv _ _ _ _ _ _ _ _ _ H1 ltac:(lia)) as [f1 [c1 [F1 [L1 [R1 [E1 [_ [P1 X1]]]]]]]].
    apply colon_inv in P1. subst c1. destruct (two_digits f1 F1 ltac:(lia)) as [D1 _]. rewrite <- E1 in D1.
    destruct (num_field_inv _ _ _ _ _ _ _ _ _ _ H2 ltac:(lia)) as [f2 [_ [F2 [L2 [R2 [E2 [Hr2 _]]]]]]].
    destruct (read_until_inv _ _ _ _ _ Hr2) as [_ [X2 _]]. destruct (two_digits f2 F2 ltac:(lia)) as [D2 _]. rewrite <- E2 in D2.
    cbn [term_is] in Hs, H.
    assert (Hpm : c = 43%N \/ c = 45%N).
    { apply orb_true_iff in Hs. destruct Hs as [Hs|Hs]; apply N.eqb_eq in Hs; auto. }
    destruct Hpm as [Hpm|Hpm]; subst c.
    + exists (ZOff false oh om). cbn [zone_ok render_zone zone_seconds]. split; [lia|]. split; [rewrite X1, X2, D1, D2; reflexivity|].
      cbn [N.eqb Pos.eqb] in H. inversion H. reflexivity.
    + exists (ZOff true oh om). cbn [zone_ok render_zone zone_seconds]. split; [lia|]. split; [rewrite X1, X2, D1, D2; reflexivity|].
      cbn [N.eqb Pos.eqb] in H. inversion H. reflexivity.
  - destruct r8; [|discriminate]. inversion H; subst tz. cbn [term_is] in Hs. apply orb_false_iff in Hs. destruct Hs as [S1 S2].
    apply N.eqb_neq in S1. apply N.eqb_neq in S2.
    destruct Hc as [Hc|[Hc|[Hc|Hc]]]; subst c; try congruence.
    + exists (ZU 90%N). simpl. auto.
    + exists (ZU 122%N). simpl. auto.
Qed.

(* the fraction *)
Lemma parse_frac_inv c r6 nanos t1 r8 : parse_frac (TChar c) r6 = Some (nanos, t1, r8) ->
  (c = 46%N \/ c = 90%N \/ c = 122%N \/ c = 43%N \/ c = 45%N) ->
  exists fs c1, Forall (fun d => 0 <= d <= 9) fs /\ zlen fs <= 9 /\ nanos = frac_nanos fs /\ t1 = TChar c1 /\
                (c1 = 90%N \/ c1 = 122%N \/ c1 = 43%N \/ c1 = 45%N) /\
                c :: r6 = render_frac fs ++ c1 :: r8.
Proof.
  unfold parse_frac. intros H Hc. cbn [term_is] in H. destruct (46 =? c)%N eqn:Hdot.
  - apply N.eqb_eq in Hdot. subst c.
    destruct (read_until end_frac_t r6) as [[ds t2] r7] eqn:Hr.
    destruct (term_neg t2 || (9 <? zlen ds)) eqn:Hg; [discriminate|]. apply orb_false_iff in Hg. destruct Hg as [G1 G2].
    destruct (parse_num ds) as [n|] eqn:Hn; [|discriminate]. inversion H; subst nanos t1 r8.
    destruct t2 as [c2| |]; try discriminate.
    destruct (read_until_inv _ _ _ _ _ Hr) as [_ [X1 [X2 _]]]. apply end_frac_inv in X2.
    destruct (parse_num_inv ds n Hn ltac:(lia)) as [fs [N1 [F [E1 E2]]]].
    exists fs, c2. rewrite E1 in G2. rewrite map_length_z in G2.
    split; [exact F|]. split; [lia|]. split; [unfold frac_nanos, pow10; rewrite E1, map_length_z, E2; reflexivity|].
    split; [reflexivity|]. split; [exact X2|]. destruct fs as [|f0 fs']; [congruence|]. cbn [render_frac]. rewrite X1, E1. reflexivity.
  - inversion H; subst nanos t1 r8. apply N.eqb_neq in Hdot.
    exists [], c. split; [constructor|]. split; [unfold zlen; simpl; lia|]. split; [reflexivity|]. split; [reflexivity|].
    split; [destruct Hc as [Hc|Hc]; [congruence|exact Hc]|]. reflexivity.
Qed.

(* ---------- accepted => a rendering of a valid civil time, with the right instant ---------- *)
Theorem accepted_is_timestamp s t : parse_rfc3339 s = Some t -> is_timestamp s t.
Proof.
  unfold parse_rfc3339. intros H.
  destruct (num_field hyphen_t false 4 4 0 9999 s) as [[[year ty] r1]|] eqn:H1; [|discriminate].
  destruct (num_field hyphen_t false 2 2 1 12 r1) as [[[month tm] r2]|] eqn:H2; [|discriminate].
  destruct (num_field t_t false 2 2 1 31 r2) as [[[day td] r3]|] eqn:H3; [|discriminate].
  destruct (num_field colon_t false 1 2 0 23 r3) as [[[hour th] r4]|] eqn:H4; [|discriminate].
  destruct (num_field colon_t false 2 2 0 59 r4) as [[[minute tmi] r5]|] eqn:H5; [|discriminate].
  destruct (num_field end_sec_t false 2 2 0 60 r5) as [[[second term0] r6]|] eqn:H6; [|discriminate].
  destruct (parse_frac term0 r6) as [[[nanos term1] r8]|] eqn:H7; [|discriminate].
  destruct (parse_zone term1 r8) as [tz|] eqn:H8; [|discriminate].
  destruct (days_in_month year month <? day) eqn:Hdim; [discriminate|]. apply Z.ltb_ge in Hdim. inversion H; subst t. clear H.
  destruct (field_inv _ _ _ _ _ _ _ _ _ H1 ltac:(lia)) as [fy [cy [Fy [Ly [Ry [Ey [_ [Py Xy]]]]]]]]. apply hyphen_inv in Py. subst cy.
  destruct (field_inv _ _ _ _ _ _ _ _ _ H2 ltac:(lia)) as [fm [cm [Fm [Lm [Rm [Em [_ [Pm Xm]]]]]]]]. apply hyphen_inv in Pm. subst cm.
  destruct (field_inv _ _ _ _ _ _ _ _ _ H3 ltac:(lia)) as [fd [cd [Fd [Ld [Rd [Ed [_ [Pd Xd]]]]]]]]. apply t_inv in Pd.
  destruct (field_inv _ _ _ _ _ _ _ _ _ H4 ltac:(lia)) as [fh [ch [Fh [Lh [Rh [Eh [_ [Ph Xh]]]]]]]]. apply colon_inv in Ph. subst ch.
  destruct (field_inv _ _ _ _ _ _ _ _ _ H5 ltac:(lia)) as [fi [ci [Fi [Li [Ri [Ei [_ [Pi Xi]]]]]]]]. apply colon_inv in Pi. subst ci.
  destruct (field_inv _ _ _ _ _ _ _ _ _ H6 ltac:(lia)) as [fsec [cs [Fs [Ls [Rs [Es [Ts [Ps Xs]]]]]]]]. apply end_sec_inv in Ps. subst term0.
  destruct (parse_frac_inv _ _ _ _ _ H7 Ps) as [fs [c1 [Ffs [Lfs [Enan [Et1 [Pc1 Xf]]]]]]]. subst term1.
  destruct (parse_zone_inv _ _ _ H8 Pc1) as [z [Zok [Xz Etz]]].
  destruct (four_digits fy Fy ltac:(lia)) as [Dy _]. rewrite <- Ey in Dy.
  destruct (two_digits fm Fm ltac:(lia)) as [Dm _]. rewrite <- Em in Dm.
  destruct (two_digits fd Fd ltac:(lia)) as [Dd _]. rewrite <- Ed in Dd.
  destruct (two_digits fi Fi ltac:(lia)) as [Di _]. rewrite <- Ei in Di.
  destruct (two_digits fsec Fs ltac:(lia)) as [Ds _]. rewrite <- Es in Ds.
  assert (Hshort : exists short, map digit fh = render_hour short hour /\ (short = true -> hour <= 9)).
  { assert (Hl : zlen fh = 1 \/ zlen fh = 2) by lia. destruct Hl as [Hl|Hl].
    - destruct (one_digit fh Fh Hl) as [D B]. rewrite <- Eh in D, B. exists true. split; [exact D|intros _; lia].
    - destruct (two_digits fh Fh Hl) as [D _]. rewrite <- Eh in D. exists false. split; [exact D|discriminate]. }
  destruct Hshort as [short [Dh Bh]].
  exists year, month, day, short, hour, minute, second, cd, fs, z.
  split.
  { unfold valid_ts. repeat split; try lia; try assumption. }
  split.
  - unfold render_ts. rewrite Xy, Xm, Xd, Xh, Xi, Xs, Dy, Dm, Dd, Dh, Di, Ds.
    repeat (rewrite <- app_assoc; cbn [app]). do 6 (f_equal; try (rewrite <- ?app_assoc; cbn [app])).
    change (cs :: r6) with ([cs] ++ r6) in Xf. cbn [app] in Xf. rewrite Xf, <- Xz. reflexivity.
  - unfold instant. rewrite Enan, Etz. reflexivity.
Qed.

(* ---------- a rendering of a valid civil time is accepted (one-digit hours included) ---------- *)
Lemma num_field1 p v t rest lo hi :
  is_term p -> 0 <= v <= 9 -> lo <= v <= hi -> is_ascii t = true -> p t = true ->
  num_field p false 1 2 lo hi ([digit v] ++ t :: rest) = Some (v, TChar t, rest).
Proof.
  intros Hp Hv Hr Ha Ht. apply num_field_gen; auto.
  - constructor; [split; [apply digit_ascii; exact Hv|apply Hp; exact Hv]|constructor].
  - discriminate.
  - unfold parse_num. cbn [digits_val]. rewrite digit_is_digit, digit_val by exact Hv. rewrite wrap64_small by (unfold two63; lia). f_equal; lia.
  - unfold zlen. simpl. lia.
Qed.

Theorem timestamp_is_accepted s t : is_timestamp s t -> parse_rfc3339 s = Some t.
Proof.
  intros [y [mo [d [short [h [mi [sec [tl [fs [z [V [Es Et]]]]]]]]]]]]. subst s t.
  destruct V as [Hy [Hmo [Hd [Hh [Hsh [Hmi [Hs [Htl [Hfs [Hlen Hz]]]]]]]]]].
  destruct short.
  - (* one-digit hour: same steps as parse_render_full with the hour field of length 1 *)
    specialize (Hsh eq_refl). destruct terms_ok as [T1 [T2 [T3 [T4 [T5 T6]]]]].
    destruct (zone_head_facts z Hz) as [Z1 [Z2 [Z3 Z4]]].
    pose proof (dim_le_31 y mo) as H31.
    assert (Hdim : (days_in_month y mo <? d) = false) by (apply Z.ltb_ge; lia).
    unfold parse_rfc3339, parse_frac, parse_zone, render_ts, render_hour.
    rewrite (num_field4 hyphen_t y 45%N) by (auto; lia).
    rewrite (num_field2 hyphen_t mo 45%N) by (auto; lia).
    rewrite (num_field2 t_t d tl) by (auto; try lia; destruct Htl; subst; reflexivity).
    rewrite (num_field1 colon_t h 58%N) by (auto; lia).
    rewrite (num_field2 colon_t mi 58%N) by (auto; lia).
    rewrite render_zone_split.
    destruct fs as [|f0 fs'].
    + cbn [render_frac app]. rewrite (num_field2 end_sec_t sec (zone_head z)) by (auto; lia).
      rewrite Z4. cbv beta iota zeta. pose proof (zone_parse z Hz) as HZ. cbv zeta in HZ. rewrite HZ. rewrite Hdim.
      unfold instant, frac_nanos, frac_val. cbn [fold_left]. f_equal; try lia.
    + cbn [render_frac]. change ((46%N :: map digit (f0 :: fs')) ++ zone_head z :: zone_tail z)
        with (46%N :: (map digit (f0 :: fs') ++ zone_head z :: zone_tail z)).
      rewrite (num_field2 end_sec_t sec 46%N) by (auto; lia). cbn [term_is N.eqb Pos.eqb].
      rewrite (read_until_app end_frac_t (map digit (f0 :: fs')) (zone_head z) (zone_tail z) (frac_digits_ok _ _ T5 Hfs) Z1 Z3).
      cbn [term_neg orb]. rewrite map_length_z.
      destruct (9 <? zlen (f0 :: fs')) eqn:H9; [apply Z.ltb_lt in H9; lia|].
      unfold parse_num. cbn [map]. change (digit f0 :: map digit fs') with (map digit (f0 :: fs')).
      assert (Hb : (0 + 1) * 10 ^ zlen (f0 :: fs') <= two63).
      { rewrite Z.mul_1_l. apply Z.le_trans with (10 ^ 9); [apply Z.pow_le_mono_r; [lia|exact Hlen]|unfold two63; vm_compute; discriminate]. }
      rewrite (digits_val_map (f0 :: fs') 0 Hfs ltac:(lia) Hb).
      cbv beta iota zeta. pose proof (zone_parse z Hz) as HZ. cbv zeta in HZ. rewrite HZ. rewrite Hdim. unfold instant, frac_nanos, frac_val. reflexivity.
  - apply (parse_render_full y mo d h mi sec tl fs z); assumption.
Qed.

(* the accepted set, exactly *)
Theorem accepts_exactly_the_timestamps s t : parse_rfc3339 s = Some t <-> is_timestamp s t.
Proof. split; [apply accepted_is_timestamp|apply timestamp_is_accepted]. Qed.

(* consequences in the words of the property: a string that is not the rendering of a valid civil time -- a missing or
   garbled field, a truncation, anything before or after -- is no timestamp and never matches *)
Corollary non_timestamp_is_rejected s : (forall t, ~ is_timestamp s t) -> parse_rfc3339 s = None.
Proof. intros H. destruct (parse_rfc3339 s) as [t|] eqn:E; [|reflexivity]. exfalso. exact (H t (accepted_is_timestamp s t E)). Qed.

Corollary non_timestamp_never_matches c s i f : (forall t, ~ is_timestamp s t) -> date_op c (JStr s) i f = false.
Proof. intros H. apply invalid_operand_never_matches. simpl. apply non_timestamp_is_rejected. exact H. Qed.

(* a proper prefix of a timestamp is not a timestamp (truncation), and neither is a timestamp followed by anything *)
Lemma render_ts_length y mo d short h mi sec tl fs z :
  zlen (render_ts y mo d short h mi sec tl fs z) =
  17 + (if short then 1 else 2) + zlen (render_frac fs) + zlen (render_zone z).
Proof.
  unfold render_ts, render_hour, digits4, digits2, zlen. destruct short; cbn [app List.length]; rewrite ?app_length; cbn [List.length]; lia.
Qed.

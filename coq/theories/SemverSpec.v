(* C04, "the semVer operators are Semantic Versioning 2.0 precedence (minor/patch may be omitted); unparseable operands
   never satisfy it".  go-semver (a dependency, modelled in Semver.v) is characterised against a declarative statement of
   SemVer 2.0 written from the specification (semver.org 2.0.0, items 2, 9, 10, 11), not from the scanner:
     - the accepted strings are exactly   core [ "-" pre ] [ "+" build ]   with core = major [ "." minor [ "." patch ] ],
       numeric identifiers without leading zeros, dot-separated non-empty identifiers over [0-9A-Za-z-], numeric
       pre-release identifiers without leading zeros (accepted_is_semver / semver_is_accepted);
     - precedence is item 11: major, minor, patch numerically; a pre-release version is lower than the normal version;
       identifiers left to right, numeric ones numerically, others in ASCII order, numeric below non-numeric, a longer
       list above its prefix; build metadata ignored (cmp_is_precedence).
   Both hold with numbers read in Go's 64-bit int arithmetic; [numval] below is that arithmetic, and it is the
   mathematical value for numbers of up to 18 digits (numval_exact). For longer numbers it is not, and precedence is then
   wrong: overflow_refuted (a known finding of the dependency, see DESIGN section 7). *)
From LD Require Import Base Scan Semver.
From Coq Require Import ZifyBool.
Open Scope Z_scope.

(* ---------- declarative grammar ---------- *)
Definition numval (ds : str) : Z := match digits_val 0 ds with Some n => n | None => 0 end.
Definition all_digits (ds : str) : Prop := Forall (fun c => is_digit c = true) ds.
(* semver.org: <numeric identifier> ::= "0" | <positive digit> | <positive digit> <digits> *)
Definition num_id (ds : str) : Prop :=
  ds <> [] /\ all_digits ds /\ (match ds with c :: _ :: _ => c <> 48%N | _ => True end).
(* <build identifier>: non-empty over [0-9A-Za-z-] *)
Definition ident (x : str) : Prop := x <> [] /\ Forall (fun c => is_alnum_hyphen c = true) x.
(* <pre-release identifier>: the same, and when it is all digits it is a numeric identifier (no leading zero) *)
Definition pre_ident (x : str) : Prop := ident x /\ (forallb is_digit x = true -> match x with c :: _ :: _ => c <> 48%N | _ => True end).

Fixpoint join (ids : list str) : str :=
  match ids with
  | [] => []
  | [x] => x
  | x :: r => x ++ c_dot :: join r
  end.

Lemma join_cons2 x y r : join (x :: y :: r) = x ++ c_dot :: join (y :: r).
Proof. reflexivity. Qed.
Lemma join_one x : join [x] = x.
Proof. reflexivity. Qed.

Inductive core := Core1 (mj : str) | Core2 (mj mn : str) | Core3 (mj mn pa : str).
Definition core_ok (c : core) : Prop :=
  match c with Core1 a => num_id a | Core2 a b => num_id a /\ num_id b | Core3 a b d => num_id a /\ num_id b /\ num_id d end.
Definition render_core (c : core) : str :=
  match c with Core1 a => a | Core2 a b => a ++ c_dot :: b | Core3 a b d => a ++ c_dot :: b ++ c_dot :: d end.
Definition core_version (c : core) (pre build : str) : semver :=
  match c with
  | Core1 a => mksv (numval a) 0 0 pre build
  | Core2 a b => mksv (numval a) (numval b) 0 pre build
  | Core3 a b d => mksv (numval a) (numval b) (numval d) pre build
  end.
Definition render_opt (lead : N) (ids : list str) : str := match ids with [] => [] | _ => lead :: join ids end.

Definition is_semver (x : str) (v : semver) : Prop :=
  exists c pre build, core_ok c /\ Forall pre_ident pre /\ Forall ident build /\
    x = render_core c ++ render_opt c_hyphen pre ++ render_opt c_plus build /\
    v = core_version c (join pre) (join build).

(* ---------- scanner inversion (as in TimeAccept) ---------- *)
Definition plain (p : N -> bool) (ch : N) : Prop := is_ascii ch = true /\ p ch = false.

Lemma read_until_inv p : forall x sub t rest, read_until p x = (sub, t, rest) ->
  Forall (plain p) sub /\
  match t with
  | TChar c => x = sub ++ c :: rest /\ p c = true /\ is_ascii c = true
  | TEof => x = sub /\ rest = []
  | TNonAscii => x = sub ++ rest
  end.
Proof.
  induction x as [|c r IH]; intros sub t rest H; cbn [read_until] in H.
  - inversion H; subst. split; [constructor|auto].
  - destruct (is_ascii c) eqn:Ha; cbn [negb] in H.
    + destruct (p c) eqn:Hp.
      * inversion H; subst. split; [constructor|]. simpl. auto.
      * destruct (read_until p r) as [[sub' t'] rest'] eqn:Hr. inversion H; subst.
        destruct (IH _ _ _ eq_refl) as [F M]. split; [constructor; [split; assumption|exact F]|].
        destruct t as [c'| |].
        -- destruct M as [M1 [M2 M3]]. subst r. auto.
        -- destruct M as [M1 M2]. subst. auto.
        -- subst r. reflexivity.
    + inversion H; subst. split; [constructor|reflexivity].
Qed.

Lemma read_until_plain_char p sub c rest :
  Forall (plain p) sub -> is_ascii c = true -> p c = true -> read_until p (sub ++ c :: rest) = (sub, TChar c, rest).
Proof.
  intros F Ha Hp. induction F as [|ch sub [H1 H2] _ IH]; simpl.
  - rewrite Ha, Hp. reflexivity.
  - rewrite H1, H2. simpl. rewrite IH. reflexivity.
Qed.
Lemma read_until_plain_eof p sub : Forall (plain p) sub -> read_until p sub = (sub, TEof, []).
Proof. intros F. induction F as [|ch sub [H1 H2] _ IH]; simpl; [reflexivity|]. rewrite H1, H2. simpl. rewrite IH. reflexivity. Qed.

(* characters *)
Lemma digit_is_alnum c : is_digit c = true -> is_alnum_hyphen c = true.
Proof. unfold is_alnum_hyphen. intros H. rewrite H. reflexivity. Qed.
Lemma alnum_facts c : is_alnum_hyphen c = true ->
  is_ascii c = true /\ dot_t c = false /\ plus_t c = false.
Proof.
  unfold is_alnum_hyphen, is_digit, is_ascii, dot_t, plus_t, c_dot, c_plus, c_hyphen. intros H.
  assert (Hc : (48 <= c <= 57 \/ 97 <= c <= 122 \/ 65 <= c <= 90 \/ c = 45)%N).
  { repeat (apply orb_true_iff in H; destruct H as [H|H]).
    - apply andb_true_iff in H. destruct H as [H1 H2]. apply N.leb_le in H1. apply N.leb_le in H2. lia.
    - apply andb_true_iff in H. destruct H as [H1 H2]. apply N.leb_le in H1. apply N.leb_le in H2. lia.
    - apply andb_true_iff in H. destruct H as [H1 H2]. apply N.leb_le in H1. apply N.leb_le in H2. lia.
    - apply N.eqb_eq in H. lia. }
  repeat split.
  - apply andb_true_iff. split; [apply negb_true_iff; apply N.eqb_neq; lia|apply N.leb_le; lia].
  - apply N.eqb_neq. lia.
  - apply N.eqb_neq. lia.
Qed.
Lemma digit_facts c : is_digit c = true ->
  is_ascii c = true /\ dot_t c = false /\ hyphen_plus_t c = false /\ dot_hyphen_plus_t c = false.
Proof.
  unfold is_digit, is_ascii, dot_hyphen_plus_t, hyphen_plus_t, dot_t, c_dot, c_plus, c_hyphen. intros H.
  apply andb_true_iff in H. destruct H as [H1 H2]. apply N.leb_le in H1. apply N.leb_le in H2.
  assert (E0 : (c =? 0)%N = false) by (apply N.eqb_neq; lia).
  assert (E1 : (c =? 46)%N = false) by (apply N.eqb_neq; lia).
  assert (E2 : (c =? 45)%N = false) by (apply N.eqb_neq; lia).
  assert (E3 : (c =? 43)%N = false) by (apply N.eqb_neq; lia).
  assert (E4 : (c <=? 127)%N = true) by (apply N.leb_le; lia).
  rewrite E0, E1, E2, E3, E4. repeat split; reflexivity.
Qed.

(* ---------- numeric identifiers ---------- *)
Lemma digits_val_some : forall ds acc, all_digits ds -> exists n, digits_val acc ds = Some n.
Proof.
  induction ds as [|c r IH]; intros acc F; [eexists; reflexivity|].
  inversion F as [|? ? Hc Fr]; subst. cbn [digits_val]. rewrite Hc. apply IH. exact Fr.
Qed.
Lemma digits_val_all : forall ds acc n, digits_val acc ds = Some n -> all_digits ds.
Proof.
  induction ds as [|c r IH]; intros acc n H; [constructor|]. cbn [digits_val] in H.
  destruct (is_digit c) eqn:Hc; [|discriminate]. constructor; [exact Hc|eapply IH; exact H].
Qed.

Lemma parse_num_nolead_spec ds n : parse_num_nolead ds = Some n <-> (num_id ds /\ n = numval ds).
Proof.
  unfold parse_num_nolead, num_id, numval. split.
  - intros H. destruct ds as [|c [|c2 r]].
    + discriminate.
    + pose proof (digits_val_all _ _ _ H) as F. rewrite H. repeat split; auto. discriminate.
    + destruct (c =? 48)%N eqn:E; [discriminate|]. pose proof (digits_val_all _ _ _ H) as F. rewrite H.
      apply N.eqb_neq in E. repeat split; auto. discriminate.
  - intros [[H1 [H2 H3]] Hn]. destruct ds as [|c [|c2 r]].
    + congruence.
    + destruct (digits_val_some _ 0 H2) as [m Hm]. rewrite Hm in *. congruence.
    + apply N.eqb_neq in H3. rewrite H3. destruct (digits_val_some _ 0 H2) as [m Hm]. rewrite Hm in *. congruence.
Qed.

Lemma num_id_plain p ds : (forall c, is_digit c = true -> p c = false) -> all_digits ds -> Forall (plain p) ds.
Proof.
  intros Hp F. induction F as [|c r Hc _ IH]; constructor; [|exact IH].
  split; [apply (digit_facts c Hc)|apply Hp; exact Hc].
Qed.

(* requirePositiveIntegerComponent *)
Lemma req_int_inv p x n t rest : req_int p x = Some (n, t, rest) ->
  exists ds, num_id ds /\ n = numval ds /\ read_until p x = (ds, t, rest) /\ t <> TNonAscii.
Proof.
  unfold req_int. intros H. destruct (read_until p x) as [[sub t'] rest'] eqn:Hr.
  destruct t' as [c| |]; try discriminate.
  - destruct (parse_num_nolead sub) as [m|] eqn:Hn; [|discriminate]. inversion H; subst.
    apply parse_num_nolead_spec in Hn. destruct Hn as [N1 N2]. exists sub. split; [exact N1|]. split; [exact N2|]. split; [reflexivity|discriminate].
  - destruct (parse_num_nolead sub) as [m|] eqn:Hn; [|discriminate]. inversion H; subst.
    apply parse_num_nolead_spec in Hn. destruct Hn as [N1 N2]. exists sub. split; [exact N1|]. split; [exact N2|]. split; [reflexivity|discriminate].
Qed.
Lemma req_int_char p ds c rest :
  (forall d, is_digit d = true -> p d = false) -> num_id ds -> is_ascii c = true -> p c = true ->
  req_int p (ds ++ c :: rest) = Some (numval ds, TChar c, rest).
Proof.
  intros Hp Hn Ha Hc. unfold req_int. destruct Hn as [N1 [N2 N3]].
  rewrite (read_until_plain_char p ds c rest (num_id_plain p ds Hp N2) Ha Hc).
  assert (E : parse_num_nolead ds = Some (numval ds)) by (apply parse_num_nolead_spec; split; [repeat split; assumption|reflexivity]).
  rewrite E. reflexivity.
Qed.
Lemma req_int_eof p ds :
  (forall d, is_digit d = true -> p d = false) -> num_id ds -> req_int p ds = Some (numval ds, TEof, []).
Proof.
  intros Hp Hn. unfold req_int. destruct Hn as [N1 [N2 N3]].
  rewrite (read_until_plain_eof p ds (num_id_plain p ds Hp N2)).
  assert (E : parse_num_nolead ds = Some (numval ds)) by (apply parse_num_nolead_spec; split; [repeat split; assumption|reflexivity]).
  rewrite E. reflexivity.
Qed.

(* ---------- identifier lists ---------- *)
Definition id_ok (prerelease : bool) (x : str) : Prop := if prerelease then pre_ident x else ident x.

Lemma forallb_alnum x : forallb is_alnum_hyphen x = true <-> Forall (fun c => is_alnum_hyphen c = true) x.
Proof. rewrite forallb_forall, Forall_forall. reflexivity. Qed.

Lemma ident_plain_dot x : Forall (fun c => is_alnum_hyphen c = true) x -> Forall (plain dot_t) x.
Proof. intros F. induction F as [|c r Hc _ IH]; constructor; [|exact IH]. destruct (alnum_facts c Hc) as [A [B _]]. split; assumption. Qed.
Lemma ident_plain_plus x : Forall (fun c => is_alnum_hyphen c = true) x -> Forall (plain plus_t) x.
Proof. intros F. induction F as [|c r Hc _ IH]; constructor; [|exact IH]. destruct (alnum_facts c Hc) as [A [_ B]]. split; assumption. Qed.

(* one identifier passes the per-identifier test of validate_ids iff it is a (pre-release) identifier *)
Definition id_test (prerelease : bool) (sub : str) : bool :=
  match sub with
  | [] => false
  | c :: tl =>
    if negb (forallb is_alnum_hyphen sub) then false
    else if prerelease && (match tl with [] => false | _ => true end) && forallb is_digit sub && N.eqb c 48 then false
    else true
  end.
Lemma id_test_spec pre sub : id_test pre sub = true <-> id_ok pre sub.
Proof.
  unfold id_test, id_ok, pre_ident, ident. destruct sub as [|c tl].
  - split; [discriminate|]. destruct pre; intros H; [destruct H as [[H _] _]|destruct H as [H _]]; congruence.
  - destruct (forallb is_alnum_hyphen (c :: tl)) eqn:Ha; cbn [negb].
    + apply forallb_alnum in Ha. destruct pre; cbn [andb].
      * destruct tl as [|c2 tl'].
        -- split; [intros _; split; [split; [discriminate|exact Ha]|auto]|reflexivity].
        -- destruct (forallb is_digit (c :: c2 :: tl')) eqn:Hd; cbn [andb].
           ++ destruct (c =? 48)%N eqn:E.
              ** split; [discriminate|]. intros [_ H]. apply N.eqb_eq in E. specialize (H eq_refl). congruence.
              ** apply N.eqb_neq in E. split; [intros _; split; [split; [discriminate|exact Ha]|intros _; exact E]|reflexivity].
           ++ split; [intros _; split; [split; [discriminate|exact Ha]|discriminate]|reflexivity].
      * split; [intros _; split; [discriminate|exact Ha]|reflexivity].
    + split; [discriminate|]. intros H. assert (F : Forall (fun c => is_alnum_hyphen c = true) (c :: tl)) by (destruct pre; [apply H|apply H]).
      apply forallb_alnum in F. congruence.
Qed.

Lemma validate_ids_unfold f pre x :
  validate_ids (S f) pre x =
  let '(sub, t, rest) := read_until dot_t x in
  match t with
  | TNonAscii => false
  | _ => if id_test pre sub then (match t with TEof => true | _ => validate_ids f pre rest end) else false
  end.
Proof.
  cbn [validate_ids]. destruct (read_until dot_t x) as [[sub t] rest]. destruct t as [tc| |]; try reflexivity;
    unfold id_test; destruct sub as [|c tl]; try reflexivity;
    destruct (negb (forallb is_alnum_hyphen (c :: tl))); try reflexivity;
    destruct (pre && match tl with [] => false | _ :: _ => true end && forallb is_digit (c :: tl) && (c =? 48)%N); reflexivity.
Qed.

Lemma validate_ids_inv : forall fuel pre x, validate_ids fuel pre x = true ->
  exists ids, ids <> [] /\ Forall (id_ok pre) ids /\ x = join ids.
Proof.
  induction fuel as [|f IH]; intros pre x H; [discriminate|]. rewrite validate_ids_unfold in H.
  destruct (read_until dot_t x) as [[sub t] rest] eqn:Hr. destruct (read_until_inv _ _ _ _ _ Hr) as [F M].
  destruct t as [c| |]; try discriminate.
  - destruct (id_test pre sub) eqn:Ht; [|discriminate]. apply id_test_spec in Ht.
    destruct M as [M1 [M2 _]]. unfold dot_t in M2. apply N.eqb_eq in M2. subst c.
    destruct (IH _ _ H) as [ids [N1 [F1 E1]]]. exists (sub :: ids). split; [discriminate|]. split; [constructor; assumption|].
    destruct ids as [|i0 ids']; [congruence|]. rewrite join_cons2. rewrite M1, E1. reflexivity.
  - destruct (id_test pre sub) eqn:Ht; [|discriminate]. apply id_test_spec in Ht. destruct M as [M1 _].
    exists [sub]. split; [discriminate|]. split; [constructor; [exact Ht|constructor]|]. simpl. exact M1.
Qed.

Lemma id_ok_alnum pre x : id_ok pre x -> Forall (fun c => is_alnum_hyphen c = true) x.
Proof. destruct pre; [intros [[_ H] _]|intros [_ H]]; exact H. Qed.

Lemma validate_ids_join : forall ids fuel pre, ids <> [] -> Forall (id_ok pre) ids -> (List.length ids <= fuel)%nat ->
  validate_ids fuel pre (join ids) = true.
Proof.
  induction ids as [|x r IH]; intros fuel pre Hn F Hl; [congruence|].
  destruct fuel as [|f]; [simpl in Hl; lia|]. rewrite validate_ids_unfold.
  inversion F as [|? ? Hx Fr]; subst. pose proof (ident_plain_dot x (id_ok_alnum pre x Hx)) as Px.
  destruct r as [|y r'].
  - rewrite join_one. rewrite (read_until_plain_eof dot_t x Px). apply id_test_spec in Hx. rewrite Hx. reflexivity.
  - rewrite join_cons2. rewrite (read_until_plain_char dot_t x c_dot (join (y :: r')) Px eq_refl eq_refl).
    apply id_test_spec in Hx. rewrite Hx. apply IH; [discriminate|exact Fr|simpl in *; lia].
Qed.

Lemma join_length_ge ids : Forall (fun x : str => x <> []) ids -> (List.length ids <= List.length (join ids))%nat.
Proof.
  induction ids as [|x r IH]; intros F; [simpl; lia|]. inversion F as [|? ? Hx Fr]; subst. specialize (IH Fr).
  destruct r as [|y r'].
  - rewrite join_one. destruct x; [congruence|simpl; lia].
  - rewrite join_cons2. rewrite app_length. cbn [List.length] in *. lia.
Qed.
Lemma id_ok_nonempty pre ids : Forall (id_ok pre) ids -> Forall (fun x : str => x <> []) ids.
Proof. intros F. induction F as [|x r Hx _ IH]; constructor; [|exact IH]. destruct pre; [destruct Hx as [[H _] _]|destruct Hx as [H _]]; exact H. Qed.

Lemma join_alnum_dot pre ids : Forall (id_ok pre) ids ->
  Forall (fun c => is_alnum_hyphen c = true \/ c = c_dot) (join ids).
Proof.
  intros F. induction F as [|x r Hx _ IH]; [constructor|].
  assert (Fx : Forall (fun c => is_alnum_hyphen c = true \/ c = c_dot) x).
  { eapply Forall_impl; [|exact (id_ok_alnum pre x Hx)]. intros a Ha. left. exact Ha. }
  destruct r as [|y r']; [rewrite join_one; exact Fx|]. rewrite join_cons2. apply Forall_app. split; [exact Fx|]. constructor; [right; reflexivity|exact IH].
Qed.
Lemma join_nonempty pre ids : ids <> [] -> Forall (id_ok pre) ids -> join ids <> [].
Proof.
  intros Hn F. destruct ids as [|x r]; [congruence|]. inversion F as [|? ? Hx _]; subst.
  assert (x <> []) by (destruct pre; [destruct Hx as [[H _] _]|destruct Hx as [H _]]; exact H).
  destruct r; [rewrite join_one; exact H|rewrite join_cons2; destruct x; [congruence|discriminate]].
Qed.

(* ---------- the tail: [ "-" pre ] [ "+" build ] ---------- *)
Definition split_tail (tl : str) : term * str := match tl with [] => (TEof, []) | c :: r => (TChar c, r) end.
Definition with_tail (v : semver) (pre build : str) : semver := mksv (sv_major v) (sv_minor v) (sv_patch v) pre build.
Definition tail_of (pre build : list str) : str := render_opt c_hyphen pre ++ render_opt c_plus build.

Lemma join_plain_plus pre ids : Forall (id_ok pre) ids -> Forall (plain plus_t) (join ids).
Proof.
  intros F. eapply Forall_impl; [|exact (join_alnum_dot pre ids F)]. intros c [Hc|Hc].
  - destruct (alnum_facts c Hc) as [A [_ B]]. split; assumption.
  - subst c. split; reflexivity.
Qed.
Lemma join_plain_none pre ids : Forall (id_ok pre) ids -> Forall (plain no_t) (join ids).
Proof.
  intros F. eapply Forall_impl; [|exact (join_alnum_dot pre ids F)]. intros c [Hc|Hc].
  - destruct (alnum_facts c Hc) as [A _]. split; [exact A|reflexivity].
  - subst c. split; reflexivity.
Qed.

Lemma validate_join pre ids : ids <> [] -> Forall (id_ok pre) ids ->
  validate_ids (S (List.length (join ids))) pre (join ids) = true.
Proof.
  intros Hn F. apply validate_ids_join; [exact Hn|exact F|].
  pose proof (join_length_ge ids (id_ok_nonempty pre ids F)). lia.
Qed.

(* the build part alone *)
Lemma build_inv v2 rest2 w :
  (let '(b, t3, _) := read_until no_t rest2 in
   match b, t3 with
   | [], _ => None
   | _, TNonAscii => None
   | _, _ => if validate_ids (S (List.length b)) false b then Some (with_tail v2 (sv_pre v2) b) else None
   end) = Some w ->
  exists build, build <> [] /\ Forall ident build /\ rest2 = join build /\ w = with_tail v2 (sv_pre v2) (join build).
Proof.
  destruct (read_until no_t rest2) as [[b t3] r3] eqn:Hr. intros H. destruct (read_until_inv _ _ _ _ _ Hr) as [_ M].
  destruct b as [|b0 b']; [discriminate|]. destruct t3 as [c| |]; try discriminate.
  - destruct M as [_ [M2 _]]. discriminate.
  - destruct (validate_ids _ false (b0 :: b')) eqn:Hv; [|discriminate]. inversion H; subst w.
    destruct (validate_ids_inv _ _ _ Hv) as [ids [N1 [F1 E1]]]. destruct M as [M1 _].
    exists ids. split; [exact N1|]. split; [exact F1|]. split; [congruence|]. rewrite E1. reflexivity.
Qed.
Lemma build_render v2 build : build <> [] -> Forall ident build ->
  (let '(b, t3, _) := read_until no_t (join build) in
   match b, t3 with
   | [], _ => None
   | _, TNonAscii => None
   | _, _ => if validate_ids (S (List.length b)) false b then Some (with_tail v2 (sv_pre v2) b) else None
   end) = Some (with_tail v2 (sv_pre v2) (join build)).
Proof.
  intros Hn F. rewrite (read_until_plain_eof no_t (join build) (join_plain_none false build F)).
  pose proof (join_nonempty false build Hn F) as Hne. destruct (join build) as [|b0 b'] eqn:E; [congruence|].
  rewrite <- E. rewrite (validate_join false build Hn F). reflexivity.
Qed.

Lemma parse_tail_unfold v t rest :
  parse_tail v t rest =
  match (if term_is t c_hyphen then
           let '(pre, t2, rest2) := read_until plus_t rest in
           match pre, t2 with
           | [], _ => None
           | _, TNonAscii => None
           | _, _ => if validate_ids (S (List.length pre)) true pre then Some (with_tail v pre [], t2, rest2) else None
           end
         else Some (v, t, rest)) with
  | None => None
  | Some (v2, t2, rest2) =>
    if term_is t2 c_plus then
      let '(b, t3, _) := read_until no_t rest2 in
      match b, t3 with
      | [], _ => None
      | _, TNonAscii => None
      | _, _ => if validate_ids (S (List.length b)) false b then Some (with_tail v2 (sv_pre v2) b) else None
      end
    else Some v2
  end.
Proof. reflexivity. Qed.

Lemma with_tail_id v : sv_pre v = [] -> sv_build v = [] -> v = with_tail v [] [].
Proof. destruct v; simpl; intros; subst; reflexivity. Qed.

Lemma parse_tail_inv v tl w : sv_pre v = [] -> sv_build v = [] ->
  (match tl with [] => True | c :: _ => c = c_hyphen \/ c = c_plus end) ->
  parse_tail v (fst (split_tail tl)) (snd (split_tail tl)) = Some w ->
  exists pre build, Forall pre_ident pre /\ Forall ident build /\ tl = tail_of pre build /\ w = with_tail v (join pre) (join build).
Proof.
  intros Hp Hb Hc H. rewrite parse_tail_unfold in H. destruct tl as [|c rest]; cbn [split_tail fst snd] in H.
  - cbn [term_is] in H. inversion H; subst w. exists [], []. repeat split; try constructor. apply with_tail_id; assumption.
  - destruct Hc as [Hc|Hc]; subst c.
    + (* "-" pre ... *)
      cbn [term_is] in H. change (c_hyphen =? c_hyphen)%N with true in H. cbv iota in H.
      destruct (read_until plus_t rest) as [[pre t2] rest2] eqn:Hr. destruct (read_until_inv _ _ _ _ _ Hr) as [_ M].
      destruct pre as [|p0 p']; [discriminate|].
      destruct t2 as [c2| |]; try discriminate.
      * destruct (validate_ids _ true (p0 :: p')) eqn:Hv; [|discriminate].
        destruct (validate_ids_inv _ _ _ Hv) as [ids [N1 [F1 E1]]].
        destruct M as [M1 [M2 _]]. unfold plus_t in M2. apply N.eqb_eq in M2. subst c2.
        cbn [term_is] in H. change (c_plus =? c_plus)%N with true in H. cbv iota in H.
        destruct (build_inv _ _ _ H) as [build [N2 [F2 [E2 Ew]]]].
        exists ids, build. split; [exact F1|]. split; [exact F2|]. split.
        -- unfold tail_of, render_opt. destruct ids as [|i0 ids']; [congruence|]. destruct build as [|b0 build']; [congruence|].
           rewrite M1, E1, E2. cbn [app]. reflexivity.
        -- rewrite Ew. cbn [with_tail sv_major sv_minor sv_patch sv_pre]. rewrite E1. reflexivity.
      * destruct (validate_ids _ true (p0 :: p')) eqn:Hv; [|discriminate].
        destruct (validate_ids_inv _ _ _ Hv) as [ids [N1 [F1 E1]]]. destruct M as [M1 _].
        cbn [term_is] in H. inversion H; subst w.
        exists ids, []. split; [exact F1|]. split; [constructor|]. split.
        -- unfold tail_of, render_opt. destruct ids as [|i0 ids']; [congruence|]. rewrite app_nil_r. rewrite M1, E1. reflexivity.
        -- rewrite E1. reflexivity.
    + (* "+" build *)
      cbn [term_is] in H. change (c_hyphen =? c_plus)%N with false in H. cbv iota in H.
      cbn [term_is] in H. change (c_plus =? c_plus)%N with true in H. cbv iota in H.
      destruct (build_inv _ _ _ H) as [build [N2 [F2 [E2 Ew]]]].
      exists [], build. split; [constructor|]. split; [exact F2|]. split.
      * unfold tail_of, render_opt. destruct build as [|b0 build']; [congruence|]. cbn [app]. rewrite E2. reflexivity.
      * rewrite Ew, Hp. reflexivity.
Qed.

Lemma parse_tail_render v pre build : sv_pre v = [] -> sv_build v = [] -> Forall pre_ident pre -> Forall ident build ->
  parse_tail v (fst (split_tail (tail_of pre build))) (snd (split_tail (tail_of pre build))) =
  Some (with_tail v (join pre) (join build)).
Proof.
  intros Hp Hb F1 F2. rewrite parse_tail_unfold. unfold tail_of, render_opt.
  destruct pre as [|p0 pre'].
  - destruct build as [|b0 build'].
    + cbn [app split_tail fst snd term_is]. f_equal. apply with_tail_id; assumption.
    + cbn [app split_tail fst snd term_is]. change (c_hyphen =? c_plus)%N with false. cbv iota.
      cbn [term_is]. change (c_plus =? c_plus)%N with true. cbv iota.
      rewrite (build_render v (b0 :: build') ltac:(discriminate) F2). rewrite Hp. reflexivity.
  - cbn [app split_tail fst snd term_is]. change (c_hyphen =? c_hyphen)%N with true. cbv iota.
    pose proof (join_nonempty true (p0 :: pre') ltac:(discriminate) F1) as Hne.
    pose proof (validate_join true (p0 :: pre') ltac:(discriminate) F1) as Hv.
    pose proof (join_plain_plus true _ F1) as Hpl.
    revert Hv Hpl Hne. generalize (join (p0 :: pre')). intros jp Hv Hpl Hne.
    destruct build as [|b0 build'].
    + rewrite app_nil_r. rewrite (read_until_plain_eof plus_t _ Hpl).
      destruct jp as [|q0 q']; [congruence|]. rewrite Hv. cbn [term_is]. reflexivity.
    + rewrite (read_until_plain_char plus_t jp c_plus (join (b0 :: build')) Hpl eq_refl eq_refl).
      destruct jp as [|q0 q']; [congruence|]. rewrite Hv.
      cbn [term_is]. change (c_plus =? c_plus)%N with true. cbv iota.
      rewrite (build_render (with_tail v (q0 :: q') []) (b0 :: build') ltac:(discriminate) F2). reflexivity.
Qed.

(* ---------- the whole string ---------- *)
Lemma req_int_split p x n t rest : req_int p x = Some (n, t, rest) ->
  exists ds tl, num_id ds /\ n = numval ds /\ x = ds ++ tl /\ (t, rest) = split_tail tl /\
                (match tl with [] => True | c :: _ => p c = true end).
Proof.
  intros H. destruct (req_int_inv _ _ _ _ _ H) as [ds [N1 [N2 [Hr Ht]]]]. destruct (read_until_inv _ _ _ _ _ Hr) as [_ M].
  destruct t as [c| |]; [| |congruence].
  - destruct M as [M1 [M2 _]]. exists ds, (c :: rest). auto.
  - destruct M as [M1 M2]. subst. exists ds, []. rewrite app_nil_r. auto.
Qed.
Lemma req_int_app p ds tl :
  (forall d, is_digit d = true -> p d = false) -> num_id ds ->
  (match tl with [] => True | c :: _ => p c = true /\ is_ascii c = true end) ->
  req_int p (ds ++ tl) = Some (numval ds, fst (split_tail tl), snd (split_tail tl)).
Proof.
  intros Hp Hn Ht. destruct tl as [|c r].
  - rewrite app_nil_r. apply req_int_eof; assumption.
  - destruct Ht as [T1 T2]. apply req_int_char; assumption.
Qed.

Lemma dhp_inv c : dot_hyphen_plus_t c = true -> c = c_dot \/ c = c_hyphen \/ c = c_plus.
Proof.
  unfold dot_hyphen_plus_t, dot_t, hyphen_plus_t. intros H. repeat (apply orb_true_iff in H; destruct H as [H|H]); apply N.eqb_eq in H; auto.
Qed.
Lemma hp_inv c : hyphen_plus_t c = true -> c = c_hyphen \/ c = c_plus.
Proof. unfold hyphen_plus_t. intros H. apply orb_true_iff in H. destruct H as [H|H]; apply N.eqb_eq in H; auto. Qed.

Lemma tail_head pre build :
  match tail_of pre build with [] => True | c :: _ => c = c_hyphen \/ c = c_plus end.
Proof. unfold tail_of, render_opt. destruct pre; [destruct build|]; simpl; auto. Qed.

Lemma split_tail_eta tl : split_tail tl = (fst (split_tail tl), snd (split_tail tl)).
Proof. destruct (split_tail tl); reflexivity. Qed.

Theorem accepted_is_semver x v : parse_semver x = Some v -> is_semver x v.
Proof.
  unfold parse_semver. intros H.
  destruct (req_int dot_hyphen_plus_t x) as [[[mj t] r]|] eqn:H1; [|discriminate].
  destruct (req_int_split _ _ _ _ _ H1) as [d1 [tl1 [N1 [V1 [X1 [S1 C1]]]]]].
  destruct tl1 as [|c1 r1].
  { (* major only, nothing after *)
    cbn [split_tail] in S1. inversion S1; subst t r. cbn [term_is] in H.
    destruct (parse_tail_inv (mksv mj 0 0 [] []) [] v eq_refl eq_refl I H) as [pre [build [F1 [F2 [E Ev]]]]].
    exists (Core1 d1), pre, build. split; [exact N1|]. split; [exact F1|]. split; [exact F2|]. split; [rewrite X1, E; reflexivity|].
    rewrite Ev, V1. reflexivity. }
  cbn [split_tail] in S1. inversion S1; subst t r. apply dhp_inv in C1.
  destruct C1 as [C1|C1].
  2:{ (* major, then "-" or "+" *)
    assert (Hd : term_is (TChar c1) c_dot = false) by (destruct C1; subst c1; reflexivity). rewrite Hd in H.
    destruct (parse_tail_inv (mksv mj 0 0 [] []) (c1 :: r1) v eq_refl eq_refl C1 H) as [pre [build [F1 [F2 [E Ev]]]]].
    exists (Core1 d1), pre, build. split; [exact N1|]. split; [exact F1|]. split; [exact F2|]. split; [rewrite X1, E; reflexivity|].
    rewrite Ev, V1. reflexivity. }
  subst c1. cbn [term_is] in H. change (c_dot =? c_dot)%N with true in H. cbv iota in H.
  destruct (req_int dot_hyphen_plus_t r1) as [[[mn t2] r2]|] eqn:H2; [|discriminate].
  destruct (req_int_split _ _ _ _ _ H2) as [d2 [tl2 [N2 [V2 [X2 [S2 C2]]]]]].
  destruct tl2 as [|c2 r2'].
  { cbn [split_tail] in S2. inversion S2; subst t2 r2. cbn [term_is] in H.
    destruct (parse_tail_inv (mksv mj mn 0 [] []) [] v eq_refl eq_refl I H) as [pre [build [F1 [F2 [E Ev]]]]].
    exists (Core2 d1 d2), pre, build. split; [exact (conj N1 N2)|]. split; [exact F1|]. split; [exact F2|].
    split; [rewrite X1, X2, E; cbn [render_core]; rewrite <- app_assoc; reflexivity|]. rewrite Ev, V1, V2. reflexivity. }
  cbn [split_tail] in S2. inversion S2; subst t2 r2. apply dhp_inv in C2.
  destruct C2 as [C2|C2].
  2:{ assert (Hd : term_is (TChar c2) c_dot = false) by (destruct C2; subst c2; reflexivity). rewrite Hd in H.
    destruct (parse_tail_inv (mksv mj mn 0 [] []) (c2 :: r2') v eq_refl eq_refl C2 H) as [pre [build [F1 [F2 [E Ev]]]]].
    exists (Core2 d1 d2), pre, build. split; [exact (conj N1 N2)|]. split; [exact F1|]. split; [exact F2|].
    split; [rewrite X1, X2, E; cbn [render_core]; rewrite <- app_assoc; reflexivity|]. rewrite Ev, V1, V2. reflexivity. }
  subst c2. cbn [term_is] in H. change (c_dot =? c_dot)%N with true in H. cbv iota in H.
  destruct (req_int hyphen_plus_t r2') as [[[pa t3] r3]|] eqn:H3; [|discriminate].
  destruct (req_int_split _ _ _ _ _ H3) as [d3 [tl3 [N3 [V3 [X3 [S3 C3]]]]]].
  assert (C3' : match tl3 with [] => True | c :: _ => c = c_hyphen \/ c = c_plus end).
  { destruct tl3 as [|c3 r3']; [exact I|apply hp_inv; exact C3]. }
  rewrite split_tail_eta in S3. inversion S3; subst t3 r3.
  destruct (parse_tail_inv (mksv mj mn pa [] []) tl3 v eq_refl eq_refl C3' H) as [pre [build [F1 [F2 [E Ev]]]]].
  exists (Core3 d1 d2 d3), pre, build. split; [exact (conj N1 (conj N2 N3))|]. split; [exact F1|]. split; [exact F2|].
  split; [rewrite X1, X2, X3, E; cbn [render_core]; rewrite <- !app_assoc; cbn [app]; rewrite <- !app_assoc; reflexivity|].
  rewrite Ev, V1, V2, V3. reflexivity.
Qed.

Lemma digit_not_dhp d : is_digit d = true -> dot_hyphen_plus_t d = false.
Proof. intros H. apply (digit_facts d H). Qed.
Lemma digit_not_hp d : is_digit d = true -> hyphen_plus_t d = false.
Proof. intros H. apply (digit_facts d H). Qed.

Lemma tail_ok_dhp pre build :
  match tail_of pre build with [] => True | c :: _ => dot_hyphen_plus_t c = true /\ is_ascii c = true end.
Proof. unfold tail_of, render_opt. destruct pre; [destruct build|]; simpl; auto. Qed.
Lemma tail_ok_hp pre build :
  match tail_of pre build with [] => True | c :: _ => hyphen_plus_t c = true /\ is_ascii c = true end.
Proof. unfold tail_of, render_opt. destruct pre; [destruct build|]; simpl; auto. Qed.
Lemma tail_not_dot pre build : term_is (fst (split_tail (tail_of pre build))) c_dot = false.
Proof. unfold tail_of, render_opt. destruct pre; [destruct build|]; reflexivity. Qed.

Theorem semver_is_accepted x v : is_semver x v -> parse_semver x = Some v.
Proof.
  intros [c [pre [build [Hc [F1 [F2 [Ex Ev]]]]]]]. subst x v. unfold parse_semver.
  change (render_opt c_hyphen pre ++ render_opt c_plus build) with (tail_of pre build).
  destruct c as [a|a b|a b d]; cbn [render_core core_ok core_version] in *.
  - rewrite (req_int_app dot_hyphen_plus_t a (tail_of pre build) digit_not_dhp Hc (tail_ok_dhp pre build)).
    rewrite tail_not_dot. apply (parse_tail_render (mksv (numval a) 0 0 [] []) pre build eq_refl eq_refl F1 F2).
  - destruct Hc as [Ha Hb]. rewrite <- app_assoc. cbn [app].
    rewrite (req_int_app dot_hyphen_plus_t a (c_dot :: b ++ tail_of pre build) digit_not_dhp Ha (conj eq_refl eq_refl)).
    cbn [split_tail fst snd term_is]. change (c_dot =? c_dot)%N with true. cbv iota.
    rewrite (req_int_app dot_hyphen_plus_t b (tail_of pre build) digit_not_dhp Hb (tail_ok_dhp pre build)).
    rewrite tail_not_dot. apply (parse_tail_render (mksv (numval a) (numval b) 0 [] []) pre build eq_refl eq_refl F1 F2).
  - destruct Hc as [Ha [Hb Hd]]. rewrite <- !app_assoc. cbn [app]. rewrite <- !app_assoc. cbn [app].
    rewrite (req_int_app dot_hyphen_plus_t a (c_dot :: b ++ c_dot :: d ++ tail_of pre build) digit_not_dhp Ha (conj eq_refl eq_refl)).
    cbn [split_tail fst snd term_is]. change (c_dot =? c_dot)%N with true. cbv iota.
    rewrite (req_int_app dot_hyphen_plus_t b (c_dot :: d ++ tail_of pre build) digit_not_dhp Hb (conj eq_refl eq_refl)).
    cbn [split_tail fst snd term_is]. change (c_dot =? c_dot)%N with true. cbv iota.
    rewrite (req_int_app hyphen_plus_t d (tail_of pre build) digit_not_hp Hd (tail_ok_hp pre build)).
    apply (parse_tail_render (mksv (numval a) (numval b) (numval d) [] []) pre build eq_refl eq_refl F1 F2).
Qed.

Theorem accepts_exactly_semver x v : parse_semver x = Some v <-> is_semver x v.
Proof. split; [apply accepted_is_semver|apply semver_is_accepted]. Qed.

(* ---------- precedence (semver.org item 11) ---------- *)
Definition id_cmp (x y : str) : Z :=
  match forallb is_digit x, forallb is_digit y with
  | true, true => if numval x <? numval y then -1 else if numval y <? numval x then 1 else 0   (* 11.4.1 numerically *)
  | true, false => -1                                                                       (* 11.4.3 numeric is lower *)
  | false, true => 1
  | false, false => if str_ltb x y then -1 else if str_ltb y x then 1 else 0                 (* 11.4.2 ASCII order *)
  end.
Fixpoint ids_cmp (a b : list str) : Z :=
  match a, b with
  | [], [] => 0
  | [], _ :: _ => -1            (* 11.4.4 a larger set of fields is higher when all preceding ones are equal *)
  | _ :: _, [] => 1
  | x :: a', y :: b' => let d := id_cmp x y in if d =? 0 then ids_cmp a' b' else d
  end.
Definition prec (v o : semver) (pv po : list str) : Z :=
  if sv_major v <? sv_major o then -1 else if sv_major o <? sv_major v then 1
  else if sv_minor v <? sv_minor o then -1 else if sv_minor o <? sv_minor v then 1
  else if sv_patch v <? sv_patch o then -1 else if sv_patch o <? sv_patch v then 1
  else match pv, po with
       | [], [] => 0
       | [], _ => 1              (* 11.3 a pre-release version has lower precedence than the normal version *)
       | _, [] => -1
       | _, _ => ids_cmp pv po
       end.

Lemma forallb_digits x : forallb is_digit x = true <-> all_digits x.
Proof. unfold all_digits. rewrite forallb_forall, Forall_forall. reflexivity. Qed.

Lemma pre_ident_num x : pre_ident x ->
  parse_num_nolead x = (if forallb is_digit x then Some (numval x) else None).
Proof.
  intros [[Hn Ha] Hz]. destruct (forallb is_digit x) eqn:Hd.
  - apply parse_num_nolead_spec. split; [|reflexivity]. split; [exact Hn|]. split; [apply forallb_digits; exact Hd|apply Hz; reflexivity].
  - destruct (parse_num_nolead x) as [n|] eqn:E; [|reflexivity]. apply parse_num_nolead_spec in E. destruct E as [[_ [E _]] _].
    apply forallb_digits in E. congruence.
Qed.

Lemma id_step x y : pre_ident x -> pre_ident y ->
  match parse_num_nolead x, parse_num_nolead y with
  | Some n1, Some n2 => if n1 <? n2 then -1 else if n2 <? n1 then 1 else 0
  | Some _, None => -1
  | None, Some _ => 1
  | None, None => if str_ltb x y then -1 else if str_ltb y x then 1 else 0
  end = id_cmp x y.
Proof.
  intros Hx Hy. rewrite (pre_ident_num x Hx), (pre_ident_num y Hy). unfold id_cmp.
  destruct (forallb is_digit x), (forallb is_digit y); reflexivity.
Qed.

Definition nil_l {A} (l : list A) : bool := match l with [] => true | _ => false end.
Lemma is_nil_join ids : Forall pre_ident ids -> is_nil (join ids) = nil_l ids.
Proof.
  intros F. destruct ids as [|x r]; [reflexivity|]. pose proof (join_nonempty true (x :: r) ltac:(discriminate) F) as H.
  destruct (join (x :: r)); [congruence|reflexivity].
Qed.
Lemma read_join x r : Forall pre_ident (x :: r) -> exists t, read_until dot_t (join (x :: r)) = (x, t, join r).
Proof.
  intros F. inversion F as [|? ? Hx Fr]; subst. pose proof (ident_plain_dot x (id_ok_alnum true x Hx)) as Px.
  destruct r as [|y r'].
  - exists TEof. rewrite join_one. apply read_until_plain_eof. exact Px.
  - exists (TChar c_dot). rewrite join_cons2. apply read_until_plain_char; [exact Px|reflexivity|reflexivity].
Qed.

Lemma cmp_pre_ids : forall a b fuel, Forall pre_ident a -> Forall pre_ident b -> (List.length a < fuel)%nat ->
  cmp_pre fuel (join a) (join b) (nil_l a) (nil_l b) = ids_cmp a b.
Proof.
  induction a as [|x a' IH]; intros b fuel Fa Fb Hl; (destruct fuel as [|f]; [simpl in Hl; lia|]).
  - destruct b; reflexivity.
  - destruct b as [|y b']; [reflexivity|].
    cbn [cmp_pre nil_l ids_cmp].
    destruct (read_join x a' Fa) as [t1 R1]. destruct (read_join y b' Fb) as [t2 R2]. rewrite R1, R2.
    inversion Fa as [|? ? Hx Fa']; subst. inversion Fb as [|? ? Hy Fb']; subst.
    rewrite (id_step x y Hx Hy). destruct (id_cmp x y =? 0) eqn:E; cbn [negb]; [|reflexivity].
    change (match join a' with [] => true | _ => false end) with (is_nil (join a')).
    change (match join b' with [] => true | _ => false end) with (is_nil (join b')).
    rewrite (is_nil_join a' Fa'), (is_nil_join b' Fb'). apply IH; [exact Fa'|exact Fb'|simpl in Hl; lia].
Qed.

Theorem cmp_is_precedence v o pv po :
  sv_pre v = join pv -> sv_pre o = join po -> Forall pre_ident pv -> Forall pre_ident po ->
  semver_cmp v o = prec v o pv po.
Proof.
  intros Ev Eo Fv Fo. unfold semver_cmp, prec.
  destruct (sv_major v <? sv_major o); [reflexivity|]. destruct (sv_major o <? sv_major v); [reflexivity|].
  destruct (sv_minor v <? sv_minor o); [reflexivity|]. destruct (sv_minor o <? sv_minor v); [reflexivity|].
  destruct (sv_patch v <? sv_patch o); [reflexivity|]. destruct (sv_patch o <? sv_patch v); [reflexivity|].
  rewrite Ev, Eo, (is_nil_join pv Fv), (is_nil_join po Fo).
  destruct pv as [|x pv']; destruct po as [|y po']; try reflexivity. cbn [nil_l andb].
  apply (cmp_pre_ids (x :: pv') (y :: po')); [exact Fv|exact Fo|].
  pose proof (join_length_ge (x :: pv') (id_ok_nonempty true _ Fv)). lia.
Qed.

(* build metadata never takes part *)
Corollary build_is_ignored v o pv po b1 b2 :
  sv_pre v = join pv -> sv_pre o = join po -> Forall pre_ident pv -> Forall pre_ident po ->
  semver_cmp (with_tail v (sv_pre v) b1) (with_tail o (sv_pre o) b2) = semver_cmp v o.
Proof. intros. reflexivity. Qed.

(* ---------- the numbers: Go int arithmetic is exact up to 18 digits ---------- *)
Fixpoint zvalue (acc : Z) (ds : str) : Z := match ds with [] => acc | c :: r => zvalue (acc * 10 + (Z.of_N c - 48)) r end.
Lemma digits_val_exact : forall ds acc, all_digits ds -> 0 <= acc -> (acc + 1) * 10 ^ zlen ds <= two63 ->
  digits_val acc ds = Some (zvalue acc ds).
Proof.
  induction ds as [|c r IH]; intros acc F Ha Hb; [reflexivity|]. inversion F as [|? ? Hc Fr]; subst.
  cbn [digits_val zvalue]. rewrite Hc.
  assert (Hd : 0 <= Z.of_N c - 48 <= 9).
  { unfold is_digit in Hc. apply andb_true_iff in Hc. destruct Hc as [H1 H2]. apply N.leb_le in H1. apply N.leb_le in H2. lia. }
  assert (Hz : zlen (c :: r) = zlen r + 1) by (unfold zlen; simpl; lia). rewrite Hz in Hb.
  assert (Hl : 0 <= zlen r) by (unfold zlen; lia).
  assert (Hp : 0 < 10 ^ zlen r) by (apply Z.pow_pos_nonneg; lia).
  assert (Hstep : (acc * 10 + (Z.of_N c - 48) + 1) * 10 ^ zlen r <= two63).
  { rewrite Z.pow_add_r in Hb by lia. nia. }
  rewrite wrap64_small by (unfold two63 in *; nia). apply IH; [exact Fr|lia|exact Hstep].
Qed.
Theorem numval_exact ds : all_digits ds -> zlen ds <= 18 -> numval ds = zvalue 0 ds.
Proof.
  intros F L. unfold numval. rewrite (digits_val_exact ds 0 F ltac:(lia)); [reflexivity|].
  rewrite Z.mul_1_l. apply Z.le_trans with (10 ^ 18); [apply Z.pow_le_mono_r; lia|unfold two63; vm_compute; discriminate].
Qed.

(* ... and beyond that it is not: precedence is then wrong (dependency go-semver; known finding) *)
Theorem overflow_refuted :
  exists v o, parse_semver (s "18446744073709551617.0.0") = Some v /\ parse_semver (s "2.0.0") = Some o /\
              semver_cmp v o = -1 /\ zvalue 0 (s "18446744073709551617") > zvalue 0 (s "2").
Proof. exists (mksv 1 0 0 [] []), (mksv 2 0 0 [] []). vm_compute. repeat split; reflexivity. Qed.

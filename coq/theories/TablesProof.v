(* The constant tables lifted from the repository source (gen/Tables.v, regenerated on every run) are the ones the
   model uses.  If the source changes one of them, these proofs stop checking. *)
From LD Require Import Base F32 Data Model Ops Bucket Eval Codec CodecFacts.
From LDGen Require Import Tables.
From Coq Require Import String List ZArith Bool.
Import ListNotations.

Definition str_of (x : string) : str := s x.

(* operator names *)
Definition model_ops : list (string * str) :=
  [("OperatorIn", op_in); ("OperatorEndsWith", op_ends); ("OperatorStartsWith", op_starts); ("OperatorMatches", op_matches);
   ("OperatorContains", op_contains); ("OperatorLessThan", op_lt); ("OperatorLessThanOrEqual", op_le);
   ("OperatorGreaterThan", op_gt); ("OperatorGreaterThanOrEqual", op_ge); ("OperatorBefore", op_before);
   ("OperatorAfter", op_after); ("OperatorSegmentMatch", op_segment); ("OperatorSemVerEqual", op_sv_eq);
   ("OperatorSemVerLessThan", op_sv_lt); ("OperatorSemVerGreaterThan", op_sv_gt)]%string.

Theorem operator_names_match_source :
  map (fun p => (fst p, str_of (snd p))) operator_names = model_ops.
Proof. vm_compute. reflexivity. Qed.

(* big-segments status priorities *)
Theorem status_priorities_match_source :
  status_priorities = [("BigSegmentsStale", bs_priority Stale); ("BigSegmentsStoreError", bs_priority StoreError);
                       ("BigSegmentsNotConfigured", bs_priority NotConfigured)]%string
  /\ status_priority_default = bs_priority Healthy.
Proof. vm_compute. auto. Qed.

(* which internal error types map to MALFORMED_FLAG: all but the segment-cycle error, which has no errorKind method *)
Theorem error_kinds_match_source :
  error_kinds = [("badVariationError", "EvalErrorMalformedFlag"); ("emptyAttrRefError", "EvalErrorMalformedFlag");
                 ("badAttrRefError", "EvalErrorMalformedFlag"); ("emptyRolloutError", "EvalErrorMalformedFlag");
                 ("circularPrereqReferenceError", "EvalErrorMalformedFlag"); ("malformedSegmentError", "EvalErrorMalformedFlag")]%string
  /\ (err_kind (EBadVariation 0) = KMalformed /\ err_kind EEmptyAttr = KMalformed /\ err_kind (EBadAttr []) = KMalformed /\
      err_kind EEmptyRollout = KMalformed /\ err_kind (ECircPrereq []) = KMalformed /\
      err_kind (EMalformedSeg [] EEmptyAttr) = KMalformed /\ err_kind (ECircSeg []) = KException).
Proof. vm_compute. repeat split; reflexivity. Qed.

(* bucketing constants *)
Theorem bucketing_constants_match_source :
  long_scale_src = long_scale /\ hash_prefix_len_src = hash_prefix_len /\
  weight_divisors = [("evaluator.go", "100000.0"); ("evaluator_segment.go", "100000.0")]%string.
Proof. vm_compute. auto. Qed.

(* JSON property names: everything the encoder writes is recognised by the decoder, and the names the model's decoder
   and schema use are exactly among them *)
Definition mem_s (x : string) (l : list string) : bool := existsb (String.eqb x) l.

Theorem written_properties_are_read :
  forallb (fun p => String.eqb p "" || mem_s p read_properties) written_properties = true.
Proof. vm_compute. reflexivity. Qed.

Theorem model_property_names_are_the_source_names :
  forallb (fun p => mem_s p read_properties && mem_s p written_properties)
          (flag_names ++ segment_names ++ clause_names ++ target_names ++ rule_names)%list = true.
Proof. vm_compute. reflexivity. Qed.

Definition legacy_required : list string :=
  ["key"; "on"; "prerequisites"; "targets"; "contextTargets"; "rules"; "fallthrough"; "offVariation"; "variations";
   "clientSide"; "salt"; "trackEvents"; "trackEventsFallthrough"; "debugEventsUntilDate"; "version"; "deleted";
   "clauses"; "values"; "included"; "excluded"; "generation"]%string.
Theorem legacy_properties_are_written : forallb (fun p => mem_s p written_properties) legacy_required = true.
Proof. vm_compute. reflexivity. Qed.

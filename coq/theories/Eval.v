(* evaluator.go, evaluator_segment.go, evaluator_clause.go (segment part): evaluation as a trace-producing function. *)
From LD Require Import Base F32 Data Semver Model Ops Bucket.
Open Scope Z_scope.

Inductive errkind := KMalformed | KUserNotSpecified | KException.
Inductive bsstatus := Healthy | Stale | StoreError | NotConfigured.

Inductive rkind :=
| ROff | RFallthrough | RTarget | RRule (i : Z) (id : str) | RPrereqFailed (k : str) | RError (k : errkind).
Record reason := mkreason { rs_kind : rkind; rs_inexp : bool; rs_bigseg : option bsstatus }.
Record detail := mkdetail { d_value : jv; d_index : option Z; d_reason : reason }.

Definition plain_reason (k : rkind) : reason := mkreason k false None.
Definition err_detail (k : errkind) : detail := mkdetail JNull None (plain_reason (RError k)).

(* errors.go: errorKindForError; circularSegmentReferenceError has no errorKind method *)
Definition err_kind (e : everr) : errkind :=
  match e with ECircSeg _ => KException | _ => KMalformed end.

Definition membership := list (str * bool).
Record bsanswer := mkbsanswer { bs_membership : option membership; bs_status : bsstatus }.
Definition bsprov := option (str -> bsanswer).

Record env := mkenv { e_flags : list (str * flag); e_segments : list (str * segment) }.
Record opts := mkopts { o_secondary : bool; o_logger : bool; o_recorder : bool }.

Record event := mkevent {
  ev_flagkey : str; ev_prereq : flag; ev_detail : detail; ev_isexp : bool; ev_exclude : bool }.

Inductive obs :=
| OGetFlag (k : str) | OGetSegment (k : str)
| OBsQuery (key : str) | OBsCheck (key ref : str)
| OLog (flagkey : str) (e : everr)
| OEvent (ev : event)
| GUnbounded (segkey : str) (has_gen has_kind : bool).       (* ghost: spec only, never compared *)

Record st := mkst {
  s_cache : list (str * option membership);
  s_status : option bsstatus;
  s_trace : list obs                                       (* most recent first *)
}.
Definition st0 : st := mkst [] None [].

Definition M (A : Type) := st -> res A * st.
Definition ret {A} (a : A) : M A := fun s => (Done a, s).
Definition bind {A B} (m : M A) (f : A -> M B) : M B :=
  fun s => match m s with
           | (Done a, s') => f a s'
           | (Panic, s') => (Panic, s')
           | (OutOfFuel, s') => (OutOfFuel, s')
           end.
Notation "x <- m ;; f" := (bind m (fun x => f)) (at level 61, m at next level, right associativity).
Notation "m ;;; f" := (bind m (fun _ => f)) (at level 61, right associativity).
Definition emit (o : obs) : M unit := fun s => (Done tt, mkst (s_cache s) (s_status s) (o :: s_trace s)).
Definition out_of_fuel {A} : M A := fun s => (OutOfFuel, s).
Definition panic {A} : M A := fun s => (Panic, s).

Definition bs_priority (b : bsstatus) : Z :=
  match b with Stale => 1 | StoreError => 2 | NotConfigured => 3 | Healthy => 0 end.
(* computeUpdatedBigSegmentsStatus; None is the empty status string *)
Definition merge_status (old : option bsstatus) (new : option bsstatus) : option bsstatus :=
  match old, new with
  | Some o, Some n => if bs_priority n <? bs_priority o then Some o else Some n
  | Some o, None => if 0 <? bs_priority o then Some o else None
  | None, n => n
  end.
Definition set_status (b : bsstatus) : M unit :=
  fun s => (Done tt, mkst (s_cache s) (Some b) (s_trace s)).

(* isExperiment(flag, reason) *)
Definition is_experiment (f : flag) (r : reason) : bool :=
  if rs_inexp r then true
  else match rs_kind r with
       | RFallthrough => f_track_ft f
       | RRule i _ => match znth_opt (f_rules f) i with Some ru => ru_track ru | None => false end
       | _ => false
       end.

Definition find_key (k : str) (values : list str) (pre : option (list str)) : bool :=
  match pre with Some m => mem_str k m | None => mem_str k values end.

Section Eval.
Variable re_ok : str -> bool.
Variable re_match : str -> str -> bool.
Variable o : opts.
Variable E : env.
Variable P : bsprov.
Variable c : ctx.

Definition log (flagkey : str) (e : everr) : M unit :=
  if o_logger o then emit (OLog flagkey e) else ret tt.

Definition ctx_key_by_kind (k : str) : option str := option_map c_key (ctx_by_kind c k).

(* ---------- segments ---------- *)

Definition seg_target_matches (t : segtarget) : bool :=
  match ctx_key_by_kind (st_kind t) with
  | Some k => find_key k (st_values t) (st_pre t)
  | None => false
  end.

(* the include/exclude lists of a regular segment: Some b = decided *)
Definition regular_lists (sg : segment) : option bool :=
  let dk := ctx_key_by_kind kind_user in
  let in_plain l pre := match dk with Some k => find_key k l pre | None => false end in
  if in_plain (sg_included sg) (sg_pre_inc sg) then Some true
  else if existsb seg_target_matches (sg_inc_ctx sg) then Some true
  else if in_plain (sg_excluded sg) (sg_pre_exc sg) then Some false
  else if existsb seg_target_matches (sg_exc_ctx sg) then Some false
  else None.

Definition big_segment_ref (sg : segment) (g : Z) : str := sg_key sg ++ s ".g" ++ dec g.

(* membership for a context key, with the per-evaluation cache *)
Definition membership_for (key : str) : M (option membership) :=
  fun st1 =>
    match assoc key (s_cache st1) with
    | Some m => (Done m, st1)
    | None =>
      match P with
      | None => (Done None, mkst (s_cache st1) (Some NotConfigured) (s_trace st1))
      | Some prov =>
        let a := prov key in
        (Done (bs_membership a),
         mkst ((key, bs_membership a) :: s_cache st1)
              (merge_status (s_status st1) (Some (bs_status a)))
              (OBsQuery key :: s_trace st1))
      end
    end.

Fixpoint first_clause (cm : clause -> M (er bool)) (cls : list clause) : M (er bool) :=
  match cls with
  | [] => ret (Ok true)
  | cl :: r => m <- cm cl ;;
               match m with
               | Err e => ret (Err e)
               | Ok false => ret (Ok false)
               | Ok true => first_clause cm r
               end
  end.

(* the segment-match branch of clauseMatchesContext *)
Fixpoint seg_match_values (segc : segment -> M (er bool)) (negate : bool) (vals : list jv) : M (er bool) :=
  match vals with
  | [] => ret (Ok negate)
  | JStr k :: r =>
      emit (OGetSegment k) ;;;
      match assoc k (e_segments E) with
      | None => seg_match_values segc negate r
      | Some sg => m <- segc sg ;;
                   match m with
                   | Err e => ret (Err e)
                   | Ok true => ret (Ok (negb negate))
                   | Ok false => seg_match_values segc negate r
                   end
      end
  | _ :: r => seg_match_values segc negate r
  end.

Definition clause_match (segc : segment -> M (er bool)) (cl : clause) : M (er bool) :=
  if str_eqb (cl_op cl) op_segment then seg_match_values segc (cl_negate cl) (cl_values cl)
  else ret (clause_match_noseg re_ok re_match cl c).

(* segmentRuleMatchesContext *)
Definition seg_rule_match (segc : segment -> M (er bool)) (sg : segment) (r : segrule) : M (er bool) :=
  m <- first_clause (clause_match segc) (sr_clauses r) ;;
  match m with
  | Err e => ret (Err e)
  | Ok false => ret (Ok false)
  | Ok true =>
    match sr_weight r with
    | None => ret (Ok true)
    | Some w =>
      match compute_bucket (o_secondary o) c false None (sr_kind r) (sg_key sg) (sr_bucket_by r) (sg_salt sg) with
      | Err e => ret (Err e)
      | Ok (b, BLacksKind) => ret (Ok false)
      | Ok (b, _) => ret (Ok (f32_ltb b (weight_frac w)))
      end
    end
  end.

Fixpoint seg_rules (rm : segrule -> M (er bool)) (key : str) (rs : list segrule) : M (er bool) :=
  match rs with
  | [] => ret (Ok false)
  | r :: rest => m <- rm r ;;
                 match m with
                 | Err e => ret (Err (EMalformedSeg key e))
                 | Ok true => ret (Ok true)
                 | Ok false => seg_rules rm key rest
                 end
  end.

(* segmentContainsContext *)
Fixpoint seg_contains (fuel : nat) (chain : list str) (sg : segment) : M (er bool) :=
  match fuel with
  | O => out_of_fuel
  | S n =>
    if mem_str (sg_key sg) chain then ret (Err (ECircSeg (sg_key sg)))
    else
      let chain' := chain ++ [sg_key sg] in
      early <-
        (if sg_unbounded sg then
           match sg_generation sg with
           | None => emit (GUnbounded (sg_key sg) false false) ;;; set_status NotConfigured ;;; ret (Some false)
           | Some g =>
             match ctx_key_by_kind (sg_unb_kind sg) with
             | None => emit (GUnbounded (sg_key sg) true false) ;;; ret (Some false)
             | Some k =>
               emit (GUnbounded (sg_key sg) true true) ;;;
               m <- membership_for k ;;
               match m with
               | None => ret None
               | Some mem =>
                 emit (OBsCheck k (big_segment_ref sg g)) ;;;
                 ret (assoc (big_segment_ref sg g) mem)
               end
             end
           end
         else ret (regular_lists sg)) ;;
      match early with
      | Some b => ret (Ok b)
      | None => seg_rules (seg_rule_match (seg_contains n chain') sg) (sg_key sg) (sg_rules sg)
      end
  end.

Definition seg_fuel : nat := S (List.length (e_segments E)).

(* ---------- flags ---------- *)

(* getVariation *)
Definition get_variation (f : flag) (i : Z) (r : reason) : M detail :=
  match znth_opt (f_vars f) i with
  | Some v => ret (mkdetail v (Some i) r)
  | None => log (f_key f) (EBadVariation i) ;;; ret (err_detail KMalformed)
  end.

(* getOffValue *)
Definition off_value (f : flag) (r : reason) : M detail :=
  match f_off f with
  | None => ret (mkdetail JNull None r)
  | Some i => get_variation f i r
  end.

(* variationOrRolloutResult *)
Definition vr_result (vr : vorr) (key salt : str) : res (er (Z * bool)) :=
  match vr_var vr with
  | Some v => Done (Ok (v, false))
  | None =>
    let ro := vr_rollout vr in
    match ro_vars ro with
    | [] => Done (Err EEmptyRollout)
    | wvs =>
      let is_exp := is_experiment_rollout ro in
      match compute_bucket (o_secondary o) c is_exp (ro_seed ro) (ro_ctxkind ro) key (ro_bucket_by ro) salt with
      | Err e => Done (Err e)
      | Ok (b, fail) =>
        let lacks := match fail with BLacksKind => true | _ => false end in
        match scan b f32_zero wvs with
        | Some wv => Done (Ok (wv_var wv, is_exp && negb (wv_untracked wv) && negb lacks))
        | None => match last_opt wvs with
                  | None => Panic
                  | Some wv => Done (Ok (wv_var wv, is_exp && negb (wv_untracked wv) && negb lacks))
                  end
        end
      end
    end
  end.

(* reasonToExperimentReason *)
Definition to_experiment_reason (r : reason) : reason :=
  match rs_kind r with
  | RFallthrough | RRule _ _ => mkreason (rs_kind r) true (rs_bigseg r)
  | _ => r
  end.

(* getValueForVariationOrRollout *)
Definition vr_detail (f : flag) (vr : vorr) (r : reason) : M detail :=
  match vr_result vr (f_key f) (f_salt f) with
  | Panic => panic
  | OutOfFuel => out_of_fuel
  | Done (Err e) => log (f_key f) e ;;; ret (err_detail (err_kind e))
  | Done (Ok (i, inexp)) => get_variation f i (if inexp then to_experiment_reason r else r)
  end.

(* targetMatchVariation *)
Definition target_match (t : target) : option Z :=
  match ctx_by_kind c (t_kind t) with
  | Some i => if find_key (c_key i) (t_values t) (t_pre t) then Some (t_var t) else None
  | None => None
  end.

Fixpoint first_target (ts : list target) : option Z :=
  match ts with
  | [] => None
  | t :: r => match target_match t with Some v => Some v | None => first_target r end
  end.

(* the user-kind fallback: first Targets entry with the same variation *)
Fixpoint fallback_target (ts : list target) (v : Z) : option Z :=
  match ts with
  | [] => None
  | t1 :: r => if t_var t1 =? v then target_match t1 else fallback_target r v
  end.

Fixpoint ctx_targets (f : flag) (ts : list target) : option Z :=
  match ts with
  | [] => None
  | t :: r =>
    let v := if (match t_kind t with [] => true | _ => str_eqb (t_kind t) kind_user end)
                && (match t_values t with [] => true | _ => false end)
             then fallback_target (f_targets f) (t_var t)
             else target_match t in
    match v with Some x => Some x | None => ctx_targets f r end
  end.

(* anyTargetMatchVariation *)
Definition any_target_match (f : flag) : option Z :=
  match f_ctargets f with
  | [] => first_target (f_targets f)
  | cts => ctx_targets f cts
  end.

Inductive prereq_outcome := POk | PFailed (k : str) | PAbort.

(* the loop of checkPrerequisites; `ev` is the nested evaluation (evaluatePrerequisite's call to evaluate) *)
Fixpoint prereq_loop (ev : flag -> M (detail * bool)) (f : flag) (chain' : list str) (ps : list prereq)
  : M prereq_outcome :=
  match ps with
  | [] => ret POk
  | p :: rest =>
    emit (OGetFlag (pq_key p)) ;;;
    match assoc (pq_key p) (e_flags E) with
    | None => ret (PFailed (pq_key p))
    | Some pf =>
      if mem_str (f_key pf) chain' then log (f_key f) (ECircPrereq (f_key pf)) ;;; ret PAbort
      else
        r <- ev pf ;;
        let '(d, ok) := r in
        if negb ok then ret PAbort
        else
          (if o_recorder o
           then emit (OEvent (mkevent (f_key f) pf d (is_experiment pf (d_reason d)) (f_exclude pf)))
           else ret tt) ;;;
          if negb (f_on pf) || (match d_index d with None => true | Some i => negb (i =? pq_var p) end)
          then ret (PFailed (pq_key p))
          else prereq_loop ev f chain' rest
    end
  end.

Fixpoint rules_loop (segc : segment -> M (er bool)) (f : flag) (rs : list rule) (i : Z) : M (detail * bool) :=
  match rs with
  | [] => d <- vr_detail f (f_fallthrough f) (plain_reason RFallthrough) ;; ret (d, true)
  | ru :: rest =>
    m <- first_clause (clause_match segc) (ru_clauses ru) ;;
    match m with
    | Err e => log (f_key f) e ;;; ret (err_detail (err_kind e), false)
    | Ok true => d <- vr_detail f (ru_vr ru) (plain_reason (RRule i (ru_id ru))) ;; ret (d, true)
    | Ok false => rules_loop segc f rest (i + 1)
    end
  end.

(* evaluationScope.evaluate *)
Fixpoint eval_flag (fuel : nat) (chain : list str) (f : flag) : M (detail * bool) :=
  match fuel with
  | O => out_of_fuel
  | S n =>
    if negb (f_on f) then d <- off_value f (plain_reason ROff) ;; ret (d, true)
    else
      p <- (match f_prereqs f with
            | [] => ret POk
            | ps => let chain' := chain ++ [f_key f] in prereq_loop (eval_flag n chain') f chain' ps
            end) ;;
      match p with
      | PAbort => ret (err_detail KMalformed, false)
      | PFailed k => d <- off_value f (plain_reason (RPrereqFailed k)) ;; ret (d, true)
      | POk =>
        match any_target_match f with
        | Some v => d <- get_variation f v (plain_reason RTarget) ;; ret (d, true)
        | None => rules_loop (seg_contains seg_fuel []) f (f_rules f) 0
        end
      end
  end.

Definition flag_fuel : nat := S (S (List.length (e_flags E))).

Record outcome := mkoutcome { out_detail : detail; out_isexp : bool; out_trace : list obs }.

(* evaluator.Evaluate *)
Definition run (f : flag) : res outcome :=
  match c with
  | CInvalid => Done (mkoutcome (err_detail KUserNotSpecified) false [])
  | _ =>
    match eval_flag flag_fuel [] f st0 with
    | (Done (d, _), st1) =>
      let d' := match s_status st1 with
                | Some b => mkdetail (d_value d) (d_index d)
                                     (mkreason (rs_kind (d_reason d)) (rs_inexp (d_reason d)) (Some b))
                | None => d
                end in
      Done (mkoutcome d' (is_experiment f (d_reason d')) (rev (s_trace st1)))
    | (Panic, _) => Panic
    | (OutOfFuel, _) => OutOfFuel
    end
  end.

End Eval.

Arguments seg_fuel : simpl never.
Arguments flag_fuel : simpl never.
